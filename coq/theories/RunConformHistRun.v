(* RunConformHistRun.v -- C01 on charts with <history> (wf_histb): the driver loop around LargeMicroStep::step
   (Interp.run_loop from the pristine state) against Appendix D's interpret() (Spec.spec_run).  The composition of
   RunConformInitialLoop.v over the relation rsimHHH (with related histories); the guards (RunConformLoop.run_guardb,
   run_completeb) are the ones of the core theorems.  Proofs only. *)
From V Require Import Base NameMatch NameMatchLemmas Chart Exec Large LargeLemmas Spec Legal SetLemmas LegalAbstract LegalLarge
  Interp LegalRun WfCore LegalOracle LargeCacheLemmas ExitSetLemmas SelectConform SelectConformLemmas SelectConformOrder
  SelectConformRoot SelectConformFlatten MicroConform MicroConformLemmas MicroConformEntry MicroConformCompose MicroConformFlatten
  Serialize SerializeCongLemmas RunConformBase RunConformTok RunConformMicro RunConformInit RunConformStep RunConformLoop
  LegalHistBase LegalHistEntry LegalHistStep LegalHistRun LegalHistWf LegalHistOracle
  RunConformInitialBase RunConformInitialWf RunConformInitialSelLegal RunConformInitialFlat RunConformInitialInit RunConformInitialStep
  RunConformHistRel RunConformHistFlat RunConformHistInit RunConformHistStep.
Local Open Scope nat_scope.

Section SimHH.
Variable late : bool.
Variable t0 : tree.
Notation c := (flatten late t0).
Notation r := (fs_sid (st c 0)).
Hypothesis Hstatic : static_hb c = true.
Notation RL := (run_loop c lstate (large_step lg_fixed ex_fixed c) l_cfg).

(* after the initial step, before FINISHED *)
Definition RSHH (l : lstate) (xl : xstate) (s : sstate) (xs : xstate) : Prop :=
  rsimHH c l xl s xs /\ l_fin l = false /\ l_cancelled l = false /\ l_init l = true.

(* what is compared at the end of a run: Appendix D's exitInterpreter has run iff the engine is FINISHED *)
Definition fin_relHH (res : lstate * xstate) (sp : sstate * xstate) : Prop :=
  let xs' := if l_fin (fst res) then exit_interpreter c (fst sp) (snd sp) else snd sp in
  corr c (fst res) (fst sp) /\ x_store (snd res) = x_store xs' /\ veq r (x_out (snd res)) (x_out xs').

Definition ConclHH (b : nat) (res : lstate * xstate) (done : bool) (s : sstate) (xs : xstate) (evs : list bytes) : Prop :=
  exists k, k <= b /\ fin_relHH res (spec_loop c k s xs evs) /\
    (done = true -> l_fin (fst res) = negb (s_running (fst (spec_loop c k s xs evs))) /\
                    forall k', k <= k' -> spec_loop c k' s xs evs = spec_loop c k s xs evs).

Lemma concl_weaken_hh b b' res done s xs evs : b <= b' -> ConclHH b res done s xs evs -> ConclHH b' res done s xs evs.
Proof. intros Hb (k & Hk & H). exists k. split; [lia | exact H]. Qed.

Lemma concl_iter_hh b res done s xs evs s1 xs1 evs1 :
  (forall k, spec_loop c (S k) s xs evs = spec_loop c k s1 xs1 evs1) ->
  ConclHH b res done s1 xs1 evs1 -> ConclHH (S b) res done s xs evs.
Proof.
  intros Hit (k & Hk & HF & HD). exists (S k). split; [lia|]. rewrite Hit. split; [exact HF|].
  intros Hd. destruct (HD Hd) as [A B]. split; [exact A|]. intros k' Hk'. destruct k' as [|k'']; [lia|].
  rewrite Hit. apply B. lia.
Qed.

Lemma rsimHH_phase2 l xl s xs : rsimHH c l xl s xs -> l_init l = true ->
  corr c l s /\ StOK c l /\ ssorted (l_cfg l) /\ HRel c l s /\ (l_fin l = false -> l_tlf l = false -> l_spont l = false -> noev c s xs).
Proof.
  intros [_ _ _ [(Hp & _)|(_ & H)]] Hi; [|exact H]. rewrite (init_not_pristine' l Hi) in Hp. discriminate.
Qed.

Lemma rsimHH_fin_relHH l xl s xs : rsimHH c l xl s xs -> l_init l = true -> l_fin l = false -> fin_relHH (l, xl) (s, xs).
Proof.
  intros HR Hi Hf. destruct (rsimHH_phase2 l xl s xs HR Hi) as (Hc & _). destruct HR as [(Dst & _) Hv _ _].
  unfold fin_relHH. cbn [fst snd]. rewrite Hf. auto.
Qed.

Definition IHypHH (f : nat) : Prop :=
  forall l xl evs s xs, RSHH l xl s xs -> run_guard c f l xl evs = true ->
    ConclHH f (RL f l xl evs) (run_done c f l xl evs) s xs evs.

(* the branches of step() that select transitions *)
Lemma sel_branch_hh f l x1 x1s ev s xs0 evs evs0 :
  IHypHH f ->
  l_init l = true -> l_fin l = false -> l_cancelled l = false ->
  corr c l s -> StOK c l -> ssorted (l_cfg l) -> HRel c l s ->
  xsim r x1 x1s -> sel_guardb c (l_cfg l) ev x1 = true ->
  (ev = None -> xs0 = x1s /\ evs0 = evs) ->
  (fst (select_transitions c (s_cfg s) (s_hv s) ev x1s) <> [] \/ ev <> None ->
   forall k, spec_loop c (S k) s xs0 evs0 =
             spec_loop c k (fst (spec_select_step c s x1s ev)) (snd (spec_select_step c s x1s ev)) evs) ->
  let rl := select_and_step lg_fixed ex_fixed c l x1 ev in
  let l1 := fst (fst rl) in let x2 := loop_toks c l1 (snd rl) (snd (fst rl)) in
  snd rl = RC_MICROSTEPPED /\
  (run_guard c f l1 x2 evs = true -> ConclHH (S f) (RL f l1 x2 evs) (run_done c f l1 x2 evs) s xs0 evs0).
Proof.
  intros IH Hi Hf Hcn Hcorr HL Hs HRl Hx Hg Hnone Hit. cbn zeta.
  destruct (select_step_conforms_hh late t0 Hstatic l s x1 x1s ev Hi Hcorr HL Hs HRl Hx Hg) as (Hrc & HR1 & Hf1 & Hc1 & _ & Hen0 & Hen1 & _).
  split; [exact Hrc|]. intros Hg1.
  pose proof (select_and_step_init c ex_fixed l x1 ev Hi) as Hi1.
  assert (HRS1 : RSHH (fst (fst (select_and_step lg_fixed ex_fixed c l x1 ev)))
                    (loop_toks c (fst (fst (select_and_step lg_fixed ex_fixed c l x1 ev))) (snd (select_and_step lg_fixed ex_fixed c l x1 ev))
                               (snd (fst (select_and_step lg_fixed ex_fixed c l x1 ev))))
                    (fst (spec_select_step c s x1s ev)) (snd (spec_select_step c s x1s ev))).
  { split; [exact HR1|]. split; [congruence|]. split; [congruence | exact Hi1]. }
  pose proof (IH _ _ evs _ _ HRS1 Hg1) as HC.
  destruct (fst (select_transitions c (s_cfg s) (s_hv s) ev x1s)) as [|t rr] eqn:Een.
  - destruct ev as [e|].
    + refine (concl_iter_hh f _ _ s xs0 evs0 _ _ evs _ HC). apply Hit; right; discriminate.
    + destruct (Hnone eq_refl) as [-> ->]. destruct (Hen0 eq_refl) as [Eq _]. rewrite Eq in HC. cbn [fst snd] in HC.
      apply (concl_weaken_hh f (S f)); [lia | exact HC].
  - refine (concl_iter_hh f _ _ s xs0 evs0 _ _ evs _ HC). apply Hit; left; discriminate.
Qed.

Ltac rc_eval_hh :=
  change ((RC_MICROSTEPPED =? RC_FINISHED)%N) with false in *; change ((RC_MICROSTEPPED =? RC_IDLE)%N) with false in *;
  change ((RC_MACROSTEPPED =? RC_FINISHED)%N) with false in *; change ((RC_MACROSTEPPED =? RC_IDLE)%N) with false in *;
  change ((RC_IDLE =? RC_FINISHED)%N) with false in *; change ((RC_IDLE =? RC_IDLE)%N) with true in *;
  change ((RC_FINISHED =? RC_FINISHED)%N) with true in *.

(* after the branch of step() has been identified as a selection: continue with sel_branch *)
Ltac use_sel_branch_hhh HB :=
  let Hrc := fresh "Hrc" in let rc := fresh "rc" in let l1 := fresh "l1" in let x1 := fresh "x1" in
  destruct HB as [Hrc HC]; revert Hrc HC; cbn zeta;
  match goal with |- context [select_and_step lg_fixed ex_fixed ?c ?l ?X ?ev] =>
    destruct (select_and_step lg_fixed ex_fixed c l X ev) as [[l1 x1] rc] end;
  cbn [fst snd]; intros Hrc HC; subst rc; rc_eval_hh; cbn iota.

Lemma run_sim_hh : forall fuel, IHypHH fuel.
Proof.
  induction fuel as [fuel IH] using lt_wf_ind. intros l xl evs s xs HRS Hg.
  destruct HRS as (HR & Ffin & Fcn & Fi).
  destruct fuel as [|f].
  { exists 0. split; [lia|]. cbn [run_loop spec_loop run_done]. split; [now apply rsimHH_fin_relHH | discriminate]. }
  destruct (rsimHH_phase2 l xl s xs HR Fi) as (Hcorr & HL & Hs & HRl & Hno).
  pose proof HR as [Hdyn Hveq Hwant _]. pose proof Hdyn as (Dst & Diq & Deq).
  pose proof Hcorr as (Hc & Ht & Hd).
  assert (IHf : IHypHH f) by (apply IH; lia).
  rewrite run_loop_unfold. cbn [run_guard run_done] in *. apply andb_true_iff in Hg as [Hsg Hg].
  pose proof (large_step_conforms_hist_lemma late t0 Hstatic l xl s xs HR Hsg) as HS. cbn zeta in HS.
  revert HS Hg. unfold step_guardb in Hsg. unfold large_step, spec_step. rewrite Ffin in *.
  destruct (l_tlf l) eqn:Ftlf.
  { (* TOP_LEVEL_FINAL: completion, FINISHED *)
    cbn [fst snd]. rc_eval_hh. cbn iota. intros HS _.
    assert (Hrun : s_running s = false) by (destruct (s_running s); [discriminate Ht | reflexivity]).
    exists 0. split; [lia|]. cbn [spec_loop]. split.
    - unfold fin_relHH. cbn [fst snd l_fin]. destruct HS as [(D1 & _) V1 _ P1]. split; [|split; [exact D1 | exact V1]].
      destruct P1 as [(Hp & _)|(_ & C1 & _)]; [|exact C1].
      unfold is_pristine in Hp. cbn [l_spont l_init l_tlf l_fin l_stable] in Hp. rewrite !orb_true_r in Hp. discriminate.
    - intros _. cbn [fst l_fin]. split; [now rewrite Hrun|]. intros k' _. now rewrite !SL_notrunning. }
  assert (Hrun : s_running s = true) by (destruct (s_running s); [reflexivity | discriminate Ht]).
  rewrite (init_not_pristine' l Fi) in *.
  destruct (l_spont l) eqn:Fsp.
  { (* SPONTANEOUS: event-less selection *)
    intros _ Hg.
    pose proof (sel_branch_hh f l xl xs None s xs evs evs IHf Fi Ffin Fcn Hcorr HL Hs HRl (Build_xsim _ _ _ Hdyn Hveq Hwant) Hsg
                  (fun _ => conj eq_refl eq_refl)) as HB.
    lapply HB; [clear HB; intros HB|].
    2:{ intros [Hne|Hne]; [|now elim Hne]. intros k. now apply SL_evless. }
    revert Hg. use_sel_branch_hhh HB. exact HC. }
  destruct (x_iq xl) as [|e rq] eqn:Eiq.
  2:{ (* an internal event *)
    rewrite <- Diq. intros _ Hg. apply andb_true_iff in Hsg as [Hn Hgs]. unfold namedb in Hn.
    revert Hg. destruct (ev_name e) as [|b bs] eqn:En; [discriminate|]. rewrite <- En. intros Hg.
    pose proof (sel_branch_hh f l (deq_int xl e rq) (deq_int xs e rq) (Some e) s xs evs evs IHf Fi Ffin Fcn Hcorr HL Hs HRl) as HB.
    lapply HB; [clear HB; intros HB|].
    2:{ constructor; [unfold deq_int, same_dyn; cbn [emit x_store x_iq x_eq]; auto | unfold deq_int; cbn [emit x_out]; now apply veq_cons |].
        unfold deq_int. cbn [emit x_out]. rewrite vw_same; [exact Hwant | reflexivity]. }
    specialize (HB Hgs). lapply HB; [clear HB; intros HB | discriminate].
    lapply HB; [clear HB; intros HB|].
    2:{ intros _ k. apply SL_int; [exact Hrun | now apply Hno | now symmetry]. }
    revert Hg. change (emit (TEv (ev_name e)) {| x_store := x_store xl; x_iq := rq; x_eq := x_eq xl; x_out := x_out xl |}) with (deq_int xl e rq).
    use_sel_branch_hhh HB. exact HC. }
  rewrite <- Diq.
  destruct (l_stable l) eqn:Fst; cbn [negb].
  2:{ (* the STABLE notification *)
    cbn [fst snd]. rc_eval_hh. cbn iota. intros HS Hg.
    apply (concl_weaken_hh f (S f)); [lia|]. apply IHf; [|exact Hg]. split; [exact HS|]. cbn [upd_flags l_fin l_cancelled l_init]. auto. }
  rewrite <- Deq. destruct (x_eq xl) as [|e rq] eqn:Eeq.
  2:{ (* an external event of the chart itself *)
    intros _ Hg. apply andb_true_iff in Hsg as [Hn Hgs]. unfold namedb in Hn.
    revert Hg. destruct (ev_name e) as [|b bs] eqn:En; [discriminate|]. rewrite <- En. intros Hg.
    unfold deq_ext in Hgs. rewrite Eiq in Hgs.
    pose proof (sel_branch_hh f l (emit (TEv (ev_name e)) {| x_store := x_store xl; x_iq := []; x_eq := rq; x_out := x_out xl |})
                  (deq_ext xs e rq) (Some e) s xs evs evs IHf Fi Ffin Fcn Hcorr HL Hs HRl) as HB.
    lapply HB; [clear HB; intros HB|].
    2:{ constructor; [unfold deq_ext, same_dyn; cbn [emit x_store x_iq x_eq]; auto | unfold deq_ext; cbn [emit x_out]; now apply veq_cons |].
        cbn [emit x_out]. rewrite vw_same; [exact Hwant | reflexivity]. }
    specialize (HB Hgs). lapply HB; [clear HB; intros HB | discriminate].
    lapply HB; [clear HB; intros HB|].
    2:{ intros _ k. apply SL_ext; [exact Hrun | now apply Hno | now symmetry | now symmetry]. }
    revert Hg. use_sel_branch_hhh HB. exact HC. }
  (* IDLE *)
  rewrite Fcn. cbn [fst snd]. rc_eval_hh. cbn iota. intros HS Hg.
  assert (Hnoev : noev c s xs) by now apply Hno.
  destruct evs as [|nm rv].
  { exists 0. split; [lia|]. cbn [spec_loop]. split; [now apply rsimHH_fin_relHH|].
    intros _. cbn [fst]. split; [now rewrite Ffin, Hrun|]. intros k' _. apply SL_stop; [exact Hrun | exact Hnoev | now symmetry | now symmetry]. }
  (* the next event is handed in; the step after IDLE dequeues it *)
  apply andb_true_iff in Hg as [Hnm Hg].
  pose proof HS as [_ V2 W2 _].
  destruct f as [|f'].
  { cbn [run_loop run_done]. exists 0. split; [lia|]. split; [|discriminate]. cbn [spec_loop].
    unfold fin_relHH. cbn [fst snd]. rewrite Ffin. split; [exact Hcorr|]. split; [exact Dst | exact V2]. }
  rewrite run_loop_unfold. cbn [run_guard run_done] in Hg |- *. apply andb_true_iff in Hg as [Hsg2 Hg].
  revert Hsg2 Hg. unfold step_guardb, large_step. rewrite Ffin, Ftlf, (init_not_pristine' l Fi), Fsp.
  cbn [raise_ext loop_toks emit x_iq x_eq x_store x_out]. rewrite Eiq, Eeq, Fst. cbn [negb app mkext ev_name].
  destruct nm as [|b bs]; [discriminate Hnm|]. intros Hsg2 Hg.
  apply andb_true_iff in Hsg2 as [_ Hgs]. unfold deq_ext in Hgs. cbn [raise_ext loop_toks emit x_iq x_eq x_store x_out mkext ev_name] in Hgs. rewrite Eiq in Hgs.
  assert (IHf' : IHypHH f') by (apply IH; lia).
  match type of Hgs with sel_guardb _ _ _ ?X = true =>
    pose proof (sel_branch_hh f' l X (emit (TEv (b :: bs)) xs) (Some (mkext (b :: bs))) s xs rv ((b :: bs) :: rv) IHf' Fi Ffin Fcn Hcorr HL Hs HRl) as HB end.
  lapply HB; [clear HB; intros HB|].
  2:{ constructor.
      - unfold same_dyn. cbn [emit x_store x_iq x_eq]. auto.
      - cbn [emit x_out]. apply veq_cons. exact V2.
      - cbn [emit x_out]. rewrite vw_same; [exact W2 | reflexivity]. }
  specialize (HB Hgs). lapply HB; [clear HB; intros HB | discriminate].
  lapply HB; [clear HB; intros HB|].
  2:{ intros _ k. apply SL_evs; [exact Hrun | exact Hnoev | now symmetry | now symmetry]. }
  revert Hg. use_sel_branch_hhh HB. intros Hg. apply (concl_weaken_hh (S f') (S (S f'))); [lia | exact (HC Hg)].
Qed.

(* ---- from the pristine interpreter ---- *)

Lemma first_step_hh fuel evs :
  run_guard c (S fuel) l_pristine x_init evs = true ->
  exists l1 x2,
    RL (S fuel) l_pristine x_init evs = RL fuel l1 x2 evs /\
    run_done c (S fuel) l_pristine x_init evs = run_done c fuel l1 x2 evs /\
    run_guard c fuel l1 x2 evs = true /\
    RSHH l1 x2 (fst (spec_init c x_init)) (snd (spec_init c x_init)).
Proof.
  intros Hg.
  assert (HR0 : rsimHH c l_pristine x_init spec_s0 x_init).
  { constructor; [apply same_dyn_refl | apply veq_refl | reflexivity | left; split; [reflexivity|]; split; [reflexivity|]; split; reflexivity]. }
  rewrite run_loop_unfold. cbn [run_guard run_done] in *. apply andb_true_iff in Hg as [Hsg Hg].
  pose proof (large_step_conforms_hist_lemma late t0 Hstatic l_pristine x_init spec_s0 x_init HR0 Hsg) as HS. cbn zeta in HS.
  revert HS Hg. unfold large_step, spec_step. cbn [l_pristine l_fin l_tlf is_pristine l_spont l_init l_stable orb negb].
  destruct (microstep_flags c l_pristine (emit TMsB x_init) (fs_completion (st c 0)) [] [] true) as (F1 & F2 & F3 & F4 & F5).
  destruct (microstep lg_fixed ex_fixed c l_pristine (emit TMsB x_init) (fs_completion (st c 0)) [] [] true) as [l1 x1].
  cbn [fst snd] in *. rc_eval_hh. cbn iota. intros HS Hg.
  exists l1, (loop_toks c l1 RC_MICROSTEPPED x1). split; [reflexivity|]. split; [reflexivity|]. split; [exact Hg|].
  split; [exact HS|]. auto.
Qed.

(* every bound on the number of calls of step() *)
Theorem run_conforms_prefix_hist_lemma evs fuel :
  run_guardb c evs (S fuel) = true ->
  exists k, k <= fuel /\
    let res := RL (S fuel) l_pristine x_init evs in
    let sp := spec_loop c k (fst (spec_init c x_init)) (snd (spec_init c x_init)) evs in
    let xs' := if l_fin (fst res) then exit_interpreter c (fst sp) (snd sp) else snd sp in
    corr c (fst res) (fst sp) /\ x_store (snd res) = x_store xs' /\
    spec_view r (rev (x_out (snd res))) = spec_view r (rev (x_out xs')).
Proof.
  intros Hg. destruct (first_step_hh fuel evs Hg) as (l1 & x2 & E1 & _ & Hg1 & HRS).
  destruct (run_sim_hh fuel l1 x2 evs _ _ HRS Hg1) as (k & Hk & (A & B & [V _]) & _).
  exists k. split; [exact Hk|]. cbn zeta. rewrite E1. split; [exact A|]. split; [exact B | exact V].
Qed.

(* complete runs: the engine's projected trace and final store are the ones of Appendix D, for every spec fuel
   that is at least the number of calls of step() *)
Theorem run_conforms_hist_lemma evs fuel :
  run_guardb c evs fuel = true -> run_completeb c evs fuel = true ->
  forall fuel', fuel <= fuel' ->
    spec_view r (fst (run_large lg_fixed ex_fixed late t0 evs fuel)) = spec_view r (fst (run_spec late t0 evs fuel')) /\
    snd (run_large lg_fixed ex_fixed late t0 evs fuel) = snd (run_spec late t0 evs fuel').
Proof.
  intros Hg Hd fuel' Hle. destruct fuel as [|f]; [discriminate Hd|].
  destruct (first_step_hh f evs Hg) as (l1 & x2 & E1 & E2 & Hg1 & HRS).
  unfold run_completeb in Hd. rewrite E2 in Hd.
  destruct (run_sim_hh f l1 x2 evs _ _ HRS Hg1) as (k & Hk & (A & B & [V _]) & HD).
  destruct (HD Hd) as [Hfin Hstab].
  unfold run_large, run_spec. rewrite spec_run_unfold. cbn zeta. fold c. rewrite E1.
  destruct (spec_init c x_init) as [s1 x3]. cbn [fst snd] in *.
  rewrite (Hstab fuel' ltac:(lia)).
  destruct (RL f l1 x2 evs) as [lf xf]. destruct (spec_loop c k s1 x3 evs) as [s2 x4]. cbn [fst snd] in *.
  rewrite Hfin in *. destruct (s_running s2); cbn [negb] in *; split; assumption.
Qed.

End SimHH.


(* ------------------------------------------------------------------ the initial microstep, on boolean hypotheses *)

Section InitFlatHH.
Variable late : bool.
Variable t0 : tree.
Notation c := (flatten late t0).
Notation r := (fs_sid (st c 0)).

Theorem initial_step_conforms_hist_lemma l xl xs :
  static_hb c = true ->
  is_pristine l = true -> l_cfg l = [] -> l_initd l = [] -> HistOK c (l_hist l) -> same_dyn xl xs ->
  let rl := large_step lg_fixed ex_fixed c l xl in
  let q := spec_init c xs in
  snd rl = RC_MICROSTEPPED /\
  corr c (fst (fst rl)) (fst q) /\ s_hv (fst q) = [] /\ same_dyn (snd (fst rl)) (snd q) /\
  legal_configb c (l_cfg (fst (fst rl))) = true /\
  exists d dg,
    x_out (snd (fst rl)) = TMsE :: d ++ TEe r :: TEb r :: TMsB :: x_out xl /\
    x_out (snd q) = spec_cfg_tok c (fst q) :: TMsE :: d ++ TDiag dg :: TMsB :: x_out xs.
Proof.
  intros Hstatic Hp Hcfg0 Hinitd0 HH0 Hdyn.
  destruct (static_h_parts late t0 Hstatic) as (HS & Hun & Hnamed & Hox & Hrp & Hrs).
  pose proof (mh_wfh c HS) as W.
  pose proof (initial_step_initial_sech c W (mh_cplok c HS) (mh_cplanti c HS) (mh_tganti c HS) Hnamed (mh_root c HS) Hrp
                (flatten_root_onentry late t0) (mh_silent c HS) (flatten_has_body late t0) (early_data_flat_h late t0)
                (mh_par c HS) (mh_fin_par c HS) (mh_fin_up c HS) (mh_flags c HS) l xl xs Hp Hcfg0 Hinitd0 HH0 Hdyn (mh_trn c HS) Hrs) as HI.
  cbn zeta in HI.
  pose proof (initial_step_legal_h c ex_fixed W (mh_root c HS) l (emit TMsB xl) Hcfg0 HH0) as [HL1 _].
  pose proof (microstep_ssorted lg_fixed ex_fixed c l (emit TMsB xl) (fs_completion (st c 0)) [] [] true) as Hs1.
  rewrite Hcfg0 in Hs1. specialize (Hs1 I).
  destruct (pristine_flags l Hp) as (F1 & F2 & F3 & F4 & F5).
  cbn zeta. unfold large_step. rewrite F4, F3, Hp.
  destruct (microstep lg_fixed ex_fixed c l (emit TMsB xl) (fs_completion (st c 0)) [] [] true) as [l1 x1].
  cbn [fst snd] in *.
  destruct HI as (C1 & Hhv & D1 & _ & _ & _ & _ & _ & HO).
  split; [reflexivity|]. split; [exact C1|]. split; [exact Hhv|]. split; [exact D1|].
  split; [apply (legal_configb_complete_h c _ W HL1 (ssorted_NoDup _ Hs1)) | exact HO].
Qed.

End InitFlatHH.
