(* TreeLemmas.v -- the tree layer: document-order numbering of Chart.v, occurrences as paths,
   and the interval lemma (the descendants of the node numbered i are exactly the nodes numbered
   in (i, i + size i)).  Proofs only; used by C05 (TablesLemmas) and available to the chart
   properties. *)
From V Require Import Base Chart Tables.
From Coq Require Import FinFun Sorted.
Local Open Scope nat_scope.

(* ------------------------------------------------------------------ induction on trees *)

Section TreeInd.
Variable Pt : tree -> Prop.
Hypothesis Hnode : forall k s i tr en ex d kids, Forall Pt kids -> Pt (TNode k s i tr en ex d kids).

Fixpoint tree_ind' (t : tree) : Pt t :=
  match t with
  | TNode k s i tr en ex d kids =>
    Hnode k s i tr en ex d kids
          ((fix go (l : list tree) : Forall Pt l :=
              match l with
              | [] => Forall_nil Pt
              | x :: r => Forall_cons x (tree_ind' x) (go r)
              end) kids)
  end.
End TreeInd.

(* ------------------------------------------------------------------ forest versions of the nested fixpoints *)

Fixpoint doc_forest (l : list tree) (next : nat) (par : nat) : list (tree * option nat) :=
  match l with
  | [] => []
  | x :: r => doc_nodes x next (Some par) ++ doc_forest r (next + tsize x) par
  end.

Fixpoint paths_forest (l : list tree) (k : nat) : list path :=
  match l with
  | [] => []
  | x :: r => map (cons k) (paths x) ++ paths_forest r (S k)
  end.

Fixpoint paths_post_forest (l : list tree) (k : nat) : list path :=
  match l with
  | [] => []
  | x :: r => map (cons k) (paths_post x) ++ paths_post_forest r (S k)
  end.

Fixpoint postfix_forest (l : list tree) (next : nat) : list nat :=
  match l with
  | [] => []
  | x :: r => postfix_states x next ++ postfix_forest r (next + tsize x)
  end.

Lemma tsize_unfold t : tsize t = S (tsize_list (t_kids t)).
Proof.
  destruct t as [k s i tr en ex d kids]. reflexivity.
Qed.

Lemma tsize_list_cons x r : tsize_list (x :: r) = tsize x + tsize_list r.
Proof. reflexivity. Qed.

Lemma tsize_list_app a b : tsize_list (a ++ b) = tsize_list a + tsize_list b.
Proof. induction a as [|x a IH]; [reflexivity|]. cbn [app]. rewrite !tsize_list_cons, IH. lia. Qed.

Lemma tsize_pos t : 1 <= tsize t.
Proof. rewrite tsize_unfold. lia. Qed.

Lemma doc_nodes_unfold t self par :
  doc_nodes t self par = (t, par) :: doc_forest (t_kids t) (S self) self.
Proof.
  destruct t as [k s i tr en ex d kids]. cbn [doc_nodes t_kids]. f_equal.
  generalize (S self). induction kids as [|x r IH]; intros nx; [reflexivity|].
  cbn [doc_forest]. rewrite <- IH. reflexivity.
Qed.

Lemma paths_unfold t : paths t = [] :: paths_forest (t_kids t) 0.
Proof.
  destruct t as [k s i tr en ex d kids]. reflexivity.
Qed.

Lemma paths_post_unfold t : paths_post t = paths_post_forest (t_kids t) 0 ++ [[]].
Proof.
  destruct t as [k s i tr en ex d kids]. reflexivity.
Qed.

Lemma postfix_states_unfold t self :
  postfix_states t self = postfix_forest (t_kids t) (S self) ++ [self].
Proof.
  destruct t as [k s i tr en ex d kids]. reflexivity.
Qed.

(* ------------------------------------------------------------------ sizes *)

Lemma doc_nodes_length : forall t self par, length (doc_nodes t self par) = tsize t.
Proof.
  induction t using tree_ind'. intros self par.
  rewrite doc_nodes_unfold, tsize_unfold. cbn [t_kids length]. f_equal.
  generalize (S self). induction H as [|x r Hx Hr IH]; intros nx; [reflexivity|].
  cbn [doc_forest]. rewrite app_length, Hx, IH. reflexivity.
Qed.

Lemma doc_forest_length l next par : length (doc_forest l next par) = tsize_list l.
Proof.
  revert next. induction l as [|x r IH]; intros next; [reflexivity|].
  cbn [doc_forest]. rewrite app_length, doc_nodes_length, IH. reflexivity.
Qed.

Lemma paths_length : forall t, length (paths t) = tsize t.
Proof.
  induction t using tree_ind'.
  rewrite paths_unfold, tsize_unfold. cbn [t_kids length]. f_equal.
  generalize 0. induction H as [|x r Hx Hr IH]; intros nx; [reflexivity|].
  cbn [paths_forest]. rewrite app_length, map_length, Hx, IH. reflexivity.
Qed.

Lemma paths_forest_length l k : length (paths_forest l k) = tsize_list l.
Proof.
  revert k. induction l as [|x r IH]; intros k; [reflexivity|].
  cbn [paths_forest]. rewrite app_length, map_length, paths_length, IH. reflexivity.
Qed.

(* ------------------------------------------------------------------ the document-order index of an occurrence *)

Fixpoint pidx (t : tree) (self : nat) (p : path) : option nat :=
  match p with
  | [] => Some self
  | k :: r => match nth_error (t_kids t) k with
              | Some c => pidx c (S self + tsize_list (firstn k (t_kids t))) r
              | None => None
              end
  end.

Definition subd (t : tree) (p : path) : tree :=
  match sub t p with Some u => u | None => dummy_tree end.

Definition ppar (t : tree) (self : nat) (par : option nat) (p : path) : option nat :=
  match p with [] => par | _ => pidx t self (removelast p) end.

Lemma map_nth' {A B} (f : A -> B) (d' : B) (d : A) (l : list A) i :
  i < length l -> nth i (map f l) d' = f (nth i l d).
Proof.
  intros Hi. rewrite (nth_indep (map f l) d' (f d)) by (rewrite map_length; exact Hi). apply map_nth.
Qed.

Lemma nth_error_mid {A} (pre : list A) x post : nth_error (pre ++ x :: post) (length pre) = Some x.
Proof. induction pre; [reflexivity | assumption]. Qed.

Lemma firstn_mid {A} (pre : list A) post : firstn (length pre) (pre ++ post) = pre.
Proof. induction pre; cbn; [destruct post; reflexivity | f_equal; assumption]. Qed.

Lemma paths_forest_idx t self : forall l pre,
  t_kids t = pre ++ l ->
  Forall (fun x => forall s, map (pidx x s) (paths x) = map Some (seq s (tsize x))) l ->
  map (pidx t self) (paths_forest l (length pre)) = map Some (seq (S self + tsize_list pre) (tsize_list l)).
Proof.
  induction l as [|x r IH]; intros pre Hk Hall; [reflexivity|].
  inversion Hall as [|? ? Hx Hr]; subst.
  cbn [paths_forest]. rewrite map_app, map_map, tsize_list_cons, seq_app, map_app. f_equal.
  - rewrite <- Hx. apply map_ext. intros q. cbn [pidx]. rewrite Hk, nth_error_mid, firstn_mid. reflexivity.
  - specialize (IH (pre ++ [x])). rewrite app_length in IH. cbn [length] in IH.
    replace (length pre + 1) with (S (length pre)) in IH by lia.
    rewrite IH; [| rewrite <- app_assoc; exact Hk | exact Hr].
    rewrite tsize_list_app. cbn [tsize_list fold_right]. f_equal. f_equal. lia.
Qed.

Lemma paths_idx : forall t self, map (pidx t self) (paths t) = map Some (seq self (tsize t)).
Proof.
  induction t using tree_ind'. intros self.
  rewrite paths_unfold, tsize_unfold. cbn [map seq pidx]. f_equal.
  change (@nil tree) with (@nil tree) in *.
  pose proof (paths_forest_idx (TNode k s i tr en ex d kids) self kids [] eq_refl H) as HH.
  cbn [length tsize_list fold_right] in HH. rewrite Nat.add_0_r in HH. exact HH.
Qed.

Lemma doc_forest_paths t self par : forall l pre,
  t_kids t = pre ++ l ->
  Forall (fun x => forall s pp, doc_nodes x s pp = map (fun p => (subd x p, ppar x s pp p)) (paths x)) l ->
  doc_forest l (S self + tsize_list pre) self =
  map (fun p => (subd t p, ppar t self par p)) (paths_forest l (length pre)).
Proof.
  induction l as [|x r IH]; intros pre Hk Hall; [reflexivity|].
  inversion Hall as [|? ? Hx Hr]; subst.
  cbn [paths_forest doc_forest]. rewrite map_app, map_map. f_equal.
  - rewrite Hx. apply map_ext. intros q. f_equal.
    + unfold subd. cbn [sub]. rewrite Hk, nth_error_mid. reflexivity.
    + destruct q as [|a q']; [reflexivity|].
      unfold ppar. change (removelast (length pre :: a :: q')) with (length pre :: removelast (a :: q')).
      cbn [pidx]. rewrite Hk, nth_error_mid, firstn_mid. reflexivity.
  - specialize (IH (pre ++ [x])). rewrite app_length in IH. cbn [length] in IH.
    replace (length pre + 1) with (S (length pre)) in IH by lia.
    rewrite <- IH; [| rewrite <- app_assoc; exact Hk | exact Hr].
    rewrite tsize_list_app. cbn [tsize_list fold_right]. f_equal. lia.
Qed.

(* the i-th node of the numbering is the occurrence at the i-th path in lexicographic order, and its
   parent pointer is the index of the path without its last step *)
Lemma doc_nodes_paths : forall t self par,
  doc_nodes t self par = map (fun p => (subd t p, ppar t self par p)) (paths t).
Proof.
  induction t using tree_ind'. intros self par.
  rewrite doc_nodes_unfold, paths_unfold. cbn [map t_kids]. f_equal.
  pose proof (doc_forest_paths (TNode k s i tr en ex d kids) self par kids [] eq_refl H) as HH.
  cbn [length tsize_list fold_right] in HH. rewrite Nat.add_0_r in HH. exact HH.
Qed.

(* ------------------------------------------------------------------ valid paths *)

Lemma pidx_some_iff_sub : forall p t self, (exists i, pidx t self p = Some i) <-> (exists u, sub t p = Some u).
Proof.
  induction p as [|k r IH]; intros t self; cbn [pidx sub].
  - split; intros _; eauto.
  - destruct (nth_error (t_kids t) k) as [c|]; [apply IH|].
    split; intros [? Hx]; discriminate.
Qed.

Lemma tsize_list_firstn_le (l : list tree) k : tsize_list (firstn k l) <= tsize_list l.
Proof.
  revert k. induction l as [|x r IH]; intros [|k]; cbn [firstn]; rewrite ?tsize_list_cons; try (cbn; lia).
  specialize (IH k). lia.
Qed.

Lemma tsize_list_firstn_nth (l : list tree) k c :
  nth_error l k = Some c -> tsize_list (firstn k l) + tsize c <= tsize_list l.
Proof.
  revert k. induction l as [|x r IH]; intros [|k] Hn; cbn in Hn; try discriminate.
  - inversion Hn; subst. cbn [firstn]. rewrite tsize_list_cons. cbn. lia.
  - cbn [firstn]. rewrite !tsize_list_cons. specialize (IH k Hn). lia.
Qed.

(* the index of an occurrence lies in the tree's block, at least as far in as the path is long *)
Lemma pidx_range : forall p t self i, pidx t self p = Some i -> self + length p <= i /\ i < self + tsize t.
Proof.
  induction p as [|k r IH]; intros t self i Hp; cbn [pidx] in Hp.
  - inversion Hp; subst. pose proof (tsize_pos t). cbn. lia.
  - destruct (nth_error (t_kids t) k) as [c|] eqn:Hn; [|discriminate].
    apply IH in Hp. pose proof (tsize_list_firstn_nth _ _ _ Hn). rewrite (tsize_unfold t). cbn [length]. lia.
Qed.

Lemma In_paths_forest : forall l k0 p, In p (paths_forest l k0) <->
  exists k c r, p = (k0 + k) :: r /\ nth_error l k = Some c /\ In r (paths c).
Proof.
  induction l as [|x l IH]; intros k0 p; cbn [paths_forest].
  - split; [intros []|]. intros (k & c & r & _ & Hn & _). destruct k; discriminate.
  - rewrite in_app_iff, in_map_iff, IH. split.
    + intros [(r & <- & Hr) | (k & c & r & -> & Hn & Hr)].
      * exists 0, x, r. rewrite Nat.add_0_r. auto.
      * exists (S k), c, r. rewrite Nat.add_succ_r. auto.
    + intros (k & c & r & -> & Hn & Hr). destruct k as [|k]; cbn in Hn.
      * inversion Hn; subst. left. exists r. rewrite Nat.add_0_r. auto.
      * right. exists k, c, r. rewrite Nat.add_succ_r. auto.
Qed.

Lemma In_paths_iff : forall t p, In p (paths t) <-> exists u, sub t p = Some u.
Proof.
  induction t using tree_ind'. intros p. rewrite paths_unfold. cbn [In t_kids].
  rewrite In_paths_forest. split.
  - intros [<- | (k0 & c & r & -> & Hn & Hr)]; [cbn; eauto|].
    cbn [sub t_kids Nat.add]. rewrite Hn.
    rewrite Forall_forall in H. apply (H c (nth_error_In _ _ Hn)). exact Hr.
  - destruct p as [|k0 r]; [auto|]. cbn [sub t_kids]. intros [u Hu]. right.
    destruct (nth_error kids k0) as [c|] eqn:Hn; [|discriminate].
    exists k0, c, r. split; [reflexivity|]. split; [exact Hn|].
    rewrite Forall_forall in H. apply (H c (nth_error_In _ _ Hn)). eauto.
Qed.

Lemma sub_removelast : forall p t u, sub t p = Some u -> exists v, sub t (removelast p) = Some v.
Proof.
  induction p as [|k r IH]; intros t u Hs; [cbn; eauto|].
  destruct r as [|a r'].
  - cbn. eauto.
  - change (removelast (k :: a :: r')) with (k :: removelast (a :: r')).
    cbn [sub] in *. destruct (nth_error (t_kids t) k) as [c|]; [|discriminate]. eapply IH; eauto.
Qed.

Lemma pidx_extend_lt : forall pq x t s i q,
  pidx t s (pq ++ [x]) = Some i -> pidx t s pq = Some q -> q < i.
Proof.
  induction pq as [|k pq IH]; intros x t s i q Hpi Hq.
  - cbn [pidx] in Hq. inversion Hq; subst. apply pidx_range in Hpi. cbn in Hpi. lia.
  - cbn [pidx app] in *. destruct (nth_error (t_kids t) k); [|discriminate]. eapply IH; eauto.
Qed.

(* ------------------------------------------------------------------ the numbering as a bijection *)

Section Numbering.
Variable t : tree.
Let n := tsize t.
Definition pth_of (i : nat) : path := nth i (paths t) [].

Lemma pidx_pth : forall i, i < n -> pidx t 0 (pth_of i) = Some i.
Proof.
  intros i Hi. pose proof (paths_idx t 0) as H.
  assert (Hn : nth i (map (pidx t 0) (paths t)) None = nth i (map Some (seq 0 (tsize t))) None) by (rewrite H; reflexivity).
  rewrite (map_nth' (pidx t 0) None []) in Hn by (rewrite paths_length; exact Hi).
  rewrite (map_nth' Some None 0) in Hn by (rewrite seq_length; exact Hi).
  rewrite seq_nth in Hn by exact Hi. exact Hn.
Qed.

Lemma pth_in : forall i, i < n -> In (pth_of i) (paths t).
Proof. intros i Hi. apply nth_In. rewrite paths_length. exact Hi. Qed.

Lemma pth_inj : forall i j, i < n -> j < n -> pth_of i = pth_of j -> i = j.
Proof.
  intros i j Hi Hj He. pose proof (pidx_pth i Hi) as H1. pose proof (pidx_pth j Hj) as H2.
  rewrite He in H1. congruence.
Qed.

Lemma pth_of_pidx : forall p i, pidx t 0 p = Some i -> i < n /\ pth_of i = p.
Proof.
  intros p i Hp. pose proof (pidx_range _ _ _ _ Hp) as [_ Hlt]. split; [exact Hlt|].
  assert (Hin : In p (paths t)).
  { apply In_paths_iff. apply (proj1 (pidx_some_iff_sub p t 0)). eauto. }
  destruct (In_nth _ _ [] Hin) as (j & Hj & Hnth). rewrite paths_length in Hj.
  pose proof (pidx_pth j Hj) as H1. unfold pth_of in H1. rewrite Hnth in H1.
  assert (j = i) by congruence. subst j. exact Hnth.
Qed.

Lemma pth_length_le : forall i, i < n -> length (pth_of i) <= i.
Proof. intros i Hi. pose proof (pidx_range _ _ _ _ (pidx_pth i Hi)). lia. Qed.

Lemma paths_NoDup : NoDup (paths t).
Proof.
  apply (NoDup_map_inv (pidx t 0)). rewrite paths_idx.
  apply Injective_map_NoDup; [intros a b Hab; congruence | apply seq_NoDup].
Qed.

(* node table *)
Definition nodes_of : ntab := doc_nodes t 0 None.

Lemma nodes_length : length nodes_of = n.
Proof. apply doc_nodes_length. Qed.

Lemma nd_nodes : forall i, i < n -> nd nodes_of i = (subd t (pth_of i), ppar t 0 None (pth_of i)).
Proof.
  intros i Hi. unfold nd, nodes_of. rewrite doc_nodes_paths.
  rewrite (map_nth' _ _ []) by (rewrite paths_length; exact Hi). reflexivity.
Qed.

Lemma npar_nodes : forall i, i < n -> npar nodes_of i = ppar t 0 None (pth_of i).
Proof. intros i Hi. unfold npar. rewrite nd_nodes by exact Hi. reflexivity. Qed.

Lemma ntree_nodes : forall i, i < n -> ntree nodes_of i = subd t (pth_of i).
Proof. intros i Hi. unfold ntree. rewrite nd_nodes by exact Hi. reflexivity. Qed.

(* the parent pointer: None exactly at the root, else the index of the path without its last step *)
Lemma npar_root : npar nodes_of 0 = None.
Proof.
  pose proof (tsize_pos t). rewrite npar_nodes by (unfold n; lia).
  unfold pth_of. rewrite paths_unfold. reflexivity.
Qed.

Lemma npar_some : forall i, i < n -> pth_of i <> [] ->
  exists q, npar nodes_of i = Some q /\ q < i /\ pth_of q = removelast (pth_of i).
Proof.
  intros i Hi Hne. rewrite npar_nodes by exact Hi. unfold ppar.
  destruct (pth_of i) as [|a r] eqn:Hp; [congruence|].
  pose proof (pth_in i Hi) as Hin. rewrite Hp in Hin. apply In_paths_iff in Hin. destruct Hin as [u Hu].
  destruct (sub_removelast _ _ _ Hu) as [v Hv].
  destruct (proj2 (pidx_some_iff_sub (removelast (a :: r)) t 0) (ex_intro _ v Hv)) as [q Hq].
  exists q. split; [exact Hq|]. destruct (pth_of_pidx _ _ Hq) as [Hqn Hqp]. split; [|exact Hqp].
  pose proof (pidx_pth i Hi) as Hpi. rewrite Hp in Hpi.
  rewrite (app_removelast_last 0 (l := a :: r)) in Hpi by discriminate.
  eapply pidx_extend_lt; eauto.
Qed.

End Numbering.

(* ------------------------------------------------------------------ prefixes *)

Lemma proper_prefix_spec : forall q p, proper_prefix q p = true <-> exists r, r <> [] /\ p = q ++ r.
Proof.
  induction q as [|x q IH]; intros p.
  - destruct p as [|y p]; cbn; split; try discriminate.
    + intros (r & Hr & He). destruct r; [congruence | discriminate].
    + intros _. exists (y :: p). split; [discriminate | reflexivity].
    + auto.
  - destruct p as [|y p]; cbn [proper_prefix].
    + split; [discriminate|]. intros (r & _ & He). discriminate.
    + rewrite andb_true_iff, Nat.eqb_eq, IH. split.
      * intros (-> & r & Hr & ->). exists r. auto.
      * intros (r & Hr & He). cbn in He. inversion He; subst. eauto.
Qed.

Lemma proper_prefix_snoc q p x : proper_prefix q (p ++ [x]) = true <-> q = p \/ proper_prefix q p = true.
Proof.
  rewrite !proper_prefix_spec. split.
  - intros (r & Hr & He). destruct (exists_last Hr) as (r' & y & ->).
    rewrite app_assoc in He. apply app_inj_tail in He. destruct He as [-> ->].
    destruct r' as [|z r'].
    + left. rewrite app_nil_r. reflexivity.
    + right. exists (z :: r'). split; [discriminate | reflexivity].
  - intros [-> | (r & Hr & ->)].
    + exists [x]. split; [discriminate | reflexivity].
    + exists (r ++ [x]). split; [destruct r; discriminate | rewrite app_assoc; reflexivity].
Qed.

Lemma proper_prefix_irrefl p : proper_prefix p p = false.
Proof. induction p; cbn; [reflexivity | rewrite Nat.eqb_refl; assumption]. Qed.

Lemma proper_prefix_length q p : proper_prefix q p = true -> length q < length p.
Proof.
  rewrite proper_prefix_spec. intros (r & Hr & ->). rewrite app_length. destruct r; [congruence | cbn; lia].
Qed.

(* ------------------------------------------------------------------ blocks *)

Lemma firstn_S_nth {A} (l : list A) k c : nth_error l k = Some c -> firstn (S k) l = firstn k l ++ [c].
Proof.
  revert k. induction l as [|x l IH]; intros [|k] Hn; cbn in Hn; try discriminate.
  - inversion Hn; subst. reflexivity.
  - cbn [firstn app]. f_equal. apply IH. exact Hn.
Qed.

Lemma tsize_list_firstn_mono (l : list tree) k1 k2 : k1 <= k2 -> tsize_list (firstn k1 l) <= tsize_list (firstn k2 l).
Proof.
  revert k1 k2. induction l as [|x l IH]; intros [|k1] [|k2] Hle; cbn [firstn]; rewrite ?tsize_list_cons; try (cbn; lia).
  specialize (IH k1 k2). lia.
Qed.

Lemma kid_blocks_disjoint (l : list tree) k k' c :
  nth_error l k = Some c -> k < k' -> tsize_list (firstn k l) + tsize c <= tsize_list (firstn k' l).
Proof.
  intros Hn Hlt. pose proof (tsize_list_firstn_mono l (S k) k' Hlt) as H.
  rewrite (firstn_S_nth _ _ _ Hn), tsize_list_app in H. cbn [tsize_list fold_right] in H. lia.
Qed.

(* the block of a sub-occurrence lies inside the block of the tree *)
Lemma pidx_block_within : forall p t s a u,
  pidx t s p = Some a -> sub t p = Some u -> s <= a /\ a + tsize u <= s + tsize t.
Proof.
  induction p as [|k p IH]; intros t s a u Hp Hs; cbn [pidx sub] in *.
  - inversion Hp; inversion Hs; subst. lia.
  - destruct (nth_error (t_kids t) k) as [c|] eqn:Hn; [|discriminate].
    destruct (IH _ _ _ _ Hp Hs) as [H1 H2].
    pose proof (tsize_list_firstn_nth _ _ _ Hn). rewrite (tsize_unfold t). lia.
Qed.

(* tree_interval, on occurrences: the occurrences whose index lies in the block [a, a + size) of the
   occurrence p are exactly the extensions of p *)
Lemma pidx_block : forall p t s a u,
  pidx t s p = Some a -> sub t p = Some u ->
  forall q b, pidx t s q = Some b -> (a <= b < a + tsize u <-> exists r, q = p ++ r).
Proof.
  induction p as [|k p IH]; intros t s a u Hp Hs q b Hq.
  - cbn [pidx sub] in *. inversion Hp; inversion Hs; subst. apply pidx_range in Hq.
    split; [intros _; exists q; reflexivity | intros _; lia].
  - cbn [pidx sub] in Hp, Hs. destruct (nth_error (t_kids t) k) as [c|] eqn:Hn; [|discriminate].
    pose proof (pidx_block_within _ _ _ _ _ Hp Hs) as [Hw1 Hw2].
    destruct q as [|k' q].
    + cbn [pidx] in Hq. inversion Hq; subst. split; [lia|]. intros (r & He). discriminate.
    + cbn [pidx] in Hq. destruct (nth_error (t_kids t) k') as [c'|] eqn:Hn'; [|discriminate].
      destruct (Nat.eq_dec k' k) as [->|Hne].
      * rewrite Hn in Hn'. inversion Hn'; subst c'. rewrite (IH _ _ _ _ Hp Hs _ _ Hq).
        split; intros (r & He); exists r; [rewrite He; reflexivity | cbn in He; inversion He; reflexivity].
      * pose proof (pidx_range _ _ _ _ Hq) as [Hq1 Hq2].
        split; [|intros (r & He); cbn in He; inversion He; congruence].
        intros Hin. exfalso.
        destruct (Nat.lt_ge_cases k k') as [Hlt|Hge].
        -- pose proof (kid_blocks_disjoint _ _ _ _ Hn Hlt). lia.
        -- assert (Hlt : k' < k) by lia. pose proof (kid_blocks_disjoint _ _ _ _ Hn' Hlt). lia.
Qed.

Section Interval.
Variable t : tree.
Let n := tsize t.

(* tree_interval for the document-order numbering: a is a proper ancestor of b (its path is a proper
   prefix) iff b lies in (a, a + size a) *)
Lemma prefix_interval : forall a b, a < n -> b < n ->
  (proper_prefix (pth_of t a) (pth_of t b) = true <-> a < b /\ b < a + tsize (subd t (pth_of t a))).
Proof.
  intros a b Ha Hb.
  pose proof (pidx_pth t a Ha) as Hpa. pose proof (pidx_pth t b Hb) as Hpb.
  destruct (proj1 (In_paths_iff t _) (pth_in t a Ha)) as [u Hu].
  pose proof (pidx_block _ _ _ _ _ Hpa Hu _ _ Hpb) as Hblk.
  unfold subd. rewrite Hu. rewrite proper_prefix_spec. split.
  - intros (r & Hr & He). assert (Hin : a <= b < a + tsize u) by (apply Hblk; eauto).
    split; [|lia]. destruct (Nat.eq_dec a b) as [->|]; [|lia]. exfalso.
    rewrite <- (app_nil_r (pth_of t b)) in He at 1. apply app_inv_head in He. congruence.
  - intros [H1 H2]. destruct (proj1 Hblk) as [r He]; [lia|]. exists r. split; [|exact He].
    intros ->. rewrite app_nil_r in He. apply (pth_inj t) in He; [lia | assumption | assumption].
Qed.

End Interval.

(* ------------------------------------------------------------------ parent chains *)

Lemma mem_In x l : mem x l = true <-> In x l.
Proof.
  induction l as [|y l IH]; cbn; [split; [discriminate | intros []]|].
  rewrite orb_true_iff, Nat.eqb_eq, IH. split; intros [H|H]; auto.
Qed.

Lemma mem_false_iff x l : mem x l = false <-> ~ In x l.
Proof. rewrite <- mem_In. destruct (mem x l); split; congruence. Qed.

Section Chains.
Variable t : tree.
Let n := tsize t.
Let nodes := nodes_of t.

Lemma pth_root_iff : forall i, i < n -> (pth_of t i = [] <-> i = 0).
Proof.
  intros i Hi. pose proof (tsize_pos t).
  assert (H0 : pth_of t 0 = []) by (unfold pth_of; rewrite paths_unfold; reflexivity).
  split; [|intros ->; exact H0]. intros He. apply (pth_inj t); [exact Hi | unfold n; lia | congruence].
Qed.

Lemma chain_spec : forall fuel i, i < n -> length (pth_of t i) < fuel ->
  exists l, chain fuel nodes i = Some l /\
            (forall a, In a l <-> a < n /\ proper_prefix (pth_of t a) (pth_of t i) = true) /\
            (forall a, In a l -> a < i) /\
            StronglySorted (fun x y => y < x) l.
Proof.
  induction fuel as [|f IH]; intros i Hi Hf; [lia|].
  cbn [chain]. destruct (pth_of t i) as [|x0 r0] eqn:Hp.
  - unfold nodes. rewrite (npar_nodes t i Hi), Hp. cbn [ppar].
    exists []. split; [reflexivity|]. split; [|split; [intros a [] | constructor]].
    intros a. split; [intros [] | intros [_ Hpp]; destruct (pth_of t a); discriminate].
  - assert (Hne : pth_of t i <> []) by (rewrite Hp; discriminate).
    destruct (npar_some t i Hi Hne) as (q & Hq & Hqi & Hqp).
    fold nodes in Hq. rewrite Hq.
    assert (Hqn : q < n) by lia.
    assert (Hlen : length (pth_of t q) < f).
    { rewrite Hqp, Hp.
      rewrite (app_removelast_last 0 (l := x0 :: r0)) in Hf by discriminate. rewrite app_length in Hf. cbn [length] in Hf. lia. }
    destruct (IH q Hqn Hlen) as (l & Hl & Hin & Hlt & Hs). rewrite Hl.
    exists (q :: l). split; [reflexivity|]. split; [|split].
    + intros a. cbn [In]. rewrite Hin.
      rewrite <- Hp, (app_removelast_last 0 Hne), <- Hqp, proper_prefix_snoc.
      split.
      * intros [<- | [Ha Hpp]]; [split; [exact Hqn | left; reflexivity] | split; [exact Ha | right; exact Hpp]].
      * intros [Ha [He | Hpp]]; [left; symmetry; apply (pth_inj t); assumption | right; split; assumption].
    + intros a [<- | Ha]; [exact Hqi | specialize (Hlt a Ha); lia].
    + constructor; [exact Hs|]. apply Forall_forall. intros a Ha. apply Hlt. exact Ha.
Qed.

Lemma chain_fuel_enough : forall i, i < n -> exists l, chain (length nodes) nodes i = Some l.
Proof.
  intros i Hi. unfold nodes at 1. rewrite nodes_length. fold n.
  destruct (chain_spec n i Hi) as (l & Hl & _); [pose proof (pth_length_le t i Hi); lia|]. eauto.
Qed.

Lemma all_some_map {A B} (f : A -> option B) (l : list A) :
  (forall x, In x l -> exists y, f x = Some y) ->
  exists r, all_some (map f l) = Some r /\ length r = length l /\
            forall i dx d, i < length l -> f (nth i l dx) = Some (nth i r d).
Proof.
  induction l as [|x l IH]; intros H.
  - exists []. repeat split. intros; cbn in *; lia.
  - destruct (H x (or_introl eq_refl)) as [y Hy].
    destruct IH as (r & Hr & Hlen & Hnth); [intros; apply H; right; assumption|].
    exists (y :: r). cbn [map all_some]. rewrite Hy, Hr. repeat split; [cbn; lia|].
    intros [|i] dx d Hi; cbn; [exact Hy | apply Hnth; cbn in Hi; lia].
Qed.

(* fuel sufficiency of the model: on the numbering of a tree the parent chains are found *)
Lemma chains_of_ok : exists chains,
  chains_of nodes = Some chains /\ length chains = n /\
  forall i, i < n -> chain n nodes i = Some (nth i chains []).
Proof.
  unfold chains_of. unfold nodes at 1 2 3. rewrite nodes_length. fold n. fold nodes.
  destruct (all_some_map (chain n nodes) (seq 0 n)) as (r & Hr & Hlen & Hnth).
  - intros x Hx. apply in_seq in Hx. destruct (chain_fuel_enough x) as [l Hl]; [lia|].
    unfold nodes in Hl at 1. rewrite nodes_length in Hl. eauto.
  - exists r. rewrite seq_length in Hlen. split; [exact Hr|]. split; [exact Hlen|].
    intros i Hi. specialize (Hnth i 0 [] ltac:(rewrite seq_length; exact Hi)).
    rewrite seq_nth in Hnth by exact Hi. exact Hnth.
Qed.

Lemma is_desc_prefix : forall chains, chains_of nodes = Some chains ->
  forall a b, a < n -> (is_desc chains a b = true <-> b < n /\ proper_prefix (pth_of t b) (pth_of t a) = true).
Proof.
  intros chains Hc a b Ha. destruct chains_of_ok as (ch & Hch & _ & Hnth). rewrite Hc in Hch. inversion Hch; subst ch.
  unfold is_desc, nchain. rewrite mem_In.
  destruct (chain_spec n a Ha) as (l & Hl & Hin & _); [pose proof (pth_length_le t a Ha); lia|].
  rewrite (Hnth a Ha) in Hl. inversion Hl; subst l. apply Hin.
Qed.

End Chains.

(* ------------------------------------------------------------------ tree_interval for Chart.flatten *)

Lemma In_insert_sorted x y l : In x (insert_sorted y l) <-> x = y \/ In x l.
Proof.
  induction l as [|z l IH]; cbn [insert_sorted].
  - cbn. intuition.
  - destruct (y <? z) eqn:H1; [cbn; intuition|].
    destruct (y =? z) eqn:H2.
    + apply Nat.eqb_eq in H2. subst. cbn. intuition.
    + cbn [In]. rewrite IH. intuition.
Qed.

Lemma pidx_app : forall p t s a u q, pidx t s p = Some a -> sub t p = Some u -> pidx t s (p ++ q) = pidx u a q.
Proof.
  induction p as [|k p IH]; intros t s a u q Hp Hs; cbn [pidx sub app] in *.
  - inversion Hp; inversion Hs; subst. reflexivity.
  - destruct (nth_error (t_kids t) k); [|discriminate]. eapply IH; eauto.
Qed.

Lemma sub_app : forall p t u q, sub t p = Some u -> sub t (p ++ q) = sub u q.
Proof.
  induction p as [|k p IH]; intros t u q Hs; cbn [sub app] in *.
  - inversion Hs; reflexivity.
  - destruct (nth_error (t_kids t) k); [|discriminate]. eapply IH; eauto.
Qed.

Lemma child_indices_spec : forall kids s b,
  In b (child_indices kids s) <-> exists k c, nth_error kids k = Some c /\ b = s + tsize_list (firstn k kids).
Proof.
  induction kids as [|x r IH]; intros s b; cbn [child_indices In].
  - split; [intros [] | intros (k & c & Hn & _); destruct k; discriminate].
  - rewrite IH. split.
    + intros [<- | (k & c & Hn & ->)].
      * exists 0, x. split; [reflexivity | cbn; lia].
      * exists (S k), c. split; [exact Hn|]. cbn [firstn]. rewrite tsize_list_cons. lia.
    + intros (k & c & Hn & ->). destruct k as [|k].
      * left. cbn. lia.
      * right. exists k, c. split; [exact Hn|]. cbn [firstn]. rewrite tsize_list_cons. lia.
Qed.

(* the blocks of the children tile the block below the parent *)
Fixpoint tiles (size : nat -> nat) (l : list nat) (start stop : nat) : Prop :=
  match l with
  | [] => start = stop
  | x :: r => x = start /\ tiles size r (start + size x) stop
  end.

Lemma child_indices_tiles (size : nat -> nat) : forall kids s,
  (forall k c, nth_error kids k = Some c -> size (s + tsize_list (firstn k kids)) = tsize c) ->
  tiles size (child_indices kids s) s (s + tsize_list kids).
Proof.
  induction kids as [|x r IH]; intros s H; cbn [child_indices tiles].
  - cbn. lia.
  - split; [reflexivity|]. rewrite tsize_list_cons.
    pose proof (H 0 x eq_refl) as H0. cbn [firstn tsize_list fold_right] in H0. rewrite Nat.add_0_r in H0. rewrite H0.
    replace (s + (tsize x + tsize_list r)) with (s + tsize x + tsize_list r) by lia.
    apply IH. intros k c Hn. specialize (H (S k) c Hn). cbn [firstn] in H. rewrite tsize_list_cons in H.
    rewrite <- H. f_equal. lia.
Qed.

Section Flatten.
Variable late : bool.
Variable t0 : tree.
Let root := resort t0.
Let c := flatten late t0.
Let n := tsize root.
Let nodes := nodes_of root.

Lemma flatten_nstates : nstates c = n.
Proof.
  unfold nstates, c, flatten. cbn [fc_states]. rewrite map_length, combine_length, seq_length, Nat.min_id.
  apply doc_nodes_length.
Qed.

Lemma nth_combine_seq {A} (l : list A) (d : A) i : i < length l ->
  nth i (combine l (seq 0 (length l))) (d, 0) = (nth i l d, i).
Proof.
  intros Hi. rewrite combine_nth by (rewrite seq_length; reflexivity). rewrite seq_nth by exact Hi. reflexivity.
Qed.

Lemma st_flatten : forall i, i < n ->
  let u := subd root (pth_of root i) in
  fs_parent (st c i) = ppar root 0 None (pth_of root i) /\
  fs_children (st c i) = child_indices (t_kids u) (S i) /\
  fs_ancestors (st c i) = ancestors_of n nodes root i /\
  fs_size (st c i) = tsize u /\
  fs_sid (st c i) = t_sid u /\
  fs_type (st c i) = type_of u.
Proof.
  intros i Hi u. unfold st, c, flatten. cbn [fc_states].
  fold root. change (doc_nodes root 0 None) with nodes.
  assert (Hlen : length nodes = n) by apply nodes_length.
  rewrite Hlen.
  rewrite (map_nth' _ dummy_state ((dummy_tree, None), 0))
    by (rewrite combine_length, seq_length, Hlen, Nat.min_id; exact Hi).
  assert (Hn : nth i (combine nodes (seq 0 n)) (dummy_tree, None, 0) = (nd nodes i, i)).
  { rewrite <- Hlen. apply nth_combine_seq. rewrite Hlen. exact Hi. }
  rewrite Hn. pose proof (nd_nodes root i Hi) as Hnd. fold nodes in Hnd. fold u in Hnd. rewrite Hnd.
  repeat split; reflexivity.
Qed.

Lemma ancestors_of_chain : forall fuel i l, i < n -> chain fuel nodes i = Some l ->
  forall a, In a (ancestors_of fuel nodes root i) <-> In a l.
Proof.
  induction fuel as [|f IH]; intros i l Hi Hc a; [discriminate|].
  cbn [chain ancestors_of] in *.
  assert (Hsnd : snd (nth i nodes (root, None)) = npar nodes i).
  { unfold npar, nd. rewrite (nth_indep nodes (root, None) (dummy_tree, None)); [reflexivity|].
    unfold nodes. rewrite nodes_length. exact Hi. }
  rewrite Hsnd. destruct (npar nodes i) as [p|] eqn:Hp.
  - destruct (chain f nodes p) as [l'|] eqn:Hl'; [|discriminate]. inversion Hc; subst l.
    assert (Hpn : p < n).
    { destruct (pth_of root i) as [|x0 r0] eqn:Hpi.
      - unfold nodes in Hp. rewrite (npar_nodes root i Hi), Hpi in Hp. discriminate.
      - destruct (npar_some root i Hi) as (q & Hq & Hqi & _); [rewrite Hpi; discriminate|].
        fold nodes in Hq. rewrite Hp in Hq. inversion Hq; subst. unfold n in *. lia. }
    rewrite In_insert_sorted. cbn [In]. rewrite (IH p l' Hpn Hl'). intuition.
  - inversion Hc; subst. reflexivity.
Qed.

Lemma ancestors_of_prefix : forall a b, b < n ->
  (In a (ancestors_of n nodes root b) <-> a < n /\ proper_prefix (pth_of root a) (pth_of root b) = true).
Proof.
  intros a b Hb.
  destruct (chain_spec root n b Hb) as (l & Hl & Hin & _); [pose proof (pth_length_le root b Hb); unfold n; lia|].
  fold nodes in Hl. rewrite (ancestors_of_chain n b l Hb Hl). apply Hin.
Qed.

(* tree_interval for the flat tables of LargeMicroStep::init (Chart.flatten):
   - every state's block [i, i + fs_size i) lies inside [0, n);
   - a is in fs_ancestors b  iff  b lies in (a, a + fs_size a): the descendants of a are exactly the
     states numbered in that interval;
   - the parent is an ancestor; the children are exactly the states whose parent is a, in ascending
     order, and their blocks tile (a, a + fs_size a). *)
Theorem tree_interval_flatten :
  nstates c = n /\
  (forall a, a < n -> 1 <= fs_size (st c a) /\ a + fs_size (st c a) <= n) /\
  (forall a b, a < n -> b < n ->
     (mem a (fs_ancestors (st c b)) = true <-> a < b /\ b < a + fs_size (st c a))) /\
  (forall a b, b < n -> fs_parent (st c b) = Some a -> a < b /\ b < a + fs_size (st c a)) /\
  (forall b, b < n -> (fs_parent (st c b) = None <-> b = 0)) /\
  (forall a b, a < n -> (In b (fs_children (st c a)) <-> b < n /\ fs_parent (st c b) = Some a)) /\
  (forall a, a < n -> tiles (fun j => fs_size (st c j)) (fs_children (st c a)) (S a) (a + fs_size (st c a))).
Proof.
  split; [apply flatten_nstates|].
  assert (Hsize : forall a, a < n -> exists u, sub root (pth_of root a) = Some u /\ fs_size (st c a) = tsize u /\ subd root (pth_of root a) = u).
  { intros a Ha. destruct (proj1 (In_paths_iff root _) (pth_in root a Ha)) as [u Hu].
    exists u. destruct (st_flatten a Ha) as (_ & _ & _ & Hs & _). unfold subd in *. rewrite Hu in *. auto. }
  assert (Hanc : forall a b, a < n -> b < n ->
     (mem a (fs_ancestors (st c b)) = true <-> a < b /\ b < a + fs_size (st c a))).
  { intros a b Ha Hb. destruct (st_flatten b Hb) as (_ & _ & Hab & _). rewrite Hab, mem_In.
    rewrite (ancestors_of_prefix a b Hb). destruct (st_flatten a Ha) as (_ & _ & _ & Hs & _). rewrite Hs.
    rewrite (prefix_interval root a b Ha Hb). intuition. }
  assert (Hpar : forall a b, b < n -> fs_parent (st c b) = Some a ->
                 a < n /\ pth_of root b <> [] /\ pth_of root a = removelast (pth_of root b)).
  { intros a b Hb Hp. destruct (st_flatten b Hb) as (Hpb & _). rewrite Hpb in Hp.
    destruct (pth_of root b) as [|x0 r0] eqn:Hpp; [discriminate|].
    destruct (npar_some root b Hb) as (q & Hq & Hqb & Hqp); [rewrite Hpp; discriminate|].
    rewrite (npar_nodes root b Hb) in Hq. rewrite Hpp in Hq, Hqp. rewrite Hp in Hq. inversion Hq; subst q.
    split; [unfold n in *; lia|]. split; [discriminate | exact Hqp]. }
  split; [|split; [exact Hanc|split; [|split; [|split]]]].
  - intros a Ha. destruct (Hsize a Ha) as (u & Hu & Hs & _). rewrite Hs.
    pose proof (pidx_block_within _ _ _ _ _ (pidx_pth root a Ha) Hu). pose proof (tsize_pos u). unfold n. lia.
  - intros a b Hb Hp. destruct (Hpar a b Hb Hp) as (Ha & Hne & He).
    apply (Hanc a b Ha Hb). destruct (st_flatten b Hb) as (_ & _ & Hab & _). rewrite Hab, mem_In.
    apply (ancestors_of_prefix a b Hb). split; [exact Ha|].
    rewrite (app_removelast_last 0 Hne), <- He. apply proper_prefix_snoc. left. reflexivity.
  - intros b Hb. destruct (st_flatten b Hb) as (Hpb & _). rewrite Hpb. rewrite <- (pth_root_iff root b Hb). 
    destruct (pth_of root b) as [|x0 r0] eqn:Hpp; [cbn; intuition|].
    split; [|discriminate]. intros Hn.
    destruct (npar_some root b Hb) as (q & Hq & _); [rewrite Hpp; discriminate|].
    rewrite (npar_nodes root b Hb) in Hq. rewrite Hpp in Hq. congruence.
  - intros a b Ha. destruct (Hsize a Ha) as (u & Hu & Hs & Hsd).
    destruct (st_flatten a Ha) as (_ & Hch & _). rewrite Hsd in Hch. rewrite Hch, child_indices_spec. split.
    + intros (k & x & Hn & ->).
      assert (Hpb : pidx root 0 (pth_of root a ++ [k]) = Some (S a + tsize_list (firstn k (t_kids u)))).
      { rewrite (pidx_app _ _ _ _ _ [k] (pidx_pth root a Ha) Hu). cbn [pidx]. rewrite Hn. reflexivity. }
      destruct (pth_of_pidx root _ _ Hpb) as [Hbn Hbp]. split; [exact Hbn|].
      destruct (st_flatten _ Hbn) as (Hpp & _). rewrite Hpp. rewrite Hbp.
      unfold ppar. destruct (pth_of root a ++ [k]) eqn:He; [destruct (pth_of root a); discriminate|]. rewrite <- He.
      rewrite removelast_last. apply (pidx_pth root a Ha).
    + intros [Hb Hp]. destruct (Hpar a b Hb Hp) as (_ & Hne & He).
      pose proof (pidx_pth root b Hb) as Hpb. 
      rewrite (app_removelast_last 0 Hne), <- He in Hpb.
      rewrite (pidx_app _ _ _ _ _ _ (pidx_pth root a Ha) Hu) in Hpb. cbn [pidx] in Hpb.
      destruct (nth_error (t_kids u) (last (pth_of root b) 0)) as [x|] eqn:Hn; [|discriminate].
      exists (last (pth_of root b) 0), x. split; [exact Hn|]. injection Hpb as Hpb. symmetry. exact Hpb.
  - intros a Ha. destruct (Hsize a Ha) as (u & Hu & Hs & Hsd).
    destruct (st_flatten a Ha) as (_ & Hch & _). rewrite Hsd in Hch. rewrite Hch, Hs, (tsize_unfold u).
    replace (a + S (tsize_list (t_kids u))) with (S a + tsize_list (t_kids u)) by lia.
    apply child_indices_tiles. intros k x Hn.
    assert (Hpb : pidx root 0 (pth_of root a ++ [k]) = Some (S a + tsize_list (firstn k (t_kids u)))).
    { rewrite (pidx_app _ _ _ _ _ [k] (pidx_pth root a Ha) Hu). cbn [pidx]. rewrite Hn. reflexivity. }
    destruct (pth_of_pidx root _ _ Hpb) as [Hbn Hbp].
    destruct (st_flatten _ Hbn) as (_ & _ & _ & Hsb & _). rewrite Hsb. rewrite Hbp.
    unfold subd. rewrite (sub_app _ _ _ [k] Hu). cbn [sub]. rewrite Hn. reflexivity.
Qed.

End Flatten.

(* ------------------------------------------------------------------ post-fix order *)

Lemma paths_post_forest_idx t self : forall l pre,
  t_kids t = pre ++ l ->
  Forall (fun x => forall s, map (pidx x s) (paths_post x) = map Some (postfix_states x s)) l ->
  map (pidx t self) (paths_post_forest l (length pre)) = map Some (postfix_forest l (S self + tsize_list pre)).
Proof.
  induction l as [|x r IH]; intros pre Hk Hall; [reflexivity|].
  inversion Hall as [|? ? Hx Hr]; subst.
  cbn [paths_post_forest postfix_forest]. rewrite !map_app, map_map. f_equal.
  - rewrite <- Hx. apply map_ext. intros q. cbn [pidx]. rewrite Hk, nth_error_mid, firstn_mid. reflexivity.
  - specialize (IH (pre ++ [x])). rewrite app_length in IH. cbn [length] in IH.
    replace (length pre + 1) with (S (length pre)) in IH by lia.
    rewrite IH; [| rewrite <- app_assoc; exact Hk | exact Hr].
    rewrite tsize_list_app. cbn [tsize_list fold_right]. f_equal. f_equal. lia.
Qed.

(* the post-fix listing of the state indices is the post-order listing of the occurrences *)
Lemma paths_post_idx : forall t self, map (pidx t self) (paths_post t) = map Some (postfix_states t self).
Proof.
  induction t using tree_ind'. intros self.
  rewrite paths_post_unfold, postfix_states_unfold. cbn [t_kids]. rewrite !map_app. cbn [map pidx]. f_equal.
  pose proof (paths_post_forest_idx (TNode k s i tr en ex d kids) self kids [] eq_refl H) as HH.
  cbn [length tsize_list fold_right] in HH. rewrite Nat.add_0_r in HH. exact HH.
Qed.

Lemma In_paths_post_forest : forall l k0 p, In p (paths_post_forest l k0) <->
  exists k c r, p = (k0 + k) :: r /\ nth_error l k = Some c /\ In r (paths_post c).
Proof.
  induction l as [|x l IH]; intros k0 p; cbn [paths_post_forest].
  - split; [intros []|]. intros (k & c & r & _ & Hn & _). destruct k; discriminate.
  - rewrite in_app_iff, in_map_iff, IH. split.
    + intros [(r & <- & Hr) | (k & c & r & -> & Hn & Hr)].
      * exists 0, x, r. rewrite Nat.add_0_r. auto.
      * exists (S k), c, r. rewrite Nat.add_succ_r. auto.
    + intros (k & c & r & -> & Hn & Hr). destruct k as [|k]; cbn in Hn.
      * inversion Hn; subst. left. exists r. rewrite Nat.add_0_r. auto.
      * right. exists k, c, r. rewrite Nat.add_succ_r. auto.
Qed.

Lemma In_paths_post_iff : forall t p, In p (paths_post t) <-> exists u, sub t p = Some u.
Proof.
  induction t using tree_ind'. intros p. rewrite paths_post_unfold, in_app_iff. cbn [In t_kids].
  rewrite In_paths_post_forest. split.
  - intros [(k0 & c & r & -> & Hn & Hr) | [<- | []]]; [|cbn; eauto].
    cbn [sub t_kids Nat.add]. rewrite Hn.
    rewrite Forall_forall in H. apply (H c (nth_error_In _ _ Hn)). exact Hr.
  - destruct p as [|k0 r]; [auto|]. cbn [sub t_kids]. intros [u Hu]. left.
    destruct (nth_error kids k0) as [c|] eqn:Hn; [|discriminate].
    exists k0, c, r. split; [reflexivity|]. split; [exact Hn|].
    rewrite Forall_forall in H. apply (H c (nth_error_In _ _ Hn)). eauto.
Qed.

Lemma postfix_states_lt t : forall i, In i (postfix_states t 0) -> i < tsize t.
Proof.
  intros i Hi. assert (Hin : In (Some i) (map Some (postfix_states t 0))) by (apply in_map; exact Hi).
  rewrite <- paths_post_idx in Hin. apply in_map_iff in Hin. destruct Hin as (p & Hp & _).
  apply pidx_range in Hp. lia.
Qed.

(* a sub-occurrence's own numbering is the global numbering shifted *)
Lemma pth_shift t d u k : d < tsize t -> sub t (pth_of t d) = Some u -> k < tsize u ->
  d + k < tsize t /\ pth_of t (d + k) = pth_of t d ++ pth_of u k.
Proof.
  intros Hd Hu Hk. pose proof (pidx_pth t d Hd) as Hpd.
  assert (Hp : pidx t 0 (pth_of t d ++ pth_of u k) = Some (d + k)).
  { rewrite (pidx_app _ _ _ _ _ _ Hpd Hu).
    pose proof (paths_idx u d) as H.
    assert (Hn : nth k (map (pidx u d) (paths u)) None = nth k (map Some (seq d (tsize u))) None) by (rewrite H; reflexivity).
    rewrite (map_nth' (pidx u d) None []) in Hn by (rewrite paths_length; exact Hk).
    rewrite (map_nth' Some None 0) in Hn by (rewrite seq_length; exact Hk).
    rewrite seq_nth in Hn by exact Hk. exact Hn. }
  apply pth_of_pidx in Hp. exact Hp.
Qed.

(* ------------------------------------------------------------------ document order is the lexicographic order of occurrences *)

Fixpoint lex_lt (a b : list nat) : bool :=
  match a, b with
  | [], _ :: _ => true
  | x :: a', y :: b' => (x <? y) || ((x =? y) && lex_lt a' b')
  | _, _ => false
  end.

Lemma StronglySorted_app {A} (R : A -> A -> Prop) l1 l2 :
  StronglySorted R l1 -> StronglySorted R l2 -> (forall a b, In a l1 -> In b l2 -> R a b) ->
  StronglySorted R (l1 ++ l2).
Proof.
  induction l1 as [|x l1 IH]; intros H1 H2 H; [exact H2|].
  inversion H1 as [|? ? H1' Hall]; subst. cbn [app]. constructor.
  - apply IH; [exact H1' | exact H2 | intros a b Ha Hb; apply H; [right; exact Ha | exact Hb]].
  - apply Forall_app. split; [exact Hall|]. apply Forall_forall. intros b Hb. apply H; [left; reflexivity | exact Hb].
Qed.

Lemma StronglySorted_map_cons k l :
  StronglySorted (fun a b => lex_lt a b = true) l ->
  StronglySorted (fun a b => lex_lt a b = true) (map (cons k) l).
Proof.
  induction 1 as [|x l Hs IH Hall]; cbn [map]; constructor; [exact IH|].
  apply Forall_forall. intros b Hb. apply in_map_iff in Hb. destruct Hb as (b' & <- & Hb').
  rewrite Forall_forall in Hall. cbn [lex_lt]. rewrite Nat.eqb_refl, (Hall b' Hb'). apply orb_true_r.
Qed.

Lemma paths_sorted : forall t, StronglySorted (fun a b => lex_lt a b = true) (paths t).
Proof.
  induction t using tree_ind'. rewrite paths_unfold. cbn [t_kids]. constructor.
  - generalize 0. induction H as [|x r Hx Hr IH]; intros k0; cbn [paths_forest]; [constructor|].
    apply StronglySorted_app; [apply StronglySorted_map_cons; exact Hx | apply IH|].
    intros a b Ha Hb. apply in_map_iff in Ha. destruct Ha as (a' & <- & _).
    apply In_paths_forest in Hb. destruct Hb as (k1 & c & r1 & -> & _ & _). cbn [lex_lt].
    replace (k0 <? S k0 + k1) with true by (symmetry; apply Nat.ltb_lt; lia). reflexivity.
  - apply Forall_forall. intros b Hb. apply In_paths_forest in Hb. destruct Hb as (k1 & c & r1 & -> & _ & _). reflexivity.
Qed.

(* ------------------------------------------------------------------ resortStates *)

Lemma resort_kind t : t_kind (resort t) = t_kind t.
Proof. destruct t. reflexivity. Qed.

Lemma filter_app_l {A} (f : A -> bool) l1 l2 : (forall x, In x l1 -> f x = false) -> filter f (l1 ++ l2) = filter f l2.
Proof.
  intros H. rewrite filter_app. replace (filter f l1) with (@nil A); [reflexivity|].
  symmetry. induction l1 as [|x l1 IH]; [reflexivity|]. cbn. rewrite (H x (or_introl eq_refl)).
  apply IH. intros y Hy. apply H. right. exact Hy.
Qed.

Lemma filter_filter_sub {A} (f g : A -> bool) l : (forall x, f x = true -> g x = true) -> filter f (filter g l) = filter f l.
Proof.
  intros H. induction l as [|x l IH]; [reflexivity|]. cbn. destruct (g x) eqn:Hg; cbn.
  - rewrite IH. reflexivity.
  - destruct (f x) eqn:Hf; [rewrite (H x Hf) in Hg; discriminate | exact IH].
Qed.

(* the re-sorting moves only pseudo-states: the proper children keep their order, so "the first child
   state in document order" (default completion) is the same before and after *)
Lemma resort_proper_children t :
  filter (fun c => is_proper_kind (t_kind c)) (t_kids (resort t)) =
  map resort (filter (fun c => is_proper_kind (t_kind c)) (t_kids t)).
Proof.
  destruct t as [k s i tr en ex d kids]. cbn [resort t_kids].
  set (P := fun c : tree => is_proper_kind (t_kind c)).
  rewrite filter_app_l.
  2:{ intros x Hx. apply in_rev in Hx. apply filter_In in Hx. destruct Hx as [_ Hx]. unfold P. destruct (t_kind x); try discriminate; reflexivity. }
  rewrite filter_filter_sub by (intros x Hx; unfold P in Hx; destruct (t_kind x); try discriminate; reflexivity).
  rewrite filter_app_l.
  2:{ intros x Hx. apply in_rev in Hx. apply filter_In in Hx. destruct Hx as [_ Hx]. unfold P. destruct (t_kind x); try discriminate; reflexivity. }
  rewrite filter_filter_sub by (intros x Hx; unfold P in Hx; destruct (t_kind x); try discriminate; reflexivity).
  induction kids as [|x l IH]; [reflexivity|]. cbn [map filter].
  assert (Hx : P (resort x) = P x) by (unfold P; rewrite resort_kind; reflexivity). rewrite Hx.
  destruct (P x); cbn [map]; rewrite IH; reflexivity.
Qed.

Lemma paths_enumeration_lemma : forall t,
  StronglySorted (fun a b => lex_lt a b = true) (paths t) /\ NoDup (paths t) /\
  (forall p, In p (paths t) <-> exists u, sub t p = Some u).
Proof. intros t. split; [apply paths_sorted | split; [apply paths_NoDup | apply In_paths_iff]]. Qed.
