(* EngineEquivHistWitness.v -- C03 beyond the history-free core: the hypotheses of the engine comparison on charts
   with pseudo-states are satisfiable by a non-trivial chart (deep and shallow history with executable content
   in their default transitions, <initial> elements with content, a <parallel>, a run that leaves and re-enters
   through the histories), and the side conditions / the weakened statement cannot be strengthened (concrete
   charts on which the two engine models differ).  Witness charts, computations by vm_compute. *)
From V Require Import Base NameMatch Chart Exec Large LargeLemmas Fast Interp Legal SetLemmas LegalAbstract LegalLarge
  LegalRun WfCore LegalOracle LargeCacheLemmas SelectConform SelectConformLemmas MicroConform MicroConformLemmas MicroConformWitness
  LegalHistBase LegalHistEntry LegalHistStep LegalHistRun LegalHistWf LegalHistOracle LegalHistFast LegalHistFastRun
  EngineEquivBase EngineEquivDone EngineEquivStep EngineEquivSelect EngineEquivRun EngineEquivMain EngineEquivWitness
  EngineEquivHistEntry EngineEquivHistDone EngineEquivHistEnter EngineEquivHistMicro EngineEquivHistRun EngineEquivHistMain.

Local Open Scope N_scope.
Definition eh_nd (k : skind) (sid : N) (trs : list ttrans) (kids : list tree) : tree := TNode k sid None trs [] [] [] kids.

(* <scxml initial="s12">
     s1 (e1 -> s12) { <initial> -> s2 [log 1];  shallow history h21 -> s11 [log 2];
                      s2 { deep history h22 -> s7 [log 3; Var1 := Var1 + 1];  <initial> -> s3 [log 6];
                           s3 (e2 -> s4);  <parallel> s4 { s5 { s6 (e3 -> s7), s7 }, s8 { s9, s10 } } };
                      s11 (e6 -> s2) }
     s12 (e4 -> h21 [log 4];  e5 -> h22 [log Var1];  e7 -> s1) *)
Definition eh_tree : tree :=
  TNode KScxml 0 (Some [12]) [] [] [] [(1, INum 0)]
   [eh_nd KState 1 [ee_tr 101 (Some [101]) None (Some [12]) false []]
      [eh_nd KInitial 20 [ee_tr 201 None None (Some [2]) false [ILog 401 (INum 1)]] [];
       eh_nd KHistShallow 21 [ee_tr 202 None None (Some [11]) false [ILog 402 (INum 2)]] [];
       eh_nd KState 2 []
         [eh_nd KHistDeep 22 [ee_tr 203 None None (Some [7]) false [ILog 403 (INum 3); IAssign 413 1 (IAdd (IVar 1) (INum 1))]] [];
          eh_nd KInitial 23 [ee_tr 204 None None (Some [3]) false [ILog 406 (INum 6)]] [];
          eh_nd KState 3 [ee_tr 102 (Some [102]) None (Some [4]) false []] [];
          eh_nd KParallel 4 []
            [eh_nd KState 5 [] [eh_nd KState 6 [ee_tr 103 (Some [103]) None (Some [7]) false []] []; eh_nd KState 7 [] []];
             eh_nd KState 8 [] [eh_nd KState 9 [] []; eh_nd KState 10 [] []]]];
       eh_nd KState 11 [ee_tr 106 (Some [106]) None (Some [2]) false []] []];
    eh_nd KState 12 [ee_tr 104 (Some [104]) None (Some [21]) false [ILog 404 (INum 4)];
                     ee_tr 105 (Some [105]) None (Some [22]) false [ILog 405 (IVar 1)];
                     ee_tr 107 (Some [107]) None (Some [1]) false []] []].

(* e4: h21 has no record, its default transition runs (log 2) -> s11;  e1: leave (h21 records s11);
   e5: h22 has no record, its default transition runs (log 3) -> s7 inside the <parallel>, s8/s9 by completion;
   e1: leave (h21 records s2, h22 records s4 s5 s7 s8 s9);  e5: restored through the deep history;  e1: leave;
   e4: shallow history restores s2, completed through its <initial> (log 6) -> s3;  e1: leave;
   e7: s1 entered through its <initial> (log 1) and s2 through its <initial> (log 6) in ONE microstep *)
Definition eh_evs : list bytes := [[104]; [101]; [105]; [101]; [105]; [101]; [104]; [101]; [107]].

(* a single <initial> element *)
Definition eh_ini_tree : tree :=
  TNode KScxml 0 None [] [] [] []
    [eh_nd KState 1 [] [eh_nd KInitial 20 [ee_tr 201 None None (Some [2]) false []] []; eh_nd KState 2 [] []]].

(* a shallow history with content in its default transition *)
Definition eh_dup_tree : tree :=
  TNode KScxml 0 None [] [] [] []
    [eh_nd KState 1 [ee_tr 101 (Some [101]) None (Some [20]) false []] [];
     eh_nd KState 2 [] [eh_nd KHistShallow 20 [ee_tr 202 None None (Some [3]) false [ILog 402 (INum 2)]] []; eh_nd KState 3 [] []]].

(* C03-K4 through a history: <parallel> s2 whose two regions have reached their <final>s one after the other is
   left and restored through the deep history h20: s5 and s8 are entered in one microstep *)
Definition eh_k4h_tree : tree :=
  TNode KScxml 0 None [] [] [] []
    [eh_nd KState 1 [ee_tr 101 (Some [101]) None (Some [9]) false []]
       [eh_nd KHistDeep 20 [ee_tr 201 None None (Some [2]) false []] [];
        eh_nd KParallel 2 []
          [eh_nd KState 3 [] [eh_nd KState 4 [ee_tr 102 (Some [102]) None (Some [5]) false []] []; eh_nd KFinal 5 [] []];
           eh_nd KState 6 [] [eh_nd KState 7 [ee_tr 103 (Some [103]) None (Some [8]) false []] []; eh_nd KFinal 8 [] []]]];
     eh_nd KState 9 [ee_tr 104 (Some [101]) None (Some [20]) false []] []].
Local Open Scope nat_scope.

(* a flat chart with another transition list for state i (not what LargeMicroStep::init builds) *)
Definition eh_set_trans (c : fchart) (i : nat) (l : list nat) : fchart :=
  {| fc_states := map (fun p => if (fst p =? i) then
        let s := snd p in {| fs_type := fs_type s; fs_sid := fs_sid s; fs_parent := fs_parent s; fs_children := fs_children s;
           fs_ancestors := fs_ancestors s; fs_completion := fs_completion s; fs_trans := l; fs_onentry := fs_onentry s;
           fs_onexit := fs_onexit s; fs_data := fs_data s; fs_size := fs_size s |} else snd p) (combine (seq 0 (nstates c)) (fc_states c));
     fc_trans := fc_trans c; fc_late := fc_late c |}.

(* the history state (index 3) lists its default transition twice *)
Definition eh_dup_chart : fchart :=
  let c := flatten false eh_dup_tree in eh_set_trans c 3 (fs_trans (st c 3) ++ fs_trans (st c 3)).

Definition eh_is_ev (n : bytes) (t : tok) : bool :=
  match t with TEv m => if list_eq_dec N.eq_dec m n then true else false | _ => false end.

Ltac eh_conj_split := repeat match goal with |- _ /\ _ => split end.

(* ------------------------------------------------------------------ non-vacuity *)

Example eh_tree_guarded :
  let c := flatten false eh_tree in
  eq_chartb_hist c = true /\ wf_initb c = false /\ wf_coreb c = false /\
  eq_guard_run_hist ex_fixed c 80 l_pristine x_init eh_evs = true /\
  (* the default transitions of both histories and of both <initial> elements ran, in this order *)
  filter_map (fun t => match t with TLog z => Some z | _ => None end) (fst (run_large lg_fixed ex_fixed false eh_tree eh_evs 80)) =
    [4; 2; 0; 3; 1; 4; 6; 1; 6]%Z /\
  (* after e5 the configuration is inside the <parallel>, at the end s1 s2 s3; both histories have a record *)
  In (TCfg [0; 1; 2; 4; 5; 7; 8; 9]%N) (fst (run_large lg_fixed ex_fixed false eh_tree eh_evs 80)) /\
  l_cfg (fst (run_loop c lstate (large_step lg_fixed ex_fixed c) l_cfg 80 l_pristine x_init eh_evs)) = [0; 1; 4; 7] /\
  l_hist (fst (run_loop c lstate (large_step lg_fixed ex_fixed c) l_cfg 80 l_pristine x_init eh_evs)) = [4; 7].
Proof.
  cbv zeta. eh_conj_split; try (vm_compute; reflexivity).
  vm_compute. repeat (first [left; reflexivity | right]).
Qed.

Example eh_tree_engines_agree : run_fast ex_fixed false eh_tree eh_evs 80 = run_large lg_fixed ex_fixed false eh_tree eh_evs 80.
Proof. apply fast_large_trace_equiv_hist_lemma; vm_compute; reflexivity. Qed.

(* the charts of LegalHistOracle.v *)
Example eh_oracle_trees_guarded :
  eq_chartb_hist (flatten false hini_tree) = true /\
  eq_guard_run_hist ex_fixed (flatten false hini_tree) 16 l_pristine x_init [[102%N]] = true /\
  eq_chartb_hist (flatten false hh_tree) = true /\
  eq_guard_run_hist ex_fixed (flatten false hh_tree) 24 l_pristine x_init [[102%N]; [101%N]; [102%N]; [101%N]] = true /\
  eq_chartb_hist (flatten false h2_tree) = true /\
  eq_guard_run_hist ex_fixed (flatten false h2_tree) 24 l_pristine x_init [[102%N]; [101%N]; [103%N]] = true.
Proof. vm_compute. eh_conj_split; reflexivity. Qed.

(* ------------------------------------------------------------------ what cannot be strengthened *)

(* the entry sets are NOT literally equal: the large engine keeps the <initial> pseudo-state, the fast engine
   takes it out (initial step of eh_ini_tree) *)
Lemma entry_set_literal_equality_hist_refuted_lemma :
  exists c hist,
    wf_initb c = true /\ fs_type (st c 0) = FCompound /\ ascb (fs_completion (st c 0)) = true /\ hist = [] /\
    fst (fentry_set c [] [] hist (fs_completion (st c 0)) []) = [0; 1; 3] /\
    fst (entry_set lg_fixed c [] [] hist (fs_completion (st c 0)) []) = [0; 1; 2; 3] /\
    is_initialb c 2 = true.
Proof. exists (flatten false eh_ini_tree), []. vm_compute. eh_conj_split; reflexivity. Qed.

(* trans_tableb in the microstep theorem: when a history state lists its default transition twice (no chart
   built by flatten does), the large engine executes its content twice, the fast engine once *)
Lemma microstep_equiv_hist_without_table_refuted_lemma :
  exists c l x sel,
    wf_histb c = true /\ leaf_okb c = true /\ par_nonemptyb c = true /\ trans_tableb c = false /\
    legal_configb c (l_cfg l) = true /\ l_hist l = [] /\ ascb (l_cfg l) = true /\
    (forall ti, In ti sel -> In (ft_source (tr c ti)) (l_cfg l)) /\ pairwise_ok lg_fixed c sel /\ ascb sel = true /\
    plain_transb c sel = true /\
    ms_guardb_hist c l (sel_targets c sel) (sel_exitset c (l_cfg l) sel) sel false = true /\
    filter_map (fun t => match t with TLog z => Some z | _ => None end)
      (x_out (snd (fmicrostep ex_fixed c l x (sel_targets c sel) (sel_exitset c (l_cfg l) sel) sel false))) = [2%Z] /\
    filter_map (fun t => match t with TLog z => Some z | _ => None end)
      (x_out (snd (microstep lg_fixed ex_fixed c l x (sel_targets c sel) (sel_exitset c (l_cfg l) sel) sel false))) = [2%Z; 2%Z].
Proof.
  exists eh_dup_chart, (l_of [0; 1] []), x_init, [0].
  eh_conj_split; try (vm_compute; reflexivity).
  - intros ti [<-|[]]. vm_compute. auto.
  - apply pairwise_single.
Qed.

(* the dynamic guard: the three core witnesses are charts of eq_chartb_hist as well, and C03-K4 also shows when a
   <parallel> with <final> regions is restored through a deep history (the fast engine raises done.state.s2 twice) *)
Lemma run_equiv_hist_without_guard_refuted_lemma :
  (forall t, In t [k1_tree; k4_tree; nest_tree] ->
     let c := flatten false t in
     eq_chartb_hist c = true /\ eq_guard_run_hist ex_fixed c 12 l_pristine x_init [[101%N]] = false /\
     run_fast ex_fixed false t [[101%N]] 12 <> run_large lg_fixed ex_fixed false t [[101%N]] 12) /\
  (let c := flatten false eh_k4h_tree in
   let evs := [[102%N]; [103%N]; [101%N]; [101%N]] in
   eq_chartb_hist c = true /\ wf_coreb c = false /\
   eq_guard_run_hist ex_fixed c 40 l_pristine x_init [[102%N]; [103%N]; [101%N]] = true /\
   eq_guard_run_hist ex_fixed c 40 l_pristine x_init evs = false /\
   length (filter (eh_is_ev (s_done_state ++ state_name 2%N)) (fst (run_fast ex_fixed false eh_k4h_tree evs 40))) = 3 /\
   length (filter (eh_is_ev (s_done_state ++ state_name 2%N)) (fst (run_large lg_fixed ex_fixed false eh_k4h_tree evs 40))) = 2).
Proof.
  split.
  - intros t [<-|[<-|[<-|[]]]]; vm_compute; (split; [reflexivity|]); (split; [reflexivity|]); discriminate.
  - cbv zeta. eh_conj_split; vm_compute; reflexivity.
Qed.
