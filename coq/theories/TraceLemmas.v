(* TraceLemmas.v -- the modelled executor and micro-step engines only emit well-nested traces (C13),
   for every chart, configuration, event history and fuel. *)
From V Require Import Base NameMatch Chart Exec Large Interp Trace.
Local Open Scope N_scope.

(* ------------------------------------------------------------------ the emits relation *)

Lemma wf_run_app stk a b :
  wf_run stk (a ++ b) = match wf_run stk a with Some s => wf_run s b | None => None end.
Proof.
  revert stk; induction a as [|t a IH]; intros stk; cbn [app wf_run]; [reflexivity|].
  destruct (wf_step stk t); [apply IH | reflexivity].
Qed.

(* between x and x' the tokens [new] were emitted; they take the bracket stack from s to s' *)
Definition emits (x x' : xstate) (s s' : list frame) : Prop :=
  exists new, x_out x' = new ++ x_out x /\ wf_run s (rev new) = Some s'.

Lemma emits_refl x s : emits x x s s.
Proof. exists []. split; reflexivity. Qed.

Lemma emits_same_out x x' s : x_out x' = x_out x -> emits x x' s s.
Proof. intros H. exists []. split; [exact H | reflexivity]. Qed.

Lemma emits_trans x x' x'' s s' s'' :
  emits x x' s s' -> emits x' x'' s' s'' -> emits x x'' s s''.
Proof.
  intros (n1 & H1 & W1) (n2 & H2 & W2). exists (n2 ++ n1). split.
  - rewrite H2, H1. now rewrite app_assoc.
  - rewrite rev_app_distr, wf_run_app, W1. exact W2.
Qed.

Lemma emits_tok x t s s' : wf_step s t = Some s' -> emits x (emit t x) s s'.
Proof. intros H. exists [t]. split; [reflexivity|]. cbn. now rewrite H. Qed.

Lemma emits_tok_after x x0 t s s' : x_out x0 = x_out x -> wf_step s t = Some s' -> emits x (emit t x0) s s'.
Proof. intros Ho H. exists [t]. split; [cbn; now rewrite Ho|]. cbn. now rewrite H. Qed.

Lemma emits_raise_int e x s : emits x (raise_int e x) s s.
Proof. now apply emits_same_out. Qed.
Lemma emits_raise_ext e x s : emits x (raise_ext e x) s s.
Proof. now apply emits_same_out. Qed.
Lemma emits_set_store st x s : emits x (set_store st x) s s.
Proof. now apply emits_same_out. Qed.

Lemma emits_is_true inst c x s : emits x (snd (is_true inst c x)) s s.
Proof. unfold is_true. destruct (beval inst (x_store x) c); cbn; [apply emits_refl | apply emits_raise_int]. Qed.

Lemma emits_init_data d x s : emits x (init_data d x) s s.
Proof. unfold init_data. destruct (ieval _ _); [apply emits_set_store | apply emits_raise_int]. Qed.

(* stacks on which executable content may be reported *)
Definition content_ctx (s : list frame) : Prop :=
  match s with
  | FrX _ :: _ | FrT _ :: _ | FrE _ :: _ | FrC _ :: _ | FrCompl :: _ => True
  | _ => False
  end.

Lemma wf_step_Cb i s : content_ctx s -> wf_step s (TCb i) = Some (FrC i :: s).
Proof. destruct s as [|[] r]; cbn; intros H; try contradiction; reflexivity. Qed.
Lemma wf_step_Ce i s : wf_step (FrC i :: s) (TCe i) = Some s.
Proof. cbn. now rewrite N.eqb_refl. Qed.
Lemma wf_step_Log z i s : wf_step (FrC i :: s) (TLog z) = Some (FrC i :: s).
Proof. reflexivity. Qed.

(* ------------------------------------------------------------------ induction on content *)

Section InstrInd.
Variable P : instr -> Prop.
Variable Q : ifitem -> Prop.
Hypothesis HRaise : forall v e, P (IRaise v e).
Hypothesis HSend : forall v e, P (ISend v e).
Hypothesis HSendBT : forall v e, P (ISendBadType v e).
Hypothesis HSendBG : forall v e, P (ISendBadTarget v e).
Hypothesis HLog : forall v e, P (ILog v e).
Hypothesis HAssign : forall v x e, P (IAssign v x e).
Hypothesis HIf : forall v c body, Forall Q body -> P (IIf v c body).
Hypothesis HElseif : forall c, Q (FElseif c).
Hypothesis HElse : Q FElse.
Hypothesis HInstr : forall i, P i -> Q (FInstr i).

Fixpoint instr_ind2 (i : instr) : P i :=
  match i with
  | IRaise v e => HRaise v e
  | ISend v e => HSend v e
  | ISendBadType v e => HSendBT v e
  | ISendBadTarget v e => HSendBG v e
  | ILog v e => HLog v e
  | IAssign v x e => HAssign v x e
  | IIf v c body =>
      HIf v c body
          ((fix go (l : list ifitem) : Forall Q l :=
              match l with
              | [] => Forall_nil Q
              | it :: r => Forall_cons it (match it return Q it with
                                          | FElseif c' => HElseif c'
                                          | FElse => HElse
                                          | FInstr j => HInstr j (instr_ind2 j)
                                          end) (go r)
              end) body)
  end.
End InstrInd.

(* the loop over the children of an <if>, as a top-level function (it is the local fix of exec_instr) *)
Section Content.
Variable inst : N -> bool.

Definition if_items :=
  fix items (l : list ifitem) (blockIsTrue : bool) (x : xstate) {struct l} : bool * xstate :=
    match l with
    | [] => (true, x)
    | FElseif c' :: r =>
        if blockIsTrue then (true, x)
        else let '(b, x') := is_true inst c' x in items r b x'
    | FElse :: r => if blockIsTrue then (true, x) else items r true x
    | FInstr j :: r =>
        if blockIsTrue then
          let '(ok, x') := exec_instr ex_fixed inst j x in
          if ok then items r blockIsTrue x' else (false, x')
        else items r blockIsTrue x
    end.

Lemma exec_if_unfold vid c body x :
  exec_instr ex_fixed inst (IIf vid c body) x =
  let x1 := emit (TCb vid) x in
  let '(b0, x2) := is_true inst c x1 in
  let '(ok, x3) := if_items body b0 x2 in
  if ok then (true, emit (TCe vid) x3) else (false, emit (TCe vid) x3).
Proof. reflexivity. Qed.

Lemma fail_elem_emits vid e x s : emits x (snd (fail_elem vid e x)) (FrC vid :: s) s.
Proof.
  unfold fail_elem. cbn [snd].
  eapply emits_trans; [apply emits_raise_int|]. apply emits_tok, wf_step_Ce.
Qed.

(* every element of executable content emits a balanced bracket sequence on a content stack *)
Lemma exec_instr_emits i : forall y s, content_ctx s -> emits y (snd (exec_instr ex_fixed inst i y)) s s.
Proof.
  induction i using instr_ind2 with
    (Q := fun it => match it with
                    | FInstr j => forall x s, content_ctx s -> emits x (snd (exec_instr ex_fixed inst j x)) s s
                    | _ => True
                    end); try exact I; intros y s Hs.
  - cbn [exec_instr snd].
    eapply emits_trans; [apply emits_tok, wf_step_Cb, Hs|].
    eapply emits_trans; [apply emits_raise_int|]. apply emits_tok, wf_step_Ce.
  - cbn [exec_instr snd].
    eapply emits_trans; [apply emits_tok, wf_step_Cb, Hs|].
    eapply emits_trans; [apply emits_raise_ext|]. apply emits_tok, wf_step_Ce.
  - cbn [exec_instr]. eapply emits_trans; [apply emits_tok, wf_step_Cb, Hs|]. apply fail_elem_emits.
  - cbn [exec_instr]. eapply emits_trans; [apply emits_tok, wf_step_Cb, Hs|]. apply fail_elem_emits.
  - cbn [exec_instr]. eapply emits_trans; [apply emits_tok, wf_step_Cb, Hs|].
    destruct (ieval _ _).
    + cbn [snd]. eapply emits_trans; [apply emits_tok, wf_step_Log|]. apply emits_tok, wf_step_Ce.
    + apply fail_elem_emits.
  - cbn [exec_instr]. eapply emits_trans; [apply emits_tok, wf_step_Cb, Hs|].
    destruct (ieval _ _); [destruct (lookup _ _)|].
    + cbn [snd]. eapply emits_trans; [apply emits_set_store|]. apply emits_tok, wf_step_Ce.
    + apply fail_elem_emits.
    + apply fail_elem_emits.
  - (* IIf *)
    rewrite exec_if_unfold. cbn zeta.
    assert (Hitems : forall l, Forall (fun it => match it with
                    | FInstr j => forall x s, content_ctx s -> emits x (snd (exec_instr ex_fixed inst j x)) s s
                    | _ => True end) l ->
             forall b y s', content_ctx s' -> emits y (snd (if_items l b y)) s' s').
    { clear. induction l as [|it r IHl]; intros HF b y s' Hs'; cbn [if_items].
      - apply emits_refl.
      - inversion HF as [|? ? Hit Hr]; subst. destruct it as [c'| |j].
        + destruct b; [apply emits_refl|].
          destruct (is_true inst c' y) as [b' y'] eqn:E.
          eapply emits_trans; [|apply IHl; assumption].
          replace y' with (snd (is_true inst c' y)) by (now rewrite E). apply emits_is_true.
        + destruct b; [apply emits_refl | now apply IHl].
        + destruct b; [|now apply IHl].
          destruct (exec_instr ex_fixed inst j y) as [ok y'] eqn:E.
          assert (He : emits y y' s' s').
          { replace y' with (snd (exec_instr ex_fixed inst j y)) by (now rewrite E). now apply Hit. }
          destruct ok; [eapply emits_trans; [exact He | now apply IHl] | exact He]. }
    destruct (is_true inst c (emit (TCb v) y)) as [b0 x2] eqn:E1.
    destruct (if_items body b0 x2) as [ok x3] eqn:E2.
    assert (Ha : emits y (emit (TCb v) y) s (FrC v :: s)) by (apply emits_tok, wf_step_Cb, Hs).
    assert (Hb : emits (emit (TCb v) y) x2 (FrC v :: s) (FrC v :: s)).
    { replace x2 with (snd (is_true inst c (emit (TCb v) y))) by (now rewrite E1). apply emits_is_true. }
    assert (Hc : emits x2 x3 (FrC v :: s) (FrC v :: s)).
    { replace x3 with (snd (if_items body b0 x2)) by (now rewrite E2). apply Hitems; [assumption | exact I]. }
    pose proof (emits_trans _ _ _ _ _ _ Ha (emits_trans _ _ _ _ _ _ Hb Hc)) as H12.
    destruct ok; cbn [snd]; (eapply emits_trans; [exact H12 | apply emits_tok, wf_step_Ce]).
  - now apply IHi.
Qed.

Lemma exec_block_emits b : forall x s, content_ctx s -> emits x (exec_block ex_fixed inst b x) s s.
Proof.
  induction b as [|i r IH]; intros x s Hs; cbn [exec_block]; [apply emits_refl|].
  destruct (exec_instr ex_fixed inst i x) as [ok x'] eqn:E.
  assert (He : emits x x' s s).
  { replace x' with (snd (exec_instr ex_fixed inst i x)) by (now rewrite E). now apply exec_instr_emits. }
  destruct ok; [eapply emits_trans; [exact He | now apply IH] | exact He].
Qed.

End Content.

Lemma exec_blocks_emits inst bs : forall x s, content_ctx s -> emits x (exec_blocks ex_fixed inst bs x) s s.
Proof.
  unfold exec_blocks. induction bs as [|b r IH]; intros x s Hs; cbn [fold_left]; [apply emits_refl|].
  eapply emits_trans; [apply exec_block_emits; exact Hs | now apply IH].
Qed.

Lemma fold_left_emits {A} (f : xstate -> A -> xstate) (l : list A) s :
  (forall x a, emits x (f x a) s s) -> forall x, emits x (fold_left f l x) s s.
Proof.
  intros Hf. induction l as [|a r IH]; intros x; cbn [fold_left]; [apply emits_refl|].
  eapply emits_trans; [apply Hf | apply IH].
Qed.

(* ------------------------------------------------------------------ the micro-step engines *)

Definition same_out (x x' : xstate) : Prop := x_out x' = x_out x.

Lemma same_out_refl x : same_out x x. Proof. reflexivity. Qed.
Lemma same_out_trans x y z : same_out x y -> same_out y z -> same_out x z.
Proof. unfold same_out; congruence. Qed.
Lemma same_out_emits x x' s : same_out x x' -> emits x x' s s.
Proof. apply emits_same_out. Qed.

Lemma same_out_is_true inst c x : same_out x (snd (is_true inst c x)).
Proof. unfold is_true. destruct (beval _ _ _); reflexivity. Qed.

Section Engine.
Variable v : lg_variant.
Variable c : fchart.

Lemma pick_trans_same_out cfg ev sel ts : forall x, same_out x (snd (pick_trans v c cfg ev sel ts x)).
Proof.
  induction ts as [|t r IH]; intros x; cbn [pick_trans]; [reflexivity|].
  repeat match goal with
         | |- context [if ?b then _ else _] => destruct b; try apply IH
         end.
  destruct (ft_cond (tr c t)) as [cnd|]; [|reflexivity].
  destruct (is_true (inst_of c cfg) cnd x) as [b x'] eqn:E.
  assert (Hs : same_out x x') by (replace x' with (snd (is_true (inst_of c cfg) cnd x)) by (now rewrite E); apply same_out_is_true).
  destruct b; [exact Hs | eapply same_out_trans; [exact Hs | apply IH]].
Qed.

Lemma select_loop_same_out cfg ev order : forall skip sel x,
  same_out x (snd (select_loop v c cfg ev order skip sel x)).
Proof.
  induction order as [|s r IH]; intros skip sel x; cbn [select_loop]; [reflexivity|].
  destruct (match skip with Some cur => match fs_parent (st c cur) with Some p => (p =? s)%nat | None => false end | None => false end);
    [apply IH|].
  destruct (pick_trans v c cfg ev sel (fs_trans (st c s)) x) as [o x'] eqn:E.
  assert (Hs : same_out x x') by (replace x' with (snd (pick_trans v c cfg ev sel (fs_trans (st c s)) x)) by (now rewrite E); apply pick_trans_same_out).
  destruct o; (eapply same_out_trans; [exact Hs | apply IH]).
Qed.

Lemma emits_bracket x tb te s smid s' (body : xstate -> xstate) :
  wf_step s tb = Some smid -> wf_step smid te = Some s' ->
  (forall y, emits y (body y) smid smid) ->
  emits x (emit te (body (emit tb x))) s s'.
Proof.
  intros Hb He Hbody.
  apply (emits_trans _ (emit tb x) _ _ smid _); [now apply emits_tok|].
  apply (emits_trans _ (body (emit tb x)) _ _ smid _); [apply Hbody | now apply emits_tok].
Qed.

(* EXIT_STATES *)
Lemma exit_fold_emits l : forall cfg x,
  emits x (snd (fold_left (exit_one ex_fixed c) l (cfg, x))) [FrMS 0] [FrMS 0].
Proof.
  induction l as [|i r IH]; intros cfg x; cbn [fold_left]; [apply emits_refl|].
  change (exit_one ex_fixed c (cfg, x) i) with
    (set_remove i cfg,
     emit (TXe (fs_sid (st c i)))
          (exec_blocks ex_fixed (inst_of c cfg) (fs_onexit (st c i)) (emit (TXb (fs_sid (st c i))) x))).
  eapply emits_trans; [|apply IH].
  apply (emits_bracket x _ _ [FrMS 0] [FrX (fs_sid (st c i)); FrMS 0] [FrMS 0]
                       (exec_blocks ex_fixed (inst_of c cfg) (fs_onexit (st c i)))).
  - reflexivity.
  - cbn. now rewrite N.eqb_refl.
  - intros y. apply exec_blocks_emits. exact I.
Qed.

(* TAKE_TRANSITIONS: the phase of the microstep bracket only moves forward and stays <= 2 *)
Definition ms_emits (x x' : xstate) (p : nat) : Prop :=
  exists p', (p <= p')%nat /\ (p' <= 2)%nat /\ emits x x' [FrMS p] [FrMS p'].

Lemma ms_emits_refl x p : (p <= 2)%nat -> ms_emits x x p.
Proof. intros H. exists p. repeat split; auto. apply emits_refl. Qed.

Lemma ms_emits_trans x y z p :
  ms_emits x y p -> (forall p', (p <= p')%nat -> (p' <= 2)%nat -> ms_emits y z p') -> ms_emits x z p.
Proof.
  intros (p1 & H1 & H2 & E1) Hn. destruct (Hn p1 H1 H2) as (p2 & H3 & H4 & E2).
  exists p2. repeat split; [lia | assumption | eapply emits_trans; eassumption].
Qed.

Lemma trans_bracket_emits cfg t x p : (p <= 2)%nat ->
  ms_emits x (emit (TTe (ft_vid t))
                   ((if ft_has_body t then exec_block ex_fixed (inst_of c cfg) (ft_body t) (emit (TTb (ft_vid t)) x)
                     else emit (TTb (ft_vid t)) x))) p.
Proof.
  intros Hp. exists (Nat.max p 1). split; [lia|]. split; [lia|].
  assert (Hb : wf_step [FrMS p] (TTb (ft_vid t)) = Some [FrT (ft_vid t); FrMS (Nat.max p 1)]).
  { cbn. destruct (Nat.leb_spec p 2); [reflexivity | lia]. }
  assert (He : wf_step [FrT (ft_vid t); FrMS (Nat.max p 1)] (TTe (ft_vid t)) = Some [FrMS (Nat.max p 1)]).
  { cbn. now rewrite N.eqb_refl. }
  destruct (ft_has_body t).
  - apply (emits_bracket x _ _ _ _ _ (exec_block ex_fixed (inst_of c cfg) (ft_body t)) Hb He).
    intros y. apply exec_block_emits. exact I.
  - apply (emits_bracket x _ _ _ _ _ (fun y => y) Hb He). intros y. apply emits_refl.
Qed.

Lemma take_one_emits cfg x ti p : (p <= 2)%nat -> ms_emits x (take_one ex_fixed c cfg x ti) p.
Proof.
  intros Hp. unfold take_one. destruct (ft_history (tr c ti) || ft_initial (tr c ti)).
  - now apply ms_emits_refl.
  - now apply trans_bracket_emits.
Qed.

Lemma take_fold_emits cfg ts : forall x p, (p <= 2)%nat -> ms_emits x (fold_left (take_one ex_fixed c cfg) ts x) p.
Proof.
  induction ts as [|t r IH]; intros x p Hp; cbn [fold_left]; [now apply ms_emits_refl|].
  eapply ms_emits_trans; [now apply take_one_emits|]. intros p' _ Hp'. now apply IH.
Qed.

Lemma done_walk_same_out fuel : forall cfg anc x, same_out x (done_walk c fuel cfg anc x).
Proof.
  induction fuel as [|f IH]; intros cfg anc x; cbn [done_walk]; [reflexivity|].
  destruct anc as [a|]; [|reflexivity].
  destruct (fs_type (st c a)); try apply IH.
  destruct (in_final c (n_states c) cfg a); [|reflexivity].
  eapply same_out_trans; [|apply IH]. reflexivity.
Qed.

(* ENTER_STATES *)
Lemma enter_one_emits transset a i p : (p <= 2)%nat ->
  ms_emits (ea_x a) (ea_x (enter_one ex_fixed c transset a i)) p.
Proof.
  intros Hp. unfold enter_one.
  destruct (is_pseudo (fs_type (st c i))); [now apply ms_emits_refl|].
  cbn zeta.
  set (s := st c i).
  set (x1 := emit (TEb (fs_sid s)) (ea_x a)).
  set (cfg1 := insert_sorted i (ea_cfg a)).
  (* data initialisation: no tokens *)
  assert (Hdata : forall ds y, same_out y (fold_left (fun x d => init_data d x) ds y)).
  { induction ds as [|d r IHd]; intros y; cbn [fold_left]; [reflexivity|].
    eapply same_out_trans; [|apply IHd]. unfold init_data. destruct (ieval _ _); reflexivity. }
  match goal with
  | |- context [let '(initd1, x2) := ?e in _] => destruct e as [initd1 x2] eqn:Einit
  end.
  assert (H12 : same_out x1 x2).
  { destruct (fs_data s) as [|d ds].
    - injection Einit as _ <-. reflexivity.
    - destruct (mem i (ea_initd a)); injection Einit as _ <-; [reflexivity | apply (Hdata (d :: ds))]. }
  set (x3 := exec_blocks ex_fixed (inst_of c cfg1) (fs_onentry s) x2).
  set (x4 := emit (TEe (fs_sid s)) x3).
  (* up to afterEnteringState *)
  assert (H04 : emits (ea_x a) x4 [FrMS p] [FrMS 2]).
  { assert (Hb : wf_step [FrMS p] (TEb (fs_sid s)) = Some [FrE (fs_sid s); FrMS 2]).
    { cbn. destruct (Nat.leb_spec p 2); [reflexivity | lia]. }
    eapply emits_trans; [apply emits_tok; exact Hb|].
    eapply emits_trans; [apply same_out_emits; exact H12|].
    eapply emits_trans; [apply exec_blocks_emits; exact I|].
    apply emits_tok. cbn. now rewrite N.eqb_refl. }
  (* initial / history transitions of the children *)
  match goal with
  | |- context [fold_left ?f (fs_children s) x4] => set (F := f); set (x5 := fold_left F (fs_children s) x4)
  end.
  assert (H45 : emits x4 x5 [FrMS 2] [FrMS 2]).
  { subst x5. generalize x4. induction (fs_children s) as [|ch r IHc]; intros y; cbn [fold_left]; [apply emits_refl|].
    eapply emits_trans; [|apply IHc]. unfold F.
    destruct (is_pseudo (fs_type (st c ch))); [|apply emits_refl].
    generalize y. induction (fs_trans (st c ch)) as [|ti rt IHt]; intros z; cbn [fold_left]; [apply emits_refl|].
    eapply emits_trans; [|apply IHt].
    destruct ((ft_history (tr c ti) || ft_initial (tr c ti)) && mem ti transset); [|apply emits_refl].
    destruct (trans_bracket_emits cfg1 (tr c ti) z 2 (le_n 2)) as (p' & Hp1 & Hp2 & He).
    assert (p' = 2%nat) by lia. subst p'. exact He. }
  assert (H05 : emits (ea_x a) x5 [FrMS p] [FrMS 2]) by (eapply emits_trans; eassumption).
  exists 2%nat. split; [lia|]. split; [lia|].
  destruct (fs_type s) eqn:Ety; cbn [ea_x]; try exact H05.
  eapply emits_trans; [exact H05|]. apply same_out_emits.
  eapply same_out_trans; [|apply done_walk_same_out].
  destruct (match fs_parent s with Some 0%nat => true | _ => false end); [reflexivity|].
  destruct (fs_parent s); reflexivity.
Qed.

Lemma enter_fold_emits transset es : forall a p, (p <= 2)%nat ->
  ms_emits (ea_x a) (ea_x (fold_left (enter_one ex_fixed c transset) es a)) p.
Proof.
  induction es as [|i r IH]; intros a p Hp; cbn [fold_left]; [now apply ms_emits_refl|].
  eapply ms_emits_trans; [now apply enter_one_emits|]. intros p' _ Hp'. now apply IH.
Qed.

(* one microstep after beforeMicroStep: from [MS] back to the top level *)
Lemma microstep_emits l x targets exitset transset initial_step :
  emits x (snd (microstep v ex_fixed c l x targets exitset transset initial_step)) [FrMS 0] [].
Proof.
  unfold microstep. cbn zeta.
  destruct (entry_set v c (l_cfg l) exitset _ targets transset) as [es ts].
  destruct (fold_left (exit_one ex_fixed c) (rev exitset) (l_cfg l, x)) as [cfg1 x1] eqn:Eexit.
  assert (H1 : emits x x1 [FrMS 0] [FrMS 0]).
  { replace x1 with (snd (fold_left (exit_one ex_fixed c) (rev exitset) (l_cfg l, x))) by (now rewrite Eexit).
    apply exit_fold_emits. }
  cbn [snd].
  destruct (take_fold_emits cfg1 ts x1 0 ltac:(lia)) as (p2 & _ & Hp2 & H2).
  match goal with
  | |- context [fold_left (enter_one ex_fixed c ts) ?es1 ?a0] =>
    destruct (enter_fold_emits ts es1 a0 p2 Hp2) as (p3 & _ & Hp3 & H3)
  end.
  cbn [ea_x] in H3.
  eapply emits_trans; [exact H1|]. eapply emits_trans; [exact H2|]. eapply emits_trans; [exact H3|].
  apply emits_tok. reflexivity.
Qed.

Lemma select_and_step_emits l x ev :
  emits x (snd (fst (select_and_step v ex_fixed c l x ev))) [] [].
Proof.
  unfold select_and_step. cbn zeta.
  destruct (select_loop v c _ ev _ None [] x) as [sel x1] eqn:E.
  assert (Hs : same_out x x1).
  { replace x1 with (snd (select_loop v c (l_cfg (upd_flags l (l_spont l) false)) ev
                                      (cfg_postfix c (l_cfg (upd_flags l (l_spont l) false))) None [] x)) by (now rewrite E).
    apply select_loop_same_out. }
  destruct sel as [|t r].
  - cbn [fst snd]. now apply same_out_emits.
  - match goal with
    | |- context [microstep v ex_fixed c ?l0 ?x0 ?tg ?ex ?ts false] =>
      pose proof (microstep_emits l0 x0 tg ex ts false) as Hm;
      destruct (microstep v ex_fixed c l0 x0 tg ex ts false) as [l1 x2]
    end.
    cbn [fst snd] in *.
    eapply emits_trans; [apply same_out_emits; exact Hs|].
    apply (emits_trans _ (emit TMsB x1) _ _ [FrMS 0] _); [apply emits_tok; reflexivity | exact Hm].
Qed.

Lemma large_step_emits l x : emits x (snd (fst (large_step v ex_fixed c l x))) [] [].
Proof.
  unfold large_step.
  destruct (l_fin l); [apply emits_refl|].
  destruct (l_tlf l).
  { cbn [fst snd].
    apply (emits_bracket x TComplB TComplE [] [FrCompl] []
             (fun y => fold_left (fun x i => exec_blocks ex_fixed (inst_of c (l_cfg l)) (fs_onexit (st c i)) x) (rev (l_cfg l)) y));
      [reflexivity | reflexivity |].
    intros y. apply fold_left_emits. intros z a. apply exec_blocks_emits. exact I. }
  destruct (is_pristine l).
  { match goal with
    | |- context [microstep v ex_fixed c l ?x0 ?tg [] [] true] =>
      pose proof (microstep_emits l x0 tg [] [] true) as Hm;
      destruct (microstep v ex_fixed c l x0 tg [] [] true) as [l1 x1]
    end.
    cbn [fst snd] in *. apply (emits_trans _ (emit TMsB x) _ _ [FrMS 0] _); [apply emits_tok; reflexivity | exact Hm]. }
  destruct (l_spont l); [apply select_and_step_emits|].
  destruct (x_iq x) as [|e r].
  - destruct (l_stable l); cbn [negb].
    + destruct (x_eq x) as [|e r].
      * destruct (l_cancelled l); apply emits_refl.
      * destruct (ev_name e) as [|b bs] eqn:En.
        -- destruct (l_cancelled l); cbn [fst snd]; now apply same_out_emits.
        -- eapply emits_trans; [|apply select_and_step_emits].
           apply (emits_tok_after _ _ (TEv (b :: bs)) [] []); reflexivity.
    + cbn [fst snd]. apply (emits_tok _ TStable [] []). reflexivity.
  - destruct (ev_name e) as [|b bs] eqn:En; [apply emits_refl|].
    eapply emits_trans; [|apply select_and_step_emits].
    apply (emits_tok_after _ _ (TEv (b :: bs)) [] []); reflexivity.
Qed.

End Engine.

(* the driver loop, for any step function that emits well-nested segments at the top level *)
Section Loop.
Variable c : fchart.
Variable S : Type.
Variable step : S -> xstate -> S * xstate * N.
Variable cfg_of : S -> list nat.
Hypothesis step_emits : forall s x, emits x (snd (fst (step s x))) [] [].

Lemma run_loop_emits fuel : forall s x evs, emits x (snd (run_loop c S step cfg_of fuel s x evs)) [] [].
Proof.
  induction fuel as [|f IH]; intros s x evs; cbn [run_loop]; [apply emits_refl|].
  pose proof (step_emits s x) as Hs.
  destruct (step s x) as [[s1 x1] rc]. cbn [fst snd] in Hs.
  assert (H2 : emits x (emit (cfg_tok c S cfg_of s1) (emit (TRet rc) x1)) [] []).
  { eapply emits_trans; [exact Hs|]. eapply emits_trans; apply emits_tok; reflexivity. }
  destruct (rc =? RC_FINISHED); [exact H2|].
  destruct (rc =? RC_IDLE).
  - destruct evs as [|e r]; [exact H2|].
    eapply emits_trans; [exact H2|]. eapply emits_trans; [apply emits_raise_ext | apply IH].
  - eapply emits_trans; [exact H2 | apply IH].
Qed.
End Loop.

Lemma emits_from_init_wf x : emits x_init x [] [] -> wf_traceb (rev (x_out x)) = true.
Proof.
  intros (new & H1 & H2). unfold wf_traceb. cbn in H1. rewrite app_nil_r in H1. rewrite H1, H2. reflexivity.
Qed.

(* C13 for the large engine: every run of the model, for every chart, event history and bound, is well nested *)
Lemma run_large_wf lv late t evs fuel :
  wf_traceb (fst (run_large lv ex_fixed late t evs fuel)) = true.
Proof.
  unfold run_large.
  pose proof (run_loop_emits (flatten late t) lstate (large_step lv ex_fixed (flatten late t)) l_cfg
                             (large_step_emits lv (flatten late t)) fuel l_pristine x_init evs) as H.
  destruct (run_loop (flatten late t) lstate (large_step lv ex_fixed (flatten late t)) l_cfg fuel l_pristine x_init evs) as [l x].
  cbn [fst snd] in *. now apply emits_from_init_wf.
Qed.
