(* PmlEquivRunEx.v -- C06: PmlEquivRun.pml_run_lemma for documents (flat charts made by Chart.flatten with early
   binding: the <data> sit at the root by construction), and an instance showing that its premises are satisfiable
   by a non-trivial document.  Proofs only. *)
From V Require Import Base NameMatch Chart Exec Large Interp Tables TreeLemmas WfCore Fast Trie PmlStep PmlStepLemmas
                      PmlEquivBase PmlEquivExit PmlEquivCore PmlEquivEntry PmlEquivContent PmlEquivStep PmlEquivMicro
                      PmlEquivNames PmlEquivInit PmlEquivRun PmlEquivExamples.
Local Open Scope nat_scope.

Lemma flatten_early_data t i : i <> 0 -> fs_data (st (flatten false t) i) = [].
Proof.
  intros Hi. unfold st, flatten. cbn [fc_states].
  set (nodes := doc_nodes (resort t) 0 None).
  destruct (Nat.lt_ge_cases i (length nodes)) as [L|L].
  - rewrite (map_nth' _ dummy_state ((dummy_tree, None), 0)) by (rewrite combine_length, seq_length, Nat.min_id; exact L).
    rewrite (nth_combine_seq nodes (dummy_tree, None) i L).
    destruct (nth i nodes (dummy_tree, None)) as [u par]. cbn [fs_data]. destruct i; [congruence|reflexivity].
  - rewrite nth_overflow; [reflexivity|]. rewrite map_length, combine_length, seq_length, Nat.min_id. exact L.
Qed.

Theorem pml_run_tree_lemma : forall pv t iq eq (P : bytes -> Prop),
  let c := flatten false t in
  pv_in_reads_root pv = false -> pv_cond_bare pv = false -> pv_hist_covered pv = false -> pv_found_stale pv = false ->
  wf_coreb c = true -> fs_type (st c 0) = FCompound -> content_ok (chart_dom c) c = true ->
  data_okb [] (fs_data (st c 0)) = true ->
  (forall e, P e -> e <> []) -> chart_names P c ->
  (forall j, (is_par (ptype c j) = true \/
              exists i, is_fin (ptype c i) = true /\ fs_parent (st c i) = Some j /\ mem 1 (fs_children (st c j)) = false) ->
             P (done_name c j)) ->
  (forall i name, P name -> i < ntrans c -> ft_spontaneous (tr c i) = false ->
     resolved_match (guard_literals pv c i) name = name_match_impl nm_fixed (ft_event (tr c i)) name) ->
  forall fuel s' r,
  pml_loop pv c iq eq (S fuel) (p_init c) = (s', r) -> p_full s' = false -> r <> PFull ->
  exists m l' x', run_loop c lstate (fast_step ex_fixed c) l_cfg m l_pristine x_init [] = (l', x') /\ final_rel c r s' l' x'.
Proof.
  intros pv t iq eq P c H1 H2 H3 H4 H5 H6 H7 H8 H9 H10 H11 H12.
  apply (pml_run_lemma pv c iq eq P H1 H2 H3 H4 H5 H6 H7 (flatten_early_data t) H8 H9 H10 H11 H12).
Qed.

(* ---- an instance: w_exit_interval, with the names its content raises and the done event of its <parallel> ---- *)
Definition ex_names : list bytes := [[103%N; 111%N]; [101%N]; done_name ex_chart 1].
Definition ex_P (name : bytes) : Prop := In name ex_names.

Lemma ex_root : fs_type (st ex_chart 0) = FCompound.
Proof. vm_compute. reflexivity. Qed.
Lemma ex_content_dom : content_ok (chart_dom ex_chart) ex_chart = true.
Proof. vm_compute. reflexivity. Qed.
Lemma ex_data_ok : data_okb [] (fs_data (st ex_chart 0)) = true.
Proof. vm_compute. reflexivity. Qed.
Lemma ex_P_nonempty e : ex_P e -> e <> [].
Proof. intros [<-|[<-|[<-|[]]]]; discriminate. Qed.
Lemma ex_chart_names : chart_names ex_P ex_chart.
Proof.
  unfold chart_names, ex_chart. vm_compute fc_states. vm_compute fc_trans.
  repeat (cbn [fs_onentry fs_onexit ft_body]; match goal with
  | |- Forall _ [] => apply Forall_nil
  | |- Forall _ (_ :: _) => apply Forall_cons
  | |- _ /\ _ => split
  | |- blocks_names _ _ => unfold blocks_names
  | |- block_names _ _ => unfold block_names
  | |- instr_names _ _ => cbn [instr_names]; unfold ex_P, ex_names; cbn [In]; auto 6
  | |- True => exact I
  end).
Qed.
Lemma ex_done j :
  (is_par (ptype ex_chart j) = true \/
   exists i, is_fin (ptype ex_chart i) = true /\ fs_parent (st ex_chart i) = Some j /\ mem 1 (fs_children (st ex_chart j)) = false) ->
  ex_P (done_name ex_chart j).
Proof.
  assert (Hfin : forall i, is_fin (ptype ex_chart i) = false).
  { intros i. destruct (Nat.lt_ge_cases i (nstates ex_chart)) as [L|L].
    - change (nstates ex_chart) with 10 in L. do 10 (destruct i as [|i]; [vm_compute; reflexivity|]). lia.
    - unfold ptype. rewrite (st_out ex_chart i L). reflexivity. }
  intros [Hp|(i & Hi & _)]; [|rewrite Hfin in Hi; discriminate].
  destruct (Nat.lt_ge_cases j (nstates ex_chart)) as [L|L].
  - change (nstates ex_chart) with 10 in L.
    destruct j as [|[|j]]; [vm_compute in Hp; discriminate | right; right; now left |].
    do 8 (destruct j as [|j]; [vm_compute in Hp; discriminate|]). lia.
  - unfold ptype in Hp. rewrite (st_out ex_chart j L) in Hp. discriminate.
Qed.
Lemma ex_match_all i name : ex_P name -> i < ntrans ex_chart -> ft_spontaneous (tr ex_chart i) = false ->
  resolved_match (guard_literals pml_repaired ex_chart i) name = name_match_impl nm_fixed (ft_event (tr ex_chart i)) name.
Proof.
  intros Hn Hi _. change (ntrans ex_chart) with 2 in Hi.
  destruct Hn as [<-|[<-|[<-|[]]]]; (destruct i as [|[|i]]; [vm_compute; reflexivity | vm_compute; reflexivity | lia]).
Qed.

(* every premise of pml_run_tree_lemma holds for the document, and its run is complete, without overflow, and
   consumes both events: a non-vacuous instance *)
Lemma run_premises_satisfiable :
  exists s', pml_loop pml_repaired ex_chart 7 13 30 (p_init ex_chart) = (s', PBlocked) /\ p_full s' = false /\
             p_cfg s' = [0; 1; 2; 4; 6; 7; 8].
Proof. eexists. vm_compute. repeat split; reflexivity. Qed.

Lemma run_instance :
  exists s' m l' x',
    pml_loop pml_repaired ex_chart 7 13 30 (p_init ex_chart) = (s', PBlocked) /\
    run_loop ex_chart lstate (fast_step ex_fixed ex_chart) l_cfg m l_pristine x_init [] = (l', x') /\
    final_rel ex_chart PBlocked s' l' x'.
Proof.
  destruct run_premises_satisfiable as (s' & Hl & Hf & _).
  destruct (pml_run_tree_lemma pml_repaired w_exit_interval 7 13 ex_P eq_refl eq_refl eq_refl eq_refl
              ex_wf ex_root ex_content_dom ex_data_ok ex_P_nonempty ex_chart_names ex_done ex_match_all 29 s' PBlocked Hl Hf)
    as (m & l' & x' & Hm & Hfin); [discriminate|].
  exists s', m, l', x'. auto.
Qed.

(* ------------------------------------------------------------------ the property itself, for documents *)
From V Require Import PmlEquivBehaviour.

Theorem pml_behaviour_preserved_lemma : forall pv t iq eq (P : bytes -> Prop) fp ff,
  let c := flatten false t in
  pv_in_reads_root pv = false -> pv_cond_bare pv = false -> pv_hist_covered pv = false -> pv_found_stale pv = false ->
  wf_coreb c = true -> fs_type (st c 0) = FCompound -> content_ok (chart_dom c) c = true ->
  data_okb [] (fs_data (st c 0)) = true ->
  (forall e, P e -> e <> []) -> chart_names P c ->
  (forall j, (is_par (ptype c j) = true \/
              exists i, is_fin (ptype c i) = true /\ fs_parent (st c i) = Some j /\ mem 1 (fs_children (st c j)) = false) ->
             P (done_name c j)) ->
  (forall i name, P name -> i < ntrans c -> ft_spontaneous (tr c i) = false ->
     resolved_match (guard_literals pv c i) name = name_match_impl nm_fixed (ft_event (tr c i)) name) ->
  0 < ntrans c ->
  p_full (fst (pml_loop pv c iq eq fp (p_init c))) = false ->
  behaviour_preserved pv t iq eq fp ff.
Proof.
  intros pv t iq eq P fp ff c H1 H2 H3 H4 H5 H6 H7 H8 H9 H10 H11 H12 H13 Hfull.
  unfold behaviour_preserved, pml_run_tree, pml_run, run_fast. fold c. cbv zeta.
  pose proof (behaviour_chart pv c iq eq P H1 H2 H3 H4 H5 H6 H7 (flatten_early_data t) H8 H9 H10 H11 H12 H13 fp ff) as B.
  destruct (pml_loop pv c iq eq fp (p_init c)) as [s r].
  destruct (run_loop c lstate (fast_step ex_fixed c) l_cfg ff l_pristine x_init []) as [l x].
  cbn [fst snd] in *. intros Hc Hf. now apply B.
Qed.

(* an instance no computation gives: every bound on the interpreter *)
Lemma behaviour_instance : forall ff, behaviour_preserved pml_repaired w_exit_interval 7 13 30 ff.
Proof.
  intros ff. apply (pml_behaviour_preserved_lemma pml_repaired w_exit_interval 7 13 ex_P 30 ff eq_refl eq_refl eq_refl eq_refl
                      ex_wf ex_root ex_content_dom ex_data_ok ex_P_nonempty ex_chart_names ex_done ex_match_all).
  - vm_compute. lia.
  - destruct run_premises_satisfiable as (s' & Hl & Hf & _). fold ex_chart. now rewrite Hl.
Qed.

(* ... and an observation cut by the step bound is a prefix of it (PmlStepLemmas.behaviour_prefix) *)
Theorem pml_behaviour_prefix_lemma : forall pv t iq eq (P : bytes -> Prop) fp ff,
  let c := flatten false t in
  pv_in_reads_root pv = false -> pv_cond_bare pv = false -> pv_hist_covered pv = false -> pv_found_stale pv = false ->
  wf_coreb c = true -> fs_type (st c 0) = FCompound -> content_ok (chart_dom c) c = true ->
  data_okb [] (fs_data (st c 0)) = true ->
  (forall e, P e -> e <> []) -> chart_names P c ->
  (forall j, (is_par (ptype c j) = true \/
              exists i, is_fin (ptype c i) = true /\ fs_parent (st c i) = Some j /\ mem 1 (fs_children (st c j)) = false) ->
             P (done_name c j)) ->
  (forall i name, P name -> i < ntrans c -> ft_spontaneous (tr c i) = false ->
     resolved_match (guard_literals pv c i) name = name_match_impl nm_fixed (ft_event (tr c i)) name) ->
  0 < ntrans c ->
  behaviour_prefix pv t iq eq fp ff.
Proof.
  intros pv t iq eq P fp ff c H1 H2 H3 H4 H5 H6 H7 H8 H9 H10 H11 H12 H13.
  unfold behaviour_prefix, pml_run_tree, pml_run, run_fast. fold c. cbv zeta.
  pose proof (prefix_chart pv c iq eq P H1 H2 H3 H4 H5 H6 H7 (flatten_early_data t) H8 H9 H10 H11 H12 H13 fp ff) as B.
  destruct (pml_loop pv c iq eq fp (p_init c)) as [s r].
  destruct (run_loop c lstate (fast_step ex_fixed c) l_cfg ff l_pristine x_init []) as [l x].
  cbn [fst snd] in *. intros Hc Hf. now apply B.
Qed.

Lemma prefix_instance : forall fp ff, behaviour_prefix pml_repaired w_exit_interval 7 13 fp ff.
Proof.
  intros fp ff. apply (pml_behaviour_prefix_lemma pml_repaired w_exit_interval 7 13 ex_P fp ff eq_refl eq_refl eq_refl eq_refl
                         ex_wf ex_root ex_content_dom ex_data_ok ex_P_nonempty ex_chart_names ex_done ex_match_all).
  vm_compute. lia.
Qed.
