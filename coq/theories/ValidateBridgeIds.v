(* ValidateBridgeIds.v -- ids of the rendering: "s<sid>" is injective, the ids of the state elements of the
   rendering are the numbers of the elements of the tree that are rendered with an id (so the validator's
   duplicate check gives NoDup on the tree), and how an id resolves.  Proofs only. *)
From V Require Import Base Chart Large Serialize SerializeCodecLemmas Validate ValidateLemmas FlattenWf FlattenWfTree TreeLemmas
     ValidateBridge ValidateBridgeDoc ValidateBridgePos.
From Coq Require Import Permutation.
Local Open Scope nat_scope.
Local Notation G := gdoc_of_tree.

Lemma sname_inj a b : sname a = sname b -> a = b.
Proof.
  unfold sname, state_name. intros E. inversion E as [E']. rewrite <- (undec_dec a), <- (undec_dec b). now rewrite E'.
Qed.

Lemma nodup_bytes_NoDup l : nodup_bytes l = true -> NoDup l.
Proof.
  induction l as [|x r IH]; cbn [nodup_bytes]; [constructor|]. rewrite andb_true_iff, negb_true_iff. intros [H1 H2].
  constructor; [|now apply IH]. intros Hin. assert (existsb (beq_bytes x) r = true); [|congruence].
  apply existsb_exists. exists x. split; [exact Hin | apply beq_bytes_refl].
Qed.

(* ------------------------------------------------------------------ the four tag classes of allStates *)

Definition st4 (e : el) : bool := match e_tag e with GState | GParallel | GHistory | GFinal => true | _ => false end.

Lemma all_states_perm l : Permutation (all_states_of l) (filter st4 l).
Proof.
  unfold all_states_of, with_tag. induction l as [|e r IH]; [constructor|]. cbn [filter]. unfold st4 at 1.
  destruct (e_tag e); cbn [gtag_eqb app]; try exact IH.
  - now constructor.
  - apply Permutation_sym, Permutation_cons_app, Permutation_sym, IH.
  - rewrite !app_assoc. apply Permutation_sym, Permutation_cons_app. rewrite <- !app_assoc. apply Permutation_sym, IH.
  - rewrite app_assoc. apply Permutation_sym, Permutation_cons_app. rewrite <- app_assoc. apply Permutation_sym, IH.
Qed.

Lemma ids_of_perm a b : Permutation a b -> Permutation (ids_of a) (ids_of b).
Proof.
  unfold ids_of. induction 1 as [|x a b _ IH|x y a|a b c _ IH1 _ IH2]; cbn [flat_map].
  - constructor.
  - now apply Permutation_app_head.
  - rewrite !app_assoc. apply Permutation_app_tail. apply Permutation_app_comm.
  - eapply Permutation_trans; eauto.
Qed.

(* ------------------------------------------------------------------ ids of a rendered sub-tree, document order *)

Definition k4 (w : tree) : bool := match t_kind w with KState | KParallel | KFinal | KHistShallow | KHistDeep => true | _ => false end.

Lemma mapi_from_app {A B} (f : nat -> A -> B) a b i : mapi_from f i (a ++ b) = mapi_from f i a ++ mapi_from f (i + length a) b.
Proof.
  revert i. induction a as [|x a IH]; intros i; cbn [app mapi_from length]; [now rewrite Nat.add_0_r|].
  rewrite IH. do 2 f_equal. f_equal. lia.
Qed.

Lemma filter_concat {A} (f : A -> bool) ll : filter f (concat ll) = concat (map (filter f) ll).
Proof. induction ll as [|l r IH]; [reflexivity|]. cbn [concat map]. now rewrite filter_app, IH. Qed.

Lemma ids_of_app a b : ids_of (a ++ b) = ids_of a ++ ids_of b.
Proof. unfold ids_of. apply flat_map_app. Qed.

Lemma ids_desc : forall u p anc,
  ids_of (filter st4 (desc_from p anc (G u))) = map sname (map t_sid (filter k4 (subtrees u))).
Proof.
  induction u as [k s ini trl en ex d kids IH] using tree_ind'. intros p anc.
  set (u := TNode k s ini trl en ex d kids) in *.
  rewrite desc_from_unfold, subtrees_unfold. cbn [filter]. rewrite G_kids, mapi_from_app, concat_app, filter_app.
  assert (Hfront : filter st4 (concat (mapi_from (fun i k0 => desc_from (i :: p) (G u :: anc) k0) 0 (t_front u))) = []).
  { apply filter_none. intros e He. apply In_concat in He as (l & Hl & He). apply In_mapi_from in Hl as (n & x & Hn & ->).
    apply nth_error_In in Hn. pose proof (front_desc_no_state u x _ _ e Hn He) as Hs. unfold st4.
    destruct (e_tag e); try reflexivity; discriminate. }
  rewrite Hfront. cbn [app].
  assert (Hkids : forall ks : list tree,
            Forall (fun u0 => forall p0 anc0, ids_of (filter st4 (desc_from p0 anc0 (G u0))) = map sname (map t_sid (filter k4 (subtrees u0)))) ks ->
            forall a' i, ids_of (filter st4 (concat (mapi_from (fun i k0 => desc_from (i :: p) a' k0) i (map G ks))))
                = map sname (map t_sid (filter k4 (flat_map subtrees ks)))).
  { induction 1 as [|x r Hx _ IHr]; intros a' i; [reflexivity|]. cbn [map mapi_from concat flat_map].
    rewrite !filter_app, ids_of_app, !map_app, Hx, IHr. reflexivity. }
  specialize (Hkids kids IH (G u :: anc)).
  change (t_kids u) with kids.
  assert (Hself : st4 {| e_path := p; e_node := G u; e_anc := anc |} = k4 u).
  { unfold st4, k4, e_tag. cbn [e_node]. rewrite G_tag. destruct (t_kind u); reflexivity. }
  rewrite Hself. destruct (k4 u) eqn:Ek.
  - cbn [map]. match goal with |- ids_of (?a :: ?r) = _ => change (ids_of (a :: r)) with (ids_of ([a] ++ r)) end.
    rewrite ids_of_app, Hkids. unfold ids_of. cbn [flat_map]. unfold e_attrs. cbn [e_node]. rewrite G_attrs.
    unfold k4 in Ek. destruct (t_kind u); try discriminate; reflexivity.
  - apply Hkids.
Qed.

Section Ids.
Variable t : tree.
Hypothesis Hd : vb_docb t = true.
Let d := G t.
Let all := descendants (root_el d).

Lemma k4_tvis w : In w (tbelow t) -> k4 w = tvis w.
Proof. intros _. unfold k4, tvis, hidden_kind. destruct (t_kind w); reflexivity. Qed.

Lemma ids_all_states : Permutation (ids_of (all_states_of all)) (map sname (vsids_below t)).
Proof.
  eapply Permutation_trans; [apply ids_of_perm, all_states_perm|].
  assert (E : filter st4 all = filter st4 (desc_from [] [] d)).
  { rewrite <- universe_eq. unfold universe. cbn [filter]. fold all. unfold st4 at 2, e_tag. cbn [root_el e_node].
    unfold d. rewrite G_tag. destruct (vb_docb_spec t Hd) as [-> _]. reflexivity. }
  rewrite E. unfold d. rewrite ids_desc. rewrite subtrees_unfold. cbn [filter].
  assert (Er : k4 t = false) by (unfold k4; destruct (vb_docb_spec t Hd) as [-> _]; reflexivity).
  rewrite Er. unfold vsids_below. fold (tbelow t).
  rewrite (filter_ext_in k4 tvis (tbelow t)) by (intros w Hw; now apply k4_tvis). apply Permutation_refl.
Qed.

Lemma validated_unique : nodup_bytes (ids_of (all_states_of all)) = true -> NoDup (vsids_below t).
Proof.
  intros H. apply nodup_bytes_NoDup in H. eapply Permutation_NoDup in H; [|apply ids_all_states].
  eapply NoDup_map_inv. exact H.
Qed.

(* an id resolves to a position of the tree whose element carries the id *)
Lemma resolve_At id y : resolve d id = Some y ->
  In y (all_states_of all) /\ has_id y id = true /\
  exists w, At t (e_path y) (e_anc y) w /\ e_node y = G w /\ In w (tbelow t) /\ tvis w = true /\ id = sname (t_sid w).
Proof.
  unfold resolve. fold all. intros Hf. apply first_with_id_some in Hf as [Hy Hid]. split; [exact Hy|]. split; [exact Hid|].
  apply all_states_of_In in Hy as [Hy Ht].
  destruct (all_state_At t y Hy) as (w & HA & En & Hw); [destruct (e_tag y); try discriminate; reflexivity|].
  exists w. split; [exact HA|]. split; [exact En|]. split; [exact Hw|].
  unfold e_tag in Ht. rewrite En, G_tag in Ht. unfold has_id, e_attrs in Hid. rewrite En, G_attrs in Hid.
  cbn [g_state_attrs ga_id] in Hid. unfold tvis.
  destruct (t_kind w); cbn [gtag_of_kind hidden_kind negb] in Ht, Hid |- *; try discriminate;
    (split; [reflexivity|]); apply beq_bytes_eq in Hid; now symmetry.
Qed.

(* the element of a position with an id, below the root, is among allStates and carries "s<sid>" *)
Lemma At_all_states p anc w : At t p anc w -> In w (tbelow t) -> tvis w = true ->
  In (el_at p anc w) (all_states_of all) /\ has_id (el_at p anc w) (sname (t_sid w)) = true.
Proof.
  intros HA Hw Hv. split.
  - apply all_states_of_In. split.
    + destruct (At_in_universe t p anc w HA) as [E|H]; [|exact H]. exfalso.
      unfold root_el, el_at in E. inversion E as [[E1 E2 E3]]. subst p.
      assert (HA' : At t ([] ++ []) anc w) by exact HA.
      destruct (At_below t [] [] t (At_root t) _ _ _ HA') as [[_ ->]|[Hq _]]; [|congruence].
      destruct (vb_docb_spec t Hd) as [Hr _]. unfold tvis in Hv. rewrite Hr in Hv. discriminate.
    + unfold e_tag, el_at. cbn [e_node]. rewrite G_tag. destruct (vb_docb_spec t Hd) as [_ Hk]. specialize (Hk w Hw).
      unfold tvis in Hv. destruct (t_kind w); try reflexivity; try discriminate.
  - unfold has_id, e_attrs, el_at. cbn [e_node]. rewrite G_attrs. unfold tvis in Hv. cbn [g_state_attrs ga_id].
    destruct (hidden_kind (t_kind w)); [discriminate|]. apply beq_bytes_refl.
Qed.

(* with unique ids an element with an id sits at one position only *)
Lemma At_pos_unique p1 a1 p2 a2 w : nodup_bytes (ids_of (all_states_of all)) = true ->
  At t p1 a1 w -> At t p2 a2 w -> In w (tbelow t) -> tvis w = true -> p1 = p2.
Proof.
  intros Hnd H1 H2 Hw Hv. destruct (At_all_states p1 a1 w H1 Hw Hv) as [I1 D1]. destruct (At_all_states p2 a2 w H2 Hw Hv) as [I2 D2].
  pose proof (nodup_ids_unique _ Hnd _ _ _ I1 I2 D1 D2) as E. now inversion E.
Qed.

(* an id of an element of the tree resolves to the element's position *)
Lemma At_resolve p anc w : nodup_bytes (ids_of (all_states_of all)) = true ->
  At t p anc w -> In w (tbelow t) -> tvis w = true -> resolve d (sname (t_sid w)) = Some (el_at p anc w).
Proof.
  intros Hnd HA Hw Hv. destruct (At_all_states p anc w HA Hw Hv) as [I1 D1]. unfold resolve. fold all.
  destruct (first_with_id (all_states_of all) (sname (t_sid w))) as [y|] eqn:Hf.
  - apply first_with_id_some in Hf as [Hy Hid]. f_equal. eapply nodup_ids_unique; eauto.
  - pose proof (first_with_id_none _ _ Hf _ I1). congruence.
Qed.

End Ids.
