(* ValidateBridgeClauses.v -- from the reference predicate Validate.wf_chartb on the rendering of a document tree
   to the facts VTree about the tree itself (ValidateBridge.v), clause by clause; with
   Properties_C19.validate_sound: a document for which the repaired validator reports no fatal issue
   satisfies VTree.  Proofs only. *)
From V Require Import Base Chart Large Validate ValidateLemmas FlattenWf FlattenWfTree TreeLemmas
     ValidateBridge ValidateBridgeDoc ValidateBridgePos ValidateBridgeIds.
Local Open Scope nat_scope.
Local Notation G := gdoc_of_tree.

(* ------------------------------------------------------------------ small list facts *)

Lemma count1_unique (L : list tree) s : countN s (map t_sid L) = 1 ->
  forall a b, In a L -> In b L -> t_sid a = s -> t_sid b = s -> a = b.
Proof.
  induction L as [|x r IH]; intros Hc a b Ha Hb Ea Eb; [destruct Ha|]. cbn [map countN] in Hc.
  assert (Hz : forall y, In y r -> t_sid y = s -> countN s (map t_sid r) >= 1).
  { clear. induction r as [|z r IH]; intros y Hy E; [destruct Hy|]. cbn [map countN]. destruct Hy as [<-|Hy].
    - rewrite E, N.eqb_refl. lia.
    - specialize (IH y Hy E). lia. }
  destruct Ha as [<-|Ha], Hb as [<-|Hb]; [reflexivity | | |].
  - rewrite Ea, N.eqb_refl in Hc. specialize (Hz b Hb Eb). lia.
  - rewrite Eb, N.eqb_refl in Hc. specialize (Hz a Ha Ea). lia.
  - destruct (N.eqb_spec (t_sid x) s) as [E|E].
    + specialize (Hz a Ha Ea). lia.
    + apply IH; auto.
Qed.

Lemma filter_two {A} (f : A -> bool) l : 2 <= length (filter f l) ->
  exists j1 j2 a b, j1 <> j2 /\ nth_error l j1 = Some a /\ nth_error l j2 = Some b /\ f a = true /\ f b = true.
Proof.
  induction l as [|x r IH]; cbn [filter]; [cbn; lia|]. destruct (f x) eqn:Fx.
  - cbn [length]. intros H. destruct (filter f r) as [|y r'] eqn:E; [cbn in H; lia|].
    assert (Hy : In y (filter f r)) by (rewrite E; now left). apply filter_In in Hy as [Hy Fy].
    destruct (In_nth_error _ _ Hy) as [j Hj]. exists 0, (S j), x, y. repeat split; auto.
  - intros H. destruct (IH H) as (j1 & j2 & a & b & Hne & H1 & H2 & Fa & Fb).
    exists (S j1), (S j2), a, b. repeat split; auto.
Qed.

Lemma two_members {A} (l : list A) a b : In a l -> In b l -> a <> b -> 2 <= length l.
Proof.
  destruct l as [|x [|y r]]; cbn [length]; intros Ha Hb Hne; try lia; [destruct Ha|].
  destruct Ha as [<-|[]], Hb as [<-|[]]. congruence.
Qed.

Lemma pairwise_In l : pairwise_compatible l = true ->
  forall a b, In a l -> In b l -> a = b \/ compatible a b = true \/ compatible b a = true.
Proof.
  induction l as [|x r IH]; intros H a b Ha Hb; [destruct Ha|]. cbn [pairwise_compatible] in H.
  apply andb_true_iff in H as [Hx Hr]. rewrite forallb_forall in Hx.
  destruct Ha as [<-|Ha], Hb as [<-|Hb]; auto.
Qed.

Lemma state_desc_path s x : mem_el x (state_descendants s) = true -> exists q, q <> [] /\ e_path x = q ++ e_path s.
Proof.
  unfold mem_el. rewrite existsb_exists. intros (x' & Hx' & E). unfold el_eqb in E. apply ptr_eqb_eq in E. rewrite E.
  assert (Hd : In x' (descendants s)).
  { unfold state_descendants in Hx'. rewrite !in_app_iff, !with_tag_In in Hx'. tauto. }
  unfold descendants in Hd. apply In_concat in Hd as (l & Hl & Hd). apply In_mapi_from in Hl as (n & k & _ & ->).
  apply desc_from_shape in Hd as (q & qa & Ep & _ & _). exists (q ++ [n]). split; [destruct q; discriminate|].
  now rewrite Ep, <- app_assoc.
Qed.

Lemma targets_compatible_spec d ids : targets_compatible d ids = true ->
  (forall id, In id ids -> exists y, resolve d id = Some y) ->
  exists ts, (forall id, In id ids -> exists y, resolve d id = Some y /\ In y ts) /\
             ((length ts <? 2) || pairwise_compatible ts = true).
Proof.
  unfold targets_compatible.
  set (go := fix go (l : list bytes) : option (list el) :=
               match l with
               | [] => Some []
               | id :: r => match resolve d id, go r with Some e, Some l' => Some (e :: l') | _, _ => None end
               end).
  intros H Hall.
  assert (Hgo : exists ts, go ids = Some ts /\ forall id, In id ids -> exists y, resolve d id = Some y /\ In y ts).
  { clear H. induction ids as [|id r IH]; [exists []; split; [reflexivity | intros ? []]|].
    destruct IH as (ts & Hts & Hin); [intros i Hi; apply Hall; now right|].
    destruct (Hall id (or_introl eq_refl)) as [y Hy]. exists (y :: ts). cbn [go]. fold go. rewrite Hy, Hts.
    split; [reflexivity|]. intros i [<-|Hi]; [exists y; split; [exact Hy | now left]|].
    destruct (Hin i Hi) as (z & Hz & Hzin). exists z. split; [exact Hz | now right]. }
  destruct Hgo as (ts & Hts & Hin). rewrite Hts in H. exists ts. split; [exact Hin | exact H].
Qed.

Lemma same_sid_visible t w w' : vb_hidden_freshb t = true -> In w (subtrees t) -> In w' (subtrees t) ->
  t_sid w = t_sid w' -> tvis w = true -> tvis w' = true.
Proof.
  intros Hf Hw Hw' E Hv. unfold tvis in *. destruct (hidden_kind (t_kind w')) eqn:Hh; [|reflexivity]. exfalso.
  unfold vb_hidden_freshb in Hf. rewrite forallb_forall in Hf. specialize (Hf w' Hw'). rewrite Hh in Hf.
  apply Nat.eqb_eq in Hf. unfold sids in Hf.
  assert (w = w') by (eapply count1_unique; eauto). subst w'. rewrite Hh in Hv. discriminate.
Qed.

(* ------------------------------------------------------------------ the clauses *)

Section Clauses.
Variable t : tree.
Hypothesis Hd : vb_docb t = true.
Hypothesis Hf : vb_hidden_freshb t = true.
Let d := G t.
Let all := descendants (root_el d).
Hypothesis HW : wf_chartb d = true.

Lemma wf_parts :
  wf_nesting d = true /\ wf_ids d = true /\ wf_targets d = true /\ wf_initattr d = true /\
  wf_initial_el d = true /\ wf_history d = true /\ wf_target_sets d = true.
Proof. pose proof HW as W. unfold wf_chartb in W. do 6 (apply andb_true_iff in W as [W ?]). repeat split; assumption. Qed.

Lemma Hnd : nodup_bytes (ids_of (all_states_of all)) = true.
Proof. destruct wf_parts as (_ & W & _). unfold wf_ids in W. apply andb_true_iff in W as [W _]. exact W. Qed.

Lemma root_kind : t_kind t = KScxml. Proof. now destruct (vb_docb_spec t Hd). Qed.

(* positions *)
Lemma pos_of u : In u (subtrees t) -> exists p anc, At t p anc u.
Proof.
  intros Hu. destruct (At_subtree_pos t [] [] t (At_root t) u Hu) as (q & anc & HA). exists q, anc. now rewrite app_nil_r in HA.
Qed.

Lemma below_root p anc w : At t p anc w -> p <> [] -> In w (tbelow t).
Proof.
  intros HA Hp. assert (HA' : At t (p ++ []) anc w) by (now rewrite app_nil_r).
  destruct (At_below t [] [] t (At_root t) _ _ _ HA') as [[E _]|[_ Hin]]; [congruence | exact Hin].
Qed.

Lemma el_in_all p anc w : At t p anc w -> p <> [] -> In (el_at p anc w) all.
Proof.
  intros HA Hp. destruct (At_in_universe t p anc w HA) as [E|H]; [|exact H].
  unfold root_el, el_at in E. inversion E. congruence.
Qed.

(* an id that resolves is "s<n>" for the number n of an element with an id *)
Lemma resolve_sid s y : resolve d (sname s) = Some y ->
  exists w, At t (e_path y) (e_anc y) w /\ e_node y = G w /\ In w (tbelow t) /\ tvis w = true /\ t_sid w = s.
Proof.
  intros Hr. destruct (resolve_At t _ _ Hr) as (_ & _ & w & HA & En & Hw & Hv & E).
  exists w. repeat split; try assumption. symmetry. now apply sname_inj.
Qed.

Lemma resolve_in_vsids s y : resolve d (sname s) = Some y -> In s (vsids_below t).
Proof.
  intros Hr. destruct (resolve_sid s y Hr) as (w & _ & _ & Hw & Hv & <-). unfold vsids_below. apply in_map.
  apply filter_In. split; assumption.
Qed.

(* ---- nesting *)
Lemma cl_nest u k : In u (subtrees t) -> In k (t_kids u) -> kid_okb (t_kind u) (t_kind k) = true.
Proof.
  intros Hu Hk. destruct (pos_of u Hu) as (p & anc & HA). destruct (In_nth_error _ _ Hk) as [j Hj].
  pose proof (At_kid t p anc u j k HA Hj) as HAk.
  assert (Hkb : In k (tbelow t)) by (eapply below_root; [exact HAk | discriminate]).
  destruct wf_parts as (W & _). unfold wf_nesting in W. apply andb_true_iff in W as [W _]. rewrite forallb_forall in W.
  specialize (W _ (el_in_all _ _ _ HAk ltac:(discriminate))).
  unfold e_tag, el_at in W. cbn [e_node parent_el e_path e_anc] in W. rewrite !G_tag in W.
  destruct (vb_docb_spec t Hd) as [_ Hns]. specialize (Hns k Hkb). unfold kid_okb.
  destruct (t_kind k); try congruence; cbn [gtag_of_kind is_struct_tag negb orb] in W; exact W.
Qed.

Lemma pseudo_no_kids u : In u (subtrees t) -> is_pseudo_kind (t_kind u) = true -> t_kids u = [].
Proof.
  intros Hu Hp. destruct (t_kids u) as [|k r] eqn:E; [reflexivity|]. exfalso.
  pose proof (cl_nest u k Hu ltac:(rewrite E; now left)) as Hk. unfold kid_okb in Hk.
  destruct (t_kind u); try discriminate; destruct (t_kind k); discriminate.
Qed.

(* ---- target lists: non-empty, resolving, legal *)
Lemma cl_target_set l : (forall s, In s l -> exists y, resolve d (sname s) = Some y) ->
  targets_compatible d (map sname l) = true -> target_set_okb t l = true.
Proof.
  intros Hres Hc. unfold target_set_okb. apply forallb_forall. intros v Hv.
  destruct (compound_node v) eqn:Ecn; [|reflexivity]. apply Nat.leb_le.
  destruct (Nat.le_gt_cases (length (kids_hit l v)) 1) as [Hle|Hgt]; [exact Hle|]. exfalso.
  destruct (filter_two _ _ Hgt) as (j1 & j2 & k1 & k2 & Hne & Hj1 & Hj2 & Hh1 & Hh2).
  destruct (targets_compatible_spec d (map sname l) Hc) as (ts & Hts & Hpw).
  { intros id Hid. apply in_map_iff in Hid as (s & <- & Hs). now apply Hres. }
  destruct (pos_of v Hv) as (pv & av & HAv).
  assert (Hnp : t_kind v <> KParallel) by (unfold compound_node in Ecn; destruct (t_kind v); discriminate).
  assert (Hkid : forall j k, nth_error (t_kids v) j = Some k -> existsb (fun s => memN s (sids k)) l = true ->
            exists q a w, In (el_at (q ++ (off v + j) :: pv) a w) ts /\ At t (q ++ (off v + j) :: pv) a w).
  { intros j k Hj Hh. apply existsb_exists in Hh as (s & Hs & Hm). apply memN_In in Hm. unfold sids in Hm.
    apply in_map_iff in Hm as (w' & Es & Hw').
    pose proof (At_kid t pv av v j k HAv Hj) as HAk.
    destruct (At_subtree_pos t _ _ k HAk w' Hw') as (q & a & HAw').
    destruct (Hts (sname s) (in_map sname _ _ Hs)) as (y & Hy & Hyin).
    destruct (resolve_sid s y Hy) as (w & HAw & _ & Hwb & Hwv & Ews).
    assert (Hw'b : In w' (tbelow t)) by (eapply below_root; [exact HAw' | destruct q; discriminate]).
    assert (Hw'v : tvis w' = true).
    { apply (same_sid_visible t w w' Hf); [now apply tbelow_subtrees | now apply tbelow_subtrees | congruence | exact Hwv]. }
    pose proof (At_resolve t Hd _ _ _ Hnd HAw' Hw'b Hw'v) as Hr'. fold d in Hr'. rewrite Es, Hy in Hr'.
    inversion Hr'; subst y. exists q, a, w'. split; [exact Hyin | exact HAw']. }
  destruct (Hkid j1 k1 Hj1 Hh1) as (q1 & a1 & w1 & Hin1 & HA1). destruct (Hkid j2 k2 Hj2 Hh2) as (q2 & a2 & w2 & Hin2 & HA2).
  pose proof (not_compatible_in_two_kids t pv av v HAv Hnp _ _ _ _ _ _ _ _ HA1 HA2 Hne) as N12.
  pose proof (not_compatible_in_two_kids t pv av v HAv Hnp _ _ _ _ _ _ _ _ HA2 HA1 (not_eq_sym Hne)) as N21.
  assert (Hdiff : el_at (q1 ++ off v + j1 :: pv) a1 w1 <> el_at (q2 ++ off v + j2 :: pv) a2 w2).
  { intros E. unfold el_at in E. inversion E as [[E1 E2 E3]].
    assert (E1' : q1 ++ off v + j1 :: pv = [] ++ q2 ++ off v + j2 :: pv) by exact E1. apply suffix_last in E1'. lia. }
  apply orb_true_iff in Hpw as [Hlen|Hpw].
  - apply Nat.ltb_lt in Hlen. pose proof (two_members _ _ _ Hin1 Hin2 Hdiff). lia.
  - destruct (pairwise_In _ Hpw _ _ Hin1 Hin2) as [E|[E|E]]; congruence.
Qed.

Lemma cl_targets u x l : In u (subtrees t) -> In x (t_trans u) -> tt_targets x = Some l ->
  l <> [] /\ (forall s, In s l -> In s (vsids_below t)) /\ target_set_okb t l = true.
Proof.
  intros Hu Hx El. destruct (pos_of u Hu) as (p & anc & HA). destruct (In_nth_error _ _ Hx) as [i Hi].
  pose proof (tr_at_in_all t p anc u i x HA Hi) as Hin. fold d all in Hin.
  destruct wf_parts as (_ & _ & W3 & _ & _ & _ & W7). unfold wf_targets in W3. rewrite forallb_forall in W3.
  specialize (W3 _ Hin). unfold e_attrs, tr_at in W3. cbn [e_node g_trans g_attrs ga_target] in W3. rewrite El in W3.
  cbn [option_map] in W3. apply andb_true_iff in W3 as [Hne Hres].
  unfold targets_resolve_in in Hres. rewrite forallb_forall in Hres.
  assert (Hr : forall s, In s l -> exists y, resolve d (sname s) = Some y).
  { intros s Hs. specialize (Hres (sname s) (in_map sname _ _ Hs)).
    destruct (resolve d (sname s)) as [y|]; [now exists y | discriminate]. }
  split; [destruct l; [discriminate | discriminate]|]. split.
  - intros s Hs. destruct (Hr s Hs) as [y Hy]. eapply resolve_in_vsids; eauto.
  - apply cl_target_set; [exact Hr|].
    unfold wf_target_sets in W7. apply andb_true_iff in W7 as [W7 _]. rewrite forallb_forall in W7.
    specialize (W7 (tr_at p anc u i x)). fold all in W7. rewrite in_app_iff in W7. specialize (W7 (or_introl Hin)).
    unfold e_attrs, tr_at in W7. cbn [e_node g_trans g_attrs ga_target] in W7. rewrite El in W7. exact W7.
Qed.

(* the element of u is one of allStates ++ [root] unless u is an <initial> element *)
Lemma el_state_or_root p anc u : At t p anc u -> t_kind u <> KInitial ->
  In (el_at p anc u) (all_states_of all ++ [root_el d]).
Proof.
  intros HA Hk. apply in_app_iff. destruct p as [|a p].
  - right. left. inversion HA; subst. reflexivity.
  - left. apply all_states_of_In. split; [apply el_in_all; [exact HA | discriminate]|].
    unfold e_tag, el_at. cbn [e_node]. rewrite G_tag.
    pose proof (below_root _ _ _ HA ltac:(discriminate)) as Hb. destruct (vb_docb_spec t Hd) as [_ Hns]. specialize (Hns u Hb).
    destruct (t_kind u); try reflexivity; congruence.
Qed.

Lemma resolved_below p anc u s y : At t p anc u -> resolve d (sname s) = Some y ->
  mem_el y (state_descendants (el_at p anc u)) = true -> In s (vsids_below u).
Proof.
  intros HA Hy Hm. destruct (resolve_sid s y Hy) as (w & HAw & _ & _ & Hv & <-).
  destruct (state_desc_path _ _ Hm) as (q & Hq & Ep). cbn [el_at e_path] in Ep. rewrite Ep in HAw.
  destruct (At_below t p anc u HA _ _ _ HAw) as [[E _]|[_ Hin]]; [congruence|].
  unfold vsids_below. apply in_map. apply filter_In. split; assumption.
Qed.

Lemma cl_initattr u l : In u (subtrees t) -> t_kind u <> KInitial -> t_initattr u = Some l ->
  l <> [] /\ (forall s, In s l -> In s (vsids_below u)) /\ target_set_okb t l = true.
Proof.
  intros Hu Hk El. destruct (pos_of u Hu) as (p & anc & HA).
  pose proof (el_state_or_root p anc u HA Hk) as Hin.
  destruct wf_parts as (_ & _ & _ & W4 & _ & _ & W7). unfold wf_initattr in W4. rewrite forallb_forall in W4.
  fold all in W4. specialize (W4 _ Hin). unfold e_attrs in W4. cbn [el_at e_node] in W4. rewrite G_attrs in W4.
  cbn [g_state_attrs ga_initial] in W4. rewrite El in W4. cbn [option_map] in W4. apply andb_true_iff in W4 as [Hne Hres].
  unfold targets_resolve_in in Hres. rewrite forallb_forall in Hres.
  assert (Hr : forall s, In s l -> exists y, resolve d (sname s) = Some y /\ mem_el y (state_descendants (el_at p anc u)) = true).
  { intros s Hs. specialize (Hres (sname s) (in_map sname _ _ Hs)).
    destruct (resolve d (sname s)) as [y|]; [exists y; split; [reflexivity | exact Hres] | discriminate]. }
  split; [destruct l; discriminate|]. split.
  - intros s Hs. destruct (Hr s Hs) as (y & Hy & Hm). eapply resolved_below; eauto.
  - apply cl_target_set; [intros s Hs; destruct (Hr s Hs) as (y & Hy & _); now exists y|].
    unfold wf_target_sets in W7. apply andb_true_iff in W7 as [_ W7]. rewrite forallb_forall in W7. fold all in W7.
    specialize (W7 _ Hin). unfold e_attrs in W7. cbn [el_at e_node] in W7. rewrite G_attrs in W7.
    cbn [g_state_attrs ga_initial] in W7. rewrite El in W7. exact W7.
Qed.

(* ---- the <transition> children of an element, as elements *)
Lemma trans_kids_spec p anc u e : In e (with_tag GTransition (kids_el (el_at p anc u))) <->
  exists i x, nth_error (t_trans u) i = Some x /\ e = tr_at p anc u i x.
Proof.
  rewrite with_tag_In. split.
  - intros [He Ht]. apply kids_el_In in He as (n & x & Hn & ->). cbn [el_at e_node e_path e_anc] in *.
    rewrite G_kids in Hn. destruct (Nat.lt_ge_cases n (off u)) as [Hlt|Hge].
    + rewrite nth_error_app1 in Hn by exact Hlt.
      assert (Hself : In {| e_path := n :: p; e_node := x; e_anc := G u :: anc |} (desc_from (n :: p) (G u :: anc) x))
        by (rewrite desc_from_unfold; now left).
      assert (Ht' : e_tag {| e_path := n :: p; e_node := x; e_anc := G u :: anc |} = GTransition)
        by (destruct (e_tag _); try discriminate; reflexivity).
      destruct (front_desc_trans u n x _ _ _ Hn Hself Ht') as (i & y & Hi & -> & -> & _). exists i, y. split; [exact Hi | reflexivity].
    + exfalso. rewrite nth_error_app2 in Hn by exact Hge. rewrite nth_error_map in Hn.
      destruct (nth_error (t_kids u) _) as [k|]; [|discriminate]. cbn [option_map] in Hn. inversion Hn; subst x.
      unfold e_tag in Ht. cbn [e_node] in Ht. rewrite G_tag in Ht. destruct (t_kind k); discriminate.
  - intros (i & x & Hi & ->). split; [now apply tr_at_kid | reflexivity].
Qed.

Lemma trans_single p anc u (l : list el) t0 : (forall e, In e l <-> exists i x, nth_error (t_trans u) i = Some x /\ e = tr_at p anc u i x) ->
  l = [t0] -> exists x, t_trans u = [x] /\ t0 = tr_at p anc u 0 x.
Proof.
  intros Hspec ->. destruct (t_trans u) as [|x [|y r]] eqn:E.
  - destruct (proj1 (Hspec t0) (or_introl eq_refl)) as (i & x & Hi & _). destruct i; discriminate.
  - exists x. split; [reflexivity|]. destruct (proj1 (Hspec t0) (or_introl eq_refl)) as (i & z & Hi & ->).
    destruct i as [|[|i]]; cbn in Hi; try discriminate. now inversion Hi.
  - exfalso. pose proof (proj2 (Hspec (tr_at p anc u 0 x)) (ex_intro _ 0 (ex_intro _ x (conj eq_refl eq_refl)))) as H0.
    pose proof (proj2 (Hspec (tr_at p anc u 1 y)) (ex_intro _ 1 (ex_intro _ y (conj eq_refl eq_refl)))) as H1.
    destruct H0 as [E0|[]]. destruct H1 as [E1|[]]. rewrite E0 in E1. unfold tr_at in E1. inversion E1. lia.
Qed.

(* ---- <initial> *)
Lemma cl_initial p u : In p (subtrees t) -> In u (t_kids p) -> t_kind u = KInitial ->
  exists x l, t_trans u = [x] /\ tt_targets x = Some l /\ tt_cond x = None /\ tt_event x = None /\
              forall s, In s l -> In s (vsids_below p).
Proof.
  intros Hp Hu Hk. destruct (pos_of p Hp) as (pp & ap & HAp). destruct (In_nth_error _ _ Hu) as [j Hj].
  pose proof (At_kid t pp ap p j u HAp Hj) as HAu.
  assert (Hus : In u (subtrees t)) by (eapply At_subtree; exact HAu).
  assert (Hnk : t_kids u = []) by (apply pseudo_no_kids; [exact Hus | now rewrite Hk]).
  assert (Hpk : t_kind p = KState).
  { pose proof (cl_nest p u Hp Hu) as N. unfold kid_okb in N. rewrite Hk in N. destruct (t_kind p); try discriminate; reflexivity. }
  set (ie := el_at (off p + j :: pp) (G p :: ap) u).
  assert (Hie : In ie (with_tag GInitial all)).
  { apply with_tag_In. split; [apply el_in_all; [exact HAu | discriminate]|]. unfold ie, e_tag, el_at. cbn [e_node]. now rewrite G_tag, Hk. }
  assert (Hdk : descendants ie = flat_map (fun k => desc_from (e_path k) (e_anc k) (e_node k)) (kids_el ie)).
  { unfold descendants, kids_el. generalize 0. induction (g_kids (e_node ie)) as [|g r IH]; intros n; [reflexivity|].
    cbn [mapi_from concat flat_map e_path e_anc e_node]. now rewrite IH. }
  assert (Hspec : forall e, In e (with_tag GTransition (descendants ie)) <->
                            exists i x, nth_error (t_trans u) i = Some x /\ e = tr_at (off p + j :: pp) (G p :: ap) u i x).
  { intros e. rewrite <- trans_kids_spec. fold ie. rewrite !with_tag_In. split.
    - intros [He Ht]. split; [|exact Ht]. rewrite Hdk in He. apply in_flat_map in He as (k & Hkk & He).
      pose proof Hkk as Hkk'. apply kids_el_In in Hkk' as (n & x & Hn & ->). cbn [e_path e_anc e_node] in He.
      unfold ie in Hn. cbn [el_at e_node] in Hn. rewrite G_kids, Hnk in Hn. cbn [map] in Hn. rewrite app_nil_r in Hn.
      assert (Ht' : e_tag e = GTransition) by (destruct (e_tag e); try discriminate; reflexivity).
      destruct (front_desc_trans u n x _ _ e Hn He Ht') as (i & y & Hi & -> & -> & ->). exact Hkk.
    - intros [He Ht]. split; [|exact Ht]. rewrite Hdk. apply in_flat_map. exists e. split; [exact He|].
      rewrite desc_from_unfold. left. symmetry. apply el_eta. }
  destruct wf_parts as (_ & _ & _ & _ & W5 & _). unfold wf_initial_el in W5. rewrite forallb_forall in W5. fold all in W5.
  specialize (W5 ie Hie).
  destruct (with_tag GTransition (descendants ie)) as [|t0 [|t1 r]] eqn:El; try discriminate.
  destruct (trans_single _ _ u _ t0 Hspec eq_refl) as (x & Ex & ->).
  unfold tr_at, e_attrs, grandparent_el in W5. cbn [e_node e_path e_anc parent_el g_trans g_attrs ga_cond ga_event ga_target] in W5.
  apply andb_true_iff in W5 as [W5 Wt]. apply andb_true_iff in W5 as [Wc We].
  assert (Hst : is_state {| e_path := pp; e_node := G p; e_anc := ap |} true = true).
  { unfold is_state, e_tag. cbn [e_node]. now rewrite G_tag, Hpk. }
  rewrite Hst in Wt. cbn [negb orb] in Wt. apply andb_true_iff in Wt as [Wsome Wres].
  destruct (tt_targets x) as [l|] eqn:El'; [|discriminate]. cbn [option_map toks_of] in Wres.
  exists x, l. split; [exact Ex|]. split; [exact El'|].
  split; [destruct (tt_cond x); [discriminate | reflexivity]|]. split; [destruct (tt_event x); [discriminate | reflexivity]|].
  intros s Hs. unfold targets_resolve_in in Wres. rewrite forallb_forall in Wres. specialize (Wres (sname s) (in_map sname _ _ Hs)).
  destruct (resolve d (sname s)) as [y|] eqn:Hy; [|discriminate].
  exact (resolved_below pp ap p s y HAp Hy Wres).
Qed.

(* ---- <history> *)
Lemma cl_history p h : In p (subtrees t) -> In h (t_kids p) -> is_hist_kind (t_kind h) = true ->
  exists x l, t_trans h = [x] /\ tt_targets x = Some l /\ tt_cond x = None /\ tt_event x = None /\
              (forall s, In s l -> In s (if is_deep_kind (t_kind h) then vsids_below p else vsids_kids p)) /\
              (forall s, In s l -> In s (psids_below p)).
Proof.
  intros Hp Hh Hk. destruct (pos_of p Hp) as (pp & ap & HAp). destruct (In_nth_error _ _ Hh) as [j Hj].
  pose proof (At_kid t pp ap p j h HAp Hj) as HAh.
  set (he := el_at (off p + j :: pp) (G p :: ap) h).
  assert (Hhe : In he (with_tag GHistory all)).
  { apply with_tag_In. split; [apply el_in_all; [exact HAh | discriminate]|]. unfold he, e_tag, el_at. cbn [e_node]. rewrite G_tag.
    destruct (t_kind h); try discriminate; reflexivity. }
  destruct wf_parts as (_ & _ & _ & _ & _ & W6 & _). unfold wf_history in W6. rewrite forallb_forall in W6. fold all in W6.
  specialize (W6 he Hhe).
  assert (Hid : ga_id (e_attrs he) = Some (sname (t_sid h))).
  { unfold he, e_attrs, el_at. cbn [e_node]. rewrite G_attrs. destruct (t_kind h); try discriminate; reflexivity. }
  rewrite Hid in W6.
  destruct (with_tag GTransition (kids_el he)) as [|t0 [|t1 r]] eqn:El; try discriminate.
  assert (Hspec := fun e => trans_kids_spec (off p + j :: pp) (G p :: ap) h e). fold he in Hspec. rewrite El in Hspec.
  destruct (trans_single _ _ h _ t0 Hspec eq_refl) as (x & Ex & ->).
  unfold tr_at, e_attrs in W6. cbn [e_node g_trans g_attrs ga_cond ga_event ga_target] in W6.
  apply andb_true_iff in W6 as [W6 Wt]. apply andb_true_iff in W6 as [Wc We].
  destruct (tt_targets x) as [l|] eqn:El'; [|discriminate]. cbn [option_map] in Wt.
  exists x, l. split; [exact Ex|]. split; [exact El'|].
  split; [destruct (tt_cond x); [discriminate | reflexivity]|]. split; [destruct (tt_event x); [discriminate | reflexivity]|].
  assert (Hboth : forall s, In s l -> In s (if is_deep_kind (t_kind h) then vsids_below p else vsids_kids p) /\ In s (psids_below p)).
  { intros s Hs. unfold targets_resolve_in in Wt. rewrite forallb_forall in Wt. specialize (Wt (sname s) (in_map sname _ _ Hs)).
    destruct (resolve d (sname s)) as [y|] eqn:Hy; [|discriminate].
    destruct (resolve_sid s y Hy) as (w & HAw & En & _ & Hv & <-).
    apply andb_true_iff in Wt as [Wp Wt]. apply negb_true_iff in Wp. unfold e_tag in Wp. rewrite En, G_tag in Wp.
    assert (Pw : tprop w = true) by (unfold tprop, is_proper_kind; destruct (t_kind w); try discriminate; reflexivity).
    assert (Hdeep : ga_deep (g_attrs (e_node he)) = is_deep_kind (t_kind h)).
    { unfold he, el_at. cbn [e_node]. rewrite G_attrs. reflexivity. }
    unfold e_attrs in Wt. fold he in Wt. rewrite Hdeep in Wt. unfold he, el_at in Wt. cbn [e_path parent_path] in Wt.
    destruct (is_deep_kind (t_kind h)).
    - apply is_desc_spec in Wt as (q & Hq & Ep). rewrite Ep in HAw.
      destruct (At_below t pp ap p HAp _ _ _ HAw) as [[E _]|[_ Hin]]; [congruence|].
      split; [unfold vsids_below | unfold psids_below]; apply in_map; apply filter_In; split; assumption.
    - destruct (e_path y) as [|a py] eqn:Epy; cbn [parent_path optptr_eqb] in Wt; [discriminate|].
      apply ptr_eqb_eq in Wt. subst py. destruct (At_kid_inv t pp ap p a _ w HAp HAw) as (j' & _ & Hj' & _).
      apply nth_error_In in Hj'. split.
      + unfold vsids_kids. apply in_map. apply filter_In. split; [exact Hj' | exact Hv].
      + unfold psids_below. apply in_map. apply filter_In. split; [now apply tbelow_kid | exact Pw]. }
  split; intros s Hs; now apply Hboth.
Qed.

Theorem wf_chart_tree : VTree t.
Proof.
  constructor.
  - exact cl_nest.
  - exact (validated_unique t Hd Hnd).
  - exact cl_targets.
  - exact cl_initattr.
  - exact cl_initial.
  - exact cl_history.
Qed.

End Clauses.

(* a document for which the repaired validator reports no fatal issue *)
Theorem validated_tree_lemma t l : vb_docb t = true -> vb_hidden_freshb t = true ->
  validate vv_fixed (gdoc_of_tree t) = Ok l -> no_fatal l = true -> VTree t.
Proof.
  intros Hd Hf Hv Hn. apply wf_chart_tree; [exact Hd | exact Hf|].
  eapply validate_sound_lemma; [exact vv_fixed_repaired | now apply doc_single_machine | now apply doc_plain_ids | exact Hv | exact Hn].
Qed.
