(* EngineLifecycle.v -- C10 about the engine models, generic layer (TraceCompleteStep.outer_step with an initial
   micro-step and a selection satisfying EngineQueueSteps.ms0_spec / sel_spec): for every flat chart and
   every run in which steps are interleaved with arbitrary external enqueues and cancel() calls,
   * the results of step() are a word of MICROSTEPPED (MICROSTEPPED|MACROSTEPPED|IDLE)* CANCELLED? FINISHED*;
   * FINISHED is absorbing and quiet;
   * CANCELLED is returned only after cancel() and is followed by the completion step at once; FINISHED is
     returned the first time by the completion step and by no other;
   * (charts that raise no unnamed event) a cancelled engine never returns IDLE, and it returns FINISHED
     after at most 3 + (named events queued externally at the time of cancel()) steps that are not
     micro-steps: only the chart's own micro-steps can delay it. *)
From V Require Import Base NameMatch Chart Exec Large Fast Interp Trace TraceLemmas SetLemmas
     TraceComplete TraceCompleteBase TraceCompleteMicro TraceCompleteStep TraceCompleteRun TraceCompleteFast
     EngineQueue EngineQueueSteps EngineQueueLemmas.
From Coq Require Import ZifyBool.
Local Open Scope nat_scope.

Lemma codes_step r t : codes (LStep r :: t) = r_rc r :: codes t.
Proof. reflexivity. Qed.
Lemma codes_ext e t : codes (LExt e :: t) = codes t.
Proof. reflexivity. Qed.
Lemma codes_cancel t : codes (LCancel :: t) = codes t.
Proof. reflexivity. Qed.

Definition has_unnamed (q : list event) : bool := existsb (fun e => negb (namedb e)) q.

Lemma first_unnamed_app q a : has_unnamed q = true -> first_unnamed (q ++ a) = first_unnamed q.
Proof.
  induction q as [|e r IH]; cbn [has_unnamed existsb first_unnamed app]; [discriminate|].
  unfold namedb. destruct (ev_name e); cbn [negb orb]; [reflexivity|]. intros H. f_equal. now apply IH.
Qed.

Lemma has_unnamed_app q a : has_unnamed q = true -> has_unnamed (q ++ a) = true.
Proof. unfold has_unnamed. rewrite existsb_app. now intros ->. Qed.

Lemma has_unnamed_app_r q a : has_unnamed a = true -> has_unnamed (q ++ a) = true.
Proof. unfold has_unnamed. rewrite existsb_app. intros ->. apply orb_true_r. Qed.

Lemma first_unnamed_le q : first_unnamed q <= length q.
Proof. induction q as [|e r IH]; cbn [first_unnamed length]; [lia|]. destruct (ev_name e); lia. Qed.

Lemma first_unnamed_cancel q : first_unnamed (q ++ [cancel_event]) <= length q.
Proof. induction q as [|e r IH]; cbn [first_unnamed length app]; [cbn; lia|]. destruct (ev_name e); lia. Qed.

Section Generic.
Variable xv : ex_variant.
Variable c : fchart.
Variable ms0 : lstate -> xstate -> lstate * xstate.
Variable sel : lstate -> xstate -> option event -> lstate * xstate * N.
Variable esel : list nat -> xstate -> list nat.
Hypothesis Hms0 : ms0_spec c ms0.
Hypothesis Hsel : sel_spec c esel sel.
Let step := outer_step xv c ms0 sel.

Ltac ocases l x :=
  unfold step; destruct (outer_ocase xv c ms0 sel l x)
    as [Efin|Efin Etlf|Efin Etlf Epr|Efin Etlf Epr Esp|e r Efin Etlf Epr Esp Eiq En|e r Efin Etlf Epr Esp Eiq En|
        Efin Etlf Epr Esp Eiq Est|e r Efin Etlf Epr Esp Eiq Est Eeq En|e r Efin Etlf Epr Esp Eiq Est Eeq En Ec|
        e r Efin Etlf Epr Esp Eiq Est Eeq En Ec|Efin Etlf Epr Esp Eiq Est Eeq Ec|Efin Etlf Epr Esp Eiq Est Eeq Ec];
    cbn [fst snd].

(* ------------------------------------------------------------------ the results of step() are regular *)

Definition phase_rel (q : rcq) (l : lstate) : Prop :=
  match q with
  | Q_START => is_pristine l = true
  | Q_RUN => l_init l = true /\ l_fin l = false
  | Q_CANC => l_init l = true /\ l_fin l = false /\ l_tlf l = true
  | Q_FIN => l_fin l = true
  end.

Lemma phase_step q l x : phase_rel q l ->
  exists q', rc_next q (snd (step l x)) = Some q' /\ phase_rel q' (fst (fst (step l x))).
Proof.
  intros Hq.
  assert (Hsf := fun x0 ev => sel_flags c esel sel Hsel l x0 ev).
  assert (Hsr := fun x0 ev => sel_rc c esel sel Hsel l x0 ev).
  assert (Hrun : l_fin l = false -> l_tlf l = false -> is_pristine l = false -> q = Q_RUN /\ l_init l = true).
  { intros A B C. destruct q; cbn [phase_rel] in Hq.
    - congruence.
    - split; [reflexivity | apply Hq].
    - destruct Hq as (_ & _ & Hq). congruence.
    - congruence. }
  ocases l x.
  - (* finished *)
    destruct q; cbn [phase_rel] in Hq.
    + apply pristine_flags in Hq. destruct Hq as (_ & _ & _ & Hq & _). congruence.
    + destruct Hq. congruence.
    + destruct Hq as (_ & Hq & _). congruence.
    + exists Q_FIN. split; [reflexivity | exact Efin].
  - (* completion *)
    exists Q_FIN. split; [|reflexivity].
    destruct q; cbn [phase_rel] in Hq; try reflexivity.
    apply pristine_flags in Hq. destruct Hq as (_ & _ & Hq & _). congruence.
  - (* initial micro-step *)
    destruct (ms0_flags c ms0 Hms0 l x) as (F1 & F2 & F3 & F4 & F5).
    exists Q_RUN. split; [|cbn [phase_rel]; split; congruence].
    pose proof (pristine_flags l Epr) as (_ & Hi & _).
    destruct q; cbn [phase_rel] in Hq; try reflexivity.
    + destruct Hq. congruence.
    + congruence.
  - destruct (Hrun Efin Etlf Epr) as [-> Hi]. destruct (Hsf x None) as (F1 & F2 & F3 & F4).
    exists Q_RUN. rewrite Hsr. split; [reflexivity|]. cbn [phase_rel]. split; [auto | congruence].
  - destruct (Hrun Efin Etlf Epr) as [-> Hi].
    destruct (Hsf (emit (TEv (ev_name e)) (pop_iq x)) (Some e)) as (F1 & F2 & F3 & F4).
    exists Q_RUN. rewrite Hsr. split; [reflexivity|]. cbn [phase_rel]. split; [auto | congruence].
  - destruct (Hrun Efin Etlf Epr) as [-> Hi]. exists Q_RUN. split; [reflexivity|]. cbn [phase_rel]. auto.
  - destruct (Hrun Efin Etlf Epr) as [-> Hi]. exists Q_RUN. split; [reflexivity|]. cbn. auto.
  - destruct (Hrun Efin Etlf Epr) as [-> Hi].
    destruct (Hsf (emit (TEv (ev_name e)) (pop_eq x)) (Some e)) as (F1 & F2 & F3 & F4).
    exists Q_RUN. rewrite Hsr. split; [reflexivity|]. cbn [phase_rel]. split; [auto | congruence].
  - destruct (Hrun Efin Etlf Epr) as [-> Hi]. exists Q_CANC. split; [reflexivity|]. cbn. auto.
  - destruct (Hrun Efin Etlf Epr) as [-> Hi]. exists Q_RUN. split; [reflexivity|]. cbn [phase_rel]. auto.
  - destruct (Hrun Efin Etlf Epr) as [-> Hi]. exists Q_CANC. split; [reflexivity|]. cbn. auto.
  - destruct (Hrun Efin Etlf Epr) as [-> Hi]. exists Q_RUN. split; [reflexivity|]. cbn [phase_rel]. auto.
Qed.

Lemma phase_cancel q l : phase_rel q l -> phase_rel q (set_cancelled l).
Proof. destruct q; exact (fun H => H). Qed.

Lemma erun_regular acts : forall q l x, phase_rel q l ->
  exists q', rc_run q (codes (elog c step acts l x)) = Some q' /\ phase_rel q' (fst (efinal c step acts l x)).
Proof.
  unfold elog, efinal.
  induction acts as [|a r IH]; intros q l x Hq; cbn [erun fst snd].
  - exists q. split; [reflexivity | exact Hq].
  - destruct a as [|e|]; cbn [erun fst snd].
    + destruct (phase_step q l x Hq) as (q1 & H1 & H2).
      rewrite codes_step. cbn [rc_run r_rc]. fold step. rewrite H1. now apply IH.
    + rewrite codes_ext. now apply IH.
    + rewrite codes_cancel. apply IH. now apply phase_cancel.
Qed.

Theorem generic_step_results_regular acts :
  rc_regularb (codes (elog c step acts l_pristine x_init)) = true.
Proof.
  destruct (erun_regular acts Q_START l_pristine x_init eq_refl) as (q' & H & _).
  unfold rc_regularb. now rewrite H.
Qed.

(* ------------------------------------------------------------------ finished is absorbing *)

(* FINISHED is returned by a finished engine (nothing happens) or by the completion step, and by no other *)
Lemma step_finished_cases l x : snd (step l x) = RC_FINISHED ->
  (l_fin l = true /\ step l x = (l, x, RC_FINISHED)) \/
  (l_fin l = false /\ l_tlf l = true /\
   step l x = (set_completed l, emit TComplE (completion_exec xv c (l_cfg l) (rev (l_cfg l)) (emit TComplB x)), RC_FINISHED)).
Proof.
  assert (Hsr := fun x0 ev => sel_rc c esel sel Hsel l x0 ev).
  ocases l x; try rewrite Hsr; try discriminate; auto.
Qed.

Lemma step_when_finished l x : l_fin l = true -> step l x = (l, x, RC_FINISHED).
Proof. intros H. unfold step, outer_step. now rewrite H. Qed.

Lemma step_completion l x : l_fin l = false -> l_tlf l = true ->
  step l x = (set_completed l, emit TComplE (completion_exec xv c (l_cfg l) (rev (l_cfg l)) (emit TComplB x)), RC_FINISHED).
Proof. intros H1 H2. unfold step, outer_step. now rewrite H1, H2. Qed.

Lemma erun_fin_absorbing acts : forall fin l x, (fin = true -> l_fin l = true) ->
  fin_absorbing fin (elog c step acts l x).
Proof.
  unfold elog.
  induction acts as [|a r IH]; intros fin l x Hf; cbn [erun fst snd fin_absorbing]; [exact I|].
  destruct a as [|e|]; cbn [erun fst snd fin_absorbing r_rc r_l r_l' r_x r_x'].
  - fold step. split.
    + intros ->. rewrite (step_when_finished l x (Hf eq_refl)). auto.
    + apply IH. intros H. apply orb_true_iff in H. destruct H as [->|H].
      * rewrite (step_when_finished l x (Hf eq_refl)). cbn. auto.
      * apply N.eqb_eq in H. destruct (step_finished_cases l x H) as [[H1 ->]|(_ & _ & ->)]; [exact H1 | reflexivity].
  - now apply IH.
  - now apply IH.
Qed.

Theorem generic_finished_absorbing acts : fin_absorbing false (elog c step acts l_pristine x_init).
Proof. apply erun_fin_absorbing. discriminate. Qed.

(* the completion step reports beforeCompletion / afterCompletion and, in between, executable content only *)
Lemma completion_reports l x :
  reports x (emit TComplE (completion_exec xv c (l_cfg l) (rev (l_cfg l)) (emit TComplB x))) [TComplB; TComplE].
Proof.
  destruct (rep_bracket (raise_names_okb c) x TComplB TComplE
              (fun y => completion_exec xv c (l_cfg l) (rev (l_cfg l)) y) eq_refl eq_refl (completion_quiet xv c l)) as [H _].
  exact H.
Qed.

(* cancel() on an engine that idles (stable, both queues empty): CANCELLED, then the completion step *)
Lemma cancel_when_idle l x :
  l_fin l = false -> l_tlf l = false -> l_stable l = true -> l_spont l = false -> x_iq x = [] -> x_eq x = [] ->
  let l1 := set_cancelled l in
  let x1 := raise_ext cancel_event x in
  step l1 x1 = (set_tlf_cancelled l1, pop_eq x1, RC_CANCELLED) /\
  snd (step (set_tlf_cancelled l1) (after_step c (set_tlf_cancelled l1) (pop_eq x1) RC_CANCELLED)) = RC_FINISHED.
Proof.
  intros A B C D E F. cbn zeta. split.
  - unfold step, outer_step, is_pristine. cbn [set_cancelled raise_ext l_fin l_tlf l_spont l_init l_stable l_cancelled x_iq x_eq].
    rewrite A, B, C, D, E, F. rewrite !orb_true_r. cbn [negb app ev_name cancel_event]. unfold pop_eq, set_tlf_cancelled, set_cancelled, raise_ext.
    cbn [l_cfg l_hist l_initd l_spont l_init l_tlf l_fin l_stable l_cancelled x_store x_iq x_eq x_out].
    rewrite ?A, ?C, ?D, ?E, ?F. reflexivity.
  - rewrite step_completion; [reflexivity | exact A | reflexivity].
Qed.

(* ------------------------------------------------------------------ cancel() *)

Hypothesis Hok : raise_names_okb c = true.

(* what holds of the states a step starts from *)
Definition cinv (l : lstate) (x : xstate) : Prop :=
  ginv esel l x /\ iq_named x /\
  (l_cancelled l = true -> l_tlf l = true \/ has_unnamed (x_eq x) = true).

Lemma cinv_init : cinv l_pristine x_init.
Proof. split; [apply ginv_init|]. split; [reflexivity | discriminate]. Qed.

Lemma cinv_ext l x e : cinv l x -> cinv l (raise_ext e x).
Proof.
  intros (H1 & H2 & H3). split; [now apply (ginv_ext c sel esel Hsel)|]. split; [exact H2|].
  intros Hc. destruct (H3 Hc) as [H|H]; [now left | right]. cbn [raise_ext x_eq]. now apply has_unnamed_app.
Qed.

Lemma cinv_cancel l x : cinv l x -> cinv (set_cancelled l) (raise_ext cancel_event x).
Proof.
  intros (H1 & H2 & H3). split; [now apply (ginv_cancel c sel esel Hsel)|]. split; [exact H2|].
  intros _. right. cbn [raise_ext x_eq]. now apply has_unnamed_app_r.
Qed.

Lemma cinv_after l x rc : cinv l x -> cinv l (after_step c l x rc).
Proof. intros (H1 & H2 & H3). split; [now apply (ginv_after c sel esel Hsel)|]. split; [exact H2 | exact H3]. Qed.

Lemma qgrow_unnamed ok x x' : qgrow ok x x' -> has_unnamed (x_eq x) = true -> has_unnamed (x_eq x') = true.
Proof. intros (ai & ae & _ & H & _) Hu. rewrite H. now apply has_unnamed_app. Qed.

Lemma step_cancelled_flag l x : l_cancelled (fst (fst (step l x))) = l_cancelled l.
Proof.
  assert (Hsf := fun x0 ev => sel_flags c esel sel Hsel l x0 ev).
  ocases l x; try reflexivity; try (now apply Hsf).
  - now destruct (ms0_flags c ms0 Hms0 l x) as (_ & _ & _ & F & _).
  - cbn. now rewrite Ec.
  - cbn. now rewrite Ec.
Qed.

Lemma cinv_step l x : cinv l x -> cinv (fst (fst (step l x))) (snd (fst (step l x))).
Proof.
  intros (H1 & H2 & H3).
  split; [now apply (ginv_step xv c ms0 sel esel Hms0 Hsel)|].
  destruct (step_effect xv c ms0 sel esel Hms0 Hsel l x) as (sk & _ & _ & Hq). fold step in Hq.
  split; [exact (qeffect_named c _ _ _ Hq Hok H2)|].
  rewrite step_cancelled_flag. intros Hc. specialize (H3 Hc). revert Hq.
  ocases l x; intros Hq; cbn [l_tlf set_completed set_tlf_cancelled]; auto;
    (destruct H3 as [H3|H3]; [congruence|]); right.
  - (* initial micro-step *)
    unfold dequeues in Hq. rewrite Efin, Etlf, Epr in Hq. cbn [orb qeffect] in Hq. exact (qgrow_unnamed _ _ _ Hq H3).
  - unfold dequeues in Hq. rewrite Efin, Etlf, Epr, Esp in Hq. cbn [orb qeffect] in Hq. exact (qgrow_unnamed _ _ _ Hq H3).
  - unfold dequeues in Hq. rewrite Efin, Etlf, Epr, Esp, Eiq in Hq. cbn [orb] in Hq.
    destruct (ev_name e); [congruence|]. cbn [qeffect] in Hq. destruct Hq as [_ Hq].
    exact (qgrow_unnamed _ _ _ Hq H3).
  - unfold dequeues in Hq. rewrite Efin, Etlf, Epr, Esp, Eiq, Est, Eeq in Hq. cbn [orb negb] in Hq.
    destruct (ev_name e) eqn:En'; [congruence|]. cbn [qeffect] in Hq. destruct Hq as (_ & _ & Hq).
    apply (qgrow_unnamed _ _ _ Hq). unfold pop_eq. cbn [x_eq]. rewrite Eeq in H3 |- *. cbn [tl].
    cbn [has_unnamed existsb] in H3. unfold namedb in H3. rewrite En' in H3. exact H3.
  - unfold pop_eq. cbn [x_eq]. rewrite Eeq in H3. cbn [has_unnamed existsb tl] in *. congruence.
Qed.

Lemma erun_cinv acts : forall l x, cinv l x ->
  Forall (fun r => cinv (r_l r) (r_x r)) (steps_of (elog c step acts l x)) /\
  cinv (fst (efinal c step acts l x)) (snd (efinal c step acts l x)).
Proof.
  apply (erun_invariant c step cinv (fun r => cinv (r_l r) (r_x r))).
  - intros l x H. split; [exact H|]. apply cinv_after. now apply cinv_step.
  - intros l x e. apply cinv_ext.
  - intros l x. apply cinv_cancel.
Qed.

(* no IDLE after cancel(); CANCELLED only after cancel(), followed by FINISHED at once *)
Lemma erun_cancel_ok acts : forall cancelled prev l x,
  cinv l x -> l_cancelled l = cancelled ->
  (prev = true -> l_tlf l = true /\ l_fin l = false) ->
  cancel_ok cancelled prev (elog c step acts l x).
Proof.
  unfold elog.
  induction acts as [|a rest IH]; intros cancelled prev l x HC Hc Hp; cbn [erun fst snd cancel_ok]; [exact I|].
  destruct a as [|e|]; cbn [erun fst snd cancel_ok r_rc].
  - fold step.
    assert (Hnext : cinv (fst (fst (step l x))) (after_step c (fst (fst (step l x))) (snd (fst (step l x))) (snd (step l x))))
      by (apply cinv_after; now apply cinv_step).
    assert (Hc' : l_cancelled (fst (fst (step l x))) = cancelled) by (now rewrite step_cancelled_flag).
    assert (Hsr := fun x0 ev => sel_rc c esel sel Hsel l x0 ev).
    destruct HC as (_ & Hn & _).
    split; [|split; [|split]].
    + intros ->. ocases l x; try rewrite Hsr; try discriminate.
      * unfold iq_named in Hn. rewrite Eiq in Hn. cbn [forallb] in Hn. unfold namedb in Hn. rewrite En in Hn. discriminate.
      * congruence.
      * congruence.
    + ocases l x; try rewrite Hsr; try discriminate; congruence.
    + intros ->. destruct (Hp eq_refl) as [A B]. now rewrite (step_completion l x B A).
    + apply IH; [exact Hnext | exact Hc'|].
      intros H. apply N.eqb_eq in H. revert H.
      ocases l x; try rewrite Hsr; try discriminate; intros _; cbn; auto.
  - now apply IH; [apply cinv_ext | |].
  - apply IH; [now apply cinv_cancel | reflexivity | exact Hp].
Qed.

Theorem generic_cancel_ok acts : cancel_ok false false (elog c step acts l_pristine x_init).
Proof. apply erun_cancel_ok; [apply cinv_init | reflexivity | discriminate]. Qed.

(* the bound *)
Lemma n_other_step r t : n_other (LStep r :: t) = (if is_micro (r_rc r) then 0 else 1) + n_other t.
Proof. unfold n_other. rewrite codes_step. cbn [filter]. destruct (is_micro (r_rc r)); reflexivity. Qed.

Lemma has_finished_step r t : has_finished (LStep r :: t) = (r_rc r =? RC_FINISHED)%N || has_finished t.
Proof. reflexivity. Qed.

Lemma potential_sel l x l' x' q0 ae :
  l_fin l = false -> l_tlf l = false -> l_fin l' = false -> l_stable l' = false ->
  x_eq x' = q0 ++ ae -> has_unnamed q0 = true ->
  first_unnamed q0 + 1 <= first_unnamed (x_eq x) + (if l_stable l then 0 else 1) ->
  cancel_potential l' x' <= cancel_potential l x.
Proof.
  intros A B C D E F G. unfold cancel_potential. rewrite A, B, C, D, E, (first_unnamed_app _ _ F).
  destruct (l_tlf l'); lia.
Qed.

Ltac clia := repeat match goal with H : _ |- _ => clear H end; lia.

Lemma erun_cancel_bound acts : forall l x,
  cinv l x -> l_cancelled l = true ->
  has_finished (elog c step acts l x) = false ->
  n_other (elog c step acts l x) +
    cancel_potential (fst (efinal c step acts l x)) (snd (efinal c step acts l x)) <= cancel_potential l x.
Proof.
  unfold elog, efinal.
  induction acts as [|a rest IH]; intros l x HC Hc Hnf; cbn [erun fst snd].
  - cbn. clia.
  - destruct a as [|e|]; cbn [erun fst snd] in *.
    + fold step in Hnf |- *. rewrite has_finished_step in Hnf. cbn [r_rc] in Hnf. apply orb_false_iff in Hnf. destruct Hnf as [Hrc Hnf].
      assert (Hnext : cinv (fst (fst (step l x))) (after_step c (fst (fst (step l x))) (snd (fst (step l x))) (snd (step l x))))
        by (apply cinv_after; now apply cinv_step).
      assert (Hc' : l_cancelled (fst (fst (step l x))) = true) by (now rewrite step_cancelled_flag).
      specialize (IH _ _ Hnext Hc' Hnf). rewrite n_other_step. cbn [r_rc].
      assert (Hpot : (if is_micro (snd (step l x)) then 0 else 1) +
                     cancel_potential (fst (fst (step l x))) (after_step c (fst (fst (step l x))) (snd (fst (step l x))) (snd (step l x)))
                     <= cancel_potential l x); [|revert IH Hpot; clia].
      clear IH Hnext Hc' Hnf.
      change (cancel_potential (fst (fst (step l x))) (after_step c (fst (fst (step l x))) (snd (fst (step l x))) (snd (step l x))))
        with (cancel_potential (fst (fst (step l x))) (snd (fst (step l x)))).
      destruct HC as ((G1 & G2 & G3 & G4) & Hn & Hu). specialize (Hu Hc).
      assert (Hsf := fun x0 ev => sel_flags c esel sel Hsel l x0 ev).
      assert (Hsr := fun x0 ev => sel_rc c esel sel Hsel l x0 ev).
      destruct (step_effect xv c ms0 sel esel Hms0 Hsel l x) as (sk & _ & _ & Hq). fold step in Hq.
      revert Hrc Hq. ocases l x; intros Hrc Hq; try discriminate Hrc.
      * (* initial micro-step *)
        destruct (ms0_flags c ms0 Hms0 l x) as (F1 & F2 & F3 & F4 & F5).
        destruct Hu as [Hu|Hu]; [congruence|].
        unfold dequeues in Hq. rewrite Efin, Etlf, Epr in Hq. cbn [orb qeffect] in Hq.
        destruct Hq as (ai & ae & _ & Hq & _).
        pose proof (pristine_flags l Epr) as (_ & _ & _ & _ & Est).
        cbn [is_micro N.eqb RC_MICROSTEPPED Pos.eqb]. cbn [plus].
        apply (potential_sel l x _ _ (x_eq x) ae); auto; try congruence. rewrite Est. clia.
      * destruct (Hsf x None) as (F1 & F2 & F3 & F4). rewrite Hsr.
        destruct Hu as [Hu|Hu]; [congruence|].
        unfold dequeues in Hq. rewrite Efin, Etlf, Epr, Esp in Hq. cbn [orb qeffect] in Hq.
        destruct Hq as (ai & ae & _ & Hq & _).
        assert (Est : l_stable l = false) by (destruct (l_stable l); [specialize (G1 eq_refl); congruence | reflexivity]).
        cbn [is_micro N.eqb RC_MICROSTEPPED Pos.eqb plus].
        apply (potential_sel l x _ _ (x_eq x) ae); auto; try congruence. rewrite Est. clia.
      * destruct (Hsf (emit (TEv (ev_name e)) (pop_iq x)) (Some e)) as (F1 & F2 & F3 & F4). rewrite Hsr.
        destruct Hu as [Hu|Hu]; [congruence|].
        unfold dequeues in Hq. rewrite Efin, Etlf, Epr, Esp, Eiq in Hq. cbn [orb] in Hq.
        destruct (ev_name e); [congruence|]. cbn [qeffect] in Hq. destruct Hq as (_ & ai & ae & _ & Hq & _).
        assert (Est : l_stable l = false).
        { destruct (l_stable l); [|reflexivity]. specialize (G3 Efin eq_refl). congruence. }
        cbn [is_micro N.eqb RC_MICROSTEPPED Pos.eqb plus].
        apply (potential_sel l x _ _ (x_eq x) ae); auto; try congruence. rewrite Est. clia.
      * exfalso. unfold iq_named in Hn. rewrite Eiq in Hn. cbn [forallb] in Hn. unfold namedb in Hn. rewrite En in Hn. discriminate.
      * (* stable *)
        unfold cancel_potential, upd_flags. cbn [l_fin l_tlf l_stable emit x_eq]. rewrite Efin, Etlf, Est. cbn. clia.
      * destruct (Hsf (emit (TEv (ev_name e)) (pop_eq x)) (Some e)) as (F1 & F2 & F3 & F4). rewrite Hsr.
        destruct Hu as [Hu|Hu]; [congruence|].
        unfold dequeues in Hq. rewrite Efin, Etlf, Epr, Esp, Eiq, Est, Eeq in Hq. cbn [orb negb] in Hq.
        destruct (ev_name e) eqn:En'; [congruence|]. cbn [qeffect] in Hq. destruct Hq as (_ & _ & ai & ae & _ & Hq & _).
        change (x_eq (pop_eq x)) with (tl (x_eq x)) in Hq. rewrite Eeq in Hq, Hu. cbn [tl] in Hq.
        cbn [has_unnamed existsb] in Hu. unfold namedb in Hu. rewrite En' in Hu. cbn [negb orb] in Hu.
        cbn [is_micro N.eqb RC_MICROSTEPPED Pos.eqb plus].
        apply (potential_sel l x _ _ r ae); auto; try congruence.
        rewrite Eeq, Est. cbn [first_unnamed]. rewrite En'. clia.
      * unfold cancel_potential, set_tlf_cancelled, pop_eq. cbn [l_fin l_tlf l_stable x_eq]. rewrite Efin, Etlf. cbn. clia.
      * congruence.
      * unfold cancel_potential, set_tlf_cancelled. cbn [l_fin l_tlf l_stable x_eq]. rewrite Efin, Etlf. cbn. clia.
      * congruence.
    + change (n_other (LExt e :: ?t)) with (n_other t).
      change (has_finished (LExt e :: ?t)) with (has_finished t) in Hnf.
      specialize (IH l (raise_ext e x) (cinv_ext l x e HC) Hc Hnf).
      assert (Hle : cancel_potential l (raise_ext e x) <= cancel_potential l x); [|revert IH Hle; clia].
      destruct HC as (_ & _ & Hu). specialize (Hu Hc). unfold cancel_potential. cbn [raise_ext x_eq].
      destruct (l_fin l); [clia|]. destruct (l_tlf l); [clia|]. destruct Hu as [Hu|Hu]; [discriminate|].
      rewrite (first_unnamed_app _ _ Hu). clia.
    + change (n_other (LCancel :: ?t)) with (n_other t).
      change (has_finished (LCancel :: ?t)) with (has_finished t) in Hnf.
      specialize (IH (set_cancelled l) (raise_ext cancel_event x) (cinv_cancel l x HC) eq_refl Hnf).
      assert (Hle : cancel_potential (set_cancelled l) (raise_ext cancel_event x) <= cancel_potential l x); [|revert IH Hle; clia].
      destruct HC as (_ & _ & Hu). specialize (Hu Hc). unfold cancel_potential. cbn [raise_ext x_eq set_cancelled l_fin l_tlf l_stable].
      destruct (l_fin l); [clia|]. destruct (l_tlf l); [clia|]. destruct Hu as [Hu|Hu]; [discriminate|].
      rewrite (first_unnamed_app _ _ Hu). clia.
Qed.

(* in every run: from a call of cancel() on, as long as no step has returned FINISHED, at most
   3 + (named events then in the external queue) steps are anything but micro-steps *)
Theorem generic_cancel_leads_to_finished acts1 acts2 :
  let s1 := efinal c step acts1 l_pristine x_init in
  let log2 := elog c step (ECancel :: acts2) (fst s1) (snd s1) in
  has_finished log2 = false ->
  n_other log2 <= 3 + first_unnamed (x_eq (snd s1)) /\ first_unnamed (x_eq (snd s1)) <= length (x_eq (snd s1)).
Proof.
  cbn zeta. intros Hnf. split; [|apply first_unnamed_le].
  destruct (erun_cinv acts1 l_pristine x_init cinv_init) as [_ HC].
  set (l1 := fst (efinal c step acts1 l_pristine x_init)) in *.
  set (x1 := snd (efinal c step acts1 l_pristine x_init)) in *.
  unfold elog in *. cbn [erun fst snd] in *.
  change (n_other (LCancel :: ?t)) with (n_other t).
  change (has_finished (LCancel :: ?t)) with (has_finished t) in Hnf.
  pose proof (erun_cancel_bound acts2 (set_cancelled l1) (raise_ext cancel_event x1) (cinv_cancel l1 x1 HC) eq_refl Hnf) as H.
  unfold elog in H.
  assert (Hp : cancel_potential (set_cancelled l1) (raise_ext cancel_event x1) <= 3 + first_unnamed (x_eq x1)); [|revert H Hp; clia].
  unfold cancel_potential. cbn [set_cancelled raise_ext l_fin l_tlf l_stable x_eq].
  destruct (l_fin l1); [clia|]. destruct (l_tlf l1); [clia|].
  assert (Hfu : first_unnamed (x_eq x1 ++ [cancel_event]) <= first_unnamed (x_eq x1)); [|revert Hfu; destruct (l_stable l1); clia].
  clear. induction (x_eq x1) as [|e r IH]; cbn [app first_unnamed]; [cbn; lia|]. destruct (ev_name e); lia.
Qed.

End Generic.
