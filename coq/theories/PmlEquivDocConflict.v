(* PmlEquivDocConflict.v -- C06: the static conflict table of the emitted model (PmlStep.conflict_static: the exit
   sets of proper states intersect, or the sources are equal / nested) is FastMicroStep's conflict matrix
   (Fast.fconflicts: the exit intervals overlap, ...) on every chart with pseudo-states that passes wf_histb and has a
   compound root -- hence conflict_tableb (PmlEquivHistMicro.v) holds for every hist_treeb document: the domain of a
   transition is a compound state or the root, and below a compound state there is a proper state.  Proofs only. *)
From V Require Import Base NameMatch Chart Exec Large LargeLemmas Fast Trie PmlStep PmlStepLemmas TreeLemmas SetLemmas
                      LegalAbstract LegalHistBase LegalHistStep LegalHistWf RunConformInitialFlags
                      FlattenStaticTree FlattenStaticHist FlattenStaticMain EngineEquivHistRun Interp PmlEquivStep PmlEquivInit PmlEquivNames PmlEquivBase PmlEquivHistEntry PmlEquivHistMicro PmlEquivHistExamples PmlEquivHistRunEx PmlEquivDoc.
From Coq Require Import Lia.
Local Open Scope nat_scope.

Section Conflict.
Variable c : fchart.
Hypothesis W : WFH c.
Hypothesis Hroot : fs_type (st c 0) = FCompound.
Hypothesis Hsrc : forall ti, ti < ntrans c -> ft_source (tr c ti) < nstates c.
Notation n := (nstates c).
Notation Anc := (LegalAbstract.Anc (fun i => fs_parent (st c i))).
Notation pseudo := (pseudoS c).

(* below a compound state there is a proper state *)
Lemma compound_proper_desc q : fs_type (st c q) = FCompound -> exists g, Anc q g /\ pseudo g = false.
Proof.
  intros Hq. destruct (wh_compound c W q Hq) as [Hne Hall].
  destruct (fs_completion (st c q)) as [|g r] eqn:E; [congruence|].
  pose proof (Hall g (or_introl eq_refl)) as Hg.
  destruct (pseudo g) eqn:Pg; [|exists g; auto].
  (* the completion names a pseudo-state: an <initial> element or a history; its transition leads to proper states below q *)
  destruct (wh_pseudo_parent c W g Pg) as (p & Hp & Hpk).
  assert (Hqp : q = p \/ Anc q p) by (destruct (anc_child _ _ _ _ Hp Hg); auto).
  assert (Hdown : forall x, Anc p x -> Anc q x) by (intros x Hx; destruct Hqp as [->|Hqp]; [exact Hx|eapply (hanc_trans c); eauto]).
  unfold pseudoS in Pg. destruct (fs_type (st c g)) eqn:Kg; try discriminate Pg.
  - destruct (wh_hist_default c W g p ltac:(unfold histS; now rewrite Kg) Hp) as (ti & r0 & _ & Hn & Ht).
    destruct (ft_targets (tr c ti)) as [|x xs] eqn:Et; [congruence|].
    destruct (Ht x (or_introl eq_refl)) as (_ & Px & Hx). unfold deepS in Hx. rewrite Kg in Hx.
    exists x. split; [apply Hdown; now apply anc_parent|exact Px].
  - destruct (wh_hist_default c W g p ltac:(unfold histS; now rewrite Kg) Hp) as (ti & r0 & _ & Hn & Ht).
    destruct (ft_targets (tr c ti)) as [|x xs] eqn:Et; [congruence|].
    destruct (Ht x (or_introl eq_refl)) as (_ & Px & Hx). unfold deepS in Hx. rewrite Kg in Hx.
    exists x. split; [now apply Hdown|exact Px].
  - destruct (wh_initial c W g p Kg Hp) as (ti & _ & Hn & Ht).
    destruct (ft_targets (tr c ti)) as [|x xs] eqn:Et; [congruence|].
    destruct (Ht x (or_introl eq_refl)) as (Hx & _ & Px). exists x. split; [now apply Hdown|exact Px].
Qed.

Lemma domain_proper_desc ti d : ti < ntrans c -> domain c (tr c ti) = Some d ->
  d < n /\ exists g, Anc d g /\ pseudo g = false.
Proof.
  intros Hti Hd. destruct (hdomain_spec c W ti d (Hsrc ti Hti) Hd) as (Hne & Hk & Hall & _).
  assert (Hdn : d < n).
  { destruct (ft_targets (tr c ti)) as [|g r] eqn:E; [congruence|]. destruct (hanc_lt c W _ _ (Hall g (or_introl eq_refl))). lia. }
  split; [exact Hdn|]. destruct Hk as [Hk| ->]; [now apply compound_proper_desc|]. now apply compound_proper_desc.
Qed.

Lemma In_exit_static_range ti x : In x (exit_static c (tr c ti)) ->
  exists d, domain c (tr c ti) = Some d /\ S d <= x /\ x <= d + fs_size (st c d) - 1.
Proof.
  unfold exit_static, exit_interval. cbn [lg_exit_overreach lg_fixed andb].
  destruct (domain c (tr c ti)) as [d|] eqn:D; [|intros []].
  cbn [Nat.eqb]. rewrite filter_In, in_seq. intros [Hi _]. exists d. split; [reflexivity|]. lia.
Qed.

Lemma In_exit_static_intro ti d x : ti < ntrans c -> domain c (tr c ti) = Some d -> Anc d x -> pseudo x = false ->
  In x (exit_static c (tr c ti)).
Proof.
  intros Hti D Ha Hp. unfold exit_static, exit_interval. cbn [lg_exit_overreach lg_fixed andb]. rewrite D. cbn [Nat.eqb].
  destruct (domain_proper_desc ti d Hti D) as [Hdn _]. destruct (hanc_lt c W _ _ Ha) as [L1 L2].
  apply (wh_interval c W d x Hdn L2) in Ha. apply filter_In. split; [apply in_seq; lia|].
  unfold ptype. unfold pseudoS in Hp. now rewrite Hp.
Qed.

Lemma exit_static_conflicts_h i j : i < ntrans c -> j < ntrans c ->
  intersects (exit_static c (tr c i)) (exit_static c (tr c j)) = conflicts lg_fixed c (tr c i) (tr c j).
Proof.
  intros Hi Hj. apply Bool.eq_iff_eq_true. rewrite intersects_spec.
  unfold conflicts, exit_interval. cbn [lg_exit_overreach lg_fixed andb].
  split.
  - intros (x & X1 & X2). apply In_exit_static_range in X1 as (d1 & D1 & A1 & B1).
    apply In_exit_static_range in X2 as (d2 & D2 & A2 & B2). rewrite D1, D2. cbn [Nat.eqb negb andb].
    apply orb_true_iff. destruct (Nat.le_gt_cases d1 d2); [left|right]; apply andb_true_iff; split; apply Nat.leb_le; lia.
  - destruct (domain c (tr c j)) as [d2|] eqn:D2; [|destruct (domain c (tr c i)); cbn; rewrite ?andb_false_r; intros F; discriminate F].
    destruct (domain c (tr c i)) as [d1|] eqn:D1; [|cbn; intros F; discriminate F].
    cbn [Nat.eqb negb andb]. intros Ho.
    destruct (domain_proper_desc i d1 Hi D1) as [N1 (g1 & G1 & P1)]. destruct (domain_proper_desc j d2 Hj D2) as [N2 (g2 & G2 & P2)].
    apply orb_true_iff in Ho as [Ho|Ho]; apply andb_true_iff in Ho as [O1 O2]; apply Nat.leb_le in O1, O2.
    + (* d2 is d1 or below it: a proper state below d2 is in both exit sets *)
      exists g2. split; [|now apply (In_exit_static_intro j d2)].
      apply (In_exit_static_intro i d1); auto.
      destruct (Nat.eq_dec d1 d2) as [->|Ne]; [exact G2|].
      eapply (hanc_trans c); [|exact G2]. apply (wh_interval c W d1 d2 N1 N2). lia.
    + exists g1. split; [now apply (In_exit_static_intro i d1)|].
      apply (In_exit_static_intro j d2); auto.
      destruct (Nat.eq_dec d2 d1) as [->|Ne]; [exact G1|].
      eapply (hanc_trans c); [|exact G1]. apply (wh_interval c W d2 d1 N2 N1). lia.
Qed.

Theorem conflict_table_hist : conflict_tableb c = true.
Proof.
  unfold conflict_tableb. apply forallb_forall. intros i Hi. apply forallb_forall. intros j Hj.
  apply in_seq in Hi, Hj. apply eqb_true_iff. unfold conflict_static, fconflicts.
  now rewrite (exit_static_conflicts_h i j ltac:(lia) ltac:(lia)).
Qed.
End Conflict.

(* ---- for documents ---- *)
Lemma sources_bounded_flatten late t ti : ti < ntrans (flatten late t) -> ft_source (tr (flatten late t) ti) < nstates (flatten late t).
Proof.
  intros Hti.
  set (root := resort t). set (nodes := doc_nodes root 0 None). set (trs := all_trans nodes root).
  set (d := (0, {| tt_vid := 0%N; tt_event := None; tt_cond := None; tt_targets := None; tt_internal := false; tt_body := [] |}, KState)).
  assert (Hlen : ntrans (flatten late t) = length trs) by (unfold ntrans, flatten; cbn [fc_trans]; now rewrite map_length).
  rewrite Hlen in Hti.
  assert (Hin : In (nth ti trs d) trs) by now apply nth_In.
  unfold trs at 2 in Hin. unfold all_trans in Hin. apply in_flat_map in Hin as (i & Hi & Hin).
  apply in_map_iff in Hin as (y & Hy & _).
  assert (Hin' : i < nstates (flatten late t)).
  { rewrite (TreeLemmas.flatten_nstates late t). fold root. now apply postfix_states_lt. }
  set (ids := map (fun p : tree * option nat * nat => (t_sid (fst (fst p)), snd p)) (combine nodes (seq 0 (length nodes)))).
  assert (Etr : tr (flatten late t) ti = mk_trans ids (fst (fst (nth ti trs d))) (snd (nth ti trs d)) (snd (fst (nth ti trs d)))).
  { unfold tr, flatten. cbn [fc_trans]. fold root. fold nodes. fold trs. fold ids.
    rewrite (nth_indep _ dummy_trans (mk_trans ids (fst (fst d)) (snd d) (snd (fst d)))) by (now rewrite map_length).
    now rewrite (map_nth (fun x0 => mk_trans ids (fst (fst x0)) (snd x0) (snd (fst x0))) trs d ti). }
  rewrite Etr, <- Hy. cbn [mk_trans ft_source fst snd]. exact Hin'.
Qed.

Theorem conflict_table_document late t : hist_treeb t = true -> conflict_tableb (flatten late t) = true.
Proof.
  intros Ht. destruct (flatten_wf_hist_lemma late t Ht) as [H R].
  exact (conflict_table_hist (flatten late t) (wf_histb_sound _ H) R (sources_bounded_flatten late t)).
Qed.

(* with it only pml_deep_alone remains of the chart conditions *)
Lemma doc_ph_of_document late t : hist_treeb t = true -> pml_deep_alone (flatten late t) = true -> doc_ph (flatten late t) = true.
Proof. intros Ht D. unfold doc_ph. now rewrite D, (conflict_table_document late t Ht). Qed.

(* ================================================================== the headline theorems for documents *)
Section Headline.
Variable t : tree.
Variable iq eq : nat.
Variable P : bytes -> Prop.
Let c := flatten false t.
Hypothesis Hdeep : pml_deep_alone c = true.
Hypothesis Hcontent : PmlEquivStep.content_ok (PmlEquivInit.chart_dom c) c = true.
Hypothesis Hdok : PmlEquivInit.data_okb [] (fs_data (st c 0)) = true.
Hypothesis HPne : forall e, P e -> e <> [].
Hypothesis Hnames : PmlEquivNames.chart_names P c.
Hypothesis Hdone : forall j, (is_par (ptype c j) = true \/
              exists i, is_fin (ptype c i) = true /\ fs_parent (st c i) = Some j /\ mem 1 (fs_children (st c j)) = false) ->
             P (done_name c j).
Hypothesis Hmatch : forall i name, P name -> i < ntrans c -> ft_spontaneous (tr c i) = false ->
     resolved_match (guard_literals pml_repaired c i) name = name_match_impl nm_fixed (ft_event (tr c i)) name.

Theorem document_behaviour_preserved : hist_treeb t = true -> 0 < ntrans c ->
  forall fp ff, p_full (fst (pml_loop pml_repaired c iq eq fp (p_init c))) = false ->
  behaviour_preserved pml_repaired t iq eq fp ff.
Proof.
  intros Ht. exact (document_pml_behaviour_preserved_lemma t iq eq P (doc_ph_of_document false t Ht Hdeep) Hcontent Hdok HPne Hnames Hdone Hmatch Ht).
Qed.

Theorem document_behaviour_prefix : hist_treeb t = true -> 0 < ntrans c ->
  forall fp ff, behaviour_prefix pml_repaired t iq eq fp ff.
Proof.
  intros Ht. exact (document_pml_behaviour_prefix_lemma t iq eq P (doc_ph_of_document false t Ht Hdeep) Hcontent Hdok HPne Hnames Hdone Hmatch Ht).
Qed.

Theorem document_run_equals_default_engine : eq_tree_histb t = true ->
  (forall m, EngineEquivHistRun.eq_guard_run_hist ex_fixed c m Large.l_pristine Interp.x_init [] = true) ->
  forall fuel s' r,
  pml_loop pml_repaired c iq eq (S fuel) (p_init c) = (s', r) -> p_full s' = false -> r <> PFull ->
  exists m l' x', Interp.run_loop c lstate (large_step lg_fixed ex_fixed c) l_cfg m l_pristine Interp.x_init [] = (l', x') /\
                  final_large c r s' l' x'.
Proof.
  intros Ht. destruct (FlattenStaticMain.eq_tree_histb_parts t Ht) as [Hh _].
  exact (document_pml_run_equals_default_engine_partial_lemma t iq eq P (doc_ph_of_document false t Hh Hdeep) Hcontent Hdok HPne Hnames Hdone Hmatch Ht).
Qed.
End Headline.

(* ---- non-vacuity: the document of PmlEquivHistExamples.v (an <initial> element with content, a shallow and a deep
   history) passes hist_treeb, eq_tree_histb and pml_deep_alone; the document theorems apply to it ---- *)
Example doc_guards_instance :
  hist_treeb w_hist_doc = true /\ eq_tree_histb w_hist_doc = true /\ pml_deep_alone (flatten false w_hist_doc) = true /\
  conflict_tableb (flatten false w_hist_doc) = true.
Proof. vm_compute. repeat split; reflexivity. Qed.

Example document_behaviour_instance : forall ff, behaviour_preserved pml_repaired w_hist_doc 7 13 30 ff.
Proof.
  intros ff.
  apply (document_behaviour_preserved w_hist_doc 7 13 hx_P (proj1 (proj2 (proj2 doc_guards_instance)))
           hx_content_dom hx_data_ok hx_P_nonempty hx_chart_names hx_done hx_match_all (proj1 doc_guards_instance)).
  - vm_compute. lia.
  - destruct hx_run_complete as (s' & Hl & Hf & _). fold hx_chart. now rewrite Hl.
Qed.
