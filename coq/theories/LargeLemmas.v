(* LargeLemmas.v -- proofs about the model of LargeMicroStep::step *)
From V Require Import Base NameMatch Chart Exec Large.
Local Open Scope nat_scope.

Lemma In_insert_sorted x a l : In a (insert_sorted x l) <-> a = x \/ In a l.
Proof.
  induction l as [|y r IH]; cbn [insert_sorted].
  - cbn. intuition.
  - destruct (x <? y) eqn:Hlt.
    + cbn. intuition.
    + destruct (x =? y) eqn:Heq.
      * apply Nat.eqb_eq in Heq; subst. cbn. intuition.
      * cbn [In]. rewrite IH. intuition.
Qed.

Section Sel.
Variable v : lg_variant.
Variable c : fchart.

Lemma conflicts_sym t1 t2 : conflicts v c t1 t2 = conflicts v c t2 t1.
Proof.
  unfold conflicts. destruct (exit_interval v c t1) as [f1 s1], (exit_interval v c t2) as [f2 s2].
  rewrite (andb_comm (negb (f1 =? 0))). f_equal. apply orb_comm.
Qed.

Definition compatible_with (selected : list nat) (ti : nat) : Prop :=
  forall si, In si selected -> conflicts v c (tr c ti) (tr c si) = false.

Definition pairwise_ok (sel : list nat) : Prop :=
  forall a b, In a sel -> In b sel -> a <> b -> conflicts v c (tr c a) (tr c b) = false.

Lemma pick_trans_sound cfg ev selected ts x ti x' :
  pick_trans v c cfg ev selected ts x = (Some ti, x') ->
  In ti ts /\ compatible_with selected ti.
Proof.
  revert x. induction ts as [|t r IH]; intros x H; cbn [pick_trans] in H; [discriminate|].
  destruct (ft_history (tr c t) || ft_initial (tr c t)).
  { apply IH in H. intuition. }
  destruct (match ev with Some _ => ft_spontaneous (tr c t) | None => negb (ft_spontaneous (tr c t)) end).
  { apply IH in H. intuition. }
  destruct (existsb (fun si => conflicts v c (tr c t) (tr c si)) selected) eqn:Hc.
  { apply IH in H. intuition. }
  destruct (match ev with Some e => negb (name_match_impl nm_fixed (ft_event (tr c t)) (ev_name e)) | None => false end).
  { apply IH in H. intuition. }
  assert (Hcompat : compatible_with selected t).
  { intros si Hin. destruct (conflicts v c (tr c t) (tr c si)) eqn:E; [|reflexivity].
    assert (existsb (fun si => conflicts v c (tr c t) (tr c si)) selected = true)
      by (apply existsb_exists; exists si; auto). congruence. }
  destruct (ft_cond (tr c t)) as [cnd|].
  - destruct (is_true (inst_of c cfg) cnd x) as [b x1]. destruct b.
    + inversion H; subst. split; [now left | assumption].
    + apply IH in H. intuition.
  - inversion H; subst. split; [now left | assumption].
Qed.

Lemma pairwise_add sel ti :
  pairwise_ok sel -> compatible_with sel ti -> pairwise_ok (insert_sorted ti sel).
Proof.
  intros Hp Hc a b Ha Hb Hab.
  apply In_insert_sorted in Ha. apply In_insert_sorted in Hb.
  destruct Ha as [->|Ha], Hb as [->|Hb].
  - congruence.
  - now apply Hc.
  - rewrite conflicts_sym. now apply Hc.
  - now apply Hp.
Qed.

(* the optimal transition set chosen by SELECT_TRANSITIONS never contains two transitions whose
   exit intervals overlap -- for every configuration, event, order, datamodel state *)
Lemma select_loop_pairwise cfg ev order : forall skip selected x,
  pairwise_ok selected ->
  pairwise_ok (fst (select_loop v c cfg ev order skip selected x)).
Proof.
  induction order as [|s r IH]; intros skip selected x Hp; cbn [select_loop]; [exact Hp|].
  destruct (match skip with
            | Some cur => match fs_parent (st c cur) with Some p => p =? s | None => false end
            | None => false end).
  - now apply IH.
  - destruct (pick_trans v c cfg ev selected (fs_trans (st c s)) x) as [o x'] eqn:Hpick.
    destruct o as [ti|].
    + apply IH. apply pairwise_add; [exact Hp|]. eapply pick_trans_sound. exact Hpick.
    + now apply IH.
Qed.

End Sel.

Lemma nil_pairwise v c : pairwise_ok v c [].
Proof. intros a b []. Qed.

(* FINISHED is absorbing *)
Lemma large_step_finished_absorbing v xv c l x :
  l_fin l = true -> large_step v xv c l x = (l, x, RC_FINISHED).
Proof. intros H. unfold large_step. now rewrite H. Qed.
