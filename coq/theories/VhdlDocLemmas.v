(* VhdlDocLemmas.v -- C18, document level: LargeMicroStep::init / ChartToC::prepare (Chart.flatten) turns every
   document of the VHDL fragment (VhdlDoc.vh_treeb) into flat tables that pass the fragment check Vhdl.vh_wfb --
   the hypothesis of VhdlLemmas.vhdl_next_correct_lemma, which until now was a boolean evaluated per chart.
   Built on the machinery of FlattenWf{Tree,Struct,Kinds}.v; the proofs of the completion and target clauses
   follow FlattenWfLemmas.v with the clauses of core_treeb as separate hypotheses (the target-set clause is
   not needed for the fragment).  Proofs only. *)
From V Require Import Base NameMatch NameMatchLemmas Chart Exec Large Legal Fast Vhdl Tables TreeLemmas
     LargeCacheLemmas WfCore FlattenWf FlattenWfTree FlattenWfStruct FlattenWfKinds FlattenWfLemmas VhdlDoc VhdlDocFlat.
From V Require VhdlLemmas.
Local Open Scope nat_scope.

Lemma vh_treeb_parts t : vh_treeb t = true ->
  ct_kindsb t = true /\ ct_rootb t = true /\ ct_uniqueb t = true /\ ct_initialb t = true /\
  ct_no_root_targetb t = true /\ vt_final_leafb t = true /\ vt_root_plainb t = true /\ vt_descsb t = true /\
  vt_contentb t = true.
Proof. unfold vh_treeb. intros H. repeat (apply andb_true_iff in H as [H ?]). repeat split; assumption. Qed.

(* ------------------------------------------------------------------ names *)

Lemma simple_desc_tok_ok d : simple_desc d = true -> ev_tok_ok d = true.
Proof.
  intros Hd. unfold ev_tok_ok. destruct (VhdlLemmas.simple_desc_forms d Hd) as [->|[nm [Hnm Hf]]]; [reflexivity|].
  destruct (VhdlLemmas.forms_core d nm Hnm Hf) as [H1 _]. rewrite H1, Hnm. apply orb_true_r.
Qed.

Lemma In_dedup x l : In x (dedup l) -> In x l.
Proof.
  induction l as [|y r IH]; cbn [dedup]; [tauto|]. destruct (mem_bytes y r); cbn [In]; intuition.
Qed.

(* all event attributes acceptable => the words of the trie are one-token names *)
Lemma doc_events_simple c : (forall a, In a (chart_event_attrs c) -> attr_ok a = true) ->
  forallb simple_name (doc_events c) = true.
Proof.
  intros H. apply forallb_forall. intros e He. unfold doc_events in He. apply In_dedup in He.
  apply filter_In in He. destruct He as [He Hne]. apply in_map_iff in He. destruct He as (tok & <- & Htok).
  apply in_flat_map in Htok. destruct Htok as (a & Ha & Htok). specialize (H a Ha). unfold attr_ok in H.
  rewrite forallb_forall in H. specialize (H tok Htok). unfold ev_tok_ok in H. rewrite Hne in H. exact H.
Qed.

(* ------------------------------------------------------------------ the document *)

Section Doc.
Variable late : bool.
Variable t : tree.
Hypothesis KK : ct_kindsb t = true.
Local Notation c := (flatten late t).
Local Notation n := (tsize t).
Local Notation nodes := (nodes_of t).

(* rows: <onentry>/<onexit> *)
Lemma vd_row_content i : i < n ->
  fs_onentry (st c i) = match i with O => [] | _ => t_onentry (ntree nodes i) end /\
  fs_onexit (st c i) = t_onexit (ntree nodes i).
Proof.
  intros Hi. unfold st, flatten. cbn [fc_states]. rewrite (core_resort_id t KK).
  set (nodes0 := doc_nodes t 0 None) in *.
  assert (Hlen : length nodes0 = n) by apply doc_nodes_length.
  set (g := fun p : tree * option nat * nat => let '(t1, parent, i1) := p in _).
  rewrite (nth_indep _ dummy_state (g ((t, None), 0)))
    by (rewrite map_length, combine_length, seq_length, Nat.min_id, Hlen; exact Hi).
  rewrite map_nth, combine_nth by (now rewrite seq_length).
  rewrite seq_nth by (rewrite Hlen; exact Hi). cbn [plus].
  pose proof (nth_nodes_ntree t i) as E. rewrite (core_resort_id t KK) in E. unfold nodes0. rewrite E by exact Hi.
  split; reflexivity.
Qed.

(* rows of the transition table, with the source element *)
Lemma vd_tr ti : ti < ntrans c ->
  exists src x, src < n /\ In x (t_trans (ntree nodes src)) /\
    tr c ti = mk_trans (fl_ids t) src (t_kind (ntree nodes src)) x.
Proof.
  intros Hti. rewrite (c_ntrans late t) in Hti. pose proof (fl_tr late t ti Hti) as E.
  destruct (trs_in t ti Hti) as [Hs Hx]. rewrite (core_resort_id t KK) in Hs, Hx.
  set (src := fst (fst (nth ti (trs t) dtr))) in *. set (x := snd (fst (nth ti (trs t) dtr))) in *.
  exists src, x. split; [exact Hs|]. split; [exact Hx|].
  assert (Hkind : snd (nth ti (trs t) dtr) = t_kind (ntree nodes src)).
  { pose proof (nth_In (trs t) dtr Hti) as Hin. unfold trs at 2 in Hin. unfold all_trans in Hin.
    apply in_flat_map in Hin. destruct Hin as (i & Hi & Hy). apply postfix_states_lt in Hi.
    rewrite (nth_nodes_ntree t i Hi) in Hy. cbn [fst] in Hy. apply in_map_iff in Hy. destruct Hy as (y & Ey & _).
    unfold src. rewrite <- Ey. cbn [fst snd]. rewrite (core_resort_id t KK). reflexivity. }
  rewrite E, Hkind. reflexivity.
Qed.

(* ---------------------------------------------------------------- wf_core0b *)
Hypothesis RR : ct_rootb t = true.
Hypothesis UU : ct_uniqueb t = true.
Hypothesis II : ct_initialb t = true.
Hypothesis NR : ct_no_root_targetb t = true.

Lemma vd_root_compound : fs_type (st c 0) = FCompound.
Proof.
  pose proof (tsize_pos t) as Hp. destruct ((c_st late t KK) 0 Hp) as (E & _). rewrite E. rewrite ntree_root.
  apply ((type_of_core t KK) t (subtrees_self t)). exact RR.
Qed.

Lemma vd_sids_NoDup : NoDup (sids t).
Proof. apply nodupNb_NoDup. exact UU. Qed.

Lemma vd_resolve_node i : i < n -> nat_of_sid (fl_ids t) (t_sid (ntree nodes i)) = Some i.
Proof. intros Hi. apply (resolve_unique t KK i vd_sids_NoDup Hi). Qed.

Lemma vd_completion_ok : wfb_completion c = true.
Proof.
  unfold wfb_completion. rewrite (c_nstates late t KK). apply fseq. intros i Hi.
  destruct ((c_st late t KK) i Hi) as (Et & Ec & _ & Ecomp). set (u := ntree nodes i) in *.
  assert (Hu : In u (subtrees t)) by (now apply ntree_in).
  destruct ((type_of_core t KK) u Hu) as (_ & TC & TP).
  destruct (fs_type (st c i)) eqn:Ety; try reflexivity.
  - (* compound *)
    symmetry in Et. apply TC in Et. rewrite Ecomp, Ec. unfold completion_of.
    assert (Hkind : match t_kind u with KScxml | KState => True | _ => False end).
    { unfold compound_node in Et. destruct (t_kind u); try discriminate; exact I. }
    assert (Hkids : t_kids u <> []).
    { unfold compound_node, has_kids in Et. destruct (t_kind u); try discriminate; destruct (t_kids u); discriminate. }
    assert (Hini : initial_okb u = true).
    { pose proof II as I0. unfold ct_initialb in I0. rewrite forallb_forall in I0.
      specialize (I0 u Hu). now rewrite Et in I0. }
    assert (Hbody :
      match match t_initattr u with
            | Some l => set_of_list (filter_map (nat_of_sid (fl_ids t)) l)
            | None =>
              match find (fun p : tree * nat => match t_kind (fst p) with KInitial => true | _ => false end)
                         (combine (t_kids u) (child_indices (t_kids u) (S i))) with
              | Some p => [snd p]
              | None => match find (fun p : tree * nat => is_proper_kind (t_kind (fst p)))
                                   (combine (t_kids u) (child_indices (t_kids u) (S i))) with
                        | Some p => [snd p] | None => [] end
              end
            end with
      | [k] => mem k (child_indices (t_kids u) (S i))
      | _ => false end = true).
    { unfold initial_okb in Hini. destruct (t_initattr u) as [l|].
      - destruct l as [|s r]; [discriminate|]. apply andb_true_iff in Hini as [Hall Hmem].
        apply memN_In in Hmem. apply in_map_iff in Hmem. destruct Hmem as (kid & Hs & Hkid).
        destruct (In_nth_error _ _ Hkid) as [j Hj].
        destruct (ntree_kid t i j kid Hi Hj) as [Hb Hnb]. fold u in Hb, Hnb.
        set (b := S i + tsize_list (firstn j (t_kids u))) in *.
        assert (Hres_s : nat_of_sid (fl_ids t) s = Some b).
        { rewrite <- Hs, <- Hnb. apply vd_resolve_node. exact Hb. }
        rewrite (set_of_list_repeat b).
        + apply TreeLemmas.mem_In. apply child_indices_spec. exists j, kid. split; [exact Hj | reflexivity].
        + cbn [filter_map]. rewrite Hres_s. discriminate.
        + intros x Hx. cbn [filter_map] in Hx. rewrite Hres_s in Hx. destruct Hx as [<-|Hx]; [reflexivity|].
          rewrite forallb_forall in Hall. clear - Hall Hres_s Hx. induction r as [|y r IH]; [destruct Hx|].
          cbn [filter_map] in Hx. assert (y = s) by (symmetry; apply N.eqb_eq, Hall; now left). subst y.
          rewrite Hres_s in Hx. destruct Hx as [<-|Hx]; [reflexivity|]. apply IH; [|exact Hx].
          intros z Hz. apply Hall. now right.
      - rewrite find_none.
        2:{ intros [x k] Hx. apply in_combine_l in Hx. cbn [fst]. pose proof ((kid_kind t KK) u x Hu Hx) as K.
            destruct (t_kind x); try discriminate; reflexivity. }
        destruct (t_kids u) as [|x r] eqn:Ek; [congruence|]. cbn [child_indices combine find fst snd].
        assert (Hx : is_proper_kind (t_kind x) = true).
        { pose proof ((kid_kind t KK) u x Hu ltac:(rewrite Ek; now left)) as K. unfold is_proper_kind.
          destruct (t_kind x); try discriminate; reflexivity. }
        rewrite Hx. cbn [mem]. now rewrite Nat.eqb_refl. }
    destruct (t_kind u); try contradiction; exact Hbody.
  - (* parallel *)
    symmetry in Et. apply TP in Et. rewrite Ecomp, Ec. unfold completion_of. rewrite Et.
    apply list_eqb_eq. now apply (filter_map_proper_all t KK).
Qed.

Lemma vd_targets : wfb_targets c = true.
Proof.
  unfold wfb_targets. apply fseq. intros ti Hti. apply forallb_forall. intros g Hg.
  destruct ((c_tr late t KK) ti Hti) as (w & x & k & Hw & Hx & Et & _). rewrite Et in Hg.
  destruct (tt_targets x) as [l|] eqn:El; [|destruct Hg].
  apply In_filter_map in Hg. destruct Hg as (s & Hs & Hr). destruct ((resolve_some t KK) s g Hr) as [Hgn Hsid].
  rewrite (c_nstates late t KK). apply andb_true_iff. split; apply Nat.ltb_lt; [|exact Hgn].
  destruct g as [|g]; [|lia]. exfalso. rewrite ntree_root in Hsid.
  pose proof NR as R. unfold ct_no_root_targetb in R.
  rewrite forallb_forall in R. specialize (R w Hw). rewrite forallb_forall in R. specialize (R x Hx).
  rewrite El in R. apply negb_true_iff in R. rewrite Hsid in R.
  assert (memN s l = true) by (now apply memN_In). congruence.
Qed.

Lemma vd_wf_core0 : wf_core0b c = true.
Proof.
  unfold wf_core0b.
  rewrite (fl_nonempty late t), (fl_root late t), (fl_parent late t), (fl_children late t), (fl_anc late t),
    (fl_interval late t), (fl_src late t), (fl_types late t KK), vd_completion_ok, vd_targets.
  unfold wfb_root_type. now rewrite vd_root_compound.
Qed.

(* ---------------------------------------------------------------- vh_extrab *)
Hypothesis FL : vt_final_leafb t = true.
Hypothesis RP : vt_root_plainb t = true.
Hypothesis DD : vt_descsb t = true.
Hypothesis CC : vt_contentb t = true.

Lemma vd_leaf : vh_leafb c = true.
Proof.
  unfold vh_leafb. rewrite (c_nstates late t KK). apply fseq. intros i Hi.
  destruct ((c_st late t KK) i Hi) as (Et & Ec & _). set (u := ntree nodes i) in *.
  assert (Hu : In u (subtrees t)) by (now apply ntree_in).
  assert (Hnil : has_kids u = false -> fs_children (st c i) = []).
  { intros Hk. rewrite Ec. unfold has_kids in Hk. destruct (t_kids u); [reflexivity | discriminate]. }
  rewrite Et. unfold type_of. rewrite (proper_child_kids t KK u Hu).
  pose proof FL as F. unfold vt_final_leafb in F. rewrite forallb_forall in F. specialize (F u Hu).
  destruct (t_kind u); try reflexivity.
  - destruct (has_kids u) eqn:Hk; [reflexivity|]. now rewrite (Hnil eq_refl).
  - destruct (has_kids u) eqn:Hk; [reflexivity|]. now rewrite (Hnil eq_refl).
  - apply negb_true_iff in F. now rewrite (Hnil F).
Qed.

Lemma vd_sizes : vh_sizesb c = true.
Proof.
  unfold vh_sizesb. rewrite (c_nstates late t KK). apply fseq. intros i Hi.
  destruct ((c_st late t KK) i Hi) as (_ & _ & Es & _). rewrite Es.
  pose proof (tsize_pos (ntree nodes i)) as Hp.
  destruct (ntree_block t i (tsize (ntree nodes i) - 1) Hi ltac:(lia)) as [Hlt _].
  apply andb_true_iff. split; [apply Nat.leb_le; lia | apply Nat.leb_le; lia].
Qed.

Lemma vd_node_kind i : i < n -> core_kind (t_kind (ntree nodes i)) = true.
Proof. intros Hi. apply (kinds_in t KK). now apply ntree_in. Qed.

Lemma vd_trans_extra : vh_trans_extrab c = true.
Proof.
  unfold vh_trans_extrab. apply fseq. intros ti Hti. cbn zeta.
  destruct (vd_tr ti Hti) as (src & x & Hs & Hx & E). rewrite E. cbn [mk_trans ft_source ft_history ft_initial ft_spontaneous ft_event].
  rewrite (c_nstates late t KK).
  assert (H1 : 1 <= src).
  { destruct src as [|s']; [|lia]. exfalso. rewrite ntree_root in Hx. unfold vt_root_plainb in RP.
    destruct (t_trans t); [destruct Hx | discriminate]. }
  pose proof (vd_node_kind src Hs) as K.
  pose proof DD as D. unfold vt_descsb in D. rewrite forallb_forall in D.
  specialize (D (ntree nodes src) (ntree_in t src Hs)). rewrite forallb_forall in D. specialize (D x Hx).
  repeat (apply andb_true_iff; split).
  - now apply Nat.leb_le.
  - now apply Nat.ltb_lt.
  - destruct (t_kind (ntree nodes src)); try discriminate; reflexivity.
  - destruct (t_kind (ntree nodes src)); try discriminate; reflexivity.
  - destruct (tt_event x); [exact D | reflexivity].
Qed.

Lemma vd_content_in u : In u (subtrees t) ->
  (forall b, In b (t_onentry u ++ t_onexit u) -> block_ok b = true) /\
  (forall x, In x (t_trans u) -> block_ok (tt_body x) = true).
Proof.
  intros Hu. pose proof CC as C0. unfold vt_contentb in C0. rewrite forallb_forall in C0. specialize (C0 u Hu).
  apply andb_true_iff in C0 as [C1 C2]. rewrite forallb_forall in C1, C2. split; assumption.
Qed.

Lemma block_ok_attrs b a : block_ok b = true -> In a (flat_map instr_event_attrs b) -> attr_ok a = true.
Proof. unfold block_ok. rewrite forallb_forall. intros H Ha. now apply H. Qed.

Lemma vd_attrs a : In a (chart_event_attrs c) -> attr_ok a = true.
Proof.
  unfold chart_event_attrs. intros Ha. apply in_app_or in Ha. destruct Ha as [Ha|Ha].
  - apply in_flat_map in Ha. destruct Ha as (s & Hs & Ha).
    destruct (In_nth _ _ dummy_state Hs) as (i & Hi & Ei). change (nth i (fc_states c) dummy_state) with (st c i) in Ei.
    change (length (fc_states c)) with (nstates c) in Hi. rewrite (c_nstates late t KK) in Hi.
    destruct (vd_row_content i Hi) as [E1 E2]. subst s. rewrite E1, E2 in Ha.
    apply in_flat_map in Ha. destruct Ha as (b & Hb & Ha).
    destruct (vd_content_in (ntree nodes i) (ntree_in t i Hi)) as [C1 _].
    apply (block_ok_attrs b a); [|exact Ha]. apply C1.
    destruct i as [|i']; [|exact Hb]. cbn [app] in Hb. apply in_or_app. now right.
  - apply in_flat_map in Ha. destruct Ha as (ft & Hft & Ha).
    destruct (In_nth _ _ dummy_trans Hft) as (ti & Hti & Ei). change (nth ti (fc_trans c) dummy_trans) with (tr c ti) in Ei.
    change (length (fc_trans c)) with (ntrans c) in Hti.
    destruct (vd_tr ti Hti) as (src & x & Hs & Hx & E). subst ft. rewrite E in Ha.
    cbn [mk_trans ft_spontaneous ft_event ft_body] in Ha.
    apply in_app_or in Ha. destruct Ha as [Ha|Ha].
    + pose proof DD as D. unfold vt_descsb in D. rewrite forallb_forall in D.
      specialize (D (ntree nodes src) (ntree_in t src Hs)). rewrite forallb_forall in D. specialize (D x Hx).
      destruct (tt_event x) as [e|]; [|destruct Ha]. destruct Ha as [<-|[]].
      unfold attr_ok. apply forallb_forall. intros tok Htok. apply simple_desc_tok_ok.
      rewrite forallb_forall in D. now apply D.
    + destruct (vd_content_in (ntree nodes src) (ntree_in t src Hs)) as [_ C2].
      apply (block_ok_attrs (tt_body x) a); [now apply C2 | exact Ha].
Qed.

Lemma vd_extra : vh_extrab c = true.
Proof.
  unfold vh_extrab. rewrite vd_leaf, vd_sizes, vd_trans_extra. cbn [andb].
  apply doc_events_simple. exact vd_attrs.
Qed.

Theorem flatten_vh_wf_sec : vh_wfb c = true.
Proof. apply core_vh_wf; [exact vd_wf_core0 | exact vd_extra]. Qed.

End Doc.

(* the flat tables of a document of the VHDL fragment pass the fragment check of vhdl_next_correct *)
Theorem flatten_vh_wf_lemma : forall late t, vh_treeb t = true -> vh_wfb (flatten late t) = true.
Proof.
  intros late t H. destruct (vh_treeb_parts t H) as (K & R & U & I & NR & FL & RP & DD & CC).
  now apply flatten_vh_wf_sec.
Qed.

(* ... they pass the chart-core check without its target-set clause, the extra conditions, and the root is a
   compound state *)
Theorem flatten_vh_core0_lemma : forall late t, vh_treeb t = true ->
  wf_core0b (flatten late t) = true /\ vh_extrab (flatten late t) = true /\ fs_type (st (flatten late t) 0) = FCompound.
Proof.
  intros late t H. destruct (vh_treeb_parts t H) as (K & R & U & I & NR & FL & RP & DD & CC).
  split; [now apply vd_wf_core0|]. split; [now apply vd_extra | now apply vd_root_compound].
Qed.

(* with legal target sets: the full chart-core check *)
Lemma vh_tree_runb_core t : vh_tree_runb t = true -> core_treeb t = true.
Proof.
  unfold vh_tree_runb. intros H. apply andb_true_iff in H as [H TS].
  destruct (vh_treeb_parts t H) as (K & R & U & I & NR & _). unfold core_treeb. now rewrite K, R, U, I, NR, TS.
Qed.

(* the headline at document level *)
Theorem document_vhdl_next_correct_lemma : forall t cfg ev val,
  vh_treeb t = true ->
  legal_configb (flatten false t) cfg = true -> vh_running (flatten false t) cfg = true ->
  vh_event_ok (flatten false t) ev = true ->
  eval_eqs (flatten false t) (gen_eqs vh_fixed (flatten false t)) cfg ev val = Some (next_config (flatten false t) cfg ev val).
Proof.
  intros t cfg ev val H. apply VhdlLemmas.vhdl_next_correct_lemma. now apply flatten_vh_wf_lemma.
Qed.
