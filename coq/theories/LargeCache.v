(* LargeCache.v -- the lazily filled conflict caches of LargeMicroStep (SELECT_TRANSITIONS,
   LargeMicroStep.cpp:686-766): every Transition owns two sets `compatible` and `conflicting` of
   post-fix indices that survive across steps, and every selection keeps two bit arrays `_compatible`
   (transitions known to be compatible with ALL transitions selected so far: the intersection of
   their sets) and `_conflicting` (known to conflict with ONE of them: the union).  A candidate is
   compared with the selected transitions only if neither array knows it.
   Large.v abstracts from all of this and tests `existsb conflicts selected`.  This file models the
   caches as the code has them; LargeCacheLemmas.v proves that the engine with caches takes exactly
   the steps of Large.v.  Model only. *)
From V Require Import Base NameMatch Chart Exec Large.
Local Open Scope nat_scope.

(* the sets of all transitions as pairs: (a, b) stands for "b is in transition a's set" *)
Record tcache := {
  tc_compat : list (nat * nat);
  tc_confl : list (nat * nat)
}.
Definition tc_empty : tcache := {| tc_compat := []; tc_confl := [] |}.

Definition pmem (a b : nat) (l : list (nat * nat)) : bool :=
  existsb (fun p => (fst p =? a) && (snd p =? b)) l.
Definition row (a : nat) (l : list (nat * nat)) : list nat :=
  map snd (filter (fun p => fst p =? a) l).

(* _compatible / _conflicting of the running selection (reset at the start of every step()) *)
Record selst := {
  ss_compat : list nat;
  ss_confl : list nat
}.
Definition ss_empty : selst := {| ss_compat := []; ss_confl := [] |}.

Section LargeCache.
Variable v : lg_variant.
Variable xv : ex_variant.
Variable c : fchart.

(* "it is not explicitly compatible, we know nothing!": compare with the selected transitions
   (_transSet, ascending post-fix order) unless the pair is cached; a conflict ends the loop *)
Fixpoint check_enabled (ti : nat) (en : list nat) (k : tcache) : bool * tcache :=
  match en with
  | [] => (false, k)
  | e :: r =>
    if pmem e ti (tc_compat k) || pmem e ti (tc_confl k) then check_enabled ti r k
    else if conflicts v c (tr c ti) (tr c e) then
      (true, {| tc_compat := tc_compat k; tc_confl := (ti, e) :: (e, ti) :: tc_confl k |})
    else check_enabled ti r {| tc_compat := (ti, e) :: (e, ti) :: tc_compat k; tc_confl := tc_confl k |}
  end.

(* the test under USCXML_CTX_TRANSITION_FOUND *)
Definition cached_conflict (ti : nat) (selected : list nat) (s : selst) (k : tcache) : bool * tcache :=
  match selected with
  | [] => (false, k)
  | _ =>
    if mem ti (ss_confl s) then (true, k)
    else if mem ti (ss_compat s) then (false, k)
    else check_enabled ti selected k
  end.

(* "update conflicting and compatible transitions" once [ti] is taken *)
Definition select_update (ti : nat) (selected : list nat) (s : selst) (k : tcache) : selst :=
  match selected with
  | [] => {| ss_compat := row ti (tc_compat k); ss_confl := row ti (tc_confl k) |}
  | _ => {| ss_compat := filter (fun i => mem i (row ti (tc_compat k))) (ss_compat s);
            ss_confl := ss_confl s ++ row ti (tc_confl k) |}
  end.

Fixpoint pick_trans_c (cfg : list nat) (ev : option event) (selected : list nat) (s : selst) (k : tcache)
         (ts : list nat) (x : xstate) : option nat * xstate * tcache :=
  match ts with
  | [] => (None, x, k)
  | ti :: r =>
    let t := tr c ti in
    if ft_history t || ft_initial t then pick_trans_c cfg ev selected s k r x
    else if match ev with
            | Some _ => ft_spontaneous t
            | None => negb (ft_spontaneous t)
            end then pick_trans_c cfg ev selected s k r x
    else
      let '(cf, k1) := cached_conflict ti selected s k in
      if cf then pick_trans_c cfg ev selected s k1 r x
      else if match ev with
              | Some e => negb (name_match_impl nm_fixed (ft_event t) (ev_name e))
              | None => false
              end then pick_trans_c cfg ev selected s k1 r x
      else
        match ft_cond t with
        | None => (Some ti, x, k1)
        | Some cnd =>
          let '(b, x') := is_true (inst_of c cfg) cnd x in
          if b then (Some ti, x', k1) else pick_trans_c cfg ev selected s k1 r x'
        end
  end.

Fixpoint select_loop_c (cfg : list nat) (ev : option event) (order : list nat) (skip : option nat)
         (selected : list nat) (s : selst) (k : tcache) (x : xstate) {struct order}
  : list nat * xstate * tcache :=
  match order with
  | [] => (selected, x, k)
  | sx :: r =>
    let skipped := match skip with
                   | Some cur => match fs_parent (st c cur) with Some p => p =? sx | None => false end
                   | None => false
                   end in
    if skipped then select_loop_c cfg ev r (Some sx) selected s k x
    else
      let '(o, x', k') := pick_trans_c cfg ev selected s k (fs_trans (st c sx)) x in
      match o with
      | Some ti => select_loop_c cfg ev r (Some sx) (insert_sorted ti selected) (select_update ti selected s k') k' x'
      | None => select_loop_c cfg ev r None selected s k' x'
      end
  end.

(* the engine state with the caches *)
Definition cstate := (lstate * tcache)%type.

Definition select_and_step_c (lk : cstate) (x : xstate) (ev : option event) : cstate * xstate * N :=
  let '(l, k) := lk in
  let l0 := upd_flags l (l_spont l) false in
  let cfg := l_cfg l0 in
  let '(sel, x1, k1) := select_loop_c cfg ev (cfg_postfix c cfg) None [] ss_empty k x in
  match sel with
  | [] => ((upd_flags l0 (match ev with Some _ => true | None => false end) false, k1), x1, RC_MICROSTEPPED)
  | _ =>
    let targets := fold_left (fun a ti => set_union a (ft_targets (tr c ti))) sel [] in
    let exitset := fold_left (fun a ti => set_union a (exit_states_of v c cfg (tr c ti))) sel [] in
    let '(l1, x2) := microstep v xv c l0 (emit TMsB x1) targets exitset sel false in
    ((l1, k1), x2, RC_MICROSTEPPED)
  end.

(* LargeMicroStep::step with the caches: every branch that does not select leaves them alone *)
Definition large_step_c (lk : cstate) (x : xstate) : cstate * xstate * N :=
  let '(l, k) := lk in
  if l_fin l || l_tlf l || is_pristine l then
    let '(l1, x1, rc) := large_step v xv c l x in ((l1, k), x1, rc)
  else if l_spont l then select_and_step_c lk x None
  else
    match x_iq x with
    | e :: r =>
      match ev_name e with
      | [] => (lk, x, RC_IDLE)
      | _ =>
        let x1 := emit (TEv (ev_name e)) {| x_store := x_store x; x_iq := r; x_eq := x_eq x; x_out := x_out x |} in
        select_and_step_c lk x1 (Some e)
      end
    | [] =>
      if negb (l_stable l) then
        let '(l1, x1, rc) := large_step v xv c l x in ((l1, k), x1, rc)
      else
        match x_eq x with
        | e :: r =>
          let x0 := {| x_store := x_store x; x_iq := x_iq x; x_eq := r; x_out := x_out x |} in
          match ev_name e with
          | [] => let '(l1, x1, rc) := large_step v xv c l x in ((l1, k), x1, rc)
          | _ => select_and_step_c lk (emit (TEv (ev_name e)) x0) (Some e)
          end
        | [] => let '(l1, x1, rc) := large_step v xv c l x in ((l1, k), x1, rc)
        end
    end.

End LargeCache.

From V Require Import Interp.

(* the run of the correspondence harness with the caches: the trace and the caches at its end *)
Definition run_large_c (lv : lg_variant) (xv : ex_variant) (late : bool) (t : tree) (evs : list bytes) (fuel : nat)
  : list tok * tcache :=
  let c := flatten late t in
  let '(lk, x) := run_loop c cstate (large_step_c lv xv c) (fun s => l_cfg (fst s)) fuel (l_pristine, tc_empty) x_init evs in
  (rev (x_out x), snd lk).
