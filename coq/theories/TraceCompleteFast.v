(* TraceCompleteFast.v -- C13 completeness for the modelled FastMicroStep::step: entry-set invariants, what
   ENTER_STATES reports, the shape of one step, and the run theorem. *)
From V Require Import Base NameMatch Chart Exec Large Interp Trace TraceLemmas SetLemmas Fast
     TraceComplete TraceCompleteBase TraceCompleteMicro TraceCompleteStep TraceCompleteRun.
From Coq Require Import ZifyBool.
Local Open Scope nat_scope.

(* ------------------------------------------------------------------ invariants of ESTABLISH_ENTRYSET *)

Section FEntryInv.
Variable c : fchart.
Variable P : list nat -> Prop.
Variable Q : nat -> Prop.
Hypothesis P_ins : forall x l, Q x -> P l -> P (insert_sorted x l).
Hypothesis P_rem : forall x l, P l -> P (set_remove x l).
Hypothesis Q_compl : forall i x, In x (fs_completion (st c i)) -> Q x.
Hypothesis Q_anc : forall i x, In x (fs_ancestors (st c i)) -> Q x.
Hypothesis Q_tgt : forall ti x, In x (ft_targets (tr c ti)) -> Q x.

Let P_un := P_union P Q P_ins.

Lemma P_fold_anc_if (f : nat -> bool) (l : list nat) : forall a, P a ->
  P (fold_left (fun a j => if f j then set_union a (fs_ancestors (st c j)) else a) l a).
Proof.
  induction l as [|y r IH]; intros a Ha; cbn [fold_left]; [exact Ha|].
  apply IH. destruct (f y); [apply P_un; [exact Ha | apply Q_anc] | exact Ha].
Qed.

Lemma fdescend_one_P cfg ex hist acc i : P (fst acc) -> P (fst (fdescend_one c cfg ex hist acc i)).
Proof.
  destruct acc as [es ts]. cbn [fst]. intros Hes. unfold fdescend_one.
  destruct (negb (mem i es)); [exact Hes|].
  destruct (fs_type (st c i)) eqn:Ety; try exact Hes.
  - (* compound *)
    destruct (_ && _); [|exact Hes]. cbn [fst].
    apply (P_fold_anc_if (fun j => i <? j)). apply P_un; [exact Hes | apply Q_compl].
  - (* parallel *)
    cbn [fst]. apply P_un; [exact Hes | apply Q_compl].
  - (* shallow history *)
    destruct (negb _).
    + destruct (fs_trans (st c i)) as [|ti rt]; [exact Hes|]. cbn [fst].
      apply P_un; [exact Hes | apply Q_tgt].
    + cbn [fst]. apply P_un; [exact Hes|]. intros x Hx. apply In_set_inter in Hx. eapply Q_compl. apply Hx.
  - (* deep history *)
    destruct (negb (intersects (fs_completion (st c i)) hist)).
    + destruct (fs_trans (st c i)) as [|ti rt]; [exact Hes|]. cbn [fst].
      assert (H1 : P (set_union es (ft_targets (tr c ti)))) by (apply P_un; [exact Hes | apply Q_tgt]).
      destruct (negb (intersects (ft_targets (tr c ti)) (desc c i))); [|exact H1].
      revert H1. generalize (set_union es (ft_targets (tr c ti))).
      induction (filter (fun k => i <? k) (ft_targets (tr c ti))) as [|k rk IHk]; intros a Ha; cbn [fold_left]; [exact Ha|].
      apply IHk. apply P_un; [exact Ha | apply Q_anc].
    + cbn [fst]. apply P_un; [exact Hes|]. intros x Hx. apply In_set_inter in Hx. eapply Q_compl. apply Hx.
  - (* initial *)
    assert (Hout : forall l a, P (fst a) ->
       P (fst (fold_left (fun a ti => let t := tr c ti in
                 (fold_left (fun e k => if i <? k then set_union e (fs_ancestors (st c k)) else e) (ft_targets t)
                            (set_union (set_remove i (fst a)) (ft_targets t)),
                  insert_sorted ti (snd a))) l a))).
    { induction l as [|ti r IH]; intros a Ha; cbn [fold_left]; [exact Ha|].
      apply IH. cbn [fst]. apply (P_fold_anc_if (fun k => i <? k)).
      apply P_un; [now apply P_rem | apply Q_tgt]. }
    apply (Hout (fs_trans (st c i)) (es, ts)). exact Hes.
Qed.

Lemma fentry_set_P cfg ex hist targets ts : P targets -> P (fst (fentry_set c cfg ex hist targets ts)).
Proof.
  intros Ht. unfold fentry_set.
  assert (H0 : P (fst (add_ancestors c targets, ts))) by (cbn [fst]; now apply (add_ancestors_P c P Q P_ins Q_anc)).
  revert H0. generalize (add_ancestors c targets, ts).
  induction (seq 0 (fn c)) as [|i r IH]; intros acc Hacc; cbn [fold_left]; [exact Hacc|].
  apply IH. now apply fdescend_one_P.
Qed.

End FEntryInv.

Lemma fentry_set_ssorted c cfg ex hist targets ts :
  ssorted targets -> ssorted (fst (fentry_set c cfg ex hist targets ts)).
Proof.
  apply (fentry_set_P c ssorted (fun _ => True)); auto.
  - intros x l _. apply ssorted_insert.
  - intros x l. apply ssorted_set_remove.
Qed.

Lemma fentry_set_range c cfg ex hist targets ts : refs_in_rangeb c = true ->
  in_range c targets -> in_range c (fst (fentry_set c cfg ex hist targets ts)).
Proof.
  intros Hr. apply (fentry_set_P c (in_range c) (fun i => i < nstates c)).
  - intros x l Hx Hl i Hi. apply In_insert_sorted' in Hi. destruct Hi as [->|Hi]; auto.
  - intros x l Hl i Hi. apply In_set_remove in Hi. apply Hl, Hi.
  - now apply range_completion.
  - now apply range_ancestors.
  - now apply range_targets.
Qed.

(* ------------------------------------------------------------------ ENTER_STATES *)

Section FPhases.
Variable xv : ex_variant.
Variable c : fchart.
Let ok := raise_names_okb c.

(* the states ENTER_STATES really enters: proper and not yet active *)
Fixpoint fentered (cfg : list nat) (es : list nat) : list nat :=
  match es with
  | [] => []
  | i :: r => if mem i cfg || is_pseudo (fs_type (st c i)) then fentered cfg r
              else i :: fentered (insert_sorted i cfg) r
  end.

Lemma mem_insert_other i j cfg : i <> j -> mem j (insert_sorted i cfg) = mem j cfg.
Proof.
  intros Hne. destruct (mem j cfg) eqn:E.
  - apply mem_In. apply In_insert_sorted'. right. now apply mem_In.
  - apply mem_false_In. intros H. apply In_insert_sorted' in H. destruct H as [->|H]; [congruence|].
    apply mem_false_In in E. contradiction.
Qed.

Lemma fentered_filter es : forall cfg, ssorted es ->
  fentered cfg es = filter (fun i => negb (mem i cfg) && negb (is_pseudo (fs_type (st c i)))) es.
Proof.
  induction es as [|i r IH]; intros cfg Hs; [reflexivity|]. cbn [fentered filter ssorted] in *. destruct Hs as [H1 H2].
  destruct (mem i cfg); cbn [orb negb andb]; [now apply IH|].
  destruct (is_pseudo (fs_type (st c i))); cbn [negb]; [now apply IH|].
  f_equal. rewrite IH by exact H2. apply filter_ext_in. intros j Hj.
  rewrite mem_insert_other; [reflexivity|]. specialize (H1 j Hj). lia.
Qed.

Lemma ftrans_fold_rep cfg1 i : forall ts x,
  rep ok x
      (fold_left (fun x ti =>
                    let t := tr c ti in
                    if (ft_history t || ft_initial t) &&
                       match fs_parent (st c (ft_source t)) with Some p => p =? i | None => false end then
                      let y1 := emit (TTb (ft_vid t)) x in
                      let y2 := if ft_has_body t then exec_block xv (inst_of c cfg1) (ft_body t) y1 else y1 in
                      emit (TTe (ft_vid t)) y2
                    else x) ts x)
      (trans_skel c (fpseudo_trans c ts i)).
Proof.
  induction ts as [|ti rt IHt]; intros z; cbn [fold_left]; [apply rep_refl|].
  unfold fpseudo_trans. cbn [filter]. fold (fpseudo_trans c rt i). cbn zeta. unfold is_pseudo_trans at 1.
  destruct ((ft_history (tr c ti) || ft_initial (tr c ti)) &&
            match fs_parent (st c (ft_source (tr c ti))) with Some p => p =? i | None => false end).
  - change (trans_skel c (ti :: fpseudo_trans c rt i))
      with ([TTb (vid_of c ti); TTe (vid_of c ti)] ++ trans_skel c (fpseudo_trans c rt i)).
    eapply rep_trans; [|apply IHt]. apply trans_bracket_rep.
  - apply IHt.
Qed.

Lemma fenter_one_skip ts a i : mem i (ea_cfg a) || is_pseudo (fs_type (st c i)) = true -> fenter_one xv c ts a i = a.
Proof.
  intros H. unfold fenter_one. destruct (mem i (ea_cfg a)); [reflexivity|]. cbn [orb] in H. now rewrite H.
Qed.

Lemma fenter_one_rep ts a i : mem i (ea_cfg a) || is_pseudo (fs_type (st c i)) = false ->
  ea_cfg (fenter_one xv c ts a i) = insert_sorted i (ea_cfg a) /\
  rep ok (ea_x a) (ea_x (fenter_one xv c ts a i))
      (TEb (sid_of c i) :: TEe (sid_of c i) :: trans_skel c (fpseudo_trans c ts i)).
Proof.
  intros Hsk. apply orb_false_iff in Hsk. destruct Hsk as [Hm Hps].
  unfold fenter_one. rewrite Hm, Hps. cbn zeta.
  set (s := st c i).
  set (x1 := emit (TEb (fs_sid s)) (ea_x a)).
  set (cfg1 := insert_sorted i (ea_cfg a)).
  match goal with
  | |- context [let '(initd1, x2) := ?e in _] => destruct e as [initd1 x2] eqn:Einit
  end.
  assert (H12 : quiet ok x1 x2).
  { destruct (mem i (ea_initd a)); injection Einit as _ <-; [apply quiet_refl|].
    apply quiet_fold. intros z d _. apply quiet_init_data. }
  set (x3 := exec_blocks xv (inst_of c cfg1) (fs_onentry s) x2).
  set (x4 := emit (TEe (fs_sid s)) x3).
  assert (H04 : rep ok (ea_x a) x4 [TEb (sid_of c i); TEe (sid_of c i)]).
  { change [TEb (sid_of c i); TEe (sid_of c i)] with ([TEb (sid_of c i)] ++ [TEe (sid_of c i)]).
    apply rep_then_tok; [|reflexivity].
    eapply rep_then_quiet; [|apply onentry_quiet].
    eapply rep_then_quiet; [|exact H12]. now apply rep_tok. }
  match goal with
  | |- context [fold_left ?f ts x4] => set (F := f); set (x5 := fold_left F ts x4)
  end.
  assert (H45 : rep ok x4 x5 (trans_skel c (fpseudo_trans c ts i))).
  { subst x5 F. apply ftrans_fold_rep. }
  assert (H05 : rep ok (ea_x a) x5 (TEb (sid_of c i) :: TEe (sid_of c i) :: trans_skel c (fpseudo_trans c ts i))).
  { exact (rep_trans _ _ _ _ _ _ H04 H45). }
  destruct (fs_type s) eqn:Ety; cbn [ea_x ea_cfg]; (split; [reflexivity|]); try exact H05.
  eapply rep_then_quiet; [exact H05|].
  eapply quiet_trans; cycle 1.
  - apply quiet_fold. intros z j _. destruct (fs_type (st c j)); try apply quiet_refl.
    destruct (fpar_done c cfg1 j); [|apply quiet_refl]. apply quiet_raise. apply done_event_named.
  - match goal with |- quiet _ _ (if ?b then _ else _) => destruct b end; [apply quiet_refl|].
    destruct (fs_parent s); [|apply quiet_refl]. apply quiet_raise. apply done_event_named.
Qed.

Lemma fenter_fold_rep ts es : forall a,
  ea_cfg (fold_left (fenter_one xv c ts) es a) = insert_all (fentered (ea_cfg a) es) (ea_cfg a) /\
  rep ok (ea_x a) (ea_x (fold_left (fenter_one xv c ts) es a))
      (entry_skel_with c (fpseudo_trans c ts) (fentered (ea_cfg a) es)).
Proof.
  induction es as [|i r IH]; intros a; cbn [fold_left fentered]; [split; [reflexivity | apply rep_refl]|].
  destruct (mem i (ea_cfg a) || is_pseudo (fs_type (st c i))) eqn:Hsk.
  - rewrite fenter_one_skip by exact Hsk. apply IH.
  - destruct (fenter_one_rep ts a i Hsk) as [Hc Hr].
    destruct (IH (fenter_one xv c ts a i)) as [IHc IHr]. rewrite Hc in IHc, IHr. split.
    + rewrite IHc. reflexivity.
    + change (entry_skel_with c (fpseudo_trans c ts) (i :: fentered (insert_sorted i (ea_cfg a)) r))
        with ((TEb (sid_of c i) :: TEe (sid_of c i) :: trans_skel c (fpseudo_trans c ts i)) ++
              entry_skel_with c (fpseudo_trans c ts) (fentered (insert_sorted i (ea_cfg a)) r)).
      eapply rep_trans; eassumption.
Qed.

(* ------------------------------------------------------------------ one micro-step *)

Definition fms_entry (l : lstate) (targets exitset transset : list nat) (initial_step : bool) : list nat * list nat :=
  fentry_set c (l_cfg l) exitset
             (if initial_step then l_hist l else fremember c (l_cfg l) exitset (l_hist l)) targets transset.

Lemma fmicrostep_rep l x targets exitset transset initial_step :
  let r := fmicrostep xv c l x targets exitset transset initial_step in
  let es := fst (fms_entry l targets exitset transset initial_step) in
  let ts := snd (fms_entry l targets exitset transset initial_step) in
  let cfg1 := remove_all (rev exitset) (l_cfg l) in
  let en := fentered cfg1 es in
  l_cfg (fst r) = insert_all en cfg1 /\
  l_stable (fst r) = l_stable l /\ l_spont (fst r) = true /\
  rep ok x (snd r) (micro_skel_with c (fpseudo_trans c ts) (rev exitset) (plain_trans c ts) en ++ [TMsE]).
Proof.
  cbn zeta. unfold fms_entry, fmicrostep. cbn zeta.
  destruct (fentry_set c (l_cfg l) exitset _ targets transset) as [es ts].
  cbn [fst snd].
  destruct (exit_fold_rep xv c (rev exitset) (l_cfg l) x) as [Hx1 Hx2].
  destruct (fold_left (exit_one xv c) (rev exitset) (l_cfg l, x)) as [cfg1 x1].
  cbn [fst snd] in *. subst cfg1.
  set (cfg1 := remove_all (rev exitset) (l_cfg l)).
  match goal with
  | |- context [fold_left (fenter_one xv c ts) es ?a0] =>
    destruct (fenter_fold_rep ts es a0) as [He1 He2]
  end.
  cbn [ea_cfg ea_x] in He1, He2. cbn [l_cfg l_stable l_spont].
  repeat (split; [solve [reflexivity | exact He1]|]).
  eapply rep_eq.
  - apply rep_then_tok; [|reflexivity].
    eapply rep_trans; [exact Hx2|]. eapply rep_trans; [apply take_fold_rep | exact He2].
  - unfold micro_skel_with. now repeat rewrite <- app_assoc.
Qed.

Hypothesis Hrange : refs_in_rangeb c = true.

Lemma fmicrostep_shape lo l x x0 targets exitset transset initial_step evt :
  l_cfg l = l_cfg lo ->
  ssorted (l_cfg l) -> in_range c (l_cfg l) ->
  ssorted targets -> in_range c targets ->
  ssorted exitset -> (forall i, In i exitset -> In i (l_cfg l)) ->
  (evt = [] \/ exists n, evt = [TEv n]) ->
  (evt = [] -> l_spont lo = true \/ is_pristine lo = true) ->
  l_stable l = false ->
  rep ok x0 x evt ->
  let r := fmicrostep xv c l (emit TMsB x) targets exitset transset initial_step in
  exists sk, rep ok x0 (snd r) sk /\ step_shape c lo RC_MICROSTEPPED (fst r) evt sk.
Proof.
  intros Hlo Hcs Hcr Hts Htr Hxs Hxi Hevt Hev0 Hst Hx0. cbn zeta.
  destruct (fmicrostep_rep l (emit TMsB x) targets exitset transset initial_step) as (Hc & Hs & Hsp & Hrep).
  cbn zeta in Hrep, Hc.
  set (es := fst (fms_entry l targets exitset transset initial_step)) in *.
  set (ts := snd (fms_entry l targets exitset transset initial_step)) in *.
  set (cfg1 := remove_all (rev exitset) (l_cfg l)) in *.
  assert (Hes : ssorted es) by (unfold es, fms_entry; now apply fentry_set_ssorted).
  assert (Hen : fentered cfg1 es = filter (fun i => negb (mem i cfg1) && negb (is_pseudo (fs_type (st c i)))) es)
    by (now apply fentered_filter).
  exists (evt ++ TMsB :: micro_skel_with c (fpseudo_trans c ts) (rev exitset) (plain_trans c ts) (fentered cfg1 es) ++ [TMsE]). split.
  - eapply rep_trans; [exact Hx0|].
    change (TMsB :: micro_skel_with c (fpseudo_trans c ts) (rev exitset) (plain_trans c ts) (fentered cfg1 es) ++ [TMsE])
      with ([TMsB] ++ (micro_skel_with c (fpseudo_trans c ts) (rev exitset) (plain_trans c ts) (fentered cfg1 es) ++ [TMsE])).
    eapply rep_trans; [now apply rep_tok | exact Hrep].
  - apply (shape_microstep c lo RC_MICROSTEPPED _ evt _ (fpseudo_trans c ts) (rev exitset) (plain_trans c ts) (fentered cfg1 es));
      auto; try rewrite <- Hlo.
    + exact Hc.
    + now rewrite rev_involutive.
    + intros i Hi. apply Hxi. now apply in_rev.
    + rewrite Hen. now apply ssorted_filter.
    + intros i Hi. rewrite Hen in Hi. apply filter_In in Hi. destruct Hi as [_ Hi].
      apply andb_true_iff in Hi. destruct Hi as [Hi _]. apply negb_true_iff in Hi. now apply mem_false_In in Hi.
    + intros i Hi. rewrite Hen in Hi. apply filter_In in Hi. destruct Hi as [Hi _]. revert i Hi.
      unfold es, fms_entry. now apply fentry_set_range.
    + congruence.
Qed.

Lemma fselect_quiet cfg ev ts : forall sel x, quiet ok x (snd (fselect c cfg ev ts sel x)).
Proof.
  induction ts as [|t r IH]; intros sel x; cbn [fselect]; [apply quiet_refl|].
  repeat match goal with
         | |- context [if ?b then _ else _] => destruct b; try apply IH
         end.
  destruct (ft_cond (tr c t)) as [cnd|]; [|apply IH].
  destruct (is_true (inst_of c cfg) cnd x) as [b x'] eqn:E.
  assert (Hs : quiet ok x x') by (replace x' with (snd (is_true (inst_of c cfg) cnd x)) by (now rewrite E); apply quiet_is_true).
  destruct b; (eapply quiet_trans; [exact Hs | apply IH]).
Qed.

Lemma fselect_and_step_shape l x ev evt :
  ssorted (l_cfg l) -> in_range c (l_cfg l) ->
  (evt = [] \/ exists n, evt = [TEv n]) ->
  (evt = [] -> l_spont l = true) ->
  forall x0, rep ok x0 x evt ->
  let r := fselect_and_step xv c l x ev in
  exists sk, rep ok x0 (snd (fst r)) sk /\ step_shape c l (snd r) (fst (fst r)) evt sk.
Proof.
  intros Hcs Hcr Hevt Hev0 x0 Hx0. cbn zeta. unfold fselect_and_step. cbn zeta.
  set (l0 := upd_flags l (l_spont l) false).
  destruct (fselect c (l_cfg l0) ev (seq 0 (ntrans c)) [] x) as [sel x1] eqn:E.
  assert (Hq : quiet ok x x1).
  { replace x1 with (snd (fselect c (l_cfg l0) ev (seq 0 (ntrans c)) [] x)) by (now rewrite E).
    apply fselect_quiet. }
  destruct sel as [|t r].
  - cbn [fst snd]. exists evt. split; [eapply rep_then_quiet; eassumption|].
    apply shape_nothing_enabled; auto.
  - set (targets := fold_left (fun a ti => set_union a (ft_targets (tr c ti))) (t :: r) []).
    set (exitset := fold_left (fun a ti => set_union a (exit_states_of lg_fixed c (l_cfg l0) (tr c ti))) (t :: r) []).
    assert (H1 : ssorted targets) by (apply (ssorted_fold_union (fun ti => ft_targets (tr c ti))); exact I).
    assert (H2 : in_range c targets).
    { intros i Hi. apply (In_fold_union (fun ti => ft_targets (tr c ti))) in Hi.
      destruct Hi as [[]|(ti & _ & Hi)]. revert i Hi. now apply range_targets. }
    assert (H3 : ssorted exitset) by (apply (ssorted_fold_union (fun ti => exit_states_of lg_fixed c (l_cfg l0) (tr c ti))); exact I).
    assert (H4 : forall i, In i exitset -> In i (l_cfg l0)).
    { intros i Hi. apply (In_fold_union (fun ti => exit_states_of lg_fixed c (l_cfg l0) (tr c ti))) in Hi.
      destruct Hi as [[]|(ti & _ & Hi)]. now apply exit_states_of_incl in Hi. }
    assert (H5 : evt = [] -> l_spont l = true \/ is_pristine l = true) by (intros He; left; now apply Hev0).
    assert (H6 : rep ok x0 x1 evt) by (eapply rep_then_quiet; eassumption).
    assert (Hm := fmicrostep_shape l l0 x1 x0 targets exitset (t :: r) false evt eq_refl Hcs Hcr H1 H2 H3 H4 Hevt H5 eq_refl H6).
    cbn zeta in Hm.
    destruct (fmicrostep xv c l0 (emit TMsB x1) targets exitset (t :: r) false) as [l1 x2].
    cbn [fst snd] in *. exact Hm.
Qed.

Lemma fast_step_outer l x :
  fast_step xv c l x =
  outer_step xv c (fun l x => fmicrostep xv c l (emit TMsB x) (fs_completion (st c 0)) [] [] true)
             (fselect_and_step xv c) l x.
Proof. reflexivity. Qed.

Theorem fast_step_shape l x :
  ssorted (l_cfg l) -> in_range c (l_cfg l) ->
  ascb (fs_completion (st c 0)) = true ->
  ok = true -> iq_named x ->
  let r := fast_step xv c l x in
  exists sk, reports x (snd (fst r)) sk /\ qeffect c (dequeues l x) x (snd (fst r)) /\
             step_shape c l (snd r) (fst (fst r)) (map TEv (deq_names (dequeues l x))) sk.
Proof.
  intros Hcs Hcr Hroot Hok Hnamed. cbn zeta. rewrite fast_step_outer.
  apply outer_step_shape; auto.
  - clear l x Hcs Hcr Hnamed. intros l x Hcs Hcr Epr.
    assert (Hst : l_stable l = false) by (now apply pristine_unstable).
    assert (H1 : ssorted (fs_completion (st c 0))) by (now apply ascb_ssorted).
    assert (H2 : in_range c (fs_completion (st c 0))) by (now apply range_completion).
    assert (H4 : forall i, In i (@nil nat) -> In i (l_cfg l)) by (intros i []).
    exact (fmicrostep_shape l l x x (fs_completion (st c 0)) [] [] true [] eq_refl Hcs Hcr H1 H2 I H4
                            (or_introl eq_refl) (fun _ => or_intror Epr) Hst (rep_refl ok x)).
  - clear l x Hcs Hcr Hnamed. intros l x ev evt Hcs Hcr Hevt Hev0 x0 Hx0.
    exact (fselect_and_step_shape l x ev evt Hcs Hcr Hevt Hev0 x0 Hx0).
Qed.

End FPhases.

(* ------------------------------------------------------------------ runs of the fast engine *)

Theorem fast_run_complete xv c evs fuel :
  report_okb c = true -> raise_names_okb c = true ->
  trace_completeb (sid_pos c)
    (rev (x_out (snd (run_loop c lstate (fast_step xv c) l_cfg fuel l_pristine x_init evs)))) = true.
Proof.
  intros Hrep Hok. apply report_okb_parts in Hrep. destruct Hrep as (H1 & H2 & H3).
  apply run_loop_complete; auto.
  intros l x Hs Hr Hn. exact (fast_step_shape xv c H2 l x Hs Hr H3 Hok Hn).
Qed.

Theorem fast_run_events xv c evs fuel :
  report_okb c = true -> raise_names_okb c = true ->
  ev_of (rev (x_out (snd (run_loop c lstate (fast_step xv c) l_cfg fuel l_pristine x_init evs)))) =
  flat_map deq_names (run_deq (fast_step xv c) c fuel l_pristine x_init evs).
Proof.
  intros Hrep Hok. apply report_okb_parts in Hrep. destruct Hrep as (H1 & H2 & H3).
  apply run_loop_events; auto.
  intros l x Hs Hr Hn. exact (fast_step_shape xv c H2 l x Hs Hr H3 Hok Hn).
Qed.

Theorem fast_step_queues xv c l x :
  refs_in_rangeb c = true -> ascb (fs_completion (st c 0)) = true -> raise_names_okb c = true ->
  ssorted (l_cfg l) -> in_range c (l_cfg l) -> iq_named x ->
  queue_effect (dequeues l x) x (snd (fst (fast_step xv c l x))).
Proof.
  intros H2 H3 Hok Hs Hr Hn.
  destruct (fast_step_shape xv c H2 l x Hs Hr H3 Hok Hn) as (sk & _ & Hq & _).
  now apply (qeffect_queue_effect c).
Qed.

Theorem run_fast_complete xv late t evs fuel :
  report_okb (flatten late t) = true -> raise_names_okb (flatten late t) = true ->
  trace_completeb (sid_pos (flatten late t)) (fst (run_fast xv late t evs fuel)) = true.
Proof.
  intros H1 H2. unfold run_fast.
  pose proof (fast_run_complete xv (flatten late t) evs fuel H1 H2) as H.
  destruct (run_loop (flatten late t) lstate (fast_step xv (flatten late t)) l_cfg fuel l_pristine x_init evs) as [l x].
  exact H.
Qed.
