(* TablesLemmas.v -- C05: the tables ChartToC::prepare computes (Impl_tables) against the
   Recommendation's definitions (Spec_tables).  Proofs only. *)
From V Require Import Base Chart Tables TreeLemmas.
From Coq Require Import Sorted.
Local Open Scope nat_scope.

(* ------------------------------------------------------------------ small list facts *)

Lemma path_eqb_eq : forall a b, path_eqb a b = true <-> a = b.
Proof.
  induction a as [|x a IH]; intros [|y b]; cbn; try (split; congruence).
  rewrite andb_true_iff, Nat.eqb_eq, IH. split; [intros [-> ->]; reflexivity | intros H; inversion H; auto].
Qed.

Lemma path_index_nth : forall (l : list (list nat)) i k,
  NoDup l -> i < length l -> path_index (nth i l []) l k = Some (k + i).
Proof.
  induction l as [|q l IH]; intros i k Hnd Hi; [cbn in Hi; lia|].
  inversion Hnd as [|? ? Hnotin Hnd']; subst. destruct i as [|i]; cbn [nth path_index].
  - rewrite (proj2 (path_eqb_eq q q) eq_refl). f_equal. lia.
  - destruct (path_eqb (nth i l []) q) eqn:He.
    + apply path_eqb_eq in He. exfalso. apply Hnotin. rewrite <- He. apply nth_In. cbn in Hi. lia.
    + rewrite IH by (auto; cbn in Hi; lia). f_equal. lia.
Qed.

Lemma path_index_pidx t p : In p (paths t) -> path_index p (paths t) 0 = pidx t 0 p.
Proof.
  intros Hin. destruct (In_nth _ _ [] Hin) as (j & Hj & Hnth).
  rewrite <- Hnth at 1. rewrite path_index_nth by (auto using paths_NoDup).
  rewrite paths_length in Hj. pose proof (pidx_pth t j Hj) as H. unfold pth_of in H. rewrite Hnth in H.
  rewrite H. reflexivity.
Qed.

Lemma map_nth_seq' {A} (l : list A) d : map (fun i => nth i l d) (seq 0 (length l)) = l.
Proof.
  induction l as [|x l IH]; [reflexivity|]. cbn [length seq map nth]. f_equal.
  rewrite <- seq_shift, map_map. exact IH.
Qed.

Lemma seq_shift' d m : map (fun k => d + k) (seq 0 m) = seq d m.
Proof.
  induction m as [|m IH]; [reflexivity|]. rewrite !seq_S, map_app, IH. reflexivity.
Qed.

Lemma existsb_filter {A} (f g : A -> bool) l : existsb f (filter g l) = existsb (fun x => g x && f x) l.
Proof. induction l as [|x l IH]; [reflexivity|]. cbn. destruct (g x); cbn; rewrite IH; reflexivity. Qed.

Lemma filter_filter {A} (f g : A -> bool) l : filter f (filter g l) = filter (fun x => g x && f x) l.
Proof. induction l as [|x l IH]; [reflexivity|]. cbn. destruct (g x); cbn; [destruct (f x)|]; rewrite IH; reflexivity. Qed.

Lemma filter_ext_in' {A} (f g : A -> bool) l : (forall x, In x l -> f x = g x) -> filter f l = filter g l.
Proof.
  induction l as [|x l IH]; intros H; [reflexivity|]. cbn. rewrite (H x (or_introl eq_refl)).
  rewrite IH by (intros; apply H; right; assumption). reflexivity.
Qed.

Lemma existsb_ext_in {A} (f g : A -> bool) l : (forall x, In x l -> f x = g x) -> existsb f l = existsb g l.
Proof.
  induction l as [|x l IH]; intros H; [reflexivity|]. cbn. rewrite (H x (or_introl eq_refl)).
  rewrite IH by (intros; apply H; right; assumption). reflexivity.
Qed.

Lemma bool_eq_iff (a b : bool) : (a = true <-> b = true) -> a = b.
Proof. destruct a, b; intuition congruence. Qed.

Lemma mem_filter_seq f k m j : In j (seq k m) -> mem j (filter f (seq k m)) = f j.
Proof.
  intros Hin. apply bool_eq_iff. rewrite mem_In, filter_In. intuition.
Qed.

(* ------------------------------------------------------------------ the bridge: node table <-> occurrences *)

Section Bridge.
Variable root : tree.
Local Notation n := (tsize root).
Local Notation nodes := (nodes_of root).
Variable chains : list (list nat).
Hypothesis Hch : chains_of nodes = Some chains.

Lemma br_sn : sn root = n.
Proof. unfold sn, sP. apply paths_length. Qed.

Lemma br_nnodes : nnodes nodes = n.
Proof. unfold nnodes. apply nodes_length. Qed.

Lemma br_sidx : sidx root = seq 0 n.
Proof. unfold sidx. rewrite br_sn. reflexivity. Qed.

Lemma br_idx : idx nodes = seq 0 n.
Proof. unfold idx. rewrite br_nnodes. reflexivity. Qed.

Lemma br_pth i : pth root i = pth_of root i.
Proof. reflexivity. Qed.

Lemma br_snode i : i < n -> snode root i = ntree nodes i.
Proof.
  intros Hi. rewrite (ntree_nodes root i Hi). reflexivity.
Qed.

Lemma br_kind i : i < n -> skind_of root i = nkind nodes i.
Proof. intros Hi. unfold skind_of, nkind. rewrite br_snode by exact Hi. reflexivity. Qed.

Lemma br_parent i : i < n -> spec_parent root i = npar nodes i.
Proof.
  intros Hi. rewrite (npar_nodes root i Hi). unfold spec_parent, ppar. rewrite br_pth.
  destruct (pth_of root i) as [|a r] eqn:Hp; [reflexivity|].
  unfold sP. apply path_index_pidx. apply In_paths_iff.
  destruct (proj1 (In_paths_iff root _) (pth_in root i Hi)) as [u Hu]. rewrite Hp in Hu.
  eapply sub_removelast; eauto.
Qed.

Lemma br_anc a b : a < n -> b < n -> spec_is_anc root a b = is_desc chains b a.
Proof.
  intros Ha Hb. apply bool_eq_iff. unfold spec_is_anc. rewrite !br_pth.
  rewrite (is_desc_prefix root chains Hch b a Hb). intuition.
Qed.

Lemma br_npar_lt i p : i < n -> npar nodes i = Some p -> p < i.
Proof.
  intros Hi Hp. destruct (pth_of root i) as [|x0 r0] eqn:Hpi.
  - rewrite (npar_nodes root i Hi), Hpi in Hp. discriminate.
  - destruct (npar_some root i Hi) as (q & Hq & Hqi & _); [rewrite Hpi; discriminate|].
    congruence.
Qed.

End Bridge.

(* ------------------------------------------------------------------ per-state tables *)

Section States.
Variable root : tree.
Local Notation n := (tsize root).
Local Notation nodes := (nodes_of root).
Variable chains : list (list nat).
Hypothesis Hch : chains_of nodes = Some chains.
Variable hres : list (nat * list nat * bool).

Lemma stab_kind i : i < n -> sb_kind (impl_stab nodes chains hres i) = sb_kind (spec_stab root i).
Proof. intros Hi. cbn [impl_stab spec_stab sb_kind]. rewrite (br_kind root i Hi). reflexivity. Qed.

Lemma stab_sid i : i < n -> sb_sid (impl_stab nodes chains hres i) = sb_sid (spec_stab root i).
Proof. intros Hi. cbn [impl_stab spec_stab sb_sid]. rewrite (br_snode root i Hi). reflexivity. Qed.

Lemma stab_parent i : i < n -> sb_parent (impl_stab nodes chains hres i) = sb_parent (spec_stab root i).
Proof. intros Hi. cbn [impl_stab spec_stab sb_parent]. rewrite (br_parent root i Hi). reflexivity. Qed.

Lemma stab_child i : i < n -> sb_child (impl_stab nodes chains hres i) = sb_child (spec_stab root i).
Proof.
  intros Hi. cbn [impl_stab spec_stab sb_child]. unfold impl_child, set_bools, spec_is_child.
  rewrite (br_idx root), (br_sidx root). apply map_ext_in. intros j Hj. apply in_seq in Hj.
  rewrite (br_parent root j) by lia. reflexivity.
Qed.

Lemma stab_anc i : i < n -> sb_anc (impl_stab nodes chains hres i) = sb_anc (spec_stab root i).
Proof.
  intros Hi. cbn [impl_stab spec_stab sb_anc]. unfold impl_anc, set_bools.
  rewrite (br_idx root), (br_sidx root). apply map_ext_in. intros j Hj. apply in_seq in Hj.
  rewrite (br_anc root chains Hch j i) by lia. reflexivity.
Qed.

Lemma child_states_spec i : i < n -> child_states nodes i = spec_proper_children root i.
Proof.
  intros Hi. unfold child_states, spec_proper_children, spec_children. rewrite filter_filter.
  rewrite (br_idx root), (br_sidx root). apply filter_ext_in'. intros j Hj. apply in_seq in Hj.
  unfold spec_is_child, spec_proper, k_state. rewrite (br_parent root j), (br_kind root j) by lia. reflexivity.
Qed.

Lemma wf_leaves_no_children i : wf_leaves root = true -> i < n ->
  match nkind nodes i with KFinal | KHistShallow | KHistDeep | KInitial => spec_children root i = [] | _ => True end.
Proof.
  intros Hwf Hi. unfold wf_leaves in Hwf. rewrite forallb_forall in Hwf.
  specialize (Hwf i). rewrite (br_sidx root), in_seq, (br_kind root i Hi) in Hwf. specialize (Hwf ltac:(lia)).
  destruct (nkind nodes i); try exact I; destruct (spec_children root i); try reflexivity; discriminate.
Qed.

Lemma is_compound_spec i : wf_leaves root = true -> i < n -> is_compound nodes i = spec_compound root i.
Proof.
  intros Hwf Hi. unfold is_compound, spec_compound, is_parallel, k_state.
  rewrite (child_states_spec i Hi), (br_kind root i Hi).
  pose proof (wf_leaves_no_children i Hwf Hi) as Hl. unfold spec_proper_children.
  destruct (nkind nodes i); try reflexivity. rewrite Hl. reflexivity.
Qed.

(* hasHistoryChild, on elements that are no <history> *)
Lemma stab_hashist i : i < n -> is_history nodes i = false ->
  sb_hashist (impl_stab nodes chains hres i) = sb_hashist (spec_stab root i).
Proof.
  intros Hi Hh. cbn [impl_stab spec_stab sb_hashist]. rewrite Hh. cbn [andb]. rewrite orb_false_r.
  unfold impl_hashist_prepare, spec_hashist, spec_children. rewrite existsb_filter.
  rewrite (br_idx root), (br_sidx root). apply existsb_ext_in. intros j Hj. apply in_seq in Hj.
  unfold spec_is_child, is_history. rewrite (br_parent root j), (br_kind root j) by lia. reflexivity.
Qed.

End States.

(* ------------------------------------------------------------------ top level: states *)

Lemma impl_total_lemma : forall v t0, exists tb, Impl_tables v t0 = Ok tb.
Proof.
  intros v t0. unfold Impl_tables.
  destruct (chains_of_ok (resort t0)) as (chains & Hch & _). unfold nodes_of in Hch. rewrite Hch. eauto.
Qed.

Lemma impl_states_field {A} (f : stab -> A) :
  (forall root chains hres i, chains_of (nodes_of root) = Some chains -> i < tsize root ->
     f (impl_stab (nodes_of root) chains hres i) = f (spec_stab root i)) ->
  forall v t0, exists tb, Impl_tables v t0 = Ok tb /\
    map f (tbl_states tb) = map f (tbl_states (Spec_tables t0)).
Proof.
  intros Hf v t0. unfold Impl_tables.
  destruct (chains_of_ok (resort t0)) as (chains & Hch & _). unfold nodes_of in Hch. rewrite Hch.
  eexists. split; [reflexivity|]. cbn [tbl_states Spec_tables Spec_tables_of].
  rewrite !map_map, doc_nodes_length, (br_sidx (resort t0)). apply map_ext_in. intros i Hi. apply in_seq in Hi.
  apply Hf; [exact Hch | lia].
Qed.

Lemma impl_docorder_is_preorder_lemma : forall v t0, exists tb, Impl_tables v t0 = Ok tb /\
  map (fun s => (sb_kind s, sb_sid s)) (tbl_states tb) =
  map (fun p => (t_kind (subd (resort t0) p), t_sid (subd (resort t0) p))) (paths (resort t0)).
Proof.
  intros v t0. unfold Impl_tables.
  destruct (chains_of_ok (resort t0)) as (chains & Hch & _). unfold nodes_of in Hch. rewrite Hch.
  eexists. split; [reflexivity|]. cbn [tbl_states]. rewrite map_map, doc_nodes_length.
  cbn [impl_stab sb_kind sb_sid].
  rewrite <- (paths_length (resort t0)).
  rewrite <- (map_nth_seq' (paths (resort t0)) []) at 2. rewrite map_map. apply map_ext_in.
  intros i Hi. apply in_seq in Hi. rewrite paths_length in Hi.
  fold (nodes_of (resort t0)). rewrite (ntree_nodes (resort t0) i) by lia. reflexivity.
Qed.

Lemma impl_parent_correct_lemma : forall v t0, exists tb, Impl_tables v t0 = Ok tb /\
  map sb_parent (tbl_states tb) = map sb_parent (tbl_states (Spec_tables t0)).
Proof. apply impl_states_field. intros. apply stab_parent. assumption. Qed.

Lemma impl_children_correct_lemma : forall v t0, exists tb, Impl_tables v t0 = Ok tb /\
  map sb_child (tbl_states tb) = map sb_child (tbl_states (Spec_tables t0)).
Proof. apply impl_states_field. intros. apply stab_child. assumption. Qed.

Lemma impl_ancestors_correct_lemma : forall v t0, exists tb, Impl_tables v t0 = Ok tb /\
  map sb_anc (tbl_states tb) = map sb_anc (tbl_states (Spec_tables t0)).
Proof. apply impl_states_field. intros. apply stab_anc; assumption. Qed.

(* ------------------------------------------------------------------ witnesses (where the code deviates) *)

Definition mk (k : skind) (sid : N) (tr : list ttrans) (kids : list tree) : tree := TNode k sid None tr [] [] [] kids.
Definition mkt (vid : N) (ev : option bytes) (tg : option (list N)) (internal : bool) : ttrans :=
  {| tt_vid := vid; tt_event := ev; tt_cond := None; tt_targets := tg; tt_internal := internal; tt_body := [] |}.

(* scxml { p { hp(deep) -> a1 ; a { ha(shallow) -> a1 ; a1 ; a2 } ; b } } *)
Definition w_nested_history : tree :=
  mk KScxml 0 [] [mk KState 1 []
    [mk KHistDeep 2 [mkt 901 None (Some [4%N]) false] [];
     mk KState 3 [] [mk KHistShallow 6 [mkt 902 None (Some [4%N]) false] []; mk KState 4 [] []; mk KState 5 [] []];
     mk KState 7 [] []]].

(* scxml { par { a { a1 -e-> (no target) } ; b { b1 } } -e-> (no target) } *)
Definition w_targetless_parallel : tree :=
  mk KScxml 0 [] [mk KParallel 1 [mkt 102 (Some [101%N]) None false]
    [mk KState 2 [] [mk KState 3 [mkt 101 (Some [101%N]) None false] []];
     mk KState 4 [] [mk KState 5 [] []]]].

(* scxml { s { x ; h1(shallow) -> x ; h2(deep) -> x } }: resortStates reverses the two histories *)
Definition w_two_histories : tree :=
  mk KScxml 0 [] [mk KState 1 []
    [mk KState 2 [] []; mk KHistShallow 3 [mkt 901 None (Some [2%N]) false] []; mk KHistDeep 4 [mkt 902 None (Some [2%N]) false] []]].

Definition compl_rows (tb : tables) : list (list bool) := map sb_compl (tbl_states tb).

(* completion of <history> elements compared on proper states only *)
Definition mask_hist_rows (tb : tables) : list (list bool) :=
  map (fun s => if is_hist_kind (sb_kind s)
                then map (fun p => fst p && is_proper_kind (sb_kind (snd p))) (combine (sb_compl s) (tbl_states tb))
                else sb_compl s) (tbl_states tb).

Lemma impl_history_completion_refuted_lemma :
  exists t0 tb, Impl_tables tv_pinned t0 = Ok tb /\ mask_hist_rows tb <> compl_rows (Spec_tables t0).
Proof.
  exists w_nested_history. eexists. split; [vm_compute; reflexivity|]. vm_compute. discriminate.
Qed.

(* the history below the deep history's parent records nothing at all *)
Lemma nested_history_empty_completion :
  exists tb, Impl_tables tv_pinned w_nested_history = Ok tb /\
    nth 4 (compl_rows tb) [] = repeat false 8 /\
    nth 4 (compl_rows (Spec_tables w_nested_history)) [] = [false; false; false; false; false; true; true; false].
Proof. eexists. split; [vm_compute; reflexivity|]. split; vm_compute; reflexivity. Qed.

Definition confl_rows (tb : tables) : list (list bool) := map tb_confl (tbl_trans tb).

Lemma impl_conflicts_vs_recommendation_refuted_lemma :
  exists t0 tb, Impl_tables tv_fixed t0 = Ok tb /\ confl_rows tb <> confl_rows (Spec_tables t0).
Proof.
  exists w_targetless_parallel. eexists. split; [vm_compute; reflexivity|]. vm_compute. discriminate.
Qed.

(* the order of several <history> siblings is reversed by the re-sorting *)
Lemma resort_history_order_refuted_lemma :
  exists t0, map t_sid (filter (fun c => is_hist_kind (t_kind c)) (t_kids (nth 0 (t_kids (resort t0)) dummy_tree))) <>
             map t_sid (filter (fun c => is_hist_kind (t_kind c)) (t_kids (nth 0 (t_kids t0) dummy_tree))).
Proof. exists w_two_histories. vm_compute. discriminate. Qed.

(* non-vacuity: a document with parallel, history, <initial>, initial attribute, internal and multi-target transitions *)
Definition ex_rich : tree :=
  TNode KScxml 0 (Some [1%N]) [] [] [] []
    [mk KState 1 [mkt 101 (Some [101%N]) (Some [8%N; 11%N]) false; mkt 102 (Some [102%N]) (Some [3%N]) true; mkt 103 None None false]
       [mk KState 2 [] []; mk KInitial 20 [mkt 900 None (Some [3%N]) false] []; mk KState 3 [] [];
        mk KHistDeep 4 [mkt 901 None (Some [2%N]) false] []];
     mk KParallel 5 [mkt 104 (Some [101%N]) (Some [4%N]) false]
       [mk KState 6 [] [mk KState 7 [] []; mk KState 8 [] []]; mk KHistShallow 9 [mkt 902 None (Some [6%N]) false] [];
        mk KState 10 [] [mk KFinal 11 [] []]]].

Example ex_rich_tables : exists tb, Impl_tables tv_fixed ex_rich = Ok tb /\ length (tbl_states tb) = 13 /\ length (tbl_trans tb) = 7.
Proof. eexists. split; [vm_compute; reflexivity|]. split; reflexivity. Qed.

(* ------------------------------------------------------------------ transitions *)

Lemma flat_map_map {A B C} (f : B -> list C) (g : A -> B) l : flat_map f (map g l) = flat_map (fun x => f (g x)) l.
Proof. induction l as [|x l IH]; [reflexivity|]. cbn. rewrite IH. reflexivity. Qed.

Lemma flat_map_ext_in {A B} (f g : A -> list B) l : (forall x, In x l -> f x = g x) -> flat_map f l = flat_map g l.
Proof.
  induction l as [|x l IH]; intros H; [reflexivity|]. cbn. rewrite (H x (or_introl eq_refl)).
  rewrite IH by (intros; apply H; right; assumption). reflexivity.
Qed.

Section Trans.
Variable root : tree.
Local Notation n := (tsize root).
Local Notation nodes := (nodes_of root).
Variable chains : list (list nat).
Hypothesis Hch : chains_of nodes = Some chains.

Definition trans_of_node (u : tree) (i : nat) : list (nat * nat * ttrans) :=
  let tl := t_trans u in map (fun q => (i, fst q, snd q)) (combine (seq 0 (length tl)) tl).

(* the transitions are numbered in post-order of their source elements *)
Lemma postfix_trans_spec : postfix_trans nodes root = spec_postfix_trans root.
Proof.
  unfold postfix_trans, spec_postfix_trans.
  set (G := fun o : option nat => match o with Some i => trans_of_node (snode root i) i | None => [] end).
  transitivity (flat_map G (map (pidx root 0) (paths_post root))).
  - rewrite paths_post_idx, flat_map_map. apply flat_map_ext_in. intros i Hi.
    apply postfix_states_lt in Hi. cbn [G]. unfold trans_of_node.
    rewrite (br_snode root i Hi). unfold ntree, nd.
    rewrite (nth_indep nodes (root, None) (dummy_tree, None)) by (rewrite nodes_length; exact Hi). reflexivity.
  - rewrite flat_map_map. apply flat_map_ext_in. intros p Hp.
    apply In_paths_post_iff in Hp. apply In_paths_iff in Hp. unfold sP.
    rewrite (path_index_pidx root p Hp). destruct (pidx root 0 p); reflexivity.
Qed.

Lemma postfix_trans_source_lt x : In x (postfix_trans nodes root) -> fst (fst x) < n.
Proof.
  unfold postfix_trans. rewrite in_flat_map. intros (i & Hi & Hx). apply postfix_states_lt in Hi.
  apply in_map_iff in Hx. destruct Hx as (q & <- & _). exact Hi.
Qed.

Lemma source_state_spec e : e < n -> source_state nodes e = spec_source_state root e.
Proof.
  intros He. unfold source_state, spec_source_state. rewrite (br_kind root e He), (br_parent root e He). reflexivity.
Qed.

Lemma target_bools_spec t : impl_target_bools nodes t =
  match tt_targets t with
  | Some _ => Some (set_bools root (fun j => mem j (spec_targets root t)))
  | None => None
  end.
Proof.
  unfold impl_target_bools, spec_targets, set_bools. destruct (tt_targets t) as [ids|]; [|reflexivity]. f_equal.
  rewrite (br_idx root), (br_sidx root). apply map_ext_in. intros j Hj.
  rewrite mem_filter_seq by exact Hj. apply in_seq in Hj.
  rewrite (br_kind root j), (br_snode root j) by lia. reflexivity.
Qed.

End Trans.

(* ------------------------------------------------------------------ LCCA, transition domain, exit set *)

Lemma rev_filter_seq_spec (Q : nat -> bool) : forall m,
  match rev (filter Q (seq 0 m)) with
  | c :: _ => Q c = true /\ c < m /\ (forall c', c < c' -> c' < m -> Q c' = false)
  | [] => forall c', c' < m -> Q c' = false
  end.
Proof.
  induction m as [|m IH].
  - cbn. intros; lia.
  - rewrite seq_S, filter_app, rev_app_distr. cbn [filter Nat.add]. destruct (Q m) eqn:Hq; cbn [rev app].
    + split; [exact Hq|]. split; [lia|]. intros; lia.
    + destruct (rev (filter Q (seq 0 m))) as [|c r].
      * intros c' Hc'. destruct (Nat.eq_dec c' m) as [->|]; [exact Hq | apply IH; lia].
      * destruct IH as (H1 & H2 & H3). split; [exact H1|]. split; [lia|].
        intros c' Ha Hb. destruct (Nat.eq_dec c' m) as [->|]; [exact Hq | apply H3; lia].
Qed.

Lemma find_sorted_desc (P : nat -> bool) : forall l, StronglySorted (fun x y => y < x) l ->
  match find P l with
  | Some a => In a l /\ P a = true /\ (forall b, In b l -> P b = true -> b <= a)
  | None => forall b, In b l -> P b = false
  end.
Proof.
  induction l as [|x l IH]; intros Hs; cbn [find]; [intros b []|].
  inversion Hs as [|? ? Hs' Hall]; subst. destruct (P x) eqn:Hp.
  - split; [left; reflexivity|]. split; [exact Hp|]. intros b [<- | Hb] _; [lia|].
    rewrite Forall_forall in Hall. specialize (Hall b Hb). lia.
  - specialize (IH Hs'). destruct (find P l) as [a|].
    + destruct IH as (H1 & H2 & H3). split; [right; exact H1|]. split; [exact H2|].
      intros b [<- | Hb] Hpb; [congruence | apply H3; assumption].
    + intros b [<- | Hb]; [exact Hp | apply IH; exact Hb].
Qed.

Lemma forallb_set_ext {A} (f g : A -> bool) l1 l2 :
  (forall x, In x l1 <-> In x l2) -> (forall x, In x l1 -> f x = g x) -> forallb f l1 = forallb g l2.
Proof.
  intros Hs Hf. apply bool_eq_iff. rewrite !forallb_forall. split; intros H x Hx.
  - rewrite <- Hf by (apply Hs; exact Hx). apply H. apply Hs. exact Hx.
  - rewrite Hf by exact Hx. apply H. apply Hs. exact Hx.
Qed.

Lemma In_filter_map {A B} (f : A -> option B) l y : In y (filter_map f l) <-> exists x, In x l /\ f x = Some y.
Proof.
  induction l as [|x l IH]; cbn [filter_map].
  - split; [intros [] | intros (x & [] & _)].
  - destruct (f x) as [z|] eqn:Hz; cbn [In]; rewrite IH; split.
    + intros [<- | (x' & Hx' & Hf)]; [exists x; auto | exists x'; auto].
    + intros (x' & [<- | Hx'] & Hf); [left; congruence | right; eauto].
    + intros (x' & Hx' & Hf). exists x'. auto.
    + intros (x' & [<- | Hx'] & Hf); [congruence | eauto].
Qed.

Section Domain.
Variable root : tree.
Local Notation n := (tsize root).
Local Notation nodes := (nodes_of root).
Variable chains : list (list nat).
Hypothesis Hch : chains_of nodes = Some chains.
Hypothesis Hwf : wf_doc root = true.

Lemma wf_parts : wf_leaves root = true /\ wf_unique_ids root = true /\ wf_root root = true.
Proof. unfold wf_doc in Hwf. rewrite !andb_true_iff in Hwf. tauto. Qed.

Lemma wf_root_kind i : i < n -> (nkind nodes i = KScxml <-> i = 0).
Proof.
  intros Hi. destruct wf_parts as (_ & _ & Hr). unfold wf_root in Hr. rewrite forallb_forall in Hr.
  specialize (Hr i). rewrite (br_sidx root), in_seq, (br_kind root i Hi) in Hr. specialize (Hr ltac:(lia)).
  apply Bool.eqb_prop in Hr. destruct (nkind nodes i); destruct i; cbn in Hr; split; congruence.
Qed.

Lemma get_state_spec id j : get_state nodes id = Some j <->
  j < n /\ has_id (nkind nodes j) = true /\ t_sid (ntree nodes j) = id.
Proof.
  unfold get_state. rewrite (br_idx root). split.
  - intros Hf. apply find_some in Hf. destruct Hf as [Hin Hf]. apply in_seq in Hin.
    rewrite andb_true_iff, N.eqb_eq in Hf. split; [lia | exact Hf].
  - intros (Hj & Hid & Hs).
    destruct (find _ (seq 0 n)) as [j'|] eqn:Hf.
    + apply find_some in Hf. destruct Hf as [Hin Hf]. apply in_seq in Hin.
      rewrite andb_true_iff, N.eqb_eq in Hf. destruct Hf as [Hid' Hs'].
      destruct wf_parts as (_ & Hu & _). unfold wf_unique_ids in Hu. rewrite forallb_forall in Hu.
      specialize (Hu j'). rewrite (br_sidx root), in_seq in Hu. specialize (Hu ltac:(lia)).
      rewrite forallb_forall in Hu. specialize (Hu j). rewrite in_seq in Hu. specialize (Hu ltac:(lia)).
      rewrite !(br_kind root), !(br_snode root), Hid, Hid', Hs, Hs', N.eqb_refl in Hu by lia. cbn in Hu.
      apply Nat.eqb_eq in Hu. congruence.
    + exfalso. pose proof (find_none _ _ Hf j) as Hn. rewrite in_seq in Hn. specialize (Hn ltac:(lia)).
      rewrite Hid, Hs, N.eqb_refl in Hn. discriminate.
Qed.

Lemma target_states_set t j : In j (target_states nodes t) <-> In j (spec_targets root t).
Proof.
  unfold target_states, spec_targets. destruct (tt_targets t) as [ids|]; [|reflexivity].
  rewrite In_filter_map, filter_In, (br_sidx root), in_seq. split.
  - intros (id & Hid & Hg). apply get_state_spec in Hg. destruct Hg as (Hj & Hh & Hs).
    split; [lia|]. rewrite (br_kind root j Hj), (br_snode root j Hj), Hh. cbn [andb].
    apply existsb_exists. exists id. split; [exact Hid | apply N.eqb_eq; exact Hs].
  - intros (Hj & Hb). rewrite (br_kind root j), (br_snode root j), andb_true_iff, existsb_exists in Hb by lia.
    destruct Hb as (Hh & id & Hid & He). apply N.eqb_eq in He. exists id. split; [exact Hid|].
    apply get_state_spec. split; [lia | split; assumption].
Qed.

Lemma target_states_lt t j : In j (target_states nodes t) -> 0 < j /\ j < n.
Proof.
  intros Hj. unfold target_states in Hj. destruct (tt_targets t) as [ids|]; [|destruct Hj].
  apply In_filter_map in Hj. destruct Hj as (id & _ & Hg). apply get_state_spec in Hg. destruct Hg as (Hjn & Hh & _).
  split; [|exact Hjn]. destruct (Nat.eq_dec j 0) as [->|]; [|lia].
  assert (Hk : nkind nodes 0 = KScxml) by (apply wf_root_kind; [lia | reflexivity]). rewrite Hk in Hh. discriminate.
Qed.

(* every element of a parent chain is a state, a parallel or the scxml element *)
Lemma chain_kinds s a : s < n -> In a (nchain chains s) ->
  a < n /\ a < s /\ k_state (nkind nodes a) && k_anc_tag (nkind nodes a) = true.
Proof.
  intros Hs Ha. destruct (chains_of_ok root) as (ch & Hch' & _ & Hnth). rewrite Hch in Hch'. inversion Hch'; subst ch.
  destruct (chain_spec root n s Hs) as (l & Hl & Hin & Hlt & _); [pose proof (pth_length_le root s Hs); lia|].
  rewrite (Hnth s Hs) in Hl. inversion Hl; subst l. unfold nchain in Ha.
  destruct (proj1 (Hin a) Ha) as [Han Hpp]. split; [exact Han|]. split; [apply Hlt; exact Ha|].
  (* a has a child: the next step on the path to s *)
  apply proper_prefix_spec in Hpp. destruct Hpp as (r & Hr & He). destruct r as [|k r]; [congruence|].
  assert (Hv : exists u, sub root (pth_of root a ++ [k]) = Some u).
  { destruct (proj1 (In_paths_iff root _) (pth_in root s Hs)) as [u Hu]. rewrite He in Hu.
    replace (pth_of root a ++ k :: r) with ((pth_of root a ++ [k]) ++ r) in Hu by (rewrite <- app_assoc; reflexivity).
    clear - Hu. revert Hu. generalize (pth_of root a ++ [k]). intros p. revert root.
    induction p as [|x p IH]; intros t Hu; cbn [sub app] in *; [eauto|].
    destruct (nth_error (t_kids t) x); [eapply IH; eauto | discriminate]. }
  destruct (proj2 (pidx_some_iff_sub _ root 0) Hv) as [c Hc].
  destruct (pth_of_pidx root _ _ Hc) as [Hcn Hcp].
  assert (Hchild : In c (spec_children root a)).
  { unfold spec_children. rewrite filter_In, (br_sidx root), in_seq. split; [lia|].
    unfold spec_is_child. rewrite (br_parent root c Hcn), (npar_nodes root c Hcn), Hcp. unfold ppar.
    destruct (pth_of root a ++ [k]) eqn:He2; [destruct (pth_of root a); discriminate|]. rewrite <- He2.
    rewrite removelast_last, (pidx_pth root a Han). cbn. apply Nat.eqb_refl. }
  destruct wf_parts as (Hwl & _). pose proof (wf_leaves_no_children root a Hwl Han) as Hk.
  destruct (nkind nodes a); try reflexivity; rewrite Hk in Hchild; destruct Hchild.
Qed.

Lemma proper_ancestors_chain s : s < n -> proper_ancestors nodes chains s = nchain chains s.
Proof.
  intros Hs. unfold proper_ancestors.
  assert (H : forall a, In a (nchain chains s) -> k_state (nkind nodes a) && k_anc_tag (nkind nodes a) = true)
    by (intros a Ha; apply (chain_kinds s a Hs Ha)).
  induction (nchain chains s) as [|x l IH]; [reflexivity|]. cbn [take_while].
  rewrite (H x (or_introl eq_refl)). f_equal. apply IH. intros a Ha. apply H. right. exact Ha.
Qed.

Lemma chain_facts s : s < n ->
  (forall a, In a (nchain chains s) <-> a < n /\ spec_is_anc root a s = true) /\
  StronglySorted (fun x y => y < x) (nchain chains s) /\
  (s <> 0 -> In 0 (nchain chains s)).
Proof.
  intros Hs. destruct (chains_of_ok root) as (ch & Hch' & _ & Hnth). rewrite Hch in Hch'. inversion Hch'; subst ch.
  destruct (chain_spec root n s Hs) as (l & Hl & Hin & _ & Hsort); [pose proof (pth_length_le root s Hs); lia|].
  rewrite (Hnth s Hs) in Hl. inversion Hl; subst l. unfold nchain. split; [exact Hin|]. split; [exact Hsort|].
  intros Hne. apply Hin. pose proof (tsize_pos root). split; [lia|].
  assert (H0 : pth_of root 0 = []) by (apply pth_root_iff; lia). rewrite H0.
  destruct (pth_of root s) eqn:Hp; [apply pth_root_iff in Hp; [congruence | lia] | reflexivity].
Qed.

Lemma last_sorted_desc_zero l : StronglySorted (fun x y => y < x) l -> In 0 l -> last l 0 = 0.
Proof.
  induction l as [|x l IH]; intros Hs Hin; [reflexivity|].
  inversion Hs as [|? ? Hs' Hall]; subst. destruct l as [|y l'].
  - destruct Hin as [Hx|[]]. cbn. exact Hx.
  - change (last (x :: y :: l') 0) with (last (y :: l') 0). apply IH; [exact Hs'|].
    destruct Hin as [Hx|Hin]; [|exact Hin]. exfalso. rewrite Forall_forall in Hall. specialize (Hall y (or_introl eq_refl)). lia.
Qed.

(* findLCCA computes the Recommendation's LCCA: the deepest compound (or scxml) common proper ancestor *)
Lemma find_lcca_spec s ts ts' : s < n ->
  (forall x, In x ts <-> In x ts') -> (forall x, In x ts -> 0 < x /\ x < n) ->
  find_lcca nodes chains (s :: ts) = spec_lcca root (s :: ts').
Proof.
  intros Hs Hset Hlt. destruct wf_parts as (Hwl & _ & _).
  unfold find_lcca, spec_lcca. rewrite (proper_ancestors_chain s Hs).
  destruct (chain_facts s Hs) as (Hin & Hsort & Hzero).
  set (P := fun a => is_compound nodes a && forallb (fun x => is_desc chains x a) (s :: ts)).
  set (Q := fun c => spec_compound_or_scxml root c && forallb (fun x => spec_is_anc root c x) (s :: ts')).
  assert (Hcand : forall c, c < n ->
            forallb (fun x => is_desc chains x c) (s :: ts) = forallb (fun x => spec_is_anc root c x) (s :: ts')).
  { intros c Hc. apply forallb_set_ext.
    - intros x. cbn [In]. rewrite Hset. reflexivity.
    - intros x [<- | Hx]; [symmetry; apply (br_anc root chains Hch); assumption|].
      symmetry. apply (br_anc root chains Hch); [assumption | apply Hlt; exact Hx]. }
  assert (HQchain : forall c, c < n -> Q c = true -> In c (nchain chains s)).
  { intros c Hc Hq. unfold Q in Hq. rewrite andb_true_iff in Hq. destruct Hq as [_ Hq]. cbn [forallb] in Hq.
    rewrite andb_true_iff in Hq. apply Hin. split; [exact Hc | apply Hq]. }
  assert (HPQ : forall c, c < n -> P c = true -> Q c = true).
  { intros c Hc Hp. unfold P, Q in *. rewrite andb_true_iff in *. destruct Hp as [H1 H2].
    split; [|rewrite <- Hcand by exact Hc; exact H2].
    unfold spec_compound_or_scxml. rewrite <- (is_compound_spec root c Hwl Hc), H1. reflexivity. }
  assert (HQP : forall c, c < n -> Q c = true -> P c = true \/ c = 0).
  { intros c Hc Hq. unfold P, Q in *. rewrite andb_true_iff in Hq. destruct Hq as [H1 H2].
    unfold spec_compound_or_scxml in H1. rewrite orb_true_iff in H1. destruct H1 as [H1|H1].
    - left. rewrite (is_compound_spec root c Hwl Hc), H1, (Hcand c Hc). exact H2.
    - right. apply (wf_root_kind c Hc). rewrite <- (br_kind root c Hc). destruct (skind_of root c); try discriminate; reflexivity. }
  pose proof (find_sorted_desc P _ Hsort) as Hfind.
  pose proof (rev_filter_seq_spec Q n) as Hrev. rewrite (br_sidx root).
  fold P. fold Q.
  destruct (find P (nchain chains s)) as [a|] eqn:Hf.
  - destruct Hfind as (Ha & Hpa & Hmax). assert (Han : a < n) by (apply Hin; exact Ha).
    destruct (rev (filter Q (seq 0 n))) as [|c r].
    + specialize (Hrev a Han). rewrite (HPQ a Han Hpa) in Hrev. discriminate.
    + destruct Hrev as (Hqc & Hcn & Hnone). f_equal.
      destruct (Nat.lt_trichotomy a c) as [Hlt'|[->|Hgt]]; [|reflexivity|].
      * destruct (HQP c Hcn Hqc) as [Hpc | ->]; [|lia].
        specialize (Hmax c (HQchain c Hcn Hqc) Hpc). lia.
      * specialize (Hnone a Hgt Han). rewrite (HPQ a Han Hpa) in Hnone. discriminate.
  - destruct (nchain chains s) as [|x l] eqn:Hl.
    + (* s is the root *)
      destruct (rev (filter Q (seq 0 n))) as [|c r]; [reflexivity|].
      destruct Hrev as (Hqc & Hcn & _). apply (HQchain c Hcn) in Hqc. destruct Hqc.
    + assert (Hs0 : s <> 0).
      { intros ->. assert (Hx : In x (x :: l)) by (left; reflexivity). apply Hin in Hx. destruct Hx as [_ Hx].
        unfold spec_is_anc in Hx. change (pth root) with (pth_of root) in Hx.
        assert (H0 : pth_of root 0 = []) by (apply pth_root_iff; lia). rewrite H0 in Hx. destruct (pth_of root x); discriminate. }
      rewrite (last_sorted_desc_zero (x :: l) Hsort (Hzero Hs0)).
      assert (HQ0 : Q 0 = true).
      { unfold Q. pose proof (tsize_pos root). rewrite andb_true_iff. split.
        - unfold spec_compound_or_scxml. rewrite (br_kind root 0) by lia.
          rewrite (proj2 (wf_root_kind 0 ltac:(lia)) eq_refl). apply orb_true_r.
        - rewrite forallb_forall. intros y [<- | Hy].
          + apply Hin. apply Hzero. exact Hs0.
          + apply Hset in Hy. destruct (Hlt y Hy) as [Hy0 Hyn].
            destruct (chain_facts y Hyn) as (Hin' & _ & Hz'). apply Hin'. apply Hz'. lia. }
      destruct (rev (filter Q (seq 0 n))) as [|c r].
      * pose proof (tsize_pos root). specialize (Hrev 0 ltac:(lia)). congruence.
      * destruct Hrev as (Hqc & Hcn & Hnone). f_equal.
        destruct (HQP c Hcn Hqc) as [Hpc | ->]; [|reflexivity].
        specialize (Hfind c (HQchain c Hcn Hqc)). congruence.
Qed.

End Domain.

Lemma map_snd_filter_tag {A} (f : A -> bool) (g : nat -> A) l :
  map snd (filter (fun p : A * nat => f (fst p)) (map (fun j => (g j, j)) l)) = filter (fun j => f (g j)) l.
Proof.
  induction l as [|x l IH]; [reflexivity|]. cbn [map filter fst]. destruct (f (g x)); cbn [map snd]; rewrite IH; reflexivity.
Qed.

Lemma filter_seq_head_min (f : nat -> bool) : forall m d x r,
  filter f (seq d m) = x :: r -> d <= x /\ forall y, In y r -> x < y.
Proof.
  induction m as [|m IH]; intros d x r H; [discriminate|]. cbn [seq filter] in H. destruct (f d).
  - inversion H; subst. split; [lia|]. intros y Hy. apply filter_In in Hy. destruct Hy as [Hy _]. apply in_seq in Hy. lia.
  - destruct (IH _ _ _ H) as [H1 H2]. split; [lia | exact H2].
Qed.

Section DomainExit.
Variable root : tree.
Local Notation n := (tsize root).
Local Notation nodes := (nodes_of root).
Variable chains : list (list nat).
Hypothesis Hch : chains_of nodes = Some chains.
Hypothesis Hwf : wf_doc root = true.

Lemma source_state_lt e : e < n -> source_state nodes e < n.
Proof.
  intros He. unfold source_state. destruct (nkind nodes e); try exact He.
  destruct (npar nodes e) as [p|] eqn:Hp; [|exact He]. pose proof (br_npar_lt root e p He Hp). lia.
Qed.

(* getTransitionDomain computes the Recommendation's transition domain *)
Lemma impl_domain_spec e t : e < n -> impl_domain nodes chains e t = spec_domain root e t.
Proof.
  intros He. unfold impl_domain, spec_domain.
  pose proof (target_states_set root Hwf t) as Hset.
  pose proof (target_states_lt root Hwf t) as Hlt.
  rewrite <- (source_state_spec root e He).
  pose proof (source_state_lt e He) as Hs. set (s := source_state nodes e) in *.
  destruct (wf_parts root Hwf) as (Hwl & _ & _).
  assert (Hcond : forallb (fun x => is_desc chains x s) (target_states nodes t) =
                  forallb (fun x => spec_is_anc root s x) (spec_targets root t)).
  { apply forallb_set_ext; [exact Hset|]. intros x Hx. symmetry. apply (br_anc root chains Hch); [exact Hs | apply Hlt; exact Hx]. }
  destruct (target_states nodes t) as [|x ts] eqn:Hts; destruct (spec_targets root t) as [|y ts'] eqn:Hts'.
  - reflexivity.
  - exfalso. apply (proj2 (Hset y)). left. reflexivity.
  - exfalso. apply (proj1 (Hset x)). left. reflexivity.
  - rewrite Hcond, (is_compound_spec root s Hwl Hs).
    destruct (tt_internal t && spec_compound root s && forallb (fun x0 => spec_is_anc root s x0) (y :: ts')); [reflexivity|].
    apply (find_lcca_spec root chains Hch Hwf s (x :: ts) (y :: ts') Hs Hset Hlt).
Qed.

(* the kinds in the sub-tree below d, as listed by inDocumentOrder from d, are the kinds of the
   global nodes d .. d + size d - 1 *)
Lemma subtree_indices_spec d : d < n ->
  subtree_indices nodes d = map (fun j => (nkind nodes j, j)) (seq d (tsize (ntree nodes d))).
Proof.
  intros Hd. unfold subtree_indices.
  destruct (proj1 (In_paths_iff root _) (pth_in root d Hd)) as [u Hu].
  assert (Hnt : ntree nodes d = u) by (rewrite (ntree_nodes root d Hd); unfold subd; rewrite Hu; reflexivity).
  rewrite Hnt.
  rewrite <- (map_nth_seq' (combine _ (seq d (tsize u))) (KState, 0)).
  rewrite combine_length, map_length, doc_nodes_length, seq_length, Nat.min_id.
  set (C := combine _ (seq d (tsize u))). rewrite <- (seq_shift' d (tsize u)). subst C.
  rewrite map_map. apply map_ext_in. intros k Hk. apply in_seq in Hk.
  rewrite combine_nth by (rewrite map_length, doc_nodes_length, seq_length; reflexivity).
  rewrite seq_nth by lia.
  rewrite (map_nth' _ KState (dummy_tree, None)) by (rewrite doc_nodes_length; lia).
  f_equal.
  change (nth k (doc_nodes u d None) (dummy_tree, None)) with (nd (doc_nodes u d None) k).
  (* the k-th node of u's own numbering is the global node d + k *)
  destruct (pth_shift root d u k Hd Hu ltac:(lia)) as [Hdk Hp].
  unfold nkind. rewrite (ntree_nodes root (d + k) Hdk), Hp. unfold subd. rewrite (sub_app _ _ _ _ Hu).
  pose proof (doc_nodes_paths u d None) as Hdp. unfold nd. rewrite Hdp.
  rewrite (map_nth' _ _ []) by (rewrite paths_length; lia). cbn [fst]. reflexivity.
Qed.

(* getExitSet: the proper states strictly below the transition domain *)
Lemma impl_exit_spec e t j : e < n -> j < n ->
  mem j (impl_exit_list nodes chains e t) = mem j (spec_exit root e t).
Proof.
  intros He Hj. unfold impl_exit_list, spec_exit. rewrite <- (impl_domain_spec e t He).
  destruct (tt_targets t) as [ids|] eqn:Htg.
  2:{ unfold impl_domain, target_states. rewrite Htg. reflexivity. }
  destruct (impl_domain nodes chains e t) as [d|] eqn:Hd; [|reflexivity].
  assert (Hdn : d < n).
  { rewrite (impl_domain_spec e t He) in Hd. unfold spec_domain in Hd.
    destruct (spec_targets root t) as [|y ts']; [discriminate|].
    destruct (_ && _ && _).
    - inversion Hd. rewrite <- (source_state_spec root e He). apply source_state_lt. exact He.
    - unfold spec_lcca in Hd. pose proof (rev_filter_seq_spec
        (fun c => spec_compound_or_scxml root c && forallb (fun s => spec_is_anc root c s) (spec_source_state root e :: y :: ts')) n) as Hr.
      rewrite (br_sidx root) in Hd. destruct (rev _) as [|c r]; [discriminate|]. inversion Hd; subst. apply Hr. }
  rewrite (subtree_indices_spec d Hdn).
  destruct (proj1 (In_paths_iff root _) (pth_in root d Hdn)) as [u Hu].
  assert (Hnt : ntree nodes d = u) by (rewrite (ntree_nodes root d Hdn); unfold subd; rewrite Hu; reflexivity).
  rewrite Hnt.
  rewrite map_snd_filter_tag.
  set (L := filter (fun j0 => k_exitable (nkind nodes j0)) (seq d (tsize u))).
  assert (HL : forall x, In x L <-> d <= x < d + tsize u /\ k_exitable (nkind nodes x) = true).
  { intros x. unfold L. rewrite filter_In, in_seq. tauto. }
  assert (Hnd : NoDup L) by (apply NoDup_filter, seq_NoDup).
  assert (Hres : forall R, R = match L with x :: r => if x =? d then r else L | [] => [] end ->
            (In j R <-> d < j < d + tsize u /\ k_exitable (nkind nodes j) = true)).
  { intros R ->. destruct L as [|x r] eqn:HLx.
    - split; [intros [] | intros [Hr Hk]]. apply (proj2 (HL j)). split; [lia | exact Hk].
    - destruct (filter_seq_head_min _ _ _ _ _ HLx) as [Hdx Hmin].
      apply NoDup_cons_iff in Hnd. destruct Hnd as [Hxr Hnd'].
      destruct (x =? d) eqn:Hxd.
      + apply Nat.eqb_eq in Hxd. subst x. split.
        * intros Hin. assert (Hin' : In j (d :: r)) by (right; exact Hin). apply HL in Hin'.
          destruct (Nat.eq_dec j d) as [->|]; [contradiction|]. split; [lia | apply Hin'].
        * intros [Hr Hk]. assert (Hin' : In j (d :: r)) by (apply HL; split; [lia | exact Hk]).
          destruct Hin' as [<-|Hin']; [lia | exact Hin'].
      + apply Nat.eqb_neq in Hxd. rewrite HL. split; [|intros [Hr Hk]; split; [lia | exact Hk]].
        intros [Hr Hk]. split; [|exact Hk]. destruct (Nat.eq_dec j d) as [->|]; [|lia]. exfalso.
        assert (Hind : In d (x :: r)) by (apply HL; split; [pose proof (tsize_pos u); lia | exact Hk]).
        destruct Hind as [->|Hind]; [congruence|]. specialize (Hmin d Hind). lia. }
  apply bool_eq_iff. rewrite !mem_In. rewrite (Hres _ eq_refl).
  rewrite filter_In, (br_sidx root), in_seq, andb_true_iff.
  pose proof (prefix_interval root d j Hdn Hj) as Hint. unfold subd in Hint. rewrite Hu in Hint.
  unfold spec_is_anc. change (pth root) with (pth_of root). rewrite Hint.
  unfold spec_proper. rewrite (br_kind root j Hj).
  assert (Hkk : d < j -> (k_exitable (nkind nodes j) = true <-> is_proper_kind (nkind nodes j) = true)).
  { intros Hlt. pose proof (wf_root_kind root Hwf j Hj) as Hrk.
    destruct (nkind nodes j) eqn:Hk; cbn; try tauto. split; [reflexivity|]. intros _. exfalso.
    assert (j = 0) by (apply Hrk; reflexivity). lia. }
  split.
  - intros [[H1 H2] Hk]. split; [lia|]. split; [split; assumption | apply Hkk; assumption].
  - intros (_ & [H1 H2] & Hk). split; [split; assumption | apply Hkk; assumption].
Qed.

End DomainExit.

(* ------------------------------------------------------------------ top level: transitions *)

Lemma combine_map_l {A B} (f : A -> B) l : combine l (map f l) = map (fun x => (x, f x)) l.
Proof. induction l as [|x l IH]; [reflexivity|]. cbn. rewrite IH. reflexivity. Qed.

Lemma combine_map_map {A B C} (f : A -> B) (g : A -> C) l : combine (map f l) (map g l) = map (fun x => (f x, g x)) l.
Proof. induction l as [|x l IH]; [reflexivity|]. cbn. rewrite IH. reflexivity. Qed.

Lemma combine3_map {A B C} (f : A -> B) (g : A -> C) l :
  combine (combine l (map f l)) (map g l) = map (fun x => (x, f x, g x)) l.
Proof. induction l as [|x l IH]; [reflexivity|]. cbn. rewrite IH. reflexivity. Qed.

Definition impl_ttab (root : tree) (chains : list (list nat)) (trs : list (nat * nat * ttrans)) (x : nat * nat * ttrans) : ttab :=
  let nodes := nodes_of root in
  let elem := fst (fst x) in
  let t := snd x in
  let ex := impl_exit_list nodes chains elem t in
  let src := source_state nodes elem in
  {| tb_vid := tt_vid t;
     tb_doc := index_of2 (elem, snd (fst x)) (trans_docorder root 0) 0;
     tb_source := elem;
     tb_srcstate := src;
     tb_target := impl_target_bools nodes t;
     tb_domain := impl_domain nodes chains elem t;
     tb_exit := bools_of nodes ex;
     tb_confl := map (fun y => intersects ex (impl_exit_list nodes chains (fst (fst y)) (snd y)) ||
                               (src =? source_state nodes (fst (fst y))) ||
                               is_desc chains src (source_state nodes (fst (fst y))) ||
                               is_desc chains (source_state nodes (fst (fst y))) src) trs |}.

Definition spec_ttab (root : tree) (trs : list (nat * nat * ttrans)) (x : nat * nat * ttrans) : ttab :=
  let e := fst (fst x) in
  let t := snd x in
  let ex := spec_exit root e t in
  {| tb_vid := tt_vid t;
     tb_doc := index_of2 (e, snd (fst x)) (trans_docorder root 0) 0;
     tb_source := e;
     tb_srcstate := spec_source_state root e;
     tb_target := match tt_targets t with
                  | Some _ => Some (set_bools root (fun j => mem j (spec_targets root t)))
                  | None => None
                  end;
     tb_domain := spec_domain root e t;
     tb_exit := set_bools root (fun j => mem j ex);
     tb_confl := map (fun y => intersects ex (spec_exit root (fst (fst y)) (snd y))) trs |}.

Lemma Impl_tables_closed v t0 :
  let root := resort t0 in
  exists chains, chains_of (nodes_of root) = Some chains /\
    Impl_tables v t0 = Ok {| tbl_states := map (impl_stab (nodes_of root) chains (impl_hist_results (nodes_of root) chains v root)) (seq 0 (tsize root));
                           tbl_trans := map (impl_ttab root chains (postfix_trans (nodes_of root) root)) (postfix_trans (nodes_of root) root) |}.
Proof.
  intros root. unfold Impl_tables. fold root.
  destruct (chains_of_ok root) as (chains & Hch & _). exists chains. split; [exact Hch|].
  unfold nodes_of in *. rewrite Hch. f_equal. f_equal; [rewrite doc_nodes_length; reflexivity|].
  set (trs := postfix_trans (doc_nodes root 0 None) root).
  set (F := fun x : nat * nat * ttrans => impl_exit_list (doc_nodes root 0 None) chains (fst (fst x)) (snd x)).
  set (G := fun x : nat * nat * ttrans => source_state (doc_nodes root 0 None) (fst (fst x))).
  rewrite (combine3_map F G trs), (combine_map_map F G trs), map_map. apply map_ext. intros x.
  unfold impl_ttab, nodes_of. cbn [fst snd]. f_equal. rewrite map_map. reflexivity.
Qed.

Lemma Spec_tables_closed t0 :
  let root := resort t0 in
  Spec_tables t0 = {| tbl_states := map (spec_stab root) (sidx root);
                      tbl_trans := map (spec_ttab root (spec_postfix_trans root)) (spec_postfix_trans root) |}.
Proof.
  intros root. unfold Spec_tables, Spec_tables_of. fold root. f_equal.
  set (trs := spec_postfix_trans root).
  set (F := fun x : nat * nat * ttrans => spec_exit root (fst (fst x)) (snd x)).
  rewrite (combine_map_l F trs), map_map. apply map_ext. intros x. cbn [fst snd]. unfold spec_ttab. f_equal.
  rewrite map_map. reflexivity.
Qed.

Lemma impl_trans_field {A} (f : ttab -> A) (wf : tree -> Prop) :
  (forall root chains x, chains_of (nodes_of root) = Some chains -> wf root ->
     In x (postfix_trans (nodes_of root) root) ->
     f (impl_ttab root chains (postfix_trans (nodes_of root) root) x) = f (spec_ttab root (postfix_trans (nodes_of root) root) x)) ->
  forall v t0, wf (resort t0) -> exists tb, Impl_tables v t0 = Ok tb /\
    map f (tbl_trans tb) = map f (tbl_trans (Spec_tables t0)).
Proof.
  intros Hf v t0 Hwf. destruct (Impl_tables_closed v t0) as (chains & Hch & Himpl). rewrite Himpl.
  eexists. split; [reflexivity|]. rewrite Spec_tables_closed. cbn [tbl_trans].
  rewrite <- (postfix_trans_spec (resort t0)). rewrite !map_map. apply map_ext_in. intros x Hx.
  apply Hf; assumption.
Qed.

Lemma impl_postfix_lemma : forall v t0, exists tb, Impl_tables v t0 = Ok tb /\
  map (fun t => (tb_source t, tb_vid t, tb_doc t)) (tbl_trans tb) =
  map (fun t => (tb_source t, tb_vid t, tb_doc t)) (tbl_trans (Spec_tables t0)).
Proof.
  intros v t0. apply (impl_trans_field _ (fun _ => True)); [|exact I]. intros. reflexivity.
Qed.

Lemma impl_srcstate_lemma : forall v t0, exists tb, Impl_tables v t0 = Ok tb /\
  map tb_srcstate (tbl_trans tb) = map tb_srcstate (tbl_trans (Spec_tables t0)).
Proof.
  intros v t0. apply (impl_trans_field _ (fun _ => True)); [|exact I]. intros root chains x Hch _ Hx.
  cbn [impl_ttab spec_ttab tb_srcstate]. apply source_state_spec. apply postfix_trans_source_lt. exact Hx.
Qed.

Lemma impl_targets_correct_lemma : forall v t0, exists tb, Impl_tables v t0 = Ok tb /\
  map tb_target (tbl_trans tb) = map tb_target (tbl_trans (Spec_tables t0)).
Proof.
  intros v t0. apply (impl_trans_field _ (fun _ => True)); [|exact I]. intros root chains x Hch _ Hx.
  cbn [impl_ttab spec_ttab tb_target]. apply target_bools_spec.
Qed.

Lemma impl_domain_is_lcca_lemma : forall v t0, wf_doc (resort t0) = true -> exists tb, Impl_tables v t0 = Ok tb /\
  map tb_domain (tbl_trans tb) = map tb_domain (tbl_trans (Spec_tables t0)).
Proof.
  intros v t0. apply (impl_trans_field _ (fun r => wf_doc r = true)). intros root chains x Hch Hwf Hx.
  cbn [impl_ttab spec_ttab tb_domain]. apply impl_domain_spec; [assumption | assumption | apply postfix_trans_source_lt; exact Hx].
Qed.

Lemma impl_exit_set_correct_lemma : forall v t0, wf_doc (resort t0) = true -> exists tb, Impl_tables v t0 = Ok tb /\
  map tb_exit (tbl_trans tb) = map tb_exit (tbl_trans (Spec_tables t0)).
Proof.
  intros v t0. apply (impl_trans_field _ (fun r => wf_doc r = true)). intros root chains x Hch Hwf Hx.
  cbn [impl_ttab spec_ttab tb_exit]. unfold bools_of, set_bools. rewrite (br_idx root), (br_sidx root).
  apply map_ext_in. intros j Hj. apply in_seq in Hj.
  apply impl_exit_spec; [assumption | assumption | apply postfix_trans_source_lt; exact Hx | lia].
Qed.

Lemma intersects_ext a a' b b' m :
  (forall j, j < m -> mem j a = mem j a') -> (forall j, j < m -> mem j b = mem j b') ->
  (forall j, In j a -> j < m) -> (forall j, In j a' -> j < m) ->
  intersects a b = intersects a' b'.
Proof.
  intros Ha Hb Hla Hla'. apply bool_eq_iff. unfold intersects. rewrite !existsb_exists. split.
  - intros (x & Hx & Hm). exists x. split.
    + apply mem_In. rewrite <- Ha by (apply Hla; exact Hx). apply mem_In. exact Hx.
    + rewrite <- Hb by (apply Hla; exact Hx). exact Hm.
  - intros (x & Hx & Hm). exists x. split.
    + apply mem_In. rewrite Ha by (apply Hla'; exact Hx). apply mem_In. exact Hx.
    + rewrite Hb by (apply Hla'; exact Hx). exact Hm.
Qed.

Section Conflicts.
Variable root : tree.
Local Notation n := (tsize root).
Local Notation nodes := (nodes_of root).
Variable chains : list (list nat).
Hypothesis Hch : chains_of nodes = Some chains.
Hypothesis Hwf : wf_doc root = true.

Lemma impl_exit_in_range e t j : e < n -> In j (impl_exit_list nodes chains e t) -> j < n.
Proof.
  intros He Hin. destruct (Nat.lt_ge_cases j n) as [|Hge]; [assumption|]. exfalso.
  unfold impl_exit_list in Hin. destruct (tt_targets t); [|destruct Hin].
  destruct (impl_domain nodes chains e t) as [d|] eqn:Hd; [|destruct Hin].
  assert (Hsub : forall x, In x (map snd (filter (fun p : skind * nat => k_exitable (fst p)) (subtree_indices nodes d))) -> x < d + tsize (ntree nodes d)).
  { intros x Hx. apply in_map_iff in Hx. destruct Hx as ((k & x') & Hx' & Hf). cbn in Hx'. subst x'.
    apply filter_In in Hf. destruct Hf as [Hf _]. unfold subtree_indices in Hf. apply in_combine_r in Hf. apply in_seq in Hf. lia. }
  assert (Hdn : d < n /\ d + tsize (ntree nodes d) <= n).
  { assert (Hdn : d < n).
    { rewrite (impl_domain_spec root chains Hch Hwf e t He) in Hd. unfold spec_domain in Hd.
      destruct (spec_targets root t) as [|y ts']; [discriminate|].
      destruct (_ && _ && _).
      - inversion Hd. rewrite <- (source_state_spec root e He). apply source_state_lt. exact He.
      - unfold spec_lcca in Hd. pose proof (rev_filter_seq_spec
          (fun c => spec_compound_or_scxml root c && forallb (fun s => spec_is_anc root c s) (spec_source_state root e :: y :: ts')) n) as Hr.
        rewrite (br_sidx root) in Hd. destruct (rev _) as [|c r]; [discriminate|]. inversion Hd; subst. apply Hr. }
    split; [exact Hdn|].
    destruct (proj1 (In_paths_iff root _) (pth_in root d Hdn)) as [u Hu].
    rewrite (ntree_nodes root d Hdn). unfold subd. rewrite Hu.
    pose proof (pidx_block_within _ _ _ _ _ (pidx_pth root d Hdn) Hu). lia. }
  destruct (map snd _) as [|x r] eqn:HL; [destruct Hin|].
  assert (Hj : In j (x :: r)) by (destruct (x =? d); [right; exact Hin | exact Hin]).
  specialize (Hsub j Hj). lia.
Qed.

Definition spec_related (x y : nat * nat * ttrans) : bool :=
  let sx := spec_source_state root (fst (fst x)) in
  let sy := spec_source_state root (fst (fst y)) in
  (sx =? sy) || spec_is_anc root sy sx || spec_is_anc root sx sy.

(* conflictBools = exit sets intersect, or the source states are equal or in ancestor relation *)
Lemma impl_confl_bit x y : fst (fst x) < n -> fst (fst y) < n ->
  intersects (impl_exit_list nodes chains (fst (fst x)) (snd x)) (impl_exit_list nodes chains (fst (fst y)) (snd y)) ||
  (source_state nodes (fst (fst x)) =? source_state nodes (fst (fst y))) ||
  is_desc chains (source_state nodes (fst (fst x))) (source_state nodes (fst (fst y))) ||
  is_desc chains (source_state nodes (fst (fst y))) (source_state nodes (fst (fst x))) =
  intersects (spec_exit root (fst (fst x)) (snd x)) (spec_exit root (fst (fst y)) (snd y)) || spec_related x y.
Proof.
  intros Hx Hy. unfold spec_related.
  rewrite <- !(source_state_spec root) by assumption.
  pose proof (source_state_lt root (fst (fst x)) Hx) as Hsx. pose proof (source_state_lt root (fst (fst y)) Hy) as Hsy.
  rewrite !(br_anc root chains Hch) by assumption.
  rewrite (intersects_ext _ (spec_exit root (fst (fst x)) (snd x)) _ (spec_exit root (fst (fst y)) (snd y)) n).
  - rewrite <- !orb_assoc. reflexivity.
  - intros j Hj. apply impl_exit_spec; assumption.
  - intros j Hj. apply impl_exit_spec; assumption.
  - intros j Hj. apply (impl_exit_in_range (fst (fst x)) (snd x) j Hx Hj).
  - intros j Hj. unfold spec_exit in Hj. destruct (spec_domain root _ _); [|destruct Hj].
    apply filter_In in Hj. destruct Hj as [Hj _]. rewrite (br_sidx root) in Hj. apply in_seq in Hj. lia.
Qed.

End Conflicts.

Lemma impl_conflicts_correct_lemma : forall v t0, wf_doc (resort t0) = true -> exists tb, Impl_tables v t0 = Ok tb /\
  let root := resort t0 in
  let trs := spec_postfix_trans root in
  map tb_confl (tbl_trans tb) =
  map (fun x => map (fun y => intersects (spec_exit root (fst (fst x)) (snd x)) (spec_exit root (fst (fst y)) (snd y)) ||
                              spec_related root x y) trs) trs /\
  map tb_confl (tbl_trans (Spec_tables t0)) =
  map (fun x => map (fun y => intersects (spec_exit root (fst (fst x)) (snd x)) (spec_exit root (fst (fst y)) (snd y))) trs) trs.
Proof.
  intros v t0 Hwf. destruct (Impl_tables_closed v t0) as (chains & Hch & Himpl). rewrite Himpl.
  eexists. split; [reflexivity|]. cbn zeta. rewrite Spec_tables_closed. cbn [tbl_trans].
  rewrite <- (postfix_trans_spec (resort t0)). rewrite !map_map. split.
  - apply map_ext_in. intros x Hx. cbn [impl_ttab tb_confl]. apply map_ext_in. intros y Hy.
    apply impl_confl_bit; try assumption; apply postfix_trans_source_lt; assumption.
  - apply map_ext. intros x. reflexivity.
Qed.

(* ------------------------------------------------------------------ default completion (states that are no <history>) *)

Section Completion.
Variable root : tree.
Local Notation n := (tsize root).
Local Notation nodes := (nodes_of root).
Hypothesis Hwf : wf_doc root = true.

Lemma initial_children_spec i : i < n ->
  filter (fun j => eqb_opt (npar nodes j) (Some i) && match nkind nodes j with KInitial => true | _ => false end) (idx nodes) =
  filter (fun j => match skind_of root j with KInitial => true | _ => false end) (spec_children root i).
Proof.
  intros Hi. unfold spec_children. rewrite filter_filter, (br_idx root), (br_sidx root).
  apply filter_ext_in'. intros j Hj. apply in_seq in Hj. unfold spec_is_child.
  rewrite (br_parent root j), (br_kind root j) by lia. reflexivity.
Qed.

Lemma completion_state_spec i : i < n -> is_history nodes i = false ->
  forall j, mem j (impl_completion_state nodes i) = mem j (spec_completion root i).
Proof.
  intros Hi Hh j. unfold impl_completion_state, spec_completion, is_parallel.
  unfold is_history in Hh. rewrite (br_kind root i Hi), (br_snode root i Hi).
  rewrite (child_states_spec root i Hi), (initial_children_spec i Hi).
  assert (Hattr : forall ids, mem j (filter_map (get_state nodes) ids) =
            mem j (filter (fun j0 => has_id (skind_of root j0) && existsb (fun id => (t_sid (snode root j0) =? id)%N) ids) (sidx root))).
  { intros ids. apply bool_eq_iff. rewrite !mem_In.
    pose proof (target_states_set root Hwf (mkt 0 None (Some ids) false) j) as H.
    unfold target_states, spec_targets in H. cbn [mkt tt_targets] in H. exact H. }
  destruct (nkind nodes i) eqn:Hk; cbn [is_hist_kind] in Hh; try discriminate; try reflexivity;
    (destruct (t_initattr (ntree nodes i)) as [ids|]; [apply Hattr | reflexivity]).
Qed.

End Completion.

Lemma impl_completion_correct_lemma : forall v t0, wf_doc (resort t0) = true -> exists tb, Impl_tables v t0 = Ok tb /\
  forall i, i < length (tbl_states tb) -> is_hist_kind (sb_kind (nth i (tbl_states tb) (spec_stab (resort t0) 0))) = false ->
    sb_compl (nth i (tbl_states tb) (spec_stab (resort t0) 0)) =
    sb_compl (nth i (tbl_states (Spec_tables t0)) (spec_stab (resort t0) 0)).
Proof.
  intros v t0 Hwf. destruct (Impl_tables_closed v t0) as (chains & Hch & Himpl). rewrite Himpl.
  eexists. split; [reflexivity|]. rewrite Spec_tables_closed. cbn [tbl_states].
  set (root := resort t0) in *. intros i Hi Hk. rewrite map_length, seq_length in Hi.
  set (d := spec_stab root 0) in *.
  rewrite (nth_indep _ d (impl_stab (nodes_of root) chains (impl_hist_results (nodes_of root) chains v root) 0)) in Hk |- *
    by (rewrite map_length, seq_length; exact Hi).
  rewrite map_nth, seq_nth in Hk |- * by exact Hi. cbn [Nat.add] in *.
  rewrite (br_sidx root). unfold d. rewrite map_nth, seq_nth by exact Hi. cbn [Nat.add].
  cbn [impl_stab spec_stab sb_compl sb_kind] in *.
  assert (Hh : is_history (nodes_of root) i = false) by exact Hk. rewrite Hh.
  unfold bools_of, set_bools. rewrite (br_idx root), (br_sidx root). apply map_ext. intros j.
  apply completion_state_spec; assumption.
Qed.

(* ------------------------------------------------------------------ history completion, repaired variant *)

Section HistoryFixed.
Variable root : tree.
Local Notation n := (tsize root).
Local Notation nodes := (nodes_of root).
Variable chains : list (list nat).
Hypothesis Hch : chains_of nodes = Some chains.

Definition hist_entry_fixed (h : nat) : nat * list nat * bool :=
  let p := npar nodes h in
  let under_parent (x : nat) : bool := match p with Some pp => is_desc chains x pp | None => false end in
  (h,
   filter (fun x => negb (x =? h) && true &&
                    (if is_deep nodes h then under_parent x && negb (is_history nodes x)
                     else eqb_opt (npar nodes x) p && negb (is_history nodes x))) (idx nodes),
   existsb (fun x => negb (x =? h) && under_parent x && is_history nodes x) (idx nodes)).

Lemma fold_hist_fixed l : forall s,
  hs_out (fold_left (hist_step nodes chains tv_fixed) l s) = hs_out s ++ map hist_entry_fixed l.
Proof.
  induction l as [|h l IH]; intros s; cbn [fold_left map]; [rewrite app_nil_r; reflexivity|].
  rewrite IH. unfold hist_step. cbn [tv_history_covered tv_fixed andb negb].
  destruct (eqb_opt (hs_parent s) (npar nodes h)); cbn [hs_out]; rewrite <- app_assoc; reflexivity.
Qed.

Lemma In_postfix_states i : i < n -> In i (postfix_states root 0).
Proof.
  intros Hi. assert (Hin : In (Some i) (map Some (postfix_states root 0))).
  { rewrite <- paths_post_idx. rewrite <- (pidx_pth root i Hi). apply in_map.
    apply In_paths_post_iff. apply In_paths_iff. apply pth_in. exact Hi. }
  apply in_map_iff in Hin. destruct Hin as (x & Hx & Hin). inversion Hx; subst. exact Hin.
Qed.

Lemma hist_result_fixed h : h < n -> is_history nodes h = true ->
  hist_result (impl_hist_results nodes chains tv_fixed root) h = (snd (fst (hist_entry_fixed h)), snd (hist_entry_fixed h)).
Proof.
  intros Hh Hk. unfold impl_hist_results. rewrite fold_hist_fixed. cbn [hs_out app].
  assert (Hin : In h (histories_postfix nodes root)).
  { unfold histories_postfix. apply filter_In. split; [apply In_postfix_states; exact Hh | exact Hk]. }
  unfold hist_result. induction (histories_postfix nodes root) as [|x l IH]; [destruct Hin|].
  cbn [map find]. destruct (fst (fst (hist_entry_fixed x)) =? h) eqn:He.
  - cbn [hist_entry_fixed fst] in He. apply Nat.eqb_eq in He. subst x. reflexivity.
  - apply IH. destruct Hin as [->|Hin]; [|exact Hin]. cbn [hist_entry_fixed fst] in He. rewrite Nat.eqb_refl in He. discriminate.
Qed.

(* the repaired setHistoryCompletion: on proper states, the completion of a <history> is the set of
   child states (shallow) / descendant states (deep) of its parent *)
Lemma hist_completion_fixed h j : h < n -> j < n -> is_history nodes h = true ->
  mem j (fst (hist_result (impl_hist_results nodes chains tv_fixed root) h)) && is_proper_kind (nkind nodes j) =
  mem j (spec_completion root h).
Proof.
  intros Hh Hj Hk. rewrite (hist_result_fixed h Hh Hk). cbn [hist_entry_fixed fst snd].
  rewrite (br_idx root), mem_filter_seq by (apply in_seq; lia).
  unfold spec_completion. rewrite (br_kind root h Hh), (br_parent root h Hh).
  unfold is_history, is_deep in *.
  assert (Hprop : is_proper_kind (nkind nodes j) = true -> is_hist_kind (nkind nodes j) = false)
    by (destruct (nkind nodes j); cbn; congruence).
  assert (Hjh : is_proper_kind (nkind nodes j) = true -> (j =? h) = false).
  { intros Hp. apply Nat.eqb_neq. intros ->. rewrite (Hprop Hp) in Hk. discriminate. }
  destruct (nkind nodes h) eqn:Hkh; cbn [is_hist_kind] in Hk; try discriminate.
  - (* shallow *)
    destruct (npar nodes h) as [p|] eqn:Hp.
    + assert (Hpn : p < n) by (pose proof (br_npar_lt root h p Hh Hp); lia).
      unfold spec_proper_children, spec_children. rewrite filter_filter, (br_sidx root), mem_filter_seq by (apply in_seq; lia).
      unfold spec_is_child, spec_proper. rewrite (br_parent root j Hj), (br_kind root j Hj).
      destruct (is_proper_kind (nkind nodes j)) eqn:Hpk; [|rewrite !andb_false_r; reflexivity].
      rewrite (Hprop eq_refl), (Hjh eq_refl). cbn. rewrite !andb_true_r. reflexivity.
    + destruct (is_proper_kind (nkind nodes j)) eqn:Hpk; [|rewrite andb_false_r; reflexivity].
      rewrite (Hjh eq_refl). cbn. rewrite andb_true_r.
      destruct (npar nodes j) eqn:Hpj; cbn; [reflexivity|]. exfalso.
      (* only the root has no parent; the root is h itself *)
      assert (j = 0).
      { apply (pth_root_iff root j Hj). rewrite (npar_nodes root j Hj) in Hpj. unfold ppar in Hpj.
        destruct (pth_of root j) eqn:Hpp; [reflexivity|]. exfalso.
        destruct (npar_some root j Hj) as (q & Hq & _); [rewrite Hpp; discriminate|].
        rewrite (npar_nodes root j Hj) in Hq. unfold ppar in Hq. rewrite Hpp in Hq. congruence. }
      assert (h = 0).
      { apply (pth_root_iff root h Hh). rewrite (npar_nodes root h Hh) in Hp. unfold ppar in Hp.
        destruct (pth_of root h) eqn:Hpp; [reflexivity|]. exfalso.
        destruct (npar_some root h Hh) as (q & Hq & _); [rewrite Hpp; discriminate|].
        rewrite (npar_nodes root h Hh) in Hq. unfold ppar in Hq. rewrite Hpp in Hq. congruence. }
      subst. rewrite Nat.eqb_refl in Hjh. discriminate Hjh. reflexivity.
  - (* deep *)
    destruct (npar nodes h) as [p|] eqn:Hp.
    + assert (Hpn : p < n) by (pose proof (br_npar_lt root h p Hh Hp); lia).
      rewrite (br_sidx root), mem_filter_seq by (apply in_seq; lia).
      unfold spec_proper. rewrite (br_kind root j Hj), (br_anc root chains Hch p j Hpn Hj).
      destruct (is_proper_kind (nkind nodes j)) eqn:Hpk; [|rewrite !andb_false_r; reflexivity].
      rewrite (Hprop eq_refl), (Hjh eq_refl). cbn. rewrite !andb_true_r. reflexivity.
    + cbn. rewrite !andb_false_r. reflexivity.
Qed.

End HistoryFixed.

Lemma impl_history_completion_fixed_lemma : forall t0, wf_doc (resort t0) = true ->
  exists tb, Impl_tables tv_fixed t0 = Ok tb /\ mask_hist_rows tb = compl_rows (Spec_tables t0).
Proof.
  intros t0 Hwf. destruct (Impl_tables_closed tv_fixed t0) as (chains & Hch & Himpl). rewrite Himpl.
  eexists. split; [reflexivity|]. rewrite Spec_tables_closed. unfold mask_hist_rows, compl_rows. cbn [tbl_states].
  set (root := resort t0) in *. rewrite (br_sidx root), !map_map. apply map_ext_in. intros i Hi. apply in_seq in Hi.
  cbn [impl_stab spec_stab sb_kind sb_compl].
  change (is_hist_kind (t_kind (ntree (nodes_of root) i))) with (is_history (nodes_of root) i).
  destruct (is_history (nodes_of root) i) eqn:Hk.
  - unfold bools_of, set_bools. rewrite (br_idx root), (br_sidx root).
    rewrite (combine_map_map (fun j => mem j (fst (hist_result (impl_hist_results (nodes_of root) chains tv_fixed root) i)))
                             (impl_stab (nodes_of root) chains (impl_hist_results (nodes_of root) chains tv_fixed root)) (seq 0 (tsize root))).
    rewrite map_map. apply map_ext_in. intros j Hj. apply in_seq in Hj. cbn [fst snd impl_stab sb_kind].
    apply hist_completion_fixed; try assumption; lia.
  - unfold bools_of, set_bools. rewrite (br_idx root), (br_sidx root). apply map_ext. intros j.
    apply completion_state_spec; [assumption | lia | assumption].
Qed.

(* ------------------------------------------------------------------ the two conflict relations on transitions with targets *)

Lemma proper_prefix_trans a b c : proper_prefix a b = true -> proper_prefix b c = true -> proper_prefix a c = true.
Proof.
  rewrite !proper_prefix_spec. intros (r1 & H1 & ->) (r2 & H2 & ->).
  exists (r1 ++ r2). split; [destruct r1; [congruence | discriminate] | rewrite app_assoc; reflexivity].
Qed.

Section ConflictsTargeted.
Variable root : tree.
Local Notation n := (tsize root).
Local Notation nodes := (nodes_of root).
Hypothesis Hwf : wf_doc root = true.

Lemma spec_anc_trans a b c : spec_is_anc root a b = true -> spec_is_anc root b c = true -> spec_is_anc root a c = true.
Proof. unfold spec_is_anc. apply proper_prefix_trans. Qed.

Lemma spec_child_anc s c : c < n -> spec_is_child root s c = true -> s < n /\ spec_is_anc root s c = true.
Proof.
  intros Hc Hch. unfold spec_is_child in Hch. rewrite (br_parent root c Hc) in Hch.
  destruct (npar nodes c) as [q|] eqn:Hq; cbn in Hch; [|discriminate]. apply Nat.eqb_eq in Hch. subst q.
  pose proof (br_npar_lt root c s Hc Hq). split; [lia|].
  destruct (pth_of root c) as [|x0 r0] eqn:Hp.
  - rewrite (npar_nodes root c Hc), Hp in Hq. discriminate.
  - destruct (npar_some root c Hc) as (q & Hq' & _ & Hqp); [rewrite Hp; discriminate|].
    rewrite Hq in Hq'. inversion Hq'; subst q. unfold spec_is_anc. change (pth root) with (pth_of root).
    rewrite Hqp. rewrite (app_removelast_last 0 (l := pth_of root c)) at 2 by (rewrite Hp; discriminate).
    apply proper_prefix_snoc. left. reflexivity.
Qed.

Lemma spec_compound_child s : spec_compound root s = true ->
  exists c, c < n /\ spec_is_anc root s c = true /\ spec_proper root c = true.
Proof.
  unfold spec_compound. intros H.
  assert (Hne : spec_proper_children root s <> []) by (destruct (skind_of root s); try discriminate; destruct (spec_proper_children root s); congruence).
  destruct (spec_proper_children root s) as [|c l] eqn:Hl; [congruence|].
  assert (Hin : In c (spec_proper_children root s)) by (rewrite Hl; left; reflexivity).
  unfold spec_proper_children, spec_children in Hin. rewrite !filter_In, (br_sidx root), in_seq in Hin.
  destruct Hin as [[Hc Hch] Hp]. exists c. split; [lia|]. split; [|exact Hp].
  apply (spec_child_anc s c ltac:(lia) Hch).
Qed.

Lemma spec_targets_pos t j : In j (spec_targets root t) -> 0 < j /\ j < n.
Proof.
  intros Hj. apply (target_states_set root Hwf t j) in Hj. apply (target_states_lt root Hwf t j Hj).
Qed.

Lemma spec_anc_root j : 0 < j -> j < n -> spec_is_anc root 0 j = true.
Proof.
  intros H0 Hj. unfold spec_is_anc. change (pth root) with (pth_of root).
  assert (Hp0 : pth_of root 0 = []) by (apply pth_root_iff; lia). rewrite Hp0.
  destruct (pth_of root j) eqn:Hp; [apply pth_root_iff in Hp; lia | reflexivity].
Qed.

(* a transition with targets whose source is not the root has a domain: its source (internal, compound)
   or a proper ancestor of its source *)
Lemma spec_domain_exists e t : spec_targets root t <> [] ->
  let s := spec_source_state root e in 0 < s -> s < n ->
  exists d, spec_domain root e t = Some d /\ d < n /\
            ((d = s /\ spec_compound root s = true) \/ spec_is_anc root d s = true).
Proof.
  intros Hne s Hs0 Hsn. unfold spec_domain. fold s.
  destruct (spec_targets root t) as [|y ts] eqn:Hts; [congruence|].
  destruct (tt_internal t && spec_compound root s && forallb (fun x => spec_is_anc root s x) (y :: ts)) eqn:Hc.
  - exists s. rewrite !andb_true_iff in Hc. split; [reflexivity|]. split; [exact Hsn|]. left. tauto.
  - unfold spec_lcca. rewrite (br_sidx root).
    set (Q := fun c => spec_compound_or_scxml root c && forallb (fun s0 => spec_is_anc root c s0) (s :: y :: ts)).
    pose proof (rev_filter_seq_spec Q n) as Hr.
    destruct (rev (filter Q (seq 0 n))) as [|c r].
    + exfalso. pose proof (tsize_pos root). specialize (Hr 0 ltac:(lia)).
      assert (HQ0 : Q 0 = true).
      { unfold Q. rewrite andb_true_iff. split.
        - unfold spec_compound_or_scxml. rewrite (br_kind root 0) by lia.
          rewrite (proj2 (wf_root_kind root Hwf 0 ltac:(lia)) eq_refl). apply orb_true_r.
        - rewrite forallb_forall. intros z [<- | Hz]; [apply spec_anc_root; assumption|].
          assert (Hz' : In z (spec_targets root t)) by (rewrite Hts; exact Hz).
          destruct (spec_targets_pos t z Hz'). apply spec_anc_root; assumption. }
      congruence.
    + destruct Hr as (Hq & Hcn & _). exists c. split; [reflexivity|]. split; [exact Hcn|]. right.
      unfold Q in Hq. rewrite andb_true_iff in Hq. destruct Hq as [_ Hq]. cbn [forallb] in Hq.
      rewrite andb_true_iff in Hq. apply Hq.
Qed.

Lemma In_spec_exit e t d j : spec_domain root e t = Some d ->
  (In j (spec_exit root e t) <-> j < n /\ spec_is_anc root d j = true /\ spec_proper root j = true).
Proof.
  intros Hd. unfold spec_exit. rewrite Hd, filter_In, (br_sidx root), in_seq, andb_true_iff. intuition lia.
Qed.

(* exit sets of transitions with targets whose (proper, non-root) source states are equal or in ancestor
   relation always intersect: on such pairs the transpilers' relation is the Recommendation's *)
Lemma related_targeted_intersect x y :
  let ex := fst (fst x) in let ey := fst (fst y) in
  0 < ex -> ex < n -> 0 < ey -> ey < n ->
  spec_proper root ex = true -> spec_proper root ey = true ->
  spec_targets root (snd x) <> [] -> spec_targets root (snd y) <> [] ->
  spec_related root x y = true ->
  intersects (spec_exit root ex (snd x)) (spec_exit root ey (snd y)) = true.
Proof.
  intros ex ey Hx0 Hxn Hy0 Hyn Hpx Hpy Htx Hty Hrel.
  assert (Hsx : spec_source_state root ex = ex).
  { unfold spec_source_state. unfold spec_proper in Hpx. destruct (skind_of root ex); try reflexivity; discriminate. }
  assert (Hsy : spec_source_state root ey = ey).
  { unfold spec_source_state. unfold spec_proper in Hpy. destruct (skind_of root ey); try reflexivity; discriminate. }
  unfold spec_related in Hrel. fold ex ey in Hrel. rewrite Hsx, Hsy in Hrel.
  destruct (spec_domain_exists ex (snd x) Htx) as (dx & Hdx & Hdxn & Hdx'); [rewrite Hsx; lia | rewrite Hsx; lia|].
  destruct (spec_domain_exists ey (snd y) Hty) as (dy & Hdy & Hdyn & Hdy'); [rewrite Hsy; lia | rewrite Hsy; lia|].
  rewrite Hsx in Hdx'. rewrite Hsy in Hdy'.
  unfold intersects. rewrite existsb_exists.
  (* it suffices to find a proper state below both domains *)
  assert (Hsuff : forall j, j < n -> spec_proper root j = true ->
                  spec_is_anc root dx j = true -> spec_is_anc root dy j = true ->
                  exists j0, In j0 (spec_exit root ex (snd x)) /\ mem j0 (spec_exit root ey (snd y)) = true).
  { intros j Hj Hp H1 H2. exists j. split; [apply (In_spec_exit _ _ _ _ Hdx); auto|].
    apply mem_In. apply (In_spec_exit _ _ _ _ Hdy); auto. }
  (* low: the lower of the two sources; every proper state at or below it that lies strictly below both
     domains will do *)
  assert (Hlow : forall lo hi dlo dhi, lo < n -> hi < n -> spec_proper root lo = true ->
            (hi = lo \/ spec_is_anc root hi lo = true) ->
            ((dlo = lo /\ spec_compound root lo = true) \/ spec_is_anc root dlo lo = true) ->
            ((dhi = hi /\ spec_compound root hi = true) \/ spec_is_anc root dhi hi = true) ->
            exists j, j < n /\ spec_proper root j = true /\ spec_is_anc root dlo j = true /\ spec_is_anc root dhi j = true).
  { intros lo hi dlo dhi Hlo Hhi Hplo Hrel' Hdlo Hdhi.
    assert (Hbelow_hi : forall j, (j = lo \/ spec_is_anc root lo j = true) -> j <> hi -> spec_is_anc root hi j = true).
    { intros j [-> | Hj] Hne; destruct Hrel' as [-> | Hr]; try congruence; try assumption.
      eapply spec_anc_trans; eauto. }
    destruct Hdlo as [[-> Hclo] | Hdlo].
    - (* domain of the lower transition is its source: take a proper child c of lo *)
      destruct (spec_compound_child lo Hclo) as (c & Hc & Hac & Hpc).
      exists c. split; [exact Hc|]. split; [exact Hpc|]. split; [exact Hac|].
      assert (Hhc : spec_is_anc root hi c = true).
      { destruct Hrel' as [-> | Hr]; [exact Hac | eapply spec_anc_trans; eauto]. }
      destruct Hdhi as [[-> _] | Hdhi]; [exact Hhc | eapply spec_anc_trans; eauto].
    - (* domain of the lower transition is a proper ancestor of lo: lo itself is exited by both,
         unless hi = lo is its own (internal) domain: then a child of lo *)
      destruct Hdhi as [[-> Hchi] | Hdhi].
      + destruct Hrel' as [-> | Hr].
        * destruct (spec_compound_child lo Hchi) as (c & Hc & Hac & Hpc).
          exists c. split; [exact Hc|]. split; [exact Hpc|]. split; [eapply spec_anc_trans; eauto | exact Hac].
        * exists lo. split; [exact Hlo|]. split; [exact Hplo|]. split; [exact Hdlo | exact Hr].
      + exists lo. split; [exact Hlo|]. split; [exact Hplo|]. split; [exact Hdlo|].
        destruct Hrel' as [-> | Hr]; [exact Hdhi | eapply spec_anc_trans; eauto]. }
  rewrite !orb_true_iff in Hrel. destruct Hrel as [[He | Hyx] | Hxy].
  - apply Nat.eqb_eq in He.
    destruct (Hlow ey ex dy dx Hyn Hxn Hpy (or_introl He) Hdy' Hdx') as (j & Hj & Hp & H1 & H2). eauto.
  - (* ey is a proper ancestor of ex: ex is the lower one *)
    destruct (Hlow ex ey dx dy Hxn Hyn Hpx (or_intror Hyx) Hdx' Hdy') as (j & Hj & Hp & H1 & H2). eauto.
  - destruct (Hlow ey ex dy dx Hyn Hxn Hpy (or_intror Hxy) Hdy' Hdx') as (j & Hj & Hp & H1 & H2). eauto.
Qed.

End ConflictsTargeted.

Example ex_rich_wf : wf_doc (resort ex_rich) = true.
Proof. vm_compute. reflexivity. Qed.
