(* CGenEquivContent.v -- C04: the executable-content functions ChartToC emits (CGen.cexec_instr: the callback
   sequence of <prefix>_<state>_on_entry_<j> / _on_exit_<j> / _on_trans) against BasicContentExecutor
   (Exec.exec_instr), element by element, in lock step: every element of a block is run by the emitted function
   exactly when the interpreter runs it, takes the same branch of every <if>/<elseif>/<else>, and leaves the same
   internal and external queue (events by name, in order) -- for content of the transpiler's fragment
   ([instr_c]: <raise> and <send> with a non-empty event name, <log> of a constant expression, <if> over In()
   conditions; this content cannot raise an error event, so the error protocol of the interpreter is not
   exercised and the switch ex_variant plays no role).  Proofs only; [instr_c] .. [chart_c] are the statement's
   side conditions. *)
From V Require Import Base NameMatch Chart Exec Large Fast CGen CGenLemmas TraceLemmas.
Local Open Scope nat_scope.

(* ------------------------------------------------------------------ the fragment *)
Definition cond_c (e : bexpr) : bool := match e with BIn _ => true | _ => false end.
Definition name_c (e : bytes) : bool := match e with [] => false | _ => true end.

Fixpoint iexpr_closed (e : iexpr) : bool :=
  match e with
  | INum _ => true
  | IVar _ => false
  | IAdd a b | ISub a b => iexpr_closed a && iexpr_closed b
  | IBad => false
  end.

Fixpoint instr_c (i : instr) : bool :=
  match i with
  | IRaise _ e | ISend _ e => name_c e
  | ISendBadType _ _ | ISendBadTarget _ _ | IAssign _ _ _ => false
  | ILog _ e => iexpr_closed e
  | IIf _ cnd body =>
    cond_c cnd &&
    (fix go (l : list ifitem) : bool :=
       match l with
       | [] => true
       | FElseif c' :: r => cond_c c' && go r
       | FElse :: r => go r
       | FInstr j :: r => instr_c j && go r
       end) body
  end.

Definition items_c :=
  fix go (l : list ifitem) : bool :=
    match l with
    | [] => true
    | FElseif c' :: r => cond_c c' && go r
    | FElse :: r => go r
    | FInstr j :: r => instr_c j && go r
    end.

Lemma instr_c_if v cnd body : instr_c (IIf v cnd body) = cond_c cnd && items_c body.
Proof. reflexivity. Qed.

Definition block_c (b : block) : bool := forallb instr_c b.
Definition blocks_c (bs : list block) : bool := forallb block_c bs.
Definition data_c (ds : list (N * iexpr)) : bool := forallb (fun d => iexpr_closed (snd d)) ds.

Definition state_c (s : fstate) : bool := blocks_c (fs_onentry s) && blocks_c (fs_onexit s) && data_c (fs_data s).
Definition trans_c (t : ftrans) : bool :=
  block_c (ft_body t) && match ft_cond t with Some e => cond_c e | None => true end.
Definition chart_c (c : fchart) : bool := forallb state_c (fc_states c) && forallb trans_c (fc_trans c).

Lemma ieval_closed e : iexpr_closed e = true -> forall s, exists z, ieval s e = Some z.
Proof.
  induction e as [z|v|a IHa b IHb|a IHa b IHb|]; cbn [iexpr_closed ieval]; intros Hc s; try discriminate.
  - now exists z.
  - apply andb_true_iff in Hc as [Ha Hb]. destruct (IHa Ha s) as (za & ->). destruct (IHb Hb s) as (zb & ->). eauto.
  - apply andb_true_iff in Hc as [Ha Hb]. destruct (IHa Ha s) as (za & ->). destruct (IHb Hb s) as (zb & ->). eauto.
Qed.

Lemma st_c c i : chart_c c = true ->
  blocks_c (fs_onentry (st c i)) = true /\ blocks_c (fs_onexit (st c i)) = true /\ data_c (fs_data (st c i)) = true.
Proof.
  intros H. apply andb_true_iff in H as [H _]. unfold st.
  destruct (nth_in_or_default i (fc_states c) dummy_state) as [I|D].
  - rewrite forallb_forall in H. specialize (H _ I). unfold state_c in H.
    apply andb_true_iff in H as [H H3]. apply andb_true_iff in H as [H1 H2]. auto.
  - rewrite D. cbn. auto.
Qed.

Lemma tr_c c i : chart_c c = true ->
  block_c (ft_body (tr c i)) = true /\ forall e, ft_cond (tr c i) = Some e -> cond_c e = true.
Proof.
  intros H. apply andb_true_iff in H as [_ H]. unfold tr.
  destruct (nth_in_or_default i (fc_trans c) dummy_trans) as [I|D].
  - rewrite forallb_forall in H. specialize (H _ I). unfold trans_c in H.
    apply andb_true_iff in H as [H1 H2]. split; [exact H1|]. intros e He. now rewrite He in H2.
  - rewrite D. cbn. split; [reflexivity|discriminate].
Qed.

Lemma chart_c_conds c : chart_c c = true -> conds_in_only c = true.
Proof.
  intros H. apply andb_true_iff in H as [_ H]. unfold conds_in_only. rewrite forallb_forall in *.
  intros t Ht. specialize (H t Ht). unfold trans_c in H. apply andb_true_iff in H as [_ H].
  unfold cond_in_only. destruct (ft_cond t) as [e|]; [|reflexivity]. destruct e; try discriminate. reflexivity.
Qed.

(* ------------------------------------------------------------------ corresponding execution states *)
(* what both traces show: the events handed to the selection (dequeue_internal / dequeue_external returned the
   event; beforeProcessingEvent) *)
Definition cview (t : ctok) : option bytes := match t with CEv e => Some e | _ => None end.
Definition fview (t : tok) : option bytes := match t with TEv e => Some e | _ => None end.

Record csim (x : cx) (y : xstate) : Prop := {
  cs_iq : cx_iq x = map ev_name (x_iq y);
  cs_eq : cx_eq x = map ev_name (x_eq y);
  cs_out : filter_map cview (cx_out x) = filter_map fview (x_out y);
  cs_iqn : Forall (fun e => e <> []) (cx_iq x);
  cs_eqn : Forall (fun e => e <> []) (cx_eq x)
}.

Lemma csim_emit t x y : fview t = None -> csim x y -> csim x (emit t y).
Proof. intros Ht [A B C D E]. constructor; auto. cbn [emit x_out filter_map]. now rewrite Ht. Qed.

Lemma csim_cemit t x y : cview t = None -> csim x y -> csim (cemit t x) y.
Proof. intros Ht [A B C D E]. constructor; auto. cbn [cemit cx_out filter_map]. now rewrite Ht. Qed.

Lemma csim_set_store s x y : csim x y -> csim x (set_store s y).
Proof. intros [A B C D E]. constructor; auto. Qed.

Lemma csim_raise x y e k : e <> [] -> csim x y ->
  csim {| cx_iq := cx_iq x ++ [e]; cx_eq := cx_eq x; cx_out := cx_out x |} (raise_int {| ev_name := e; ev_kind := k |} y).
Proof.
  intros He [A B C D E]. constructor; cbn [cx_iq cx_eq cx_out raise_int x_iq x_eq x_out]; auto.
  - now rewrite map_app, A.
  - apply Forall_app. split; [exact D|]. now constructor.
Qed.

Lemma csim_send x y e k : e <> [] -> csim x y ->
  csim {| cx_iq := cx_iq x; cx_eq := cx_eq x ++ [e]; cx_out := cx_out x |} (raise_ext {| ev_name := e; ev_kind := k |} y).
Proof.
  intros He [A B C D E]. constructor; cbn [cx_iq cx_eq cx_out raise_ext x_iq x_eq x_out]; auto.
  - now rewrite map_app, B.
  - apply Forall_app. split; [exact E|]. now constructor.
Qed.

Lemma csim_out_c t x y q1 q2 : cview t = None ->
  csim {| cx_iq := q1; cx_eq := q2; cx_out := cx_out x |} y -> csim {| cx_iq := q1; cx_eq := q2; cx_out := t :: cx_out x |} y.
Proof. intros Ht [A B C D E]. constructor; auto. cbn [cx_out filter_map] in *. now rewrite Ht. Qed.

Lemma name_c_ne e : name_c e = true -> e <> [].
Proof. destruct e; [discriminate|]. intros _. discriminate. Qed.

(* ------------------------------------------------------------------ the loops over the children of an <if> *)
Section Sim.
Variable xv : ex_variant.
Variable inst : N -> bool.

Definition c_if_items :=
  fix items (l : list ifitem) (blockIsTrue : bool) (x : cx) {struct l} : cx :=
    match l with
    | [] => x
    | FElseif c' :: r => if blockIsTrue then x else items r (c_is_true inst c') x
    | FElse :: r => if blockIsTrue then x else items r true x
    | FInstr j :: r => if blockIsTrue then items r blockIsTrue (cexec_instr inst j x) else items r blockIsTrue x
    end.

Lemma cexec_if_unfold vid cnd body x :
  cexec_instr inst (IIf vid cnd body) x = c_if_items body (c_is_true inst cnd) x.
Proof. reflexivity. Qed.

Definition if_items_v :=
  fix items (l : list ifitem) (blockIsTrue : bool) (x : xstate) {struct l} : bool * xstate :=
    match l with
    | [] => (true, x)
    | FElseif c' :: r =>
        if blockIsTrue then (true, x)
        else let '(b, x') := is_true inst c' x in items r b x'
    | FElse :: r => if blockIsTrue then (true, x) else items r true x
    | FInstr j :: r =>
        if blockIsTrue then
          let '(ok, x') := exec_instr xv inst j x in
          if ok then items r blockIsTrue x' else (false, x')
        else items r blockIsTrue x
    end.

Lemma exec_if_unfold_v vid cnd body x :
  exec_instr xv inst (IIf vid cnd body) x =
  let x1 := emit (TCb vid) x in
  let '(b0, x2) := is_true inst cnd x1 in
  let '(ok, x3) := if_items_v body b0 x2 in
  if ok then (true, emit (TCe vid) x3)
  else if ex_if_after_skipped_on_nested_error xv then (false, x3) else (false, emit (TCe vid) x3).
Proof. reflexivity. Qed.

Lemma is_true_c cnd y : cond_c cnd = true -> is_true inst cnd y = (c_is_true inst cnd, y).
Proof. destruct cnd; try discriminate. reflexivity. Qed.

(* ---- one element ---- *)
Definition sim_instr (i : instr) : Prop :=
  forall x y, instr_c i = true -> csim x y ->
    exists y', exec_instr xv inst i y = (true, y') /\ csim (cexec_instr inst i x) y'.

Lemma sim_if_items body : Forall (fun it => match it with FInstr j => sim_instr j | _ => True end) body ->
  forall taken x y, items_c body = true -> csim x y ->
    exists y', if_items_v body taken y = (true, y') /\ csim (c_if_items body taken x) y'.
Proof.
  induction 1 as [|it r Hit Hr IH]; intros taken x y Hok R; cbn [c_if_items if_items_v items_c] in *.
  - exists y. auto.
  - destruct it as [c'| |j].
    + apply andb_true_iff in Hok as [Hc Hok]. destruct taken; [exists y; auto|].
      rewrite (is_true_c c' y Hc). now apply IH.
    + destruct taken; [exists y; auto|]. now apply IH.
    + apply andb_true_iff in Hok as [Hj Hok]. destruct taken; [|now apply IH].
      destruct (Hit x y Hj R) as (y1 & E1 & R1). rewrite E1. now apply IH.
Qed.

Theorem sim_instr_all i : sim_instr i.
Proof.
  induction i using instr_ind2 with (Q := fun it => match it with FInstr j => sim_instr j | _ => True end);
    try exact I; try assumption; intros xs ys Hok R; cbn [instr_c] in Hok; try discriminate.
  - (* raise *)
    cbn [cexec_instr exec_instr]. eexists. split; [reflexivity|].
    apply csim_emit; [reflexivity|]. unfold craise. apply csim_out_c; [reflexivity|].
    apply (csim_raise xs (emit (TCb v) ys)); [now apply name_c_ne|]. now apply csim_emit.
  - (* send *)
    cbn [cexec_instr exec_instr]. eexists. split; [reflexivity|].
    apply csim_emit; [reflexivity|]. unfold csend. apply csim_out_c; [reflexivity|].
    apply (csim_send xs (emit (TCb v) ys)); [now apply name_c_ne|]. now apply csim_emit.
  - (* log *)
    cbn [cexec_instr exec_instr]. destruct (ieval_closed e Hok (x_store (emit (TCb v) ys))) as (z & ->).
    eexists. split; [reflexivity|]. do 3 (apply csim_emit; [reflexivity|]). exact R.
  - (* if *)
    change (cond_c c && items_c body = true) in Hok. apply andb_true_iff in Hok as [Hc Hb].
    rewrite cexec_if_unfold, exec_if_unfold_v. cbv zeta. rewrite (is_true_c c _ Hc).
    destruct (sim_if_items body H (c_is_true inst c) xs (emit (TCb v) ys) Hb) as (y3 & E3 & R3);
      [now apply csim_emit|].
    rewrite E3. eexists. split; [reflexivity|]. now apply csim_emit.
Qed.

(* ---- blocks ---- *)
Lemma sim_block b : forall x y, block_c b = true -> csim x y ->
  csim (cexec_block inst b x) (exec_block xv inst b y).
Proof.
  unfold cexec_block. induction b as [|i r IH]; intros x y Hok R; cbn [fold_left exec_block]; [exact R|].
  cbn [block_c forallb] in Hok. apply andb_true_iff in Hok as [Hi Hr].
  destruct (sim_instr_all i x y Hi R) as (y1 & E1 & R1). rewrite E1. now apply IH.
Qed.

Lemma sim_blocks bs : forall x y, blocks_c bs = true -> csim x y ->
  csim (cexec_blocks inst bs x) (exec_blocks xv inst bs y).
Proof.
  unfold cexec_blocks, exec_blocks. induction bs as [|b r IH]; intros x y Hok R; cbn [fold_left]; [exact R|].
  cbn [blocks_c forallb] in Hok. apply andb_true_iff in Hok as [Hb Hr].
  apply IH; [exact Hr|]. now apply sim_block.
Qed.

(* <data>: a constant expression only sets the variable *)
Lemma sim_data ds : forall x y, data_c ds = true -> csim x y -> csim x (fold_left (fun y d => init_data d y) ds y).
Proof.
  induction ds as [|d r IH]; intros x y Hok R; cbn [fold_left]; [exact R|].
  cbn [data_c forallb] in Hok. apply andb_true_iff in Hok as [Hd Hr].
  apply IH; [exact Hr|]. unfold init_data. destruct (ieval_closed (snd d) Hd (x_store y)) as (z & ->).
  now apply csim_set_store.
Qed.

End Sim.

(* the headline form: one element, the blocks of a handler *)
Theorem cstep_equiv_content_lemma xv inst :
  (forall i x y, instr_c i = true -> csim x y ->
     exists y', exec_instr xv inst i y = (true, y') /\ csim (cexec_instr inst i x) y') /\
  (forall bs x y, blocks_c bs = true -> csim x y -> csim (cexec_blocks inst bs x) (exec_blocks xv inst bs y)).
Proof. split; [exact (sim_instr_all xv inst) | exact (sim_blocks xv inst)]. Qed.
