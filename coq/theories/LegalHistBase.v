(* LegalHistBase.v -- C02 beyond the history-free core: the structural well-formedness record WFH of flat
   charts WITH pseudo-states (<initial> elements, deep / multiple initial attributes, <history> where
   histories with different parents record disjoint sets of proper states), tree facts, and the notion of a "fragment" below a state: a set of
   strict descendants that is closed under parents up to that state and has at most one child per
   compound.  Every addition of LargeMicroStep's descendant loop is such a fragment (LegalHistEntry.v). *)
From V Require Import Base NameMatch Chart Exec Large LargeLemmas Legal SetLemmas LegalAbstract.
Local Open Scope nat_scope.

Section HBase.
Variable c : fchart.
Let n := nstates c.
Let par (i : nat) := fs_parent (st c i).
Let ch (i : nat) := fs_children (st c i).
Let kd (i : nat) := fs_type (st c i).
Let cpl (i : nat) := fs_completion (st c i).
Notation Anc := (Anc par).

Definition on_pathP (k g : nat) : Prop := k = g \/ Anc k g.
Definition pseudoS (i : nat) : bool := is_pseudo (kd i).
Definition histS (i : nat) : bool := is_hist (kd i).
Definition deepS (i : nat) : bool := match kd i with FHistDeep => true | _ => false end.

(* a list of states [T] names at most one child of every compound state (on the paths to its members) *)
Definition one_child_per_compound (T : list nat) : Prop :=
  forall j k1 k2 g1 g2, kd j = FCompound -> par k1 = Some j -> par k2 = Some j ->
    In g1 T -> In g2 T -> on_pathP k1 g1 -> on_pathP k2 g2 -> k1 = k2.

Record WFH : Prop := {
  wh_root_par : par 0 = None;
  wh_par_lt : forall i p, par i = Some p -> p < i /\ i < n;
  wh_par_some : forall i, 0 < i -> i < n -> exists p, par i = Some p;
  wh_children : forall p k, In k (ch p) <-> par k = Some p;
  wh_children_nodup : forall p, NoDup (ch p);
  wh_anc : forall i a, In a (fs_ancestors (st c i)) <-> Anc a i;
  wh_interval : forall a i, a < n -> i < n -> (Anc a i <-> a < i /\ i < a + fs_size (st c a));
  wh_root_type : kd 0 <> FParallel;
  (* pseudo-states are leaves directly below a compound state *)
  wh_pseudo_parent : forall i, pseudoS i = true -> exists q, par i = Some q /\ kd q = FCompound;
  wh_pseudo_leaf : forall i k, pseudoS i = true -> par k <> Some i;
  (* completion of a compound: the targets as written -- non-empty, strict descendants, a legal target set *)
  wh_compound : forall i, kd i = FCompound -> cpl i <> [] /\ (forall g, In g (cpl i) -> Anc i g);
  wh_cpl_sets : forall i, kd i = FCompound -> one_child_per_compound (cpl i);
  wh_parallel : forall i k, kd i = FParallel -> (In k (cpl i) <-> In k (ch i));
  wh_tr_src : forall s ti, In ti (fs_trans (st c s)) -> ft_source (tr c ti) = s;
  wh_tr_targets : forall ti g, In g (ft_targets (tr c ti)) -> 0 < g /\ g < n;
  wh_target_sets : forall ti, one_child_per_compound (ft_targets (tr c ti));
  (* <initial>: one transition, proper targets below the parent *)
  wh_initial : forall i q, kd i = FInitial -> par i = Some q ->
     exists ti, fs_trans (st c i) = [ti] /\ ft_targets (tr c ti) <> [] /\
                forall g, In g (ft_targets (tr c ti)) -> Anc q g /\ i < g /\ pseudoS g = false;
  (* <history>: a default transition with proper targets: children of the parent (shallow), descendants (deep) *)
  wh_hist_default : forall i q, histS i = true -> par i = Some q ->
     exists ti r, fs_trans (st c i) = ti :: r /\ ft_targets (tr c ti) <> [] /\
                  forall g, In g (ft_targets (tr c ti)) ->
                            i < g /\ pseudoS g = false /\ (if deepS i then Anc q g else par g = Some q);
  (* the states a history records *)
  wh_hist_cpl : forall i q, histS i = true -> par i = Some q ->
     (forall x, In x (cpl i) -> x < n /\ (pseudoS x = false -> i < x) /\
                (par x = Some q \/ (deepS i = true /\ exists p, par x = Some p /\ In p (cpl i)))) /\
     (forall k, par k = Some q -> pseudoS k = false -> In k (cpl i));
  (* no proper state is recorded by two histories with different parents (the engines keep ONE bit per state for
     all histories; histories of the same parent are written together and agree) *)
  wh_hist_disjoint : forall h1 h2 x, histS h1 = true -> histS h2 = true ->
     In x (cpl h1) -> In x (cpl h2) -> pseudoS x = false -> par h1 = par h2
}.

Hypothesis W : WFH.

(* ------------------------------------------------------------------ tree facts *)

Lemma hanc_lt a i : Anc a i -> a < i /\ i < n.
Proof.
  induction 1 as [i p Hp|i p a Hp Ha IH].
  - now apply (wh_par_lt W).
  - destruct (wh_par_lt W _ _ Hp). lia.
Qed.

Lemma hanc_irrefl a : ~ Anc a a.
Proof. intros H. apply hanc_lt in H. lia. Qed.

Lemma hanc_trans a b x : Anc a b -> Anc b x -> Anc a x.
Proof.
  intros Hab Hbx. induction Hbx as [i p Hp|i p b Hp Hb IH]; eapply anc_step; eauto.
Qed.

Lemma hanc_chain a b x : Anc a x -> Anc b x -> a = b \/ Anc a b \/ Anc b a.
Proof.
  intros Ha. revert b. induction Ha as [i p Hp|i p a Hp Ha IH]; intros b Hb.
  - destruct (anc_child par _ _ _ Hp Hb) as [->|Hbp]; [now left | right; now right].
  - destruct (anc_child par _ _ _ Hp Hb) as [->|Hbp].
    + right. now left.
    + now apply IH.
Qed.

Lemma hanc_root i : 0 < i -> i < n -> Anc 0 i.
Proof.
  revert i. induction i as [i IH] using lt_wf_ind. intros Hi Hn.
  destruct (wh_par_some W i Hi Hn) as (p & Hp).
  destruct (wh_par_lt W _ _ Hp) as [Hlt _].
  destruct (Nat.eq_dec p 0) as [->|Hne].
  - now apply anc_parent.
  - eapply anc_step; eauto. apply IH; lia.
Qed.

Lemma hanc_antisym a b : Anc a b -> Anc b a -> False.
Proof. intros H1 H2. apply hanc_lt in H1, H2. lia. Qed.

(* below an ancestor there is a child of it on the path *)
Lemma hanc_child_on_path q g : Anc q g -> exists k, par k = Some q /\ on_pathP k g.
Proof.
  induction 1 as [i p Hp|i p a Hp Ha IH].
  - exists i. split; [exact Hp | now left].
  - destruct IH as (k & Hk & Hon). exists k. split; [exact Hk|]. right.
    destruct Hon as [->|Hkp]; [now apply anc_parent | eapply anc_step; eauto].
Qed.

(* a pseudo-state is no ancestor *)
Lemma pseudo_no_anc i x : pseudoS i = true -> ~ Anc i x.
Proof.
  intros Hp Ha. induction Ha as [x p Hx|x p a Hx Ha IH].
  - exact (wh_pseudo_leaf W p x Hp Hx).
  - now apply IH.
Qed.

Lemma parent_not_pseudo k p : par k = Some p -> pseudoS p = false.
Proof.
  intros Hk. destruct (pseudoS p) eqn:E; [|reflexivity]. exfalso. exact (wh_pseudo_leaf W p k E Hk).
Qed.

Lemma anc_not_pseudo a x : Anc a x -> pseudoS a = false.
Proof. intros Ha. destruct (pseudoS a) eqn:E; [|reflexivity]. exfalso. exact (pseudo_no_anc a x E Ha). Qed.

Lemma compound_not_pseudo i : kd i = FCompound -> pseudoS i = false.
Proof. intros H. unfold pseudoS. now rewrite H. Qed.

(* ------------------------------------------------------------------ closed sets *)

Definition closedS (S : nat -> Prop) : Prop := forall x p, S x -> par x = Some p -> S p.

Lemma closed_anc (S : nat -> Prop) x a : closedS S -> S x -> Anc a x -> S a.
Proof.
  intros Hc Hx Ha. induction Ha as [x p Hp|x p a Hp Ha IH].
  - eapply Hc; eauto.
  - apply IH. eapply Hc; eauto.
Qed.

(* a member below q reveals a member that is a child of q *)
Lemma closed_desc_child (S : nat -> Prop) q x : closedS S -> S x -> Anc q x ->
  exists k, par k = Some q /\ S k /\ on_pathP k x.
Proof.
  intros Hc Hx Ha. destruct (hanc_child_on_path q x Ha) as (k & Hk & Hon).
  exists k. split; [exact Hk|]. split; [|exact Hon].
  destruct Hon as [->|Hkx]; [exact Hx | eapply closed_anc; eauto].
Qed.

(* ------------------------------------------------------------------ fragments *)

Record Frag (q : nat) (S : nat -> Prop) : Prop := {
  fr_below : forall x, S x -> Anc q x;
  fr_par : forall x p, S x -> par x = Some p -> p = q \/ S p;
  fr_uniq : forall i k1 k2, kd i = FCompound -> par k1 = Some i -> par k2 = Some i -> S k1 -> S k2 -> k1 = k2;
  fr_child : exists k, par k = Some q /\ S k
}.

(* the members of T and their ancestors strictly below q *)
Definition IC (q : nat) (T : list nat) (x : nat) : Prop := Anc q x /\ exists g, In g T /\ on_pathP x g.

Lemma frag_IC q T : T <> [] -> (forall g, In g T -> Anc q g) -> one_child_per_compound T -> Frag q (IC q T).
Proof.
  intros Hne Hb Hone. constructor.
  - intros x [Hx _]. exact Hx.
  - intros x p [Hqx (g & Hg & Hon)] Hp.
    destruct (anc_child par _ _ _ Hp Hqx) as [->|Hqp]; [now left|]. right. split; [exact Hqp|].
    exists g. split; [exact Hg|]. right.
    destruct Hon as [->|Hxg]; [now apply anc_parent | eapply hanc_trans; [apply anc_parent; eauto | exact Hxg]].
  - intros i k1 k2 Hi H1 H2 [_ (g1 & Hg1 & Ho1)] [_ (g2 & Hg2 & Ho2)].
    exact (Hone i k1 k2 g1 g2 Hi H1 H2 Hg1 Hg2 Ho1 Ho2).
  - destruct T as [|g r]; [congruence|]. assert (Hg : In g (g :: r)) by now left.
    destruct (hanc_child_on_path q g (Hb g Hg)) as (k & Hk & Hon).
    exists k. split; [exact Hk|]. split; [now apply anc_parent|]. exists g. tauto.
Qed.

(* membership in "T and all ancestors of members" against IC: the ancestors outside q's sub-tree are q or above *)
Lemma full_vs_IC q T x : (forall g, In g T -> Anc q g) ->
  ((exists g, In g T /\ on_pathP x g) <-> (IC q T x \/ ((x = q \/ Anc x q) /\ T <> []))).
Proof.
  intros Hb. split.
  - intros (g & Hg & Hon). assert (Hne : T <> []) by (intros E; rewrite E in Hg; destruct Hg).
    destruct Hon as [->|Hxg].
    + left. split; [now apply Hb | exists g; split; [exact Hg | now left]].
    + destruct (hanc_chain q x g (Hb g Hg) Hxg) as [<-|[Hqx|Hxq]].
      * right. tauto.
      * left. split; [exact Hqx|]. exists g. split; [exact Hg | now right].
      * right. tauto.
  - intros [[_ H]|[Hx Hne]]; [exact H|].
    destruct T as [|g r]; [congruence|]. exists g. split; [now left|]. right.
    assert (Hqg : Anc q g) by (apply Hb; now left).
    destruct Hx as [->|Hxq]; [exact Hqg | eapply hanc_trans; eauto].
Qed.

(* a list of children of q is its own inner closure *)
Lemma IC_children q T x : (forall g, In g T -> par g = Some q) -> (IC q T x <-> In x T).
Proof.
  intros Hc. split.
  - intros [Hqx (g & Hg & [->|Hxg])]; [exact Hg|]. exfalso.
    destruct (anc_child par _ _ _ (Hc g Hg) Hxg) as [->|Hxq]; [exact (hanc_irrefl _ Hqx) | exact (hanc_antisym _ _ Hqx Hxq)].
  - intros Hx. split; [apply anc_parent; now apply Hc | exists x; split; [exact Hx | now left]].
Qed.

End HBase.
