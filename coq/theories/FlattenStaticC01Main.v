(* FlattenStaticC01Main.v -- C01's run-level conformance theorems for documents with <initial> elements and deep /
   multiple initial attributes (RunConformInitialLoop.v, RunConformInitialStep.v), restated with the DOCUMENT-level
   predicate c01i_treeb (FlattenStaticC01.v) in place of the table-level static_ib; non-vacuity and the witness for
   the one new clause that is not a clause of the core theorems.  Proofs only. *)
From V Require Import Base NameMatch Chart Exec Large LargeLemmas Interp Spec WfCore Serialize
     FlattenWf FlattenWfSide FlattenWfSideLemmas ValidateBridge
     MicroConform RunConformBase RunConformInit RunConformStep RunConformLoop RunConformWitness RunConformInitialBase RunConformInitialStep RunConformInitialLoop
     RunConformInitialMain RunConformInitialWitness RunConformInitialSelWitness
     FlattenStaticTree FlattenStaticC01 FlattenStaticC01Lemmas.
Local Open Scope nat_scope.

Theorem document_static_initial_lemma : forall late t, c01i_treeb t = true -> static_ib (flatten late t) = true.
Proof. exact c01i_tree_static. Qed.

Theorem document_run_conforms_initial_lemma : forall late t0,
  let c := flatten late t0 in let r := fs_sid (st c 0) in
  c01i_treeb t0 = true -> forall evs fuel, run_guardb c evs fuel = true -> run_completeb c evs fuel = true ->
  forall fuel', fuel <= fuel' ->
    spec_view r (fst (run_large lg_fixed ex_fixed late t0 evs fuel)) = spec_view r (fst (run_spec late t0 evs fuel')) /\
    snd (run_large lg_fixed ex_fixed late t0 evs fuel) = snd (run_spec late t0 evs fuel').
Proof. intros late t0 c r H. exact (run_conforms_initial_lemma late t0 (c01i_tree_static late t0 H)). Qed.

Theorem document_run_conforms_prefix_initial_lemma : forall late t0,
  let c := flatten late t0 in let r := fs_sid (st c 0) in
  c01i_treeb t0 = true -> forall evs fuel, run_guardb c evs (S fuel) = true ->
  exists k, k <= fuel /\
    let res := run_loop c lstate (large_step lg_fixed ex_fixed c) l_cfg (S fuel) l_pristine x_init evs in
    let sp := Spec.spec_loop c k (fst (spec_init c x_init)) (snd (spec_init c x_init)) evs in
    let xs' := if l_fin (fst res) then Spec.exit_interpreter c (fst sp) (snd sp) else snd sp in
    corr c (fst res) (fst sp) /\ x_store (snd res) = x_store xs' /\
    spec_view r (rev (x_out (snd res))) = spec_view r (rev (x_out xs')).
Proof. intros late t0 c r H. exact (run_conforms_prefix_initial_lemma late t0 (c01i_tree_static late t0 H)). Qed.

Theorem document_large_step_conforms_initial_lemma : forall late t0,
  let c := flatten late t0 in
  c01i_treeb t0 = true -> forall l xl s xs,
  rsimH c l xl s xs -> step_guardb c l xl = true ->
  let rl := large_step lg_fixed ex_fixed c l xl in
  let q := spec_step c l s xs in
  rsimH c (fst (fst rl)) (loop_toks c (fst (fst rl)) (snd rl) (snd (fst rl))) (fst q) (snd q).
Proof. intros late t0 c H. exact (large_step_conforms_initial_lemma late t0 (c01i_tree_static late t0 H)). Qed.

(* ------------------------------------------------------------------ the history-free core: static_okb *)

(* c01_treeb (FlattenWfSide.v) covers all of RunConformStep.static_okb but chart_named and root_onexit_emptyb *)
Definition c01_full_treeb (t : tree) : bool := c01_treeb t && ct_namedb t && ct_root_onexit_emptyb t.

Theorem c01_tree_static late t : c01_full_treeb t = true -> static_okb (flatten late t) = true.
Proof.
  unfold c01_full_treeb. intros H. apply andb_true_iff in H as [H OX]. apply andb_true_iff in H as [H NM].
  destruct (c01_side_conditions_lemma late t H) as (W & R & PN & RU & TA & DO & RS).
  unfold static_okb, root_compoundb. rewrite W, R, PN, RU, TA, DO, RS, (ck_named late t NM), (ck_root_onexit late t OX). reflexivity.
Qed.

Theorem document_run_conforms_lemma : forall late t0,
  let c := flatten late t0 in let r := fs_sid (st c 0) in
  c01_full_treeb t0 = true -> forall evs fuel, run_guardb c evs fuel = true -> run_completeb c evs fuel = true ->
  forall fuel', fuel <= fuel' ->
    spec_view r (fst (run_large lg_fixed ex_fixed late t0 evs fuel)) = spec_view r (fst (run_spec late t0 evs fuel')) /\
    snd (run_large lg_fixed ex_fixed late t0 evs fuel) = snd (run_spec late t0 evs fuel').
Proof. intros late t0 c r H. exact (run_conforms_lemma late t0 (c01_tree_static late t0 H)). Qed.

(* ------------------------------------------------------------------ non-vacuity and the new clause *)
Local Open Scope N_scope.

Definition c01i_clauses (t : tree) : list bool :=
  [hist_treeb t; ct_no_histb t; ct_par_nonemptyb t; ct_targets_antichainb t; ct_done_okb t; ct_root_silentb t;
   ct_initattr_antichainb t; ct_root_unmentionedb t; ct_namedb t; ct_root_onexit_emptyb t].

(* the documents of C01's examples outside the core (deep two-state initial attribute into a <parallel>, <initial>
   elements with content, conditions with In(), a top-level <final>) satisfy the document predicate; the run of
   iw_tree on f, e satisfies the dynamic hypotheses *)
Example document_initial_hypotheses_hold :
  c01i_treeb iw_tree = true /\ c01i_treeb iw_root_multi = true /\ c01i_treeb isel_tree = true /\
  wf_coreb (flatten false iw_tree) = false /\
  run_guardb (flatten false iw_tree) iw_evs 40 = true /\ run_completeb (flatten false iw_tree) iw_evs 40 = true.
Proof. vm_compute. repeat split; reflexivity. Qed.

(* initial="s2 s5" with s5 below s2: every other clause holds, the run guard and completeness hold, and the views of
   the engine and of Appendix D differ (Appendix D enters the default descendants of s2 and s5, the engine only s5) *)
Definition w_initattr_nested : tree :=
  TNode KScxml 0 None [] [] [] []
    [TNode KState 1 (Some [2; 5]) [] [] [] []
       [TNode KParallel 2 None [] [] [] [] [TNode KState 3 None [] [] [] [] [leaf_st 4; leaf_st 5]]]].

Lemma initattr_antichain_clause_needed_refuted :
  c01i_clauses w_initattr_nested = [true; true; true; true; true; true; false; true; true; true] /\
  run_guardb (flatten false w_initattr_nested) [] 10 = true /\ run_completeb (flatten false w_initattr_nested) [] 10 = true /\
  views_differ false w_initattr_nested [] 10.
Proof.
  split; [vm_compute; reflexivity|]. split; [vm_compute; reflexivity|]. split; [vm_compute; reflexivity|].
  unfold views_differ. vm_compute. discriminate.
Qed.

(* the core document of run_conforms_hypotheses_satisfiable passes the document-level predicate of the core theorems *)
Example document_core_hypotheses_hold : c01_full_treeb rw_tree = true.
Proof. vm_compute. reflexivity. Qed.
