(* RunConformInitialSelWitness.v -- the hypotheses of RunConformInitialSel.selection_conforms_spec_cfg_initial_lemma
   are satisfiable by a chart outside the history-free core: <scxml initial="s10"> (a deep initial attribute),
   a <parallel> s1 with the regions s2 (an <initial> ELEMENT with a transition to s3) and s5 (initial="s8", two
   levels down), a second <initial> element in s9; in the configuration {s1,s2,s3,s5,s6,s8} (reached by the run
   of the engine model on the events f, e) the event e enables one transition in each region (the first one with a
   multi-descriptor event attribute and the condition In(s8)); both are selected by both sides.  Examples only. *)
From V Require Import Base NameMatch NameMatchLemmas Chart Exec Large LargeLemmas Spec Legal SetLemmas
  LegalAbstract LegalLarge LegalRun WfCore Interp LegalOracle LargeCacheLemmas ExitSetLemmas SelectConform SelectConformLemmas
  SelectConformOrder SelectConformRoot SelectConformFlatten LegalHistBase LegalHistEntry LegalHistStep LegalHistWf LegalHistOracle
  RunConformInitialSelLegal RunConformInitialSelErase RunConformInitialSelCong RunConformInitialSel RunConformInitialSelWf.
Local Open Scope N_scope.

Definition isel_tree : tree :=
  TNode KScxml 0 (Some [10]) [] [] [] []
    [TNode KParallel 1 None [] [] [] []
       [TNode KState 2 None [] [] [] []
          [TNode KState 3 None
             [{| tt_vid := 101; tt_event := Some [101; 32; 102; 46; 42]; tt_cond := Some (BIn 8);
                 tt_targets := Some [4]; tt_internal := false; tt_body := [] |}] [] [] [] [];
           TNode KState 4 None [] [] [] [] [];
           TNode KInitial 20 None [htr_ 110 None (Some [3]) false] [] [] [] []];
        TNode KState 5 (Some [8]) [] [] [] []
          [TNode KState 6 None [] [] [] []
             [TNode KState 8 None [sc_tr 102 101 [7] false; sc_tr 103 103 [9] false] [] [] [] []];
           TNode KState 7 None [] [] [] [] []]];
     TNode KState 9 None [] [] [] []
       [TNode KInitial 21 None [htr_ 111 None (Some [10]) false] [] [] [] [];
        TNode KState 10 None [sc_tr 104 102 [1] false] [] [] [] []]].
Local Open Scope nat_scope.

Example selection_conforms_initial_nonvacuous :
  let c := flatten false isel_tree in
  let cfg' := [1; 2; 4; 6; 7; 8] in
  let cfg := 0 :: cfg' in
  let ev := sc_ev 101%N in
  (* the chart: accepted by wf_initb, rejected by the core's check; its pseudo-states and completions *)
  wf_initb c = true /\ wf_coreb c = false /\ fs_type (st c 0) = FCompound /\ par_nonemptyb c = true /\
  root_unmentionedb c = true /\
  map (fun s => fs_type s) (fc_states c) =
    [FCompound; FParallel; FCompound; FInitial; FAtomic; FAtomic; FCompound; FCompound; FAtomic; FAtomic;
     FCompound; FInitial; FAtomic] /\
  fs_completion (st c 0) = [12] /\ fs_completion (st c 6) = [8] /\
  (* the configuration is reached by the engine model *)
  l_cfg (fst (run_loop c lstate (large_step lg_fixed ex_fixed c) l_cfg 6 l_pristine x_init [[102%N]])) = cfg /\
  (* the guards *)
  legal_configb c cfg = true /\ ascb cfg = true /\
  unrelated_enabledb c cfg ev x_init = true /\ conds_pureb c cfg x_init = true /\ descs_okb c cfg ev = true /\
  (* what is selected *)
  select_transitions c cfg' [] ev x_init = ([1; 2], x_init) /\
  map (fun ti => ft_vid (tr c ti)) [1; 2] = [101%N; 102%N] /\
  (* the erased chart is a chart of the core *)
  wf_coreb (erase c) = true /\ legal_configb (erase c) cfg = true.
Proof. vm_compute. repeat split; reflexivity. Qed.

(* the theorem applied to the example (nothing is computed on the engine's side) *)
Example selection_conforms_initial_applied :
  let c := flatten false isel_tree in
  select_loop lg_fixed c [0; 1; 2; 4; 6; 7; 8] (sc_ev 101%N) (cfg_postfix c [0; 1; 2; 4; 6; 7; 8]) None [] x_init = ([1; 2], x_init).
Proof.
  intros c.
  transitivity (select_transitions c [1; 2; 4; 6; 7; 8] [] (sc_ev 101%N) x_init); [|vm_compute; reflexivity].
  apply (selection_conforms_spec_cfg_initial_lemma false isel_tree [1; 2; 4; 6; 7; 8] (sc_ev 101%N) x_init []);
    vm_compute; reflexivity.
Qed.
