(* Json.v -- executable models of Data::jsonEscape / jsonUnescape / toJSON / fromJSON
   (src/uscxml/messages/Data.cpp) and Event <-> Data (src/uscxml/messages/Event.cpp).
   Model only; the proofs are in JsonLemmas.v / JsonBuildLemmas.v.

   uscxml::Data is a product (atom, type, array, compound [, node, binary]); node and binary are
   outside the model (NULL / empty).  compound is a std::map<std::string,Data>: an association list
   kept strictly sorted by the byte-wise order of std::string; array is a std::list<Data>. *)
From V Require Import Base Jsmn GenJsonEsc.
Local Open Scope N_scope.

(* ------------------------------------------------------------------------------------------- *)
(* Points at which the pinned code deviates from the property; the repaired code has all switches
   off.  The check determines the vector of the implementation from witness inputs at run time. *)
Record js_variant := {
  jv_escape_vtab : bool;     (* jsonEscape writes "\v", which jsmn_parse_string rejects *)
  jv_key_overread : bool;    (* fromJSON: no end-of-tokens test after a key: the sentinel is consumed
                                as the value and the next read is behind the token array *)
  jv_container_key : bool;   (* fromJSON: the two stacks are used unguarded.  An object/array where a key is
                                expected is accepted in either variant (lenient texts depend on it) and
                                brings the data stack and the token stack out of step; on: back()/pop_back()
                                on an empty stack (undefined behaviour); off (repaired): every such access
                                is preceded by an emptiness test that throws "unbalanced structure" *)
  jv_null_atom : bool;       (* fromJSON: the primitive `null` (which toJSON writes for the empty value)
                                becomes the atom "null" *)
  jv_event_data_self : bool  (* Event::operator Data(): `data["data"] = data` copies the local
                                variable into itself instead of the member this->data *)
}.

Definition js_pinned : js_variant :=
  {| jv_escape_vtab := true; jv_key_overread := true; jv_container_key := true; jv_null_atom := true;
     jv_event_data_self := true |}.
Definition js_fixed : js_variant :=
  {| jv_escape_vtab := false; jv_key_overread := false; jv_container_key := false; jv_null_atom := false;
     jv_event_data_self := false |}.

(* ------------------------------------------------------------------------------------------- *)
(* escape tables.  The generic functions take the tables of GenJsonEsc.v's shape. *)

Fixpoint esc_lookup (tbl : list (N * bytes)) (c : N) : option bytes :=
  match tbl with
  | [] => None
  | (k, s) :: r => if c =? k then Some s else esc_lookup r c
  end.

Definition escape_byte (tbl : list (N * bytes)) (c : N) : bytes :=
  match esc_lookup tbl c with Some s => s | None => [c] end.

Fixpoint json_escape_with (tbl : list (N * bytes)) (s : bytes) : bytes :=
  match s with
  | [] => []
  | c :: r => escape_byte tbl c ++ json_escape_with tbl r
  end.

Fixpoint unesc_lookup (tbl : list (N * N)) (c : N) : N :=
  match tbl with
  | [] => c                                    (* default: output += expr[i] *)
  | (k, o) :: r => if c =? k then o else unesc_lookup r c
  end.

(* the loop of jsonUnescape with its [escape] flag *)
Fixpoint json_unescape_with (flag : N) (tbl : list (N * N)) (escape : bool) (s : bytes) : bytes :=
  match s with
  | [] => []
  | c :: r =>
    if escape then unesc_lookup tbl c :: json_unescape_with flag tbl false r
    else if c =? flag then json_unescape_with flag tbl true r
    else c :: json_unescape_with flag tbl false r
  end.

(* the two known states of the jsonEscape chain (source order) *)
Definition escape_table_fixed : list (N * bytes) :=
  [(9, [92; 116]); (8, [92; 98]); (12, [92; 102]); (10, [92; 110]); (13, [92; 114]);
   (34, [92; 34]); (92, [92; 92])].
Definition escape_table_pinned : list (N * bytes) :=
  [(9, [92; 116]); (11, [92; 118]); (8, [92; 98]); (12, [92; 102]); (10, [92; 110]); (13, [92; 114]);
   (34, [92; 34]); (92, [92; 92])].
Definition escape_table (v : js_variant) : list (N * bytes) :=
  if jv_escape_vtab v then escape_table_pinned else escape_table_fixed.

Definition unescape_table : list (N * N) :=
  [(34, 34); (47, 47); (98, 8); (102, 12); (110, 10); (114, 13); (116, 9); (92, 92)].

Definition json_escape (v : js_variant) (s : bytes) : bytes := json_escape_with (escape_table v) s.
Definition json_unescape (s : bytes) : bytes := json_unescape_with 92 unescape_table false s.

(* the same functions on the tables regenerated from the source *)
Definition json_escape_gen (s : bytes) : bytes := json_escape_with gen_escape_table s.
Definition json_unescape_gen (s : bytes) : bytes :=
  json_unescape_with gen_unescape_flag_char gen_unescape_table false s.

(* ------------------------------------------------------------------------------------------- *)
(* Data *)

Inductive data := D (verbatim : bool) (atom : bytes) (arr : list data) (comp : list (bytes * data)).

Definition d_verbatim (d : data) := match d with D v _ _ _ => v end.
Definition d_atom (d : data) := match d with D _ a _ _ => a end.
Definition d_arr (d : data) := match d with D _ _ l _ => l end.
Definition d_comp (d : data) := match d with D _ _ _ m => m end.

Definition empty_data : data := D false [] [] [].            (* Data() *)
Definition str_data (s : bytes) : data := D true s [] [].     (* Data(s, Data::VERBATIM) *)
Definition num_data (s : bytes) : data := D false s [] [].    (* Data(s, Data::INTERPRETED) *)

(* std::string::compare: byte-wise, a proper prefix is smaller *)
Fixpoint bytes_ltb (a b : bytes) : bool :=
  match a, b with
  | [], [] => false
  | [], _ :: _ => true
  | _ :: _, [] => false
  | x :: a', y :: b' => if x <? y then true else if y <? x then false else bytes_ltb a' b'
  end.

Section Map.
Context {A : Type}.
Fixpoint map_find (k : bytes) (m : list (bytes * A)) : option A :=
  match m with
  | [] => None
  | (k', v) :: r => if beq_bytes k k' then Some v else map_find k r
  end.
(* compound[k] = v : replace, or insert in key order *)
Fixpoint map_set (k : bytes) (v : A) (m : list (bytes * A)) : list (bytes * A) :=
  match m with
  | [] => [(k, v)]
  | (k', v') :: r =>
    if beq_bytes k k' then (k, v) :: r
    else if bytes_ltb k k' then (k, v) :: (k', v') :: r
    else (k', v') :: map_set k v r
  end.
(* std::multimap::insert: after the last element whose key is not greater *)
Fixpoint mmap_insert (k : bytes) (v : A) (m : list (bytes * A)) : list (bytes * A) :=
  match m with
  | [] => [(k, v)]
  | (k', v') :: r =>
    if bytes_ltb k k' then (k, v) :: (k', v') :: r
    else (k', v') :: mmap_insert k v r
  end.
(* strictly increasing keys (the iteration order of a std::map), stated pairwise *)
Fixpoint keys_sorted (m : list (bytes * A)) : bool :=
  match m with
  | [] => true
  | (k, _) :: r => forallb (fun kv => bytes_ltb k (fst kv)) r && keys_sorted r
  end.
(* std::multimap order: no later key is smaller, stated pairwise *)
Fixpoint keys_sorted_le (m : list (bytes * A)) : bool :=
  match m with
  | [] => true
  | (k, _) :: r => forallb (fun kv => negb (bytes_ltb (fst kv) k)) r && keys_sorted_le r
  end.
End Map.

(* Data::operator== (structural equality of atom, type, array, compound) *)
Fixpoint data_eqb (a b : data) {struct a} : bool :=
  match a, b with
  | D v1 a1 l1 m1, D v2 a2 l2 m2 =>
    Bool.eqb v1 v2 && beq_bytes a1 a2 &&
    (fix arr_eqb (l1 l2 : list data) {struct l1} : bool :=
       match l1, l2 with
       | [], [] => true
       | x :: r1, y :: r2 => data_eqb x y && arr_eqb r1 r2
       | _, _ => false
       end) l1 l2 &&
    (fix comp_eqb (m1 m2 : list (bytes * data)) {struct m1} : bool :=
       match m1, m2 with
       | [], [] => true
       | (k1, x) :: r1, (k2, y) :: r2 => beq_bytes k1 k2 && data_eqb x y && comp_eqb r1 r2
       | _, _ => false
       end) m1 m2
  end.

(* ------------------------------------------------------------------------------------------- *)
(* Data::toJSON.  [ind] is the value of the file-static _dataIndentation (1 at the outermost call);
   `os << child` re-enters toJSON with the counter incremented. *)

Definition spaces (n : nat) : bytes := repeat 32 n.
Definition indent_of (ind : nat) : bytes := spaces (2 * (ind + 1)).   (* for (i = 0; i <= ind; i++) "  " *)
Definition nl : bytes := [10].                                       (* std::endl *)
Definition sep_comma : bytes := [44; 32].                            (* ", " *)
Definition s_null : bytes := [110; 117; 108; 108].

Definition longest_key (m : list (bytes * data)) : nat :=
  fold_left (fun acc kv => if (acc <? length (fst kv))%nat then length (fst kv) else acc) m O.

(* the two loops of toJSON over the children; [rec] is `os << child` (toJSON with the counter + 1) *)
Section ToJsonLists.
Variable v : js_variant.
Variable rec : data -> bytes.
Variable ind : nat.
Variable longest : nat.
Fixpoint json_entries (first : bool) (m : list (bytes * data)) {struct m} : bytes :=
  match m with
  | [] => []
  | (k, c) :: r =>
    (if first then [] else sep_comma) ++ nl ++ indent_of ind ++ [32; 32; c_quote] ++
    json_escape v k ++ [c_quote; c_colon; 32] ++ spaces (longest - length k) ++
    rec c ++ json_entries false r
  end.
Fixpoint json_elems (first : bool) (l : list data) {struct l} : bytes :=
  match l with
  | [] => []
  | c :: r => (if first then [] else sep_comma) ++ rec c ++ json_elems false r
  end.
End ToJsonLists.

Fixpoint to_json (v : js_variant) (ind : nat) (d : data) {struct d} : bytes :=
  match d with
  | D verb atom arr comp =>
    match comp with
    | _ :: _ =>
      [c_lbrace] ++ json_entries v (to_json v (S ind)) ind (longest_key comp) true comp ++
      nl ++ indent_of ind ++ [c_rbrace]
    | [] =>
      match arr with
      | _ :: _ =>
        nl ++ indent_of ind ++ [c_lbrack] ++ json_elems (to_json v (S ind)) true arr ++ [c_rbrack]
      | [] =>
        match atom with
        | _ :: _ => if verb then [c_quote] ++ json_escape v atom ++ [c_quote] else atom
        | [] => if verb then [c_quote; c_quote] else s_null
        end
      end
    end
  end.

Definition data_to_json (v : js_variant) (d : data) : bytes := to_json v 1 d.

(* ------------------------------------------------------------------------------------------- *)
(* Data::fromJSON *)

Inductive outcome (A : Type) :=
| Ok (a : A)
| Err (e : N)          (* an ErrorEvent is thrown: 1 NOMEM, 2 INVAL, 3 PART, 4 unbalanced structure (repaired code) *)
| Oob (what : N)       (* undefined behaviour: 1 token array read behind its end, 2 dataStack.back()/
                          pop_back() on the empty list, 3 tokenStack.back() on the empty list,
                          4 token array written outside its allocated part (jsmn) *)
| OutOfFuel.
Arguments Ok {A} a. Arguments Err {A} e. Arguments Oob {A} what. Arguments OutOfFuel {A}.

Definition err_code (e : jsmnerr) : N := match e with JNOMEM => 1 | JINVAL => 2 | JPART => 3 end.

Fixpoint dropwhile (f : N -> bool) (s : bytes) : bytes :=
  match s with
  | [] => []
  | c :: r => if f c then dropwhile f r else s
  end.
(* boost::trim_copy with the classic locale *)
Definition trim (s : bytes) : bytes := rev (dropwhile isspace (rev (dropwhile isspace s))).

(* trimmed.substr(start, end - start) for int start/end converted to size_t (tokens have
   0 <= start <= end <= size, the sentinel 0,0) *)
Definition substr (s : bytes) (st en : Z) : bytes :=
  firstn (Z.to_nat (en - st)) (skipn (Z.to_nat st) s).

(* the retry loop: frac = 16; do { frac /= 2; nrTokens = size / frac; parse } while (NOMEM && frac > 1).
   Returns the parse result and the budget nrTokens of the last attempt. *)
Fixpoint tok_retry (fuel : nat) (frac : nat) (trimmed : bytes) : option (jres (list token) * nat) :=
  match fuel with
  | O => None
  | S f =>
    let frac' := Nat.div frac 2 in
    let n := Nat.div (length trimmed) frac' in
    match jsmn_parse n trimmed with
    | JErr JNOMEM => if (1 <? frac')%nat then tok_retry f frac' trimmed else Some (JErr JNOMEM, n)
    | r => Some (r, n)
    end
  end.

(* the pointers on dataStack always form a chain root -> child -> grandchild (every pointer pushed is
   a child of the then top, writes go through the top only), so the stack is a zipper: the data at
   the top and, per level, the parent with the way the child hangs in it. *)
Inductive frame :=
| FArr (parent : data)                 (* &parent.array.back() : the child is appended on the way up *)
| FKey (parent : data) (k : bytes).    (* &parent.compound[k] *)
Inductive dstack :=
| DS (top : data) (below : list frame)
| DSEmpty (root : data).               (* the list is empty; [root] is the local variable `data` *)

Definition plug (f : frame) (c : data) : data :=
  match f with
  | FArr (D v a l m) => D v a (l ++ [c]) m
  | FKey (D v a l m) k => D v a l (map_set k c m)
  end.
Fixpoint plug_all (c : data) (fs : list frame) : data :=
  match fs with
  | [] => c
  | f :: r => plug_all (plug f c) r
  end.
Definition ds_root (s : dstack) : data :=
  match s with DS c fs => plug_all c fs | DSEmpty r => r end.
Definition ds_pop (s : dstack) : option dstack :=
  match s with
  | DS c [] => Some (DSEmpty c)
  | DS c (f :: r) => Some (DS (plug f c) r)
  | DSEmpty _ => None
  end.
Definition ds_top (s : dstack) : option data := match s with DS c _ => Some c | DSEmpty _ => None end.
Definition ds_set_top (s : dstack) (c : data) : dstack :=
  match s with DS _ fs => DS c fs | DSEmpty r => DSEmpty r end.
(* dataStack.push_back(&(dataStack.back()->compound[k])) : the element is created if absent *)
Definition ds_push_key (s : dstack) (k : bytes) : option dstack :=
  match s with
  | DS c fs => Some (DS (match map_find k (d_comp c) with Some x => x | None => empty_data end) (FKey c k :: fs))
  | DSEmpty _ => None
  end.
(* dataStack.back()->array.push_back(Data()); dataStack.push_back(&(dataStack.back()->array.back())) *)
Definition ds_push_elem (s : dstack) : option dstack :=
  match s with
  | DS c fs => Some (DS empty_data (FArr c :: fs))
  | DSEmpty _ => None
  end.

Section Build.
Variable v : js_variant.
Variable js : bytes.            (* trimmed *)
Variable t : list token.        (* the token array: nrTokens + 1 entries, zero-filled behind toknext *)

Definition tok_at (i : nat) : option token := nth_error t i.

Definition ds_is_empty (s : dstack) : bool := match s with DS _ _ => false | DSEmpty _ => true end.

(* pinned:   while (t[currTok].end > tokenStack.back().end) { tokenStack.pop_back(); dataStack.pop_back(); }
   repaired: while (!tokenStack.empty() && t[currTok].end > tokenStack.back().end) {
               tokenStack.pop_back(); if (!dataStack.empty()) dataStack.pop_back(); }
             if (tokenStack.empty() || dataStack.empty()) throw
   tokenStack is a list with back() first. *)
Fixpoint pop_loop (e : Z) (ts : list token) (ds : dstack) : outcome (list token * dstack) :=
  match ts with
  | [] => if jv_container_key v then Oob 3 else Err 4
  | top :: ts' =>
    if (tend top <? e)%Z then
      match ds_pop ds with
      | Some ds' => pop_loop e ts' ds'
      | None => if jv_container_key v then Oob 2 else pop_loop e ts' ds
      end
    else if negb (jv_container_key v) && ds_is_empty ds then Err 4
    else Ok (ts, ds)
  end.

Definition is_keyish (tk : token) : bool := (ttype tk =? T_PRIM) || (ttype tk =? T_STRING).

(* switch (t[currTok].type) { ... } : (currTok, dataStack, tokenStack) afterwards *)
Definition bswitch (tk : token) (cur : nat) (ds : dstack) (ts : list token) : outcome (nat * dstack * list token) :=
  if (ttype tk =? T_STRING) || (ttype tk =? T_PRIM) then
    match ds_top ds with
    | None => Oob 2
    | Some (D verb atom arr comp) =>
      let verb' := if ttype tk =? T_STRING then true else verb in        (* case JSMN_STRING falls through *)
      let value := json_unescape (substr js (tstart tk) (tend tk)) in
      let atom' := if negb (jv_null_atom v) && (ttype tk =? T_PRIM) && beq_bytes value s_null
                   then atom else value in
      match ds_pop (ds_set_top ds (D verb' atom' arr comp)) with
      | Some ds' => Ok (S cur, ds', ts)
      | None => Oob 2
      end
    end
  else if (ttype tk =? T_OBJECT) || (ttype tk =? T_ARRAY) then Ok (S cur, ds, tk :: ts)
  else Ok (cur, ds, ts).

(* if (tokenStack.back().type == JSMN_OBJECT && t[currTok] is PRIMITIVE or STRING) { key }
   : (break?, currTok, dataStack) afterwards *)
Definition bkey (back tk1 : token) (cur1 : nat) (ds2 : dstack) : outcome (bool * nat * dstack) :=
  if (ttype back =? T_OBJECT) && is_keyish tk1 then
    let key := json_unescape (substr js (tstart tk1) (tend tk1)) in
    match ds_push_key ds2 key with
    | None => Oob 2
    | Some ds3 =>
      if jv_key_overread v then Ok (false, S cur1, ds3)
      else (* repaired: a key that is the last token ends the loop *)
        match tok_at (S cur1) with
        | None => Oob 1
        | Some tk2 => Ok ((tend tk2 =? 0)%Z, S cur1, ds3)
        end
    end
  else Ok (false, cur1, ds2).

(* the rest of the loop body after the switch; [rec] is the next iteration *)
Definition bmid (rec : nat -> dstack -> list token -> outcome data)
           (cur1 : nat) (ds1 : dstack) (ts1 : list token) : outcome data :=
  match tok_at cur1 with
  | None => Oob 1
  | Some tk1 =>
    (* if (t[currTok].end == 0 || tokenStack.empty()) break; *)
    if (tend tk1 =? 0)%Z || match ts1 with [] => true | _ => false end then Ok (ds_root ds1)
    else
      match pop_loop (tend tk1) ts1 ds1 with
      | Ok (ts2, ds2) =>
        match ts2 with
        | [] => Oob 3
        | back :: _ =>
          match bkey back tk1 cur1 ds2 with
          | Ok (true, _, ds3) => Ok (ds_root ds3)
          | Ok (false, cur3, ds3) =>
            (* if (tokenStack.back().type == JSMN_ARRAY) *)
            if ttype back =? T_ARRAY then
              match ds_push_elem ds3 with
              | Some ds4 => rec cur3 ds4 ts2
              | None => Oob 2
              end
            else rec cur3 ds3 ts2
          | Err e => Err e
          | Oob w => Oob w
          | OutOfFuel => OutOfFuel
          end
        end
      | Err e => Err e
      | Oob w => Oob w
      | OutOfFuel => OutOfFuel
      end
  end.

(* the do { ... } while (true) loop; one unit of fuel per iteration *)
Fixpoint build (fuel : nat) (cur : nat) (ds : dstack) (ts : list token) : outcome data :=
  match fuel with
  | O => OutOfFuel
  | S fuel' =>
    (* repaired: if (dataStack.empty()) throw "unbalanced structure" *)
    if negb (jv_container_key v) && ds_is_empty ds then Err 4
    else
    match tok_at cur with
    | None => Oob 1
    | Some tk =>
      match bswitch tk cur ds ts with
      | Ok (cur1, ds1, ts1) => bmid (build fuel') cur1 ds1 ts1
      | Err e => Err e
      | Oob w => Oob w
      | OutOfFuel => OutOfFuel
      end
    end
  end.
End Build.

(* fuel of the retry loop and of the builder as functions of the input *)
Definition retry_fuel : nat := 4.
Definition build_fuel (ntok : nat) : nat := ntok + 2.

Definition from_json_fuel (v : js_variant) (rfuel : nat) (bfuel : nat -> nat) (s : bytes) : outcome data :=
  let trimmed := trim s in
  match trimmed with
  | [] => Ok empty_data                                    (* trimmed.length() == 0 *)
  | c :: _ =>
    if negb ((c =? c_lbrace) || (c =? c_lbrack)) then Ok empty_data   (* find_first_of("{[") != 0 *)
    else
      match tok_retry rfuel 16 trimmed with
      | None => OutOfFuel
      | Some (JErr e, _) => Err (err_code e)
      | Some (JOob, _) => Oob 4
      | Some (JOk toks, n) =>
        (* t = calloc(nrTokens + 1) filled by jsmn up to toknext *)
        let t := toks ++ repeat zero_token (n + 1 - length toks) in
        match nth_error t 0 with
        | None => Oob 1
        | Some t0 =>
          if negb (tend t0 =? Z.of_nat (length trimmed))%Z then Ok empty_data
          else build v trimmed t (bfuel (length t)) 0 (DS empty_data []) []
        end
      end
  end.

Definition from_json (v : js_variant) (s : bytes) : outcome data :=
  from_json_fuel v retry_fuel build_fuel s.

(* ------------------------------------------------------------------------------------------- *)
(* the class of values the property names: strings, numbers, arrays and maps (and, for the code
   whose parser maps `null` back, the empty value, which is also the only representation of an empty
   array or map) *)

Definition num_char (c : N) : bool :=
  ((48 <=? c) && (c <=? 57)) || (c =? 43) || (c =? 45) || (c =? 46) || (c =? 101) || (c =? 69).

Fixpoint canonical (allow_empty : bool) (d : data) {struct d} : bool :=
  match d with
  | D verb atom arr comp =>
    match comp, arr, atom with
    | _ :: _, [], [] =>
      negb verb && keys_sorted comp && forallb (fun kv => canonical allow_empty (snd kv)) comp
    | [], _ :: _, [] => negb verb && forallb (canonical allow_empty) arr
    | [], [], _ :: _ => verb || forallb num_char atom
    | [], [], [] => verb || allow_empty
    | _, _, _ => false
    end
  end.

(* no NUL byte in a key or a string: toJSON writes it raw and jsmn reads a C string *)
Definition no_nul (s : bytes) : bool := forallb (fun c => negb (c =? 0)) s.
Fixpoint nul_free (d : data) {struct d} : bool :=
  match d with
  | D verb atom arr comp =>
    no_nul atom && forallb nul_free arr && forallb (fun kv => no_nul (fst kv) && nul_free (snd kv)) comp
  end.

(* no byte 11 in a key or a string (the pinned jsonEscape writes it as \v) *)
Definition no_vtab (s : bytes) : bool := forallb (fun c => negb (c =? 11)) s.
Fixpoint vtab_free (d : data) {struct d} : bool :=
  match d with
  | D verb atom arr comp =>
    no_vtab atom && forallb vtab_free arr && forallb (fun kv => no_vtab (fst kv) && vtab_free (snd kv)) comp
  end.

(* fromJSON only accepts texts that start with '{' or '[' *)
Definition top_container (d : data) : bool :=
  match d with D _ _ arr comp => match arr, comp with [], [] => false | _, _ => true end end.

(* ------------------------------------------------------------------------------------------- *)
(* Event <-> Data *)

Record event := {
  ev_name : bytes; ev_raw : bytes; ev_type : N; ev_origin : bytes; ev_origintype : bytes;
  ev_sendid : bytes; ev_hide : bool; ev_invokeid : bytes; ev_uuid : bytes;
  ev_data : data;
  ev_namelist : list (bytes * data);      (* std::map *)
  ev_params : list (bytes * data)         (* std::multimap *)
}.

Definition k_data : bytes := [100; 97; 116; 97].
Definition k_raw : bytes := [114; 97; 119].
Definition k_name : bytes := [110; 97; 109; 101].
Definition k_eventType : bytes := [101; 118; 101; 110; 116; 84; 121; 112; 101].
Definition k_origin : bytes := [111; 114; 105; 103; 105; 110].
Definition k_origintype : bytes := [111; 114; 105; 103; 105; 110; 116; 121; 112; 101].
Definition k_sendid : bytes := [115; 101; 110; 100; 105; 100].
Definition k_hideSendId : bytes := [104; 105; 100; 101; 83; 101; 110; 100; 73; 100].
Definition k_invokeid : bytes := [105; 110; 118; 111; 107; 101; 105; 100].
Definition k_uuid : bytes := [117; 117; 105; 100].
Definition k_namelist : bytes := [110; 97; 109; 101; 108; 105; 115; 116].
Definition k_params : bytes := [112; 97; 114; 97; 109; 115].

(* toStr of the enum / of a bool; only the one-digit values occur (INTERNAL=1, EXTERNAL=2, PLATFORM=3) *)
Definition digit_str (n : N) : bytes := [48 + n].
(* strTo<size_t> / strTo<bool> on such a string; anything else reads as 0 (the stream fails) *)
Definition str_digit (s : bytes) : N :=
  match s with
  | [c] => if (48 <=? c) && (c <=? 57) then c - 48 else 0
  | _ => 0
  end.

Definition set_comp (d : data) (k : bytes) (x : data) : data :=
  match d with D vb a l m => D vb a l (map_set k x m) end.
Definition get_comp (d : data) (k : bytes) : data :=       (* data[k] on a non-const Data: creates *)
  match map_find k (d_comp d) with Some x => x | None => empty_data end.

(* Event::operator Data() *)
Definition event_to_data (v : js_variant) (e : event) : data :=
  let d0 := empty_data in
  let d1 := if jv_event_data_self v
            then (* data["data"] = data : the element is created first, then the local `data`
                    (which now holds that empty element) is copied into it *)
                 let created := set_comp d0 k_data empty_data in
                 set_comp created k_data created
            else set_comp d0 k_data (ev_data e) in
  let d2 := set_comp d1 k_raw (str_data (ev_raw e)) in
  let d3 := set_comp d2 k_name (str_data (ev_name e)) in
  let d4 := set_comp d3 k_eventType (str_data (digit_str (ev_type e))) in
  let d5 := set_comp d4 k_origin (str_data (ev_origin e)) in
  let d6 := set_comp d5 k_origintype (str_data (ev_origintype e)) in
  let d7 := set_comp d6 k_sendid (str_data (ev_sendid e)) in
  let d8 := set_comp d7 k_hideSendId (str_data (digit_str (if ev_hide e then 1 else 0))) in
  let d9 := set_comp d8 k_invokeid (str_data (ev_invokeid e)) in
  let d10 := set_comp d9 k_uuid (str_data (ev_uuid e)) in
  let d11 := set_comp d10 k_namelist (D false [] [] (ev_namelist e)) in   (* data["namelist"].compound = namelist *)
  fold_left (fun d (p : bytes * data) =>
               let entry := D false [] [] [(fst p, snd p)] in
               match get_comp d k_params with
               | D vb a l m => set_comp d k_params (D vb a (l ++ [entry]) m)
               end) (ev_params e) d11.

(* hasKey: !compound.empty() && compound.find(key) != end *)
Definition has_key (d : data) (k : bytes) : bool :=
  match map_find k (d_comp d) with Some _ => true | None => false end.

(* Event::fromData; Oob 5: param.compound.begin() dereferenced on an empty map *)
Definition event_from_data (d : data) : outcome event :=
  let atom_of k dflt := match map_find k (d_comp d) with Some x => d_atom x | None => dflt end in
  let params_res :=
    match map_find k_params (d_comp d) with
    | None => Ok []
    | Some p =>
      fold_left (fun acc (x : data) =>
                   match acc with
                   | Ok ps => match d_comp x with
                              | (k, c) :: _ => Ok (mmap_insert k c ps)
                              | [] => Oob 5
                              end
                   | o => o
                   end) (d_arr p) (Ok [])
    end in
  match params_res with
  | Ok ps =>
    Ok {| ev_name := atom_of k_name [];
          ev_raw := atom_of k_raw [];
          ev_type := match map_find k_eventType (d_comp d) with Some x => str_digit (d_atom x) | None => 1 end;
          ev_origin := atom_of k_origin [];
          ev_origintype := atom_of k_origintype [];
          ev_sendid := atom_of k_sendid [];
          ev_hide := match map_find k_hideSendId (d_comp d) with Some x => str_digit (d_atom x) =? 1 | None => false end;
          ev_invokeid := atom_of k_invokeid [];
          ev_uuid := atom_of k_uuid [];
          ev_data := match map_find k_data (d_comp d) with Some x => x | None => empty_data end;
          ev_namelist := match map_find k_namelist (d_comp d) with Some x => d_comp x | None => [] end;
          ev_params := ps |}
  | Err e => Err e
  | Oob w => Oob w
  | OutOfFuel => OutOfFuel
  end.

Fixpoint comp_eqb (m1 m2 : list (bytes * data)) : bool :=
  match m1, m2 with
  | [], [] => true
  | (k1, x) :: r1, (k2, y) :: r2 => beq_bytes k1 k2 && data_eqb x y && comp_eqb r1 r2
  | _, _ => false
  end.

(* equality of all fields (Event::operator== compares name, sendid, invokeid and data only) *)
Definition event_eqb (a b : event) : bool :=
  beq_bytes (ev_name a) (ev_name b) && beq_bytes (ev_raw a) (ev_raw b) && (ev_type a =? ev_type b) &&
  beq_bytes (ev_origin a) (ev_origin b) && beq_bytes (ev_origintype a) (ev_origintype b) &&
  beq_bytes (ev_sendid a) (ev_sendid b) && Bool.eqb (ev_hide a) (ev_hide b) &&
  beq_bytes (ev_invokeid a) (ev_invokeid b) && beq_bytes (ev_uuid a) (ev_uuid b) &&
  data_eqb (ev_data a) (ev_data b) && comp_eqb (ev_namelist a) (ev_namelist b) &&
  comp_eqb (ev_params a) (ev_params b).

Definition wf_event (e : event) : bool :=
  (1 <=? ev_type e) && (ev_type e <=? 3) && keys_sorted (ev_namelist e) && keys_sorted_le (ev_params e).
