(* Validate.v -- the structural part of InterpreterIssue::forInterpreter (src/uscxml/debug/
   InterpreterIssue.cpp) over arbitrary element trees built from SCXML vocabulary, the predicates of
   src/uscxml/util/Predicates.cpp it uses (isState/isAtomic/isCompound/isParallel, getChildStates,
   getState, getStates, getTargetStates, getInitialStates, getReachableStates), getAllConfigurations
   and hasLegalCompletion, and the two reference predicates wf_chartb (what the semantic theorems
   assume of a chart) and conformantb (structural constraints of the Recommendation).  Model only.

   Elements are identified the way the C++ identifies them -- by pointer -- here: by their path from
   the root (child positions, nearest first).  A handle [el] carries the path, the element and the
   chain of its ancestors, so that getParentNode() is structural and nothing is ever looked up by
   position.  A NULL pointer is [None]; where the C++ dereferences a pointer that may be NULL the
   model has the outcome [Crash]. *)
From V Require Import Base.
Local Open Scope nat_scope.

(* ------------------------------------------------------------------ documents *)

(* GContainer: onentry, onexit, finalize.  GExec: raise if elseif else foreach log send assign
   script cancel.  GOther: every other element (datamodel, data, donedata, content, param, invoke,
   elements of other namespaces). *)
Inductive gtag := GScxml | GState | GParallel | GFinal | GHistory | GInitial | GTransition
                | GContainer | GExec | GOther.

Definition gtag_eqb (a b : gtag) : bool :=
  match a, b with
  | GScxml, GScxml | GState, GState | GParallel, GParallel | GFinal, GFinal | GHistory, GHistory
  | GInitial, GInitial | GTransition, GTransition | GContainer, GContainer | GExec, GExec
  | GOther, GOther => true
  | _, _ => false
  end.

(* attributes the structural checks read; id/initial/target after tokenize() *)
Record gattrs := {
  ga_id : option bytes;               (* None: no id attribute *)
  ga_initial : option (list bytes);
  ga_target : option (list bytes);
  ga_deep : bool;                     (* type="deep" *)
  ga_cond : bool;                     (* has a cond attribute *)
  ga_event : bool                     (* has an event attribute *)
}.

Inductive gdoc := GNode (tag : gtag) (a : gattrs) (kids : list gdoc).

Definition g_tag (d : gdoc) := let 'GNode t _ _ := d in t.
Definition g_attrs (d : gdoc) := let 'GNode _ a _ := d in a.
Definition g_kids (d : gdoc) := let 'GNode _ _ k := d in k.

Fixpoint gsize (d : gdoc) : nat :=
  match d with GNode _ _ kids => S (fold_right (fun k a => gsize k + a) 0 kids) end.

(* ------------------------------------------------------------------ pointers *)

Definition ptr := list nat.           (* child positions, nearest first; [] = the root *)

Fixpoint ptr_eqb (a b : ptr) : bool :=
  match a, b with
  | [], [] => true
  | x :: a', y :: b' => (x =? y) && ptr_eqb a' b'
  | _, _ => false
  end.

Record el := { e_path : ptr; e_node : gdoc; e_anc : list gdoc }.

Definition e_tag (e : el) := g_tag (e_node e).
Definition e_attrs (e : el) := g_attrs (e_node e).
Definition el_eqb (a b : el) : bool := ptr_eqb (e_path a) (e_path b).

Definition root_el (d : gdoc) : el := {| e_path := []; e_node := d; e_anc := [] |}.

Section Mapi.
  Context {A B : Type} (f : nat -> A -> B).
  Fixpoint mapi_from (i : nat) (l : list A) : list B :=
    match l with [] => [] | x :: r => f i x :: mapi_from (S i) r end.
End Mapi.

(* the element and all its descendants, document order *)
Fixpoint desc_from (p : ptr) (anc : list gdoc) (d : gdoc) {struct d} : list el :=
  match d with
  | GNode t a kids =>
      {| e_path := p; e_node := d; e_anc := anc |}
        :: concat (mapi_from (fun i k => desc_from (i :: p) (d :: anc) k) 0 kids)
  end.

Definition kids_el (e : el) : list el :=
  mapi_from (fun i k => {| e_path := i :: e_path e; e_node := k; e_anc := e_node e :: e_anc e |})
            0 (g_kids (e_node e)).

(* proper descendants, document order: assembleNodeSets, filterChildElements(.., recurse = true) *)
Definition descendants (e : el) : list el :=
  concat (mapi_from (fun i k => desc_from (i :: e_path e) (e_node e :: e_anc e) k) 0 (g_kids (e_node e))).

Definition with_tag (t : gtag) (l : list el) : list el := filter (fun e => gtag_eqb (e_tag e) t) l.

(* getParentNode() as long as it is an element *)
Definition parent_el (e : el) : option el :=
  match e_path e, e_anc e with
  | _ :: p, a :: r => Some {| e_path := p; e_node := a; e_anc := r |}
  | _, _ => None
  end.

Fixpoint ancestors_from (p : ptr) (anc : list gdoc) : list el :=
  match anc with
  | [] => []
  | a :: r => {| e_path := tl p; e_node := a; e_anc := r |} :: ancestors_from (tl p) r
  end.
Definition ancestors_el (e : el) : list el := ancestors_from (e_path e) (e_anc e).

Definition parent_path (p : ptr) : option ptr := match p with [] => None | _ :: r => Some r end.
Definition optptr_eqb (a b : option ptr) : bool :=
  match a, b with Some x, Some y => ptr_eqb x y | None, None => true | _, _ => false end.

(* DOMUtils::isDescendant(s1, s2): s2 is reached by walking up from s1 *)
Fixpoint is_desc (p1 p2 : ptr) : bool :=
  match p1 with [] => false | _ :: r => ptr_eqb r p2 || is_desc r p2 end.

Definition mem_el (e : el) (l : list el) : bool := existsb (el_eqb e) l.

(* membership of a possibly-NULL pointer in a list of possibly-NULL pointers *)
Definition oel_eqb (a b : option el) : bool :=
  match a, b with Some x, Some y => el_eqb x y | None, None => true | _, _ => false end.
Definition mem_oel (e : option el) (l : list (option el)) : bool := existsb (oel_eqb e) l.

(* ------------------------------------------------------------------ outcomes *)

Inductive outcome (A : Type) := Ok (a : A) | Crash (why : N) | OutOfFuel.
Arguments Ok {A} a. Arguments Crash {A} why. Arguments OutOfFuel {A}.

Definition bind {A B} (o : outcome A) (f : A -> outcome B) : outcome B :=
  match o with Ok a => f a | Crash w => Crash w | OutOfFuel => OutOfFuel end.
Notation "'do' x <- o ; f" := (bind o (fun x => f)) (at level 200, x name, o at level 100, f at level 200).

Fixpoint mapM {A B} (f : A -> outcome B) (l : list A) : outcome (list B) :=
  match l with
  | [] => Ok []
  | x :: r => do y <- f x; do ys <- mapM f r; Ok (y :: ys)
  end.

(* ------------------------------------------------------------------ variants (defect switches) *)

Record vvariant := {
  vv_getstates_null : bool;       (* getStates() pushes NULL for an unknown id (Predicates.cpp:303) *)
  vv_any_parallel_ancestor : bool;(* hasLegalCompletion accepts a pair when ANY common ancestor is a <parallel> *)
  vv_root_initial_unchecked : bool;(* target set of <scxml initial=..> is not tested for a legal completion *)
  vv_initial_target_optional : bool;(* <initial><transition/> without target is not reported *)
  vv_id_required : bool;          (* a state without id attribute is a FATAL issue *)
  vv_nesting_warning_only : bool; (* state/transition elements below a wrong parent are only a WARNING *)
  vv_empty_initial_unchecked : bool; (* initial="" is not reported *)
  vv_hist_pseudo_target_unchecked : bool (* a <history>/<initial> element as target of a history's default transition is not reported *)
}.

Definition vv_pinned : vvariant :=
  {| vv_getstates_null := true; vv_any_parallel_ancestor := true; vv_root_initial_unchecked := true;
     vv_initial_target_optional := true; vv_id_required := true; vv_nesting_warning_only := true;
     vv_empty_initial_unchecked := true; vv_hist_pseudo_target_unchecked := true |}.
Definition vv_fixed : vvariant :=
  {| vv_getstates_null := false; vv_any_parallel_ancestor := false; vv_root_initial_unchecked := false;
     vv_initial_target_optional := false; vv_id_required := false; vv_nesting_warning_only := false;
     vv_empty_initial_unchecked := false; vv_hist_pseudo_target_unchecked := false |}.
(* the repaired code without patches/C19-history-default-pseudo-target.diff *)
Definition vv_hist_unchecked : vvariant :=
  {| vv_getstates_null := false; vv_any_parallel_ancestor := false; vv_root_initial_unchecked := false;
     vv_initial_target_optional := false; vv_id_required := false; vv_nesting_warning_only := false;
     vv_empty_initial_unchecked := false; vv_hist_pseudo_target_unchecked := true |}.

(* ------------------------------------------------------------------ Predicates.cpp *)

Definition is_state_tag (t : gtag) (properOnly : bool) : bool :=
  match t with
  | GState | GScxml | GParallel | GFinal => true
  | GHistory | GInitial => negb properOnly
  | _ => false
  end.
Definition is_state (e : el) (properOnly : bool) := is_state_tag (e_tag e) properOnly.

Definition child_states (e : el) (properOnly : bool) : list el :=
  filter (fun k => is_state k properOnly) (kids_el e).

Definition nonempty {A} (l : list A) : bool := match l with [] => false | _ => true end.

Definition is_atomic (e : el) : bool :=
  if negb (is_state e true) then false
  else match e_tag e with
       | GFinal => true
       | GParallel => false
       | _ => negb (nonempty (child_states e true))
       end.
Definition is_parallel (e : el) : bool := match e_tag e with GParallel => true | _ => false end.
Definition is_compound (e : el) : bool :=
  is_state e true && negb (is_parallel e) && nonempty (child_states e true).

Definition has_id (e : el) (id : bytes) : bool :=
  match ga_id (e_attrs e) with Some i => beq_bytes i id | None => false end.

(* getState: breadth first over the state-like children (isState(.., false)) *)
Fixpoint get_state_bfs (fuel : nat) (id : bytes) (queue : list el) : outcome (option el) :=
  match queue with
  | [] => Ok None
  | x :: q =>
      match fuel with
      | O => OutOfFuel
      | S f => if has_id x id then Ok (Some x) else get_state_bfs f id (q ++ child_states x false)
      end
  end.
Definition get_state (root : el) (id : bytes) : outcome (option el) :=
  get_state_bfs (S (gsize (e_node root))) id [root].

Definition toks_of (o : option (list bytes)) : list bytes := match o with Some l => l | None => [] end.

(* getTargetStates: unknown ids are skipped *)
Definition get_target_states (root t : el) : outcome (list el) :=
  do l <- mapM (get_state root) (toks_of (ga_target (e_attrs t)));
  Ok (flat_map (fun o => match o with Some e => [e] | None => [] end) l).

(* getStates: unknown ids become NULL (pinned) or are skipped (repaired) *)
Definition get_states (v : vvariant) (root : el) (ids : list bytes) : outcome (list (option el)) :=
  do l <- mapM (get_state root) ids;
  Ok (if vv_getstates_null v then l else filter (fun o => match o with Some _ => true | None => false end) l).

Definition get_initial_states (v : vvariant) (root : el) (s : option el) : outcome (list (option el)) :=
  let state := match s with Some e => e | None => root end in
  if is_atomic state then Ok []
  else if is_parallel state then Ok (map Some (child_states state true))
  else if is_compound state then
    match ga_initial (e_attrs state) with
    | Some ids => get_states v root ids
    | None =>
        match with_tag GInitial (kids_el state) with
        | ini :: _ =>
            match with_tag GTransition (kids_el ini) with
            | t :: _ => match ga_target (e_attrs t) with
                        | Some _ => do l <- get_target_states root t; Ok (map Some l)
                        | None => Ok []
                        end
            | [] => Ok []
            end
        | [] =>
            match child_states state true with
            | c :: _ => Ok [Some c]
            | [] => Ok []
            end
        end
    end
  else Ok [].

(* one round of the while loop of getReachableStates: returns `current` *)
Definition push_new (additions reachable : list (option el)) (cur : list (option el)) (x : option el) :=
  if negb (mem_oel x additions) && negb (mem_oel x reachable) then cur ++ [x] else cur.

Definition reach_round (v : vvariant) (root : el) (additions reachable : list (option el))
  : outcome (list (option el)) :=
  (* reachable per initial attribute or document order; getInitialStates(NULL, root) means root *)
  do inits <- mapM (get_initial_states v root) additions;
  let cur1 := fold_left (push_new additions reachable) (concat inits) [] in
  (* reachable per target attribute: XML_PREFIX(state) dereferences state *)
  if existsb (fun o => match o with None => true | Some _ => false end) additions then Crash 1
  else
    let adds := flat_map (fun o => match o with Some e => [e] | None => [] end) additions in
    do tgts <- mapM (fun s => do l <- mapM (get_target_states root) (with_tag GTransition (kids_el s)); Ok (concat l)) adds;
    let cur2 := fold_left (push_new additions reachable) (map Some (concat tgts)) cur1 in
    (* reachable via a reachable child state *)
    let ups := flat_map (fun s => if is_atomic s
                                  then (fix up (l : list el) : list el :=
                                          match l with
                                          | [] => []
                                          | a :: r => if is_state a true then a :: up r else []
                                          end) (ancestors_el s)
                                  else []) adds in
    Ok (fold_left (push_new additions reachable) (map Some ups) cur2).

Fixpoint reach_loop (fuel : nat) (v : vvariant) (root : el) (additions reachable : list (option el))
  : outcome (list (option el)) :=
  match additions with
  | [] => Ok reachable
  | _ =>
      match fuel with
      | O => OutOfFuel
      | S f => do cur <- reach_round v root additions reachable;
               reach_loop f v root cur (reachable ++ additions)
      end
  end.

Definition get_reachable_states (v : vvariant) (root : el) : outcome (list (option el)) :=
  reach_loop (S (S (gsize (e_node root)))) v root [Some root] [].

(* areFromSameMachine(state, _scxml): the nearest <scxml> at or above the state is the root *)
Definition nearest_scxml (e : el) : option ptr :=
  match find (fun a => gtag_eqb (e_tag a) GScxml) (e :: ancestors_el e) with
  | Some a => Some (e_path a) | None => None end.
Definition same_machine (e root : el) : bool := optptr_eqb (nearest_scxml e) (nearest_scxml root).

(* ------------------------------------------------------------------ InterpreterIssue.cpp 52-144 *)

Definition ptr_insert (p : ptr) (s : list ptr) : list ptr := if existsb (ptr_eqb p) s then s else p :: s.
Definition ptr_union (a b : list ptr) : list ptr := fold_right ptr_insert b a.

Definition is_cfg_kid (d : gdoc) : bool :=
  match g_tag d with GState | GParallel | GFinal => true | _ => false end.

(* getAllConfigurations(root): a list of sets of elements *)
Fixpoint all_configs (p : ptr) (d : gdoc) {struct d} : list (list ptr) :=
  match d with
  | GNode t a kids =>
      let nested := mapi_from (fun i k => if is_cfg_kid k then Some (all_configs (i :: p) k) else None) 0 kids in
      let acc :=
        fold_left (fun (acc : list (list ptr)) (n : option (list (list ptr))) =>
                     match n with
                     | None => acc
                     | Some nc =>
                         if (match t with GParallel => true | _ => false end) && nonempty acc
                         then flat_map (fun ex => map (fun nw => ptr_union ex nw) nc) acc
                         else acc ++ map (fun nw => match t with GScxml => nw | _ => ptr_insert p nw end) nc
                     end) nested [] in
      if existsb is_cfg_kid kids then acc else [[p]]
  end.

(* hasLegalCompletion *)
Definition pair_ok (v : vvariant) (s1 s2 : el) : bool :=
  is_desc (e_path s1) (e_path s2) || is_desc (e_path s2) (e_path s1) ||
  (fix walk (l : list el) : bool :=
     match l with
     | [] => false
     | a :: r =>
         if is_desc (e_path s2) (e_path a)
         then if is_parallel a then true
              else if vv_any_parallel_ancestor v then walk r else false
         else walk r
     end) (ancestors_el s1).

Fixpoint all_pairs_ok (v : vvariant) (l : list el) : bool :=
  match l with
  | [] => true
  | s1 :: r => forallb (pair_ok v s1) r && all_pairs_ok v r
  end.

Definition has_legal_completion (v : vvariant) (states : list el) : bool :=
  if length states <? 2 then true else all_pairs_ok v states.

(* ------------------------------------------------------------------ issues *)

Inductive sev := Fatal | Warning | Info.
Inductive icls :=
| INoId | IEmptyId
| IHistMulti | IHistNone | IHistCond | IHistEvent | IHistNoTarget | IHistDeepIllegal | IHistShallowIllegal | IHistPseudoTarget
| IUnreachable | IDuplicate
| ITransEmptyTargets | ITransNoSuchTarget
| IUselessHistAtomic | IUselessHistSingle
| IInitAttrInvalid | IInitAttrNonChild | IInitAttrEmpty
| IIllegalTargets
| IInitialNotOneTrans | IInitTransCond | IInitTransEvent | IInitTransNonChild | IInitTransNoTarget
| IExecUnknown
| INesting.

Record issue := { i_sev : sev; i_cls : icls; i_at : ptr; i_args : list bytes }.
Definition mk (s : sev) (c : icls) (e : el) (args : list bytes) : issue :=
  {| i_sev := s; i_cls := c; i_at := e_path e; i_args := args |}.

Definition is_fatal (i : issue) : bool := match i_sev i with Fatal => true | _ => false end.
Definition no_fatal (l : list issue) : bool := forallb (fun i => negb (is_fatal i)) l.

Definition seen_t := list (bytes * el).
Definition seen_find (seen : seen_t) (id : bytes) : option el :=
  match find (fun p => beq_bytes (fst p) id) seen with Some p => Some (snd p) | None => None end.

Definition id_or_empty (e : el) : bytes := match ga_id (e_attrs e) with Some i => i | None => [] end.

(* <history> and <initial> elements *)
Definition is_pseudo_tag (t : gtag) : bool := match t with GHistory | GInitial => true | _ => false end.

(* lines 357-394: the <history> part of the loop over all states *)
Definition history_issues (v : vvariant) (root state : el) (stateId : bytes) : outcome (list issue) :=
  match with_tag GTransition (kids_el state) with
  | _ :: _ :: _ => Ok [mk Fatal IHistMulti state [stateId]]
  | [] => Ok [mk Fatal IHistNone state [stateId]]
  | [t] =>
      let a := e_attrs t in
      do scope <-
        match ga_target a with
        | None => Ok [mk Fatal IHistNoTarget t [stateId]]
        | Some _ =>
            do targets <- get_target_states root t;
            Ok (flat_map (fun target =>
                  (if negb (vv_hist_pseudo_target_unchecked v) && is_pseudo_tag (e_tag target)
                   then [mk Fatal IHistPseudoTarget t [stateId; id_or_empty target]] else []) ++
                  if ga_deep (e_attrs state)
                  then if negb (match parent_path (e_path state) with
                                | Some pp => is_desc (e_path target) pp | None => false end)
                       then [mk Fatal IHistDeepIllegal t [stateId; id_or_empty target]] else []
                  else if negb (optptr_eqb (parent_path (e_path target)) (parent_path (e_path state)))
                       then [mk Fatal IHistShallowIllegal t [stateId; id_or_empty target]] else [])
                targets)
        end;
      Ok ((if ga_cond a then [mk Fatal IHistCond t [stateId]] else []) ++
          (if ga_event a then [mk Fatal IHistEvent t [stateId]] else []) ++ scope)
  end.

(* lines 338-403: one iteration of the loop over allStates *)
Definition state_step (v : vvariant) (root : el) (reachable : list (option el))
           (acc : list issue * seen_t) (state : el) : outcome (list issue * seen_t) :=
  let '(issues, seen) := acc in
  match ga_id (e_attrs state) with
  | None =>
      if gtag_eqb (e_tag state) GFinal then Ok acc      (* id is not required for finals *)
      else Ok (issues ++ [mk (if vv_id_required v then Fatal else Warning) INoId state []], seen)
  | Some [] => Ok (issues ++ [mk Fatal IEmptyId state []], seen)
  | Some stateId =>
      do hi <- (if gtag_eqb (e_tag state) GHistory then history_issues v root state stateId else Ok []);
      let ur := if negb (mem_oel (Some state) reachable) && same_machine state root
                then [mk Warning IUnreachable state [stateId]] else [] in
      match seen_find seen stateId with
      | Some _ => Ok (issues ++ hi ++ ur ++ [mk Fatal IDuplicate state [stateId]], seen)
      | None => Ok (issues ++ hi ++ ur, seen ++ [(stateId, state)])
      end
  end.

Fixpoint foldM {A B} (f : A -> B -> outcome A) (l : list B) (a : A) : outcome A :=
  match l with [] => Ok a | x :: r => do a' <- f a x; foldM f r a' end.

(* lines 405-422 *)
Definition trans_issues (seen : seen_t) (t : el) : list issue :=
  match ga_target (e_attrs t) with
  | None => []
  | Some ids =>
      (match ids with [] => [mk Fatal ITransEmptyTargets t []] | _ => [] end) ++
      flat_map (fun id => match seen_find seen id with
                          | None => [mk Fatal ITransNoSuchTarget t [id]] | Some _ => [] end) ids
  end.

(* lines 466-485 *)
Definition useless_history_issues (h : el) : list issue :=
  match parent_el h with
  | None => []
  | Some parent =>
      if is_atomic parent then [mk Info IUselessHistAtomic h [id_or_empty h]]
      else if length (all_configs (e_path parent) (e_node parent)) <=? 1
           then [mk Info IUselessHistSingle h [id_or_empty h]] else []
  end.

(* filterChildElements(state|parallel|final|history, state, recurse = true) *)
Definition state_descendants (s : el) : list el :=
  with_tag GState (descendants s) ++ with_tag GParallel (descendants s) ++
  with_tag GFinal (descendants s) ++ with_tag GHistory (descendants s).

(* lines 487-521 *)
Definition initattr_issues (v : vvariant) (seen : seen_t) (s : el) : list issue :=
  match ga_initial (e_attrs s) with
  | None => []
  | Some ids =>
      let childs := state_descendants s in
      (match ids with
       | [] => if vv_empty_initial_unchecked v then [] else [mk Fatal IInitAttrEmpty s []]
       | _ => [] end) ++
      flat_map (fun id => match seen_find seen id with
                          | None => [mk Fatal IInitAttrInvalid s [id]]
                          | Some x => if mem_el x childs then [] else [mk Fatal IInitAttrNonChild s [id]]
                          end) ids
  end.

(* lines 523-566; the std::map is keyed by element pointer: iteration order is not modelled,
   issue lists are compared as multisets *)
Fixpoint resolve_all (seen : seen_t) (ids : list bytes) : option (list el) :=
  match ids with
  | [] => Some []
  | id :: r => match seen_find seen id, resolve_all seen r with
               | Some e, Some l => Some (e :: l) | _, _ => None end
  end.
Definition legal_issue (v : vvariant) (seen : seen_t) (at_ : el) (ids : option (list bytes)) : list issue :=
  match ids with
  | None => []
  | Some l => match resolve_all seen l with
              | None => []
              | Some targets => if has_legal_completion v targets then [] else [mk Fatal IIllegalTargets at_ []]
              end
  end.

(* lines 568-624 *)
Definition initial_el_issues (i : el) : list issue :=
  if length (with_tag GTransition (descendants i)) =? 1 then [] else [mk Fatal IInitialNotOneTrans i []].

Definition grandparent_el (e : el) : option el :=
  match parent_el e with Some p => parent_el p | None => None end.

Definition init_trans_issues (v : vvariant) (seen : seen_t) (t : el) : list issue :=
  (if ga_cond (e_attrs t) then [mk Fatal IInitTransCond t []] else []) ++
  (if ga_event (e_attrs t) then [mk Fatal IInitTransEvent t []] else []) ++
  match grandparent_el t with
  | None => []
  | Some state =>
      if negb (is_state state true) then []
      else
        let childs := state_descendants state in
        (if negb (vv_initial_target_optional v) &&
            match ga_target (e_attrs t) with None => true | Some _ => false end
         then [mk Fatal IInitTransNoTarget t []] else []) ++
        flat_map (fun id => match seen_find seen id with
                            | Some x => if mem_el x childs then [] else [mk Fatal IInitTransNonChild t [id]]
                            | None => [mk Fatal IInitTransNonChild t [id]]
                            end) (toks_of (ga_target (e_attrs t)))
  end.

(* lines 664-688: children of onentry/onexit/transition/finalize that are no executable content *)
Definition exec_issues (block : el) : list issue :=
  flat_map (fun c => match e_tag c with GExec => [] | _ => [mk Fatal IExecUnknown c []] end) (kids_el block).

(* lines 690-724, for state, parallel, final, history, initial, transition elements *)
Definition valid_parent (child parent : gtag) : bool :=
  match child, parent with
  | GState, (GScxml | GState | GParallel) => true
  | GParallel, (GScxml | GState | GParallel) => true
  | GFinal, (GScxml | GState) => true
  | GHistory, (GState | GParallel) => true
  | GInitial, GState => true
  | GTransition, (GState | GParallel | GInitial | GHistory) => true
  | _, _ => false
  end.
Definition is_struct_tag (t : gtag) : bool :=
  match t with GState | GParallel | GFinal | GHistory | GInitial | GTransition => true | _ => false end.
Definition nesting_issues (v : vvariant) (e : el) : list issue :=
  if is_struct_tag (e_tag e)
  then match parent_el e with
       | None => []
       | Some p => if valid_parent (e_tag e) (e_tag p) then []
                   else [mk (if vv_nesting_warning_only v then Warning else Fatal) INesting e []]
       end
  else [].

(* ------------------------------------------------------------------ forInterpreter, structural part *)

Definition all_states_of (all : list el) : list el :=
  with_tag GState all ++ with_tag GParallel all ++ with_tag GHistory all ++ with_tag GFinal all.

(* the checks after the loop over all states (they read the map seenStates the loop has built) *)
Definition static_issues (v : vvariant) (d : gdoc) (seen : seen_t) : list issue :=
  let root := root_el d in
  let all := descendants root in
  let allStates := all_states_of all in
  let transitions := with_tag GTransition all in
  let initials := with_tag GInitial all in
  let i2 := flat_map (trans_issues seen) transitions in
  let i4 := flat_map useless_history_issues (with_tag GHistory all) in
  let i5 := flat_map (initattr_issues v seen) (allStates ++ [root]) in
  let i6 := flat_map (fun t => legal_issue v seen t (ga_target (e_attrs t))) (transitions ++ initials) ++
            flat_map (fun s => legal_issue v seen s (ga_initial (e_attrs s)))
                     (allStates ++ if vv_root_initial_unchecked v then [] else [root]) in
  let i7 := flat_map initial_el_issues initials ++
            flat_map (init_trans_issues v seen) (flat_map (fun i => with_tag GTransition (descendants i)) initials) in
  let i8 := flat_map exec_issues (with_tag GContainer all ++ transitions) in
  let i9 := flat_map (nesting_issues v) all in
  i2 ++ i4 ++ i5 ++ i6 ++ i7 ++ i8 ++ i9.

Definition validate (v : vvariant) (d : gdoc) : outcome (list issue) :=
  let root := root_el d in
  do reachable <- get_reachable_states v root;
  do st <- foldM (state_step v root reachable) (all_states_of (descendants root)) ([], []);
  Ok (fst st ++ static_issues v d (snd st)).

(* ------------------------------------------------------------------ syntax checks (lines 871-1022)
   relative to the datamodel: [valid_stmt] is DataModel::isValidSyntax (for Lua: luaL_loadstring
   accepts the text as a chunk).  The checked texts of a document are given as a list: cond
   attributes, expr attributes of log/content/param (checked as they are) and of data/assign
   (checked as "foo = " ++ expr), script bodies. *)
Inductive syn_item :=
| SCond (e : bytes)         (* cond of transition, if, elseif; array/item/index; *expr of send, invoke, cancel *)
| SExprPlain (e : bytes)    (* expr of log, content, param *)
| SExprAssigned (e : bytes) (* expr of data, assign *)
| SScript (e : bytes).

Section Syntax.
  Variable valid_stmt : bytes -> bool.
  Variable wrap_return : bool.      (* repaired: an expression is tried as "return " ++ e as well *)

  Definition foo_eq : bytes := [102; 111; 111; 32; 61; 32]%N.       (* "foo = " *)
  Definition return_sp : bytes := [114; 101; 116; 117; 114; 110; 32]%N. (* "return " *)

  Definition expr_ok (e : bytes) : bool :=
    valid_stmt e || (wrap_return && valid_stmt (return_sp ++ e)).

  Definition syn_ok (i : syn_item) : bool :=
    match i with
    | SCond e => expr_ok e
    | SExprPlain e => expr_ok e
    | SExprAssigned e => valid_stmt (foo_eq ++ e)
    | SScript e => valid_stmt e
    end.
  Definition syntax_warnings (l : list syn_item) : list syn_item := filter (fun i => negb (syn_ok i)) l.
End Syntax.

(* ------------------------------------------------------------------ reference predicates *)

Definition first_with_id (l : list el) (id : bytes) : option el := find (fun e => has_id e id) l.

Fixpoint nodup_bytes (l : list bytes) : bool :=
  match l with [] => true | x :: r => negb (existsb (beq_bytes x) r) && nodup_bytes r end.

Definition ids_of (l : list el) : list bytes :=
  flat_map (fun e => match ga_id (e_attrs e) with Some i => [i] | None => [] end) l.

(* longest common ancestor test, by paths: the nearest common ancestor of two elements that are not
   in ancestor relation is a <parallel> *)
Definition lca_is_parallel (s1 s2 : el) : bool :=
  match find (fun a => is_desc (e_path s2) (e_path a)) (ancestors_el s1) with
  | Some a => is_parallel a
  | None => false
  end.
Definition compatible (s1 s2 : el) : bool :=
  is_desc (e_path s1) (e_path s2) || is_desc (e_path s2) (e_path s1) || lca_is_parallel s1 s2.
Fixpoint pairwise_compatible (l : list el) : bool :=
  match l with [] => true | s :: r => forallb (compatible s) r && pairwise_compatible r end.

Definition is_none {A} (o : option A) : bool := match o with None => true | Some _ => false end.
Definition is_some {A} (o : option A) : bool := negb (is_none o).

Section Wf.
  Variable d : gdoc.
  Let root := root_el d.
  Let all := descendants root.
  Let allStates := all_states_of all.
  Definition resolve (id : bytes) : option el := first_with_id allStates id.

  Definition targets_resolve_in (ids : list bytes) (scope : el -> bool) : bool :=
    forallb (fun id => match resolve id with Some x => scope x | None => false end) ids.

  Definition targets_compatible (ids : list bytes) : bool :=
    match (fix go (l : list bytes) : option (list el) :=
             match l with [] => Some []
             | id :: r => match resolve id, go r with Some e, Some l' => Some (e :: l') | _, _ => None end end) ids with
    | Some ts => (length ts <? 2) || pairwise_compatible ts
    | None => true
    end.

  (* W1: structural elements sit below the parents the schema allows, blocks contain executable content *)
  Definition wf_nesting : bool :=
    forallb (fun e => negb (is_struct_tag (e_tag e)) ||
                      match parent_el e with Some p => valid_parent (e_tag e) (e_tag p) | None => true end) all &&
    forallb (fun b => forallb (fun c => gtag_eqb (e_tag c) GExec) (kids_el b))
            (with_tag GContainer all ++ with_tag GTransition all).

  (* W2: ids of states are non-empty and unique *)
  Definition wf_ids : bool :=
    nodup_bytes (ids_of allStates) && forallb (fun i => nonempty i) (ids_of allStates).

  (* W3: transition targets exist *)
  Definition wf_targets : bool :=
    forallb (fun t => match ga_target (e_attrs t) with
                      | None => true
                      | Some ids => nonempty ids && targets_resolve_in ids (fun _ => true)
                      end) (with_tag GTransition all).

  (* W4: initial attributes name descendants *)
  Definition wf_initattr : bool :=
    forallb (fun s => match ga_initial (e_attrs s) with
                      | None => true
                      | Some ids => nonempty ids && targets_resolve_in ids (fun x => mem_el x (state_descendants s))
                      end) (allStates ++ [root]).

  (* W0: the document has a state to enter.  Not a clause of wf_chartb: validation has no such check (and
     the project's own test-validating relies on state-less documents); a side condition of validate_sound *)
  Definition wf_root : bool := gtag_eqb (g_tag d) GScxml && nonempty (child_states root true).

  (* W5: <initial> has exactly one transition: no cond, no event, a target, into descendants of the state *)
  Definition wf_initial_el : bool :=
    forallb (fun i =>
      match with_tag GTransition (descendants i) with
      | [t] => negb (ga_cond (e_attrs t)) && negb (ga_event (e_attrs t)) &&
               match grandparent_el t with
               | Some s => negb (is_state s true) ||
                           (is_some (ga_target (e_attrs t)) &&
                            targets_resolve_in (toks_of (ga_target (e_attrs t))) (fun x => mem_el x (state_descendants s)))
               | None => true
               end
      | _ => false
      end) (with_tag GInitial all).

  (* W6: <history> (with id) has exactly one unconditional default transition to proper states in the right scope *)
  Definition wf_history : bool :=
    forallb (fun h =>
      match ga_id (e_attrs h) with
      | None => true
      | Some _ =>
        match with_tag GTransition (kids_el h) with
        | [t] => negb (ga_cond (e_attrs t)) && negb (ga_event (e_attrs t)) &&
                 match ga_target (e_attrs t) with
                 | None => false
                 | Some ids =>
                     targets_resolve_in ids (fun x =>
                       negb (is_pseudo_tag (e_tag x)) &&
                       if ga_deep (e_attrs h)
                       then match parent_path (e_path h) with Some pp => is_desc (e_path x) pp | None => false end
                       else optptr_eqb (parent_path (e_path x)) (parent_path (e_path h)))
                 end
        | _ => false
        end
      end) (with_tag GHistory all).

  (* W7: every target set has a legal completion *)
  Definition wf_target_sets : bool :=
    (* (a target attribute on an <initial> element itself is read by the validator as well) *)
    forallb (fun t => match ga_target (e_attrs t) with None => true | Some ids => targets_compatible ids end)
            (with_tag GTransition all ++ with_tag GInitial all) &&
    forallb (fun s => match ga_initial (e_attrs s) with None => true | Some ids => targets_compatible ids end)
            (allStates ++ [root]).

  Definition wf_chartb : bool :=
    wf_nesting && wf_ids && wf_targets && wf_initattr && wf_initial_el && wf_history && wf_target_sets.

  (* side conditions of the theorems: one machine, and only states carry ids *)
  Definition single_machine : bool := forallb (fun e => negb (gtag_eqb (e_tag e) GScxml)) all.
  Definition plain_ids : bool :=
    is_none (ga_id (g_attrs d)) && forallb (fun e => is_none (ga_id (e_attrs e))) (with_tag GInitial all).

  (* the Recommendation's structural constraints (3.2-3.11, 3.13) on the modelled vocabulary *)
  Definition no_ancestor_pairs (ids : list bytes) : bool :=
    forallb (fun a => forallb (fun b =>
       match resolve a, resolve b with
       | Some x, Some y => negb (is_desc (e_path x) (e_path y))
       | _, _ => true end) ids) ids.

  Definition conformantb : bool :=
    wf_chartb && single_machine && plain_ids && wf_root &&
    (* ids: every <state>, <parallel>, <history> may omit the id; given ids are non-empty (xsd:ID) *)
    (* initial attribute only on compound states and on <scxml>; not together with <initial> *)
    forallb (fun s => match ga_initial (e_attrs s) with
                      | None => true
                      | Some ids => nonempty ids && is_compound s && negb (nonempty (with_tag GInitial (kids_el s)))
                      end) allStates &&
    (* at most one <initial>, only in compound states *)
    forallb (fun s => match with_tag GInitial (kids_el s) with
                      | [] => true | [_] => is_compound s | _ => false end) allStates &&
    (* a state specification lists distinct states none of which is an ancestor of another *)
    forallb (fun t => match ga_target (e_attrs t) with
                      | None => true | Some ids => nodup_bytes ids && no_ancestor_pairs ids end)
            (with_tag GTransition all) &&
    forallb (fun s => match ga_initial (e_attrs s) with
                      | None => true | Some ids => nodup_bytes ids && no_ancestor_pairs ids end)
            (allStates ++ [root]) &&
    (* <final> has no child states; <history> and <initial> contain transitions only *)
    forallb (fun f => negb (nonempty (child_states f false))) (with_tag GFinal all) &&
    (* every <history> has its default transition (also one without id) *)
    forallb (fun h => match with_tag GTransition (kids_el h) with [_] => true | _ => false end)
            (with_tag GHistory all).
End Wf.

(* ------------------------------------------------------------------ legal configurations of a document
   (SCXML 1.0, 3.11) on the element tree, for legal_completion_correct: a set of element paths *)

Definition is_proper_tag (t : gtag) : bool :=
  match t with GScxml | GState | GParallel | GFinal => true | _ => false end.

Definition in_cfg (cfg : list ptr) (p : ptr) : bool := existsb (ptr_eqb p) cfg.

(* nothing at or below p is active *)
Fixpoint sub_inactive (cfg : list ptr) (p : ptr) (d : gdoc) {struct d} : bool :=
  match d with
  | GNode t a kids =>
      negb (in_cfg cfg p) &&
      forallb (fun b => b) (mapi_from (fun i k => sub_inactive cfg (i :: p) k) 0 kids)
  end.

(* the element at p (active) and its sub-tree satisfy the clauses of 3.11 *)
Fixpoint sub_legal (cfg : list ptr) (p : ptr) (d : gdoc) {struct d} : bool :=
  match d with
  | GNode t a kids =>
      let ks := mapi_from (fun i k => (i :: p, k, sub_legal cfg (i :: p) k, sub_inactive cfg (i :: p) k)) 0 kids in
      let proper := filter (fun x => is_proper_tag (g_tag (snd (fst (fst x))))) ks in
      let pseudo := filter (fun x => negb (is_proper_tag (g_tag (snd (fst (fst x)))))) ks in
      let active := filter (fun x => in_cfg cfg (fst (fst (fst x)))) proper in
      in_cfg cfg p && is_proper_tag t &&
      forallb (fun x => snd x) pseudo &&
      match t with
      | GParallel => forallb (fun x => in_cfg cfg (fst (fst (fst x))) && snd (fst x)) proper
      | GFinal => forallb (fun x => if in_cfg cfg (fst (fst (fst x))) then snd (fst x) else snd x) proper
      | _ => match proper with
             | [] => true
             | _ => (length active =? 1) &&
                    forallb (fun x => if in_cfg cfg (fst (fst (fst x))) then snd (fst x) else snd x) proper
             end
      end
  end.

Definition legal_cfg (d : gdoc) (cfg : list ptr) : bool := sub_legal cfg [] d.
