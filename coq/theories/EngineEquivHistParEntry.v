(* EngineEquivHistParEntry.v -- C03 with <history> directly below <parallel> (record WFHP of LegalHistParBase.v,
   boolean wf_histpb): ESTABLISH_ENTRYSET of FastMicroStep (Fast.fentry_set) against LargeMicroStep's
   (Large.entry_set).  EngineEquivHistEntry.v re-proved from WFHP with the loop invariant HInvP of
   LegalHistParEntry.v / LegalHistParFast.v: the fast entry set is the large one without its <initial>
   pseudo-states, the transition sets are equal.  The definitions (no_initial, ERel, TsOK as TsOKP) and the
   chart-independent lemmas (sortedness, REMEMBER_HISTORY) of EngineEquivHistEntry.v are reused.  Proofs only. *)
From V Require Import Base NameMatch Chart Exec Large LargeLemmas Fast Legal SetLemmas LegalAbstract LegalLarge
  LegalRun WfCore LargeCacheLemmas SelectConform SelectConformLemmas MicroConformCompose
  LegalHistBase LegalHistEntry LegalHistStep LegalHistRun LegalHistWf LegalHistFast LegalHistFastRun
  LegalHistParBase LegalHistParEntry LegalHistParStep LegalHistParRun LegalHistParWf LegalHistParFast LegalHistParFastRun
  EngineEquivBase EngineEquivHistEntry.
Local Open Scope nat_scope.

(* ------------------------------------------------------------------ the two loops side by side *)

Section EHPEntry.
Variable c : fchart.
Let n := nstates c.
Let par (i : nat) := fs_parent (st c i).
Let ch (i : nat) := fs_children (st c i).
Let kd (i : nat) := fs_type (st c i).
Let cpl (i : nat) := fs_completion (st c i).
Notation Anc := (LegalAbstract.Anc par).
Notation pseudo := (pseudoS c).

Hypothesis W : WFHP c.

Lemma ehp_initial_pseudo i : is_initialb c i = true -> pseudo i = true.
Proof. unfold is_initialb, pseudoS. destruct (fs_type (st c i)); try discriminate; reflexivity. Qed.

Section Loop.
Variable cfg exitset hist tg ts0 : list nat.
Hypothesis tg_bound : forall g, In g tg -> 0 < g /\ g < n.
Hypothesis tg_sorted : ssorted tg.
Hypothesis HH : HistOK c hist.
Hypothesis HE0_uniq : forall i k1 k2, kd i = FCompound -> par k1 = Some i -> par k2 = Some i ->
  In k1 (HE0 c tg) -> In k2 (HE0 c tg) -> k1 = k2.
Hypothesis HE0_par : forall q h x, kd q = FParallel -> par h = Some q -> pseudo h = true ->
  In h (HE0 c tg) -> In x (HE0 c tg) -> Anc q x -> par x = Some q.
Hypothesis HE0_par2 : forall q h1 h2, kd q = FParallel -> par h1 = Some q -> par h2 = Some q ->
  pseudo h1 = true -> pseudo h2 = true -> In h1 (HE0 c tg) -> In h2 (HE0 c tg) -> h1 = h2.
Hypothesis cfg_bound : forall x, In x cfg -> x < n.
Hypothesis cfg_closed : closedS c (fun x => In x cfg).
Hypothesis exit_sub : forall x, In x exitset -> In x cfg.
Hypothesis exit_dom : forall x, In x exitset ->
  exists d, In d (HE0 c tg) /\ pseudo d = false /\ Anc d x /\ forall y, In y cfg -> Anc d y -> In y exitset.
Hypothesis ts0_sorted : ssorted ts0.

Notation LInv := (HInvP c cfg exitset tg ETrue).

Notation ERel := (EngineEquivHistEntry.ERel c).
Notation TsOKP := (EngineEquivHistEntry.TsOK c ts0).

Lemma TsOKP_mono el el' ts : (forall x, In x el -> In x el') -> TsOKP el ts -> TsOKP el' ts.
Proof.
  intros Hsub [Hs Ht]. split; [exact Hs|]. intros ti Hti. destruct (Ht ti Hti) as [H|(s & r & A & B & C)]; [now left|].
  right. exists s, r. auto.
Qed.

Lemma TsOKP_insert el ts ti s r : TsOKP el ts -> In s el -> pseudo s = true -> fs_trans (st c s) = ti :: r ->
  TsOKP el (insert_sorted ti ts).
Proof.
  intros [Hs Ht] Hse Hps Htr. split; [now apply ssorted_insert|].
  intros t Hin. apply In_insert_sorted' in Hin as [->|Hin]; [|now apply Ht]. right. exists s, r. auto.
Qed.

Lemma ehp_rel_grow (rm : bool) j ef el ef' el' (S : nat -> Prop) :
  ERel j ef el -> (is_initialb c j = rm) ->
  (forall x, In x ef' <-> (In x ef /\ (rm = true -> x <> j)) \/ S x) ->
  (forall x, In x el' <-> In x el \/ S x) ->
  (forall x, S x -> j < x) -> ssorted ef' -> ssorted el' -> ERel (Datatypes.S j) ef' el'.
Proof.
  intros (_ & _ & Hm) Hrm Hf Hl Hgt Sf Sl. split; [exact Sf|]. split; [exact Sl|].
  intros x. rewrite Hf, Hl, Hm. split.
  - intros [[[Hx Hn] Hne]|HS].
    + split; [now left|]. intros [Hi Hlt]. destruct (Nat.eq_dec x j) as [->|Hxj].
      * apply Hne; [now rewrite <- Hrm | reflexivity].
      * apply Hn. split; [exact Hi | lia].
    + split; [now right|]. intros [_ Hlt]. specialize (Hgt x HS). lia.
  - intros [[Hx|HS] Hn]; [|now right]. left. split; [split; [exact Hx|]|].
    + intros [Hi Hlt]. apply Hn. split; [exact Hi | lia].
    + intros E ->. apply Hn. split; [now rewrite Hrm | lia].
Qed.

Lemma ehp_rel_keep j ef el : ERel j ef el -> (In j el -> is_initialb c j = false) -> ERel (S j) ef el.
Proof.
  intros (Sf & Sl & Hm) Hj. split; [exact Sf|]. split; [exact Sl|]. intros x. rewrite Hm. split.
  - intros [Hx Hn]. split; [exact Hx|]. intros [Hi Hlt]. destruct (Nat.eq_dec x j) as [->|Hxj].
    + rewrite (Hj Hx) in Hi. discriminate.
    + apply Hn. split; [exact Hi | lia].
  - intros [Hx Hn]. split; [exact Hx|]. intros [Hi Hlt]. apply Hn. split; [exact Hi | lia].
Qed.

Lemma ehp_rel_mem j ef el : ERel j ef el -> mem j ef = mem j el.
Proof.
  intros (_ & _ & Hm). apply eh_mem_iff. rewrite Hm. split; [tauto|]. intros H. split; [exact H|]. intros [_ Hlt]. lia.
Qed.

Lemma ehp_rel_above j ef el k : ERel j ef el -> j < k -> (In k ef <-> In k el).
Proof. intros (_ & _ & Hm) Hk. rewrite Hm. split; [tauto|]. intros H. split; [exact H|]. intros [_ Hlt]. lia. Qed.

Lemma ehp_hblocked j ef el : ERel j ef el -> (hblocked c cfg exitset ef j <-> hblocked c cfg exitset el j).
Proof.
  intros HR. unfold hblocked. split; intros (k & Hk & Hb); exists k; (split; [exact Hk|]);
    pose proof Hk as Hk'; apply (whp_children c W) in Hk'; destruct (whp_par_lt c W _ _ Hk') as [Hlt _];
    destruct Hb as [Hb|Hb]; [left; now apply (ehp_rel_above j ef el k HR Hlt) | now right
                            | left; now apply (ehp_rel_above j ef el k HR Hlt) | now right].
Qed.

Lemma ehp_ch_nil_desc j : j < n -> pseudo j = true -> forall T ti, T = ft_targets (tr c ti) -> intersects T (desc c j) = false.
Proof.
  intros Hj Hps T ti ->. apply not_true_is_false. intros E. apply intersects_spec in E as (x & Hxt & Hx).
  destruct (whp_tr_targets c W ti x Hxt) as [_ Hxn].
  apply (desc_spec_p c W j x Hj Hxn) in Hx. exact (pseudo_no_anc_p c W j x Hps Hx).
Qed.

(* one step of both loops *)
Lemma ehp_step j ef el ts : j < n -> LInv j el -> LInv j ef -> ERel j ef el -> TsOKP el ts ->
  snd (fdescend_one c cfg exitset hist (ef, ts) j) = snd (descend_one lg_fixed c cfg exitset hist (el, ts) j) /\
  ERel (S j) (fst (fdescend_one c cfg exitset hist (ef, ts) j)) (fst (descend_one lg_fixed c cfg exitset hist (el, ts) j)) /\
  TsOKP (fst (descend_one lg_fixed c cfg exitset hist (el, ts) j)) (snd (descend_one lg_fixed c cfg exitset hist (el, ts) j)).
Proof.
  intros Hj HL HF HR HT.
  pose proof (eh_fdescend_sorted c cfg exitset hist ef ts j (proj1 HR) (proj1 HT)) as [SF _].
  pose proof (eh_descend_sorted lg_fixed c cfg exitset hist el ts j (proj1 (proj2 HR)) (proj1 HT)) as [SL _].
  revert SF SL.
  unfold fdescend_one, descend_one. rewrite (ehp_rel_mem j ef el HR).
  destruct (mem j el) eqn:Hm; cbn [negb].
  2: { intros _ _. cbn [fst snd]. split; [reflexivity|]. split; [|exact HT]. apply mem_false_In in Hm.
       apply ehp_rel_keep; [exact HR | intros H; contradiction]. }
  apply mem_In in Hm. assert (Hmf : In j ef) by (destruct HR as (_ & _ & Hx); apply Hx; split; [exact Hm | intros [_ H]; lia]).
  destruct (fs_type (st c j)) eqn:Hk.
  - (* atomic *) intros _ _. cbn [fst snd]. split; [reflexivity|]. split; [|exact HT].
    apply ehp_rel_keep; [exact HR|]. intros _. unfold is_initialb. now rewrite Hk.
  - (* compound *)
    pose proof (fast_compound_test_p c W cfg exitset tg ETrue cfg_bound cfg_closed exit_sub exit_dom j ef Hj HF Hmf) as Htest.
    pose proof (existsb_hblocked c cfg exitset el j) as Hlarge.
    pose proof (ehp_hblocked j ef el HR) as Hbl.
    destruct (negb (intersects ef (desc c j)) && (negb (intersects cfg (desc c j)) || intersects exitset (desc c j))) eqn:Hb;
    destruct (existsb (fun k => mem k el || negb (mem k exitset) && mem k cfg) (fs_children (st c j))) eqn:Hb2.
    + exfalso. apply (proj1 Htest eq_refl). apply Hbl. now apply Hlarge.
    + intros SF SL. cbn [fst snd] in *. split; [reflexivity|].
      destruct (whp_compound c W j Hk) as [Hne Hbelow]. fold (cpl j) in *.
      assert (Hgt : forall x, IC c j (cpl j) x -> j < x).
      { intros x [Hjx _]. now destruct (hanc_lt_p c W _ _ Hjx). }
      split.
      * apply (ehp_rel_grow false j ef el _ _ (IC c j (cpl j)) HR); [unfold is_initialb; now rewrite Hk | | | exact Hgt | exact SF | exact SL].
        -- intros x.
           rewrite (fold_cond_all (fun y => j <? y) (fun y => fs_ancestors (st c y)) (cpl j)).
           2: { intros y Hy. apply Nat.ltb_lt. now destruct (hanc_lt_p c W _ _ (Hbelow y Hy)). }
           rewrite In_fold_union, In_set_union.
           assert (E : (In x ef /\ (false = true -> x <> j)) <-> In x ef) by (split; [tauto | intros H; split; [exact H | discriminate]]).
           rewrite E.
           rewrite <- (full_closed_IC_p c ef j (cpl j) x (hip_closed _ _ _ _ _ _ _ HF) Hmf Hne Hbelow). split.
           ++ intros [[H|H]|(g & Hg & Hx)]; [tauto | right; exists x; split; [exact H | now left]|].
              right. exists g. split; [exact Hg|]. right. now apply (whp_anc c W).
           ++ intros [H|(g & Hg & [->|Ha])]; [tauto | tauto|]. right. exists g. split; [exact Hg|]. now apply (whp_anc c W).
        -- intros x. rewrite (In_fold_cond_union_p c), In_set_union.
           rewrite <- (full_closed_IC_p c el j (cpl j) x (hip_closed _ _ _ _ _ _ _ HL) Hm Hne Hbelow). split.
           ++ intros [[H|H]|(g & Hg & Hp & Hx)]; [tauto | right; exists x; split; [exact H | now left]|].
              right. exists g. split; [exact Hg|]. right. now apply (whp_anc c W).
           ++ intros [H|(g & Hg & [->|Ha])]; [tauto | tauto|].
              destruct (mem g (ch j)) eqn:Hgc.
              ** left. left. apply mem_In, (whp_children c W) in Hgc.
                 destruct (anc_child par _ _ _ Hgc Ha) as [->|Hxj]; [exact Hm | exact (closed_anc_p c (fun y => In y el) j x (hip_closed _ _ _ _ _ _ _ HL) Hm Hxj)].
              ** right. exists g. split; [exact Hg|]. split; [exact Hgc|]. now apply (whp_anc c W).
      * apply (TsOKP_mono el); [|exact HT]. intros x Hx. apply (In_fold_cond_union_p c). left. apply In_set_union. now left.
    + intros _ _. cbn [fst snd]. split; [reflexivity|]. split; [|exact HT].
      apply ehp_rel_keep; [exact HR|]. intros _. unfold is_initialb. now rewrite Hk.
    + exfalso. assert (Hnb : ~ hblocked c cfg exitset ef j).
      { intros Hx. apply Hbl, Hlarge in Hx. congruence. }
      apply Htest in Hnb. congruence.
  - (* parallel *)
    intros SF SL. cbn [fst snd] in *. split; [reflexivity|]. split.
    + apply (ehp_rel_grow false j ef el _ _ (fun x => In x (cpl j)) HR); [unfold is_initialb; now rewrite Hk | | | | exact SF | exact SL].
      * intros x. rewrite In_set_union. split; [intros [H|H]; [left; split; [exact H | discriminate] | now right] | tauto].
      * intros x. now rewrite In_set_union.
      * intros x Hx. apply (whp_parallel c W j x Hk) in Hx as [Hx _]. now destruct (whp_par_lt c W _ _ Hx).
    + apply (TsOKP_mono el); [|exact HT]. intros x Hx. apply In_set_union. now left.
  - (* final *) intros _ _. cbn [fst snd]. split; [reflexivity|]. split; [|exact HT].
    apply ehp_rel_keep; [exact HR|]. intros _. unfold is_initialb. now rewrite Hk.
  - (* shallow history *)
    assert (Hps : pseudo j = true) by (unfold pseudoS; now rewrite Hk).
    assert (Hhs : histS c j = true) by (unfold histS; now rewrite Hk).
    destruct (whp_pseudo_parent c W j Hps) as (q & Hpq & Hkq).
    destruct (whp_hist_cpl c W j q Hhs Hpq) as [Hcpl _].
    rewrite orb_true_r. cbn [andb]. fold (cpl j). destruct (intersects (cpl j) hist) eqn:Hint; cbn [negb].
    + intros SF SL. cbn [fst snd] in *. split; [reflexivity|]. destruct HH as [Hprop HR']. split.
      * apply (ehp_rel_grow false j ef el _ _ (Rh c hist j) HR); [unfold is_initialb; now rewrite Hk | | | | exact SF | exact SL].
        -- intros x. rewrite In_set_union, In_set_inter. unfold Rh. split; [intros [H|H]; [left; split; [exact H | discriminate] | now right] | tauto].
        -- intros x. rewrite In_set_union, In_set_inter. unfold Rh. tauto.
        -- intros x [Hx1 Hx2]. destruct (Hcpl x Hx1) as (A & B & _). apply B. now apply Hprop.
      * apply (TsOKP_mono el); [|exact HT]. intros x Hx. apply In_set_union. now left.
    + destruct (whp_hist_default c W j q Hhs Hpq) as (ti & r & Htr & Htne & Htg). rewrite Htr.
      intros SF SL. cbn [fst snd] in *. split; [reflexivity|]. split.
      * apply (ehp_rel_grow false j ef el _ _ (fun x => In x (ft_targets (tr c ti))) HR); [unfold is_initialb; now rewrite Hk | | | | exact SF | exact SL].
        -- intros x. rewrite In_set_union. split; [intros [H|H]; [left; split; [exact H | discriminate] | now right] | tauto].
        -- intros x. now rewrite In_set_union.
        -- intros x Hx. now destruct (Htg x Hx) as (A & _).
      * apply (TsOKP_insert _ ts ti j r); [|apply In_set_union; now left | exact Hps | exact Htr].
        apply (TsOKP_mono el); [|exact HT]. intros x Hx. apply In_set_union. now left.
  - (* deep history *)
    assert (Hps : pseudo j = true) by (unfold pseudoS; now rewrite Hk).
    assert (Hhs : histS c j = true) by (unfold histS; now rewrite Hk).
    assert (Hdp : deepS c j = true) by (unfold deepS; now rewrite Hk).
    destruct (whp_pseudo_parent c W j Hps) as (q & Hpq & Hkq).
    destruct (whp_hist_cpl c W j q Hhs Hpq) as [Hcpl _].
    rewrite orb_true_r. cbn [andb]. fold (cpl j). destruct (intersects (cpl j) hist) eqn:Hint; cbn [negb].
    + intros SF SL. cbn [fst snd] in *. split; [reflexivity|]. destruct HH as [Hprop HR']. split.
      * apply (ehp_rel_grow false j ef el _ _ (Rh c hist j) HR); [unfold is_initialb; now rewrite Hk | | | | exact SF | exact SL].
        -- intros x. rewrite In_set_union, In_set_inter. unfold Rh. split; [intros [H|H]; [left; split; [exact H | discriminate] | now right] | tauto].
        -- intros x. rewrite In_set_union, In_set_inter. unfold Rh. tauto.
        -- intros x [Hx1 Hx2]. destruct (Hcpl x Hx1) as (A & B & _). apply B. now apply Hprop.
      * apply (TsOKP_mono el); [|exact HT]. intros x Hx. apply In_set_union. now left.
    + destruct (whp_hist_default c W j q Hhs Hpq) as (ti & r & Htr & Htne & Htg). rewrite Htr.
      rewrite Hdp in Htg.
      assert (Hbelow : forall g, In g (ft_targets (tr c ti)) -> Anc q g) by (intros g Hg; now destruct (Htg g Hg) as (_ & _ & H)).
      rewrite (ehp_ch_nil_desc j Hj Hps _ ti eq_refl).
      assert (Hni : intersects (ft_targets (tr c ti)) (fs_children (st c j)) = false).
      { destruct (intersects (ft_targets (tr c ti)) (fs_children (st c j))) eqn:E; [|reflexivity]. exfalso.
        apply intersects_spec in E as (x & _ & Hx). exact (ch_nil_pseudo_p c W j Hps x Hx). }
      rewrite Hni. cbn [negb].
      assert (Hfil : filter (fun k => j <? k) (ft_targets (tr c ti)) = ft_targets (tr c ti)).
      { apply filter_all_true. intros g Hg. apply Nat.ltb_lt. now destruct (Htg g Hg) as (A & _). }
      rewrite Hfil.
      intros SF SL. cbn [fst snd] in *. split; [reflexivity|].
      assert (Hqe : In q el) by exact (hip_closed _ _ _ _ _ _ _ HL j q Hm Hpq).
      assert (Hqf : In q ef) by exact (hip_closed _ _ _ _ _ _ _ HF j q Hmf Hpq).
      assert (Hmem : forall es, closedS c (fun y => In y es) -> In q es -> forall x,
                 In x (fold_left (fun a k => set_union a (fs_ancestors (st c k))) (ft_targets (tr c ti)) (set_union es (ft_targets (tr c ti)))) <->
                 In x es \/ IC c q (ft_targets (tr c ti)) x).
      { intros es Hcl Hq x. rewrite In_fold_union, In_set_union.
        rewrite <- (full_closed_IC_p c es q _ x Hcl Hq Htne Hbelow). split.
        - intros [[H|H]|(g & Hg & Hx)]; [tauto | right; exists x; split; [exact H | now left]|].
          right. exists g. split; [exact Hg|]. right. now apply (whp_anc c W).
        - intros [H|(g & Hg & [->|Ha])]; [tauto | tauto|]. right. exists g. split; [exact Hg|]. now apply (whp_anc c W). }
      split.
      * apply (ehp_rel_grow false j ef el _ _ (IC c q (ft_targets (tr c ti))) HR); [unfold is_initialb; now rewrite Hk | | | | exact SF | exact SL].
        -- intros x. rewrite (Hmem ef (hip_closed _ _ _ _ _ _ _ HF) Hqf x).
           split; [intros [H|H]; [left; split; [exact H | discriminate] | now right] | tauto].
        -- intros x. exact (Hmem el (hip_closed _ _ _ _ _ _ _ HL) Hqe x).
        -- intros x [Hqx (g & Hg & Hon)]. destruct (Htg g Hg) as (A & _ & _).
           exact (inner_gt_leaf_p c W q j x g Hpq Hps Hqx Hon A).
      * apply (TsOKP_insert _ ts ti j r); [| | exact Hps | exact Htr].
        -- apply (TsOKP_mono el); [|exact HT]. intros x Hx. apply (Hmem el (hip_closed _ _ _ _ _ _ _ HL) Hqe x). now left.
        -- apply (Hmem el (hip_closed _ _ _ _ _ _ _ HL) Hqe j). now left.
  - (* initial: the fast engine takes the pseudo-state out *)
    assert (Hps : pseudo j = true) by (unfold pseudoS; now rewrite Hk).
    destruct (whp_pseudo_parent c W j Hps) as (q & Hpq & Hkq).
    destruct (whp_initial c W j q Hk Hpq) as (ti & Htr & Htne & Htg). rewrite Htr. cbn [fold_left fst snd].
    assert (Hbelow : forall g, In g (ft_targets (tr c ti)) -> Anc q g) by (intros g Hg; now destruct (Htg g Hg) as (H & _)).
    assert (Hqe : In q el) by exact (hip_closed _ _ _ _ _ _ _ HL j q Hm Hpq).
    assert (Hqf : In q ef) by exact (hip_closed _ _ _ _ _ _ _ HF j q Hmf Hpq).
    intros SF SL. split; [reflexivity|].
    assert (Hlmem : forall x, In x (fold_left (fun e x0 => set_union (insert_sorted x0 e) (fs_ancestors (st c x0))) (ft_targets (tr c ti)) el) <->
                              In x el \/ IC c q (ft_targets (tr c ti)) x).
    { intros x. rewrite (In_fold_ins_union_p c).
      rewrite <- (full_closed_IC_p c el q _ x (hip_closed _ _ _ _ _ _ _ HL) Hqe Htne Hbelow). split.
      - intros [H|(g & Hg & [->|Hx])]; [tauto | right; exists g; split; [exact Hg | now left]|].
        right. exists g. split; [exact Hg|]. right. now apply (whp_anc c W).
      - intros [H|(g & Hg & [->|Ha])]; [tauto | right; exists g; tauto|]. right. exists g. split; [exact Hg|]. right. now apply (whp_anc c W). }
    split.
    + apply (ehp_rel_grow true j ef el _ _ (IC c q (ft_targets (tr c ti))) HR); [unfold is_initialb; now rewrite Hk | | exact Hlmem | | exact SF | exact SL].
      * intros x.
        rewrite (fold_cond_all (fun y => j <? y) (fun y => fs_ancestors (st c y)) (ft_targets (tr c ti))).
        2: { intros y Hy. apply Nat.ltb_lt. now destruct (Htg y Hy) as (_ & A & _). }
        rewrite In_fold_union, In_set_union, In_set_remove.
        assert (Hfull : (exists g, In g (ft_targets (tr c ti)) /\ on_pathP c x g) <->
                        (IC c q (ft_targets (tr c ti)) x \/ ((x = q \/ Anc x q) /\ ft_targets (tr c ti) <> []))) by exact (full_vs_IC_p c q _ x Hbelow).
        split.
        -- intros [[[H1 H2]|H]|(g & Hg & Hx)].
           ++ left. split; [exact H1 | intros _; exact H2].
           ++ right. split; [now apply Hbelow | exists x; split; [exact H | now left]].
           ++ assert (Hex : exists g, In g (ft_targets (tr c ti)) /\ on_pathP c x g) by (exists g; split; [exact Hg | right; now apply (whp_anc c W)]).
              apply Hfull in Hex as [HIC|[Hxq _]]; [now right|]. left.
              split; [destruct Hxq as [->|Hxq]; [exact Hqf | exact (closed_anc_p c (fun y => In y ef) q x (hip_closed _ _ _ _ _ _ _ HF) Hqf Hxq)]|].
              intros _ ->. destruct Hxq as [E|Hjq]; [|exact (pseudo_no_anc_p c W j q Hps Hjq)].
              rewrite E in Hpq. destruct (whp_par_lt c W _ _ Hpq). lia.
        -- intros [[H1 H2]|[Hqx (g & Hg & [->|Ha])]].
           ++ left. left. split; [exact H1 | now apply H2].
           ++ left. now right.
           ++ right. exists g. split; [exact Hg | now apply (whp_anc c W)].
      * intros x [Hqx (g & Hg & Hon)]. destruct (Htg g Hg) as (_ & A & _).
        exact (inner_gt_leaf_p c W q j x g Hpq Hps Hqx Hon A).
    + apply (TsOKP_insert _ ts ti j []); [| | exact Hps | exact Htr].
      * apply (TsOKP_mono el); [|exact HT]. intros x Hx. apply Hlmem. now left.
      * apply Hlmem. now left.
Qed.

Lemma ETrueP_Q0 : forall x, In x (HE0 c tg) -> ETrue x. Proof. intros; exact I. Qed.
Lemma ETrueP_par : forall j x, ETrue j -> kd j = FParallel -> par x = Some j -> pseudo x = false -> ETrue x. Proof. intros; exact I. Qed.
Lemma ETrueP_comp : forall j x, ETrue j -> kd j = FCompound -> (forall k, par k = Some j -> ~ surv cfg exitset k) -> Anc j x -> ETrue x.
Proof. intros; exact I. Qed.
Lemma ETrueP_pseudo : forall j q x, ETrue j -> pseudo j = true -> par j = Some q -> Anc q x -> ETrue x. Proof. intros; exact I. Qed.

Definition ELP : list nat * list nat := entry_set lg_fixed c cfg exitset hist tg ts0.
Definition EFP : list nat * list nat := fentry_set c cfg exitset hist tg ts0.

(* the state of both loops after [m] steps *)
Lemma ehp_loop m : forall accf accl, m <= n ->
  let j := n - m in
  LInv j (fst accl) -> LInv j (fst accf) -> ERel j (fst accf) (fst accl) -> TsOKP (fst accl) (snd accl) -> snd accf = snd accl ->
  let rf := fold_left (fdescend_one c cfg exitset hist) (seq j m) accf in
  let rl := fold_left (descend_one lg_fixed c cfg exitset hist) (seq j m) accl in
  snd rf = snd rl /\ LInv n (fst rl) /\ LInv n (fst rf) /\ ERel n (fst rf) (fst rl) /\ TsOKP (fst rl) (snd rl).
Proof.
  induction m as [|m IH]; intros [ef tf] [el tl] Hm j HL HF HR HT Ets; cbn [fst snd] in *.
  - subst j. rewrite Nat.sub_0_r in *. cbn [seq fold_left fst snd]. auto.
  - subst tf. cbn [seq fold_left].
    assert (Hj : j < n) by (subst j; lia).
    destruct (ehp_step j ef el tl Hj HL HF HR HT) as (E1 & R1 & T1).
    pose proof (HInv_step_p c W cfg exitset hist tg HH ETrue ETrueP_par ETrueP_comp ETrueP_pseudo j el tl Hj HL) as HL1.
    pose proof (FInv_step_p c W cfg exitset hist tg HH ETrue ETrueP_par ETrueP_comp ETrueP_pseudo cfg_bound cfg_closed exit_sub exit_dom j ef tl Hj HF) as HF1.
    replace (S j) with (n - m) in * by (subst j; lia).
    destruct (fdescend_one c cfg exitset hist (ef, tl) j) as [ef1 tf1].
    destruct (descend_one lg_fixed c cfg exitset hist (el, tl) j) as [el1 tl1]. cbn [fst snd] in *.
    apply (IH (ef1, tf1) (el1, tl1)); cbn [fst snd]; try assumption. lia.
Qed.

Theorem ehp_entry_rel :
  snd EFP = snd ELP /\ LInv n (fst ELP) /\ LInv n (fst EFP) /\ ERel n (fst EFP) (fst ELP) /\ TsOKP (fst ELP) (snd ELP).
Proof.
  unfold EFP, ELP, fentry_set, entry_set. change (fn c) with n. change (n_states c) with n.
  pose proof (ehp_loop n (add_ancestors c tg, ts0) (add_ancestors c tg, ts0) (Nat.le_refl n)) as H.
  rewrite Nat.sub_diag in H. cbn [fst snd] in H. apply H.
  - exact (HInv_0_p c W cfg exitset tg tg_bound HE0_uniq HE0_par HE0_par2 ETrue ETrueP_Q0).
  - exact (HInv_0_p c W cfg exitset tg tg_bound HE0_uniq HE0_par HE0_par2 ETrue ETrueP_Q0).
  - assert (Hs : ssorted (add_ancestors c tg)).
    { unfold add_ancestors. now apply ssorted_fold_union. }
    split; [exact Hs|]. split; [exact Hs|]. intros x. split; [intros Hx; split; [exact Hx | intros [_ Hl]; lia] | tauto].
  - split; [exact ts0_sorted|]. intros ti Hti. now left.
  - reflexivity.
Qed.

(* the fast engine's entry set is the large engine's without <initial> pseudo-states; same transition set *)
Theorem ehp_entry_set_eq : EFP = (no_initial c (fst ELP), snd ELP).
Proof.
  destruct ehp_entry_rel as (E1 & HL & HF & (SF & SL & Hm) & _).
  rewrite (surjective_pairing EFP). f_equal; [|exact E1].
  apply ssorted_ext; [exact SF | unfold no_initial; now apply ssorted_filter|].
  intros x. unfold no_initial. rewrite filter_In, Hm, negb_true_iff. split.
  - intros [Hx Hn]. split; [exact Hx|]. destruct (is_initialb c x) eqn:E; [|reflexivity]. exfalso. apply Hn.
    split; [reflexivity | exact (hip_bound _ _ _ _ _ _ _ HL x Hx)].
  - intros [Hx Hi]. split; [exact Hx|]. intros [E _]. congruence.
Qed.

End Loop.

(* ------------------------------------------------------------------ after a selection *)

Section Sel.
Variable cfg sel : list nat.
Hypothesis Hlegal : LegalCfgH c cfg.
Hypothesis Hsel_src : forall ti, In ti sel -> In (ft_source (tr c ti)) cfg.
Hypothesis Hsel_ok : pairwise_ok lg_fixed c sel.
Variable hist : list nat.
Hypothesis HH : HistOK c hist.

Let HL := proj1 Hlegal.
Let HBn : forall x, In x cfg -> x < n := fun x Hx => proj1 (proj2 Hlegal x Hx).
Let HBp : forall x, In x cfg -> pseudo x = false := fun x Hx => proj2 (proj2 Hlegal x Hx).

Lemma ehp_sel_targets_sorted : ssorted (LegalLarge.targets c sel).
Proof. unfold LegalLarge.targets. apply ssorted_fold_union. exact I. Qed.

Lemma ehp_sel_exitset_sorted : ssorted (LegalLarge.exitset c cfg sel).
Proof. unfold LegalLarge.exitset. apply ssorted_fold_union. exact I. Qed.

Lemma ehp_sel_exit_sub x : In x (LegalLarge.exitset c cfg sel) -> In x cfg.
Proof. intros Hx. exact (proj1 (proj1 (hIn_exitset_p c W cfg sel HL HBn HBp Hsel_src x) Hx)). Qed.

Lemma ehp_sel_closed : closedS c (fun x => In x cfg).
Proof. intros y p Hy Hp. exact (hcfg_parent c cfg HL HBp y p Hy Hp). Qed.

Theorem ehp_entry_rel_sel ts : ssorted ts ->
  let X := LegalLarge.exitset c cfg sel in let T := LegalLarge.targets c sel in
  snd (EFP cfg X hist T ts) = snd (ELP cfg X hist T ts) /\
  HInvP c cfg X T ETrue n (fst (ELP cfg X hist T ts)) /\ HInvP c cfg X T ETrue n (fst (EFP cfg X hist T ts)) /\
  ERel c n (fst (EFP cfg X hist T ts)) (fst (ELP cfg X hist T ts)) /\ TsOK c ts (fst (ELP cfg X hist T ts)) (snd (ELP cfg X hist T ts)).
Proof.
  intros Hts X T. apply ehp_entry_rel; try assumption.
  - exact (htargets_bound_p c W sel).
  - exact ehp_sel_targets_sorted.
  - exact (HE0_uniq_step_p c W cfg sel HL HBn HBp Hsel_src Hsel_ok).
  - exact (HE0_par_step c W cfg sel HL HBn HBp Hsel_src Hsel_ok).
  - exact (HE0_par2_step c W cfg sel HL HBn HBp Hsel_src Hsel_ok).
  - exact ehp_sel_closed.
  - exact ehp_sel_exit_sub.
  - exact (fexit_dom_p c W cfg sel HL HBn HBp Hsel_src).
Qed.

Theorem ehp_entry_set_sel ts : ssorted ts ->
  fentry_set c cfg (LegalLarge.exitset c cfg sel) hist (LegalLarge.targets c sel) ts =
  (no_initial c (fst (entry_set lg_fixed c cfg (LegalLarge.exitset c cfg sel) hist (LegalLarge.targets c sel) ts)),
   snd (entry_set lg_fixed c cfg (LegalLarge.exitset c cfg sel) hist (LegalLarge.targets c sel) ts)).
Proof.
  intros Hts. apply ehp_entry_set_eq; try assumption.
  - exact (htargets_bound_p c W sel).
  - exact ehp_sel_targets_sorted.
  - exact (HE0_uniq_step_p c W cfg sel HL HBn HBp Hsel_src Hsel_ok).
  - exact (HE0_par_step c W cfg sel HL HBn HBp Hsel_src Hsel_ok).
  - exact (HE0_par2_step c W cfg sel HL HBn HBp Hsel_src Hsel_ok).
  - exact ehp_sel_closed.
  - exact ehp_sel_exit_sub.
  - exact (fexit_dom_p c W cfg sel HL HBn HBp Hsel_src).
Qed.

End Sel.

(* ------------------------------------------------------------------ the initial step *)

Section Init.
Variable hist : list nat.
Hypothesis HH : HistOK c hist.
Hypothesis root_compound : kd 0 = FCompound.
Hypothesis root_sorted : ssorted (fs_completion (st c 0)).

Theorem ehp_entry_rel_init :
  let T := fs_completion (st c 0) in
  snd (EFP [] [] hist T []) = snd (ELP [] [] hist T []) /\
  HInvP c [] [] T ETrue n (fst (ELP [] [] hist T [])) /\ HInvP c [] [] T ETrue n (fst (EFP [] [] hist T [])) /\
  ERel c n (fst (EFP [] [] hist T [])) (fst (ELP [] [] hist T [])) /\ TsOK c [] (fst (ELP [] [] hist T [])) (snd (ELP [] [] hist T [])).
Proof.
  intros T. apply ehp_entry_rel; try assumption.
  - exact (hinit_tg_bound_p c W root_compound).
  - exact (hinit_E0_uniq_p c W root_compound).
  - exact (hinit_E0_par c W root_compound).
  - exact (hinit_E0_par2 c W root_compound).
  - intros y [].
  - intros y p [].
  - intros y [].
  - intros y [].
  - exact I.
Qed.

Theorem ehp_entry_set_init :
  fentry_set c [] [] hist (fs_completion (st c 0)) [] =
  (no_initial c (fst (entry_set lg_fixed c [] [] hist (fs_completion (st c 0)) [])),
   snd (entry_set lg_fixed c [] [] hist (fs_completion (st c 0)) [])).
Proof.
  apply ehp_entry_set_eq; try assumption.
  - exact (hinit_tg_bound_p c W root_compound).
  - exact (hinit_E0_uniq_p c W root_compound).
  - exact (hinit_E0_par c W root_compound).
  - exact (hinit_E0_par2 c W root_compound).
  - intros y [].
  - intros y p [].
  - intros y [].
  - intros y [].
  - exact I.
Qed.

End Init.
End EHPEntry.

