(* NameMatch.v -- model of uscxml::nameMatch (src/uscxml/util/String.cpp) and the
   Recommendation's matching relation (SCXML 1.0, 3.12.1).  Model only; lemmas are in
   NameMatchLemmas.v. *)
From V Require Import Base.
Local Open Scope N_scope.

(* Points at which the pinned code deviated; the repaired code has both switches off.
   The run-time check determines the vector of the implementation from witness inputs. *)
Record nm_variant := {
  nm_case_insensitive : bool;   (* boost::iequals for equality of descriptor and name *)
  nm_short_desc_bug   : bool    (* `start < i - 1` and the un-examined first character after
                                   a whitespace run *)
}.

Definition nm_fixed  : nm_variant := {| nm_case_insensitive := false; nm_short_desc_bug := false |}.
Definition nm_pinned : nm_variant := {| nm_case_insensitive := true;  nm_short_desc_bug := true |}.

Definition nm_eq (v : nm_variant) (a b : bytes) : bool :=
  if nm_case_insensitive v then ieq_bytes a b else beq_bytes a b.

(* The body of `if (eventDesc.size() > 0) { ... }` for one descriptor [d] (non-empty). *)
Definition nm_process (v : nm_variant) (d name : bytes) : bool :=
  let r  := rev d in
  let r1 := match r with c :: t => if c =? c_star then t else r | [] => r end in
  let r2 := match r1 with c :: t => if c =? c_dot then t else r1 | [] => r1 end in
  let d2 := rev r2 in
  match d2 with
  | [] => true                                          (* the `*` wildcard *)
  | _ =>
    if (length name <? length d2)%nat then false        (* goto NEXT_DESC *)
    else if nm_eq v d2 name then true
    else is_prefix d2 name && opt_is (nth_byte name (length d2)) c_dot
  end.

Definition nm_process_opt (v : nm_variant) (d name : bytes) : bool :=
  match d with [] => false | _ => nm_process v d name end.

(* The for-loop.  [cur] holds eventDescs[start..i) reversed.  Mode [true] is the inner
   `while (isspace(eventDescs[++i]));`. *)
Fixpoint nm_scan (v : nm_variant) (name : bytes) (skip : bool) (cur : bytes) (l : bytes) : bool :=
  match l with
  | [] => false
  | c :: r =>
    if skip then
      if isspace c then nm_scan v name true [] r
      else if nm_short_desc_bug v then
        (* start = i; the loop's i++ then steps over this character unexamined *)
        nm_scan v name false [c] r
      else
        match r with
        | [] => nm_process v [c] name
        | _ => nm_scan v name false [c] r
        end
    else if isspace c then
      let d := if nm_short_desc_bug v
               then (if (2 <=? length cur)%nat then rev cur else [])
               else rev cur in
      if nm_process_opt v d name then true else nm_scan v name true [] r
    else
      match r with
      | [] => nm_process v (rev (c :: cur)) name
      | _ => nm_scan v name false (c :: cur) r
      end
  end.

Definition name_match_impl (v : nm_variant) (descs name : bytes) : bool :=
  match descs, name with
  | [], _ => false
  | _, [] => false
  | _, _ => if nm_eq v descs name then true else nm_scan v name false [] descs
  end.

(* ---- specification: Recommendation 3.12.1 on whitespace-separated descriptor tokens ---- *)

Fixpoint tokens_aux (cur : bytes) (l : bytes) : list bytes :=
  match l with
  | [] => match cur with [] => [] | _ => [rev cur] end
  | c :: r =>
    if isspace c then
      match cur with [] => tokens_aux [] r | _ => rev cur :: tokens_aux [] r end
    else tokens_aux (c :: cur) r
  end.
Definition tokens (l : bytes) : list bytes := tokens_aux [] l.

(* a trailing ".*" or "." is ignored *)
Definition strip_suffix (d : bytes) : bytes :=
  match rev d with
  | c1 :: c2 :: r => if (c1 =? c_star) && (c2 =? c_dot) then rev r
                     else if c1 =? c_dot then rev (c2 :: r) else d
  | [c1] => if c1 =? c_dot then [] else d
  | [] => d
  end.

Definition desc_match_spec (d name : bytes) : bool :=
  beq_bytes d [c_star] ||
  (let d' := strip_suffix d in beq_bytes d' name || is_prefix (d' ++ [c_dot]) name).

Definition name_match_spec (descs name : bytes) : bool :=
  match name with
  | [] => false
  | _ => existsb (fun d => desc_match_spec d name) (tokens descs)
  end.

(* descriptors the Recommendation's grammar admits: `*`, or dot-separated tokens optionally
   followed by `.*` or `.`; in particular `*` occurs only as the whole descriptor or as the last
   character after a dot, and the descriptor is not just dots/stars. *)
Definition wf_desc (d : bytes) : bool :=
  beq_bytes d [c_star] ||
  (match strip_suffix d with [] => false | _ => true end &&
   match rev d with
   | c1 :: c2 :: _ => negb (c1 =? c_star) || (c2 =? c_dot)
   | [c1] => negb (c1 =? c_star)
   | [] => false
   end).

Definition wf_descs (descs : bytes) : bool := forallb wf_desc (tokens descs).
Definition no_space (name : bytes) : bool := forallb (fun c => negb (isspace c)) name.
