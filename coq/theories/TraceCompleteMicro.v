(* TraceCompleteMicro.v -- C13 completeness, layer 1: what the phases EXIT_STATES, TAKE_TRANSITIONS and
   ENTER_STATES of the modelled LargeMicroStep::step report and how they change the configuration; the
   per-micro-step statement [microstep_reports_delta].  For every variant of the engine and of the executor
   and for every flat chart (no well-formedness hypothesis). *)
From V Require Import Base NameMatch Chart Exec Large Interp Trace TraceLemmas SetLemmas TraceComplete TraceCompleteBase.
From Coq Require Import ZifyBool.
Local Open Scope nat_scope.

(* ------------------------------------------------------------------ reports + named internal queue *)

Definition rep (ok : bool) (x x' : xstate) (sk : list tok) : Prop :=
  reports x x' sk /\ qgrow ok x x'.

Lemma rep_named ok x x' sk : rep ok x x' sk -> ok = true -> iq_named x -> iq_named x'.
Proof. intros [_ H]. now apply qgrow_named. Qed.

Lemma rep_quiet ok x x' : quiet ok x x' -> rep ok x x' [].
Proof. auto. Qed.

Lemma rep_refl ok x : rep ok x x [].
Proof. apply rep_quiet, quiet_refl. Qed.

Lemma rep_trans ok x x' x'' a b : rep ok x x' a -> rep ok x' x'' b -> rep ok x x'' (a ++ b).
Proof. intros [R1 N1] [R2 N2]. split; [eapply reports_trans; eassumption | eapply qgrow_trans; eassumption]. Qed.

Lemma rep_eq ok x x' a b : rep ok x x' a -> a = b -> rep ok x x' b.
Proof. now intros H <-. Qed.

Lemma rep_then_tok ok x x' a t : rep ok x x' a -> is_content t = false -> rep ok x (emit t x') (a ++ [t]).
Proof.
  intros H Ht. eapply rep_trans; [exact H|]. split; [now apply reports_tok | now apply qgrow_same].
Qed.

Lemma rep_then_quiet ok x x' x'' a : rep ok x x' a -> quiet ok x' x'' -> rep ok x x'' a.
Proof. intros H Hq. rewrite <- (app_nil_r a). eapply rep_trans; [exact H | now apply rep_quiet]. Qed.

Lemma rep_tok ok x t : is_content t = false -> rep ok x (emit t x) [t].
Proof. intros Ht. exact (rep_then_tok ok x x [] t (rep_refl ok x) Ht). Qed.

Lemma rep_bracket ok x tb te (body : xstate -> xstate) :
  is_content tb = false -> is_content te = false ->
  (forall y, quiet ok y (body y)) ->
  rep ok x (emit te (body (emit tb x))) [tb; te].
Proof.
  intros Hb He Hq.
  change [tb; te] with ([tb] ++ [te]). apply rep_then_tok; [|exact He].
  eapply rep_then_quiet; [now apply rep_tok | apply Hq].
Qed.

Lemma trans_skel_app c a b : trans_skel c (a ++ b) = trans_skel c a ++ trans_skel c b.
Proof. apply flat_map_app. Qed.
Lemma exit_skel_app c a b : exit_skel c (a ++ b) = exit_skel c a ++ exit_skel c b.
Proof. apply flat_map_app. Qed.
Lemma entry_skel_app c ts a b : entry_skel c ts (a ++ b) = entry_skel c ts a ++ entry_skel c ts b.
Proof. unfold entry_skel, entry_skel_with. apply flat_map_app. Qed.

(* ------------------------------------------------------------------ the named-raise condition, per block *)

Section Names.
Variable c : fchart.
Let ok := raise_names_okb c.

Lemma st_in_or_dummy i : In (st c i) (fc_states c) \/ st c i = dummy_state.
Proof. unfold st. destruct (nth_in_or_default i (fc_states c) dummy_state); auto. Qed.
Lemma tr_in_or_dummy i : In (tr c i) (fc_trans c) \/ tr c i = dummy_trans.
Proof. unfold tr. destruct (nth_in_or_default i (fc_trans c) dummy_trans); auto. Qed.

Lemma names_onexit i : ok = true -> forallb block_names_okb (fs_onexit (st c i)) = true.
Proof.
  unfold ok, raise_names_okb. intros H. apply andb_true_iff in H. destruct H as [H _].
  destruct (st_in_or_dummy i) as [Hin| ->]; [|reflexivity].
  rewrite forallb_forall in H. specialize (H _ Hin). now apply andb_true_iff in H.
Qed.
Lemma names_onentry i : ok = true -> forallb block_names_okb (fs_onentry (st c i)) = true.
Proof.
  unfold ok, raise_names_okb. intros H. apply andb_true_iff in H. destruct H as [H _].
  destruct (st_in_or_dummy i) as [Hin| ->]; [|reflexivity].
  rewrite forallb_forall in H. specialize (H _ Hin). now apply andb_true_iff in H.
Qed.
Lemma names_body ti : ok = true -> block_names_okb (ft_body (tr c ti)) = true.
Proof.
  unfold ok, raise_names_okb. intros H. apply andb_true_iff in H. destruct H as [_ H].
  destruct (tr_in_or_dummy ti) as [Hin| ->]; [|reflexivity].
  rewrite forallb_forall in H. now apply H.
Qed.
End Names.

(* ------------------------------------------------------------------ the phases *)

Section Phases.
Variable v : lg_variant.
Variable xv : ex_variant.
Variable c : fchart.
Let ok := raise_names_okb c.

Lemma onexit_quiet cfg i y : quiet ok y (exec_blocks xv (inst_of c cfg) (fs_onexit (st c i)) y).
Proof. eapply quiet_weaken; [|apply exec_blocks_quiet]. apply names_onexit. Qed.
Lemma onentry_quiet cfg i y : quiet ok y (exec_blocks xv (inst_of c cfg) (fs_onentry (st c i)) y).
Proof. eapply quiet_weaken; [|apply exec_blocks_quiet]. apply names_onentry. Qed.
Lemma body_quiet cfg ti y : quiet ok y (exec_block xv (inst_of c cfg) (ft_body (tr c ti)) y).
Proof. eapply quiet_weaken; [|apply exec_block_quiet]. apply names_body. Qed.

(* EXIT_STATES *)
Lemma exit_fold_rep l : forall cfg x,
  fst (fold_left (exit_one xv c) l (cfg, x)) = remove_all l cfg /\
  rep ok x (snd (fold_left (exit_one xv c) l (cfg, x))) (exit_skel c l).
Proof.
  induction l as [|i r IH]; intros cfg x; cbn [fold_left]; [split; [reflexivity | apply rep_refl]|].
  change (exit_one xv c (cfg, x) i) with
    (set_remove i cfg,
     emit (TXe (fs_sid (st c i)))
          (exec_blocks xv (inst_of c cfg) (fs_onexit (st c i)) (emit (TXb (fs_sid (st c i))) x))).
  destruct (IH (set_remove i cfg)
               (emit (TXe (fs_sid (st c i)))
                     (exec_blocks xv (inst_of c cfg) (fs_onexit (st c i)) (emit (TXb (fs_sid (st c i))) x)))) as [IH1 IH2].
  split; [exact IH1|].
  change (exit_skel c (i :: r)) with ([TXb (sid_of c i); TXe (sid_of c i)] ++ exit_skel c r).
  eapply rep_trans; [|exact IH2].
  apply (rep_bracket ok x (TXb (sid_of c i)) (TXe (sid_of c i))
                     (exec_blocks xv (inst_of c cfg) (fs_onexit (st c i)))); try reflexivity.
  intros y. apply onexit_quiet.
Qed.

(* one transition bracket *)
Lemma trans_bracket_rep cfg ti x :
  rep ok x (emit (TTe (ft_vid (tr c ti)))
                 (if ft_has_body (tr c ti) then exec_block xv (inst_of c cfg) (ft_body (tr c ti)) (emit (TTb (ft_vid (tr c ti))) x)
                  else emit (TTb (ft_vid (tr c ti))) x))
      [TTb (vid_of c ti); TTe (vid_of c ti)].
Proof.
  destruct (ft_has_body (tr c ti)).
  - apply (rep_bracket ok x (TTb (vid_of c ti)) (TTe (vid_of c ti))
                       (exec_block xv (inst_of c cfg) (ft_body (tr c ti)))); try reflexivity.
    intros y. apply body_quiet.
  - apply (rep_bracket ok x (TTb (vid_of c ti)) (TTe (vid_of c ti)) (fun y => y)); try reflexivity.
    intros y. apply quiet_refl.
Qed.

(* TAKE_TRANSITIONS *)
Lemma take_fold_rep cfg ts : forall x,
  rep ok x (fold_left (take_one xv c cfg) ts x) (trans_skel c (plain_trans c ts)).
Proof.
  induction ts as [|ti r IH]; intros x; cbn [fold_left]; [apply rep_refl|].
  unfold plain_trans. cbn [filter]. fold (plain_trans c r).
  unfold take_one at 2. unfold is_pseudo_trans at 1.
  destruct (ft_history (tr c ti) || ft_initial (tr c ti)); cbn [negb].
  - apply IH.
  - change (trans_skel c (ti :: plain_trans c r)) with ([TTb (vid_of c ti); TTe (vid_of c ti)] ++ trans_skel c (plain_trans c r)).
    eapply rep_trans; [|apply IH]. apply trans_bracket_rep.
Qed.

Lemma done_event_named i : namedb (done_event c i) = true.
Proof. reflexivity. Qed.

Lemma done_walk_quiet fuel : forall cfg anc x, quiet ok x (done_walk c fuel cfg anc x).
Proof.
  induction fuel as [|f IH]; intros cfg anc x; cbn [done_walk]; [apply quiet_refl|].
  destruct anc as [a|]; [|apply quiet_refl].
  destruct (fs_type (st c a)); try apply IH.
  destruct (in_final c (n_states c) cfg a); [|apply quiet_refl].
  eapply quiet_trans; [|apply IH]. apply quiet_raise. apply done_event_named.
Qed.

(* the <initial>/<history> transitions taken after entering a state *)
Lemma pseudo_fold_rep cfg1 ts : forall chs x,
  rep ok x
      (fold_left
         (fun x ch =>
            if is_pseudo (fs_type (st c ch)) then
              fold_left (fun x ti =>
                           let t := tr c ti in
                           if (ft_history t || ft_initial t) && mem ti ts then
                             let y1 := emit (TTb (ft_vid t)) x in
                             let y2 := if ft_has_body t then exec_block xv (inst_of c cfg1) (ft_body t) y1 else y1 in
                             emit (TTe (ft_vid t)) y2
                           else x)
                        (fs_trans (st c ch)) x
            else x) chs x)
      (trans_skel c (flat_map (fun ch => if is_pseudo (fs_type (st c ch))
                                         then filter (fun ti => is_pseudo_trans c ti && mem ti ts) (fs_trans (st c ch))
                                         else []) chs)).
Proof.
  induction chs as [|ch r IH]; intros x; cbn [fold_left flat_map]; [apply rep_refl|].
  rewrite trans_skel_app. eapply rep_trans; [|apply IH].
  destruct (is_pseudo (fs_type (st c ch))); [|apply rep_refl].
  generalize x. induction (fs_trans (st c ch)) as [|ti rt IHt]; intros z; cbn [fold_left filter]; [apply rep_refl|].
  cbn zeta. unfold is_pseudo_trans at 1.
  destruct ((ft_history (tr c ti) || ft_initial (tr c ti)) && mem ti ts).
  - change (trans_skel c (ti :: filter (fun ti0 => is_pseudo_trans c ti0 && mem ti0 ts) rt))
      with ([TTb (vid_of c ti); TTe (vid_of c ti)] ++ trans_skel c (filter (fun ti0 => is_pseudo_trans c ti0 && mem ti0 ts) rt)).
    eapply rep_trans; [|apply IHt]. apply trans_bracket_rep.
  - apply IHt.
Qed.

(* ENTER_STATES, one state *)
Lemma enter_one_pseudo ts a i : is_pseudo (fs_type (st c i)) = true -> enter_one xv c ts a i = a.
Proof. intros H. unfold enter_one. now rewrite H. Qed.

Lemma enter_one_rep ts a i : is_pseudo (fs_type (st c i)) = false ->
  ea_cfg (enter_one xv c ts a i) = insert_sorted i (ea_cfg a) /\
  rep ok (ea_x a) (ea_x (enter_one xv c ts a i))
      (TEb (sid_of c i) :: TEe (sid_of c i) :: trans_skel c (pseudo_trans c ts i)).
Proof.
  intros Hps. unfold enter_one. rewrite Hps. cbn zeta.
  set (s := st c i).
  set (x1 := emit (TEb (fs_sid s)) (ea_x a)).
  set (cfg1 := insert_sorted i (ea_cfg a)).
  match goal with
  | |- context [let '(initd1, x2) := ?e in _] => destruct e as [initd1 x2] eqn:Einit
  end.
  assert (H12 : quiet ok x1 x2).
  { assert (Hdata : forall ds y, quiet ok y (fold_left (fun x d => init_data d x) ds y)).
    { intros ds y. apply quiet_fold. intros z d _. apply quiet_init_data. }
    destruct (fs_data s) as [|d ds].
    - injection Einit as _ <-. apply quiet_refl.
    - destruct (mem i (ea_initd a)); injection Einit as _ <-; [apply quiet_refl | apply (Hdata (d :: ds))]. }
  set (x3 := exec_blocks xv (inst_of c cfg1) (fs_onentry s) x2).
  set (x4 := emit (TEe (fs_sid s)) x3).
  assert (H04 : rep ok (ea_x a) x4 [TEb (sid_of c i); TEe (sid_of c i)]).
  { change [TEb (sid_of c i); TEe (sid_of c i)] with ([TEb (sid_of c i)] ++ [TEe (sid_of c i)]).
    apply rep_then_tok; [|reflexivity].
    eapply rep_then_quiet; [|apply onentry_quiet].
    eapply rep_then_quiet; [|exact H12]. now apply rep_tok. }
  match goal with
  | |- context [fold_left ?f (fs_children s) x4] => set (F := f); set (x5 := fold_left F (fs_children s) x4)
  end.
  assert (H45 : rep ok x4 x5 (trans_skel c (pseudo_trans c ts i))).
  { subst x5 F. unfold pseudo_trans. apply pseudo_fold_rep. }
  assert (H05 : rep ok (ea_x a) x5 (TEb (sid_of c i) :: TEe (sid_of c i) :: trans_skel c (pseudo_trans c ts i))).
  { exact (rep_trans _ _ _ _ _ _ H04 H45). }
  destruct (fs_type s) eqn:Ety; cbn [ea_x ea_cfg]; (split; [reflexivity|]); try exact H05.
  eapply rep_then_quiet; [exact H05|].
  eapply quiet_trans; [|apply done_walk_quiet].
  destruct (match fs_parent s with Some 0 => true | _ => false end); [apply quiet_refl|].
  destruct (fs_parent s); [|apply quiet_refl]. apply quiet_raise. apply done_event_named.
Qed.

(* ENTER_STATES *)
Lemma enter_fold_rep ts es : forall a,
  ea_cfg (fold_left (enter_one xv c ts) es a) = insert_all (entered_of c es) (ea_cfg a) /\
  rep ok (ea_x a) (ea_x (fold_left (enter_one xv c ts) es a)) (entry_skel c ts (entered_of c es)).
Proof.
  induction es as [|i r IH]; intros a; cbn [fold_left]; [split; [reflexivity | apply rep_refl]|].
  unfold entered_of. cbn [filter]. fold (entered_of c r).
  destruct (is_pseudo (fs_type (st c i))) eqn:Hps; cbn [negb].
  - rewrite enter_one_pseudo by exact Hps. apply IH.
  - destruct (enter_one_rep ts a i Hps) as [Hc Hr].
    destruct (IH (enter_one xv c ts a i)) as [IHc IHr]. split.
    + rewrite IHc, Hc. reflexivity.
    + change (entry_skel c ts (i :: entered_of c r))
        with ((TEb (sid_of c i) :: TEe (sid_of c i) :: trans_skel c (pseudo_trans c ts i)) ++ entry_skel c ts (entered_of c r)).
      eapply rep_trans; eassumption.
Qed.

(* ------------------------------------------------------------------ one micro-step *)

(* the history the micro-step works with, its entry set and transition set *)
Definition ms_hist (l : lstate) (exitset : list nat) (initial_step : bool) : list nat :=
  if initial_step then l_hist l else remember_history c (l_cfg l) exitset (l_hist l).
Definition ms_entry (l : lstate) (targets exitset transset : list nat) (initial_step : bool) : list nat * list nat :=
  entry_set v c (l_cfg l) exitset (ms_hist l exitset initial_step) targets transset.
(* configuration after EXIT_STATES, proper states entered *)
Definition ms_mid (l : lstate) (exitset : list nat) : list nat := remove_all (rev exitset) (l_cfg l).
Definition ms_entered (l : lstate) (targets exitset transset : list nat) (initial_step : bool) : list nat :=
  entered_of c (set_diff (fst (ms_entry l targets exitset transset initial_step)) (ms_mid l exitset)).

Lemma microstep_rep l x targets exitset transset initial_step :
  let r := microstep v xv c l x targets exitset transset initial_step in
  let ts := snd (ms_entry l targets exitset transset initial_step) in
  let en := ms_entered l targets exitset transset initial_step in
  l_cfg (fst r) = insert_all en (ms_mid l exitset) /\
  l_stable (fst r) = l_stable l /\ l_spont (fst r) = true /\ l_fin (fst r) = l_fin l /\
  l_cancelled (fst r) = l_cancelled l /\
  rep ok x (snd r) (micro_skel c (rev exitset) ts en ++ [TMsE]).
Proof.
  cbn zeta. unfold ms_entered, ms_entry, ms_hist, ms_mid, microstep. cbn zeta.
  destruct (entry_set v c (l_cfg l) exitset _ targets transset) as [es ts].
  cbn [fst snd].
  destruct (exit_fold_rep (rev exitset) (l_cfg l) x) as [Hx1 Hx2].
  destruct (fold_left (exit_one xv c) (rev exitset) (l_cfg l, x)) as [cfg1 x1].
  cbn [fst snd] in *. subst cfg1.
  set (cfg1 := remove_all (rev exitset) (l_cfg l)).
  match goal with
  | |- context [fold_left (enter_one xv c ts) ?es1 ?a0] =>
    destruct (enter_fold_rep ts es1 a0) as [He1 He2]
  end.
  cbn [ea_cfg ea_x] in He1, He2. cbn [l_cfg l_stable l_spont l_fin l_cancelled].
  repeat (split; [solve [reflexivity | exact He1]|]).
  eapply rep_eq.
  - apply rep_then_tok; [|reflexivity].
    eapply rep_trans; [exact Hx2|]. eapply rep_trans; [apply take_fold_rep | exact He2].
  - unfold micro_skel, micro_skel_with. now repeat rewrite <- app_assoc.
Qed.

End Phases.
