(* ValidateLemmas.v -- proofs about Validate.v: structure of element handles, fuel sufficiency,
   totality, soundness and completeness of the verdicts, hasLegalCompletion. *)
From V Require Import Base Validate.
Local Open Scope nat_scope.

(* ------------------------------------------------------------------ generalities *)

Lemma gdoc_ind' (P : gdoc -> Prop) :
  (forall t a kids, Forall P kids -> P (GNode t a kids)) -> forall d, P d.
Proof.
  intros H. fix IH 1. intros [t a kids]. apply H.
  induction kids as [|k r IHr]; constructor; [apply IH | exact IHr].
Qed.

Lemma ptr_eqb_eq a b : ptr_eqb a b = true <-> a = b.
Proof.
  revert b. induction a as [|x a IH]; intros [|y b]; simpl; split; intro H; try congruence; auto.
  - apply andb_true_iff in H as [H1 H2]. apply Nat.eqb_eq in H1. apply IH in H2. congruence.
  - inversion H; subst. rewrite Nat.eqb_refl. simpl. apply IH. reflexivity.
Qed.
Lemma ptr_eqb_refl a : ptr_eqb a a = true. Proof. apply ptr_eqb_eq. reflexivity. Qed.
Lemma ptr_eqb_sym a b : ptr_eqb a b = ptr_eqb b a.
Proof.
  destruct (ptr_eqb a b) eqn:E.
  - apply ptr_eqb_eq in E. subst. symmetry. apply ptr_eqb_refl.
  - destruct (ptr_eqb b a) eqn:E2; auto. apply ptr_eqb_eq in E2. subst. rewrite ptr_eqb_refl in E. discriminate.
Qed.

Lemma beq_bytes_eq a b : beq_bytes a b = true <-> a = b.
Proof.
  revert b. induction a as [|x a IH]; intros [|y b]; simpl; split; intro H; try congruence; auto.
  - apply andb_true_iff in H as [H1 H2]. apply N.eqb_eq in H1. apply IH in H2. congruence.
  - inversion H; subst. rewrite N.eqb_refl. simpl. apply IH. reflexivity.
Qed.
Lemma beq_bytes_refl a : beq_bytes a a = true. Proof. apply beq_bytes_eq. reflexivity. Qed.

Lemma In_mapi_from {A B} (f : nat -> A -> B) l : forall i x,
  In x (mapi_from f i l) <-> exists n k, nth_error l n = Some k /\ x = f (i + n) k.
Proof.
  induction l as [|a l IH]; intros i x; simpl.
  - split; [tauto|]. intros (n & k & H & _). destruct n; discriminate.
  - split.
    + intros [H|H].
      * exists 0, a. split; auto. rewrite Nat.add_0_r. auto.
      * apply IH in H as (n & k & H1 & H2). exists (S n), k. split; auto. rewrite H2. f_equal. lia.
    + intros (n & k & H1 & H2). destruct n.
      * left. simpl in H1. inversion H1. subst. rewrite Nat.add_0_r. auto.
      * right. apply IH. exists n, k. split; auto. rewrite H2. f_equal. lia.
Qed.

Lemma mapi_from_length {A B} (f : nat -> A -> B) l : forall i, length (mapi_from f i l) = length l.
Proof. induction l; intros; simpl; auto. Qed.

Lemma mapi_from_ext {A B} (f g : nat -> A -> B) l : forall i,
  (forall n k, nth_error l n = Some k -> f (i + n) k = g (i + n) k) -> mapi_from f i l = mapi_from g i l.
Proof.
  induction l as [|a l IH]; intros i H; simpl; auto. f_equal.
  - specialize (H 0 a eq_refl). rewrite Nat.add_0_r in H. exact H.
  - apply IH. intros n k Hn. specialize (H (S n) k Hn). replace (S i + n) with (i + S n) by lia. exact H.
Qed.

Lemma In_concat {A} (x : A) ll : In x (concat ll) <-> exists l, In l ll /\ In x l.
Proof. apply in_concat. Qed.

Lemma forallb_app' {A} (f : A -> bool) a b : forallb f (a ++ b) = forallb f a && forallb f b.
Proof. apply forallb_app. Qed.

Lemma forallb_flat_map {A B} (p : B -> bool) (f : A -> list B) l :
  forallb p (flat_map f l) = forallb (fun x => forallb p (f x)) l.
Proof. induction l; simpl; auto. rewrite forallb_app, IHl. reflexivity. Qed.

Lemma forallb_concat {A} (p : A -> bool) ll : forallb p (concat ll) = forallb (forallb p) ll.
Proof. induction ll; simpl; auto. rewrite forallb_app, IHll. reflexivity. Qed.

(* ------------------------------------------------------------------ handles *)

Definition universe (d : gdoc) : list el := root_el d :: descendants (root_el d).

Lemma desc_from_unfold p anc d :
  desc_from p anc d = {| e_path := p; e_node := d; e_anc := anc |}
      :: concat (mapi_from (fun i k => desc_from (i :: p) (d :: anc) k) 0 (g_kids d)).
Proof. destruct d; reflexivity. Qed.

Lemma descendants_eq e :
  descendants e = tl (desc_from (e_path e) (e_anc e) (e_node e)).
Proof. unfold descendants. rewrite desc_from_unfold. reflexivity. Qed.

Lemma universe_eq d : universe d = desc_from [] [] d.
Proof. unfold universe, root_el. rewrite descendants_eq. simpl. rewrite desc_from_unfold. reflexivity. Qed.

Lemma el_eta e : e = {| e_path := e_path e; e_node := e_node e; e_anc := e_anc e |}.
Proof. destruct e; reflexivity. Qed.

Lemma concat_mapi_length (F : nat -> gdoc -> list el) kids : forall i,
  (forall n k, In k kids -> length (F n k) = gsize k) ->
  length (concat (mapi_from F i kids)) = fold_right (fun k a => gsize k + a) 0 kids.
Proof.
  induction kids as [|k r IH]; intros i H; [reflexivity|].
  cbn [mapi_from concat fold_right]. rewrite app_length, H by (left; auto).
  rewrite IH; auto. intros; apply H; right; auto.
Qed.

Lemma desc_from_length p anc d : length (desc_from p anc d) = gsize d.
Proof.
  revert p anc. induction d as [t a kids IH] using gdoc_ind'. intros p anc.
  rewrite desc_from_unfold. cbn [length gsize g_kids]. f_equal.
  apply concat_mapi_length. intros n k Hk. rewrite Forall_forall in IH. apply IH. exact Hk.
Qed.

Lemma universe_length d : length (universe d) = gsize d.
Proof. rewrite universe_eq. apply desc_from_length. Qed.

(* every member of desc_from is itself or below a child *)
Lemma In_desc_from e p anc d :
  In e (desc_from p anc d) <->
  e = {| e_path := p; e_node := d; e_anc := anc |} \/
  exists n k, nth_error (g_kids d) n = Some k /\ In e (desc_from (n :: p) (d :: anc) k).
Proof.
  rewrite desc_from_unfold. simpl. split.
  - intros [H|H]; [left; auto|]. right. apply In_concat in H as (l & Hl & He).
    apply In_mapi_from in Hl as (n & k & Hn & ->). exists n, k. auto.
  - intros [H|(n & k & Hn & He)]; [left; auto|]. right. apply In_concat.
    exists (desc_from (n :: p) (d :: anc) k). split; auto. apply In_mapi_from. exists n, k. auto.
Qed.

Lemma kids_el_In e k :
  In k (kids_el e) <-> exists n x, nth_error (g_kids (e_node e)) n = Some x /\
                                   k = {| e_path := n :: e_path e; e_node := x; e_anc := e_node e :: e_anc e |}.
Proof. unfold kids_el. rewrite In_mapi_from. simpl. tauto. Qed.

(* closure: children of a member are members *)
Lemma desc_from_kids_closed p anc d e k :
  In e (desc_from p anc d) -> In k (kids_el e) -> In k (desc_from p anc d).
Proof.
  revert p anc e k. induction d as [t a kids IH] using gdoc_ind'. intros p anc e k He Hk.
  apply In_desc_from in He as [-> | (n & x & Hn & He)].
  - apply kids_el_In in Hk as (n & x & Hn & ->). cbn [e_path e_node e_anc] in *.
    apply In_desc_from. right. exists n, x. split; auto.
    rewrite desc_from_unfold. left. reflexivity.
  - apply In_desc_from. right. exists n, x. split; auto. cbn [g_kids] in Hn.
    rewrite Forall_forall in IH. eapply IH; eauto. eapply nth_error_In; eauto.
Qed.

Lemma universe_kids_closed d e k : In e (universe d) -> In k (kids_el e) -> In k (universe d).
Proof. rewrite universe_eq. apply desc_from_kids_closed. Qed.

(* shape of members: path and ancestor chain extend those of the start *)
Lemma desc_from_shape p anc d e :
  In e (desc_from p anc d) ->
  exists q qa, e_path e = q ++ p /\ e_anc e = qa ++ anc /\ length q = length qa.
Proof.
  revert p anc e. induction d as [t a kids IH] using gdoc_ind'. intros p anc e He.
  apply In_desc_from in He as [-> | (n & x & Hn & He)].
  - exists [], []. auto.
  - rewrite Forall_forall in IH. apply IH in He; [|eapply nth_error_In; eauto].
    destruct He as (q & qa & H1 & H2 & H3).
    exists (q ++ [n]), (qa ++ [GNode t a kids]). rewrite <- !app_assoc. simpl.
    rewrite !app_length. simpl. auto.
Qed.

Lemma universe_shape d e : In e (universe d) -> length (e_path e) = length (e_anc e).
Proof.
  rewrite universe_eq. intros H. apply desc_from_shape in H as (q & qa & H1 & H2 & H3).
  rewrite H1, H2, !app_nil_r. auto.
Qed.

(* the parent of a proper member is a member *)
Lemma desc_from_parent p anc d e :
  In e (desc_from p anc d) ->
  e = {| e_path := p; e_node := d; e_anc := anc |} \/
  exists pe, parent_el e = Some pe /\ In pe (desc_from p anc d) /\ In e (kids_el pe).
Proof.
  revert p anc e. induction d as [t a kids IH] using gdoc_ind'. intros p anc e He.
  apply In_desc_from in He as [-> | (n & x & Hn & He)]; [left; auto|]. right.
  rewrite Forall_forall in IH. pose proof He as He'.
  apply IH in He; [|eapply nth_error_In; eauto].
  destruct He as [-> | (pe & H1 & H2 & H3)].
  - exists {| e_path := p; e_node := GNode t a kids; e_anc := anc |}. split; [reflexivity|]. split.
    + rewrite desc_from_unfold. left. reflexivity.
    + apply kids_el_In. exists n, x. auto.
  - exists pe. split; auto. split; auto. apply In_desc_from. right. exists n, x. auto.
Qed.

Lemma universe_parent d e :
  In e (universe d) -> e = root_el d \/ exists pe, parent_el e = Some pe /\ In pe (universe d) /\ In e (kids_el pe).
Proof. rewrite universe_eq. intros H. apply desc_from_parent in H. exact H. Qed.

Lemma root_in_universe d : In (root_el d) (universe d).
Proof. left. reflexivity. Qed.

Lemma descendants_in_universe d e : In e (descendants (root_el d)) -> In e (universe d).
Proof. intros. right. auto. Qed.

(* ------------------------------------------------------------------ getState *)

Definition qsize (q : list el) : nat := fold_right (fun e a => gsize (e_node e) + a) 0 q.

Lemma qsize_app a b : qsize (a ++ b) = qsize a + qsize b.
Proof. induction a; simpl; auto. unfold qsize in *. simpl. rewrite IHa. lia. Qed.

Lemma qsize_filter f q : qsize (filter f q) <= qsize q.
Proof. induction q; simpl; auto. destruct (f a); unfold qsize in *; simpl; lia. Qed.

Lemma gsize_pos d : 1 <= gsize d.
Proof. destruct d; simpl; lia. Qed.

Lemma qsize_mapi (F : nat -> gdoc -> el) kids : forall i,
  (forall n k, e_node (F n k) = k) ->
  qsize (mapi_from F i kids) = fold_right (fun k a => gsize k + a) 0 kids.
Proof.
  induction kids as [|k r IH]; intros i H; [reflexivity|].
  cbn [mapi_from]. unfold qsize in *. cbn [fold_right]. rewrite H, IH; auto.
Qed.

Lemma qsize_kids_el e : S (qsize (kids_el e)) = gsize (e_node e).
Proof.
  unfold kids_el. rewrite qsize_mapi by reflexivity. destruct (e_node e). reflexivity.
Qed.

Lemma qsize_child_states e b : qsize (child_states e b) < gsize (e_node e).
Proof.
  unfold child_states. pose proof (qsize_filter (fun k => is_state k b) (kids_el e)).
  pose proof (qsize_kids_el e). lia.
Qed.

Lemma get_state_bfs_fuel id : forall fuel q, qsize q <= fuel -> exists r, get_state_bfs fuel id q = Ok r.
Proof.
  induction fuel as [|f IH]; intros q Hq.
  - destruct q as [|x q]; [exists None; reflexivity|].
    unfold qsize in Hq. simpl in Hq. pose proof (gsize_pos (e_node x)). lia.
  - destruct q as [|x q]; [exists None; reflexivity|]. cbn [get_state_bfs].
    destruct (has_id x id); [eexists; reflexivity|]. apply IH.
    rewrite qsize_app. pose proof (qsize_child_states x false).
    change (qsize (x :: q)) with (gsize (e_node x) + qsize q) in Hq. lia.
Qed.

Lemma get_state_ok root id : exists r, get_state root id = Ok r.
Proof.
  unfold get_state. apply get_state_bfs_fuel. unfold qsize. simpl. lia.
Qed.

Inductive chain : el -> el -> Prop :=
| chain_refl e : chain e e
| chain_step e k x : In k (child_states e false) -> chain k x -> chain e x.

Lemma get_state_bfs_sound id : forall fuel q x,
  get_state_bfs fuel id q = Ok (Some x) -> has_id x id = true /\ exists q0, In q0 q /\ chain q0 x.
Proof.
  induction fuel as [|f IH]; intros q x H.
  - destruct q; simpl in H; discriminate.
  - destruct q as [|y q]; [simpl in H; discriminate|]. cbn [get_state_bfs] in H.
    destruct (has_id y id) eqn:Hy.
    + inversion H; subst. split; auto. exists x. split; [left; auto|constructor].
    + apply IH in H as [H1 (q0 & Hq0 & Hc)]. split; auto.
      apply in_app_or in Hq0 as [Hq0|Hq0].
      * exists q0. split; [right; auto|auto].
      * exists y. split; [left; auto|]. econstructor; eauto.
Qed.

Lemma get_state_bfs_none id : forall fuel q,
  get_state_bfs fuel id q = Ok None -> forall q0 x, In q0 q -> chain q0 x -> has_id x id = false.
Proof.
  induction fuel as [|f IH]; intros q H q0 x Hq0 Hc.
  - destruct q; [contradiction|simpl in H; discriminate].
  - destruct q as [|y q]; [contradiction|]. cbn [get_state_bfs] in H.
    destruct (has_id y id) eqn:Hy; [discriminate|].
    destruct Hq0 as [<-|Hq0].
    + inversion Hc; subst; auto.
      eapply IH; eauto. apply in_or_app. right. eauto.
    + eapply IH; eauto. apply in_or_app. left. auto.
Qed.

Lemma chain_in_universe d e x : In e (universe d) -> chain e x -> In x (universe d).
Proof.
  intros He Hc. induction Hc; auto. apply IHHc.
  unfold child_states in H. apply filter_In in H as [H _]. eapply universe_kids_closed; eauto.
Qed.

Lemma chain_is_state e x : chain e x -> x = e \/ is_state x false = true.
Proof.
  induction 1; auto. destruct IHchain as [->|]; auto.
  right. unfold child_states in H. apply filter_In in H. tauto.
Qed.

Lemma get_state_sound d id x :
  get_state (root_el d) id = Ok (Some x) ->
  has_id x id = true /\ In x (universe d) /\ chain (root_el d) x.
Proof.
  intros H. apply get_state_bfs_sound in H as [H1 (q0 & [<-|[]] & Hc)].
  split; auto. split; auto. eapply chain_in_universe; eauto. apply root_in_universe.
Qed.

Lemma get_state_none d id :
  get_state (root_el d) id = Ok None -> forall x, chain (root_el d) x -> has_id x id = false.
Proof. intros H x Hc. eapply get_state_bfs_none; eauto. left; auto. Qed.

(* mapM over get_state never fails *)
Lemma mapM_ok {A B} (f : A -> outcome B) l :
  (forall x, In x l -> exists y, f x = Ok y) -> exists ys, mapM f l = Ok ys.
Proof.
  induction l as [|x l IH]; intros H; [eexists; reflexivity|].
  destruct (H x) as (y & Hy); [left; auto|]. destruct IH as (ys & Hys); [intros; apply H; right; auto|].
  exists (y :: ys). simpl. rewrite Hy. simpl. rewrite Hys. reflexivity.
Qed.

Lemma mapM_In {A B} (f : A -> outcome B) l ys :
  mapM f l = Ok ys -> forall y, In y ys -> exists x, In x l /\ f x = Ok y.
Proof.
  revert ys. induction l as [|x l IH]; intros ys H y Hy; simpl in H.
  - inversion H; subst. contradiction.
  - destruct (f x) eqn:Hx; simpl in H; try discriminate.
    destruct (mapM f l) eqn:Hm; simpl in H; try discriminate. inversion H; subst.
    destruct Hy as [<-|Hy]; [exists x; split; [left|]; auto|].
    destruct (IH _ eq_refl _ Hy) as (x' & H1 & H2). exists x'. split; [right|]; auto.
Qed.

Lemma mapM_length {A B} (f : A -> outcome B) l ys : mapM f l = Ok ys -> length ys = length l.
Proof.
  revert ys. induction l as [|x l IH]; intros ys H; simpl in H.
  - inversion H. reflexivity.
  - destruct (f x); simpl in H; try discriminate. destruct (mapM f l); simpl in H; try discriminate.
    inversion H. simpl. f_equal. apply IH. reflexivity.
Qed.

Lemma get_target_states_ok root t : exists l, get_target_states root t = Ok l.
Proof.
  unfold get_target_states.
  destruct (mapM_ok (get_state root) (toks_of (ga_target (e_attrs t)))) as (ys & H).
  - intros. apply get_state_ok.
  - rewrite H. simpl. eexists; reflexivity.
Qed.

Lemma get_target_states_in d t l x :
  get_target_states (root_el d) t = Ok l -> In x l -> In x (universe d) /\ chain (root_el d) x.
Proof.
  unfold get_target_states. intros H Hx.
  destruct (mapM (get_state (root_el d)) (toks_of (ga_target (e_attrs t)))) eqn:Hm; simpl in H; try discriminate.
  inversion H; subst. apply in_flat_map in Hx as (o & Ho & Hx). destruct o as [e|]; [|contradiction].
  destruct Hx as [<-|[]]. destruct (mapM_In _ _ _ Hm _ Ho) as (id & _ & Hid).
  apply get_state_sound in Hid. tauto.
Qed.

Lemma get_states_ok v root ids : exists l, get_states v root ids = Ok l.
Proof.
  unfold get_states. destruct (mapM_ok (get_state root) ids) as (ys & H).
  - intros. apply get_state_ok.
  - rewrite H. simpl. eexists; reflexivity.
Qed.

Lemma get_states_in v d ids l x :
  get_states v (root_el d) ids = Ok l -> In (Some x) l -> In x (universe d).
Proof.
  unfold get_states. intros H Hx.
  destruct (mapM (get_state (root_el d)) ids) eqn:Hm; simpl in H; try discriminate. inversion H; subst.
  assert (In (Some x) a) as Hin by (destruct (vv_getstates_null v); [auto|apply filter_In in Hx; tauto]).
  destruct (mapM_In _ _ _ Hm _ Hin) as (id & _ & Hid). apply get_state_sound in Hid. tauto.
Qed.

Lemma get_states_no_null v root ids l :
  vv_getstates_null v = false -> get_states v root ids = Ok l -> ~ In None l.
Proof.
  unfold get_states. intros Hv H.
  destruct (mapM (get_state root) ids); simpl in H; try discriminate. inversion H; subst.
  rewrite Hv. intros Hin. apply filter_In in Hin as [_ Hin]. discriminate.
Qed.

(* ------------------------------------------------------------------ ancestors *)

Lemma kids_el_ancestors pe e : In e (kids_el pe) -> ancestors_el e = pe :: ancestors_el pe /\ parent_el e = Some pe.
Proof.
  intros H. apply kids_el_In in H as (n & x & _ & ->). unfold ancestors_el, parent_el. cbn.
  rewrite <- el_eta. auto.
Qed.

Lemma ancestors_in_universe_n d : forall n e, length (e_anc e) = n -> In e (universe d) ->
  forall a, In a (ancestors_el e) -> In a (universe d).
Proof.
  induction n as [|n IH]; intros e Hn He a Ha.
  - unfold ancestors_el in Ha. destruct (e_anc e); [contradiction|discriminate].
  - apply universe_parent in He as [->|(pe & Hp & Hpe & Hk)].
    + simpl in Hn. discriminate.
    + pose proof Hk as Hk'. apply kids_el_ancestors in Hk as [Hk _]. rewrite Hk in Ha.
      destruct Ha as [<-|Ha]; auto.
      eapply IH; eauto. apply kids_el_In in Hk' as (m & x & _ & ->). simpl in Hn. lia.
Qed.

Lemma ancestors_in_universe d e a : In e (universe d) -> In a (ancestors_el e) -> In a (universe d).
Proof. intros. eapply ancestors_in_universe_n; eauto. Qed.

Lemma parent_in_universe d e pe : In e (universe d) -> parent_el e = Some pe -> In pe (universe d).
Proof.
  intros He Hp. apply universe_parent in He as [->|(pe' & Hp' & H & _)].
  - discriminate.
  - congruence.
Qed.

(* ------------------------------------------------------------------ getReachableStates *)

Definition ouniverse (d : gdoc) : list (option el) := None :: map Some (universe d).

Lemma In_ouniverse_some d x : In (Some x) (ouniverse d) <-> In x (universe d).
Proof.
  unfold ouniverse. split.
  - intros [H|H]; [discriminate|]. apply in_map_iff in H as (y & Hy & H). congruence.
  - intros H. right. apply in_map. exact H.
Qed.

Lemma child_states_in_universe d e b k : In e (universe d) -> In k (child_states e b) -> In k (universe d).
Proof. intros He Hk. apply filter_In in Hk as [Hk _]. eapply universe_kids_closed; eauto. Qed.

Lemma with_tag_In t l e : In e (with_tag t l) <-> In e l /\ gtag_eqb (e_tag e) t = true.
Proof. unfold with_tag. apply filter_In. Qed.

Lemma get_initial_states_ok v root s : exists l, get_initial_states v root s = Ok l.
Proof.
  unfold get_initial_states.
  destruct (is_atomic _); [eexists; reflexivity|].
  destruct (is_parallel _); [eexists; reflexivity|].
  destruct (is_compound _); [|eexists; reflexivity].
  destruct (ga_initial _); [apply get_states_ok|].
  destruct (with_tag GInitial _) as [|ini ri]; [destruct (child_states _ _); eexists; reflexivity|].
  destruct (with_tag GTransition _) as [|t rt]; [eexists; reflexivity|].
  destruct (ga_target _); [|eexists; reflexivity].
  destruct (get_target_states_ok root t) as (lt & ->). simpl. eexists; reflexivity.
Qed.

Lemma get_initial_states_in v d s l x :
  (forall e, s = Some e -> In e (universe d)) ->
  get_initial_states v (root_el d) s = Ok l -> In (Some x) l -> In x (universe d).
Proof.
  intros Hs. unfold get_initial_states.
  set (state := match s with Some e => e | None => root_el d end).
  assert (In state (universe d)) as Hst.
  { subst state. destruct s; [apply Hs; auto|apply root_in_universe]. }
  clearbody state.
  destruct (is_atomic state); [intros H; inversion H; subst; contradiction|].
  destruct (is_parallel state).
  { intros H Hx. inversion H; subst. apply in_map_iff in Hx as (y & Hy & Hx). inversion Hy; subst.
    eapply child_states_in_universe; eauto. }
  destruct (is_compound state); [|intros H; inversion H; subst; contradiction].
  destruct (ga_initial (e_attrs state)); [intros; eapply get_states_in; eauto|].
  destruct (with_tag GInitial (kids_el state)) as [|ini r] eqn:Hini.
  { destruct (child_states state true) as [|c r] eqn:Hc; intros H Hx; inversion H; subst; [contradiction|].
    destruct Hx as [Hx|[]]. inversion Hx; subst. eapply child_states_in_universe; eauto. rewrite Hc. left; auto. }
  destruct (with_tag GTransition (kids_el ini)) as [|t r'] eqn:Ht; [intros H; inversion H; subst; contradiction|].
  destruct (ga_target (e_attrs t)); [|intros H; inversion H; subst; contradiction].
  destruct (get_target_states (root_el d) t) eqn:Hg; simpl; intros H Hx; inversion H; subst.
  apply in_map_iff in Hx as (y & Hy & Hx). inversion Hy; subst.
  eapply get_target_states_in in Hg; eauto. tauto.
Qed.

Lemma get_initial_states_no_null v root s l :
  vv_getstates_null v = false -> get_initial_states v root s = Ok l -> ~ In None l.
Proof.
  intros Hv. unfold get_initial_states.
  set (state := match s with Some e => e | None => root end). clearbody state.
  destruct (is_atomic state); [intros H; inversion H; subst; auto|].
  destruct (is_parallel state).
  { intros H Hx. inversion H; subst. apply in_map_iff in Hx as (y & Hy & _). discriminate. }
  destruct (is_compound state); [|intros H; inversion H; subst; auto].
  destruct (ga_initial (e_attrs state)); [intros; eapply get_states_no_null; eauto|].
  destruct (with_tag GInitial (kids_el state)) as [|ini r].
  { destruct (child_states state true); intros H Hx; inversion H; subst; [contradiction|].
    destruct Hx as [Hx|[]]. discriminate. }
  destruct (with_tag GTransition (kids_el ini)) as [|t r']; [intros H; inversion H; subst; auto|].
  destruct (ga_target (e_attrs t)); [|intros H; inversion H; subst; auto].
  destruct (get_target_states root t); simpl; intros H Hx; inversion H; subst.
  apply in_map_iff in Hx as (y & Hy & _). discriminate.
Qed.

Lemma push_fold a r xs : forall c x,
  In x (fold_left (push_new a r) xs c) ->
  In x c \/ (In x xs /\ mem_oel x a = false /\ mem_oel x r = false).
Proof.
  induction xs as [|y xs IH]; intros c x H; simpl in H; auto.
  apply IH in H as [H|(H1 & H2 & H3)].
  - unfold push_new in H. destruct (negb (mem_oel y a) && negb (mem_oel y r)) eqn:E; auto.
    apply in_app_or in H as [H|[<-|[]]]; auto.
    apply andb_true_iff in E as [E1 E2]. apply negb_true_iff in E1, E2. right. split; [left|]; auto.
  - right. split; [right|]; auto.
Qed.

Lemma oel_eqb_refl x : oel_eqb x x = true.
Proof. destruct x; simpl; auto. apply ptr_eqb_refl. Qed.

Lemma mem_oel_In x l : In x l -> mem_oel x l = true.
Proof. intros H. unfold mem_oel. apply existsb_exists. exists x. split; auto. apply oel_eqb_refl. Qed.

Lemma mem_oel_app x a b : mem_oel x (a ++ b) = mem_oel x a || mem_oel x b.
Proof. unfold mem_oel. apply existsb_app. Qed.

Definition round_post (v : vvariant) (d : gdoc) (additions reachable cur : list (option el)) : Prop :=
  forall x, In x cur -> In x (ouniverse d) /\ mem_oel x additions = false /\ mem_oel x reachable = false /\
                        (vv_getstates_null v = false -> x <> None).

Lemma reach_round_spec v d additions reachable :
  (forall x, In x additions -> In x (ouniverse d)) ->
  (reach_round v (root_el d) additions reachable = Crash 1 /\ In None additions) \/
  (exists cur, reach_round v (root_el d) additions reachable = Ok cur /\ round_post v d additions reachable cur).
Proof.
  intros Hadd. unfold reach_round.
  destruct (mapM_ok (get_initial_states v (root_el d)) additions) as (inits & Hin).
  { intros. apply get_initial_states_ok. }
  rewrite Hin. cbn [bind].
  destruct (existsb _ additions) eqn:Hex.
  { left. split; auto. apply existsb_exists in Hex as (x & Hx & E). destruct x; [discriminate|auto]. }
  right.
  set (adds := flat_map (fun o => match o with Some e => [e] | None => [] end) additions).
  assert (forall s, In s adds -> In s (universe d)) as Hadds.
  { intros s Hs. apply in_flat_map in Hs as (o & Ho & Hs). destruct o; [|contradiction].
    destruct Hs as [<-|[]]. apply In_ouniverse_some. auto. }
  destruct (mapM_ok (fun s => do l <- mapM (get_target_states (root_el d)) (with_tag GTransition (kids_el s)); Ok (concat l)) adds)
    as (tgts & Htg).
  { intros s _. destruct (mapM_ok (get_target_states (root_el d)) (with_tag GTransition (kids_el s))) as (l & ->).
    - intros. apply get_target_states_ok.
    - simpl. eexists; reflexivity. }
  rewrite Htg. cbn [bind]. eexists. split; [reflexivity|].
  intros x Hx.
  apply push_fold in Hx as [Hx|(Hx & H1 & H2)].
  2:{ (* parents *)
    split; [|split; [auto|split; [auto|]]].
    - apply in_map_iff in Hx as (y & <- & Hy). apply In_ouniverse_some.
      apply in_flat_map in Hy as (s & Hs & Hy). destruct (is_atomic s); [|contradiction].
      assert (forall l, In y ((fix up (l : list el) : list el :=
                 match l with [] => [] | a :: r => if is_state a true then a :: up r else [] end) l) -> In y l) as Hup.
      { induction l as [|a l IHl]; intros H; auto. destruct (is_state a true); [|contradiction].
        destruct H as [<-|H]; [left|right]; auto. }
      apply Hup in Hy. eapply ancestors_in_universe; eauto.
    - intros _ E. subst. apply in_map_iff in Hx as (y & Hy & _). discriminate. }
  apply push_fold in Hx as [Hx|(Hx & H1 & H2)].
  2:{ (* targets *)
    split; [|split; [auto|split; [auto|]]].
    - apply in_map_iff in Hx as (y & <- & Hy). apply In_ouniverse_some.
      apply In_concat in Hy as (l & Hl & Hy).
      destruct (mapM_In _ _ _ Htg _ Hl) as (s & Hs & Hsl).
      destruct (mapM (get_target_states (root_el d)) (with_tag GTransition (kids_el s))) eqn:Hm; simpl in Hsl; try discriminate.
      inversion Hsl; subst. apply In_concat in Hy as (l' & Hl' & Hy).
      destruct (mapM_In _ _ _ Hm _ Hl') as (t & _ & Ht). eapply get_target_states_in in Ht; eauto. tauto.
    - intros _ E. subst. apply in_map_iff in Hx as (y & Hy & _). discriminate. }
  apply push_fold in Hx as [[]|(Hx & H1 & H2)].
  (* initial states *)
  apply In_concat in Hx as (l & Hl & Hx).
  destruct (mapM_In _ _ _ Hin _ Hl) as (s & Hs & Hsl).
  split; [|split; [auto|split; [auto|]]].
  - destruct x as [x|]; [|left; reflexivity]. apply In_ouniverse_some.
    eapply get_initial_states_in; eauto. intros e ->. apply In_ouniverse_some. auto.
  - intros Hv E. subst. eapply get_initial_states_no_null; eauto.
Qed.

Definition unreached (d : gdoc) (reachable : list (option el)) : nat :=
  length (filter (fun u => negb (mem_oel u reachable)) (ouniverse d)).

Lemma filter_length_lt {A} (f g : A -> bool) l u :
  (forall x, g x = true -> f x = true) -> In u l -> f u = true -> g u = false ->
  length (filter g l) < length (filter f l).
Proof.
  intros Hgf. induction l as [|x l IH]; intros Hu Hf Hg; [contradiction|].
  assert (length (filter g l) <= length (filter f l)) as Hle.
  { clear -Hgf. induction l as [|y l IHl]; simpl; auto.
    destruct (g y) eqn:E; [rewrite (Hgf _ E); simpl; lia|]. destruct (f y); simpl; lia. }
  destruct Hu as [->|Hu].
  - simpl. rewrite Hf, Hg. simpl. lia.
  - specialize (IH Hu Hf Hg). simpl. destruct (g x) eqn:E; [rewrite (Hgf _ E); simpl; lia|].
    destruct (f x); simpl; lia.
Qed.

Lemma reach_loop_spec v d : forall fuel additions reachable,
  (forall x, In x additions -> In x (ouniverse d) /\ mem_oel x reachable = false /\ (vv_getstates_null v = false -> x <> None)) ->
  unreached d reachable <= fuel ->
  (exists r, reach_loop fuel v (root_el d) additions reachable = Ok r) \/
  (reach_loop fuel v (root_el d) additions reachable = Crash 1 /\ vv_getstates_null v = true).
Proof.
  induction fuel as [|f IH]; intros additions reachable Hinv Hm.
  - destruct additions as [|x0 r0]; [left; eexists; reflexivity|].
    exfalso. destruct (Hinv x0) as (H1 & H2 & _); [left; auto|].
    unfold unreached in Hm.
    assert (In x0 (filter (fun u => negb (mem_oel u reachable)) (ouniverse d))) as Hf.
    { apply filter_In. split; auto. rewrite H2. reflexivity. }
    destruct (filter _ _); [contradiction|simpl in Hm; lia].
  - destruct additions as [|x0 r0]; [left; eexists; reflexivity|].
    cbn [reach_loop]. set (additions := x0 :: r0) in *.
    destruct (reach_round_spec v d additions reachable) as [[Hc Hn]|(cur & Hc & Hpost)].
    + intros x Hx. apply Hinv. auto.
    + right. rewrite Hc. split; auto.
      destruct (vv_getstates_null v) eqn:Hv; auto.
      destruct (Hinv None Hn) as (_ & _ & H). exfalso. apply H; auto.
    + rewrite Hc. cbn [bind]. apply IH.
      * intros x Hx. destruct (Hpost x Hx) as (H1 & H2 & H3 & H4). split; auto. split; auto.
        rewrite mem_oel_app, H3, H2. reflexivity.
      * destruct (Hinv x0) as (H1 & H2 & _); [left; auto|].
        assert (unreached d (reachable ++ additions) < unreached d reachable); [|lia].
        unfold unreached. apply filter_length_lt with (u := x0); auto.
        -- intros x Hx. apply negb_true_iff in Hx. rewrite mem_oel_app in Hx.
           apply orb_false_iff in Hx as [Hx _]. rewrite Hx. reflexivity.
        -- rewrite H2. reflexivity.
        -- apply negb_false_iff. rewrite mem_oel_app. apply orb_true_iff. right. apply mem_oel_In. left; auto.
Qed.

Lemma filter_len_le {A} (f : A -> bool) l : length (filter f l) <= length l.
Proof. induction l; simpl; auto. destruct (f a); simpl; lia. Qed.

Lemma get_reachable_states_spec v d :
  (exists r, get_reachable_states v (root_el d) = Ok r) \/
  (get_reachable_states v (root_el d) = Crash 1 /\ vv_getstates_null v = true).
Proof.
  unfold get_reachable_states. apply reach_loop_spec.
  - intros x [<-|[]]. split; [|split; [reflexivity|discriminate]].
    apply In_ouniverse_some. apply root_in_universe.
  - unfold unreached. etransitivity; [apply filter_len_le|].
    unfold ouniverse. cbn [length]. rewrite map_length, universe_length. cbn [root_el e_node]. lia.
Qed.

(* ------------------------------------------------------------------ totality *)

Lemma history_issues_ok v root s id : exists l, history_issues v root s id = Ok l.
Proof.
  unfold history_issues. destruct (with_tag GTransition (kids_el s)) as [|t [|t2 r]]; try (eexists; reflexivity).
  destruct (ga_target (e_attrs t)) as [tg|].
  - destruct (get_target_states_ok root t) as (lt & ->). simpl. eexists; reflexivity.
  - simpl. eexists; reflexivity.
Qed.

Lemma state_step_ok v root reach acc s : exists r, state_step v root reach acc s = Ok r.
Proof.
  unfold state_step. destruct acc as [issues seen].
  destruct (ga_id (e_attrs s)) as [[|b i]|]; try (eexists; reflexivity).
  - destruct (gtag_eqb (e_tag s) GHistory).
    + destruct (history_issues_ok v root s (b :: i)) as (lh & ->). simpl.
      destruct (seen_find seen (b :: i)); eexists; reflexivity.
    + simpl. destruct (seen_find seen (b :: i)); eexists; reflexivity.
  - destruct (gtag_eqb (e_tag s) GFinal); eexists; reflexivity.
Qed.

Lemma foldM_ok {A B} (f : A -> B -> outcome A) l :
  (forall a x, exists a', f a x = Ok a') -> forall a, exists r, foldM f l a = Ok r.
Proof.
  intros H. induction l as [|x l IH]; intros a; [eexists; reflexivity|].
  simpl. destruct (H a x) as (a' & ->). simpl. apply IH.
Qed.

Lemma validate_outcome v d :
  (exists l, validate v d = Ok l) \/ (validate v d = Crash 1 /\ vv_getstates_null v = true).
Proof.
  unfold validate. destruct (get_reachable_states_spec v d) as [(r & ->)|(-> & Hv)].
  - left. cbn [bind].
    destruct (foldM_ok (state_step v (root_el d) r) (all_states_of (descendants (root_el d)))
                       (state_step_ok v (root_el d) r) ([], [])) as (st & ->).
    cbn [bind]. eexists; reflexivity.
  - right. auto.
Qed.

Lemma validate_total_lemma v d : vv_getstates_null v = false -> exists l, validate v d = Ok l.
Proof.
  intros Hv. destruct (validate_outcome v d) as [H|[_ H]]; auto. congruence.
Qed.

Lemma validate_never_out_of_fuel v d : validate v d <> OutOfFuel.
Proof. destruct (validate_outcome v d) as [(l & ->)|[-> _]]; discriminate. Qed.

(* the pinned code crashes: <scxml initial="s1"><state/></scxml> *)
Definition no_attrs : gattrs :=
  {| ga_id := None; ga_initial := None; ga_target := None; ga_deep := false; ga_cond := false; ga_event := false |}.
Definition with_id (i : bytes) : gattrs :=
  {| ga_id := Some i; ga_initial := None; ga_target := None; ga_deep := false; ga_cond := false; ga_event := false |}.
Definition with_initial (l : list bytes) : gattrs :=
  {| ga_id := None; ga_initial := Some l; ga_target := None; ga_deep := false; ga_cond := false; ga_event := false |}.
Definition with_target (l : list bytes) : gattrs :=
  {| ga_id := None; ga_initial := None; ga_target := Some l; ga_deep := false; ga_cond := false; ga_event := false |}.
Definition s1 : bytes := [115; 49]%N.
Definition s2 : bytes := [115; 50]%N.
Definition s3 : bytes := [115; 51]%N.
Definition s4 : bytes := [115; 52]%N.
Definition s5 : bytes := [115; 53]%N.

Definition wit_crash : gdoc := GNode GScxml (with_initial [s1]) [GNode GState no_attrs []].

Lemma validate_total_pinned_refuted_lemma : exists d w, validate vv_pinned d = Crash w.
Proof. exists wit_crash, 1%N. vm_compute. reflexivity. Qed.

(* ------------------------------------------------------------------ the loop over all states *)

Definition keyed (l : list el) : seen_t :=
  flat_map (fun s => match ga_id (e_attrs s) with Some i => [(i, s)] | None => [] end) l.

Lemma keyed_app a b : keyed (a ++ b) = keyed a ++ keyed b.
Proof. unfold keyed. apply flat_map_app. Qed.

Lemma ids_of_keyed l : map fst (keyed l) = ids_of l.
Proof.
  induction l as [|s l IH]; simpl; auto. unfold keyed, ids_of in *. simpl.
  destruct (ga_id (e_attrs s)); simpl; rewrite IH; reflexivity.
Qed.

Lemma seen_find_keyed l id : seen_find (keyed l) id = first_with_id l id.
Proof.
  unfold seen_find, first_with_id. induction l as [|s l IH]; simpl; auto.
  unfold keyed in *. simpl. unfold has_id at 1. destruct (ga_id (e_attrs s)) as [i|]; simpl.
  - destruct (beq_bytes i id); auto.
  - auto.
Qed.

Lemma seen_find_none seen id :
  seen_find seen id = None <-> existsb (beq_bytes id) (map fst seen) = false.
Proof.
  unfold seen_find. induction seen as [|p seen IH]; simpl; [tauto|].
  replace (beq_bytes id (fst p)) with (beq_bytes (fst p) id).
  2:{ destruct (beq_bytes (fst p) id) eqn:E.
      - apply beq_bytes_eq in E. rewrite E. symmetry. apply beq_bytes_refl.
      - destruct (beq_bytes id (fst p)) eqn:E2; auto. apply beq_bytes_eq in E2. rewrite E2, beq_bytes_refl in E. discriminate. }
  destruct (beq_bytes (fst p) id); simpl; [split; discriminate|exact IH].
Qed.

Lemma beq_bytes_sym a b : beq_bytes a b = beq_bytes b a.
Proof.
  destruct (beq_bytes a b) eqn:E.
  - apply beq_bytes_eq in E. subst. symmetry. apply beq_bytes_refl.
  - destruct (beq_bytes b a) eqn:E2; auto. apply beq_bytes_eq in E2. subst. rewrite beq_bytes_refl in E. discriminate.
Qed.

Lemma nodup_bytes_snoc l x :
  nodup_bytes (l ++ [x]) = nodup_bytes l && negb (existsb (beq_bytes x) l).
Proof.
  induction l as [|y l IH]; simpl; auto.
  rewrite IH, existsb_app. simpl. rewrite orb_false_r, (beq_bytes_sym x y).
  destruct (existsb (beq_bytes y) l), (beq_bytes y x), (nodup_bytes l), (existsb (beq_bytes x) l); reflexivity.
Qed.

Lemma no_fatal_app a b : no_fatal (a ++ b) = no_fatal a && no_fatal b.
Proof. unfold no_fatal. apply forallb_app. Qed.

Definition hist_clean (v : vvariant) (root s : el) : Prop :=
  gtag_eqb (e_tag s) GHistory = true ->
  forall id, ga_id (e_attrs s) = Some id ->
  exists hi, history_issues v root s id = Ok hi /\ no_fatal hi = true.

Lemma state_loop_sound v root reach : forall l iss0 seen0 iss seen,
  foldM (state_step v root reach) l (iss0, seen0) = Ok (iss, seen) -> no_fatal iss = true ->
  no_fatal iss0 = true /\ seen = seen0 ++ keyed l /\
  (forall s, In s l -> hist_clean v root s) /\
  (forall s, In s l -> ga_id (e_attrs s) = None -> gtag_eqb (e_tag s) GFinal = true \/ vv_id_required v = false) /\
  (nodup_bytes (map fst seen0) = true -> nodup_bytes (map fst seen) = true) /\
  (forallb nonempty (map fst seen0) = true -> forallb nonempty (map fst seen) = true).
Proof.
  induction l as [|s l IH]; intros iss0 seen0 iss seen H Hnf.
  - simpl in H. inversion H; subst. rewrite app_nil_r. repeat split; auto; intros ? [].
  - cbn [foldM] in H.
    destruct (state_step v root reach (iss0, seen0) s) as [[iss1 seen1]| |] eqn:Hs; simpl in H; try discriminate.
    destruct (IH _ _ _ _ H Hnf) as (Hnf1 & Hseen & Hh & Hid & Hnd & Hne). clear IH.
    unfold state_step in Hs.
    destruct (ga_id (e_attrs s)) as [[|b i]|] eqn:Ei.
    + inversion Hs; subst. rewrite no_fatal_app in Hnf1. simpl in Hnf1. rewrite andb_false_r in Hnf1. discriminate.
    + destruct (if gtag_eqb (e_tag s) GHistory then history_issues v root s (b :: i) else Ok []) as [hi| |] eqn:Hhi;
        simpl in Hs; try discriminate.
      destruct (seen_find seen0 (b :: i)) eqn:Hf.
      * inversion Hs; subst. rewrite !no_fatal_app in Hnf1. simpl in Hnf1.
        rewrite !andb_false_r in Hnf1. discriminate.
      * inversion Hs; subst. rewrite !no_fatal_app in Hnf1.
        apply andb_true_iff in Hnf1 as [Hn0 Hn1]. apply andb_true_iff in Hn1 as [Hn1 _].
        split; auto. split.
        { unfold keyed at 1. simpl. rewrite Ei. rewrite <- app_assoc. reflexivity. }
        split.
        { intros s' [<-|Hs']; auto. intros Ht id Hid'. rewrite Ht in Hhi. rewrite Ei in Hid'. inversion Hid'; subst.
          exists hi. auto. }
        split.
        { intros s' [<-|Hs']; auto. congruence. }
        split.
        { intros Hnd0. apply Hnd. rewrite map_app. cbn [map fst]. rewrite nodup_bytes_snoc, Hnd0.
          apply seen_find_none in Hf. rewrite Hf. reflexivity. }
        { intros Hne0. apply Hne. rewrite map_app, forallb_app. apply andb_true_iff. split; [exact Hne0|reflexivity]. }
    + destruct (gtag_eqb (e_tag s) GFinal) eqn:Et.
      * inversion Hs; subst. split; auto. split.
        { unfold keyed at 1. simpl. rewrite Ei. reflexivity. }
        split.
        { intros s' [<-|Hs']; auto. intros _ id Hid'. congruence. }
        split; auto. intros s' [<-|Hs']; auto.
      * inversion Hs; subst. rewrite no_fatal_app in Hnf1. apply andb_true_iff in Hnf1 as [Hn0 Hn1].
        split; auto. split.
        { unfold keyed at 1. simpl. rewrite Ei. reflexivity. }
        split.
        { intros s' [<-|Hs']; auto. intros _ id Hid'. congruence. }
        split; auto. intros s' [<-|Hs']; auto. intros _. right.
        destruct (vv_id_required v); [simpl in Hn1; discriminate|reflexivity].
Qed.

Lemma nodup_app_head_notin ys x rest :
  nodup_bytes (ys ++ x :: rest) = true -> existsb (beq_bytes x) ys = false.
Proof.
  induction ys as [|y ys IHy]; simpl; auto. intros Hnd.
  apply andb_true_iff in Hnd as [H1 H2]. rewrite existsb_app in H1. simpl in H1.
  apply negb_true_iff in H1. apply orb_false_iff in H1 as [H1 H3]. apply orb_false_iff in H3 as [H3 _].
  rewrite beq_bytes_sym, H3. simpl. apply IHy. exact H2.
Qed.

(* and conversely *)
Lemma state_loop_complete v root reach : forall l iss0 seen0,
  no_fatal iss0 = true ->
  (forall s, In s l -> hist_clean v root s) ->
  (forall s, In s l -> ga_id (e_attrs s) = None -> gtag_eqb (e_tag s) GFinal = true \/ vv_id_required v = false) ->
  nodup_bytes (map fst seen0 ++ ids_of l) = true ->
  forallb nonempty (ids_of l) = true ->
  exists iss, foldM (state_step v root reach) l (iss0, seen0) = Ok (iss, seen0 ++ keyed l) /\ no_fatal iss = true.
Proof.
  induction l as [|s l IH]; intros iss0 seen0 Hnf Hh Hid Hnd Hne.
  - exists iss0. simpl. rewrite app_nil_r. auto.
  - cbn [foldM]. unfold state_step at 1.
    assert (forall s', In s' l -> hist_clean v root s') as Hh' by (intros; apply Hh; right; auto).
    assert (forall s', In s' l -> ga_id (e_attrs s') = None -> gtag_eqb (e_tag s') GFinal = true \/ vv_id_required v = false) as Hid'
        by (intros; apply Hid; auto; right; auto).
    destruct (ga_id (e_attrs s)) as [[|b i]|] eqn:Ei.
    + exfalso. unfold ids_of in Hne. simpl in Hne. rewrite Ei in Hne. simpl in Hne. discriminate.
    + assert (exists hi, (if gtag_eqb (e_tag s) GHistory then history_issues v root s (b :: i) else Ok []) = Ok hi /\ no_fatal hi = true)
        as (hi & Hhi & Hnhi).
      { destruct (gtag_eqb (e_tag s) GHistory) eqn:Et; [|exists []; auto]. apply (Hh s); auto. left; auto. }
      rewrite Hhi. cbn [bind].
      assert (seen_find seen0 (b :: i) = None) as Hf.
      { apply seen_find_none. unfold ids_of in Hnd. cbn [flat_map] in Hnd. rewrite Ei in Hnd. cbn [app] in Hnd.
        eapply nodup_app_head_notin; eauto. }
      rewrite Hf.
      destruct (IH (iss0 ++ hi ++ (if negb (mem_oel (Some s) reach) && same_machine s root
                                   then [mk Warning IUnreachable s [b :: i]] else []))
                   (seen0 ++ [(b :: i, s)])) as (iss & Hfold & Hnf'); auto.
      * rewrite !no_fatal_app, Hnf, Hnhi. simpl. destruct (negb _ && _); reflexivity.
      * rewrite map_app. cbn [map fst]. unfold ids_of in Hnd. cbn [flat_map] in Hnd. rewrite Ei in Hnd. cbn [app] in Hnd.
        rewrite <- app_assoc. exact Hnd.
      * unfold ids_of in Hne. cbn [flat_map] in Hne. rewrite Ei in Hne. cbn [app forallb] in Hne.
        apply andb_true_iff in Hne. tauto.
      * exists iss. split; auto. cbn [bind].
        replace (seen0 ++ keyed (s :: l)) with ((seen0 ++ [(b :: i, s)]) ++ keyed l); [exact Hfold|].
        unfold keyed at 2. cbn [flat_map]. rewrite Ei. rewrite <- app_assoc. reflexivity.
    + assert (ids_of (s :: l) = ids_of l) as Hids by (unfold ids_of; simpl; rewrite Ei; reflexivity).
      rewrite Hids in *.
      assert (keyed (s :: l) = keyed l) as Hk by (unfold keyed; simpl; rewrite Ei; reflexivity). rewrite Hk.
      destruct (gtag_eqb (e_tag s) GFinal) eqn:Et.
      * cbn [bind]. apply IH; auto.
      * cbn [bind]. apply IH; auto. rewrite no_fatal_app, Hnf. simpl.
        destruct (Hid s (or_introl eq_refl) Ei) as [H|H]; [congruence|]. rewrite H. reflexivity.
Qed.

(* ------------------------------------------------------------------ getState finds the state the map finds *)

Lemma chain_snoc e x k : chain e x -> In k (child_states x false) -> chain e k.
Proof.
  induction 1; intros Hk.
  - econstructor; eauto. constructor.
  - econstructor; eauto.
Qed.

Lemma all_states_of_In l e :
  In e (all_states_of l) <->
  In e l /\ (match e_tag e with GState | GParallel | GHistory | GFinal => true | _ => false end) = true.
Proof.
  unfold all_states_of. rewrite !in_app_iff, !with_tag_In. destruct (e_tag e); simpl; intuition discriminate.
Qed.

Lemma nodup_ids_mem l y id :
  In y l -> has_id y id = true -> existsb (beq_bytes id) (ids_of l) = true.
Proof.
  induction l as [|s l IH]; intros Hy Hid; [contradiction|].
  destruct Hy as [<-|Hy]; unfold ids_of in *; cbn [flat_map].
  - unfold has_id in Hid. destruct (ga_id (e_attrs s)) as [i|]; [|discriminate].
    cbn [app existsb]. rewrite beq_bytes_sym, Hid. reflexivity.
  - rewrite existsb_app. rewrite (IH Hy Hid). apply orb_true_r.
Qed.

Lemma nodup_ids_unique l : nodup_bytes (ids_of l) = true ->
  forall x y id, In x l -> In y l -> has_id x id = true -> has_id y id = true -> x = y.
Proof.
  induction l as [|s l IH]; intros Hnd x y id Hx Hy Hxi Hyi; [contradiction|].
  assert (nodup_bytes (ids_of l) = true) as Hnd'.
  { unfold ids_of in *. cbn [flat_map] in Hnd. destruct (ga_id (e_attrs s)); cbn [app nodup_bytes] in Hnd; auto.
    apply andb_true_iff in Hnd. tauto. }
  assert (forall z, In z l -> has_id s id = true -> has_id z id = true -> False) as Hcontra.
  { intros z Hz Hs Hzi. pose proof (nodup_ids_mem l z id Hz Hzi) as Hm.
    unfold has_id in Hs. unfold ids_of in Hnd. cbn [flat_map] in Hnd.
    destruct (ga_id (e_attrs s)) as [i|]; [|discriminate]. cbn [app nodup_bytes] in Hnd.
    apply andb_true_iff in Hnd as [Hn _]. apply beq_bytes_eq in Hs. subst i.
    unfold ids_of in Hm. rewrite Hm in Hn. discriminate. }
  destruct Hx as [<-|Hx], Hy as [<-|Hy]; auto.
  - exfalso. eapply Hcontra; eauto.
  - exfalso. eapply Hcontra; eauto.
  - eapply IH; eauto.
Qed.

Lemma first_with_id_some l id y : first_with_id l id = Some y -> In y l /\ has_id y id = true.
Proof. unfold first_with_id. apply find_some. Qed.

Lemma first_with_id_none l id : first_with_id l id = None -> forall y, In y l -> has_id y id = false.
Proof. unfold first_with_id. intros H y Hy. eapply find_none in H; eauto. Qed.

Section Doc.
  Variable d : gdoc.
  Let root := root_el d.
  Let all := descendants root.
  Let allStates := all_states_of all.

  Lemma wf_nesting_parent e :
    wf_nesting d = true -> In e all -> is_struct_tag (e_tag e) = true ->
    forall pe, parent_el e = Some pe -> valid_parent (e_tag e) (e_tag pe) = true.
  Proof.
    intros Hw He Hs pe Hp. unfold wf_nesting in Hw. apply andb_true_iff in Hw as [Hw _].
    rewrite forallb_forall in Hw. specialize (Hw e He). rewrite Hs, Hp in Hw. exact Hw.
  Qed.

  Lemma single_machine_tag e : single_machine d = true -> In e all -> gtag_eqb (e_tag e) GScxml = false.
  Proof.
    unfold single_machine. rewrite forallb_forall. intros H He. specialize (H e He).
    apply negb_true_iff in H. exact H.
  Qed.

  Lemma universe_cases e : In e (universe d) -> e = root \/ In e all.
  Proof. intros [<-|H]; auto. Qed.

  Lemma nesting_chain :
    wf_nesting d = true -> single_machine d = true ->
    forall n e, length (e_anc e) = n -> In e (universe d) ->
    (e = root \/ is_state e false = true) -> chain root e.
  Proof.
    intros Hw Hsm. induction n as [|n IH]; intros e Hn He Hst.
    - apply universe_parent in He as [->|(pe & Hp & Hpe & Hk)]; [constructor|].
      apply kids_el_In in Hk as (m & x & _ & ->). discriminate.
    - pose proof He as He0.
      apply universe_parent in He as [->|(pe & Hp & Hpe & Hk)]; [constructor|].
      destruct Hst as [->|Hst]; [constructor|].
      assert (In e all) as Hall.
      { apply universe_cases in He0 as [->|H]; auto. simpl in Hn. discriminate. }
      pose proof (single_machine_tag e Hsm Hall) as Hns.
      assert (is_struct_tag (e_tag e) = true) as Hstruct.
      { unfold is_state in Hst. destruct (e_tag e); simpl in *; try discriminate; auto. }
      pose proof (wf_nesting_parent e Hw Hall Hstruct pe Hp) as Hv.
      assert (is_state pe false = true) as Hpst.
      { unfold is_state. destruct (e_tag e), (e_tag pe); simpl in *; try discriminate; auto. }
      assert (chain root pe) as Hc.
      { apply IH; auto.
        pose proof Hk as Hk'. apply kids_el_In in Hk' as (m & x & _ & ->). simpl in Hn. lia. }
      eapply chain_snoc; eauto. unfold child_states. apply filter_In. split; auto.
  Qed.

  Lemma no_id_has_id e id : is_none (ga_id (e_attrs e)) = true -> has_id e id = false.
  Proof. unfold has_id. destruct (ga_id (e_attrs e)); [discriminate|reflexivity]. Qed.

  Lemma get_state_resolve id :
    wf_nesting d = true -> single_machine d = true -> plain_ids d = true ->
    nodup_bytes (ids_of allStates) = true ->
    get_state root id = Ok (resolve d id).
  Proof.
    intros Hw Hsm Hpl Hnd. destruct (get_state_ok root id) as (r & Hr). rewrite Hr. f_equal.
    unfold resolve. fold root. fold all. fold allStates.
    unfold plain_ids in Hpl. apply andb_true_iff in Hpl as [Hpr Hpi]. rewrite forallb_forall in Hpi.
    fold root in Hpi. fold all in Hpi.
    destruct r as [x|].
    - apply get_state_sound in Hr as (Hid & Hu & Hc).
      assert (In x allStates) as Hx.
      { apply universe_cases in Hu as [->|Hu].
        - exfalso. pose proof (no_id_has_id (root_el d) id Hpr) as E. unfold root in *. rewrite E in Hid. discriminate.
        - apply all_states_of_In. split; auto.
          apply chain_is_state in Hc as [->|Hc].
          + exfalso. pose proof (no_id_has_id (root_el d) id Hpr) as E. unfold root in *. rewrite E in Hid. discriminate.
          + pose proof (single_machine_tag x Hsm Hu) as Hns. unfold is_state in Hc.
            destruct (e_tag x) eqn:Et; simpl in *; try discriminate; auto.
            exfalso. assert (In x (with_tag GInitial all)) as Hi by (apply with_tag_In; rewrite Et; auto).
            specialize (Hpi x Hi). rewrite (no_id_has_id x id Hpi) in Hid. discriminate. }
      destruct (first_with_id allStates id) as [y|] eqn:Hf.
      + apply first_with_id_some in Hf as [Hy Hyi]. f_equal. eapply nodup_ids_unique; eauto.
      + exfalso. eapply first_with_id_none in Hf; eauto. congruence.
    - destruct (first_with_id allStates id) as [y|] eqn:Hf; auto. exfalso.
      apply first_with_id_some in Hf as [Hy Hyi].
      assert (chain root y) as Hc.
      { apply all_states_of_In in Hy as [Hy Ht].
        eapply nesting_chain; eauto. right; auto. right. unfold is_state. destruct (e_tag y); simpl in *; auto; discriminate. }
      eapply get_state_none in Hr; eauto. congruence.
  Qed.
End Doc.

(* ------------------------------------------------------------------ clause by clause *)

Lemma no_fatal_flat_map {A} (f : A -> list issue) l :
  no_fatal (flat_map f l) = true <-> forall x, In x l -> no_fatal (f x) = true.
Proof.
  unfold no_fatal. rewrite forallb_flat_map, forallb_forall. tauto.
Qed.

Lemma no_fatal_flat_map_b {A} (f : A -> list issue) l :
  no_fatal (flat_map f l) = forallb (fun x => no_fatal (f x)) l.
Proof. unfold no_fatal. apply forallb_flat_map. Qed.

Lemma forallb_ext_in {A} (f g : A -> bool) l : (forall x, In x l -> f x = g x) -> forallb f l = forallb g l.
Proof.
  induction l as [|x l IH]; intros H; simpl; auto. rewrite H by (left; auto). rewrite IH; auto.
  intros; apply H; right; auto.
Qed.

Lemma pair_ok_fixed v s1 s2 : vv_any_parallel_ancestor v = false -> pair_ok v s1 s2 = compatible s1 s2.
Proof.
  intros Hv. unfold pair_ok, compatible, lca_is_parallel. f_equal.
  induction (ancestors_el s1) as [|a l IH]; simpl; auto.
  destruct (is_desc (e_path s2) (e_path a)); auto. rewrite Hv. destruct (is_parallel a); reflexivity.
Qed.

Lemma has_legal_completion_fixed v l :
  vv_any_parallel_ancestor v = false ->
  has_legal_completion v l = (length l <? 2) || pairwise_compatible l.
Proof.
  intros Hv. unfold has_legal_completion. destruct (length l <? 2); simpl; auto.
  induction l as [|s l IH]; simpl; auto. rewrite IH. f_equal.
  apply forallb_ext_in. intros; apply pair_ok_fixed; auto.
Qed.

Section Clauses.
  Variable d : gdoc.
  Variable v : vvariant.
  Let root := root_el d.
  Let all := descendants root.
  Let allStates := all_states_of all.
  Let seen := keyed allStates.

  Lemma seen_resolve id : seen_find seen id = resolve d id.
  Proof. unfold seen, resolve. apply seen_find_keyed. Qed.

  Lemma resolve_all_go ids :
    resolve_all seen ids =
    (fix go (l : list bytes) : option (list el) :=
       match l with [] => Some []
       | id :: r => match resolve d id, go r with Some e, Some l' => Some (e :: l') | _, _ => None end end) ids.
  Proof. induction ids as [|id r IH]; simpl; auto. rewrite seen_resolve, IH. reflexivity. Qed.

  (* W3 *)
  Lemma clause_targets :
    no_fatal (flat_map (trans_issues seen) (with_tag GTransition all)) = wf_targets d.
  Proof.
    rewrite no_fatal_flat_map_b. unfold wf_targets. fold root. fold all. apply forallb_ext_in. intros t _.
    unfold trans_issues. destruct (ga_target (e_attrs t)) as [ids|]; auto.
    rewrite no_fatal_app. f_equal; [destruct ids; reflexivity|].
    unfold targets_resolve_in. induction ids as [|id r IH]; simpl; auto.
    rewrite no_fatal_app, IH, seen_resolve. destruct (resolve d id); reflexivity.
  Qed.

  (* W4 *)
  Lemma clause_initattr :
    vv_empty_initial_unchecked v = false ->
    no_fatal (flat_map (initattr_issues v seen) (allStates ++ [root])) = wf_initattr d.
  Proof.
    intros Hv. rewrite no_fatal_flat_map_b. unfold wf_initattr. fold root. fold all. fold allStates.
    apply forallb_ext_in. intros s _.
    unfold initattr_issues. destruct (ga_initial (e_attrs s)) as [ids|]; auto.
    rewrite no_fatal_app, Hv. f_equal; [destruct ids; reflexivity|].
    unfold targets_resolve_in. induction ids as [|id r IH]; simpl; auto.
    rewrite no_fatal_app, IH, seen_resolve. destruct (resolve d id) as [x|]; [|reflexivity].
    destruct (mem_el x (state_descendants s)); reflexivity.
  Qed.

  (* W7 *)
  Lemma legal_issue_compat at_ ids :
    vv_any_parallel_ancestor v = false ->
    no_fatal (legal_issue v seen at_ ids) =
    match ids with None => true | Some l => targets_compatible d l end.
  Proof.
    intros Hv. unfold legal_issue, targets_compatible. destruct ids as [l|]; auto.
    rewrite resolve_all_go. fold root. fold all. fold allStates.
    match goal with |- context [match ?X with Some _ => _ | None => _ end] => destruct X as [ts|] end; auto.
    rewrite has_legal_completion_fixed by auto.
    destruct ((length ts <? 2) || pairwise_compatible ts); reflexivity.
  Qed.

  Lemma clause_target_sets :
    vv_any_parallel_ancestor v = false -> vv_root_initial_unchecked v = false ->
    no_fatal (flat_map (fun t => legal_issue v seen t (ga_target (e_attrs t))) (with_tag GTransition all ++ with_tag GInitial all) ++
              flat_map (fun s => legal_issue v seen s (ga_initial (e_attrs s)))
                       (allStates ++ if vv_root_initial_unchecked v then [] else [root])) = wf_target_sets d.
  Proof.
    intros Hv Hr. rewrite Hr. rewrite no_fatal_app, !no_fatal_flat_map_b.
    unfold wf_target_sets. fold root. fold all. fold allStates. f_equal.
    - apply forallb_ext_in. intros t _. rewrite legal_issue_compat; auto.
    - apply forallb_ext_in. intros t _. rewrite legal_issue_compat; auto.
  Qed.

  (* W5 *)
  Lemma init_trans_clean t :
    vv_initial_target_optional v = false ->
    no_fatal (init_trans_issues v seen t) =
    negb (ga_cond (e_attrs t)) && negb (ga_event (e_attrs t)) &&
    match grandparent_el t with
    | Some s => negb (is_state s true) ||
                (is_some (ga_target (e_attrs t)) &&
                 targets_resolve_in d (toks_of (ga_target (e_attrs t))) (fun x => mem_el x (state_descendants s)))
    | None => true
    end.
  Proof.
    intros Hv. unfold init_trans_issues. rewrite !no_fatal_app.
    destruct (ga_cond (e_attrs t)); simpl; auto. destruct (ga_event (e_attrs t)); simpl; auto.
    destruct (grandparent_el t) as [s|]; auto. destruct (is_state s true); simpl; auto.
    rewrite no_fatal_app, Hv. simpl. f_equal; [destruct (ga_target (e_attrs t)); reflexivity|].
    unfold targets_resolve_in. induction (toks_of (ga_target (e_attrs t))) as [|id r IH]; simpl; auto.
    rewrite no_fatal_app, IH, seen_resolve. destruct (resolve d id) as [x|]; [|reflexivity].
    destruct (mem_el x (state_descendants s)); reflexivity.
  Qed.

  Lemma clause_initial_el :
    vv_initial_target_optional v = false ->
    no_fatal (flat_map initial_el_issues (with_tag GInitial all) ++
              flat_map (init_trans_issues v seen)
                       (flat_map (fun i => with_tag GTransition (descendants i)) (with_tag GInitial all))) = wf_initial_el d.
  Proof.
    intros Hv. rewrite no_fatal_app, !no_fatal_flat_map_b. rewrite forallb_flat_map.
    unfold wf_initial_el. fold root. fold all.
    induction (with_tag GInitial all) as [|i l IH]; simpl; auto.
    rewrite <- IH. clear IH.
    set (A := forallb (fun x => no_fatal (initial_el_issues x)) l).
    set (B := forallb (fun x => forallb (fun x0 => no_fatal (init_trans_issues v seen x0)) (with_tag GTransition (descendants x))) l).
    unfold initial_el_issues at 1.
    destruct (with_tag GTransition (descendants i)) as [|t [|t2 r]] eqn:Ht; simpl.
    - reflexivity.
    - rewrite init_trans_clean by auto. rewrite andb_true_r.
      destruct (negb (ga_cond (e_attrs t)) && negb (ga_event (e_attrs t)) && _), A, B; reflexivity.
    - reflexivity.
  Qed.

  (* W1 *)
  Lemma clause_nesting :
    vv_nesting_warning_only v = false ->
    no_fatal (flat_map exec_issues (with_tag GContainer all ++ with_tag GTransition all) ++
              flat_map (nesting_issues v) all) = wf_nesting d.
  Proof.
    intros Hv. rewrite no_fatal_app, !no_fatal_flat_map_b. unfold wf_nesting. fold root. fold all.
    rewrite andb_comm. f_equal.
    - apply forallb_ext_in. intros e _. unfold nesting_issues. destruct (is_struct_tag (e_tag e)); simpl; auto.
      destruct (parent_el e) as [p|]; auto. rewrite Hv. destruct (valid_parent (e_tag e) (e_tag p)); reflexivity.
    - apply forallb_ext_in. intros b _. unfold exec_issues. rewrite no_fatal_flat_map_b.
      apply forallb_ext_in. intros c _. destruct (e_tag c); reflexivity.
  Qed.
End Clauses.

(* ------------------------------------------------------------------ history default transitions (W6) *)

Lemma mapM_exact {A B} (f : A -> outcome B) (g : A -> B) l :
  (forall x, In x l -> f x = Ok (g x)) -> mapM f l = Ok (map g l).
Proof.
  induction l as [|x l IH]; intros H; simpl; auto.
  rewrite H by (left; auto). simpl. rewrite IH; auto. intros; apply H; right; auto.
Qed.

Definition hist_scope (h x : el) : bool :=
  negb (is_pseudo_tag (e_tag x)) &&
  if ga_deep (e_attrs h)
  then match parent_path (e_path h) with Some pp => is_desc (e_path x) pp | None => false end
  else optptr_eqb (parent_path (e_path x)) (parent_path (e_path h)).

Definition hist_body (d : gdoc) (h : el) : bool :=
  match with_tag GTransition (kids_el h) with
  | [t] => negb (ga_cond (e_attrs t)) && negb (ga_event (e_attrs t)) &&
           match ga_target (e_attrs t) with
           | None => false
           | Some ids => targets_resolve_in d ids (hist_scope h)
           end
  | _ => false
  end.

Lemma wf_history_unfold d :
  wf_history d = forallb (fun h => match ga_id (e_attrs h) with None => true | Some _ => hist_body d h end)
                         (with_tag GHistory (descendants (root_el d))).
Proof. reflexivity. Qed.

Section History.
  Variable d : gdoc.
  Let root := root_el d.
  Let all := descendants root.
  Let allStates := all_states_of all.
  Hypothesis Hw : wf_nesting d = true.
  Hypothesis Hsm : single_machine d = true.
  Hypothesis Hpl : plain_ids d = true.
  Hypothesis Hnd : nodup_bytes (ids_of allStates) = true.

  Lemma get_target_states_resolve t :
    get_target_states root t =
    Ok (flat_map (fun o => match o with Some e => [e] | None => [] end)
                 (map (resolve d) (toks_of (ga_target (e_attrs t))))).
  Proof.
    unfold get_target_states. rewrite (mapM_exact _ (resolve d)); [reflexivity|].
    intros id _. apply get_state_resolve; auto.
  Qed.

  Lemma kids_in_all h t : In h all -> In t (kids_el h) -> In t all.
  Proof.
    intros Hh Ht. assert (In t (universe d)) as Hu.
    { eapply universe_kids_closed; eauto. right. exact Hh. }
    destruct Hu as [E|Hu]; auto. exfalso. apply kids_el_In in Ht as (n & x & _ & ->).
    unfold root_el in E. inversion E.
  Qed.

  Variable v : vvariant.
  Hypothesis Hhp : vv_hist_pseudo_target_unchecked v = false.

  Lemma history_clause h id :
    In h all -> wf_targets d = true ->
    exists hi, history_issues v root h id = Ok hi /\ no_fatal hi = hist_body d h.
  Proof.
    intros Hh Hwt. unfold history_issues, hist_body. rewrite Hhp. cbn [negb andb].
    destruct (with_tag GTransition (kids_el h)) as [|t [|t2 r]] eqn:Ht.
    - eexists; split; reflexivity.
    - assert (In t all) as Htall.
      { eapply kids_in_all; eauto. assert (In t (with_tag GTransition (kids_el h))) as H by (rewrite Ht; left; auto).
        apply with_tag_In in H. tauto. }
      assert (gtag_eqb (e_tag t) GTransition = true) as Htag.
      { assert (In t (with_tag GTransition (kids_el h))) as H by (rewrite Ht; left; auto). apply with_tag_In in H. tauto. }
      destruct (ga_target (e_attrs t)) as [ids|] eqn:Etg.
      + rewrite get_target_states_resolve. rewrite Etg. cbn [toks_of bind].
        eexists. split; [reflexivity|]. rewrite !no_fatal_app.
        destruct (ga_cond (e_attrs t)); simpl; auto. destruct (ga_event (e_attrs t)); simpl; auto.
        (* the targets all resolve: the transition is one of the document's transitions *)
        assert (forallb (fun i => match resolve d i with Some _ => true | None => false end) ids = true) as Hres.
        { unfold wf_targets in Hwt. rewrite forallb_forall in Hwt. fold root in Hwt. fold all in Hwt.
          specialize (Hwt t). rewrite Etg in Hwt. 
          assert (In t (with_tag GTransition all)) as Hin by (apply with_tag_In; auto).
          apply Hwt in Hin. apply andb_true_iff in Hin as [_ Hin]. exact Hin. }
        unfold targets_resolve_in. clear Etg. induction ids as [|i r IH]; simpl; auto.
        simpl in Hres. apply andb_true_iff in Hres as [Hr1 Hr2].
        rewrite flat_map_app, no_fatal_app, (IH Hr2). f_equal.
        destruct (resolve d i) as [x|]; [|discriminate]. simpl. rewrite app_nil_r.
        unfold hist_scope. rewrite no_fatal_app. destruct (is_pseudo_tag (e_tag x)); [reflexivity|]. cbn [negb andb no_fatal forallb].
        destruct (ga_deep (e_attrs h)).
        * destruct (parent_path (e_path h)); simpl; [destruct (is_desc (e_path x) p)|]; reflexivity.
        * destruct (optptr_eqb (parent_path (e_path x)) (parent_path (e_path h))); reflexivity.
      + cbn [bind]. eexists. split; [reflexivity|]. rewrite !no_fatal_app. simpl. rewrite !andb_false_r. reflexivity.
    - eexists; split; reflexivity.
  Qed.

  Lemma clause_history :
    wf_targets d = true ->
    ((forall s, In s allStates -> hist_clean v root s) <-> wf_history d = true).
  Proof.
    intros Hwt. rewrite wf_history_unfold. fold root. fold all. rewrite forallb_forall. split.
    - intros H h Hh. destruct (ga_id (e_attrs h)) as [id|] eqn:Ei; auto.
      apply with_tag_In in Hh as [Hh Ht].
      assert (In h allStates) as Hs.
      { apply all_states_of_In. split; auto. destruct (e_tag h); simpl in *; auto; discriminate. }
      destruct (H h Hs Ht id Ei) as (hi & H1 & H2).
      destruct (history_clause h id Hh Hwt) as (hi' & H1' & H2'). rewrite H1 in H1'. inversion H1'; subst. congruence.
    - intros H s Hs Ht id Ei. apply all_states_of_In in Hs as [Hs _].
      assert (In s (with_tag GHistory all)) as Hin by (apply with_tag_In; auto).
      specialize (H s Hin). rewrite Ei in H.
      destruct (history_clause s id Hs Hwt) as (hi & H1 & H2). exists hi. split; auto. congruence.
  Qed.
End History.

(* ------------------------------------------------------------------ the verdict and wf_chartb *)

Lemma wf_ids_unfold d :
  wf_ids d = nodup_bytes (ids_of (all_states_of (descendants (root_el d)))) &&
             forallb (fun i => nonempty i) (ids_of (all_states_of (descendants (root_el d)))).
Proof. reflexivity. Qed.

Definition repaired_structure (v : vvariant) : Prop :=
  vv_any_parallel_ancestor v = false /\ vv_root_initial_unchecked v = false /\
  vv_initial_target_optional v = false /\ vv_nesting_warning_only v = false /\
  vv_empty_initial_unchecked v = false /\ vv_hist_pseudo_target_unchecked v = false.

Lemma static_issues_no_fatal v d :
  repaired_structure v ->
  no_fatal (static_issues v d (keyed (all_states_of (descendants (root_el d))))) =
  wf_targets d && wf_initattr d && wf_target_sets d && wf_initial_el d && wf_nesting d.
Proof.
  intros (H1 & H2 & H3 & H4 & H5 & _). unfold static_issues.
  set (seen := keyed _). set (all := descendants (root_el d)).
  rewrite no_fatal_app. unfold seen, all. rewrite clause_targets.
  rewrite no_fatal_app.
  assert (no_fatal (flat_map useless_history_issues (with_tag GHistory (descendants (root_el d)))) = true) as Hu.
  { apply no_fatal_flat_map. intros h _. unfold useless_history_issues.
    destruct (parent_el h); auto. destruct (is_atomic e); auto. destruct (_ <=? 1); auto. }
  rewrite Hu. cbn [andb].
  rewrite no_fatal_app, (clause_initattr d v H5).
  rewrite (no_fatal_app (_ ++ _)), (clause_target_sets d v H1 H2).
  rewrite (no_fatal_app (_ ++ _)), (clause_initial_el d v H3).
  rewrite (clause_nesting d v H4).
  rewrite !andb_assoc. reflexivity.
Qed.

Theorem validate_sound_lemma v d l :
  repaired_structure v -> single_machine d = true -> plain_ids d = true ->
  validate v d = Ok l -> no_fatal l = true -> wf_chartb d = true.
Proof.
  intros Hrep Hsm Hpl Hval Hnf. unfold validate in Hval.
  destruct (get_reachable_states v (root_el d)) as [reach| |]; cbn [bind] in Hval; try discriminate.
  destruct (foldM _ _ _) as [[i1 seen]| |] eqn:Hfold; cbn [bind] in Hval; try discriminate.
  inversion Hval; subst. cbn [fst snd] in Hnf. rewrite no_fatal_app in Hnf. apply andb_true_iff in Hnf as [Hn1 Hn2].
  apply state_loop_sound in Hfold; auto. destruct Hfold as (_ & Hseen & Hh & _ & Hnd & Hne).
  simpl in Hseen. subst seen. rewrite static_issues_no_fatal in Hn2 by auto.
  apply andb_true_iff in Hn2 as [Hn2 H]. apply andb_true_iff in Hn2 as [Hn2 H0].
  apply andb_true_iff in Hn2 as [Hn2 H1]. apply andb_true_iff in Hn2 as [Hn2 H2].
  specialize (Hnd eq_refl). specialize (Hne eq_refl). simpl in Hnd, Hne. rewrite ids_of_keyed in Hnd, Hne.
  unfold wf_chartb. rewrite wf_ids_unfold, Hnd.
  replace (forallb (fun i => nonempty i) _) with true by (symmetry; exact Hne).
  rewrite H2, H1, H0, H, Hn2. cbn [andb].
  rewrite andb_true_r. apply (clause_history d H Hsm Hpl Hnd v); [apply Hrep | auto | auto].
Qed.

Theorem validate_complete_lemma v d :
  repaired_structure v -> vv_getstates_null v = false -> vv_id_required v = false ->
  single_machine d = true -> plain_ids d = true -> wf_chartb d = true ->
  exists l, validate v d = Ok l /\ no_fatal l = true.
Proof.
  intros Hrep Hgn Hidr Hsm Hpl Hwf. unfold wf_chartb in Hwf.
  apply andb_true_iff in Hwf as [Hwf Hts]. apply andb_true_iff in Hwf as [Hwf Hhi].
  apply andb_true_iff in Hwf as [Hwf Hie]. apply andb_true_iff in Hwf as [Hwf Hia].
  apply andb_true_iff in Hwf as [Hwf Htg]. apply andb_true_iff in Hwf as [Hnest Hids].
  rewrite wf_ids_unfold in Hids. apply andb_true_iff in Hids as [Hnd Hne].
  unfold validate.
  destruct (get_reachable_states_spec v d) as [(reach & ->)|[_ E]]; [|congruence]. cbn [bind].
  destruct (state_loop_complete v (root_el d) reach (all_states_of (descendants (root_el d))) [] []) as (iss & Hfold & Hnf).
  - reflexivity.
  - apply (clause_history d Hnest Hsm Hpl Hnd v); [apply Hrep | auto | auto].
  - intros s _ _. right. exact Hidr.
  - exact Hnd.
  - exact Hne.
  - rewrite Hfold. cbn [bind fst snd app]. eexists. split; [reflexivity|].
    rewrite no_fatal_app, Hnf, static_issues_no_fatal by auto.
    rewrite Htg, Hia, Hts, Hie, Hnest. reflexivity.
Qed.

(* ------------------------------------------------------------------ conformant documents *)

Lemma conformant_wf d :
  conformantb d = true -> wf_chartb d = true /\ single_machine d = true /\ plain_ids d = true /\ wf_root d = true.
Proof.
  unfold conformantb. intros H.
  do 6 (apply andb_true_iff in H as [H _]).
  apply andb_true_iff in H as [H H4]. apply andb_true_iff in H as [H H3]. apply andb_true_iff in H as [H1 H2].
  auto.
Qed.

Theorem validate_complete_conformant v d :
  repaired_structure v -> vv_getstates_null v = false -> vv_id_required v = false ->
  conformantb d = true -> exists l, validate v d = Ok l /\ no_fatal l = true.
Proof.
  intros Hrep H1 H2 Hc. apply conformant_wf in Hc as (Hw & Hs & Hp & _). apply validate_complete_lemma; auto.
Qed.

Lemma vv_fixed_repaired : repaired_structure vv_fixed.
Proof. repeat split. Qed.

(* ------------------------------------------------------------------ witnesses: the pinned validator *)

Definition tr_to (l : list bytes) : gdoc := GNode GTransition (with_target l) [].
Definition state_ (i : bytes) (kids : list gdoc) : gdoc := GNode GState (with_id i) kids.
Definition par_ (i : bytes) (kids : list gdoc) : gdoc := GNode GParallel (with_id i) kids.
Definition scxml_ (kids : list gdoc) : gdoc := GNode GScxml no_attrs kids.

(* accepted although not wf: one witness per defect switch *)
Definition wit_any_parallel : gdoc :=
  scxml_ [par_ s1 [state_ s2 [state_ s3 []; state_ s4 []]; state_ s5 [tr_to [s3; s4]]]].
Definition wit_root_initial : gdoc :=
  GNode GScxml (with_initial [s1; s2]) [state_ s1 []; state_ s2 []].
Definition wit_initial_no_target : gdoc :=
  scxml_ [state_ s1 [GNode GInitial no_attrs [GNode GTransition no_attrs []]; state_ s2 []]].
Definition wit_nesting : gdoc :=
  scxml_ [state_ s1 [GNode GOther no_attrs [state_ s2 []]; tr_to [s2]]].
Definition wit_empty_initial : gdoc :=
  GNode GScxml (with_initial []) [state_ s1 []].

(* <state id="s1"><history id="s2"><transition target="s2"/></history><state id="s3"><transition target="s2"/></state></state> *)
Definition wit_hist_self : gdoc :=
  scxml_ [state_ s1 [GNode GHistory (with_id s2) [tr_to [s2]]; state_ s3 [tr_to [s2]]]].

Definition accepted_not_wf (v : vvariant) (d : gdoc) : Prop :=
  single_machine d = true /\ plain_ids d = true /\ wf_root d = true /\
  exists l, validate v d = Ok l /\ no_fatal l = true /\ wf_chartb d = false.

Lemma pinned_sound_refuted_any_parallel : accepted_not_wf vv_pinned wit_any_parallel.
Proof. repeat split. eexists. vm_compute. repeat split. Qed.
Lemma pinned_sound_refuted_root_initial : accepted_not_wf vv_pinned wit_root_initial.
Proof. repeat split. eexists. vm_compute. repeat split. Qed.
Lemma pinned_sound_refuted_initial_no_target : accepted_not_wf vv_pinned wit_initial_no_target.
Proof. repeat split. eexists. vm_compute. repeat split. Qed.
Lemma pinned_sound_refuted_nesting : accepted_not_wf vv_pinned wit_nesting.
Proof. repeat split. eexists. vm_compute. repeat split. Qed.
Lemma pinned_sound_refuted_empty_initial : accepted_not_wf vv_pinned wit_empty_initial.
Proof. repeat split. eexists. vm_compute. repeat split. Qed.
Lemma pinned_sound_refuted_hist_self : accepted_not_wf vv_pinned wit_hist_self.
Proof. repeat split. eexists. vm_compute. repeat split. Qed.
(* the repaired validator reports it *)
Lemma hist_self_rejected : exists l, validate vv_fixed wit_hist_self = Ok l /\ no_fatal l = false.
Proof. eexists. vm_compute. split; reflexivity. Qed.

(* each single switch is enough to lose soundness *)
Definition only (f : vvariant -> vvariant) := f vv_fixed.
Lemma each_switch_matters :
  accepted_not_wf {| vv_getstates_null := false; vv_any_parallel_ancestor := true; vv_root_initial_unchecked := false;
                     vv_initial_target_optional := false; vv_id_required := false; vv_nesting_warning_only := false;
                     vv_empty_initial_unchecked := false; vv_hist_pseudo_target_unchecked := false |} wit_any_parallel /\
  accepted_not_wf {| vv_getstates_null := false; vv_any_parallel_ancestor := false; vv_root_initial_unchecked := true;
                     vv_initial_target_optional := false; vv_id_required := false; vv_nesting_warning_only := false;
                     vv_empty_initial_unchecked := false; vv_hist_pseudo_target_unchecked := false |} wit_root_initial /\
  accepted_not_wf {| vv_getstates_null := false; vv_any_parallel_ancestor := false; vv_root_initial_unchecked := false;
                     vv_initial_target_optional := true; vv_id_required := false; vv_nesting_warning_only := false;
                     vv_empty_initial_unchecked := false; vv_hist_pseudo_target_unchecked := false |} wit_initial_no_target /\
  accepted_not_wf {| vv_getstates_null := false; vv_any_parallel_ancestor := false; vv_root_initial_unchecked := false;
                     vv_initial_target_optional := false; vv_id_required := false; vv_nesting_warning_only := true;
                     vv_empty_initial_unchecked := false; vv_hist_pseudo_target_unchecked := false |} wit_nesting /\
  accepted_not_wf {| vv_getstates_null := false; vv_any_parallel_ancestor := false; vv_root_initial_unchecked := false;
                     vv_initial_target_optional := false; vv_id_required := false; vv_nesting_warning_only := false;
                     vv_empty_initial_unchecked := true; vv_hist_pseudo_target_unchecked := false |} wit_empty_initial /\
  accepted_not_wf vv_hist_unchecked wit_hist_self.
Proof. repeat split; try (eexists; vm_compute; repeat split). Qed.

(* a state-less document is accepted by either variant (validation has no such check) *)
Lemma stateless_accepted : validate vv_fixed (scxml_ []) = Ok [] /\ wf_root (scxml_ []) = false.
Proof. split; vm_compute; reflexivity. Qed.

(* completeness fails for the pinned validator: a state without id is conformant and FATAL *)
Definition wit_no_id : gdoc := scxml_ [GNode GState no_attrs []].
Lemma pinned_complete_refuted :
  conformantb wit_no_id = true /\ exists l, validate vv_pinned wit_no_id = Ok l /\ no_fatal l = false.
Proof. split; [vm_compute; reflexivity|]. eexists. vm_compute. repeat split. Qed.

(* embedded documents share the id space of their parent: each machine below is conformant on its own *)
Definition wit_nested : gdoc :=
  scxml_ [state_ s1 [GNode GOther no_attrs [GNode GOther no_attrs [scxml_ [state_ s1 []]]]]].
Lemma nested_machine_false_fatal :
  conformantb (scxml_ [state_ s1 []]) = true /\
  conformantb (scxml_ [state_ s1 [GNode GOther no_attrs [GNode GOther no_attrs []]]]) = true /\
  exists l, validate vv_fixed wit_nested = Ok l /\ no_fatal l = false.
Proof. split; [vm_compute; reflexivity|]. split; [vm_compute; reflexivity|]. eexists. vm_compute. repeat split. Qed.

(* the hypotheses are satisfiable: parallel regions, deep and shallow history, <initial>, initial attribute
   naming a grand-child, an orthogonal multi-target *)
Definition hist_ (i : bytes) (deep : bool) (tg : bytes) : gdoc :=
  GNode GHistory {| ga_id := Some i; ga_initial := None; ga_target := None; ga_deep := deep; ga_cond := false; ga_event := false |}
        [tr_to [tg]].
Definition s6 : bytes := [115; 54]%N.
Definition s7 : bytes := [115; 55]%N.
Definition s8 : bytes := [115; 56]%N.
Definition s9 : bytes := [115; 57]%N.
Definition example_doc : gdoc :=
  GNode GScxml (with_initial [s1])
    [par_ s1 [ GNode GState {| ga_id := Some s2; ga_initial := Some [s4]; ga_target := None; ga_deep := false; ga_cond := false; ga_event := false |}
                 [hist_ s8 true s4; state_ s3 [state_ s4 [tr_to [s8]]]; GNode GFinal (with_id s9) []];
               state_ s5 [GNode GInitial no_attrs [tr_to [s7]]; hist_ s6 false s7; state_ s7 [tr_to [s4; s7]; GNode GContainer no_attrs [GNode GExec no_attrs []]]]]].

Example example_conformant : conformantb example_doc = true.
Proof. vm_compute. reflexivity. Qed.
Example example_validates : exists l, validate vv_fixed example_doc = Ok l /\ no_fatal l = true.
Proof. eexists. vm_compute. split; reflexivity. Qed.

(* ------------------------------------------------------------------ syntax clause *)

Section SyntaxLemmas.
  Variable valid_stmt : bytes -> bool.     (* DataModel::isValidSyntax: the text parses as a chunk of statements *)
  Variable valid_expr : bytes -> bool.     (* the datamodel accepts the text as an expression *)

  Definition item_valid (i : syn_item) : bool :=
    match i with
    | SCond e | SExprPlain e => valid_expr e
    | SExprAssigned e => valid_expr e
    | SScript e => valid_stmt e
    end.

  (* what a statement parser owes to expressions: "return e" and "foo = e" are statements *)
  Hypothesis return_expr : forall e, valid_expr e = true -> valid_stmt (return_sp ++ e) = true.
  Hypothesis assign_expr : forall e, valid_expr e = true -> valid_stmt (foo_eq ++ e) = true.

  Lemma no_syntax_warning_on_valid_expr_lemma l :
    forallb item_valid l = true -> syntax_warnings valid_stmt true l = [].
  Proof.
    unfold syntax_warnings. induction l as [|i l IH]; simpl; auto. intros H.
    apply andb_true_iff in H as [Hi Hl]. rewrite (IH Hl).
    assert (syn_ok valid_stmt true i = true) as Hok.
    { destruct i; simpl in *; unfold expr_ok; simpl; auto.
      - rewrite (return_expr _ Hi). apply orb_true_r.
      - rewrite (return_expr _ Hi). apply orb_true_r. }
    rewrite Hok. reflexivity.
  Qed.

  (* the code as found: refuted as soon as some expression is no statement (Lua: "x < 3") *)
  Lemma no_syntax_warning_pinned_refuted_lemma e :
    valid_expr e = true -> valid_stmt e = false ->
    forallb item_valid [SCond e] = true /\ syntax_warnings valid_stmt false [SCond e] <> [].
  Proof.
    intros H1 H2. split; [simpl; rewrite H1; reflexivity|].
    unfold syntax_warnings. simpl. unfold expr_ok. rewrite H2. simpl. discriminate.
  Qed.
End SyntaxLemmas.

(* ------------------------------------------------------------------ hasLegalCompletion, syntactically *)

Lemma legal_completion_fixed_spec l :
  has_legal_completion vv_fixed l = (length l <? 2) || pairwise_compatible l.
Proof. apply has_legal_completion_fixed. reflexivity. Qed.

(* the two targets s3 s4 of the witness: children of one compound state inside a <parallel> *)
Definition wit_ap_targets : list el :=
  filter (fun e => has_id e s3 || has_id e s4) (universe wit_any_parallel).

Lemma legal_completion_pinned_refuted_syntactic :
  has_legal_completion vv_pinned wit_ap_targets = true /\
  (length wit_ap_targets <? 2) || pairwise_compatible wit_ap_targets = false.
Proof. split; vm_compute; reflexivity. Qed.

(* the side condition plain_ids of validate_sound is needed as long as pseudo-state targets of a history's default
   transition are not reported (vv_hist_unchecked): getState also finds <initial id="s3">, which lies in the
   shallow scope of the history although the state s3 is a grand-child *)
Definition wit_initial_id : gdoc :=
  scxml_ [state_ s1 [GNode GInitial (with_id s3) [tr_to [s2]]; hist_ s5 false s3; state_ s2 [state_ s3 []]]].
Lemma sound_needs_plain_ids :
  single_machine wit_initial_id = true /\ plain_ids wit_initial_id = false /\
  exists l, validate vv_hist_unchecked wit_initial_id = Ok l /\ no_fatal l = true /\ wf_chartb wit_initial_id = false.
Proof. split; [reflexivity|]. split; [reflexivity|]. eexists. vm_compute. repeat split. Qed.
(* with the check of patches/C19-history-default-pseudo-target.diff this witness is reported (the target is an <initial> element) *)
Lemma initial_id_rejected : exists l, validate vv_fixed wit_initial_id = Ok l /\ no_fatal l = false.
Proof. eexists. vm_compute. split; reflexivity. Qed.
