(* LegalHistCore.v -- the history-free core is inside the new reach: wf_coreb c = true -> wf_initb c = true
   (hence -> wf_histb c = true), so run_always_legal_initial / _history subsume run_always_legal. *)
From V Require Import Base NameMatch Chart Exec Large Legal SetLemmas LegalAbstract LegalLarge WfCore LegalHistBase LegalHistWf.
Local Open Scope nat_scope.

Lemma filter_length_le1 {A} (f : A -> bool) (l : list A) : NoDup l ->
  (forall a b, In a l -> In b l -> f a = true -> f b = true -> a = b) -> length (filter f l) <= 1.
Proof.
  induction 1 as [|x r Hx Hnd IH]; intros Hu; cbn [filter]; [cbn; lia|].
  destruct (f x) eqn:Hfx.
  - assert (Hr : filter f r = []).
    { destruct (filter f r) as [|y t] eqn:E; [reflexivity|]. exfalso.
      assert (Hy : In y (filter f r)) by (rewrite E; now left). apply filter_In in Hy as [Hyr Hfy].
      apply Hx. rewrite (Hu x y); cbn; auto. }
    rewrite Hr. cbn. lia.
  - apply IH. intros a b Ha Hb. apply Hu; now right.
Qed.

Section Sub.
Variable c : fchart.
Hypothesis H : wf_coreb c = true.
Let n := nstates c.
Let W : WF c := wf_coreb_sound c H.

Lemma core_forallb (f : nat -> bool) m : (forall i, i < m -> f i = true) -> forallb f (seq 0 m) = true.
Proof. intros Hf. apply forallb_forall. intros i Hi. apply in_seq in Hi. apply Hf. lia. Qed.

Lemma core_not_pseudo i : is_pseudo (fs_type (st c i)) = false.
Proof. destruct (wf_types c W i) as [E|[E|[E|E]]]; rewrite E; reflexivity. Qed.

Lemma core_not_hist i : is_hist (fs_type (st c i)) = false.
Proof. destruct (wf_types c W i) as [E|[E|[E|E]]]; rewrite E; reflexivity. Qed.

(* a single child names one child of every compound *)
Lemma core_one_child k : one_childb c [k] = true.
Proof.
  unfold one_childb. apply core_forallb. intros j Hj.
  destruct (fs_type (st c j)) eqn:Hk; try reflexivity. apply Nat.leb_le.
  apply filter_length_le1; [exact (wf_children_nodup c W j)|].
  intros a b Ha Hb Hfa Hfb. cbn [existsb] in Hfa, Hfb. rewrite orb_false_r in Hfa, Hfb. unfold on_path in Hfa, Hfb.
  apply (wf_children c W) in Ha, Hb.
  assert (Hon : forall x, (x =? k) || mem x (fs_ancestors (st c k)) = true -> x = k \/ Anc (fun i => fs_parent (st c i)) x k).
  { intros x Hx. apply orb_true_iff in Hx as [Hx|Hx]; [left; now apply Nat.eqb_eq | right; apply (wf_anc c W); now apply mem_In]. }
  apply Hon in Hfa, Hfb.
  (* both are the child of j on the path to k *)
  assert (Hjk : forall x, fs_parent (st c x) = Some j -> x = k \/ Anc (fun i => fs_parent (st c i)) x k ->
                          Anc (fun i => fs_parent (st c i)) j k).
  { intros x Hp [->|Hx]; [now apply anc_parent | eapply (anc_trans c); [apply anc_parent; exact Hp | exact Hx]]. }
  destruct Hfa as [->|Hak], Hfb as [->|Hbk]; [reflexivity | | |].
  - exfalso. destruct (anc_child _ _ _ _ Ha Hbk) as [->|Hbj].
    + pose proof (anc_parent (fun i => fs_parent (st c i)) _ _ Hb) as X. exact (anc_irrefl c W _ X).
    + pose proof (anc_parent (fun i => fs_parent (st c i)) _ _ Hb) as X.
      destruct (anc_lt c W _ _ X). destruct (anc_lt c W _ _ Hbj). lia.
  - exfalso. destruct (anc_child _ _ _ _ Hb Hak) as [->|Haj].
    + pose proof (anc_parent (fun i => fs_parent (st c i)) _ _ Ha) as X. exact (anc_irrefl c W _ X).
    + pose proof (anc_parent (fun i => fs_parent (st c i)) _ _ Ha) as X.
      destruct (anc_lt c W _ _ X). destruct (anc_lt c W _ _ Haj). lia.
  - destruct (anc_chain c a b k Hak Hbk) as [E|[Hab|Hba]]; [exact E | exfalso | exfalso].
    + destruct (anc_child _ _ _ _ Hb Hab) as [->|Haj].
      * pose proof (anc_parent (fun i => fs_parent (st c i)) _ _ Ha) as X. exact (anc_irrefl c W _ X).
      * pose proof (anc_parent (fun i => fs_parent (st c i)) _ _ Ha) as X.
        destruct (anc_lt c W _ _ X). destruct (anc_lt c W _ _ Haj). lia.
    + destruct (anc_child _ _ _ _ Ha Hba) as [->|Hbj].
      * pose proof (anc_parent (fun i => fs_parent (st c i)) _ _ Hb) as X. exact (anc_irrefl c W _ X).
      * pose proof (anc_parent (fun i => fs_parent (st c i)) _ _ Hb) as X.
        destruct (anc_lt c W _ _ X). destruct (anc_lt c W _ _ Hbj). lia.
Qed.

Theorem wf_coreb_initb : wf_initb c = true.
Proof.
  pose proof H as H0. unfold wf_coreb in H0. repeat (apply andb_true_iff in H0 as [H0 ?]).
  unfold wf_initb, wf_histb. repeat (apply andb_true_iff; split); try assumption.
  - unfold whb_pseudo_parent. apply core_forallb. intros i _. now rewrite core_not_pseudo.
  - unfold whb_pseudo_leaf. apply core_forallb. intros i _. now rewrite core_not_pseudo.
  - unfold whb_completion. apply core_forallb. intros i Hi.
    destruct (fs_type (st c i)) eqn:Hk; try reflexivity.
    + destruct (wf_compound c W i Hk) as (k & Hc & Hin). rewrite Hc. cbn [is_nil negb andb forallb].
      rewrite core_one_child, andb_true_r, andb_true_r. apply mem_In, (wf_anc c W). apply anc_parent. now apply (wf_children c W).
    + apply list_eqb_eq.
      match goal with Hc : wfb_completion c = true |- _ =>
        unfold wfb_completion in Hc; rewrite forallb_forall in Hc;
        assert (Hin : In i (seq 0 (nstates c))) by (apply in_seq; fold n; lia);
        specialize (Hc i Hin); rewrite Hk in Hc; now apply list_eqb_eq in Hc end.
  - unfold whb_initial. apply core_forallb. intros i _. destruct (wf_types c W i) as [E|[E|[E|E]]]; rewrite E; reflexivity.
  - unfold whb_hist_default. apply core_forallb. intros i _. now rewrite core_not_hist.
  - unfold whb_hist_cpl. apply core_forallb. intros i _. now rewrite core_not_hist.
  - unfold whb_hist_disjoint. apply core_forallb. intros i _. apply core_forallb. intros j _. now rewrite core_not_hist.
  - unfold no_histb. apply core_forallb. intros i _. now rewrite core_not_hist.
Qed.

End Sub.
