(* PmlLemmas.v -- C17: lemmas about PmlParse.v / Pml.v and the generated tables. *)
From V Require Import Base PmlParse Pml GenPmlPrec GenPmlEval.
Local Open Scope nat_scope.

(* ---- the generated table reproduces every probe of the compiled parser ---- *)
Lemma gen_table_matches_probe_lemma :
  forallb (fun t => match t with (o1, o2, l) => Bool.eqb (pair_left gen_table o1 o2) l end) gen_pair_left = true
  /\ forallb (fun t => Bool.eqb (unary_absorbs (pt_neg gen_table) gen_table (fst t)) (snd t)) gen_neg_absorbs = true
  /\ forallb (fun t => Bool.eqb (unary_absorbs (pt_umin gen_table) gen_table (fst t)) (snd t)) gen_umin_absorbs = true
  /\ length gen_pair_left = 324 /\ length gen_neg_absorbs = 18 /\ length gen_umin_absorbs = 18.
Proof. repeat split; vm_compute; reflexivity. Qed.

(* ================================================================================================ *)
(* Parser: unfolding equations, fuel                                                                 *)
(* ================================================================================================ *)
Section ParserFacts.
Variable T : ptable.

Lemma parse_expr_S : forall f m ts,
  parse_expr T (S f) m ts =
  match parse_atom T f ts with POk lhs rest => parse_loop T f m lhs rest | r => r end.
Proof. reflexivity. Qed.

Lemma parse_loop_S : forall f m lhs ts,
  parse_loop T (S f) m lhs ts =
  match ts with
  | TBin o :: r =>
      if m <=? pt_level T o then
        match parse_expr T f (if pt_rassoc T o then pt_level T o else S (pt_level T o)) r with
        | POk rhs r' => parse_loop T f m (EBin o lhs rhs) r'
        | x => x
        end
      else POk lhs ts
  | _ => POk lhs ts
  end.
Proof. reflexivity. Qed.

Definition atom_body (f : nat) (ts : list token) : presult :=
  match ts with
  | TNum n :: r => POk (EConst n) r
  | TTrue :: r => POk (EBoolc true) r
  | TFalse :: r => POk (EBoolc false) r
  | TLP :: r =>
      match parse_expr T f 0 r with
      | POk e (TRP :: r') => POk e r'
      | POk _ _ => PErr
      | o => o
      end
  | TNot :: r =>
      match parse_expr T f (S (ulevel T UNeg)) r with
      | POk e r' => POk (EUn UNeg e) r'
      | o => o
      end
  | TBin PML_MINUS :: r =>
      match parse_expr T f (S (ulevel T UMinus)) r with
      | POk e r' => POk (EUn UMinus e) r'
      | o => o
      end
  | TName x :: TLB :: r =>
      match parse_expr T f 0 r with
      | POk i (TRB :: TDot :: _) => PUnsup
      | POk i (TRB :: r') => POk (EIdx x i) r'
      | POk _ _ => PErr
      | o => o
      end
  | TName x :: TDot :: r =>
      match parse_path (TDot :: r) with
      | Some (g :: gs, TLB :: _) => PUnsup
      | Some (g :: gs, r') => POk (EFld x g gs) r'
      | _ => PErr
      end
  | TName x :: r => POk (EVar x) r
  | _ => PErr
  end.

Lemma parse_atom_S : forall f ts, parse_atom T (S f) ts = atom_body f ts.
Proof. reflexivity. Qed.


(* -- fuel monotonicity -- *)
Lemma atom_body_mono : forall f f' ts,
  (forall m r, parse_expr T f m r <> PFuel -> parse_expr T f' m r = parse_expr T f m r) ->
  atom_body f ts <> PFuel -> atom_body f' ts = atom_body f ts.
Proof.
  intros f f' ts H.
  unfold atom_body.
  destruct ts as [|t r]; [reflexivity|].
  destruct t; try reflexivity.
  - (* TName *)
    destruct r as [|t2 r2]; [reflexivity|].
    destruct t2; try reflexivity.
    destruct (parse_expr T f 0 r2) eqn:E; intros NF;
      try (rewrite H by (rewrite E; discriminate); rewrite E; reflexivity).
    exfalso; apply NF; reflexivity.
  - (* TBin *)
    destruct o; try reflexivity.
    destruct (parse_expr T f (S (ulevel T UMinus)) r) eqn:E; intros NF;
      try (rewrite H by (rewrite E; discriminate); rewrite E; reflexivity).
    exfalso; apply NF; reflexivity.
  - (* TNot *)
    destruct (parse_expr T f (S (ulevel T UNeg)) r) eqn:E; intros NF;
      try (rewrite H by (rewrite E; discriminate); rewrite E; reflexivity).
    exfalso; apply NF; reflexivity.
  - (* TLP *)
    destruct (parse_expr T f 0 r) eqn:E; intros NF;
      try (rewrite H by (rewrite E; discriminate); rewrite E; reflexivity).
    exfalso; apply NF; reflexivity.
Qed.

Lemma fuel_mono : forall f,
  (forall ts, parse_atom T f ts <> PFuel -> forall f', f <= f' -> parse_atom T f' ts = parse_atom T f ts) /\
  (forall m ts, parse_expr T f m ts <> PFuel -> forall f', f <= f' -> parse_expr T f' m ts = parse_expr T f m ts) /\
  (forall m lhs ts, parse_loop T f m lhs ts <> PFuel -> forall f', f <= f' -> parse_loop T f' m lhs ts = parse_loop T f m lhs ts).
Proof.
  induction f as [|f IH].
  - repeat split; intros; exfalso; apply H; reflexivity.
  - destruct IH as (IHa & IHe & IHl).
    repeat split.
    + intros ts NF f' Hle. destruct f' as [|f']; [lia|].
      rewrite !parse_atom_S in *. apply atom_body_mono; [|exact NF].
      intros m r Hr. apply IHe; [exact Hr|lia].
    + intros m ts NF f' Hle. destruct f' as [|f']; [lia|].
      rewrite !parse_expr_S in *.
      destruct (parse_atom T f ts) eqn:E.
      * rewrite (IHa ts) by (try rewrite E; try discriminate; lia). rewrite E.
        apply IHl; [exact NF|lia].
      * rewrite (IHa ts) by (try rewrite E; try discriminate; lia). rewrite E. reflexivity.
      * rewrite (IHa ts) by (try rewrite E; try discriminate; lia). rewrite E. reflexivity.
      * exfalso; apply NF; reflexivity.
    + intros m lhs ts NF f' Hle. destruct f' as [|f']; [lia|].
      rewrite !parse_loop_S in *.
      destruct ts as [|t r]; [reflexivity|].
      destruct t; try reflexivity.
      destruct (m <=? pt_level T o); [|reflexivity].
      destruct (parse_expr T f (if pt_rassoc T o then pt_level T o else S (pt_level T o)) r) eqn:E.
      * rewrite (IHe _ r) by (try rewrite E; try discriminate; lia). rewrite E.
        apply IHl; [exact NF|lia].
      * rewrite (IHe _ r) by (try rewrite E; try discriminate; lia). rewrite E. reflexivity.
      * rewrite (IHe _ r) by (try rewrite E; try discriminate; lia). rewrite E. reflexivity.
      * exfalso; apply NF; reflexivity.
Qed.


(* -- every successful call consumes input -- *)
Lemma parse_path_len : forall n ts, length ts <= n ->
  forall gs r, parse_path ts = Some (gs, r) -> length r <= length ts.
Proof.
  induction n as [|n IH]; intros ts Hn gs r H.
  - destruct ts; [|simpl in Hn; lia]. simpl in H. inversion H; subst. simpl; lia.
  - destruct ts as [|t ts']; [simpl in H; inversion H; subst; simpl; lia|].
    destruct t; try (simpl in H; inversion H; subst; simpl; lia).
    destruct ts' as [|t2 ts'']; [simpl in H; discriminate|].
    destruct t2; try (simpl in H; discriminate).
    simpl in H.
    destruct (parse_path ts'') as [[gs' r']|] eqn:E; [|discriminate].
    inversion H; subst.
    apply IH in E; [|simpl in Hn; lia]. simpl. lia.
Qed.

Lemma atom_body_len : forall f ts e r,
  (forall m ts e r, parse_expr T f m ts = POk e r -> length r < length ts) ->
  atom_body f ts = POk e r -> length r < length ts.
Proof.
  intros f ts e r H.
  unfold atom_body.
  destruct ts as [|t ts']; [discriminate|].
  destruct t; try discriminate; try (intros E; inversion E; subst; simpl; lia).
  - (* TName *)
    destruct ts' as [|t2 ts'']; [intros E; inversion E; subst; simpl; lia|].
    destruct t2; try (intros E; inversion E; subst; simpl; lia).
    + (* TLB *)
      destruct (parse_expr T f 0 ts'') as [i r0| | |] eqn:E0; try discriminate.
      apply H in E0.
      destruct r0 as [|t3 r1]; [discriminate|].
      destruct t3; try discriminate.
      destruct r1 as [|t4 r2]; [intros E; inversion E; subst; simpl in *; lia|].
      destruct t4; try discriminate; intros E; inversion E; subst; simpl in *; lia.
    + (* TDot *)
      destruct (parse_path (TDot :: ts'')) as [[gs r0]|] eqn:E0; [|discriminate].
      apply (parse_path_len _ _ (le_n _)) in E0.
      destruct gs as [|g gs]; [discriminate|].
      destruct r0 as [|t3 r1]; [intros E; inversion E; subst; simpl in *; lia|].
      destruct t3; try discriminate; intros E; inversion E; subst; simpl in *; lia.
  - (* TBin *)
    destruct o; try discriminate.
    destruct (parse_expr T f (S (ulevel T UMinus)) ts') as [a r0| | |] eqn:E0; try discriminate.
    apply H in E0. intros E; inversion E; subst. simpl; lia.
  - (* TNot *)
    destruct (parse_expr T f (S (ulevel T UNeg)) ts') as [a r0| | |] eqn:E0; try discriminate.
    apply H in E0. intros E; inversion E; subst. simpl; lia.
  - (* TLP *)
    destruct (parse_expr T f 0 ts') as [a r0| | |] eqn:E0; try discriminate.
    apply H in E0.
    destruct r0 as [|t3 r1]; [discriminate|].
    destruct t3; try discriminate. intros E; inversion E; subst. simpl in *; lia.
Qed.

Lemma parse_consumes : forall f,
  (forall ts e r, parse_atom T f ts = POk e r -> length r < length ts) /\
  (forall m ts e r, parse_expr T f m ts = POk e r -> length r < length ts) /\
  (forall m lhs ts e r, parse_loop T f m lhs ts = POk e r -> length r <= length ts).
Proof.
  induction f as [|f IH].
  - repeat split; intros; discriminate.
  - destruct IH as (IHa & IHe & IHl).
    repeat split.
    + intros ts e r H. rewrite parse_atom_S in H. eapply atom_body_len; eauto.
    + intros m ts e r H. rewrite parse_expr_S in H.
      destruct (parse_atom T f ts) as [a r0| | |] eqn:E; try discriminate.
      apply IHa in E. apply IHl in H. lia.
    + intros m lhs ts e r H. rewrite parse_loop_S in H.
      destruct ts as [|t ts']; [inversion H; subst; lia|].
      destruct t; try (inversion H; subst; lia).
      destruct (m <=? pt_level T o); [|inversion H; subst; lia].
      destruct (parse_expr T f _ ts') as [a r0| | |] eqn:E; try discriminate.
      apply IHe in E. apply IHl in H. simpl. lia.
Qed.

(* -- fuel sufficiency: 2 * |ts| + 2 is always enough, so [parse_fuel] is -- *)
Lemma atom_body_fuel : forall f ts,
  (forall m r, 2 * length r + 2 <= f -> parse_expr T f m r <> PFuel) ->
  2 * length ts <= f -> atom_body f ts <> PFuel.
Proof.
  intros f ts H Hf.
  unfold atom_body.
  destruct ts as [|t ts']; [discriminate|].
  destruct t; try discriminate.
  - destruct ts' as [|t2 ts'']; [discriminate|].
    destruct t2; try discriminate.
    + specialize (H 0 ts''). simpl in Hf.
      destruct (parse_expr T f 0 ts'') as [i r0| | |] eqn:E0; try discriminate.
      * destruct r0 as [|t3 r1]; [discriminate|]. destruct t3; try discriminate.
        destruct r1 as [|t4 r2]; [discriminate|]. destruct t4; discriminate.
      * exfalso; apply H; [lia|reflexivity].
    + destruct (parse_path (TDot :: ts'')) as [[gs r0]|]; [|discriminate].
      destruct gs; [discriminate|]. destruct r0 as [|t3 r1]; [discriminate|]. destruct t3; discriminate.
  - destruct o; try discriminate.
    specialize (H (S (ulevel T UMinus)) ts'). simpl in Hf.
    destruct (parse_expr T f (S (ulevel T UMinus)) ts') eqn:E0; try discriminate.
    exfalso; apply H; [lia|reflexivity].
  - specialize (H (S (ulevel T UNeg)) ts'). simpl in Hf.
    destruct (parse_expr T f (S (ulevel T UNeg)) ts') eqn:E0; try discriminate.
    exfalso; apply H; [lia|reflexivity].
  - specialize (H 0 ts'). simpl in Hf.
    destruct (parse_expr T f 0 ts') as [a r0| | |] eqn:E0; try discriminate.
    + destruct r0 as [|t3 r1]; [discriminate|]. destruct t3; discriminate.
    + exfalso; apply H; [lia|reflexivity].
Qed.

Lemma fuel_enough : forall f,
  (forall ts, 2 * length ts + 1 <= f -> parse_atom T f ts <> PFuel) /\
  (forall m ts, 2 * length ts + 2 <= f -> parse_expr T f m ts <> PFuel) /\
  (forall m lhs ts, 2 * length ts + 1 <= f -> parse_loop T f m lhs ts <> PFuel).
Proof.
  induction f as [|f IH].
  - repeat split; intros; lia.
  - destruct IH as (IHa & IHe & IHl).
    destruct (parse_consumes f) as (Ca & Ce & Cl).
    repeat split.
    + intros ts Hf. rewrite parse_atom_S. apply atom_body_fuel; [|lia].
      intros m r Hr. apply IHe; lia.
    + intros m ts Hf. rewrite parse_expr_S.
      destruct (parse_atom T f ts) as [a r0| | |] eqn:E; try discriminate.
      * apply Ca in E. apply IHl. lia.
      * exfalso. revert E. apply IHa. lia.
    + intros m lhs ts Hf. rewrite parse_loop_S.
      destruct ts as [|t ts']; [discriminate|].
      destruct t; try discriminate.
      destruct (m <=? pt_level T o); [|discriminate].
      simpl in Hf.
      destruct (parse_expr T f _ ts') as [a r0| | |] eqn:E; try discriminate.
      * apply Ce in E. apply IHl. lia.
      * exfalso. revert E. apply IHe. lia.
Qed.

Theorem parse_fuel_enough_lemma : forall ts, parse T ts <> PFuel.
Proof.
  intros ts. unfold parse.
  destruct (parse_expr T (parse_fuel ts) 0 ts) as [e r| | |] eqn:E; try discriminate.
  - destruct r; discriminate.
  - exfalso. revert E. apply (proj1 (proj2 (fuel_enough _))). unfold parse_fuel. lia.
Qed.

(* any fuel that succeeds agrees with [parse] *)
Lemma parse_of_fuel : forall f ts e, parse_expr T f 0 ts = POk e [] -> parse T ts = POk e [].
Proof.
  intros f ts e H. unfold parse.
  assert (NF : parse_expr T (parse_fuel ts) 0 ts <> PFuel).
  { apply (proj1 (proj2 (fuel_enough _))). unfold parse_fuel. lia. }
  destruct (Nat.le_ge_cases f (parse_fuel ts)) as [L|L].
  - rewrite (proj1 (proj2 (fuel_mono f)) 0 ts) by (try rewrite H; try discriminate; exact L).
    rewrite H. reflexivity.
  - rewrite <- (proj1 (proj2 (fuel_mono (parse_fuel ts))) 0 ts NF f L). rewrite H. reflexivity.
Qed.

End ParserFacts.

(* ================================================================================================ *)
(* Parser: big-step success relations (no fuel) and their adequacy                                    *)
(* ================================================================================================ *)
Definition no_lb_dot (ts : list token) : Prop :=
  match ts with TLB :: _ => False | TDot :: _ => False | _ => True end.
Definition no_dot (ts : list token) : Prop := match ts with TDot :: _ => False | _ => True end.
Definition no_lb (ts : list token) : Prop := match ts with TLB :: _ => False | _ => True end.

Section Rel.
Variable T : ptable.

Definition stops (m : nat) (ts : list token) : Prop :=
  match ts with TBin o :: _ => pt_level T o < m | _ => True end.
Definition next_min (o : binop) : nat := if pt_rassoc T o then pt_level T o else S (pt_level T o).

Inductive PAt : list token -> expr -> list token -> Prop :=
| PAt_num : forall n r, PAt (TNum n :: r) (EConst n) r
| PAt_true : forall r, PAt (TTrue :: r) (EBoolc true) r
| PAt_false : forall r, PAt (TFalse :: r) (EBoolc false) r
| PAt_paren : forall r e r', PEx 0 r e (TRP :: r') -> PAt (TLP :: r) e r'
| PAt_not : forall r e r', PEx (S (pt_neg T)) r e r' -> PAt (TNot :: r) (EUn UNeg e) r'
| PAt_umin : forall r e r', PEx (S (pt_umin T)) r e r' -> PAt (TBin PML_MINUS :: r) (EUn UMinus e) r'
| PAt_idx : forall x r i r', PEx 0 r i (TRB :: r') -> no_dot r' -> PAt (TName x :: TLB :: r) (EIdx x i) r'
| PAt_fld : forall x r g gs r', parse_path (TDot :: r) = Some (g :: gs, r') -> no_lb r' ->
    PAt (TName x :: TDot :: r) (EFld x g gs) r'
| PAt_var : forall x r, no_lb_dot r -> PAt (TName x :: r) (EVar x) r
with PEx : nat -> list token -> expr -> list token -> Prop :=
| PEx_intro : forall m ts a r1 e r2, PAt ts a r1 -> PLo m a r1 e r2 -> PEx m ts e r2
with PLo : nat -> expr -> list token -> expr -> list token -> Prop :=
| PLo_stop : forall m lhs ts, stops m ts -> PLo m lhs ts lhs ts
| PLo_step : forall m lhs o r rhs r1 e r2, m <= pt_level T o ->
    PEx (next_min o) r rhs r1 -> PLo m (EBin o lhs rhs) r1 e r2 -> PLo m lhs (TBin o :: r) e r2.

Scheme PAt_ind2 := Induction for PAt Sort Prop
  with PEx_ind2 := Induction for PEx Sort Prop
  with PLo_ind2 := Induction for PLo Sort Prop.
Combined Scheme P_mutind from PAt_ind2, PEx_ind2, PLo_ind2.

Lemma rel_adequate :
  (forall ts e r, PAt ts e r -> exists f0, forall f, f0 <= f -> parse_atom T f ts = POk e r) /\
  (forall m ts e r, PEx m ts e r -> exists f0, forall f, f0 <= f -> parse_expr T f m ts = POk e r) /\
  (forall m lhs ts e r, PLo m lhs ts e r -> exists f0, forall f, f0 <= f -> parse_loop T f m lhs ts = POk e r).
Proof.
  apply P_mutind.
  - intros n r. exists 1. intros f Hf. destruct f; [lia|]. reflexivity.
  - intros r. exists 1. intros f Hf. destruct f; [lia|]. reflexivity.
  - intros r. exists 1. intros f Hf. destruct f; [lia|]. reflexivity.
  - intros r e r' _ [f0 IH]. exists (S f0). intros f Hf. destruct f; [lia|].
    rewrite parse_atom_S. unfold atom_body. rewrite IH by lia. reflexivity.
  - intros r e r' _ [f0 IH]. exists (S f0). intros f Hf. destruct f; [lia|].
    rewrite parse_atom_S. unfold atom_body. simpl ulevel. rewrite IH by lia. reflexivity.
  - intros r e r' _ [f0 IH]. exists (S f0). intros f Hf. destruct f; [lia|].
    rewrite parse_atom_S. unfold atom_body. simpl ulevel. rewrite IH by lia. reflexivity.
  - intros x r i r' _ [f0 IH] ND. exists (S f0). intros f Hf. destruct f; [lia|].
    rewrite parse_atom_S. unfold atom_body. rewrite IH by lia.
    destruct r' as [|t r'']; [reflexivity|]. destruct t; try reflexivity. elim ND.
  - intros x r g gs r' HP NL. exists 1. intros f Hf. destruct f; [lia|].
    rewrite parse_atom_S. unfold atom_body. rewrite HP.
    destruct r' as [|t r'']; [reflexivity|]. destruct t; try reflexivity. elim NL.
  - intros x r NLD. exists 1. intros f Hf. destruct f; [lia|].
    rewrite parse_atom_S. unfold atom_body.
    destruct r as [|t r'']; [reflexivity|]. destruct t; try reflexivity; elim NLD.
  - intros m ts a r1 e r2 _ [fa IHa] _ [fl IHl]. exists (S (max fa fl)). intros f Hf. destruct f; [lia|].
    rewrite parse_expr_S. rewrite IHa by lia. apply IHl. lia.
  - intros m lhs ts St. exists 1. intros f Hf. destruct f; [lia|].
    rewrite parse_loop_S. destruct ts as [|t r]; [reflexivity|]. destruct t; try reflexivity.
    simpl in St. destruct (m <=? pt_level T o) eqn:E; [|reflexivity].
    apply Nat.leb_le in E. lia.
  - intros m lhs o r rhs r1 e r2 Hm _ [fe IHe] _ [fl IHl]. exists (S (max fe fl)). intros f Hf.
    destruct f; [lia|]. rewrite parse_loop_S.
    destruct (m <=? pt_level T o) eqn:E; [|apply Nat.leb_gt in E; lia].
    unfold next_min in IHe. rewrite IHe by lia. apply IHl. lia.
Qed.

Lemma PEx_parse : forall ts e, PEx 0 ts e [] -> parse T ts = POk e [].
Proof.
  intros ts e H. destruct (proj1 (proj2 rel_adequate) _ _ _ _ H) as [f0 Hf].
  apply (parse_of_fuel T f0). apply Hf. lia.
Qed.

(* ---- full parenthesisation is read back by ANY table ---- *)
Definition follows_ok (ts : list token) : Prop :=
  match ts with [] => True | TBin _ :: _ => True | TRP :: _ => True | TRB :: _ => True | _ => False end.

Lemma follows_ok_no : forall ts, follows_ok ts -> no_lb_dot ts /\ no_dot ts /\ no_lb ts.
Proof. intros ts H. destruct ts as [|t r]; [repeat split|]. destruct t; try elim H; repeat split. Qed.

Lemma parse_path_tokens : forall fs rest, no_dot rest ->
  parse_path (path_tokens fs ++ rest) = Some (fs, rest).
Proof.
  induction fs as [|g gs IH]; intros rest ND.
  - simpl. destruct rest as [|t r]; [reflexivity|]. destruct t; try reflexivity. elim ND.
  - simpl. rewrite IH by exact ND. reflexivity.
Qed.

Lemma PAt_fld_print : forall x f fs rest, follows_ok rest ->
  PAt (TName x :: TDot :: TName f :: path_tokens fs ++ rest) (EFld x f fs) rest.
Proof.
  intros x f fs rest FO. destruct (follows_ok_no _ FO) as (_ & ND & NL).
  apply PAt_fld; [|exact NL].
  change (TDot :: TName f :: path_tokens fs ++ rest) with (path_tokens (f :: fs) ++ rest).
  apply parse_path_tokens. exact ND.
Qed.

Lemma stops_nonbin : forall m ts, match ts with TBin _ :: _ => False | _ => True end -> stops m ts.
Proof. intros m ts H. destruct ts as [|t r]; [exact I|]. destruct t; try exact I. elim H. Qed.

Lemma print_full_atom : forall e rest, follows_ok rest -> PAt (print_full e ++ rest) e rest.
Proof.
  induction e as [n|b|x|x i IHi|x f fs|u a IHa|o a IHa b IHb]; intros rest FO; simpl.
  - apply PAt_num.
  - destruct b; [apply PAt_true|apply PAt_false].
  - apply PAt_var. apply follows_ok_no. exact FO.
  - rewrite <- app_assoc. simpl. apply PAt_idx; [|apply follows_ok_no; exact FO].
    eapply PEx_intro; [apply IHi; exact I|]. apply PLo_stop. exact I.
  - apply PAt_fld_print. exact FO.
  - rewrite <- app_assoc. simpl. apply PAt_paren.
    eapply PEx_intro; [|apply PLo_stop; exact I].
    destruct u; simpl.
    + apply PAt_not. eapply PEx_intro; [apply IHa; exact I|]. apply PLo_stop. exact I.
    + apply PAt_umin. eapply PEx_intro; [apply IHa; exact I|]. apply PLo_stop. exact I.
  - rewrite <- !app_assoc. simpl. rewrite <- !app_assoc. simpl. apply PAt_paren.
    eapply PEx_intro; [apply IHa; exact I|].
    eapply PLo_step; [lia| |apply PLo_stop; exact I].
    eapply PEx_intro; [apply IHb; exact I|]. apply PLo_stop. exact I.
Qed.

Theorem parse_print_full_lemma : forall e, parse T (print_full e) = POk e [].
Proof.
  intros e. apply PEx_parse.
  eapply PEx_intro; [|apply PLo_stop; exact I].
  rewrite <- (app_nil_r (print_full e)). apply print_full_atom. exact I.
Qed.

End Rel.

(* ================================================================================================ *)
(* Minimal parenthesisation is read back by the C table                                               *)
(* ================================================================================================ *)
Lemma c_level_le : forall o, c_level o <= 10.
Proof. destruct o; simpl; lia. Qed.

Lemma c_stops_high : forall m ts, 11 <= m -> stops c_table m ts.
Proof.
  intros m ts H. destruct ts as [|t r]; [exact I|]. destruct t; try exact I.
  simpl. pose proof (c_level_le o). lia.
Qed.

Lemma c_stops_mono : forall m m' ts, stops c_table m ts -> m <= m' -> stops c_table m' ts.
Proof. intros m m' ts H L. destruct ts as [|t r]; [exact I|]. destruct t; try exact I. simpl in *. lia. Qed.

Definition Qst (e : expr) : Prop :=
  forall m rest e' rest', m <= elevel e -> follows_ok rest -> stops c_table (S (elevel e)) rest ->
    PLo c_table m e rest e' rest' -> PEx c_table m (print_min e ++ rest) e' rest'.

Lemma P_of_Q : forall a, Qst a ->
  forall ctx m rest e' rest', m <= ctx -> follows_ok rest ->
    ((elevel a <? ctx) = false -> stops c_table (S (elevel a)) rest) ->
    PLo c_table m a rest e' rest' ->
    PEx c_table m (paren_if (elevel a <? ctx) (print_min a) ++ rest) e' rest'.
Proof.
  intros a HQ ctx m rest e' rest' Hm FO St HL.
  destruct (elevel a <? ctx) eqn:E; simpl.
  - rewrite <- app_assoc. simpl.
    eapply PEx_intro; [|exact HL].
    apply PAt_paren. apply HQ; [lia|exact I|exact I|]. apply PLo_stop. exact I.
  - apply Nat.ltb_ge in E. apply HQ; [lia|exact FO|apply St; reflexivity|exact HL].
Qed.

Lemma Q_all : forall e, Qst e.
Proof.
  induction e as [n|b|x|x i IHi|x f fs|u a IHa|o a IHa b IHb]; intros m rest e' rest' Hm FO St HL; simpl.
  - eapply PEx_intro; [apply PAt_num|exact HL].
  - eapply PEx_intro; [|exact HL]. destruct b; [apply PAt_true|apply PAt_false].
  - eapply PEx_intro; [|exact HL]. apply PAt_var. apply follows_ok_no. exact FO.
  - eapply PEx_intro; [|exact HL]. rewrite <- app_assoc. simpl.
    apply PAt_idx; [|apply follows_ok_no; exact FO].
    apply IHi; [lia|exact I|exact I|]. apply PLo_stop. exact I.
  - eapply PEx_intro; [|exact HL]. apply PAt_fld_print. exact FO.
  - eapply PEx_intro; [|exact HL].
    assert (HP : PEx c_table 11 (paren_if (elevel a <? 11) (print_min a) ++ rest) a rest).
    { apply (P_of_Q a IHa); [lia|exact FO| |].
      - intros E. apply Nat.ltb_ge in E. apply c_stops_high. lia.
      - apply PLo_stop. apply c_stops_high. lia. }
    destruct u; simpl.
    + apply PAt_not. exact HP.
    + apply PAt_umin. exact HP.
  - simpl in Hm, St. rewrite <- app_assoc. simpl.
    apply (P_of_Q a IHa); [exact Hm|exact I| |].
    + intros E. apply Nat.ltb_ge in E. simpl. lia.
    + eapply PLo_step; [exact Hm| |exact HL].
      simpl. change (next_min c_table o) with (S (c_level o)).
      apply (P_of_Q b IHb); [lia|exact FO| |].
      * intros E. apply Nat.ltb_ge in E. eapply c_stops_mono; [exact St|lia].
      * apply PLo_stop. exact St.
Qed.

Theorem parse_print_min_lemma : forall e, parse c_table (print_min e) = POk e [].
Proof.
  intros e. apply PEx_parse.
  rewrite <- (app_nil_r (print_min e)).
  apply Q_all; [lia|exact I|exact I|]. apply PLo_stop. exact I.
Qed.

(* ================================================================================================ *)
(* The finite check [table_is_C] is sound: a table that passes it parses exactly as the C table       *)
(* ================================================================================================ *)
Lemma all_binops_complete : forall o, In o all_binops.
Proof. destruct o; simpl; tauto. Qed.

Section TableSim.
Variable T : ptable.
Hypothesis HC : table_is_C T = true.

Lemma tic_pair : forall o1 o2, pair_left T o1 o2 = pair_left c_table o1 o2.
Proof.
  intros o1 o2. unfold table_is_C in HC. apply andb_prop in HC. destruct HC as [H _].
  rewrite forallb_forall in H. specialize (H o1 (all_binops_complete o1)).
  rewrite forallb_forall in H. specialize (H o2 (all_binops_complete o2)).
  apply Bool.eqb_prop in H. exact H.
Qed.

Lemma tic_unary : forall o, pt_level T o <= pt_neg T /\ pt_level T o <= pt_umin T.
Proof.
  intros o. unfold table_is_C in HC. apply andb_prop in HC. destruct HC as [_ H].
  rewrite forallb_forall in H. specialize (H o (all_binops_complete o)).
  apply andb_prop in H. destruct H as [H1 H2]. unfold unary_absorbs in *.
  apply Bool.negb_true_iff in H1. apply Bool.negb_true_iff in H2.
  apply Nat.ltb_ge in H1. apply Nat.ltb_ge in H2. split; assumption.
Qed.

Lemma tic_rassoc : forall o, pt_rassoc T o = false.
Proof.
  intros o. pose proof (tic_pair o o) as H. unfold pair_left in H.
  rewrite !Nat.ltb_irrefl in H. simpl in H. destruct (pt_rassoc T o); [discriminate|reflexivity].
Qed.

Lemma tic_order : forall o1 o2, pt_level T o1 < pt_level T o2 <-> c_level o1 < c_level o2.
Proof.
  intros o1 o2. pose proof (tic_pair o1 o2) as H12. pose proof (tic_pair o2 o1) as H21.
  unfold pair_left in *. rewrite !tic_rassoc in *. simpl in *.
  destruct (pt_level T o2 <? pt_level T o1) eqn:A; destruct (pt_level T o1 <? pt_level T o2) eqn:B;
  destruct (c_level o2 <? c_level o1) eqn:A'; destruct (c_level o1 <? c_level o2) eqn:B';
  try discriminate;
  repeat match goal with
  | H : (_ <? _) = true |- _ => apply Nat.ltb_lt in H
  | H : (_ <? _) = false |- _ => apply Nat.ltb_ge in H
  end; lia.
Qed.

(* minimum-precedence arguments that admit the same operators *)
Definition Rm (m m' : nat) : Prop := forall o, m <= pt_level T o <-> m' <= c_level o.

Lemma Rm_zero : Rm 0 0.
Proof. intros o; split; lia. Qed.
Lemma Rm_next : forall o, Rm (S (pt_level T o)) (S (c_level o)).
Proof. intros o o'. pose proof (tic_order o o'). lia. Qed.
Lemma Rm_neg : Rm (S (pt_neg T)) (S (pt_neg c_table)).
Proof. intros o. pose proof (tic_unary o). pose proof (c_level_le o). simpl. unfold c_unary_level. lia. Qed.
Lemma Rm_umin : Rm (S (pt_umin T)) (S (pt_umin c_table)).
Proof. intros o. pose proof (tic_unary o). pose proof (c_level_le o). simpl. unfold c_unary_level. lia. Qed.

Lemma atom_body_sim : forall f ts,
  (forall m m' r, Rm m m' -> parse_expr T f m r = parse_expr c_table f m' r) ->
  atom_body T f ts = atom_body c_table f ts.
Proof.
  intros f ts H. unfold atom_body.
  destruct ts as [|t r]; [reflexivity|].
  destruct t; try reflexivity.
  - destruct r as [|t2 r2]; [reflexivity|]. destruct t2; try reflexivity.
    rewrite (H 0 0 r2 Rm_zero). reflexivity.
  - destruct o; try reflexivity. simpl ulevel. rewrite (H _ _ r Rm_umin). reflexivity.
  - simpl ulevel. rewrite (H _ _ r Rm_neg). reflexivity.
  - rewrite (H 0 0 r Rm_zero). reflexivity.
Qed.

Lemma table_sim : forall f,
  (forall ts, parse_atom T f ts = parse_atom c_table f ts) /\
  (forall m m' ts, Rm m m' -> parse_expr T f m ts = parse_expr c_table f m' ts) /\
  (forall m m' lhs ts, Rm m m' -> parse_loop T f m lhs ts = parse_loop c_table f m' lhs ts).
Proof.
  induction f as [|f IH].
  - repeat split; reflexivity.
  - destruct IH as (IHa & IHe & IHl). repeat split.
    + intros ts. rewrite !parse_atom_S. apply atom_body_sim. exact IHe.
    + intros m m' ts R. rewrite !parse_expr_S. rewrite IHa.
      destruct (parse_atom c_table f ts); try reflexivity. apply IHl. exact R.
    + intros m m' lhs ts R. rewrite !parse_loop_S.
      destruct ts as [|t r]; [reflexivity|]. destruct t; try reflexivity.
      assert (E : (m <=? pt_level T o) = (m' <=? pt_level c_table o)).
      { simpl. destruct (m <=? pt_level T o) eqn:A; destruct (m' <=? c_level o) eqn:B; try reflexivity;
        repeat match goal with
        | H : (_ <=? _) = true |- _ => apply Nat.leb_le in H
        | H : (_ <=? _) = false |- _ => apply Nat.leb_gt in H
        end; pose proof (R o); lia. }
      rewrite E. destruct (m' <=? pt_level c_table o); [|reflexivity].
      rewrite tic_rassoc. simpl pt_rassoc. cbv iota.
      rewrite (IHe _ _ r (Rm_next o)). simpl pt_level.
      destruct (parse_expr c_table f (S (c_level o)) r); try reflexivity. apply IHl. exact R.
Qed.

Lemma table_is_C_sound_lemma : forall ts, parse T ts = parse c_table ts.
Proof.
  intros ts. unfold parse. rewrite (proj1 (proj2 (table_sim _)) 0 0 ts Rm_zero). reflexivity.
Qed.
End TableSim.

Theorem prec_table_is_C_lemma : forall T, table_is_C T = true ->
  forall e, parse T (print_min e) = POk e [] /\ parse T (print_full e) = POk e [].
Proof.
  intros T H e. split.
  - rewrite (table_is_C_sound_lemma T H). apply parse_print_min_lemma.
  - apply parse_print_full_lemma.
Qed.

Lemma c_table_is_C : table_is_C c_table = true.
Proof. vm_compute. reflexivity. Qed.

(* ---- the statement is false of the table as pinned ---- *)
Definition w_or_and : expr := EBin PML_OR (EConst 1) (EBin PML_AND (EConst 0) (EConst 0)).
Definition w_bitor_and : expr := EBin PML_BITOR (EConst 1) (EBin PML_BITAND (EConst 0) (EConst 0)).
Definition w_umin_times : expr := EBin PML_TIMES (EUn UMinus (EConst 1)) (EConst 2).

Lemma pinned_table_not_C : table_is_C pinned_table = false.
Proof. vm_compute. reflexivity. Qed.

Lemma pinned_parse_refuted_lemma :
  parse pinned_table (print_min w_or_and) = POk (EBin PML_AND (EBin PML_OR (EConst 1) (EConst 0)) (EConst 0)) []
  /\ parse pinned_table (print_min w_bitor_and) <> POk w_bitor_and []
  /\ parse pinned_table (print_min w_umin_times) = POk (EUn UMinus (EBin PML_TIMES (EConst 1) (EConst 2))) [].
Proof. repeat split; vm_compute; try reflexivity; discriminate. Qed.

(* ---- verdict on an arbitrary (e.g. the generated) table: either a C-printed expression that it misreads,
        found among the one-pair and unary probes, or the guarantee of [prec_table_is_C] ---- *)
Fixpoint expr_eqb (a b : expr) {struct a} : bool :=
  match a, b with
  | EConst n, EConst n' => N.eqb n n'
  | EBoolc x, EBoolc y => Bool.eqb x y
  | EVar x, EVar y => beq_bytes x y
  | EIdx x i, EIdx y j => beq_bytes x y && expr_eqb i j
  | EFld x f fs, EFld y g gs => beq_bytes x y && beq_bytes f g && path_eqb fs gs
  | EUn UNeg a', EUn UNeg b' => expr_eqb a' b'
  | EUn UMinus a', EUn UMinus b' => expr_eqb a' b'
  | EBin o a1 a2, EBin o' b1 b2 => binop_eqb o o' && expr_eqb a1 b1 && expr_eqb a2 b2
  | _, _ => false
  end.

Lemma beq_bytes_refl : forall x, beq_bytes x x = true.
Proof. induction x; simpl; [reflexivity|]. rewrite N.eqb_refl. exact IHx. Qed.
Lemma path_eqb_refl : forall p, path_eqb p p = true.
Proof. induction p; simpl; [reflexivity|]. rewrite beq_bytes_refl. exact IHp. Qed.
Lemma expr_eqb_refl : forall e, expr_eqb e e = true.
Proof.
  induction e as [n|b|x|x i IHi|x f fs|u a IHa|o a IHa b IHb]; simpl.
  - apply N.eqb_refl.
  - destruct b; reflexivity.
  - apply beq_bytes_refl.
  - rewrite beq_bytes_refl. exact IHi.
  - rewrite !beq_bytes_refl, path_eqb_refl. reflexivity.
  - destruct u; exact IHa.
  - rewrite IHa, IHb. unfold binop_eqb. rewrite Nat.eqb_refl. reflexivity.
Qed.

Definition reads_back (T : ptable) (e : expr) : bool :=
  match parse T (print_min e) with POk e' [] => expr_eqb e e' | _ => false end.

Lemma reads_back_false : forall T e, reads_back T e = false -> parse T (print_min e) <> POk e [].
Proof.
  intros T e H C. unfold reads_back in H. rewrite C in H. rewrite expr_eqb_refl in H. discriminate.
Qed.

Definition probe_exprs : list expr :=
  flat_map (fun o1 => flat_map (fun o2 =>
    [EBin o2 (EBin o1 (EConst 1) (EConst 2)) (EConst 3); EBin o1 (EConst 1) (EBin o2 (EConst 2) (EConst 3))])
    all_binops) all_binops
  ++ flat_map (fun o => [EBin o (EUn UNeg (EConst 1)) (EConst 2); EBin o (EUn UMinus (EConst 1)) (EConst 2)]) all_binops.

Definition find_misread (T : ptable) : option expr := find (fun e => negb (reads_back T e)) probe_exprs.

Definition table_verdictb (T : ptable) : bool :=
  match find_misread T with Some _ => true | None => table_is_C T end.

Definition table_verdict (T : ptable) : Prop :=
  match find_misread T with
  | Some e => parse T (print_min e) <> POk e []
  | None => forall e, parse T (print_min e) = POk e [] /\ parse T (print_full e) = POk e []
  end.

Lemma table_verdict_sound : forall T, table_verdictb T = true -> table_verdict T.
Proof.
  intros T H. unfold table_verdictb, table_verdict in *.
  destruct (find_misread T) as [e|] eqn:E.
  - apply find_some in E. destruct E as [_ E]. apply Bool.negb_true_iff in E.
    apply reads_back_false. exact E.
  - apply prec_table_is_C_lemma. exact H.
Qed.

Lemma gen_table_verdict_lemma : table_verdict gen_table.
Proof. apply table_verdict_sound. vm_compute. reflexivity. Qed.

(* ================================================================================================ *)
(* Evaluator: no crash once the three crash switches are off                                          *)
(* ================================================================================================ *)
Local Open Scope Z_scope.

Definition nocrash {A : Type} (x : outcome A) : Prop := match x with Crash _ => False | _ => True end.

Lemma nocrash_bind : forall (A B : Type) (x : outcome A) (f : A -> outcome B),
  nocrash x -> (forall a, nocrash (f a)) -> nocrash (bind x f).
Proof. intros A B x f Hx Hf. destruct x; simpl; auto. Qed.

Lemma nocrash_to_int : forall d, nocrash (data_to_int d).
Proof. intros d. unfold data_to_int. destruct (d_atom d); simpl; auto. destruct (in_int z); simpl; auto. Qed.
Lemma nocrash_to_bool : forall d, nocrash (data_to_bool d).
Proof. intros d. unfold data_to_bool. destruct (d_atom d); simpl; auto. destruct (in_int z); simpl; auto. Qed.

Section NoCrash.
Variable v : pml_variant.
Hypothesis Hum : pv_uminus_crash v = false.
Hypothesis Hdiv : pv_div_unguarded v = false.
Hypothesis Hidx : pv_index_unguarded v = false.

Lemma nocrash_arr_at : forall arr k, nocrash (arr_at v arr k).
Proof.
  intros arr k. unfold arr_at. rewrite Hidx. simpl.
  destruct (k <? 0) eqn:E1; simpl; [exact I|].
  destruct (Z.of_nat (length arr) <=? k) eqn:E2; simpl; [exact I|].
  apply Z.ltb_ge in E1. apply Z.leb_gt in E2.
  destruct (nth_error arr (Z.to_nat k)) eqn:E3; simpl; [exact I|].
  apply nth_error_None in E3. lia.
Qed.

Lemma nocrash_get_idx : forall s x k, nocrash (get_idx v s x k).
Proof.
  intros s x k. unfold get_idx. destruct (st_get s x) as [p|]; simpl; [|exact I].
  destruct (v_size p) as [n|]; simpl; [|exact I].
  destruct (n <=? k); simpl; [exact I|]. apply nocrash_arr_at.
Qed.

Lemma nocrash_get_name : forall s x, nocrash (get_name v s x).
Proof. intros s x. unfold get_name. destruct (st_get s x); simpl; auto. destruct (pv_undeclared_false v); simpl; auto. Qed.

Lemma nocrash_get_fld : forall s x p, nocrash (get_fld s x p).
Proof. intros s x p. unfold get_fld. destruct (st_get s x); simpl; auto. destruct (get_path _ _); simpl; auto. Qed.

Lemma nocrash_int_binop : forall o x y, nocrash (int_binop v o x y).
Proof.
  intros o x y. destruct o; simpl; auto; rewrite Hdiv; destruct (div_faults x y); simpl; auto.
Qed.

Lemma eval_no_crash_nc : forall s e, nocrash (eval_impl v s e).
Proof.
  intros s. induction e as [n|b|x|x i IHi|x f fs|u a IHa|o a IHa b IHb]; simpl.
  - exact I.
  - exact I.
  - apply nocrash_get_name.
  - apply nocrash_bind; [exact IHi|]. intros di. apply nocrash_bind; [apply nocrash_to_int|].
    intros k. apply nocrash_get_idx.
  - apply nocrash_get_fld.
  - destruct u.
    + apply nocrash_bind; [exact IHa|]. intros d. apply nocrash_bind; [apply nocrash_to_bool|]. intros; exact I.
    + destruct (pv_handles v PML_MINUS); simpl; [|exact I].
      apply nocrash_bind; [exact IHa|]. intros d. apply nocrash_bind; [apply nocrash_to_int|].
      intros k. rewrite Hum. exact I.
  - destruct (pv_handles v o); simpl; [|exact I].
    assert (Hlog : forall isand : bool,
      nocrash (if pv_no_short_circuit v
        then bind (eval_impl v s a) (fun l => bind (eval_impl v s b) (fun r =>
             bind (data_to_bool l) (fun tl => bind (data_to_bool r) (fun tr =>
               Ok (dint (b2z (if isand then tl && tr else tl || tr)))))))
        else bind (eval_impl v s a) (fun l => bind (data_to_bool l) (fun tl =>
               if Bool.eqb tl isand
               then bind (eval_impl v s b) (fun r => bind (data_to_bool r) (fun tr => Ok (dint (b2z tr))))
               else Ok (dint (b2z tl)))))).
    { intros isand. destruct (pv_no_short_circuit v).
      - apply nocrash_bind; [exact IHa|]. intros l. apply nocrash_bind; [exact IHb|]. intros r.
        apply nocrash_bind; [apply nocrash_to_bool|]. intros tl.
        apply nocrash_bind; [apply nocrash_to_bool|]. intros; exact I.
      - apply nocrash_bind; [exact IHa|]. intros l. apply nocrash_bind; [apply nocrash_to_bool|]. intros tl.
        destruct (Bool.eqb tl isand); [|exact I].
        apply nocrash_bind; [exact IHb|]. intros r. apply nocrash_bind; [apply nocrash_to_bool|]. intros; exact I. }
    assert (Heq : forall isne : bool,
      nocrash (bind (eval_impl v s a) (fun l => bind (eval_impl v s b) (fun r =>
        if data_eqb l r then Ok (dint (b2z (negb isne)))
        else bind (data_to_int l) (fun x => bind (data_to_int r) (fun y =>
               Ok (dint (b2z (xorb isne (x =? y)))))))))).
    { intros isne. apply nocrash_bind; [exact IHa|]. intros l. apply nocrash_bind; [exact IHb|]. intros r.
      destruct (data_eqb l r); [exact I|].
      apply nocrash_bind; [apply nocrash_to_int|]. intros x.
      apply nocrash_bind; [apply nocrash_to_int|]. intros; exact I. }
    assert (Har : nocrash (if is_arith o then
        bind (eval_impl v s a) (fun l => bind (data_to_int l) (fun x =>
        bind (eval_impl v s b) (fun r => bind (data_to_int r) (fun y =>
          bind (if pv_ord_rtl v then int_binop v o y x else int_binop v o x y) (fun z => Ok (dint z))))))
        else ErrEvent)).
    { destruct (is_arith o); [|exact I].
      apply nocrash_bind; [exact IHa|]. intros l. apply nocrash_bind; [apply nocrash_to_int|]. intros x.
      apply nocrash_bind; [exact IHb|]. intros r. apply nocrash_bind; [apply nocrash_to_int|]. intros y.
      apply nocrash_bind; [|intros; exact I].
      destruct (pv_ord_rtl v); apply nocrash_int_binop. }
    destruct o; first [exact (Hlog true) | exact (Hlog false) | exact (Heq true) | exact (Heq false) | exact Har].
Qed.

Theorem eval_no_crash_lemma : forall s e w, eval_impl v s e <> Crash w.
Proof. intros s e w H. pose proof (eval_no_crash_nc s e) as N. rewrite H in N. exact N. Qed.
End NoCrash.

(* ================================================================================================ *)
(* C int facts                                                                                        *)
(* ================================================================================================ *)
Ltac Zify.zify_post_hook ::= Z.to_euclidean_division_equations.

Lemma in_int_iff : forall z : Z, (in_int z = true) <-> (-2147483648 <= z /\ z <= 2147483647).
Proof. intros z. unfold in_int, int_min, int_max. rewrite andb_true_iff, !Z.leb_le. tauto. Qed.

Lemma wrap_in_int : forall z, in_int (wrap z) = true.
Proof. intros z. apply in_int_iff. unfold wrap. lia. Qed.

Lemma wrap_id : forall z, in_int z = true -> wrap z = z.
Proof. intros z H. apply in_int_iff in H. unfold wrap. lia. Qed.

Lemma b2z_in_int : forall b, in_int (b2z b) = true.
Proof. destruct b; reflexivity. Qed.

Lemma quot_in_int : forall x y, in_int x = true -> in_int y = true -> div_faults x y = false ->
  in_int (Z.quot x y) = true.
Proof.
  intros x y Hx Hy Hd. apply in_int_iff in Hx. apply in_int_iff in Hy. apply in_int_iff.
  unfold div_faults, int_min in Hd. apply orb_false_iff in Hd. destruct Hd as [H0 H1].
  apply Z.eqb_neq in H0. apply andb_false_iff in H1.
  assert (~ (x = -2147483648 /\ y = -1)) by (intros [A B]; subst; destruct H1 as [H1|H1]; discriminate).
  nia.
Qed.

Lemma rem_in_int : forall x y, in_int x = true -> in_int y = true -> div_faults x y = false ->
  in_int (Z.rem x y) = true.
Proof.
  intros x y Hx Hy Hd. apply in_int_iff in Hx. apply in_int_iff in Hy. apply in_int_iff.
  unfold div_faults in Hd. apply orb_false_iff in Hd. destruct Hd as [H0 _]. apply Z.eqb_neq in H0.
  nia.
Qed.

Lemma shiftr_in_int : forall x k, in_int x = true -> 0 <= k -> in_int (Z.shiftr x k) = true.
Proof.
  intros x k Hx Hk. apply in_int_iff in Hx. apply in_int_iff.
  rewrite Z.shiftr_div_pow2 by exact Hk.
  assert (0 < 2 ^ k) by (apply Z.pow_pos_nonneg; lia).
  nia.
Qed.

Lemma land31 : forall y, 0 <= Z.land y 31 < 32.
Proof.
  intros y. change 31 with (Z.ones 5). rewrite Z.land_ones by lia. change (2 ^ 5) with 32. lia.
Qed.
Lemma land31_id : forall y, 0 <= y -> y < 32 -> Z.land y 31 = y.
Proof.
  intros y H0 H1. change 31 with (Z.ones 5). rewrite Z.land_ones by lia. change (2 ^ 5) with 32. lia.
Qed.

(* ================================================================================================ *)
(* eval_correct: the repaired evaluator computes the reference semantics on well-typed expressions    *)
(* ================================================================================================ *)
Definition intok (z : Z) : Prop := in_int z = true.

(* the implementation's store represents the reference state *)
Definition var_abs (p : pvar) (c : cvar) : Prop :=
  match c with
  | CScalar z => v_size p = None /\ v_val p = dint z /\ intok z
  | CArray zs => v_size p = Some (Z.of_nat (length zs)) /\ d_arr (v_val p) = map dint zs /\ Forall intok zs
  | CStruct fs => v_size p = None /\
                  forall q z, fs_get fs q = Some z -> get_path (v_val p) q = Some (dint z) /\ intok z
  end.
Definition store_abs (s : store) (cs : cstate) : Prop :=
  forall x c, cs_get cs x = Some c -> exists p, st_get s x = Some p /\ var_abs p c.

(* the switches that matter for evaluating expressions over declared variables *)
Definition eval_switches_off (v : pml_variant) : Prop :=
  (forall o, in_scope o = true -> pv_handles v o = true) /\
  pv_uminus_crash v = false /\ pv_div_unguarded v = false /\ pv_index_unguarded v = false /\
  pv_no_short_circuit v = false /\ pv_ord_rtl v = false.

Definition okint (o : outcome data) : Prop := (exists z, o = Ok (dint z) /\ intok z) \/ o = ErrEvent.

Definition agrees (r : cres) (o : outcome data) : Prop :=
  match r with
  | CVal z => o = Ok (dint z) /\ intok z
  | CFault => o = ErrEvent
  | CUnspec => okint o
  | CIll => False
  end.

Lemma agrees_okint : forall r o, agrees r o -> okint o.
Proof.
  intros r o H. destruct r; simpl in H.
  - left. exists z. exact H.
  - right. exact H.
  - elim H.
  - exact H.
Qed.

Lemma to_int_dint : forall z, intok z -> data_to_int (dint z) = Ok z.
Proof. intros z H. unfold data_to_int. simpl. rewrite H. reflexivity. Qed.
Lemma to_bool_dint : forall z, intok z -> data_to_bool (dint z) = Ok (negb (z =? 0)).
Proof. intros z H. unfold data_to_bool. simpl. rewrite H. reflexivity. Qed.
Lemma data_eqb_dint : forall x y, data_eqb (dint x) (dint y) = (x =? y).
Proof. intros x y. simpl. rewrite !andb_true_r. reflexivity. Qed.

Section EvalCorrect.
Variable v : pml_variant.
Hypothesis Hoff : eval_switches_off v.

Let Hh : forall o, in_scope o = true -> pv_handles v o = true := proj1 Hoff.
Let Hum : pv_uminus_crash v = false := proj1 (proj2 Hoff).
Let Hdiv : pv_div_unguarded v = false := proj1 (proj2 (proj2 Hoff)).
Let Hidx : pv_index_unguarded v = false := proj1 (proj2 (proj2 (proj2 Hoff))).
Let Hsc : pv_no_short_circuit v = false := proj1 (proj2 (proj2 (proj2 (proj2 Hoff)))).
Let Hord : pv_ord_rtl v = false := proj2 (proj2 (proj2 (proj2 (proj2 Hoff)))).

Lemma int_binop_agrees : forall o x y, is_arith o = true -> intok x -> intok y ->
  match c_binop o x y with
  | CVal z => int_binop v o x y = Ok z /\ intok z
  | CFault => int_binop v o x y = ErrEvent
  | CUnspec => exists z, int_binop v o x y = Ok z /\ intok z
  | CIll => False
  end.
Proof.
  intros o x y Ha Hx Hy. unfold intok in *.
  destruct o; try discriminate; simpl.
  - (* GT *) split; [reflexivity|apply b2z_in_int].
  - split; [reflexivity|apply b2z_in_int].
  - split; [reflexivity|apply b2z_in_int].
  - split; [reflexivity|apply b2z_in_int].
  - (* LSHIFT *)
    destruct ((0 <=? y) && (y <? 32)) eqn:E.
    + apply andb_prop in E. destruct E as [E1 E2]. apply Z.leb_le in E1. apply Z.ltb_lt in E2.
      rewrite land31_id by assumption. split; [reflexivity|apply wrap_in_int].
    + eexists. split; [reflexivity|apply wrap_in_int].
  - (* RSHIFT *)
    destruct ((0 <=? y) && (y <? 32)) eqn:E.
    + apply andb_prop in E. destruct E as [E1 E2]. apply Z.leb_le in E1. apply Z.ltb_lt in E2.
      rewrite land31_id by assumption. split; [reflexivity|apply shiftr_in_int; assumption].
    + eexists. split; [reflexivity|]. apply shiftr_in_int; [assumption|]. pose proof (land31 y). lia.
  - split; [reflexivity|apply wrap_in_int].
  - split; [reflexivity|apply wrap_in_int].
  - split; [reflexivity|apply wrap_in_int].
  - (* DIVIDE *) rewrite Hdiv. destruct (div_faults x y) eqn:E; [reflexivity|].
    split; [reflexivity|apply quot_in_int; assumption].
  - rewrite Hdiv. destruct (div_faults x y) eqn:E; [reflexivity|].
    split; [reflexivity|apply rem_in_int; assumption].
Qed.

Definition chain_arith (s : store) (o : binop) (a b : expr) : outcome data :=
  bind (eval_impl v s a) (fun l => bind (data_to_int l) (fun x =>
  bind (eval_impl v s b) (fun r => bind (data_to_int r) (fun y =>
    bind (if pv_ord_rtl v then int_binop v o y x else int_binop v o x y) (fun z => Ok (dint z)))))).

Lemma eval_bin_arith : forall s o a b, is_arith o = true -> pv_handles v o = true ->
  eval_impl v s (EBin o a b) = chain_arith s o a b.
Proof. intros s o a b Ha H. destruct o; try discriminate; simpl; rewrite H; reflexivity. Qed.

Lemma c_eval_bin_strict : forall cs o a b, o <> PML_AND -> o <> PML_OR ->
  c_eval cs (EBin o a b) = cseq (c_eval cs a) (c_eval cs b) (c_binop o).
Proof. intros cs o a b H1 H2. destruct o; try reflexivity; congruence. Qed.

Lemma okint_cases : forall o, okint o ->
  (exists z, o = Ok (dint z) /\ intok z) \/ o = ErrEvent.
Proof. intros o H; exact H. Qed.

Lemma arith_agrees : forall s o a b ra rb, is_arith o = true ->
  agrees ra (eval_impl v s a) -> agrees rb (eval_impl v s b) ->
  agrees (cseq ra rb (c_binop o)) (chain_arith s o a b).
Proof.
  intros s o a b ra rb Ha Aa Ab. unfold chain_arith. rewrite Hord.
  assert (Hgen : forall x, intok x -> okint (eval_impl v s b) ->
     okint (bind (eval_impl v s b) (fun r => bind (data_to_int r) (fun y =>
            bind (int_binop v o x y) (fun z => Ok (dint z)))))).
  { intros x Hx [[y [E Hy]]|E]; rewrite E; simpl; [|right; reflexivity].
    rewrite to_int_dint by exact Hy. simpl.
    pose proof (int_binop_agrees o x y Ha Hx Hy) as HB.
    destruct (c_binop o x y) as [z| | |].
    - destruct HB as [HB Hz]. rewrite HB. left. exists z. split; [reflexivity|exact Hz].
    - rewrite HB. right. reflexivity.
    - elim HB.
    - destruct HB as [z [HB Hz]]. rewrite HB. left. exists z. split; [reflexivity|exact Hz]. }
  destruct ra as [x| | |]; simpl in Aa.
  - destruct Aa as [Ea Hx]. rewrite Ea. simpl. rewrite to_int_dint by exact Hx. simpl.
    destruct rb as [y| | |]; simpl in Ab.
    + destruct Ab as [Eb Hy]. rewrite Eb. simpl. rewrite to_int_dint by exact Hy. simpl.
      pose proof (int_binop_agrees o x y Ha Hx Hy) as HB.
      destruct (c_binop o x y) as [z| | |]; simpl.
      * destruct HB as [HB Hz]. rewrite HB. simpl. split; [reflexivity|exact Hz].
      * rewrite HB. reflexivity.
      * elim HB.
      * destruct HB as [z [HB Hz]]. rewrite HB. left. exists z. split; [reflexivity|exact Hz].
    + rewrite Ab. reflexivity.
    + elim Ab.
    + simpl. apply Hgen; [exact Hx|exact Ab].
  - rewrite Aa. destruct rb; simpl in *; try reflexivity. elim Ab.
  - elim Aa.
  - assert (okint (bind (eval_impl v s a) (fun l => bind (data_to_int l) (fun x =>
       bind (eval_impl v s b) (fun r => bind (data_to_int r) (fun y =>
         bind (int_binop v o x y) (fun z => Ok (dint z)))))))) as HK.
    { destruct Aa as [[x [E Hx]]|E]; rewrite E; simpl; [|right; reflexivity].
      rewrite to_int_dint by exact Hx. simpl. apply Hgen; [exact Hx|]. eapply agrees_okint; exact Ab. }
    destruct rb; simpl in *; try exact HK. elim Ab.
Qed.

Definition chain_eq (s : store) (isne : bool) (a b : expr) : outcome data :=
  bind (eval_impl v s a) (fun l => bind (eval_impl v s b) (fun r =>
    if data_eqb l r then Ok (dint (b2z (negb isne)))
    else bind (data_to_int l) (fun x => bind (data_to_int r) (fun y =>
           Ok (dint (b2z (xorb isne (x =? y)))))))).

Lemma chain_eq_vals : forall s isne a b x y, intok x -> intok y ->
  eval_impl v s a = Ok (dint x) -> eval_impl v s b = Ok (dint y) ->
  chain_eq s isne a b = Ok (dint (b2z (xorb isne (x =? y)))).
Proof.
  intros s isne a b x y Hx Hy Ea Eb. unfold chain_eq. rewrite Ea, Eb. simpl bind.
  rewrite !andb_true_r. destruct (x =? y) eqn:E.
  - destruct isne; reflexivity.
  - rewrite !to_int_dint by assumption. simpl. rewrite E. reflexivity.
Qed.

Lemma eq_agrees : forall s (isne : bool) a b ra rb,
  agrees ra (eval_impl v s a) -> agrees rb (eval_impl v s b) ->
  agrees (cseq ra rb (c_binop (if isne then PML_NE else PML_EQ))) (chain_eq s isne a b).
Proof.
  intros s isne a b ra rb Aa Ab.
  assert (Hok : okint (eval_impl v s a) -> okint (eval_impl v s b) -> okint (chain_eq s isne a b)).
  { intros [[x [Ea Hx]]|Ea] Kb.
    - destruct Kb as [[y [Eb Hy]]|Eb].
      + rewrite (chain_eq_vals s isne a b x y Hx Hy Ea Eb). left. eexists. split; [reflexivity|apply b2z_in_int].
      + unfold chain_eq. rewrite Ea, Eb. right. reflexivity.
    - unfold chain_eq. rewrite Ea. right. reflexivity. }
  destruct ra as [x| | |]; simpl in Aa.
  - destruct Aa as [Ea Hx].
    destruct rb as [y| | |]; simpl in Ab.
    + destruct Ab as [Eb Hy]. rewrite (chain_eq_vals s isne a b x y Hx Hy Ea Eb).
      destruct isne; simpl; (split; [|apply b2z_in_int]).
      * reflexivity.
      * destruct (x =? y); reflexivity.
    + unfold chain_eq. rewrite Ea, Ab. destruct isne; reflexivity.
    + elim Ab.
    + assert (K : okint (chain_eq s isne a b)).
      { apply Hok; [left; exists x; split; assumption|exact Ab]. }
      destruct isne; exact K.
  - unfold chain_eq. rewrite Aa. destruct rb; simpl in *; try (destruct isne; reflexivity). elim Ab.
  - elim Aa.
  - assert (K : okint (chain_eq s isne a b)).
    { apply Hok; [exact Aa|eapply agrees_okint; exact Ab]. }
    destruct rb; simpl in *; try (destruct isne; exact K). elim Ab.
Qed.

Definition chain_logic (s : store) (isand : bool) (a b : expr) : outcome data :=
  bind (eval_impl v s a) (fun l => bind (data_to_bool l) (fun tl =>
    if Bool.eqb tl isand
    then bind (eval_impl v s b) (fun r => bind (data_to_bool r) (fun tr => Ok (dint (b2z tr))))
    else Ok (dint (b2z tl)))).

Lemma okint_logic_rhs : forall s b, okint (eval_impl v s b) ->
  okint (bind (eval_impl v s b) (fun r => bind (data_to_bool r) (fun tr => Ok (dint (b2z tr))))).
Proof.
  intros s b [[y [Eb Hy]]|Eb]; rewrite Eb; simpl; [|right; reflexivity].
  rewrite to_bool_dint by exact Hy. simpl. left. eexists. split; [reflexivity|apply b2z_in_int].
Qed.

Lemma logic_agrees : forall s cs (isand : bool) a b,
  agrees (c_eval cs a) (eval_impl v s a) -> agrees (c_eval cs b) (eval_impl v s b) ->
  agrees (c_eval cs (EBin (if isand then PML_AND else PML_OR) a b)) (chain_logic s isand a b).
Proof.
  intros s cs isand a b Aa Ab. unfold chain_logic.
  assert (Hc : c_eval cs (EBin (if isand then PML_AND else PML_OR) a b) =
    match c_eval cs a with
    | CVal x => if Bool.eqb (negb (x =? 0)) isand
                then match c_eval cs b with CVal y => CVal (b2z (negb (y =? 0))) | r => r end
                else CVal (b2z (negb (x =? 0)))
    | r => r
    end).
  { destruct isand; simpl; destruct (c_eval cs a) as [x| | |]; try reflexivity; destruct (x =? 0); reflexivity. }
  rewrite Hc. clear Hc.
  destruct (c_eval cs a) as [x| | |]; simpl in Aa.
  - destruct Aa as [Ea Hx]. rewrite Ea. simpl. rewrite to_bool_dint by exact Hx. simpl.
    destruct (Bool.eqb (negb (x =? 0)) isand).
    + destruct (c_eval cs b) as [y| | |]; simpl in Ab.
      * destruct Ab as [Eb Hy]. rewrite Eb. simpl. rewrite to_bool_dint by exact Hy. simpl.
        split; [reflexivity|apply b2z_in_int].
      * rewrite Ab. reflexivity.
      * elim Ab.
      * apply okint_logic_rhs. exact Ab.
    + simpl. split; [reflexivity|apply b2z_in_int].
  - rewrite Aa. reflexivity.
  - elim Aa.
  - destruct Aa as [[x [Ea Hx]]|Ea]; rewrite Ea; simpl; [|right; reflexivity].
    rewrite to_bool_dint by exact Hx. simpl.
    destruct (Bool.eqb (negb (x =? 0)) isand).
    + apply okint_logic_rhs. eapply agrees_okint; exact Ab.
    + left. eexists. split; [reflexivity|apply b2z_in_int].
Qed.

Lemma nth_error_map_dint : forall zs k, (k < length zs)%nat ->
  nth_error (map dint zs) k = Some (dint (nth k zs 0)).
Proof.
  induction zs as [|z zs IH]; intros k H; simpl in H; [lia|].
  destruct k; simpl; [reflexivity|]. apply IH. lia.
Qed.

Lemma get_idx_array : forall s x p zs k, st_get s x = Some p -> var_abs p (CArray zs) -> intok k ->
  if (0 <=? k) && (k <? Z.of_nat (length zs))
  then get_idx v s x k = Ok (dint (nth (Z.to_nat k) zs 0)) /\ intok (nth (Z.to_nat k) zs 0)
  else get_idx v s x k = ErrEvent.
Proof.
  intros s x p zs k Hs [Hsz [Harr Hall]] Hk. unfold get_idx. rewrite Hs, Hsz.
  destruct ((0 <=? k) && (k <? Z.of_nat (length zs))) eqn:E.
  - apply andb_prop in E. destruct E as [E1 E2]. apply Z.leb_le in E1. apply Z.ltb_lt in E2.
    destruct (Z.of_nat (length zs) <=? k) eqn:E3; [apply Z.leb_le in E3; lia|].
    unfold arr_at. rewrite Hidx, Harr, map_length. simpl.
    destruct (k <? 0) eqn:E4; [apply Z.ltb_lt in E4; lia|]. rewrite E3. simpl.
    rewrite nth_error_map_dint by lia. split; [reflexivity|].
    rewrite Forall_forall in Hall. apply Hall. apply nth_In. lia.
  - destruct (Z.of_nat (length zs) <=? k) eqn:E3; [reflexivity|].
    apply Z.leb_gt in E3. unfold arr_at. rewrite Hidx, Harr, map_length. simpl.
    destruct (k <? 0) eqn:E4; [reflexivity|]. apply Z.ltb_ge in E4.
    apply andb_false_iff in E. destruct E as [E|E]; [apply Z.leb_gt in E|apply Z.ltb_ge in E]; lia.
Qed.

Theorem eval_correct_lemma : forall s cs e, store_abs s cs -> wt cs e = true ->
  agrees (c_eval cs e) (eval_impl v s e).
Proof.
  intros s cs e HS. induction e as [n|b|x|x i IHi|x f fs|u a IHa|o a IHa b IHb]; intros W; simpl in W.
  - (* EConst *) simpl. rewrite W. simpl. apply Z.leb_le in W.
    rewrite Z.min_l by exact W. split; [reflexivity|]. apply in_int_iff. unfold int_max in W. lia.
  - simpl. split; [reflexivity|apply b2z_in_int].
  - (* EVar *) simpl. destruct (cs_get cs x) as [[z|zs|fl]|] eqn:E; try discriminate.
    destruct (HS _ _ E) as [p [Hp [_ [Hv Hz]]]]. unfold get_name. rewrite Hp, Hv. split; [reflexivity|exact Hz].
  - (* EIdx *) simpl. destruct (cs_get cs x) as [[z|zs|fl]|] eqn:E; try discriminate.
    destruct (HS _ _ E) as [p [Hp Hab]]. specialize (IHi W).
    destruct (c_eval cs i) as [k| | |]; simpl in IHi.
    + destruct IHi as [Ei Hk]. rewrite Ei. simpl. rewrite to_int_dint by exact Hk. simpl.
      pose proof (get_idx_array s x p zs k Hp Hab Hk) as G.
      destruct ((0 <=? k) && (k <? Z.of_nat (length zs))); simpl; exact G.
    + rewrite IHi. reflexivity.
    + elim IHi.
    + destruct IHi as [[k [Ei Hk]]|Ei]; rewrite Ei; simpl; [|right; reflexivity].
      rewrite to_int_dint by exact Hk. simpl.
      pose proof (get_idx_array s x p zs k Hp Hab Hk) as G.
      destruct ((0 <=? k) && (k <? Z.of_nat (length zs))).
      * left. eexists. exact G.
      * right. exact G.
  - (* EFld *) simpl. destruct (cs_get cs x) as [[z|zs|fl]|] eqn:E; try discriminate.
    destruct (fs_get fl (f :: fs)) as [z|] eqn:F; [|discriminate].
    destruct (HS _ _ E) as [p [Hp [_ Hab]]]. destruct (Hab _ _ F) as [G Hz].
    unfold get_fld. rewrite Hp, G. split; [reflexivity|exact Hz].
  - (* EUn *) specialize (IHa W). destruct u; simpl.
    + destruct (c_eval cs a) as [x| | |]; simpl in IHa.
      * destruct IHa as [Ea Hx]. rewrite Ea. simpl. rewrite to_bool_dint by exact Hx. simpl.
        rewrite Bool.negb_involutive. split; [reflexivity|apply b2z_in_int].
      * rewrite IHa. reflexivity.
      * elim IHa.
      * destruct IHa as [[x [Ea Hx]]|Ea]; rewrite Ea; simpl; [|right; reflexivity].
        rewrite to_bool_dint by exact Hx. simpl. left. eexists. split; [reflexivity|apply b2z_in_int].
    + rewrite (Hh PML_MINUS eq_refl).
      destruct (c_eval cs a) as [x| | |]; simpl in IHa.
      * destruct IHa as [Ea Hx]. rewrite Ea. simpl. rewrite to_int_dint by exact Hx. simpl. rewrite Hum.
        split; [reflexivity|apply wrap_in_int].
      * rewrite IHa. reflexivity.
      * elim IHa.
      * destruct IHa as [[x [Ea Hx]]|Ea]; rewrite Ea; simpl; [|right; reflexivity].
        rewrite to_int_dint by exact Hx. simpl. rewrite Hum. left. eexists. split; [reflexivity|apply wrap_in_int].
  - (* EBin *)
    apply andb_prop in W. destruct W as [W Wb]. apply andb_prop in W. destruct W as [Wo Wa].
    specialize (IHa Wa). specialize (IHb Wb). pose proof (Hh o Wo) as Ho.
    destruct (is_arith o) eqn:Har.
    + rewrite (eval_bin_arith s o a b Har Ho).
      rewrite c_eval_bin_strict by (intros C; subst; discriminate).
      apply arith_agrees; assumption.
    + destruct o; try discriminate.
      * (* OR *) change (eval_impl v s (EBin PML_OR a b)) with
          (if negb (pv_handles v PML_OR) then ErrEvent else
           if pv_no_short_circuit v then
             bind (eval_impl v s a) (fun l => bind (eval_impl v s b) (fun r =>
             bind (data_to_bool l) (fun tl => bind (data_to_bool r) (fun tr => Ok (dint (b2z (tl || tr)))))))
           else chain_logic s false a b).
        rewrite Ho, Hsc. simpl negb. cbv iota. apply (logic_agrees s cs false a b IHa IHb).
      * (* AND *) change (eval_impl v s (EBin PML_AND a b)) with
          (if negb (pv_handles v PML_AND) then ErrEvent else
           if pv_no_short_circuit v then
             bind (eval_impl v s a) (fun l => bind (eval_impl v s b) (fun r =>
             bind (data_to_bool l) (fun tl => bind (data_to_bool r) (fun tr => Ok (dint (b2z (tl && tr)))))))
           else chain_logic s true a b).
        rewrite Ho, Hsc. simpl negb. cbv iota. apply (logic_agrees s cs true a b IHa IHb).
      * (* EQ *) change (eval_impl v s (EBin PML_EQ a b)) with
          (if negb (pv_handles v PML_EQ) then ErrEvent else chain_eq s false a b).
        rewrite Ho. simpl negb. cbv iota.
        rewrite c_eval_bin_strict by discriminate. apply (eq_agrees s false a b _ _ IHa IHb).
      * (* NE *) change (eval_impl v s (EBin PML_NE a b)) with
          (if negb (pv_handles v PML_NE) then ErrEvent else chain_eq s true a b).
        rewrite Ho. simpl negb. cbv iota.
        rewrite c_eval_bin_strict by discriminate. apply (eq_agrees s true a b _ _ IHa IHb).
Qed.
End EvalCorrect.

(* ================================================================================================ *)
(* The store reads back what was written                                                              *)
(* ================================================================================================ *)
Lemma beq_bytes_eq : forall a b, beq_bytes a b = true -> a = b.
Proof.
  induction a as [|x a IH]; destruct b as [|y b]; simpl; intros H; try discriminate; [reflexivity|].
  apply andb_prop in H. destruct H as [H1 H2]. apply N.eqb_eq in H1. subst. f_equal. apply IH. exact H2.
Qed.
Lemma beq_bytes_sym : forall a b, beq_bytes a b = beq_bytes b a.
Proof.
  induction a as [|x a IH]; destruct b as [|y b]; simpl; try reflexivity.
  rewrite N.eqb_sym, IH. reflexivity.
Qed.

Lemma st_get_set_same : forall s x p, st_get (st_set s x p) x = Some p.
Proof.
  induction s as [|[y w] r IH]; intros x p; simpl.
  - rewrite beq_bytes_refl. reflexivity.
  - destruct (beq_bytes x y) eqn:E; simpl.
    + rewrite beq_bytes_refl. reflexivity.
    + rewrite E. apply IH.
Qed.
Lemma st_get_set_other : forall s x y p, beq_bytes y x = false -> st_get (st_set s x p) y = st_get s y.
Proof.
  induction s as [|[z w] r IH]; intros x y p H; simpl.
  - rewrite H. reflexivity.
  - destruct (beq_bytes x z) eqn:E; simpl.
    + apply beq_bytes_eq in E. subst. rewrite H. reflexivity.
    + destruct (beq_bytes y z); [reflexivity|]. apply IH. exact H.
Qed.

Lemma cmp_get_set_same : forall c k d, cmp_get k (cmp_set k d c) = Some d.
Proof.
  induction c as [|[k' d'] r IH]; intros k d; simpl.
  - rewrite beq_bytes_refl. reflexivity.
  - destruct (beq_bytes k k') eqn:E; simpl.
    + rewrite beq_bytes_refl. reflexivity.
    + destruct (bytes_ltb k k'); simpl.
      * rewrite beq_bytes_refl. reflexivity.
      * rewrite E. apply IH.
Qed.
Lemma cmp_get_set_other : forall c k j d, beq_bytes j k = false -> cmp_get j (cmp_set k d c) = cmp_get j c.
Proof.
  induction c as [|[k' d'] r IH]; intros k j d H; simpl.
  - rewrite H. reflexivity.
  - destruct (beq_bytes k k') eqn:E; simpl.
    + apply beq_bytes_eq in E. subst. rewrite H. reflexivity.
    + destruct (bytes_ltb k k'); simpl.
      * rewrite H. reflexivity.
      * destruct (beq_bytes j k'); [reflexivity|]. apply IH. exact H.
Qed.

Lemma get_set_path_same : forall path val d, get_path (set_path path val d) path = Some val.
Proof.
  induction path as [|k r IH]; intros val d; simpl; [reflexivity|].
  destruct d as [a l c]. simpl. rewrite cmp_get_set_same. apply IH.
Qed.

(* the paths part at some component: neither is a prefix of the other *)
Fixpoint diverge (p q : list bytes) : bool :=
  match p, q with
  | a :: p', b :: q' => if beq_bytes a b then diverge p' q' else true
  | _, _ => false
  end.

Lemma get_set_path_frame : forall p q val d, diverge p q = true ->
  get_path (set_path p val d) q = get_path d q.
Proof.
  induction p as [|a p' IH]; intros q val d H; simpl in H; [discriminate|].
  destruct q as [|b q']; [discriminate|].
  destruct d as [at_ l c]. simpl.
  destruct (beq_bytes a b) eqn:E.
  - apply beq_bytes_eq in E. subst b. rewrite cmp_get_set_same.
    destruct (cmp_get a c) as [sub|] eqn:G.
    + apply IH. exact H.
    + rewrite IH by exact H. destruct q' as [|b' q'']; [destruct p'; discriminate|]. reflexivity.
  - rewrite cmp_get_set_other by (rewrite beq_bytes_sym; exact E). reflexivity.
Qed.

Lemma nth_error_list_set_same : forall (A : Type) (l : list A) k x, (k < length l)%nat ->
  nth_error (list_set l k x) k = Some x.
Proof.
  induction l as [|y l IH]; intros k x H; simpl in H; [lia|].
  destruct k; simpl; [reflexivity|]. apply IH. lia.
Qed.
Lemma nth_error_list_set_other : forall (A : Type) (l : list A) k j x, j <> k ->
  nth_error (list_set l k x) j = nth_error l j.
Proof.
  induction l as [|y l IH]; intros k j x H; simpl; [destruct k; reflexivity|].
  destruct k; destruct j; simpl; try reflexivity; try congruence. apply IH. congruence.
Qed.
Lemma length_list_set : forall (A : Type) (l : list A) k x, length (list_set l k x) = length l.
Proof. induction l as [|y l IH]; intros k x; simpl; [destruct k; reflexivity|]. destruct k; simpl; [reflexivity|]. rewrite IH. reflexivity. Qed.

Theorem store_raw_field_lemma : forall v s x p f fs val,
  st_get s x = Some p -> v_size p = None ->
  exists s', set_lval v s (LFld x f fs) val = (s', Ok tt) /\
    get_fld s' x (f :: fs) = Ok val /\
    (forall y q, beq_bytes y x = false -> get_fld s' y q = get_fld s y q) /\
    (pv_field_meta_clobber v = false -> forall q, diverge (f :: fs) q = true -> get_fld s' x q = get_fld s x q).
Proof.
  intros v s x p f fs val Hs Hz. unfold set_lval. rewrite Hs, Hz.
  eexists. split; [reflexivity|]. split; [|split].
  - unfold get_fld. rewrite st_get_set_same. cbn [v_val]. rewrite get_set_path_same. reflexivity.
  - intros y q H. unfold get_fld. rewrite st_get_set_other by exact H. reflexivity.
  - intros Hc q D. unfold get_fld. rewrite st_get_set_same, Hs. cbn [v_val]. rewrite Hc.
    rewrite get_set_path_frame by exact D. reflexivity.
Qed.

Theorem store_raw_array_lemma : forall v s x p n k val i e,
  st_get s x = Some p -> v_size p = Some n ->
  eval_impl v s e = Ok val -> eval_impl v s i = Ok (dint k) -> intok k ->
  0 <= k -> k < n -> k < Z.of_nat (length (d_arr (v_val p))) ->
  exists s', exec_stmt v s (SAsgn (LIdx x i) e) = (s', Ok tt) /\
    (forall j, get_idx v s' x j = if j =? k then Ok val else get_idx v s x j) /\
    (forall y j, beq_bytes y x = false -> get_idx v s' y j = get_idx v s y j).
Proof.
  intros v s x p n k val i e Hs Hn He Hi Hk H0 H1 H2.
  unfold exec_stmt. rewrite He. unfold set_lval. rewrite Hs, Hn, Hi. simpl bind.
  rewrite to_int_dint by exact Hk.
  destruct (n <=? k) eqn:E1; [apply Z.leb_le in E1; lia|].
  assert (Hat : exists d0, arr_at v (d_arr (v_val p)) k = Ok d0).
  { unfold arr_at.
    destruct (k <? 0) eqn:E2; [apply Z.ltb_lt in E2; lia|].
    destruct (Z.of_nat (length (d_arr (v_val p))) <=? k) eqn:E3; [apply Z.leb_le in E3; lia|].
    rewrite andb_false_r.
    destruct (nth_error (d_arr (v_val p)) (Z.to_nat k)) eqn:E4; [eexists; reflexivity|].
    apply nth_error_None in E4. lia. }
  destruct Hat as [d0 Hat]. rewrite Hat.
  destruct (v_val p) as [a arr c] eqn:Hv. simpl in H2, Hat.
  eexists. split; [reflexivity|]. split.
  - intros j. unfold get_idx. rewrite st_get_set_same, Hs, Hn, Hv. cbn [v_size v_val d_arr].
    destruct (j =? k) eqn:Ej.
    + apply Z.eqb_eq in Ej. subst j. rewrite E1. unfold arr_at. rewrite length_list_set.
      destruct (k <? 0) eqn:E2; [apply Z.ltb_lt in E2; lia|].
      destruct (Z.of_nat (length arr) <=? k) eqn:E3; [apply Z.leb_le in E3; lia|].
      rewrite andb_false_r. rewrite nth_error_list_set_same by lia. reflexivity.
    + apply Z.eqb_neq in Ej. destruct (n <=? j); [reflexivity|].
      unfold arr_at. rewrite length_list_set.
      destruct (negb (pv_index_unguarded v) && ((j <? 0) || (Z.of_nat (length arr) <=? j))); [reflexivity|].
      destruct (j <? 0) eqn:E2; [reflexivity|]. apply Z.ltb_ge in E2.
      rewrite nth_error_list_set_other by lia. reflexivity.
  - intros y j H. unfold get_idx. rewrite st_get_set_other by exact H. reflexivity.
Qed.

(* the pinned code loses a field named "type" (or "vis") at the next field write *)
Definition kx : bytes := [120%N].
Definition kf : bytes := [102%N].
Lemma field_clobber_refuted_lemma :
  let s0 := fst (exec_decl pml_pinned [] (DVar kx)) in
  let s1 := fst (exec_stmt pml_pinned s0 (SAsgn (LFld kx k_type []) (EConst 3))) in
  let s2 := fst (exec_stmt pml_pinned s1 (SAsgn (LFld kx kf []) (EConst 4))) in
  eval_impl pml_pinned s1 (EFld kx k_type []) = Ok (dint 3) /\
  eval_impl pml_pinned s2 (EFld kx k_type []) = Ok (Data ACompound [] []) /\
  diverge [kf] [k_type] = true.
Proof. vm_compute. repeat split; reflexivity. Qed.

(* ---- statements: no crash other than the uninitialised read of ++/-- ---- *)
Section NoCrashStmt.
Variable v : pml_variant.
Hypothesis Hum : pv_uminus_crash v = false.
Hypothesis Hdiv : pv_div_unguarded v = false.
Hypothesis Hidx : pv_index_unguarded v = false.

Lemma nocrash_set_lval : forall s l val, nocrash (snd (set_lval v s l val)).
Proof.
  intros s l val. destruct l as [x|x i|x f fs]; simpl.
  - destruct (st_get s x) as [p|]; simpl; [|exact I]. destruct (v_size p); simpl; [|exact I].
    destruct (_ || _); simpl; [exact I|]. destruct (_ <? _); simpl; exact I.
  - destruct (st_get s x) as [p|]; simpl; [|exact I]. destruct (v_size p) as [n|]; simpl; [|exact I].
    pose proof (eval_no_crash_nc v Hum Hdiv Hidx s i) as N1.
    destruct (eval_impl v s i) as [di| |w]; simpl; [|exact I|elim N1].
    pose proof (nocrash_to_int di) as N2.
    destruct (data_to_int di) as [k| |w]; simpl; [|exact I|elim N2].
    destruct (n <=? k); simpl; [exact I|].
    pose proof (nocrash_arr_at v Hidx (d_arr (v_val p)) k) as N3.
    destruct (arr_at v (d_arr (v_val p)) k) as [d0| |w]; simpl; [|exact I|elim N3].
    destruct (v_val p); simpl. exact I.
  - destruct (st_get s x) as [p|]; simpl; [|exact I]. destruct (v_size p); simpl; exact I.
Qed.

Lemma nocrash_get_lval : forall s l, nocrash (get_lval v s l).
Proof.
  intros s l. destruct l as [x|x i|x f fs]; simpl.
  - apply nocrash_get_name.
  - apply nocrash_bind; [apply eval_no_crash_nc; assumption|]. intros di.
    apply nocrash_bind; [apply nocrash_to_int|]. intros k. apply nocrash_get_idx. exact Hidx.
  - apply nocrash_get_fld.
Qed.

Theorem exec_no_crash_lemma : forall s,
  (forall st w, snd (exec_stmt v s st) = Crash w -> w = crash_uninit) /\
  (forall d w, snd (exec_decl v s d) <> Crash w).
Proof.
  intros s. split.
  - intros st w H. destruct st as [l e|l|l]; simpl in H.
    + pose proof (eval_no_crash_nc v Hum Hdiv Hidx s e) as N.
      destruct (eval_impl v s e) as [val| |w']; simpl in H; [|discriminate|elim N].
      pose proof (nocrash_set_lval s l val) as N2. rewrite H in N2. elim N2.
    + unfold exec_incr in H. pose proof (nocrash_get_lval s l) as N.
      destruct (get_lval v s l) as [cur| |w']; simpl in H; [|discriminate|elim N].
      destruct (data_to_long cur).
      * pose proof (nocrash_set_lval s l (dint (z + 1))) as N2. rewrite H in N2. elim N2.
      * pose proof (nocrash_set_lval s l (dint 0)) as N2.
        destruct (set_lval v s l (dint 0)) as [s' [u| |w']]; simpl in *; [|discriminate|elim N2].
        inversion H. reflexivity.
    + unfold exec_incr in H. pose proof (nocrash_get_lval s l) as N.
      destruct (get_lval v s l) as [cur| |w']; simpl in H; [|discriminate|elim N].
      destruct (data_to_long cur).
      * pose proof (nocrash_set_lval s l (dint (z + -1))) as N2. rewrite H in N2. elim N2.
      * pose proof (nocrash_set_lval s l (dint 0)) as N2.
        destruct (set_lval v s l (dint 0)) as [s' [u| |w']]; simpl in *; [|discriminate|elim N2].
        inversion H. reflexivity.
  - intros d w H. destruct d as [x|x e|x n]; simpl in H; try discriminate.
    pose proof (eval_no_crash_nc v Hum Hdiv Hidx s e) as N.
    destruct (eval_impl v s e) as [val| |w']; simpl in H; try discriminate. elim N.
Qed.
End NoCrashStmt.

(* ---- the pinned evaluator crashes, and misses operators of the property's set ---- *)
Definition ka : bytes := [97%N].
Definition s_arr2 : store := fst (exec_decl pml_pinned [] (DArr ka 2)).
Definition minus1 : expr := EBin PML_MINUS (EConst 0) (EConst 1).

Lemma pinned_crash_refuted_lemma :
  eval_impl pml_pinned [] (EBin PML_DIVIDE (EConst 7) (EConst 0)) = Crash crash_fpe /\
  eval_impl pml_pinned [] (EBin PML_MODULO (EConst 7) (EConst 0)) = Crash crash_fpe /\
  eval_impl pml_pinned [] (EBin PML_DIVIDE (EBin PML_MINUS (EBin PML_MINUS (EConst 0) (EConst 2147483647)) (EConst 1)) minus1)
    = Crash crash_fpe /\
  eval_impl pml_pinned [] (EUn UMinus (EConst 5)) = Crash crash_segv /\
  eval_impl pml_pinned s_arr2 (EIdx ka minus1) = Crash crash_alloc /\
  c_eval [] (EBin PML_DIVIDE (EConst 7) (EConst 0)) = CFault /\
  c_eval [] (EUn UMinus (EConst 5)) = CVal (-5).
Proof. vm_compute. repeat split; reflexivity. Qed.

Lemma pinned_eval_refuted_lemma :
  wt [] (EBin PML_NE (EConst 3) (EConst 4)) = true /\
  c_eval [] (EBin PML_NE (EConst 3) (EConst 4)) = CVal 1 /\
  eval_impl pml_pinned [] (EBin PML_NE (EConst 3) (EConst 4)) = ErrEvent /\
  (* no short circuit *)
  c_eval [] (EBin PML_AND (EConst 0) (EBin PML_DIVIDE (EConst 1) (EConst 0))) = CVal 0 /\
  eval_impl pml_pinned [] (EBin PML_AND (EConst 0) (EBin PML_DIVIDE (EConst 1) (EConst 0))) = Crash crash_fpe /\
  eval_impl {| pv_handles := in_scope; pv_uminus_crash := false; pv_div_unguarded := false;
               pv_index_unguarded := false; pv_no_short_circuit := true; pv_field_meta_clobber := false;
               pv_undeclared_false := false; pv_ord_rtl := false |} []
    (EBin PML_AND (EConst 0) (EBin PML_DIVIDE (EConst 1) (EConst 0))) = ErrEvent /\
  (* an undeclared name evaluates *)
  c_eval [] (EVar ka) = CIll /\ eval_impl pml_pinned [] (EVar ka) = Ok (Data AFalse [] []).
Proof. vm_compute. repeat split; reflexivity. Qed.

Lemma all_ops_fixed_lemma : forall o, in_scope o = true -> pv_handles pml_fixed o = true.
Proof. intros o H. exact H. Qed.

Lemma fixed_switches_off : eval_switches_off pml_fixed.
Proof. unfold eval_switches_off. simpl. repeat split; auto. Qed.

(* satisfiability of the hypotheses of eval_correct: a store and the state it represents *)
Definition ex_store : store :=
  fst (exec_stmt pml_fixed (fst (exec_decl pml_fixed (fst (exec_decl pml_fixed [] (DInit ka (EConst 7))))
        (DArr kx 2))) (SAsgn (LIdx kx (EConst 1)) (EConst 5))).
Definition ex_cstate : cstate := [(ka, CScalar 7); (kx, CArray [0; 5])].
Lemma ex_store_abs : store_abs ex_store ex_cstate.
Proof.
  intros y c H. unfold ex_cstate in H. simpl in H.
  destruct (beq_bytes y ka) eqn:E1.
  - inversion H; subst. apply beq_bytes_eq in E1. subst. eexists. split; [vm_compute; reflexivity|].
    simpl. repeat split; reflexivity.
  - destruct (beq_bytes y kx) eqn:E2; [|discriminate].
    inversion H; subst. apply beq_bytes_eq in E2. subst. eexists. split; [vm_compute; reflexivity|].
    simpl. repeat split. repeat constructor.
Qed.
Lemma ex_wt : wt ex_cstate (EBin PML_PLUS (EVar ka) (EIdx kx (EConst 1))) = true.
Proof. reflexivity. Qed.

(* ================================================================================================ *)
(* Verdict on an arbitrary (e.g. the generated) variant vector                                        *)
(* ================================================================================================ *)
Definition okintb (o : outcome data) : bool :=
  match o with
  | Ok (Data (AInt z) [] []) => in_int z
  | ErrEvent => true
  | _ => false
  end.
Definition agreesb (r : cres) (o : outcome data) : bool :=
  match r, o with
  | CVal z, Ok d => data_eqb d (dint z) && in_int z
  | CFault, ErrEvent => true
  | CUnspec, _ => okintb o
  | _, _ => false
  end.

Lemma data_eqb_refl_dint : forall z, data_eqb (dint z) (dint z) = true.
Proof. intros z. rewrite data_eqb_dint. apply Z.eqb_refl. Qed.

Lemma agrees_agreesb : forall r o, agrees r o -> agreesb r o = true.
Proof.
  intros r o H. destruct r as [z| | |]; simpl in H.
  - destruct H as [E Hz]. subst o. unfold agreesb. rewrite data_eqb_refl_dint, Hz. reflexivity.
  - subst o. reflexivity.
  - elim H.
  - destruct H as [[z [E Hz]]|E]; subst o; simpl; [exact Hz|reflexivity].
Qed.

Definition eval_switches_offb (v : pml_variant) : bool :=
  forallb (fun o => implb (in_scope o) (pv_handles v o)) all_binops &&
  negb (pv_uminus_crash v) && negb (pv_div_unguarded v) && negb (pv_index_unguarded v) &&
  negb (pv_no_short_circuit v) && negb (pv_ord_rtl v).

Lemma eval_switches_offb_sound : forall v, eval_switches_offb v = true -> eval_switches_off v.
Proof.
  intros v H. unfold eval_switches_offb in H.
  do 5 (apply andb_prop in H; destruct H as [H ?]).
  repeat match goal with X : negb _ = true |- _ => apply Bool.negb_true_iff in X end.
  unfold eval_switches_off. repeat split; try assumption.
  intros o Ho. rewrite forallb_forall in H. specialize (H o (all_binops_complete o)).
  rewrite Ho in H. exact H.
Qed.

Definition cs_arr2 : cstate := [(ka, CArray [0; 0])].
Definition c n := EConst n.
Definition eval_witnesses : list (store * cstate * expr) :=
  map (fun o => ([], [], EBin o (c 6) (c 3))) (filter in_scope all_binops) ++
  [ ([], [], EUn UMinus (c 5));
    ([], [], EBin PML_DIVIDE (c 7) (c 0));
    ([], [], EBin PML_MODULO (c 7) (c 0));
    (s_arr2, cs_arr2, EIdx ka minus1);
    ([], [], EBin PML_AND (c 0) (EBin PML_DIVIDE (c 1) (c 0)));
    ([], [], EBin PML_OR (c 1) (EBin PML_DIVIDE (c 1) (c 0)));
    ([], [], EBin PML_MINUS (c 10) (c 3));
    ([], [], EBin PML_LT (c 10) (c 3)) ].

Lemma store_abs_nil : forall s, store_abs s [].
Proof. intros s x cv H. discriminate. Qed.
Lemma s_arr2_abs : store_abs s_arr2 cs_arr2.
Proof.
  intros y cv H. unfold cs_arr2 in H. simpl in H.
  destruct (beq_bytes y ka) eqn:E; [|discriminate]. inversion H; subst. apply beq_bytes_eq in E. subst.
  eexists. split; [vm_compute; reflexivity|]. simpl. repeat split. repeat constructor.
Qed.

Lemma eval_witnesses_ok :
  Forall (fun w => match w with (s, cs, e) => store_abs s cs /\ wt cs e = true end) eval_witnesses.
Proof.
  unfold eval_witnesses. simpl.
  repeat (apply Forall_cons; [first [ split; [apply store_abs_nil|reflexivity] | split; [apply s_arr2_abs|reflexivity] ] |]).
  apply Forall_nil.
Qed.

Definition find_bad (v : pml_variant) : option (store * cstate * expr) :=
  find (fun w => match w with (s, cs, e) => negb (agreesb (c_eval cs e) (eval_impl v s e)) end) eval_witnesses.

Definition variant_verdictb (v : pml_variant) : bool :=
  match find_bad v with Some _ => true | None => eval_switches_offb v end.

Definition variant_verdict (v : pml_variant) : Prop :=
  match find_bad v with
  | Some (s, cs, e) => store_abs s cs /\ wt cs e = true /\ ~ agrees (c_eval cs e) (eval_impl v s e)
  | None => (forall s cs e, store_abs s cs -> wt cs e = true -> agrees (c_eval cs e) (eval_impl v s e)) /\
            (forall s e w, eval_impl v s e <> Crash w)
  end.

Lemma variant_verdict_sound : forall v, variant_verdictb v = true -> variant_verdict v.
Proof.
  intros v H. unfold variant_verdictb, variant_verdict in *.
  destruct (find_bad v) as [[[s cs] e]|] eqn:E.
  - apply find_some in E. destruct E as [Hin Hb].
    pose proof eval_witnesses_ok as F. rewrite Forall_forall in F. specialize (F _ Hin). simpl in F.
    destruct F as [F1 F2]. split; [exact F1|]. split; [exact F2|].
    intros A. apply agrees_agreesb in A. rewrite A in Hb. discriminate.
  - apply eval_switches_offb_sound in H. split.
    + intros s cs e. apply eval_correct_lemma. exact H.
    + destruct H as (_ & H1 & H2 & H3 & _). apply eval_no_crash_lemma; assumption.
Qed.

Lemma gen_variant_verdict_lemma : variant_verdict gen_variant.
Proof. apply variant_verdict_sound. vm_compute. reflexivity. Qed.

Lemma fixed_variant_verdict : find_bad pml_fixed = None /\ find_bad pml_pinned <> None.
Proof. split; vm_compute; [reflexivity|discriminate]. Qed.

(* ================================================================================================ *)
(* exec_correct: assignments and declarations of the repaired code follow the reference store         *)
(* ================================================================================================ *)
Lemma cs_get_set_same : forall cs x c, cs_get (cs_set cs x c) x = Some c.
Proof.
  induction cs as [|[y w] r IH]; intros x c; simpl.
  - rewrite beq_bytes_refl. reflexivity.
  - destruct (beq_bytes x y) eqn:E; simpl; [rewrite beq_bytes_refl; reflexivity|]. rewrite E. apply IH.
Qed.
Lemma cs_get_set_other : forall cs x y c, beq_bytes y x = false -> cs_get (cs_set cs x c) y = cs_get cs y.
Proof.
  induction cs as [|[z w] r IH]; intros x y c H; simpl.
  - rewrite H. reflexivity.
  - destruct (beq_bytes x z) eqn:E; simpl.
    + apply beq_bytes_eq in E. subst. rewrite H. reflexivity.
    + destruct (beq_bytes y z); [reflexivity|]. apply IH. exact H.
Qed.

Lemma store_abs_set : forall s cs x p c, store_abs s cs -> var_abs p c ->
  store_abs (st_set s x p) (cs_set cs x c).
Proof.
  intros s cs x p c HS HV y c' H.
  destruct (beq_bytes y x) eqn:E.
  - apply beq_bytes_eq in E. subst y. rewrite cs_get_set_same in H. inversion H; subst.
    exists p. split; [apply st_get_set_same|exact HV].
  - rewrite cs_get_set_other in H by exact E. rewrite st_get_set_other by exact E. apply HS. exact H.
Qed.

(* declaring a name the reference state does not know keeps the representation of all others *)
Lemma store_abs_set_fresh : forall s cs x p, store_abs s cs -> cs_get cs x = None -> store_abs (st_set s x p) cs.
Proof.
  intros s cs x p HS HN y c' H.
  destruct (beq_bytes y x) eqn:E.
  - apply beq_bytes_eq in E. subst y. rewrite HN in H. discriminate.
  - rewrite st_get_set_other by exact E. apply HS. exact H.
Qed.

Lemma path_eqb_eq : forall p q, path_eqb p q = true -> p = q.
Proof.
  induction p as [|a p IH]; destruct q as [|b q]; simpl; intros H; try discriminate; [reflexivity|].
  apply andb_prop in H. destruct H as [H1 H2]. apply beq_bytes_eq in H1. subst. f_equal. apply IH. exact H2.
Qed.

Lemma not_prefix_diverge : forall p q, path_prefix p q = false -> path_prefix q p = false -> diverge p q = true.
Proof.
  induction p as [|a p IH]; intros q H1 H2; [discriminate|].
  destruct q as [|b q]; [discriminate|]. simpl in *.
  destruct (beq_bytes a b) eqn:E.
  - rewrite beq_bytes_sym, E in H2. simpl in *. apply IH; assumption.
  - reflexivity.
Qed.

Lemma fs_get_filter : forall (f : list bytes -> bool) l q z,
  fs_get (filter (fun qz => f (fst qz)) l) q = Some z -> fs_get l q = Some z /\ f q = true.
Proof.
  induction l as [|[q' z'] r IH]; intros q z H; simpl in *; [discriminate|].
  destruct (f q') eqn:F; simpl in H.
  - destruct (path_eqb q q') eqn:E.
    + inversion H; subst. apply path_eqb_eq in E. subst. split; [reflexivity|exact F].
    + apply IH. exact H.
  - destruct (path_eqb q q') eqn:E.
    + apply path_eqb_eq in E. subst. apply IH in H. destruct H as [_ H]. rewrite H in F. discriminate.
    + apply IH. exact H.
Qed.

Lemma map_dint_list_set : forall zs k z, list_set (map dint zs) k (dint z) = map dint (list_set zs k z).
Proof.
  induction zs as [|y zs IH]; intros k z; simpl; [destruct k; reflexivity|].
  destruct k; simpl; [reflexivity|]. rewrite IH. reflexivity.
Qed.
Lemma Forall_list_set : forall (A : Type) (P : A -> Prop) l k x, Forall P l -> P x -> Forall P (list_set l k x).
Proof.
  induction l as [|y l IH]; intros k x HF Hx; simpl; [destruct k; constructor|].
  inversion HF; subst. destruct k; simpl; constructor; auto.
Qed.

Definition wt_lval (cs : cstate) (l : lval) : bool :=
  match l with
  | LVar x => match cs_get cs x with Some (CScalar _) => true | _ => false end
  | LIdx x i => match cs_get cs x with Some (CArray _) => wt cs i | _ => false end
  | LFld x _ _ => match cs_get cs x with Some (CScalar _) | Some (CStruct _) => true | _ => false end
  end.

Section ExecCorrect.
Variable v : pml_variant.
Hypothesis Hoff : eval_switches_off v.
Hypothesis Hmeta : pv_field_meta_clobber v = false.

Let Hidx : pv_index_unguarded v = false := proj1 (proj2 (proj2 (proj2 Hoff))).

(* assignment of an int to a well-typed l-value: same verdict, and the stores stay related *)
Lemma assign_correct : forall s cs l z, store_abs s cs -> wt_lval cs l = true -> intok z ->
  match c_assign cs l z with
  | (cs', COk) => exists s', set_lval v s l (dint z) = (s', Ok tt) /\ store_abs s' cs'
  | (cs', CSFault) => set_lval v s l (dint z) = (s, ErrEvent) /\ cs' = cs
  | (_, CSUnspec) => True
  | (_, CSIll) => False
  end.
Proof.
  intros s cs l z HS W Hz. destruct l as [x|x i|x f fs]; simpl in W.
  - (* LVar *)
    simpl. destruct (cs_get cs x) as [[z0|zs|fl]|] eqn:E; try discriminate.
    destruct (HS _ _ E) as [p [Hp [Hsz _]]]. rewrite Hp, Hsz.
    eexists. split; [reflexivity|]. apply store_abs_set; [exact HS|]. simpl. repeat split. exact Hz.
  - (* LIdx *)
    simpl c_assign. destruct (cs_get cs x) as [[z0|zs|fl]|] eqn:E; try discriminate.
    destruct (HS _ _ E) as [p [Hp Hab]]. pose proof Hab as [Hsz [Harr Hall]].
    pose proof (eval_correct_lemma v Hoff s cs i HS W) as Ai.
    unfold set_lval. rewrite Hp, Hsz.
    destruct (c_eval cs i) as [k| | |]; simpl in Ai.
    + destruct Ai as [Ei Hk]. rewrite Ei. simpl bind. rewrite to_int_dint by exact Hk.
      destruct ((0 <=? k) && (k <? Z.of_nat (length zs))) eqn:R.
      * apply andb_prop in R. destruct R as [R1 R2]. apply Z.leb_le in R1. apply Z.ltb_lt in R2.
        destruct (Z.of_nat (length zs) <=? k) eqn:E3; [apply Z.leb_le in E3; lia|].
        assert (Hat : exists d0, arr_at v (d_arr (v_val p)) k = Ok d0).
        { unfold arr_at. rewrite Hidx, Harr, map_length. simpl.
          destruct (k <? 0) eqn:E4; [apply Z.ltb_lt in E4; lia|]. rewrite E3. simpl.
          rewrite nth_error_map_dint by lia. eexists. reflexivity. }
        destruct Hat as [d0 Hat]. rewrite Hat.
        destruct (v_val p) as [a arr c0] eqn:Hv. simpl in Harr. subst arr.
        eexists. split; [reflexivity|].
        apply store_abs_set; [exact HS|]. simpl. rewrite length_list_set. split; [reflexivity|].
        split; [apply map_dint_list_set|]. apply Forall_list_set; assumption.
      * split; [|reflexivity].
        destruct (Z.of_nat (length zs) <=? k) eqn:E3; [reflexivity|]. apply Z.leb_gt in E3.
        unfold arr_at. rewrite Hidx, Harr, map_length. simpl.
        destruct (k <? 0) eqn:E4; [reflexivity|]. apply Z.ltb_ge in E4.
        apply andb_false_iff in R. destruct R as [R|R]; [apply Z.leb_gt in R|apply Z.ltb_ge in R]; lia.
    + rewrite Ai. simpl. split; reflexivity.
    + elim Ai.
    + exact I.
  - (* LFld *)
    simpl c_assign. destruct (cs_get cs x) as [[z0|zs|fl]|] eqn:E; try discriminate.
    + destruct (HS _ _ E) as [p [Hp [Hsz [Hv _]]]]. unfold set_lval. rewrite Hp, Hsz, Hmeta.
      eexists. split; [reflexivity|]. apply store_abs_set; [exact HS|]. unfold var_abs. cbn [v_size v_val].
      split; [reflexivity|].
      intros q z' Hq. cbn [fs_get fst snd] in Hq. destruct (path_eqb q (f :: fs)) eqn:Eq; [|discriminate].
      inversion Hq; subst. apply path_eqb_eq in Eq. subst q. split; [apply get_set_path_same|exact Hz].
    + destruct (HS _ _ E) as [p [Hp [Hsz Hfl]]]. unfold set_lval. rewrite Hp, Hsz, Hmeta.
      eexists. split; [reflexivity|]. apply store_abs_set; [exact HS|]. unfold var_abs. cbn [v_size v_val].
      split; [reflexivity|].
      intros q z' Hq. unfold fs_set in Hq. cbn [fs_get fst snd] in Hq.
      destruct (path_eqb q (f :: fs)) eqn:Eq.
      * inversion Hq; subst. apply path_eqb_eq in Eq. subst q. split; [apply get_set_path_same|exact Hz].
      * apply (fs_get_filter (fun q' => negb (path_prefix (f :: fs) q' || path_prefix q' (f :: fs)))) in Hq.
        destruct Hq as [Hq Hn]. apply Bool.negb_true_iff in Hn. apply orb_false_iff in Hn. destruct Hn as [N1 N2].
        destruct (Hfl _ _ Hq) as [G Hz']. split; [|exact Hz'].
        rewrite get_set_path_frame by (apply not_prefix_diverge; assumption). exact G.
Qed.

Theorem exec_stmt_correct_lemma : forall s cs l e, store_abs s cs -> wt cs e = true -> wt_lval cs l = true ->
  match c_exec_stmt cs (SAsgn l e) with
  | (cs', COk) => exists s', exec_stmt v s (SAsgn l e) = (s', Ok tt) /\ store_abs s' cs'
  | (cs', CSFault) => exec_stmt v s (SAsgn l e) = (s, ErrEvent) /\ cs' = cs
  | (_, CSUnspec) => True
  | (_, CSIll) => False
  end.
Proof.
  intros s cs l e HS We Wl. pose proof (eval_correct_lemma v Hoff s cs e HS We) as Ae.
  unfold c_exec_stmt, exec_stmt.
  destruct (c_eval cs e) as [z| | |]; simpl in Ae.
  - destruct Ae as [Ee Hz]. rewrite Ee. apply assign_correct; assumption.
  - rewrite Ae. pose proof (assign_correct s cs l 0 HS Wl eq_refl) as A0.
    destruct (c_assign cs l 0) as [cs0 [ | | | ]]; simpl; try (split; reflexivity). elim A0.
  - elim Ae.
  - exact I.
Qed.

Theorem exec_decl_correct_lemma : forall s cs d, store_abs s cs ->
  match d with DInit _ e => wt cs e = true | _ => True end ->
  match c_exec_decl cs d with
  | (cs', COk) => exists s', exec_decl v s d = (s', Ok tt) /\ store_abs s' cs'
  | (cs', CSFault) => exists s', exec_decl v s d = (s', ErrEvent) /\ store_abs s' cs' /\ cs' = cs
  | (_, CSUnspec) => True
  | (_, CSIll) => False
  end.
Proof.
  intros s cs d HS W. destruct d as [x|x e|x n]; simpl.
  - destruct (cs_get cs x) eqn:E; [exact I|].
    eexists. split; [reflexivity|]. apply store_abs_set; [exact HS|]. simpl. repeat split.
  - destruct (cs_get cs x) eqn:E; [exact I|].
    pose proof (eval_correct_lemma v Hoff s cs e HS W) as Ae.
    destruct (c_eval cs e) as [z| | |]; simpl in Ae.
    + destruct Ae as [Ee Hz]. rewrite Ee. eexists. split; [reflexivity|].
      apply store_abs_set; [exact HS|]. simpl. repeat split. exact Hz.
    + rewrite Ae. simpl. eexists. split; [reflexivity|]. split; [|reflexivity].
      apply store_abs_set_fresh; assumption.
    + elim Ae.
    + exact I.
  - destruct (cs_get cs x) eqn:E; [exact I|].
    destruct (n =? 0)%N eqn:En; [exact I|].
    eexists. split; [reflexivity|]. apply store_abs_set; [exact HS|]. simpl.
    rewrite repeat_length. split; [rewrite N_nat_Z; reflexivity|]. split.
    + clear. induction (N.to_nat n); simpl; [reflexivity|]. rewrite IHn0. reflexivity.
    + clear. induction (N.to_nat n); simpl; constructor; [reflexivity|assumption].
Qed.
End ExecCorrect.
