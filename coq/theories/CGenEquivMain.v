(* CGenEquivMain.v -- C04: the statements of props/Properties_C04.v about the behaviour of the emitted uscxml_step(),
   in the form they are stated there (relations unfolded into what they say), and the composition with the engine
   equivalence of C03 (EngineEquivMain.v): along guarded runs the generated machine behaves like the interpreter's
   DEFAULT engine (LargeMicroStep).  Proofs only. *)
From V Require Import Base NameMatch Chart Exec Large LargeLemmas Fast Interp Legal SetLemmas LegalAbstract LegalLarge LegalRun
                      WfCore CGen CGenLemmas SerializeCodecLemmas
                      LegalHistBase LegalHistEntry LegalHistStep LegalHistRun LegalHistWf LegalHistFastRun LegalHistCore
                      EngineEquivStep EngineEquivRun EngineEquivMain
                      CGenEquivContent CGenEquivEntry CGenEquivStep CGenEquivMicro CGenEquivRun.
Local Open Scope nat_scope.

(* what is compared of an engine state and an execution state *)
Definition same_machine_state (lc lf : lstate) : Prop :=
  l_cfg lc = l_cfg lf /\ l_hist lc = l_hist lf /\ l_tlf lc = l_tlf lf /\ l_fin lc = l_fin lf.
Definition same_queues_and_events (x : cx) (y : xstate) : Prop :=
  cx_iq x = map ev_name (x_iq y) /\ cx_eq x = map ev_name (x_eq y) /\
  filter_map cview (cx_out x) = filter_map fview (x_out y).

Lemma lsame_unfold lc lf : lsame lc lf -> same_machine_state lc lf.
Proof. exact (fun h => h). Qed.
Lemma csim_unfold x y : csim x y -> same_queues_and_events x y.
Proof. intros [A B C _ _]. unfold same_queues_and_events. auto. Qed.

(* ---- ESTABLISH_ENTRY_SET, statically ---- *)
Lemma cstep_equiv_entry_set_lemma cv c cfg evn hist :
  wf_coreb c = true -> LegalCfg c cfg ->
  let sel := cselect_all c cfg evn in
  cremember cv c cfg (cexitset c cfg sel) hist = fremember c cfg (cexitset c cfg sel) hist /\
  centry_set cv c cfg (cexitset c cfg sel) hist (ctargets c sel) sel =
  fentry_set c cfg (cexitset c cfg sel) hist (ctargets c sel) sel.
Proof.
  intros H Hleg. cbv zeta. split; [now apply cremember_core|].
  apply (entry_set_sel cv c H cfg _ Hleg). unfold cselect_all. apply cselect_src. intros ti [].
Qed.

Lemma cstep_equiv_entry_set_initial_lemma cv c hist :
  wf_coreb c = true -> fs_type (st c 0) = FCompound ->
  centry_set cv c [] [] hist (fs_completion (st c 0)) [] = fentry_set c [] [] hist (fs_completion (st c 0)) [].
Proof. intros H Hr. now apply entry_set_init. Qed.

(* ---- EXIT_STATES / TAKE_TRANSITIONS / ENTER_STATES ---- *)
Lemma cstep_equiv_exit_take_enter_lemma cv xv c :
  cg_tlf_first_byte cv = false -> wf_coreb c = true -> chart_c c = true ->
  forall lc lf x y targets exitset sel (initial : bool),
    same_machine_state lc lf -> csim x y ->
    (initial = false -> cremember cv c (l_cfg lc) exitset (l_hist lc) = fremember c (l_cfg lc) exitset (l_hist lc)) ->
    centry_set cv c (l_cfg lc) exitset (if initial then l_hist lc else fremember c (l_cfg lc) exitset (l_hist lc)) targets sel =
    fentry_set c (l_cfg lc) exitset (if initial then l_hist lc else fremember c (l_cfg lc) exitset (l_hist lc)) targets sel ->
    let r1 := cmicrostep cv c lc x targets exitset sel initial in
    let r2 := fmicrostep xv c lf y targets exitset sel initial in
    same_machine_state (fst r1) (fst r2) /\ csim (snd r1) (snd r2).
Proof.
  intros Ht H Hc lc lf x y tg ex sel ini L R Hr He. cbv zeta.
  destruct (microstep_sim cv xv c Ht (core_anc_sorted c H) (core_anc_bounded c H) Hc lc lf x y tg ex sel ini L R Hr He) as (A & B & _). auto.
Qed.

(* ---- one call that takes transitions ---- *)
Lemma cstep_microstep_equiv_lemma cv xv c :
  cg_tlf_first_byte cv = false -> wf_coreb c = true -> chart_c c = true ->
  forall lc lf x y (ev : option event),
    same_machine_state lc lf -> csim x y -> LegalCfg c (l_cfg lf) ->
    cselect_all c (l_cfg lc) (option_map ev_name ev) <> [] ->
    let r1 := cfire cv c lc x (cselect_all c (l_cfg lc) (option_map ev_name ev)) in
    let r2 := fselect_and_step xv c lf y ev in
    same_machine_state (fst (fst r1)) (fst (fst r2)) /\ csim (snd (fst r1)) (snd (fst r2)) /\
    snd r1 = C_ERR_OK /\ snd r2 = RC_MICROSTEPPED.
Proof.
  intros Ht H Hc lc lf x y ev L R Hl Hne. cbv zeta.
  exact (cfire_core cv xv c Ht H Hc lc lf x y ev L R Hl Hne).
Qed.

(* ---- the first call ---- *)
Lemma cstep_initial_equiv_lemma cv xv c :
  cg_tlf_first_byte cv = false -> wf_coreb c = true -> fs_type (st c 0) = FCompound -> chart_c c = true ->
  let r1 := cgen_step cv c l_pristine cx_init in
  let r2 := fast_step xv c l_pristine x_init in
  same_machine_state (fst (fst r1)) (fst (fst r2)) /\ csim (snd (fst r1)) (snd (fst r2)) /\
  snd r1 = C_ERR_OK /\ snd r2 = RC_MICROSTEPPED.
Proof.
  intros Ht H Hr Hc. cbv zeta.
  destruct (cinitial_sim cv xv c Ht (core_anc_sorted c H) (core_anc_bounded c H) Hc (core_entry0 cv c H Hr)
              l_pristine l_pristine cx_init x_init) as (A & B & _).
  - unfold lsame. auto.
  - constructor; cbn; auto.
  - reflexivity.
  - apply HistOK_nil.
  - unfold cgen_step, fast_step. cbn [l_pristine l_fin l_tlf is_pristine l_spont l_init l_stable orb negb].
    destruct (cmicrostep cv c l_pristine cx_init _ [] [] true) as [l1 x1].
    destruct (fmicrostep xv c l_pristine (emit TMsB x_init) _ [] [] true) as [l2 y2]. cbn [fst snd] in *. auto.
Qed.

(* ---- whole runs against the fast engine ---- *)
Lemma cstep_run_equiv_lemma cv xv c :
  cg_tlf_first_byte cv = false -> wf_coreb c = true -> fs_type (st c 0) = FCompound -> chart_c c = true ->
  forall n evs, Forall (fun e => e <> []) evs ->
  exists m,
    let rc := crun_loop cv c n l_pristine cx_init evs in
    let rf := run_loop c lstate (fast_step xv c) l_cfg m l_pristine x_init evs in
    same_machine_state (fst rc) (fst rf) /\ same_queues_and_events (snd rc) (snd rf).
Proof.
  intros Ht H Hr Hc n evs Hev. destruct (crun_lemma cv xv c Ht H Hr Hc n evs Hev) as (m & A & B).
  exists m. cbv zeta. split; [exact A|now apply csim_unfold].
Qed.

(* ---- whole runs against the default engine ---- *)
Lemma eq_chartb_core c : eq_chartb c = true -> wf_coreb c = true /\ fs_type (st c 0) = FCompound.
Proof. intros E. destruct (eq_chartb_parts c E) as (A & B & _). auto. Qed.

Lemma cstep_run_equals_default_engine_partial_lemma cv xv c :
  cg_tlf_first_byte cv = false -> eq_chartb c = true -> chart_c c = true ->
  forall evs, Forall (fun e => e <> []) evs ->
  (forall m, eq_guard_run xv c m l_pristine x_init evs = true) ->
  forall n, exists m,
    let rc := crun_loop cv c n l_pristine cx_init evs in
    let rl := run_loop c lstate (large_step lg_fixed xv c) l_cfg m l_pristine x_init evs in
    same_machine_state (fst rc) (fst rl) /\ same_queues_and_events (snd rc) (snd rl).
Proof.
  intros Ht He Hc evs Hev Hg n. destruct (eq_chartb_core c He) as [H Hr].
  destruct (cstep_run_equiv_lemma cv xv c Ht H Hr Hc n evs Hev) as (m & A & B). cbv zeta in A, B.
  destruct (fast_large_run_equiv_lemma xv c m evs He (Hg m)) as [(E1 & E2 & _ & _ & _ & E6 & E7 & _) E]. exists m. cbv zeta.
  rewrite <- E. split; [|exact B]. destruct A as (A1 & A2 & A3 & A4). unfold same_machine_state. repeat split; congruence.
Qed.

(* the same for the one number of steps that matters: the guard needs to hold along the default engine's run of
   exactly the length that corresponds to the calls of uscxml_step() *)
Lemma cstep_run_equals_default_engine_pointwise_lemma cv xv c :
  cg_tlf_first_byte cv = false -> eq_chartb c = true -> chart_c c = true ->
  forall evs, Forall (fun e => e <> []) evs ->
  forall n, exists m,
    eq_guard_run xv c m l_pristine x_init evs = true ->
    let rc := crun_loop cv c n l_pristine cx_init evs in
    let rl := run_loop c lstate (large_step lg_fixed xv c) l_cfg m l_pristine x_init evs in
    same_machine_state (fst rc) (fst rl) /\ same_queues_and_events (snd rc) (snd rl).
Proof.
  intros Ht He Hc evs Hev n. destruct (eq_chartb_core c He) as [H Hr].
  destruct (cstep_run_equiv_lemma cv xv c Ht H Hr Hc n evs Hev) as (m & A & B). cbv zeta in A, B.
  exists m. intros Hg.
  destruct (fast_large_run_equiv_lemma xv c m evs He Hg) as [(E1 & E2 & _ & _ & _ & E6 & E7 & _) E]. cbv zeta.
  rewrite <- E. split; [|exact B]. destruct A as (A1 & A2 & A3 & A4). unfold same_machine_state. repeat split; congruence.
Qed.
