(* ValidateLegal.v -- hasLegalCompletion and legal configurations (SCXML 1.0, 3.11) of an element tree:
   the repaired pairwise test accepts a set of target states exactly when some legal configuration
   contains all of them. *)
From V Require Import Base Validate ValidateLemmas.
Local Open Scope nat_scope.

(* ------------------------------------------------------------------ paths *)

Lemma is_desc_spec x q : is_desc x q = true <-> exists r, r <> [] /\ x = r ++ q.
Proof.
  induction x as [|a x IH]; simpl.
  - split; [discriminate|]. intros (r & Hr & H). destruct r; [congruence|discriminate].
  - rewrite orb_true_iff, ptr_eqb_eq, IH. split.
    + intros [->|(r & Hr & ->)].
      * exists [a]. split; [discriminate|reflexivity].
      * exists (a :: r). split; [discriminate|reflexivity].
    + intros (r & Hr & H). destruct r as [|b r]; [congruence|]. simpl in H. inversion H; subst.
      destruct r as [|c r]; [left; reflexivity|right]. exists (c :: r). split; [discriminate|reflexivity].
Qed.

Lemma sibling_disjoint r1 r2 n m (p : ptr) : r1 ++ n :: p = r2 ++ m :: p -> n = m /\ r1 = r2.
Proof.
  intros H. apply (f_equal (@rev nat)) in H. rewrite !rev_app_distr in H. simpl in H.
  rewrite <- !app_assoc in H. apply app_inv_head in H. simpl in H. inversion H; subst.
  split; auto. apply (f_equal (@rev nat)) in H2. rewrite !rev_involutive in H2. exact H2.
Qed.

Lemma app_neq_self {A} (r p : list A) : r <> [] -> r ++ p <> p.
Proof.
  intros Hr H. apply (f_equal (@length A)) in H. rewrite app_length in H. destruct r; [congruence|simpl in H; lia].
Qed.

Lemma in_cfg_In cfg p : in_cfg cfg p = true <-> In p cfg.
Proof.
  unfold in_cfg. rewrite existsb_exists. split.
  - intros (x & Hx & E). apply ptr_eqb_eq in E. subst. exact Hx.
  - intros H. exists p. split; auto. apply ptr_eqb_refl.
Qed.

Lemma in_cfg_false cfg p : in_cfg cfg p = false <-> ~ In p cfg.
Proof. rewrite <- in_cfg_In. destruct (in_cfg cfg p); split; intros; try congruence; exfalso; auto. Qed.

(* ------------------------------------------------------------------ inactive sub-trees *)

Lemma forallb_mapi {A} (F : nat -> A -> bool) l : forall i,
  forallb (fun b => b) (mapi_from F i l) = true <-> forall n k, nth_error l n = Some k -> F (i + n) k = true.
Proof.
  intros i. rewrite forallb_forall. split.
  - intros H n k Hn. apply H. apply In_mapi_from. exists n, k. auto.
  - intros H b Hb. apply In_mapi_from in Hb as (n & k & Hn & ->). apply H. auto.
Qed.

Lemma sub_inactive_unfold cfg p t a kids :
  sub_inactive cfg p (GNode t a kids) = true <->
  in_cfg cfg p = false /\ forall n k, nth_error kids n = Some k -> sub_inactive cfg (n :: p) k = true.
Proof.
  cbn [sub_inactive]. rewrite andb_true_iff, negb_true_iff, forallb_mapi. simpl. tauto.
Qed.

Lemma sub_inactive_desc cfg d : forall p anc, sub_inactive cfg p d = true ->
  forall e, In e (desc_from p anc d) -> in_cfg cfg (e_path e) = false.
Proof.
  induction d as [t a kids IH] using gdoc_ind'. intros p anc H e He.
  apply sub_inactive_unfold in H as [H0 Hk].
  apply In_desc_from in He as [->|(n & k & Hn & He)]; auto.
  rewrite Forall_forall in IH. eapply IH; eauto. eapply nth_error_In; eauto.
Qed.

Lemma sub_inactive_intro cfg d : forall p, (forall r, in_cfg cfg (r ++ p) = false) -> sub_inactive cfg p d = true.
Proof.
  induction d as [t a kids IH] using gdoc_ind'. intros p H.
  apply sub_inactive_unfold. split; [apply (H [])|]. intros n k Hn.
  rewrite Forall_forall in IH. apply IH; [eapply nth_error_In; eauto|].
  intros r. replace (r ++ n :: p) with ((r ++ [n]) ++ p) by (rewrite <- app_assoc; reflexivity). apply H.
Qed.

(* ------------------------------------------------------------------ sub_legal, unfolded *)

Definition kid_ok (cfg : list ptr) (t : gtag) (q : ptr) (k : gdoc) : Prop :=
  if is_proper_tag (g_tag k)
  then match t with
       | GParallel => in_cfg cfg q = true /\ sub_legal cfg q k = true
       | _ => if in_cfg cfg q then sub_legal cfg q k = true else sub_inactive cfg q k = true
       end
  else sub_inactive cfg q k = true.

Definition one_kid (t : gtag) : bool := match t with GParallel | GFinal => false | _ => true end.

Definition kinfo (cfg : list ptr) (p : ptr) (i : nat) (k : gdoc) :=
  (i :: p, k, sub_legal cfg (i :: p) k, sub_inactive cfg (i :: p) k).

Lemma sub_legal_unfold cfg p t a kids :
  sub_legal cfg p (GNode t a kids) =
  let ks := mapi_from (kinfo cfg p) 0 kids in
  let proper := filter (fun x => is_proper_tag (g_tag (snd (fst (fst x))))) ks in
  let pseudo := filter (fun x => negb (is_proper_tag (g_tag (snd (fst (fst x)))))) ks in
  let active := filter (fun x => in_cfg cfg (fst (fst (fst x)))) proper in
  in_cfg cfg p && is_proper_tag t && forallb (fun x => snd x) pseudo &&
  match t with
  | GParallel => forallb (fun x => in_cfg cfg (fst (fst (fst x))) && snd (fst x)) proper
  | GFinal => forallb (fun x => if in_cfg cfg (fst (fst (fst x))) then snd (fst x) else snd x) proper
  | _ => match proper with
         | [] => true
         | _ => (length active =? 1) &&
                forallb (fun x => if in_cfg cfg (fst (fst (fst x))) then snd (fst x) else snd x) proper
         end
  end.
Proof. reflexivity. Qed.

Lemma forallb_filter_mapi {A B} (F : nat -> A -> B) (g f : B -> bool) l :
  forallb f (filter g (mapi_from F 0 l)) = true <->
  forall n k, nth_error l n = Some k -> g (F n k) = true -> f (F n k) = true.
Proof.
  rewrite forallb_forall. split.
  - intros H n k Hn Hg. apply H. apply filter_In. split; auto. apply In_mapi_from. exists n, k. auto.
  - intros H x Hx. apply filter_In in Hx as [Hx Hg]. apply In_mapi_from in Hx as (n & k & Hn & ->). apply H; auto.
Qed.

(* what a legal sub-tree gives *)
Lemma sub_legal_elim cfg p t a kids :
  sub_legal cfg p (GNode t a kids) = true ->
  in_cfg cfg p = true /\ is_proper_tag t = true /\
  (forall n k, nth_error kids n = Some k -> kid_ok cfg t (n :: p) k) /\
  (one_kid t = true -> forall n m k k', nth_error kids n = Some k -> nth_error kids m = Some k' ->
     is_proper_tag (g_tag k) = true -> is_proper_tag (g_tag k') = true ->
     in_cfg cfg (n :: p) = true -> in_cfg cfg (m :: p) = true -> n = m).
Proof.
  rewrite sub_legal_unfold. cbv zeta. intros H.
  apply andb_true_iff in H as [H Htag]. apply andb_true_iff in H as [H Hps]. apply andb_true_iff in H as [H0 Hpr].
  split; auto. split; auto.
  rewrite forallb_filter_mapi in Hps.
  assert (forall n k, nth_error kids n = Some k -> is_proper_tag (g_tag k) = true ->
          match t with
          | GParallel => in_cfg cfg (n :: p) = true /\ sub_legal cfg (n :: p) k = true
          | _ => if in_cfg cfg (n :: p) then sub_legal cfg (n :: p) k = true else sub_inactive cfg (n :: p) k = true
          end) as Hproper.
  { intros n k Hn Hk.
    destruct t; try (destruct (filter _ _) eqn:Ef;
      [ exfalso; assert (In (kinfo cfg p n k) []) as Hin by
          (rewrite <- Ef; apply filter_In; split; [apply In_mapi_from; exists n, k; auto|exact Hk]); exact Hin
      | rewrite <- Ef in Htag; apply andb_true_iff in Htag as [_ Htag]; rewrite forallb_filter_mapi in Htag;
        specialize (Htag n k Hn Hk); cbn in Htag; destruct (in_cfg cfg (n :: p)); exact Htag ]).
    - rewrite forallb_filter_mapi in Htag. specialize (Htag n k Hn Hk). cbn in Htag.
      apply andb_true_iff in Htag. exact Htag.
    - rewrite forallb_filter_mapi in Htag. specialize (Htag n k Hn Hk). cbn in Htag.
      destruct (in_cfg cfg (n :: p)); exact Htag. }
  split.
  - intros n k Hn. unfold kid_ok. destruct (is_proper_tag (g_tag k)) eqn:Hk; [apply Hproper; auto|].
    specialize (Hps n k Hn). cbn in Hps. rewrite Hk in Hps. apply Hps. reflexivity.
  - intros Hone n m k k' Hn Hm Hk Hk' Hin Him.
    assert (exists x, filter (fun x => in_cfg cfg (fst (fst (fst x))))
                             (filter (fun x => is_proper_tag (g_tag (snd (fst (fst x))))) (mapi_from (kinfo cfg p) 0 kids)) = [x])
      as (x & Hx).
    { destruct t; simpl in Hone; try discriminate;
        (destruct (filter (fun x => is_proper_tag _) _) eqn:Ef;
         [ exfalso; assert (In (kinfo cfg p n k) []) as Hin' by
             (rewrite <- Ef; apply filter_In; split; [apply In_mapi_from; exists n, k; auto|exact Hk]); exact Hin'
         | apply andb_true_iff in Htag as [Hlen _]; apply Nat.eqb_eq in Hlen;
           destruct (filter (fun x => in_cfg cfg _) _) as [|x [|y r]]; simpl in Hlen; try discriminate; exists x; reflexivity ]). }
    assert (forall j kj, nth_error kids j = Some kj -> is_proper_tag (g_tag kj) = true -> in_cfg cfg (j :: p) = true ->
            kinfo cfg p j kj = x) as Huniq.
    { intros j kj Hj Hkj Hinj.
      assert (In (kinfo cfg p j kj) [x]) as Hin'.
      { rewrite <- Hx. apply filter_In. split; [|exact Hinj]. apply filter_In. split; [|exact Hkj].
        apply In_mapi_from. exists j, kj. auto. }
      destruct Hin' as [E|[]]. auto. }
    pose proof (Huniq n k Hn Hk Hin) as E1. pose proof (Huniq m k' Hm Hk' Him) as E2.
    rewrite <- E2 in E1. unfold kinfo in E1. inversion E1. reflexivity.
Qed.

Lemma filter_filter' {A} (f g : A -> bool) l : filter f (filter g l) = filter (fun x => g x && f x) l.
Proof. induction l as [|x l IH]; simpl; auto. destruct (g x); simpl; [destruct (f x)|]; rewrite IH; reflexivity. Qed.

Lemma filter_mapi_nil {A B} (F : nat -> A -> B) (h : B -> bool) l : forall i,
  (forall n k, nth_error l n = Some k -> h (F (i + n) k) = false) -> filter h (mapi_from F i l) = [].
Proof.
  induction l as [|x l IH]; intros i H; simpl; auto.
  pose proof (H 0 x eq_refl) as H0. rewrite Nat.add_0_r in H0. rewrite H0. apply IH.
  intros n k Hn. replace (S i + n) with (i + S n) by lia. apply H. exact Hn.
Qed.

Lemma filter_mapi_single {A B} (F : nat -> A -> B) (h : B -> bool) l : forall i n0 k0,
  nth_error l n0 = Some k0 ->
  (forall n k, nth_error l n = Some k -> h (F (i + n) k) = true -> n = n0) ->
  h (F (i + n0) k0) = true -> filter h (mapi_from F i l) = [F (i + n0) k0].
Proof.
  induction l as [|x l IH]; intros i n0 k0 Hn0 Huniq Hh; [destruct n0; discriminate|].
  destruct n0 as [|n1]; simpl in Hn0.
  - inversion Hn0; subst. cbn [mapi_from filter]. rewrite Nat.add_0_r in Hh. rewrite Hh, Nat.add_0_r. f_equal.
    apply filter_mapi_nil. intros n k Hn. destruct (h (F (S i + n) k)) eqn:E; auto.
    exfalso. specialize (Huniq (S n) k Hn). replace (i + S n) with (S i + n) in Huniq by lia.
    specialize (Huniq E). discriminate.
  - cbn [mapi_from filter].
    destruct (h (F i x)) eqn:E.
    + exfalso. specialize (Huniq 0 x eq_refl). rewrite Nat.add_0_r in Huniq. specialize (Huniq E). discriminate.
    + replace (i + S n1) with (S i + n1) by lia. apply IH; auto.
      * intros n k Hn Hk. specialize (Huniq (S n) k Hn). replace (i + S n) with (S i + n) in Huniq by lia.
        specialize (Huniq Hk). lia.
      * replace (S i + n1) with (i + S n1) by lia. exact Hh.
Qed.

Lemma sub_legal_intro cfg p t a kids :
  in_cfg cfg p = true -> is_proper_tag t = true ->
  (forall n k, nth_error kids n = Some k -> kid_ok cfg t (n :: p) k) ->
  (one_kid t = true ->
     (forall n k, nth_error kids n = Some k -> is_proper_tag (g_tag k) = false) \/
     exists n0 k0, nth_error kids n0 = Some k0 /\ is_proper_tag (g_tag k0) = true /\ in_cfg cfg (n0 :: p) = true /\
       forall m k', nth_error kids m = Some k' -> is_proper_tag (g_tag k') = true -> in_cfg cfg (m :: p) = true -> m = n0) ->
  sub_legal cfg p (GNode t a kids) = true.
Proof.
  intros H0 Ht Hk Hone. rewrite sub_legal_unfold. cbv zeta. rewrite H0, Ht. cbn [andb].
  assert (forallb (fun x => snd x)
            (filter (fun x => negb (is_proper_tag (g_tag (snd (fst (fst x)))))) (mapi_from (kinfo cfg p) 0 kids)) = true) as Hps.
  { apply forallb_filter_mapi. intros n k Hn Hg. cbn in *. apply negb_true_iff in Hg.
    specialize (Hk n k Hn). unfold kid_ok in Hk. rewrite Hg in Hk. exact Hk. }
  rewrite Hps. cbn [andb].
  assert (forall n k, nth_error kids n = Some k -> is_proper_tag (g_tag k) = true ->
          match t with GParallel => True | _ =>
            (if in_cfg cfg (n :: p) then sub_legal cfg (n :: p) k else sub_inactive cfg (n :: p) k) = true end) as Hgen.
  { intros n k Hn Hg. specialize (Hk n k Hn). unfold kid_ok in Hk. rewrite Hg in Hk.
    destruct t; auto; destruct (in_cfg cfg (n :: p)); exact Hk. }
  assert (forallb (fun x => if in_cfg cfg (fst (fst (fst x))) then snd (fst x) else snd x)
            (filter (fun x => is_proper_tag (g_tag (snd (fst (fst x))))) (mapi_from (kinfo cfg p) 0 kids)) = true \/ t = GParallel) as Hall.
  { destruct t; try (left; apply forallb_filter_mapi; intros n k Hn Hg; cbn in *; exact (Hgen n k Hn Hg)). right; reflexivity. }
  assert (one_kid t = true ->
          match filter (fun x => is_proper_tag (g_tag (snd (fst (fst x))))) (mapi_from (kinfo cfg p) 0 kids) with
          | [] => true
          | _ => (length (filter (fun x => in_cfg cfg (fst (fst (fst x))))
                    (filter (fun x => is_proper_tag (g_tag (snd (fst (fst x))))) (mapi_from (kinfo cfg p) 0 kids))) =? 1) &&
                 forallb (fun x => if in_cfg cfg (fst (fst (fst x))) then snd (fst x) else snd x)
                   (filter (fun x => is_proper_tag (g_tag (snd (fst (fst x))))) (mapi_from (kinfo cfg p) 0 kids))
          end = true) as Hcomp.
  { intros Ho. destruct (Hone Ho) as [Hnone|(n0 & k0 & Hn0 & Hp0 & Hin0 & Huniq)].
    - rewrite (filter_mapi_nil (kinfo cfg p)); auto.
    - destruct Hall as [Hall|Et]; [|subst t; discriminate]. rewrite Hall, andb_true_r.
      assert (length (filter (fun x => in_cfg cfg (fst (fst (fst x))))
                    (filter (fun x => is_proper_tag (g_tag (snd (fst (fst x))))) (mapi_from (kinfo cfg p) 0 kids))) = 1) as Hlen.
      { rewrite filter_filter'. erewrite filter_mapi_single; [reflexivity|exact Hn0| |].
        - intros n k Hn Hh. cbn in Hh. apply andb_true_iff in Hh as [H1 H2]. eapply Huniq; eauto.
        - cbn. rewrite Hp0, Hin0. reflexivity. }
      rewrite Hlen. match goal with |- match ?X with _ => _ end = true => destruct X; reflexivity end. }
  destruct t; try (apply Hcomp; reflexivity).
  - apply forallb_filter_mapi. intros n k Hn Hg. cbn in *. specialize (Hk n k Hn). unfold kid_ok in Hk. rewrite Hg in Hk.
    destruct Hk as [-> ->]. reflexivity.
  - destruct Hall as [Hall|E]; [exact Hall|discriminate].
Qed.

(* ------------------------------------------------------------------ a legal configuration's members are compatible *)

Lemma ancestors_shape d : forall p anc e, In e (desc_from p anc d) ->
  exists inner, ancestors_el e = inner ++ ancestors_from p anc /\ forall a, In a inner -> exists r, e_path a = r ++ p.
Proof.
  induction d as [t a kids IH] using gdoc_ind'. intros p anc e He.
  apply In_desc_from in He as [->|(n & k & Hn & He)].
  - exists []. split; [reflexivity|]. intros ? [].
  - rewrite Forall_forall in IH. destruct (IH k (nth_error_In _ _ Hn) _ _ _ He) as (inner & Hi & Hp).
    exists (inner ++ [{| e_path := p; e_node := GNode t a kids; e_anc := anc |}]). split.
    + rewrite Hi. cbn [ancestors_from tl]. rewrite <- app_assoc. reflexivity.
    + intros x Hx. apply in_app_or in Hx as [Hx|[<-|[]]].
      * destruct (Hp x Hx) as (r & ->). exists (r ++ [n]). rewrite <- app_assoc. reflexivity.
      * exists []. reflexivity.
Qed.

Lemma find_skip {A} (f : A -> bool) l1 x l2 :
  (forall a, In a l1 -> f a = false) -> f x = true -> find f (l1 ++ x :: l2) = Some x.
Proof.
  induction l1 as [|a l1 IH]; intros H Hx; simpl.
  - rewrite Hx. reflexivity.
  - rewrite H by (left; auto). apply IH; auto. intros; apply H; right; auto.
Qed.

(* two elements below different children n <> m of the element at p: their nearest common ancestor is that element *)
Lemma lca_of_siblings p anc d n m k1 k2 t1 t2 :
  n <> m -> In t1 (desc_from (n :: p) (d :: anc) k1) -> In t2 (desc_from (m :: p) (d :: anc) k2) ->
  is_desc (e_path t1) (e_path t2) = false /\ is_desc (e_path t2) (e_path t1) = false /\
  lca_is_parallel t1 t2 = is_parallel {| e_path := p; e_node := d; e_anc := anc |}.
Proof.
  intros Hnm H1 H2.
  destruct (desc_from_shape _ _ _ _ H1) as (q1 & qa1 & Hp1 & _ & _).
  destruct (desc_from_shape _ _ _ _ H2) as (q2 & qa2 & Hp2 & _ & _).
  assert (forall r r', r ++ n :: p <> r' ++ m :: p) as Hdis.
  { intros r r' E. apply sibling_disjoint in E as [E _]. auto. }
  split; [|split].
  - destruct (is_desc (e_path t1) (e_path t2)) eqn:E; auto. exfalso.
    apply is_desc_spec in E as (r & _ & E). rewrite Hp1, Hp2, app_assoc in E. eapply Hdis; eauto.
  - destruct (is_desc (e_path t2) (e_path t1)) eqn:E; auto. exfalso.
    apply is_desc_spec in E as (r & _ & E). rewrite Hp1, Hp2, app_assoc in E. symmetry in E. eapply Hdis; eauto.
  - unfold lca_is_parallel. destruct (ancestors_shape _ _ _ _ H1) as (inner & Hi & Hin).
    rewrite Hi. cbn [ancestors_from tl]. rewrite find_skip; auto.
    + intros a0 Ha. destruct (Hin a0 Ha) as (r & Hr).
      destruct (is_desc (e_path t2) (e_path a0)) eqn:E; auto. exfalso.
      apply is_desc_spec in E as (r' & _ & E). rewrite Hp2, Hr, app_assoc in E. symmetry in E. eapply Hdis; eauto.
    + cbn [e_path]. apply is_desc_spec. exists (q2 ++ [m]). split; [destruct q2; discriminate|].
      rewrite Hp2, <- app_assoc. reflexivity.
Qed.

Definition finals_childless_in (l : list el) : Prop :=
  forall e, In e l -> e_tag e = GFinal -> forall k, In k (kids_el e) -> is_proper_tag (e_tag k) = false.

Lemma kid_active cfg t q k anc t1 :
  kid_ok cfg t q k -> In t1 (desc_from q anc k) -> in_cfg cfg (e_path t1) = true ->
  is_proper_tag (g_tag k) = true /\ in_cfg cfg q = true /\ sub_legal cfg q k = true.
Proof.
  unfold kid_ok. intros Hk Ht Hin.
  destruct (is_proper_tag (g_tag k)).
  - destruct t; try (destruct (in_cfg cfg q); [auto|
      exfalso; rewrite (sub_inactive_desc _ _ _ _ Hk _ Ht) in Hin; discriminate]).
    destruct Hk; auto.
  - exfalso. rewrite (sub_inactive_desc _ _ _ _ Hk _ Ht) in Hin. discriminate.
Qed.

Lemma legal_compatible cfg d : forall p anc,
  sub_legal cfg p d = true -> finals_childless_in (desc_from p anc d) ->
  forall t1 t2, In t1 (desc_from p anc d) -> In t2 (desc_from p anc d) ->
  in_cfg cfg (e_path t1) = true -> in_cfg cfg (e_path t2) = true -> t1 <> t2 -> compatible t1 t2 = true.
Proof.
  induction d as [t a kids IH] using gdoc_ind'. intros p anc Hl Hfin t1 t2 H1 H2 Hc1 Hc2 Hne.
  apply sub_legal_elim in Hl as (H0 & Htag & Hkids & Hone).
  apply In_desc_from in H1 as [->|(n & k1 & Hn & H1)]; apply In_desc_from in H2 as [->|(m & k2 & Hm & H2)].
  - congruence.
  - unfold compatible. destruct (desc_from_shape _ _ _ _ H2) as (q & _ & Hq & _).
    assert (is_desc (e_path t2) p = true) as E.
    { apply is_desc_spec. exists (q ++ [m]). split; [destruct q; discriminate|]. rewrite Hq, <- app_assoc. reflexivity. }
    cbn [e_path]. rewrite E. rewrite orb_true_r. reflexivity.
  - unfold compatible. destruct (desc_from_shape _ _ _ _ H1) as (q & _ & Hq & _).
    assert (is_desc (e_path t1) p = true) as E.
    { apply is_desc_spec. exists (q ++ [n]). split; [destruct q; discriminate|]. rewrite Hq, <- app_assoc. reflexivity. }
    cbn [e_path]. rewrite E. reflexivity.
  - cbn [g_kids] in Hn, Hm.
    destruct (kid_active _ _ _ _ _ _ (Hkids n k1 Hn) H1 Hc1) as (Hp1 & Ha1 & Hl1).
    destruct (kid_active _ _ _ _ _ _ (Hkids m k2 Hm) H2 Hc2) as (Hp2 & Ha2 & Hl2).
    destruct (Nat.eq_dec n m) as [->|Hnm].
    + rewrite Hn in Hm. inversion Hm; subst k2. rewrite Forall_forall in IH.
      eapply (IH k1 (nth_error_In _ _ Hn)); eauto.
      intros e He. apply Hfin. apply In_desc_from. right. exists m, k1. auto.
    + destruct (one_kid t) eqn:Eo.
      * exfalso. apply Hnm. eapply Hone; eauto.
      * destruct (lca_of_siblings p anc (GNode t a kids) n m k1 k2 t1 t2 Hnm H1 H2) as (_ & _ & E).
        unfold compatible. rewrite E. destruct t; simpl in Eo; try discriminate.
        -- unfold is_parallel. cbn. rewrite !orb_true_r. reflexivity.
        -- exfalso. assert (is_proper_tag (g_tag k1) = false) as Hx; [|congruence].
           change (is_proper_tag (e_tag {| e_path := n :: p; e_node := k1; e_anc := GNode GFinal a kids :: anc |}) = false).
           apply (Hfin {| e_path := p; e_node := GNode GFinal a kids; e_anc := anc |});
             [apply In_desc_from; left; reflexivity|reflexivity|].
           apply kids_el_In. exists n, k1. auto.
Qed.

(* ------------------------------------------------------------------ completing a set of wanted states *)

Definition proper_idx (kids : list gdoc) : list nat :=
  filter (fun i => match nth_error kids i with Some k => is_proper_tag (g_tag k) | None => false end)
         (seq 0 (length kids)).

(* the child a compound state enters: the first wanted proper child, else the first proper child *)
Definition pick (want : ptr -> bool) (p : ptr) (kids : list gdoc) : option nat :=
  match find (fun i => want (i :: p)) (proper_idx kids) with
  | Some i => Some i
  | None => hd_error (proper_idx kids)
  end.

Fixpoint complete (want : ptr -> bool) (p : ptr) (d : gdoc) {struct d} : list ptr :=
  match d with
  | GNode t a kids =>
      let cs := mapi_from (fun i k => complete want (i :: p) k) 0 kids in
      p :: match t with
           | GParallel => concat (mapi_from (fun i k => if is_proper_tag (g_tag k) then complete want (i :: p) k else []) 0 kids)
           | GFinal => []
           | _ => match pick want p kids with Some i => nth i cs [] | None => [] end
           end
  end.

Lemma proper_idx_In kids i :
  In i (proper_idx kids) <-> exists k, nth_error kids i = Some k /\ is_proper_tag (g_tag k) = true.
Proof.
  unfold proper_idx. rewrite filter_In, in_seq. split.
  - intros [_ H]. destruct (nth_error kids i) as [k|]; [exists k; auto|discriminate].
  - intros (k & Hk & Hp). rewrite Hk. split; auto. split; [lia|]. simpl. apply nth_error_Some. congruence.
Qed.

Lemma pick_spec want p kids :
  match pick want p kids with
  | Some i => (exists k, nth_error kids i = Some k /\ is_proper_tag (g_tag k) = true) /\
              (forall j, In j (proper_idx kids) -> want (j :: p) = true -> want (i :: p) = true)
  | None => forall i k, nth_error kids i = Some k -> is_proper_tag (g_tag k) = false
  end.
Proof.
  unfold pick. destruct (find _ (proper_idx kids)) as [i|] eqn:Ef.
  - apply find_some in Ef as [Hi Hw]. split; [apply proper_idx_In; auto|]. auto.
  - destruct (proper_idx kids) as [|i r] eqn:Ep; simpl.
    + intros i k Hk. destruct (is_proper_tag (g_tag k)) eqn:E; auto. exfalso.
      assert (In i (proper_idx kids)) as Hin by (apply proper_idx_In; eauto). rewrite Ep in Hin. exact Hin.
    + split.
      * apply proper_idx_In. rewrite Ep. left; auto.
      * intros j Hj Hw. exfalso. eapply find_none in Ef; [|exact Hj]. cbv beta in Ef. congruence.
Qed.

Lemma nth_mapi {A B} (F : nat -> A -> B) l dflt : forall i n k,
  nth_error l n = Some k -> nth n (mapi_from F i l) dflt = F (i + n) k.
Proof.
  induction l as [|x l IH]; intros i n k Hn; [destruct n; discriminate|].
  destruct n; simpl in *.
  - inversion Hn. rewrite Nat.add_0_r. reflexivity.
  - rewrite (IH (S i) n k Hn). f_equal. lia.
Qed.

Lemma complete_unfold want p t a kids :
  complete want p (GNode t a kids) =
  p :: match t with
       | GParallel => concat (mapi_from (fun i k => if is_proper_tag (g_tag k) then complete want (i :: p) k else []) 0 kids)
       | GFinal => []
       | _ => match pick want p kids with
              | Some i => nth i (mapi_from (fun i k => complete want (i :: p) k) 0 kids) []
              | None => [] end
       end.
Proof. reflexivity. Qed.

(* members of the completion below the element at p: p itself, or a member of the completion of a proper child *)
Lemma complete_members want p t a kids x :
  In x (complete want p (GNode t a kids)) ->
  x = p \/ exists n k, nth_error kids n = Some k /\ is_proper_tag (g_tag k) = true /\ In x (complete want (n :: p) k) /\
                       (one_kid t = true -> pick want p kids = Some n) /\ t <> GFinal.
Proof.
  rewrite complete_unfold. intros [<-|H]; [left; reflexivity|]. right.
  assert (forall i, pick want p kids = Some i ->
          In x (nth i (mapi_from (fun i k => complete want (i :: p) k) 0 kids) []) ->
          exists n k, nth_error kids n = Some k /\ is_proper_tag (g_tag k) = true /\ In x (complete want (n :: p) k) /\
                      pick want p kids = Some n) as Hpick.
  { intros i Hp Hx. pose proof (pick_spec want p kids) as Hs. rewrite Hp in Hs. destruct Hs as [(k & Hk & Hpr) _].
    rewrite (nth_mapi _ _ _ 0 i k Hk) in Hx. exists i, k. auto. }
  destruct t;
    try (destruct (pick want p kids) as [i|] eqn:Ep; [|contradiction];
         destruct (Hpick i eq_refl H) as (n & k & H1 & H2 & H3 & H4); exists n, k; repeat split; auto; discriminate).
  - apply In_concat in H as (l & Hl & Hx). apply In_mapi_from in Hl as (n & k & Hn & ->).
    destruct (is_proper_tag (g_tag k)) eqn:E; [|contradiction]. exists n, k. repeat split; auto; discriminate.
  - contradiction.
Qed.

Lemma complete_below want d : forall p x, In x (complete want p d) -> exists r, x = r ++ p.
Proof.
  induction d as [t a kids IH] using gdoc_ind'. intros p x H.
  apply complete_members in H as [->|(n & k & Hn & _ & Hx & _)]; [exists []; reflexivity|].
  rewrite Forall_forall in IH. destruct (IH k (nth_error_In _ _ Hn) _ _ Hx) as (r & ->).
  exists (r ++ [n]). rewrite <- app_assoc. reflexivity.
Qed.

Lemma complete_self want p d : In p (complete want p d).
Proof. destruct d. rewrite complete_unfold. left. reflexivity. Qed.

(* sub_legal and sub_inactive only look at the part of the configuration below the element *)
Lemma sub_inactive_ext cfg cfg' d : forall q,
  (forall r, in_cfg cfg (r ++ q) = in_cfg cfg' (r ++ q)) -> sub_inactive cfg q d = sub_inactive cfg' q d.
Proof.
  induction d as [t a kids IH] using gdoc_ind'. intros q H. cbn [sub_inactive].
  pose proof (H []) as H0. cbn [app] in H0. rewrite H0. f_equal. f_equal. apply mapi_from_ext. intros n k Hn. cbn [Nat.add].
  rewrite Forall_forall in IH. apply IH; [eapply nth_error_In; eauto|].
  intros r. replace (r ++ n :: q) with ((r ++ [n]) ++ q) by (rewrite <- app_assoc; reflexivity). apply H.
Qed.

Lemma sub_legal_ext cfg cfg' d : forall q,
  (forall r, in_cfg cfg (r ++ q) = in_cfg cfg' (r ++ q)) -> sub_legal cfg q d = sub_legal cfg' q d.
Proof.
  induction d as [t a kids IH] using gdoc_ind'. intros q H. rewrite !sub_legal_unfold. cbv zeta.
  assert (mapi_from (kinfo cfg q) 0 kids = mapi_from (kinfo cfg' q) 0 kids) as Hk.
  { apply mapi_from_ext. intros n k Hn. cbn [Nat.add]. unfold kinfo. rewrite Forall_forall in IH.
    assert (forall r, in_cfg cfg (r ++ n :: q) = in_cfg cfg' (r ++ n :: q)) as Hn'.
    { intros r. replace (r ++ n :: q) with ((r ++ [n]) ++ q) by (rewrite <- app_assoc; reflexivity). apply H. }
    rewrite (IH k (nth_error_In _ _ Hn) _ Hn'), (sub_inactive_ext cfg cfg' k _ Hn'). reflexivity. }
  rewrite Hk. pose proof (H []) as H0. cbn [app] in H0. rewrite H0.
  assert (forall l : list (ptr * gdoc * bool * bool),
            (forall x, In x l -> exists n, fst (fst (fst x)) = n :: q) ->
            filter (fun x => in_cfg cfg (fst (fst (fst x)))) l = filter (fun x => in_cfg cfg' (fst (fst (fst x)))) l /\
            forallb (fun x => in_cfg cfg (fst (fst (fst x))) && snd (fst x)) l =
            forallb (fun x => in_cfg cfg' (fst (fst (fst x))) && snd (fst x)) l /\
            forallb (fun x => if in_cfg cfg (fst (fst (fst x))) then snd (fst x) else snd x) l =
            forallb (fun x => if in_cfg cfg' (fst (fst (fst x))) then snd (fst x) else snd x) l) as Hl.
  { induction l as [|x l IHl]; intros Hx; [auto|].
    destruct (Hx x (or_introl eq_refl)) as (n & En).
    assert (in_cfg cfg (fst (fst (fst x))) = in_cfg cfg' (fst (fst (fst x)))) as E.
    { rewrite En. apply (H [n]). }
    destruct IHl as (I1 & I2 & I3); [intros; apply Hx; right; auto|].
    cbn [filter forallb]. rewrite E, I1, I2, I3. auto. }
  match goal with |- context [length (filter _ ?P)] => set (proper := P) end.
  destruct (Hl proper) as (L1 & L2 & L3).
  { intros x Hx. apply filter_In in Hx as [Hx _]. apply In_mapi_from in Hx as (n & k & _ & ->). exists n. reflexivity. }
  rewrite L1, L2, L3. reflexivity.
Qed.

Lemma option_eq_dec_nat (a b : option nat) : {a = b} + {a <> b}.
Proof. decide equality. apply Nat.eq_dec. Qed.

Lemma complete_member_child want p t a kids r n :
  In (r ++ n :: p) (complete want p (GNode t a kids)) ->
  exists k, nth_error kids n = Some k /\ is_proper_tag (g_tag k) = true /\
            In (r ++ n :: p) (complete want (n :: p) k) /\
            (one_kid t = true -> pick want p kids = Some n) /\ t <> GFinal.
Proof.
  intros H. apply complete_members in H as [E|(n' & k & Hn & Hp & Hx & Hpick & Hf)].
  - exfalso. apply (f_equal (@length nat)) in E. rewrite app_length in E. simpl in E. lia.
  - destruct (complete_below _ _ _ _ Hx) as (r' & E). apply sibling_disjoint in E as [-> ->].
    exists k. auto.
Qed.

Lemma complete_child_in want p t a kids n k x :
  nth_error kids n = Some k -> is_proper_tag (g_tag k) = true ->
  (t = GParallel \/ (one_kid t = true /\ pick want p kids = Some n)) ->
  In x (complete want (n :: p) k) -> In x (complete want p (GNode t a kids)).
Proof.
  intros Hn Hp Hsel Hx. rewrite complete_unfold. right.
  destruct Hsel as [->|[Ho Hpick]].
  - apply In_concat. exists (complete want (n :: p) k). split; auto.
    apply In_mapi_from. exists n, k. split; auto. rewrite Hp. reflexivity.
  - assert (In x (nth n (mapi_from (fun i k => complete want (i :: p) k) 0 kids) [])) as Hin
      by (rewrite (nth_mapi _ _ _ 0 n k Hn); exact Hx).
    destruct t; simpl in Ho; try discriminate; rewrite Hpick; exact Hin.
Qed.

Lemma complete_legal want d : forall p, is_proper_tag (g_tag d) = true -> sub_legal (complete want p d) p d = true.
Proof.
  induction d as [t a kids IH] using gdoc_ind'. intros p Ht. cbn [g_tag] in Ht.
  rewrite Forall_forall in IH.
  set (C := complete want p (GNode t a kids)).
  assert (forall n k, nth_error kids n = Some k -> is_proper_tag (g_tag k) = true ->
          (t = GParallel \/ (one_kid t = true /\ pick want p kids = Some n)) ->
          in_cfg C (n :: p) = true /\ sub_legal C (n :: p) k = true) as Hsel.
  { intros n k Hn Hp Hs. split.
    - apply in_cfg_In. eapply complete_child_in; eauto. apply complete_self.
    - rewrite (sub_legal_ext C (complete want (n :: p) k)); [apply IH; [eapply nth_error_In; eauto|exact Hp]|].
      intros r. destruct (in_cfg (complete want (n :: p) k) (r ++ n :: p)) eqn:E.
      + apply in_cfg_In. apply in_cfg_In in E. eapply complete_child_in; eauto.
      + apply in_cfg_false. apply in_cfg_false in E. intros Hin. apply E.
        unfold C in Hin. apply complete_member_child in Hin as (k' & Hn' & _ & Hx & _).
        rewrite Hn in Hn'. inversion Hn'; subst k'. exact Hx. }
  assert (forall n k, nth_error kids n = Some k ->
          (is_proper_tag (g_tag k) = false \/ t = GFinal \/ (one_kid t = true /\ pick want p kids <> Some n)) ->
          in_cfg C (n :: p) = false /\ sub_inactive C (n :: p) k = true) as Hunsel.
  { intros n k Hn Hwhy.
    assert (forall r, in_cfg C (r ++ n :: p) = false) as Hno.
    { intros r. apply in_cfg_false. intros Hin.
      apply complete_member_child in Hin as (k' & Hn' & Hp' & _ & Hpick & Hf).
      destruct Hwhy as [Hw|[Hw|[Ho Hw]]]; [congruence|congruence|]. apply Hw. auto. }
    split; [apply (Hno [])|apply sub_inactive_intro; exact Hno]. }
  apply sub_legal_intro; auto.
  - apply in_cfg_In. apply complete_self.
  - intros n k Hn. unfold kid_ok. destruct (is_proper_tag (g_tag k)) eqn:Hp.
    + destruct t; try discriminate;
        try (destruct (option_eq_dec_nat (pick want p kids) (Some n)) as [E|E];
             [ destruct (Hsel n k Hn Hp (or_intror (conj eq_refl E))) as [-> H2]; exact H2
             | destruct (Hunsel n k Hn (or_intror (or_intror (conj eq_refl E)))) as [-> H2]; exact H2 ]).
      * apply Hsel; auto.
      * destruct (Hunsel n k Hn (or_intror (or_introl eq_refl))) as [-> H2]. exact H2.
    + destruct (Hunsel n k Hn (or_introl Hp)) as [_ H2]. exact H2.
  - intros Ho. pose proof (pick_spec want p kids) as Hs. destruct (pick want p kids) as [n0|] eqn:Ep.
    + right. destruct Hs as [(k0 & Hk0 & Hp0) _]. exists n0, k0. repeat split; auto.
      * destruct (Hsel n0 k0 Hk0 Hp0 (or_intror (conj Ho eq_refl))) as [H1 _]. exact H1.
      * intros m k' Hm Hp' Hin. apply in_cfg_In in Hin.
        apply (complete_member_child want p t a kids [] m) in Hin as (_ & _ & _ & _ & Hpick & _).
        specialize (Hpick Ho). congruence.
    + left. exact Hs.
Qed.

(* ------------------------------------------------------------------ handles are determined by their paths *)

Lemma desc_from_path_inj d : forall p anc e1 e2,
  In e1 (desc_from p anc d) -> In e2 (desc_from p anc d) -> e_path e1 = e_path e2 -> e1 = e2.
Proof.
  induction d as [t a kids IH] using gdoc_ind'. intros p anc e1 e2 H1 H2 E.
  apply In_desc_from in H1 as [->|(n & k1 & Hn & H1)]; apply In_desc_from in H2 as [->|(m & k2 & Hm & H2)]; auto.
  - exfalso. destruct (desc_from_shape _ _ _ _ H2) as (q & _ & Hq & _). cbn [e_path] in E. rewrite Hq in E.
    apply (f_equal (@length nat)) in E. rewrite app_length in E. simpl in E. lia.
  - exfalso. destruct (desc_from_shape _ _ _ _ H1) as (q & _ & Hq & _). cbn [e_path] in E. rewrite Hq in E.
    apply (f_equal (@length nat)) in E. rewrite app_length in E. simpl in E. lia.
  - destruct (desc_from_shape _ _ _ _ H1) as (q1 & _ & Hq1 & _). destruct (desc_from_shape _ _ _ _ H2) as (q2 & _ & Hq2 & _).
    rewrite Hq1, Hq2 in E. apply sibling_disjoint in E as [-> ->]. cbn [g_kids] in *. rewrite Hn in Hm. inversion Hm; subst k2.
    rewrite Forall_forall in IH. eapply (IH k1 (nth_error_In _ _ Hn)); eauto. rewrite Hq1, Hq2. reflexivity.
Qed.

(* the members of a sub-tree are the members whose path extends the sub-tree's path *)
Lemma subtree_members d : forall p anc e t r,
  In e (desc_from p anc d) -> In t (desc_from p anc d) -> e_path t = r ++ e_path e ->
  In t (desc_from (e_path e) (e_anc e) (e_node e)).
Proof.
  induction d as [tg a kids IH] using gdoc_ind'. intros p anc e t r He Ht E.
  apply In_desc_from in He as [->|(n & k & Hn & He)]; [exact Ht|].
  destruct (desc_from_shape _ _ _ _ He) as (q & _ & Hq & _).
  apply In_desc_from in Ht as [->|(m & k2 & Hm & Ht)].
  - exfalso. cbn [e_path] in E. rewrite Hq, app_assoc in E. apply (f_equal (@length nat)) in E.
    rewrite app_length in E. simpl in E. lia.
  - destruct (desc_from_shape _ _ _ _ Ht) as (q2 & _ & Hq2 & _).
    pose proof E as E'. rewrite Hq, Hq2, app_assoc in E'. apply sibling_disjoint in E' as [-> _].
    cbn [g_kids] in *. rewrite Hn in Hm. inversion Hm; subst k2.
    rewrite Forall_forall in IH. eapply (IH k (nth_error_In _ _ Hn)); eauto.
Qed.

(* ------------------------------------------------------------------ the completion contains the targets *)

Definition wants (ts : list el) (q : ptr) : bool :=
  existsb (fun t => ptr_eqb (e_path t) q || is_desc (e_path t) q) ts.

Lemma wants_spec ts q : wants ts q = true <-> exists t r, In t ts /\ e_path t = r ++ q.
Proof.
  unfold wants. rewrite existsb_exists. split.
  - intros (t & Ht & H). apply orb_true_iff in H as [H|H].
    + apply ptr_eqb_eq in H. exists t, []. auto.
    + apply is_desc_spec in H as (r & _ & H). exists t, r. auto.
  - intros (t & r & Ht & E). exists t. split; auto. destruct r as [|x r].
    + simpl in E. rewrite E, ptr_eqb_refl. reflexivity.
    + apply orb_true_iff. right. apply is_desc_spec. exists (x :: r). split; [discriminate|exact E].
Qed.

Lemma wants_up ts r q : wants ts (r ++ q) = true -> wants ts q = true.
Proof.
  rewrite !wants_spec. intros (t & r' & Ht & E). exists t, (r' ++ r). split; auto. rewrite E, app_assoc. reflexivity.
Qed.

Lemma complete_contains ts d : forall p anc,
  (forall e, In e (desc_from p anc d) -> wants ts (e_path e) = true -> is_proper_tag (e_tag e) = true) ->
  (forall e, In e (desc_from p anc d) -> one_kid (e_tag e) = true ->
     forall i j, In i (proper_idx (g_kids (e_node e))) -> In j (proper_idx (g_kids (e_node e))) ->
                 wants ts (i :: e_path e) = true -> wants ts (j :: e_path e) = true -> i = j) ->
  finals_childless_in (desc_from p anc d) ->
  forall t, In t (desc_from p anc d) -> wants ts (e_path t) = true -> In (e_path t) (complete (wants ts) p d).
Proof.
  induction d as [tg a kids IH] using gdoc_ind'. intros p anc Hprop Hone Hfin t Ht Hw.
  pose proof Ht as Ht0.
  apply In_desc_from in Ht as [->|(n & k & Hn & Ht)]; [apply complete_self|]. cbn [g_kids] in Hn.
  set (this := {| e_path := p; e_node := GNode tg a kids; e_anc := anc |}).
  set (kid := {| e_path := n :: p; e_node := k; e_anc := GNode tg a kids :: anc |}).
  assert (In this (desc_from p anc (GNode tg a kids))) as Hthis by (apply In_desc_from; left; reflexivity).
  assert (In kid (desc_from p anc (GNode tg a kids))) as Hkid.
  { apply In_desc_from. right. exists n, k. split; auto. rewrite desc_from_unfold. left. reflexivity. }
  destruct (desc_from_shape _ _ _ _ Ht) as (q & _ & Hq & _).
  assert (wants ts (n :: p) = true) as Hwn by (rewrite Hq in Hw; eapply wants_up; eauto).
  assert (is_proper_tag (g_tag k) = true) as Hpk by (apply (Hprop kid Hkid Hwn)).
  assert (In (e_path t) (complete (wants ts) (n :: p) k)) as Hin.
  { rewrite Forall_forall in IH. eapply (IH k (nth_error_In _ _ Hn)); eauto.
    - intros e He. apply Hprop. apply In_desc_from. right. exists n, k. auto.
    - intros e He. apply Hone. apply In_desc_from. right. exists n, k. auto.
    - intros e He. apply Hfin. apply In_desc_from. right. exists n, k. auto. }
  eapply complete_child_in; eauto.
  destruct (one_kid tg) eqn:Eo.
  - right. split; auto. pose proof (pick_spec (wants ts) p kids) as Hs.
    assert (In n (proper_idx kids)) as Hnp by (apply proper_idx_In; eauto).
    destruct (pick (wants ts) p kids) as [i|].
    + destruct Hs as [Hi Hfirst]. f_equal. apply (Hone this Hthis Eo); auto.
      * apply proper_idx_In. exact Hi.
      * eapply Hfirst; eauto.
    + exfalso. rewrite (Hs n k Hn) in Hpk. discriminate.
  - destruct tg; simpl in Eo; try discriminate; [left; reflexivity|].
    exfalso. assert (is_proper_tag (e_tag kid) = false) as Hx; [|unfold kid, e_tag in Hx; cbn in Hx; congruence].
    apply (Hfin this Hthis eq_refl). apply kids_el_In. exists n, k. auto.
Qed.

(* ------------------------------------------------------------------ document level *)

Lemma pairwise_In l : pairwise_compatible l = true ->
  forall x y, In x l -> In y l -> x <> y -> compatible x y = true \/ compatible y x = true.
Proof.
  induction l as [|s l IH]; intros H x y Hx Hy Hne; [contradiction|].
  simpl in H. apply andb_true_iff in H as [H1 H2]. rewrite forallb_forall in H1.
  destruct Hx as [<-|Hx], Hy as [<-|Hy]; auto; congruence.
Qed.

Section DocLevel.
  Variable d : gdoc.
  Hypothesis Hw : wf_nesting d = true.
  Hypothesis Hsm : single_machine d = true.
  Let all := descendants (root_el d).

  Lemma proper_kid_of e k :
    In e (universe d) -> In k (kids_el e) -> is_proper_tag (e_tag k) = true ->
    valid_parent (e_tag k) (e_tag e) = true.
  Proof.
    intros He Hk Hp.
    assert (In k all) as Hka.
    { assert (In k (universe d)) as Hu by (eapply universe_kids_closed; eauto).
      destruct Hu as [E|Hu]; auto. exfalso. apply kids_el_In in Hk as (n & x & _ & ->). unfold root_el in E. inversion E. }
    pose proof (single_machine_tag d k Hsm Hka) as Hns.
    apply (wf_nesting_parent d k Hw Hka).
    - destruct (e_tag k); simpl in *; auto; discriminate.
    - apply kids_el_ancestors in Hk. tauto.
  Qed.

  Lemma finals_childless_universe : finals_childless_in (universe d).
  Proof.
    intros e He Ht k Hk. destruct (is_proper_tag (e_tag k)) eqn:Hp; auto. exfalso.
    pose proof (proper_kid_of e k He Hk Hp) as Hv. rewrite Ht in Hv.
    assert (In k all) as Hka.
    { assert (In k (universe d)) as Hu by (eapply universe_kids_closed; eauto).
      destruct Hu as [E|Hu]; auto. exfalso. apply kids_el_In in Hk as (n & x & _ & ->). unfold root_el in E. inversion E. }
    pose proof (single_machine_tag d k Hsm Hka) as Hns.
    destruct (e_tag k); simpl in *; discriminate.
  Qed.

  (* every ancestor of a proper state is a proper state *)
  Lemma ancestors_proper : forall n t, length (e_anc t) = n -> In t (universe d) ->
    is_proper_tag (e_tag t) = true -> forall a, In a (ancestors_el t) -> is_proper_tag (e_tag a) = true.
  Proof.
    induction n as [|n IH]; intros t Hn Ht Hp a0 Ha.
    - unfold ancestors_el in Ha. destruct (e_anc t); [contradiction|discriminate].
    - apply universe_parent in Ht as [->|(pe & Hpe & Hpu & Hk)]; [simpl in Hn; discriminate|].
      pose proof (proper_kid_of pe t Hpu Hk Hp) as Hv.
      assert (is_proper_tag (e_tag pe) = true) as Hpp.
      { destruct (e_tag t), (e_tag pe); simpl in *; try discriminate; auto. }
      pose proof Hk as Hk'. apply kids_el_ancestors in Hk' as [Hanc _]. rewrite Hanc in Ha.
      destruct Ha as [<-|Ha]; auto. eapply IH; eauto.
      apply kids_el_In in Hk as (m & x & _ & ->). simpl in Hn. lia.
  Qed.

  (* an ancestor, by path, is one of the ancestor handles *)
  Lemma ancestor_by_path : forall n t q, length (e_anc t) = n -> In t (universe d) ->
    is_desc (e_path t) q = true -> exists a, In a (ancestors_el t) /\ e_path a = q.
  Proof.
    induction n as [|n IH]; intros t q Hn Ht Hd.
    - apply universe_shape in Ht. rewrite Hn in Ht. destruct (e_path t); [discriminate|discriminate].
    - pose proof Ht as Ht0. apply universe_parent in Ht as [->|(pe & Hpe & Hpu & Hk)]; [simpl in Hn; discriminate|].
      pose proof Hk as Hk'. apply kids_el_ancestors in Hk' as [Hanc _]. rewrite Hanc.
      apply kids_el_In in Hk as (m & x & _ & ->). cbn [e_path is_desc] in Hd.
      apply orb_true_iff in Hd as [Hd|Hd].
      + apply ptr_eqb_eq in Hd. exists pe. split; [left; reflexivity|auto].
      + assert (length (e_anc pe) = n) as Hl by (cbn [e_anc length] in Hn; lia).
        destruct (IH pe q Hl Hpu Hd) as (a0 & Ha & Hq).
        exists a0. split; [right|]; auto.
  Qed.

  Variable ts : list el.
  Hypothesis Hts : forall t, In t ts -> In t (universe d) /\ is_proper_tag (e_tag t) = true.

  Lemma wanted_proper e : In e (universe d) -> wants ts (e_path e) = true -> is_proper_tag (e_tag e) = true.
  Proof.
    intros He Hwt. apply wants_spec in Hwt as (t & r & Ht & E). destruct (Hts t Ht) as [Htu Htp].
    rewrite universe_eq in *. destruct r as [|x r].
    - simpl in E. rewrite (desc_from_path_inj d [] [] e t He Htu (eq_sym E)). exact Htp.
    - assert (is_desc (e_path t) (e_path e) = true) as Hd by (apply is_desc_spec; exists (x :: r); split; [discriminate|exact E]).
      rewrite <- universe_eq in *.
      destruct (ancestor_by_path _ t (e_path e) eq_refl Htu Hd) as (a0 & Ha & Hq).
      assert (In a0 (universe d)) as Hau by (eapply ancestors_in_universe; eauto).
      rewrite universe_eq in *. rewrite <- (desc_from_path_inj d [] [] a0 e Hau He Hq).
      rewrite <- universe_eq in *. apply (ancestors_proper _ t eq_refl Htu Htp a0 Ha).
  Qed.

  Lemma target_in_kid e i t r :
    In e (universe d) -> In t (universe d) -> e_path t = r ++ i :: e_path e ->
    exists k, nth_error (g_kids (e_node e)) i = Some k /\ In t (desc_from (i :: e_path e) (e_node e :: e_anc e) k).
  Proof.
    intros He Ht E. rewrite universe_eq in *.
    assert (In t (desc_from (e_path e) (e_anc e) (e_node e))) as Hsub.
    { eapply (subtree_members d [] [] e t (r ++ [i])); eauto. rewrite <- app_assoc. exact E. }
    apply In_desc_from in Hsub as [->|(m & k & Hm & Hsub)].
    - exfalso. cbn [e_path] in E. apply (f_equal (@length nat)) in E. rewrite app_length in E. simpl in E. lia.
    - destruct (desc_from_shape _ _ _ _ Hsub) as (q & _ & Hq & _). rewrite Hq in E.
      apply sibling_disjoint in E as [-> _]. exists k. auto.
  Qed.

  Hypothesis Hpc : pairwise_compatible ts = true.

  Lemma one_wanted_kid e : In e (universe d) -> one_kid (e_tag e) = true ->
    forall i j, wants ts (i :: e_path e) = true -> wants ts (j :: e_path e) = true -> i = j.
  Proof.
    intros He Ho i j Hi Hj. destruct (Nat.eq_dec i j) as [|Hij]; auto. exfalso.
    apply wants_spec in Hi as (t1 & r1 & Ht1 & E1). apply wants_spec in Hj as (t2 & r2 & Ht2 & E2).
    destruct (Hts t1 Ht1) as [Hu1 _]. destruct (Hts t2 Ht2) as [Hu2 _].
    destruct (target_in_kid e i t1 r1 He Hu1 E1) as (k1 & Hk1 & Hs1).
    destruct (target_in_kid e j t2 r2 He Hu2 E2) as (k2 & Hk2 & Hs2).
    destruct (lca_of_siblings (e_path e) (e_anc e) (e_node e) i j k1 k2 t1 t2 Hij Hs1 Hs2) as (A1 & A2 & A3).
    assert (Hji : j <> i) by auto.
    destruct (lca_of_siblings (e_path e) (e_anc e) (e_node e) j i k2 k1 t2 t1 Hji Hs2 Hs1) as (B1 & B2 & B3).
    assert (is_parallel {| e_path := e_path e; e_node := e_node e; e_anc := e_anc e |} = false) as Hnp.
    { rewrite <- el_eta. unfold is_parallel. unfold one_kid in Ho. destruct (e_tag e); auto; discriminate. }
    assert (t1 <> t2) as Hne.
    { intros ->. rewrite E1 in E2. apply sibling_disjoint in E2 as [E2 _]. auto. }
    destruct (pairwise_In ts Hpc t1 t2 Ht1 Ht2 Hne) as [Hc|Hc]; unfold compatible in Hc.
    - rewrite A1, A2, A3, Hnp in Hc. discriminate.
    - rewrite B1, B2, B3, Hnp in Hc. discriminate.
  Qed.
End DocLevel.

(* ------------------------------------------------------------------ legal_completion_correct *)

Fixpoint nodup_el (l : list el) : bool :=
  match l with [] => true | x :: r => negb (mem_el x r) && nodup_el r end.

Lemma mem_el_In x l : In x l -> mem_el x l = true.
Proof. intros H. unfold mem_el. apply existsb_exists. exists x. split; auto. apply ptr_eqb_refl. Qed.

Theorem legal_completion_semantic d ts :
  wf_nesting d = true -> single_machine d = true -> g_tag d = GScxml ->
  nodup_el ts = true ->
  (forall t, In t ts -> In t (universe d) /\ is_proper_tag (e_tag t) = true) ->
  (pairwise_compatible ts = true <->
   exists cfg, legal_cfg d cfg = true /\ forall t, In t ts -> in_cfg cfg (e_path t) = true).
Proof.
  intros Hw Hsm Hroot Hnd Hts. split.
  - intros Hpc. exists (complete (wants ts) [] d). split.
    + unfold legal_cfg. apply complete_legal. rewrite Hroot. reflexivity.
    + intros t Ht. apply in_cfg_In. destruct (Hts t Ht) as [Hu _]. rewrite universe_eq in Hu.
      apply (complete_contains ts d [] []); auto.
      * intros e He. rewrite <- universe_eq in He. apply (wanted_proper d Hw Hsm ts Hts e He).
      * intros e He Ho i j _ _. rewrite <- universe_eq in He. apply (one_wanted_kid d ts Hts Hpc e He Ho).
      * rewrite <- universe_eq. apply finals_childless_universe; auto.
      * apply wants_spec. exists t, []. auto.
  - intros (cfg & Hl & Hin). unfold legal_cfg in Hl.
    assert (forall x y, In x ts -> In y ts -> x <> y -> compatible x y = true) as Hc.
    { intros x y Hx Hy Hne. destruct (Hts x Hx) as [Hxu _]. destruct (Hts y Hy) as [Hyu _]. rewrite universe_eq in *.
      eapply (legal_compatible cfg d [] []); eauto. rewrite <- universe_eq. apply finals_childless_universe; auto. }
    clear Hin Hts. induction ts as [|s l IH]; [reflexivity|].
    simpl in Hnd. apply andb_true_iff in Hnd as [Hn1 Hn2]. apply negb_true_iff in Hn1.
    simpl. apply andb_true_iff. split.
    + apply forallb_forall. intros x Hx. apply Hc; [left; auto|right; auto|].
      intros ->. rewrite (mem_el_In x l Hx) in Hn1. discriminate.
    + apply IH; auto. intros x y Hx Hy. apply Hc; right; auto.
Qed.

(* the repaired hasLegalCompletion decides exactly this *)
Lemma pairwise_short l : length l < 2 -> pairwise_compatible l = true.
Proof. destruct l as [|x [|y r]]; simpl; intros; auto; lia. Qed.

Theorem legal_completion_correct_lemma d ts :
  wf_nesting d = true -> single_machine d = true -> g_tag d = GScxml ->
  nodup_el ts = true ->
  (forall t, In t ts -> In t (universe d) /\ is_proper_tag (e_tag t) = true) ->
  (has_legal_completion vv_fixed ts = true <->
   exists cfg, legal_cfg d cfg = true /\ forall t, In t ts -> in_cfg cfg (e_path t) = true).
Proof.
  intros. rewrite legal_completion_fixed_spec.
  assert ((length ts <? 2) || pairwise_compatible ts = pairwise_compatible ts) as E.
  { destruct (length ts <? 2) eqn:El; auto. apply Nat.ltb_lt in El. rewrite pairwise_short; auto. }
  rewrite E. apply legal_completion_semantic; auto.
Qed.

(* the code as found accepts the two children s3, s4 of a compound state because a <parallel> lies further up:
   no legal configuration contains both *)
Theorem legal_completion_pinned_refuted_lemma :
  has_legal_completion vv_pinned wit_ap_targets = true /\
  ~ exists cfg, legal_cfg wit_any_parallel cfg = true /\ forall t, In t wit_ap_targets -> in_cfg cfg (e_path t) = true.
Proof.
  split; [vm_compute; reflexivity|]. intros H.
  apply (legal_completion_correct_lemma wit_any_parallel wit_ap_targets) in H.
  - vm_compute in H. discriminate.
  - vm_compute. reflexivity.
  - vm_compute. reflexivity.
  - reflexivity.
  - vm_compute. reflexivity.
  - intros t Ht. vm_compute in Ht. destruct Ht as [<-|[<-|[]]]; split; vm_compute; auto 10.
Qed.

(* ------------------------------------------------------------------ wf_chartb's <initial> clause speaks of children
   wf_initial_el counts the transitions anywhere below an <initial> (as the code does, filterChildElements with
   recurse = true).  In a document with wf_nesting these are exactly its child transitions: nothing structural can
   sit deeper. *)

Lemma subtree_subset d : forall p anc e,
  In e (desc_from p anc d) -> forall x, In x (desc_from (e_path e) (e_anc e) (e_node e)) -> In x (desc_from p anc d).
Proof.
  induction d as [t a kids IH] using gdoc_ind'. intros p anc e He x Hx.
  apply In_desc_from in He as [->|(n & k & Hn & He)]; [exact Hx|].
  apply In_desc_from. right. exists n, k. split; auto.
  rewrite Forall_forall in IH. eapply (IH k (nth_error_In _ _ Hn)); eauto.
Qed.

Lemma descendants_of_member d i x :
  In i (universe d) -> In x (descendants i) -> In x (descendants (root_el d)).
Proof.
  intros Hi Hx. rewrite descendants_eq in Hx.
  assert (In x (desc_from (e_path i) (e_anc i) (e_node i))) as Hx'.
  { destruct (desc_from (e_path i) (e_anc i) (e_node i)); [contradiction|right; exact Hx]. }
  rewrite universe_eq in Hi. pose proof (subtree_subset d [] [] i Hi x Hx') as Hu. rewrite <- universe_eq in Hu.
  destruct Hu as [E|Hu]; auto. exfalso.
  (* x lies strictly below i: its path is longer than the root's *)
  rewrite desc_from_unfold in Hx. cbn [tl] in Hx. apply In_concat in Hx as (l & Hl & Hx).
  apply In_mapi_from in Hl as (n & k & _ & ->). apply desc_from_shape in Hx as (q & _ & Hq & _).
  subst x. unfold root_el in Hq. cbn in Hq. destruct q; discriminate.
Qed.

Lemma descendants_parent i e :
  In e (descendants i) -> In e (kids_el i) \/ exists pe, parent_el e = Some pe /\ In pe (descendants i) /\ In e (kids_el pe).
Proof.
  intros He. rewrite descendants_eq in He.
  assert (In e (desc_from (e_path i) (e_anc i) (e_node i))) as He'.
  { destruct (desc_from (e_path i) (e_anc i) (e_node i)); [contradiction|right; exact He]. }
  apply desc_from_parent in He' as [E|(pe & Hp & Hpe & Hk)].
  - exfalso. rewrite desc_from_unfold in He. cbn [tl] in He. apply In_concat in He as (l & Hl & He).
    apply In_mapi_from in Hl as (n & k & _ & ->). apply desc_from_shape in He as (q & _ & Hq & _).
    rewrite E in Hq. cbn in Hq. apply (f_equal (@length nat)) in Hq. rewrite app_length in Hq. simpl in Hq. lia.
  - rewrite desc_from_unfold in Hpe. destruct Hpe as [<-|Hpe].
    + left. rewrite <- el_eta in Hk. exact Hk.
    + right. exists pe. split; auto.
Qed.

Lemma below_initial_only_child_transitions d i :
  wf_nesting d = true -> single_machine d = true ->
  In i (universe d) -> e_tag i = GInitial ->
  forall n e, length (e_anc e) = n -> In e (descendants i) -> is_struct_tag (e_tag e) = true ->
  In e (kids_el i) /\ e_tag e = GTransition.
Proof.
  intros Hw Hsm Hi Hti. induction n as [|n IH]; intros e Hn He Hs.
  - exfalso. apply descendants_parent in He as [Hk|(pe & _ & _ & Hk)];
      apply kids_el_In in Hk as (m & x & _ & ->); discriminate.
  - pose proof (descendants_of_member d i e Hi He) as Hall.
    apply descendants_parent in He as [Hk|(pe & Hp & Hpe & Hk)].
    + split; auto. pose proof Hk as Hk'. apply kids_el_ancestors in Hk' as [_ Hp].
      pose proof (wf_nesting_parent d e Hw Hall Hs i Hp) as Hv. rewrite Hti in Hv.
      destruct (e_tag e); simpl in *; try discriminate; reflexivity.
    + exfalso. pose proof (wf_nesting_parent d e Hw Hall Hs pe Hp) as Hv.
      pose proof (descendants_of_member d i pe Hi Hpe) as Hpall.
      pose proof (single_machine_tag d pe Hsm Hpall) as Hns.
      assert (is_struct_tag (e_tag pe) = true) as Hps.
      { destruct (e_tag e), (e_tag pe); simpl in *; try discriminate; auto. }
      destruct (IH pe) as [_ Htr]; auto.
      { apply kids_el_In in Hk as (m & x & _ & ->). simpl in Hn. lia. }
      rewrite Htr in Hv. destruct (e_tag e); simpl in *; discriminate.
Qed.

Theorem wf_initial_transitions_are_children_lemma d i :
  wf_nesting d = true -> single_machine d = true -> In i (universe d) -> e_tag i = GInitial ->
  forall t, In t (with_tag GTransition (descendants i)) -> In t (kids_el i).
Proof.
  intros Hw Hsm Hi Hti t Ht. apply with_tag_In in Ht as [Ht Htag].
  eapply (below_initial_only_child_transitions d i Hw Hsm Hi Hti _ t eq_refl Ht).
  destruct (e_tag t); simpl in *; auto; discriminate.
Qed.
