(* RunConformInitialMicro.v -- C01 on charts with <initial> elements and deep / multiple initial attributes: the
   phases of one microstep that change with pseudo-states.  (1) the engine's entry set stays sorted and the
   transition set only gains transitions of pseudo-states (skipped by TAKE_TRANSITIONS); (2) ENTER_STATES: entering
   one state -- onentry handlers, then the content of the <initial> transition (engine: the transitions of the
   state's pseudo-state children that are in the transition set; Appendix D: s.initial.transition for s in
   statesForDefaultEntry), done events -- given the correspondence of the two sets.  Proofs only. *)
From V Require Import Base NameMatch Chart Exec Large LargeLemmas Spec Legal SetLemmas LegalAbstract LegalLarge
  LargeCacheLemmas Trace TraceLemmas SelectConform SelectConformLemmas SelectConformRoot MicroConform MicroConformLemmas
  MicroConformCompose LegalHistBase LegalHistEntry LegalHistStep RunConformInitialBase.
Local Open Scope nat_scope.

(* ------------------------------------------------------------------ folds with no-op elements *)

Lemma fold_skip {A B} (f : A -> B -> A) (keep : B -> bool) l : (forall a b, keep b = false -> f a b = a) ->
  forall a, fold_left f l a = fold_left f (filter keep l) a.
Proof.
  intros Hk. induction l as [|b r IH]; intros a; cbn [fold_left filter]; [reflexivity|].
  destruct (keep b) eqn:E; cbn [fold_left]; [apply IH | rewrite (Hk a b E); apply IH].
Qed.

Lemma fold_none {A B} (f : A -> B -> A) l : forall a, (forall a b, In b l -> f a b = a) -> fold_left f l a = a.
Proof.
  induction l as [|b r IH]; intros a H; cbn [fold_left]; [reflexivity|].
  rewrite (H a b (or_introl eq_refl)). apply IH. intros a' b' Hb. apply H. now right.
Qed.

Lemma fold_one {A} (f : A -> nat -> A) (fire : A -> A) l x0 : NoDup l -> In x0 l ->
  (forall a, f a x0 = fire a) -> (forall a b, In b l -> b <> x0 -> f a b = a) ->
  forall a, fold_left f l a = fire a.
Proof.
  induction 1 as [|b r Hb Hnd IH]; intros Hin Hf Ho a; [destruct Hin|]. cbn [fold_left].
  destruct Hin as [->|Hin].
  - rewrite Hf. apply fold_none. intros a' b' Hb'. apply Ho; [now right | intros ->; contradiction].
  - rewrite (Ho a b (or_introl eq_refl)) by (intros ->; contradiction).
    apply IH; [exact Hin | exact Hf | intros a' b' Hb'; apply Ho; now right].
Qed.

Lemma filter_insert_sorted (keep : nat -> bool) x : keep x = false -> forall l, filter keep (insert_sorted x l) = filter keep l.
Proof.
  intros Hx. induction l as [|y r IH]; cbn [insert_sorted filter]; [now rewrite Hx|].
  destruct (x <? y); [cbn [filter]; now rewrite Hx|]. destruct (x =? y); [reflexivity|]. cbn [filter]. now rewrite IH.
Qed.

(* ------------------------------------------------------------------ (1) the sets of ESTABLISH_ENTRYSET *)

Lemma ssorted_fold_ins_union (f : nat -> list nat) l : forall acc, ssorted acc ->
  ssorted (fold_left (fun e y => set_union (insert_sorted y e) (f y)) l acc).
Proof. induction l as [|y r IH]; intros acc Ha; cbn [fold_left]; [exact Ha|]. apply IH, ssorted_set_union, ssorted_insert, Ha. Qed.

Lemma ssorted_fold_cond_union (P : nat -> bool) (f : nat -> list nat) l : forall acc, ssorted acc ->
  ssorted (fold_left (fun a y => if P y then a else set_union a (f y)) l acc).
Proof.
  induction l as [|y r IH]; intros acc Ha; cbn [fold_left]; [exact Ha|]. apply IH. destruct (P y); [exact Ha | now apply ssorted_set_union].
Qed.

Section Sets.
Variable c : fchart.
Variable cfg X hist : list nat.
(* transitions of pseudo-states carry the flag *)
Hypothesis Hflags : forall x ti, is_pseudo (fs_type (st c x)) = true -> In ti (fs_trans (st c x)) ->
  ft_history (tr c ti) || ft_initial (tr c ti) = true.

Definition nf (ti : nat) : bool := negb (ft_history (tr c ti) || ft_initial (tr c ti)).

Lemma descend_one_sets es ts i : ssorted es ->
  ssorted (fst (descend_one lg_fixed c cfg X hist (es, ts) i)) /\
  filter nf (snd (descend_one lg_fixed c cfg X hist (es, ts) i)) = filter nf ts.
Proof.
  intros Hs. unfold descend_one. destruct (negb (mem i es)); [split; [exact Hs | reflexivity]|].
  destruct (fs_type (st c i)) eqn:Hk; cbn [fst snd].
  - split; [exact Hs | reflexivity].
  - destruct (existsb _ _); cbn [fst snd]; [split; [exact Hs | reflexivity]|]. split; [|reflexivity].
    apply ssorted_fold_cond_union. now apply ssorted_set_union.
  - split; [now apply ssorted_set_union | reflexivity].
  - split; [exact Hs | reflexivity].
  - destruct (_ && _).
    + destruct (fs_trans (st c i)) as [|ti r] eqn:Ht; cbn [fst snd]; [split; [exact Hs | reflexivity]|]. split.
      * now apply ssorted_set_union.
      * apply filter_insert_sorted. unfold nf. rewrite (Hflags i ti); [reflexivity | now rewrite Hk | rewrite Ht; now left].
    + cbn [fst snd]. split; [now apply ssorted_set_union | reflexivity].
  - destruct (_ && _).
    + destruct (fs_trans (st c i)) as [|ti r] eqn:Ht; cbn [fst snd]; [split; [exact Hs | reflexivity]|]. split.
      * destruct (negb _); [apply ssorted_fold_union|]; now apply ssorted_set_union.
      * apply filter_insert_sorted. unfold nf. rewrite (Hflags i ti); [reflexivity | now rewrite Hk | rewrite Ht; now left].
    + cbn [fst snd]. split; [now apply ssorted_set_union | reflexivity].
  - assert (Hg : forall l a, ssorted (fst a) -> (forall ti, In ti l -> In ti (fs_trans (st c i))) ->
       let r := fold_left (fun a ti =>
                 (fold_left (fun e x => set_union (insert_sorted x e) (fs_ancestors (st c x))) (ft_targets (tr c ti)) (fst a),
                  insert_sorted ti (snd a))) l a in
       ssorted (fst r) /\ filter nf (snd r) = filter nf (snd a)).
    { induction l as [|ti r IH]; intros a Ha Hl; cbn [fold_left]; [split; [exact Ha | reflexivity]|].
      destruct (IH (fold_left (fun e x => set_union (insert_sorted x e) (fs_ancestors (st c x))) (ft_targets (tr c ti)) (fst a),
                    insert_sorted ti (snd a))) as [A B'].
      - cbn [fst]. now apply ssorted_fold_ins_union.
      - intros z Hz. apply Hl. now right.
      - split; [exact A|]. rewrite B'. cbn [snd]. apply filter_insert_sorted. unfold nf.
        rewrite (Hflags i ti); [reflexivity | now rewrite Hk | apply Hl; now left]. }
    apply (Hg (fs_trans (st c i)) (es, ts)); [exact Hs | auto].
Qed.

Lemma entry_set_sets tg ts : ssorted tg ->
  ssorted (fst (entry_set lg_fixed c cfg X hist tg ts)) /\ filter nf (snd (entry_set lg_fixed c cfg X hist tg ts)) = filter nf ts.
Proof.
  intros Hs. unfold entry_set.
  assert (H0 : ssorted (Large.add_ancestors c tg)) by (unfold Large.add_ancestors; now apply ssorted_fold_union).
  assert (Hg : forall l acc, ssorted (fst acc) -> filter nf (snd acc) = filter nf ts ->
             ssorted (fst (fold_left (descend_one lg_fixed c cfg X hist) l acc)) /\
             filter nf (snd (fold_left (descend_one lg_fixed c cfg X hist) l acc)) = filter nf ts).
  { induction l as [|i r IH]; intros [es ts'] H1 H2; cbn [fold_left]; [auto|]. cbn [fst snd] in *.
    destruct (descend_one_sets es ts' i H1) as [A B']. apply IH; [exact A | now rewrite B']. }
  apply Hg; [exact H0 | reflexivity].
Qed.

(* TAKE_TRANSITIONS skips the added transitions *)
Lemma take_fold_filter cfg1 ts : forall x,
  fold_left (take_one ex_fixed c cfg1) ts x = fold_left (take_one ex_fixed c cfg1) (filter nf ts) x.
Proof.
  apply fold_skip. intros a ti Hn. unfold nf in Hn. apply negb_false_iff in Hn. unfold take_one. now rewrite Hn.
Qed.

End Sets.

(* ------------------------------------------------------------------ (2) entering *)

Section EnterH.
Variable c : fchart.
Hypothesis W : WFH c.
Hypothesis Hnh : forall i, histS c i = false.
Hypothesis HcplOK : CplOK c.
Variable ts : list nat.
Variable e : eset.
Variable CF : nat -> Prop.
Variable EN : nat -> Prop.      (* the states that are being entered *)
Notation Anc := (LegalAbstract.Anc (fun i => fs_parent (st c i))).
Notation pseudo := (pseudoS c).
Hypothesis Hhc : e_histcontent e = [].
Hypothesis Hsilent : forall i, mentions_bs (fs_sid (st c 0)) (fs_onentry (st c i)) = false.
Hypothesis Hsilent_t : forall ti, mentions_b (fs_sid (st c 0)) (ft_body (tr c ti)) = false.
Hypothesis Hbody : forall ti, ft_has_body (tr c ti) = false -> ft_body (tr c ti) = [].
Hypothesis Hdata : fc_late c = false -> forall i, i <> 0 -> fs_data (st c i) = [].
Hypothesis HPAR : forall s, s < nstates c -> fs_type (st c s) = FParallel -> fs_children (st c s) <> [].
Hypothesis Hfin_par : forall i p, fs_type (st c i) = FFinal -> fs_parent (st c i) = Some p -> fs_type (st c p) <> FParallel.
Hypothesis Hfin_up : forall i p a, fs_type (st c i) = FFinal -> fs_parent (st c i) = Some p -> Anc a p ->
  fs_parent (st c p) = Some a \/ fs_type (st c a) <> FParallel.
Hypothesis Huniq : forall q k1 k2, fs_type (st c q) = FCompound -> In k1 (fs_children (st c q)) -> In k2 (fs_children (st c q)) ->
  CF k1 -> CF k2 -> k1 = k2.
Hypothesis HCFp : forall y, CF y -> pseudo y = false.
(* the two "default entry" sets agree on the states that are entered *)
Hypothesis Hflags : forall x ti, is_pseudo (fs_type (st c x)) = true -> In ti (fs_trans (st c x)) ->
  ft_history (tr c ti) || ft_initial (tr c ti) = true.
Hypothesis Hdk : forall i, In i (e_default e) -> fs_type (st c i) = FCompound.
Hypothesis HinitB : forall i x ti, EN i -> fs_parent (st c x) = Some i -> pseudo x = true -> In ti (fs_trans (st c x)) ->
  (In ti ts <-> In i (e_default e) /\ fs_completion (st c i) = [x]).

Lemma type_cases k : pseudo k = false ->
  fs_type (st c k) = FAtomic \/ fs_type (st c k) = FCompound \/ fs_type (st c k) = FParallel \/ fs_type (st c k) = FFinal.
Proof. unfold pseudoS. destruct (fs_type (st c k)); cbn; intros H; auto; discriminate. Qed.

Lemma pseudo_is_initial k : pseudo k = true -> fs_type (st c k) = FInitial.
Proof.
  intros H. pose proof (Hnh k) as Hh. unfold pseudoS, is_pseudo in H. unfold histS, is_hist in Hh.
  destruct (fs_type (st c k)); try discriminate; reflexivity.
Qed.

Lemma par_in_range_h y : fs_type (st c y) = FParallel -> y < nstates c.
Proof.
  intros H. destruct (Nat.lt_ge_cases y (nstates c)) as [|Hge]; [assumption|].
  assert (E : st c y = dummy_state) by (unfold st; now apply nth_overflow). rewrite E in H. discriminate.
Qed.

Lemma par_children_proper y k : fs_type (st c y) = FParallel -> In k (fs_children (st c y)) -> pseudo k = false.
Proof.
  intros Hk Hin. apply (wh_children c W) in Hin. destruct (pseudo k) eqn:E; [|reflexivity]. exfalso.
  destruct (wh_pseudo_parent c W k E) as (q & Hq & Hkq). rewrite Hin in Hq. injection Hq as <-. congruence.
Qed.

Lemma child_states_par y : fs_type (st c y) = FParallel -> child_states c y = fs_children (st c y).
Proof.
  intros Hk. unfold child_states. apply filter_all. intros k Hin. pose proof (par_children_proper y k Hk Hin) as Hp.
  unfold is_proper, sty. unfold pseudoS in Hp. destruct (fs_type (st c k)); try reflexivity; discriminate.
Qed.

Lemma child_states_in y k : In k (child_states c y) -> In k (fs_children (st c y)) /\ pseudo k = false.
Proof.
  unfold child_states. rewrite filter_In. intros [A B]. split; [exact A|]. unfold is_proper, sty in B. unfold pseudoS.
  destruct (fs_type (st c k)); try reflexivity; discriminate.
Qed.

(* below a state without <final>s the two "in a final state" tests say no *)
Lemma nf_large_h cfg : forall fuel y, (forall z, z = y \/ Anc y z -> fs_type (st c z) <> FFinal) ->
  in_final c fuel cfg y = false.
Proof.
  induction fuel as [|f IH]; intros y H; cbn [in_final]; [reflexivity|].
  assert (Hkid : forall k, In k (fs_children (st c y)) -> in_final c f cfg k = false).
  { intros k Hk. apply IH. intros z Hz. apply H. right. apply (wh_children c W) in Hk.
    destruct Hz as [->|Hz]; [now apply anc_parent | eapply (hanc_trans c); [apply anc_parent; exact Hk | exact Hz]]. }
  destruct (fs_type (st c y)) eqn:Ht; try reflexivity.
  - destruct (find (fun ch => mem ch cfg) (fs_children (st c y))) as [k|] eqn:E; [|reflexivity].
    apply find_some in E as [Hk _]. now apply Hkid.
  - pose proof (HPAR y (par_in_range_h y Ht) Ht) as Hne. destruct (fs_children (st c y)) as [|k r] eqn:E; [congruence|].
    cbn [forallb]. rewrite Hkid by now left. reflexivity.
  - exfalso. exact (H y (or_introl eq_refl) Ht).
  - exfalso. pose proof (Hnh y) as Hh. unfold histS in Hh. rewrite Ht in Hh. discriminate.
  - exfalso. pose proof (Hnh y) as Hh. unfold histS in Hh. rewrite Ht in Hh. discriminate.
Qed.

Lemma nf_spec_h cfg : forall fuel y, (forall z, z = y \/ Anc y z -> fs_type (st c z) <> FFinal) ->
  in_final_state c fuel cfg y = false.
Proof.
  induction fuel as [|f IH]; intros y H; cbn [in_final_state]; [reflexivity|].
  assert (Hanc : forall k z, In k (fs_children (st c y)) -> z = k \/ Anc k z -> Anc y z).
  { intros k z Hk Hz. apply (wh_children c W) in Hk.
    destruct Hz as [->|Hz]; [now apply anc_parent | eapply (hanc_trans c); [apply anc_parent; exact Hk | exact Hz]]. }
  unfold is_compound_state, is_parallel_state, sty.
  destruct (fs_type (st c y)) eqn:Ht; try reflexivity.
  - apply not_true_is_false. intros Hex. apply existsb_exists in Hex as (k & Hk & Hf).
    apply child_states_in in Hk as [Hk _].
    apply andb_true_iff in Hf as [Hf _]. unfold is_final_state, sty in Hf.
    destruct (fs_type (st c k)) eqn:Hkt; try discriminate. apply (H k); [right; apply (Hanc k k Hk); now left | exact Hkt].
  - rewrite (child_states_par y Ht).
    pose proof (HPAR y (par_in_range_h y Ht) Ht) as Hne. destruct (fs_children (st c y)) as [|k r] eqn:E; [congruence|].
    cbn [forallb]. rewrite IH; [reflexivity|]. intros z Hz. apply H. right. apply (Hanc k z); [now left | exact Hz].
Qed.

Definition CondG (g : nat) : Prop :=
  forall f, fs_type (st c f) = FFinal -> Anc g f ->
    exists q, fs_parent (st c f) = Some q /\ fs_parent (st c q) = Some g /\ fs_type (st c q) <> FParallel.

Lemma in_final_child_h cfgS g q fuel fuel' :
  CondG g -> fs_parent (st c q) = Some g -> (forall y, In y cfgS -> CF y) -> 2 <= fuel -> 1 <= fuel' ->
  in_final c fuel (0 :: cfgS) q = in_final_state c fuel' cfgS q.
Proof.
  intros HG Hq Hcf Hf Hf'.
  assert (Hgq : Anc g q) by now apply anc_parent.
  destruct fuel as [|[|f2]]; try lia. destruct fuel' as [|f']; try lia.
  destruct (fs_type (st c q)) eqn:Ht.
  - cbn [in_final in_final_state]. unfold is_compound_state, is_parallel_state, sty. rewrite Ht. reflexivity.
  - (* compound *)
    cbn [in_final_state]. unfold is_compound_state, sty. rewrite Ht.
    change (in_final c (S (S f2)) (0 :: cfgS) q) with
      (match fs_type (st c q) with
       | FFinal => true | FAtomic => false
       | FParallel => forallb (in_final c (S f2) (0 :: cfgS)) (fs_children (st c q))
       | FInitial => false
       | FCompound => match find (fun ch => mem ch (0 :: cfgS)) (fs_children (st c q)) with
                      | Some ch => in_final c (S f2) (0 :: cfgS) ch
                      | None => false end
       | FHistShallow | FHistDeep => true end).
    rewrite Ht.
    assert (Hmem : forall k, In k (fs_children (st c q)) -> mem k (0 :: cfgS) = mem k cfgS).
    { intros k Hk. apply (wh_children c W) in Hk. destruct (wh_par_lt c W _ _ Hk) as [Hlt _]. cbn [mem].
      replace (k =? 0) with false by (symmetry; apply Nat.eqb_neq; lia). reflexivity. }
    assert (Hnf : forall k, In k (fs_children (st c q)) -> fs_type (st c k) <> FFinal -> in_final c (S f2) (0 :: cfgS) k = false).
    { intros k Hk Hkf. apply nf_large_h. intros z [->|Hz]; [exact Hkf|]. intros Hzf.
      apply (wh_children c W) in Hk.
      assert (Hgz : Anc g z) by (eapply (hanc_trans c); [exact Hgq|]; eapply (hanc_trans c); [apply anc_parent; exact Hk | exact Hz]).
      destruct (HG z Hzf Hgz) as (q' & Hpz & Hpq' & _).
      destruct (anc_child _ _ _ _ Hpz Hz) as [->|Hkq'].
      - rewrite Hk in Hpq'. injection Hpq' as E0. rewrite E0 in Hq. destruct (wh_par_lt c W _ _ Hq). lia.
      - destruct (anc_child _ _ _ _ Hpq' Hkq') as [->|Hkg].
        + apply (hanc_antisym c W g q Hgq). now apply anc_parent.
        + apply (hanc_antisym c W g k); [eapply (hanc_trans c); [exact Hgq | now apply anc_parent] | exact Hkg]. }
    destruct (find (fun ch => mem ch (0 :: cfgS)) (fs_children (st c q))) as [k|] eqn:E.
    + apply find_some in E as [Hk Hm]. rewrite (Hmem k Hk) in Hm.
      destruct (fs_type (st c k)) eqn:Hkt.
      1,2,3,5,6,7: (rewrite (Hnf k Hk) by congruence; symmetry; apply not_true_is_false; intros Hex;
        apply existsb_exists in Hex as (k' & Hk' & Hfk); apply child_states_in in Hk' as [Hk' _]; apply andb_true_iff in Hfk as [Hfk Hm'];
        assert (k' = k) by (apply (Huniq q k' k Ht Hk' Hk); apply Hcf; now apply mem_In); subst k';
        unfold is_final_state, sty in Hfk; rewrite Hkt in Hfk; discriminate).
      cbn [in_final]. rewrite Hkt. symmetry. apply existsb_exists. exists k. split.
      * unfold child_states. apply filter_In. split; [exact Hk|]. unfold is_proper, sty. now rewrite Hkt.
      * unfold is_final_state, sty. now rewrite Hkt, Hm.
    + symmetry. apply not_true_is_false. intros Hex. apply existsb_exists in Hex as (k' & Hk' & Hfk).
      apply child_states_in in Hk' as [Hk' _].
      apply andb_true_iff in Hfk as [_ Hm']. pose proof (find_none _ _ E k' Hk') as Hn. cbn beta in Hn.
      rewrite (Hmem k' Hk') in Hn. congruence.
  - (* parallel: no <final> below *)
    assert (Hno : forall z, z = q \/ Anc q z -> fs_type (st c z) <> FFinal).
    { intros z [->|Hz] Hzf; [congruence|].
      assert (Hgz : Anc g z) by (eapply (hanc_trans c); eauto).
      destruct (HG z Hzf Hgz) as (q' & Hpz & Hpq' & Hnp).
      destruct (anc_child _ _ _ _ Hpz Hz) as [->|Hqq']; [congruence|].
      destruct (anc_child _ _ _ _ Hpq' Hqq') as [->|Hqg]; [exact (hanc_irrefl c W _ Hgq) | exact (hanc_antisym c W g q Hgq Hqg)]. }
    rewrite nf_large_h, nf_spec_h by exact Hno. reflexivity.
  - (* a <final> child of g *)
    exfalso. destruct (HG q Ht Hgq) as (q' & Hpq & Hpq' & _). rewrite Hq in Hpq. injection Hpq as <-.
    destruct (wh_par_lt c W _ _ Hpq'). lia.
  - exfalso. pose proof (Hnh q) as Hh. unfold histS in Hh. rewrite Ht in Hh. discriminate.
  - exfalso. pose proof (Hnh q) as Hh. unfold histS in Hh. rewrite Ht in Hh. discriminate.
  - cbn [in_final in_final_state]. unfold is_compound_state, is_parallel_state, sty. rewrite Ht. reflexivity.
Qed.

Lemma in_final_parallel_h cfgS g fuel fuel' :
  fs_type (st c g) = FParallel -> CondG g -> (forall y, In y cfgS -> CF y) -> 3 <= fuel -> 1 <= fuel' ->
  in_final c fuel (0 :: cfgS) g = forallb (in_final_state c fuel' cfgS) (child_states c g).
Proof.
  intros Ht HG Hcf Hf Hf'. destruct fuel as [|f1]; [lia|]. cbn [in_final]. rewrite Ht, (child_states_par g Ht).
  assert (Hall : forall l, (forall q, In q l -> In q (fs_children (st c g))) ->
            forallb (in_final c f1 (0 :: cfgS)) l = forallb (in_final_state c fuel' cfgS) l).
  { induction l as [|q r IH]; intros Hl; cbn [forallb]; [reflexivity|].
    rewrite (in_final_child_h cfgS g q f1 fuel' HG) by (try assumption; try lia; apply (wh_children c W); apply Hl; now left).
    rewrite IH by (intros z Hz; apply Hl; now right). reflexivity. }
  apply Hall. auto.
Qed.

Lemma condG_of_final_h i p g : fs_type (st c i) = FFinal -> fs_parent (st c i) = Some p -> fs_parent (st c p) = Some g ->
  fs_type (st c g) = FParallel -> CondG g.
Proof.
  intros _ _ _ Hgt f Hf Hgf.
  inversion Hgf as [? q Hq|? q ? Hq Hgq]; subst.
  - exfalso. exact (Hfin_par f g Hf Hq Hgt).
  - exists q. split; [exact Hq|]. split; [|exact (Hfin_par f q Hf Hq)].
    destruct (Hfin_up f q g Hf Hq Hgq) as [H|H]; [exact H | congruence].
Qed.

(* the content of the <initial> transition *)
Definition fire (cfg1 : list nat) (ti : nat) (x : xstate) : xstate :=
  emit (TTe (ft_vid (tr c ti))) (exec_block ex_fixed (inst_of c cfg1) (ft_body (tr c ti)) (emit (TTb (ft_vid (tr c ti))) x)).

Definition eng_child (cfg1 : list nat) (x : xstate) (ch : nat) : xstate :=
  if is_pseudo (fs_type (st c ch)) then
    fold_left (fun x ti =>
                 let t := tr c ti in
                 if (ft_history t || ft_initial t) && mem ti ts then
                   let y1 := emit (TTb (ft_vid t)) x in
                   let y2 := if ft_has_body t then exec_block ex_fixed (inst_of c cfg1) (ft_body t) y1 else y1 in
                   emit (TTe (ft_vid t)) y2
                 else x) (fs_trans (st c ch)) x
  else x.

Lemma eng_child_proper cfg1 x ch : pseudo ch = false -> eng_child cfg1 x ch = x.
Proof. intros H. unfold eng_child. unfold pseudoS in H. now rewrite H. Qed.

Lemma eng_child_pseudo cfgS x ch i : fs_parent (st c ch) = Some i -> pseudo ch = true ->
  exists ti, fs_trans (st c ch) = [ti] /\
             eng_child (0 :: cfgS) x ch = if mem ti ts then fire cfgS ti x else x.
Proof.
  intros Hp Hps. pose proof (pseudo_is_initial ch Hps) as Hk.
  destruct (wh_initial c W ch i Hk Hp) as (ti & Htr & _). exists ti. split; [exact Htr|].
  unfold eng_child. unfold pseudoS in Hps. rewrite Hps, Htr. cbn [fold_left]. cbn zeta.
  rewrite (Hflags ch ti) by (try assumption; rewrite Htr; now left). cbn [andb].
  destruct (mem ti ts); [|reflexivity]. unfold fire. f_equal.
  destruct (ft_has_body (tr c ti)) eqn:Hh; [apply exec_block_root; apply Hsilent_t | rewrite (Hbody ti Hh); reflexivity].
Qed.

Lemma init_content_conforms cfgS i x4 : EN i ->
  fold_left (eng_child (0 :: cfgS)) (fs_children (st c i)) x4 =
  (if mem i (e_default e)
   then match snd (initial_of c i) with
        | Some t => emit (TTe (ft_vid t)) (exec_block ex_fixed (inst_of c cfgS) (ft_body t) (emit (TTb (ft_vid t)) x4))
        | None => x4
        end
   else x4).
Proof.
  intros Hen.
  assert (Hnone : (forall ch ti, In ch (fs_children (st c i)) -> pseudo ch = true -> In ti (fs_trans (st c ch)) -> ~ In ti ts) ->
                  fold_left (eng_child (0 :: cfgS)) (fs_children (st c i)) x4 = x4).
  { intros Hno. apply fold_none. intros a ch Hch. destruct (pseudo ch) eqn:Hps; [|now apply eng_child_proper].
    apply (wh_children c W) in Hch. destruct (eng_child_pseudo cfgS a ch i Hch Hps) as (ti & Htr & ->).
    destruct (mem ti ts) eqn:Hm; [|reflexivity]. exfalso. apply mem_In in Hm.
    apply (Hno ch ti); [now apply (wh_children c W) | exact Hps | rewrite Htr; now left | exact Hm]. }
  destruct (mem i (e_default e)) eqn:Hd.
  - apply mem_In in Hd. pose proof (Hdk i Hd) as Hki.
    destruct (initial_of_snd c W HcplOK i Hki) as [(x0 & ti0 & Hc & Hkx & Hpx & Htr & Hsnd & _)|(Hprop & Hsnd & _)]; rewrite Hsnd.
    + assert (Hps0 : pseudo x0 = true) by (unfold pseudoS; now rewrite Hkx).
      assert (Hin0 : In ti0 ts) by (apply (HinitB i x0 ti0 Hen Hpx Hps0); [rewrite Htr; now left | auto]).
      rewrite (fold_one (eng_child (0 :: cfgS)) (fire cfgS ti0) (fs_children (st c i)) x0 (wh_children_nodup c W i));
        [reflexivity | now apply (wh_children c W) | |].
      * intros a. destruct (eng_child_pseudo cfgS a x0 i Hpx Hps0) as (ti & Htr' & ->). rewrite Htr in Htr'. injection Htr' as <-.
        apply mem_In in Hin0. now rewrite Hin0.
      * intros a ch Hch Hne. destruct (pseudo ch) eqn:Hps; [|now apply eng_child_proper].
        apply (wh_children c W) in Hch. destruct (eng_child_pseudo cfgS a ch i Hch Hps) as (ti & Htr' & ->).
        destruct (mem ti ts) eqn:Hm; [|reflexivity]. exfalso. apply mem_In in Hm.
        apply (HinitB i ch ti Hen Hch Hps) in Hm as [_ Hc']; [|rewrite Htr'; now left]. rewrite Hc in Hc'. injection Hc' as E. now apply Hne.
    + apply Hnone. intros ch ti Hch Hps Hti Hin. apply (wh_children c W) in Hch.
      apply (HinitB i ch ti Hen Hch Hps Hti) in Hin as [_ Hc']. rewrite (Hprop ch) in Hps; [discriminate | rewrite Hc'; now left].
  - apply mem_false_In in Hd. apply Hnone. intros ch ti Hch Hps Hti Hin. apply (wh_children c W) in Hch.
    apply (HinitB i ch ti Hen Hch Hps Hti) in Hin as [Hin _]. contradiction.
Qed.

Definition erel' (a : enter_acc) (sx : sstate * xstate) : Prop :=
  erel c a sx /\ forall y, In y (s_cfg (fst sx)) -> CF y.

Lemma tails_conform_h cfgS initd1 entered1 s x2 i : 0 < i -> i < nstates c -> EN i ->
  data_rel c initd1 entered1 -> (forall y, In y cfgS -> CF y) ->
  erel c (l_tail c ts (0 :: cfgS) initd1 (negb (s_running s)) x2 i) (s_tail c e cfgS entered1 s x2 i) /\
  s_cfg (fst (s_tail c e cfgS entered1 s x2 i)) = cfgS.
Proof.
  intros Hi Hin Hen HD Hcf. destruct (wh_par_some c W i Hi Hin) as (p & Hp).
  unfold l_tail, s_tail. cbn zeta.
  rewrite exec_blocks_root by apply Hsilent. rewrite Hhc. cbn [rev fold_left].
  set (x4 := emit (TEe (fs_sid (st c i))) (exec_blocks ex_fixed (inst_of c cfgS) (fs_onentry (st c i)) x2)).
  change (fold_left _ (fs_children (st c i)) x4) with (fold_left (eng_child (0 :: cfgS)) (fs_children (st c i)) x4).
  rewrite (init_content_conforms cfgS i x4 Hen).
  set (x5 := if mem i (e_default e) then _ else x4).
  unfold is_final_state, sty.
  destruct (fs_type (st c i)) eqn:Hty;
    try (split; [|reflexivity]; unfold erel; cbn [fst snd ea_cfg ea_tlf ea_initd ea_x s_cfg s_running s_entered]; repeat split; assumption).
  rewrite Hp. pose proof (Hfin_par i p Hty Hp) as Hpnp.
  destruct p as [|p'].
  - assert (Hw : done_walk c (n_states c) (0 :: cfgS) (Some 0) x5 = x5).
    { apply done_walk_none. intros b [->|Hb]; [exact Hpnp | exfalso; exact (no_anc_root _ (wh_root_par c W) _ Hb)]. }
    rewrite Hw. split; [|reflexivity].
    unfold erel; cbn [fst snd ea_cfg ea_tlf ea_initd ea_x s_cfg s_running s_entered]. repeat split; try assumption.
    now rewrite orb_true_r.
  - destruct (wh_par_lt c W _ _ Hp) as [Hplt _].
    destruct (wh_par_some c W (S p') ltac:(lia) ltac:(lia)) as (g & Hg). rewrite Hg.
    destruct (wh_par_lt c W _ _ Hg) as [Hglt _].
    assert (Hn3 : 3 <= n_states c) by (unfold n_states; lia).
    assert (Habove : forall b, Anc b g -> fs_type (st c b) <> FParallel).
    { intros b Hb. destruct (Hfin_up i (S p') b Hty Hp) as [H|H]; [eapply anc_step; eauto | | exact H].
      exfalso. rewrite Hg in H. injection H as <-. exact (hanc_irrefl c W _ Hb). }
    assert (Hup : forall f y, done_walk c f (0 :: cfgS) (fs_parent (st c g)) y = y).
    { intros f y. destruct (fs_parent (st c g)) as [gg|] eqn:Hgg; [|apply done_walk_top].
      apply done_walk_none. intros b [->|Hb]; apply Habove; [now apply anc_parent | eapply anc_step; eauto]. }
    destruct (n_states c) as [|[|n2]] eqn:En; try lia.
    rewrite done_walk_step by exact Hpnp. rewrite Hg.
    change (spec_done_event c) with (done_event c).
    destruct (fs_type (st c g)) eqn:Hgt.
    1,2,4,5,6,7: (rewrite done_walk_step by congruence; rewrite Hup; unfold is_parallel_state, sty; rewrite Hgt; cbn [andb];
      split; [|reflexivity]; unfold erel; cbn [fst snd ea_cfg ea_tlf ea_initd ea_x s_cfg s_running s_entered];
      repeat split; try assumption; now rewrite orb_false_r).
    rewrite done_walk_par by exact Hgt. rewrite En.
    rewrite (in_final_parallel_h cfgS g (S (S n2)) (Spec.n c) Hgt (condG_of_final_h i (S p') g Hty Hp Hg Hgt) Hcf)
      by (unfold Spec.n, n_states in *; lia).
    unfold is_parallel_state, sty. rewrite Hgt. cbn [andb].
    destruct (forallb (in_final_state c (Spec.n c) cfgS) (child_states c g)); [rewrite Hup|];
      (split; [|reflexivity]; unfold erel; cbn [fst snd ea_cfg ea_tlf ea_initd ea_x s_cfg s_running s_entered];
       repeat split; try assumption; now rewrite orb_false_r).
Qed.

Lemma enter_one_conforms_h a sx i : erel' a sx -> 0 < i -> i < nstates c -> CF i -> EN i ->
  erel' (enter_one ex_fixed c ts a i) (spec_enter_one c e sx i).
Proof.
  intros [(Hc & Ht & Hd & Hx) Hcf] Hi Hin Hic Hen. destruct sx as [s x]. cbn [fst snd] in *.
  assert (Hcf1 : forall y, In y (insert_sorted i (s_cfg s)) -> CF y).
  { intros y Hy. apply In_insert_sorted' in Hy as [->|Hy]; [exact Hic | now apply Hcf]. }
  pose proof (HCFp i Hic) as Hpi. unfold pseudoS in Hpi.
  rewrite enter_one_staged, spec_enter_one_staged, Hpi.
  rewrite Hc, Hx, Ht, (insert_sorted_root i (s_cfg s)) by lia.
  assert (Hfinish : forall initd1 entered1 x2, data_rel c initd1 entered1 ->
     erel' (l_tail c ts (0 :: insert_sorted i (s_cfg s)) initd1 (negb (s_running s)) x2 i)
           (s_tail c e (insert_sorted i (s_cfg s)) entered1 s x2 i)).
  { intros initd1 entered1 x2 HD. destruct (tails_conform_h (insert_sorted i (s_cfg s)) initd1 entered1 s x2 i Hi Hin Hen HD Hcf1) as [A B].
    split; [exact A | rewrite B; exact Hcf1]. }
  destruct (fs_data (st c i)) as [|d0 ds] eqn:Hdt.
  - destruct (fc_late c && negb (mem i (s_entered s))); cbn [fold_left]; apply Hfinish; try assumption.
    intros j Hj. rewrite mem_insert_sorted. destruct (j =? i) eqn:E; [apply Nat.eqb_eq in E; subst; congruence|]. now apply Hd.
  - assert (Hl : fc_late c = true).
    { destruct (fc_late c) eqn:E; [reflexivity|]. rewrite (Hdata eq_refl i) in Hdt by lia. discriminate. }
    rewrite Hl. cbn [andb]. rewrite <- (Hd i) by (rewrite Hdt; discriminate).
    destruct (mem i (ea_initd a)); cbn [negb]; apply Hfinish; try assumption.
    intros j Hj. rewrite !mem_insert_sorted. now rewrite (Hd j Hj).
Qed.

Lemma enter_fold_conforms_h es : forall a sx, erel' a sx -> (forall i, In i es -> 0 < i /\ i < nstates c /\ CF i /\ EN i) ->
  erel' (fold_left (enter_one ex_fixed c ts) es a) (fold_left (spec_enter_one c e) es sx).
Proof.
  induction es as [|i r IH]; intros a sx Hr Hb; cbn [fold_left]; [exact Hr|].
  apply IH; [|intros j Hj; apply Hb; now right].
  destruct (Hb i (or_introl eq_refl)) as (A & B & C & D'). now apply enter_one_conforms_h.
Qed.

(* pseudo-states in the engine's list are skipped *)
Lemma enter_fold_proper es a :
  fold_left (enter_one ex_fixed c ts) es a = fold_left (enter_one ex_fixed c ts) (filter (fun i => negb (is_pseudo (fs_type (st c i)))) es) a.
Proof.
  revert a. apply fold_skip. intros a i H. apply negb_false_iff in H. unfold enter_one. now rewrite H.
Qed.

End EnterH.
