(* RunConformInitialFlags.v -- LargeMicroStep::init (Chart.flatten) flags the transitions of <history> and <initial>
   elements: for every document the condition init_flagsb of RunConformInitialWf.v holds, so it is no hypothesis of
   the theorems about flatten.  Proofs only. *)
From V Require Import Base NameMatch Chart Exec Large LargeLemmas SetLemmas LargeCacheLemmas FlattenWfStruct MicroConformCompose.
Local Open Scope nat_scope.

Lemma fs_type_flatten late t s : s < nstates (flatten late t) ->
  fs_type (st (flatten late t) s) = type_of (fst (nth s (doc_nodes (resort t) 0 None) (resort t, None))).
Proof.
  unfold nstates, st, flatten. cbn [fc_states]. rewrite map_length, combine_length, seq_length, Nat.min_id.
  intros Hs.
  set (nodes := doc_nodes (resort t) 0 None) in *.
  set (g := fun p : tree * option nat * nat => let '(t0, parent, i) := p in _).
  rewrite (nth_indep _ dummy_state (g ((resort t, None), 0))) by (now rewrite map_length, combine_length, seq_length, Nat.min_id).
  rewrite map_nth, combine_nth by (now rewrite seq_length).
  rewrite seq_nth by exact Hs. cbn [plus].
  destruct (nth s nodes (resort t, None)) as [t1 p1]. reflexivity.
Qed.

Theorem flatten_init_flags late t x ti :
  is_pseudo (fs_type (st (flatten late t) x)) = true -> In ti (fs_trans (st (flatten late t) x)) ->
  ft_history (tr (flatten late t) ti) || ft_initial (tr (flatten late t) ti) = true.
Proof.
  intros Hp Hti.
  assert (Hx : x < nstates (flatten late t)).
  { destruct (Nat.lt_ge_cases x (nstates (flatten late t))) as [H|H]; [exact H|].
    unfold st in Hp. rewrite nth_overflow in Hp by exact H. discriminate. }
  rewrite (fs_type_flatten late t x Hx) in Hp. rewrite (fs_trans_flatten late t x Hx) in Hti.
  set (nodes := doc_nodes (resort t) 0 None) in *. set (root := resort t) in *.
  set (trs := all_trans nodes root) in *.
  set (d := (0, {| tt_vid := 0%N; tt_event := None; tt_cond := None; tt_targets := None; tt_internal := false; tt_body := [] |}, KState)).
  pose proof (index_where_range _ trs 0 ti Hti) as [_ Hlt]. cbn [Nat.add] in Hlt.
  destruct (index_where_spec (fun y : nat * ttrans * skind => fst (fst y) =? x) d trs 0) as [_ Hsp].
  specialize (Hsp ti Hti) as [_ Hsrc]. rewrite Nat.sub_0_r in Hsrc. apply Nat.eqb_eq in Hsrc.
  assert (Hin : In (nth ti trs d) trs) by now apply nth_In.
  unfold trs at 2 in Hin. unfold all_trans in Hin. apply in_flat_map in Hin as (i & _ & Hin).
  apply in_map_iff in Hin as (y & Hy & _).
  assert (Hk : snd (nth ti trs d) = t_kind (fst (nth x nodes (root, None)))).
  { rewrite <- Hy in Hsrc. cbn [fst] in Hsrc. subst i. rewrite <- Hy. reflexivity. }
  unfold tr, flatten. cbn [fc_trans]. fold root. fold nodes. fold trs.
  set (ids := map _ (combine nodes (seq 0 (length nodes)))).
  rewrite (nth_indep _ dummy_trans (mk_trans ids (fst (fst d)) (snd d) (snd (fst d)))) by (now rewrite map_length).
  rewrite (map_nth (fun x0 => mk_trans ids (fst (fst x0)) (snd x0) (snd (fst x0))) trs d ti).
  unfold mk_trans. cbn [ft_history ft_initial]. rewrite Hk.
  unfold type_of in Hp. destruct (t_kind (fst (nth x nodes (root, None)))); cbn in *; try reflexivity; try discriminate.
  - destruct (has_proper_child _); discriminate.
  - destruct (has_proper_child _); discriminate.
Qed.

(* the completion of a compound state is an ascending list (getCompletion returns a flat_set) *)
Lemma completion_of_compound_sorted nodes ids i t p kid : type_of t = FCompound -> ssorted (completion_of nodes ids i t p kid).
Proof.
  unfold type_of, completion_of. destruct (t_kind t); try discriminate; intros _.
  all: destruct (t_initattr t); [apply ssorted_set_of_list|].
  all: destruct (find _ (combine (t_kids t) kid)) as [q|]; [cbn; split; [intros y [] | exact I]|].
  all: destruct (find _ (combine (t_kids t) kid)) as [q|]; [cbn; split; [intros y [] | exact I] | exact I].
Qed.

Theorem flatten_compound_completion_sorted late t s :
  fs_type (st (flatten late t) s) = FCompound -> ssorted (fs_completion (st (flatten late t) s)).
Proof.
  intros Hk.
  assert (Hs : s < nstates (flatten late t)).
  { destruct (Nat.lt_ge_cases s (nstates (flatten late t))) as [H|H]; [exact H|].
    unfold st in Hk. rewrite nth_overflow in Hk by exact H. discriminate. }
  revert Hk Hs. unfold nstates, st, flatten. cbn [fc_states]. rewrite map_length, combine_length, seq_length, Nat.min_id.
  intros Hk Hs. revert Hk.
  set (nodes := doc_nodes (resort t) 0 None) in *.
  set (g := fun p : tree * option nat * nat => let '(t0, parent, i) := p in _).
  rewrite (nth_indep _ dummy_state (g ((resort t, None), 0))) by (now rewrite map_length, combine_length, seq_length, Nat.min_id).
  rewrite map_nth, combine_nth by (now rewrite seq_length).
  rewrite seq_nth by exact Hs. cbn [plus].
  destruct (nth s nodes (resort t, None)) as [t1 p1]. unfold g. cbn [fs_type fs_completion]. intros Hk.
  now apply completion_of_compound_sorted.
Qed.
