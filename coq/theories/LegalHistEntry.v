(* LegalHistEntry.v -- the invariant of LargeMicroStep's "iterate for descendants" loop (Large.descend_one /
   entry_set) on charts with pseudo-states (record WFH of LegalHistBase.v): every visited state of the
   entry set adds a fragment below itself (compound: its completion as written plus ancestors; <initial>:
   the targets of its transition plus ancestors; <history>: the recorded states or the default targets)
   and no compound ever gets two proper children. *)
From V Require Import Base NameMatch Chart Exec Large LargeLemmas Legal SetLemmas LegalAbstract LegalLarge LegalHistBase.
Local Open Scope nat_scope.

Section HEntry.
Variable c : fchart.
Let n := nstates c.
Let par (i : nat) := fs_parent (st c i).
Let ch (i : nat) := fs_children (st c i).
Let kd (i : nat) := fs_type (st c i).
Let cpl (i : nat) := fs_completion (st c i).
Notation Anc := (Anc par).
Notation pseudo := (pseudoS c).

Hypothesis W : WFH c.

(* ------------------------------------------------------------------ recorded history *)

(* what history h would restore *)
Definition Rh (hist : list nat) (h x : nat) : Prop := In x (cpl h) /\ In x hist.

(* the recorded part of every history is empty or a fragment of proper states below the history's parent *)
Definition HistOK (hist : list nat) : Prop :=
  (forall x, In x hist -> pseudo x = false) /\
  forall h q, histS c h = true -> par h = Some q -> (forall x, ~ Rh hist h x) \/ Frag c q (Rh hist h).

Lemma HistOK_nil : HistOK [].
Proof. split; [intros x [] | intros h q _ _; left; intros x [_ []]]. Qed.

(* ------------------------------------------------------------------ list-level helpers *)

Lemma In_fold_cond_union (P : nat -> bool) (f : nat -> list nat) l : forall acc x,
  In x (fold_left (fun a y => if P y then a else set_union a (f y)) l acc) <->
  In x acc \/ exists y, In y l /\ P y = false /\ In x (f y).
Proof.
  induction l as [|y r IH]; intros acc x; cbn [fold_left].
  - split; [tauto | intros [H|(y & [] & _)]; exact H].
  - rewrite IH. destruct (P y) eqn:E.
    + split.
      * intros [H|(z & Hz & Hp & Hx)]; [tauto | right; exists z; cbn; tauto].
      * intros [H|(z & [->|Hz] & Hp & Hx)]; [tauto | congruence | right; exists z; tauto].
    + rewrite In_set_union. split.
      * intros [[H|H]|(z & Hz & Hp & Hx)]; [tauto | right; exists y; cbn; tauto | right; exists z; cbn; tauto].
      * intros [H|(z & [->|Hz] & Hp & Hx)]; [tauto | tauto | right; exists z; tauto].
Qed.

Lemma In_fold_ins_union (f : nat -> list nat) l : forall acc x,
  In x (fold_left (fun e y => set_union (insert_sorted y e) (f y)) l acc) <->
  In x acc \/ exists y, In y l /\ (x = y \/ In x (f y)).
Proof.
  induction l as [|y r IH]; intros acc x; cbn [fold_left].
  - split; [tauto | intros [H|(y & [] & _)]; exact H].
  - rewrite IH, In_set_union, In_insert_sorted'. split.
    + intros [[[->|H]|H]|(z & Hz & Hx)]; [right; exists y; cbn; tauto | tauto | right; exists y; cbn; tauto | right; exists z; cbn; tauto].
    + intros [H|(z & [->|Hz] & Hx)]; [tauto | tauto | right; exists z; tauto].
Qed.

(* ------------------------------------------------------------------ the loop *)

Section Loop.
Variable cfg exitset hist tg ts0 : list nat.
Hypothesis tg_bound : forall g, In g tg -> 0 < g /\ g < n.
Hypothesis HH : HistOK hist.

Definition HE0 : list nat := add_ancestors c tg.

Lemma In_HE0 x : In x HE0 <-> exists g, In g tg /\ on_pathP c x g.
Proof.
  unfold HE0, add_ancestors. rewrite In_fold_union. unfold on_pathP. split.
  - intros [H|(g & Hg & Hx)]; [exists x; tauto | exists g; split; [exact Hg|]; right; now apply (wh_anc c W)].
  - intros (g & Hg & [->|Ha]); [tauto | right; exists g; split; [exact Hg|]; now apply (wh_anc c W)].
Qed.

(* the targets name at most one child of every compound *)
Hypothesis HE0_uniq : forall i k1 k2, kd i = FCompound -> par k1 = Some i -> par k2 = Some i ->
  In k1 HE0 -> In k2 HE0 -> k1 = k2.

Definition surv (k : nat) : Prop := In k cfg /\ ~ In k exitset.

Definition hblocked (es : list nat) (i : nat) : Prop := exists k, In k (ch i) /\ (In k es \/ surv k).

Lemma existsb_hblocked es i :
  existsb (fun k => mem k es || (negb (mem k exitset) && mem k cfg)) (ch i) = true <-> hblocked es i.
Proof.
  unfold hblocked, surv. rewrite existsb_exists. split; intros (k & Hin & H); exists k; (split; [exact Hin|]).
  - apply orb_true_iff in H as [H|H]; [left; now apply mem_In|].
    apply andb_true_iff in H as [H1 H2]. apply negb_true_iff, mem_false_In in H1. apply mem_In in H2. tauto.
  - apply orb_true_iff. destruct H as [H|[H1 H2]]; [left; now apply mem_In|].
    right. apply andb_true_iff. split; [apply negb_true_iff, mem_false_In; exact H2 | now apply mem_In].
Qed.

(* a property of the members of the entry set that is inherited along the additions of the loop *)
Variable Q : nat -> Prop.
Hypothesis Q0 : forall x, In x HE0 -> Q x.
Hypothesis Qpar : forall j x, Q j -> kd j = FParallel -> par x = Some j -> Q x.
Hypothesis Qcomp : forall j x, Q j -> kd j = FCompound -> (forall k, par k = Some j -> ~ surv k) -> Anc j x -> Q x.
Hypothesis Qpseudo : forall j q x, Q j -> pseudo j = true -> par j = Some q -> Anc q x -> Q x.

Record HInv (j : nat) (es : list nat) : Prop := {
  hi_base : forall x, In x HE0 -> pseudo x = false -> In x es;
  hi_Q : forall x, In x es -> Q x;
  hi_bound : forall x, In x es -> x < n;
  hi_closed : closedS c (fun x => In x es);
  hi_uniq : forall i k1 k2, kd i = FCompound -> par k1 = Some i -> par k2 = Some i -> In k1 es -> In k2 es -> k1 <> k2 ->
     (pseudo k1 = true /\ k1 < j /\ pseudo k2 = false) \/ (pseudo k2 = true /\ k2 < j /\ pseudo k1 = false);
  hi_done : forall i, i < j -> In i es ->
     (kd i = FParallel -> forall k, In k (ch i) -> In k es) /\
     (kd i = FCompound -> exists k, par k = Some i /\ (surv k \/ (In k es /\ (pseudo k = false \/ j <= k))))
}.

Lemma HE0_bound x : In x HE0 -> x < n.
Proof.
  intros H. apply In_HE0 in H as (g & Hg & [->|Ha]).
  - now apply tg_bound.
  - destruct (hanc_lt c W _ _ Ha). destruct (tg_bound g Hg). lia.
Qed.

Lemma HE0_closed : closedS c (fun x => In x HE0).
Proof.
  intros x p H0 Hp. apply In_HE0 in H0 as (g & Hg & Hx). apply In_HE0. exists g. split; [exact Hg|].
  right. destruct Hx as [->|Ha]; [now apply anc_parent | eapply (hanc_trans c); [apply anc_parent; eauto | exact Ha]].
Qed.

Lemma HInv_0 : HInv 0 HE0.
Proof.
  constructor.
  - auto.
  - exact Q0.
  - exact HE0_bound.
  - exact HE0_closed.
  - intros i k1 k2 Hi H1 H2 He1 He2 Hne. exfalso. apply Hne. eapply HE0_uniq; eauto.
  - intros i Hi. lia.
Qed.

(* nothing is added *)
Lemma HInv_keep j es : HInv j es ->
  (In j es -> pseudo j = false /\ kd j <> FParallel /\ (kd j = FCompound -> hblocked es j)) ->
  HInv (S j) es.
Proof.
  intros HI Hj. constructor.
  - exact (hi_base _ _ HI).
  - exact (hi_Q _ _ HI).
  - exact (hi_bound _ _ HI).
  - exact (hi_closed _ _ HI).
  - intros i k1 k2 Hi H1 H2 He1 He2 Hne.
    destruct (hi_uniq _ _ HI i k1 k2 Hi H1 H2 He1 He2 Hne) as [(A & B & C)|(A & B & C)]; [left | right]; repeat split; auto; lia.
  - intros i Hi Hie. destruct (Nat.eq_dec i j) as [->|Hne].
    + destruct (Hj Hie) as (Hps & Hnp & Hc). split; [intros Hk; contradiction|].
      intros Hk. destruct (Hc Hk) as (k & Hin & Hb). exists k.
      assert (Hpk : par k = Some j) by now apply (wh_children c W).
      split; [exact Hpk|]. destruct Hb as [Hb|Hb]; [right | now left].
      split; [exact Hb|]. right. destruct (wh_par_lt c W _ _ Hpk). lia.
    + destruct (hi_done _ _ HI i ltac:(lia) Hie) as [Hp Hc]. split; [exact Hp|].
      intros Hk. destruct (Hc Hk) as (k & Hpk & [Hs|[He [Hps|Hle]]]); exists k; (split; [exact Hpk|]); [now left | right; tauto|].
      right. split; [exact He|].
      destruct (Nat.eq_dec k j) as [->|Hkj]; [left; exact (proj1 (Hj He)) | right; lia].
Qed.

(* a parallel state adds its children *)
Lemma HInv_par j es es' : HInv j es -> In j es -> kd j = FParallel ->
  (forall x, In x es' <-> In x es \/ In x (ch j)) -> HInv (S j) es'.
Proof.
  intros HI Hje Hk Hes.
  assert (Hold : forall x, In x es' -> ~ In x es -> par x = Some j).
  { intros x Hx Hn. apply Hes in Hx as [Hx|Hx]; [contradiction | now apply (wh_children c W)]. }
  constructor.
  - intros x Hx Hpx. apply Hes. left. now apply (hi_base _ _ HI).
  - intros x Hx. apply Hes in Hx as [Hx|Hx]; [now apply (hi_Q _ _ HI)|].
    apply (wh_children c W) in Hx. exact (Qpar j x (hi_Q _ _ HI j Hje) Hk Hx).
  - intros x Hx. apply Hes in Hx as [Hx|Hx]; [now apply (hi_bound _ _ HI)|].
    apply (wh_children c W) in Hx. now destruct (wh_par_lt c W _ _ Hx).
  - intros x p Hx Hp. apply Hes. left. apply Hes in Hx as [Hx|Hx]; [exact (hi_closed _ _ HI x p Hx Hp)|].
    apply (wh_children c W) in Hx. pose proof (eq_trans (eq_sym Hp) Hx) as E. injection E as ->. exact Hje.
  - intros i k1 k2 Hi H1 H2 He1 He2 Hne.
    assert (Hin : forall k, par k = Some i -> In k es' -> In k es).
    { intros k Hpk Hke. destruct (in_dec Nat.eq_dec k es) as [H|H]; [exact H|]. exfalso.
      pose proof (Hold k Hke H) as Hpj. pose proof (eq_trans (eq_sym Hpk) Hpj) as E. injection E as ->.
      unfold kd in *. congruence. }
    destruct (hi_uniq _ _ HI i k1 k2 Hi H1 H2 (Hin _ H1 He1) (Hin _ H2 He2) Hne) as [(A & B & C)|(A & B & C)];
      [left | right]; repeat split; auto; lia.
  - intros i Hi Hie.
    assert (Hie0 : In i es).
    { destruct (in_dec Nat.eq_dec i es) as [H|H]; [exact H|]. exfalso.
      pose proof (Hold i Hie H) as Hp. destruct (wh_par_lt c W _ _ Hp). lia. }
    destruct (Nat.eq_dec i j) as [->|Hne].
    + split; [|intros Hc; unfold kd in *; congruence]. intros _ k Hin. apply Hes. now right.
    + destruct (hi_done _ _ HI i ltac:(lia) Hie0) as [Hp Hc]. split.
      * intros Hki k Hin. apply Hes. left. now apply Hp.
      * intros Hki. destruct (Hc Hki) as (k & Hpk & [Hs|[He [Hps|Hle]]]); exists k; (split; [exact Hpk|]);
          [now left | right; split; [apply Hes; now left | now left]|].
        right. split; [apply Hes; now left|].
        destruct (Nat.eq_dec k j) as [->|Hkj]; [left; unfold pseudoS; fold (kd j); now rewrite Hk | right; lia].
Qed.

(* a fragment is added below q: q = j for a compound that is not blocked, q = the parent for a pseudo-state;
   the pseudo-state itself may be taken out of the set (rm; the fast engine does that for <initial>) *)
Lemma HInv_grow_rm (rm : bool) j es es' q (S : nat -> Prop) : HInv j es -> In j es ->
  ((q = j /\ kd j = FCompound /\ ~ hblocked es j /\ rm = false) \/
   (pseudo j = true /\ par j = Some q /\ forall x, S x -> pseudo x = false)) ->
  Frag c q S -> (forall x, S x -> j < x /\ x < n) ->
  (forall x, In x es' <-> (In x es /\ (rm = true -> x <> j)) \/ S x) -> HInv (Datatypes.S j) es'.
Proof.
  intros HI Hje Hcase HF Hgt Hes.
  assert (Hrm : rm = true -> pseudo j = true).
  { intros E. destruct Hcase as [(_ & _ & _ & E')|(Hps & _)]; [congruence | exact Hps]. }
  assert (Hkeep : forall x, In x es -> pseudo x = false -> In x es').
  { intros x Hx Hp. apply Hes. left. split; [exact Hx|]. intros E ->. rewrite (Hrm E) in Hp. discriminate. }
  assert (Hback : forall x, In x es' -> In x es \/ S x) by (intros x Hx; apply Hes in Hx; tauto).
  assert (Hqe : In q es).
  { destruct Hcase as [(-> & _)|(_ & Hp & _)]; [exact Hje | exact (hi_closed _ _ HI j q Hje Hp)]. }
  (* nothing of the entry set lies strictly below q, except a pseudo-state j itself *)
  assert (Hnodesc : forall x, In x es -> Anc q x -> x = j /\ pseudo j = true /\ par j = Some q).
  { intros x Hx Ha.
    destruct (closed_desc_child c (fun x => In x es) q x (hi_closed _ _ HI) Hx Ha) as (k & Hk & Hke & Hon).
    destruct Hcase as [(-> & Hkj & Hnb & _)|(Hps & Hp & _)].
    - exfalso. apply Hnb. exists k. split; [now apply (wh_children c W) | now left].
    - destruct (wh_pseudo_parent c W j Hps) as (q' & Hq' & Hkq). pose proof (eq_trans (eq_sym Hp) Hq') as E. injection E as <-.
      destruct (Nat.eq_dec k j) as [->|Hne].
      + split; [|tauto]. destruct Hon as [->|Hjx]; [reflexivity | exfalso; exact (pseudo_no_anc c W j x Hps Hjx)].
      + exfalso. destruct (hi_uniq _ _ HI q k j Hkq Hk Hp Hke Hje Hne) as [(_ & _ & C)|(_ & B & _)]; [congruence | lia]. }
  constructor.
  - intros x Hx Hpx. apply Hkeep; [now apply (hi_base _ _ HI) | exact Hpx].
  - intros x Hx. apply Hback in Hx as [Hx|Hx]; [now apply (hi_Q _ _ HI)|].
    pose proof (fr_below c q S HF x Hx) as Hqx. pose proof (hi_Q _ _ HI j Hje) as HQj.
    destruct Hcase as [(-> & Hkj & Hnb & _)|(Hps & Hp & _)].
    + apply (Qcomp j x HQj Hkj); [|exact Hqx]. intros k Hpk Hs. apply Hnb. exists k.
      split; [now apply (wh_children c W) | now right].
    + exact (Qpseudo j q x HQj Hps Hp Hqx).
  - intros x Hx. apply Hback in Hx as [Hx|Hx]; [now apply (hi_bound _ _ HI) | now apply Hgt].
  - intros x p Hx Hp. apply Hback in Hx as [Hx|Hx].
    + apply Hkeep; [exact (hi_closed _ _ HI x p Hx Hp) | exact (parent_not_pseudo c W x p Hp)].
    + destruct (fr_par c q S HF x p Hx Hp) as [->|Hsp]; [|apply Hes; now right].
      apply Hkeep; [exact Hqe | exact (parent_not_pseudo c W x q Hp)].
  - intros i k1 k2 Hi H1 H2 He1 He2 Hne.
    (* a new child of i next to an old one: i = q and the old one is the pseudo-state j *)
    assert (Hmix : forall a b, par a = Some i -> par b = Some i -> S a -> In b es ->
                               pseudo b = true /\ b < Datatypes.S j /\ pseudo a = false).
    { intros a b Ha Hb HSa Hbe.
      assert (Hqb : Anc q b).
      { destruct (fr_par c q S HF a i HSa Ha) as [->|HSi]; [now apply anc_parent|].
        eapply anc_step; [exact Hb | exact (fr_below c q S HF i HSi)]. }
      destruct (Hnodesc b Hbe Hqb) as (-> & Hps & Hpj).
      split; [exact Hps|]. split; [lia|].
      destruct Hcase as [(_ & Hkj & _)|(_ & _ & Hprop)]; [|now apply Hprop].
      unfold pseudoS in Hps. fold (kd j) in Hps. rewrite Hkj in Hps. discriminate. }
    destruct (in_dec Nat.eq_dec k1 es) as [A1|A1], (in_dec Nat.eq_dec k2 es) as [A2|A2].
    + destruct (hi_uniq _ _ HI i k1 k2 Hi H1 H2 A1 A2 Hne) as [(A & B & C)|(A & B & C)]; [left | right]; repeat split; auto; lia.
    + left. apply Hback in He2 as [He2|He2]; [contradiction|]. exact (Hmix k2 k1 H2 H1 He2 A1).
    + right. apply Hback in He1 as [He1|He1]; [contradiction|]. exact (Hmix k1 k2 H1 H2 He1 A2).
    + exfalso. apply Hback in He1 as [He1|He1]; [contradiction|]. apply Hback in He2 as [He2|He2]; [contradiction|].
      apply Hne. exact (fr_uniq c q S HF i k1 k2 Hi H1 H2 He1 He2).
  - intros i Hi Hie.
    assert (Hie0 : In i es).
    { apply Hback in Hie as [H|H]; [exact H|]. destruct (Hgt i H). lia. }
    destruct (fr_child c q S HF) as (kq & Hkq & HSkq).
    assert (Hkq' : In kq es') by (apply Hes; now right).
    destruct (Nat.eq_dec i j) as [->|Hne].
    + destruct Hcase as [(-> & Hkj & _)|(Hps & _ & _)].
      * split; [intros Hp; unfold kd in *; congruence|]. intros _. exists kq. split; [exact Hkq|]. right.
        split; [exact Hkq'|]. right. destruct (Hgt kq HSkq). lia.
      * unfold pseudoS in Hps. fold (kd j) in Hps. split; intros Hkj; rewrite Hkj in Hps; discriminate.
    + destruct (hi_done _ _ HI i ltac:(lia) Hie0) as [Hp Hc]. split.
      * intros Hki k Hin. pose proof (Hp Hki k Hin) as Hke. apply Hes. left. split; [exact Hke|].
        intros E ->. destruct (wh_pseudo_parent c W j (Hrm E)) as (q' & Hq' & Hkq2).
        apply (wh_children c W) in Hin. pose proof (eq_trans (eq_sym Hin) Hq') as E2. injection E2 as ->.
        unfold kd in *. congruence.
      * intros Hki. destruct (Hc Hki) as (k & Hpk & [Hs|[He [Hps|Hle]]]).
        -- exists k. split; [exact Hpk | now left].
        -- exists k. split; [exact Hpk|]. right. split; [now apply Hkeep | now left].
        -- destruct (Nat.eq_dec k j) as [->|Hkj].
           ++ destruct Hcase as [(_ & Hkj & _ & Erm)|(Hps & Hpj & Hprop)].
              ** exists j. split; [exact Hpk|]. right. split; [|left; unfold pseudoS; fold (kd j); now rewrite Hkj].
                 apply Hes. left. split; [exact He | intros E; congruence].
              ** pose proof (eq_trans (eq_sym Hpj) Hpk) as E. injection E as <-.
                 exists kq. split; [exact Hkq|]. right. split; [exact Hkq'|]. left. now apply Hprop.
           ++ exists k. split; [exact Hpk|]. right. split; [|right; lia].
              apply Hes. left. split; [exact He | intros _; exact Hkj].
Qed.

Lemma HInv_grow j es es' q (S : nat -> Prop) : HInv j es -> In j es ->
  ((q = j /\ kd j = FCompound /\ ~ hblocked es j) \/
   (pseudo j = true /\ par j = Some q /\ forall x, S x -> pseudo x = false)) ->
  Frag c q S -> (forall x, S x -> j < x /\ x < n) ->
  (forall x, In x es' <-> In x es \/ S x) -> HInv (Datatypes.S j) es'.
Proof.
  intros HI Hje Hcase HF Hgt Hes. apply (HInv_grow_rm false j es es' q S HI Hje); auto.
  - destruct Hcase as [(A & B & C)|H]; [left; tauto | right; exact H].
  - intros x. rewrite Hes. split; [intros [H|H]; [left; split; [exact H | discriminate] | now right] | tauto].
Qed.

(* ---- the additions of the single cases are fragments ---- *)

Lemma ch_nil_pseudo j : pseudo j = true -> forall k, ~ In k (ch j).
Proof. intros Hps k Hk. apply (wh_children c W) in Hk. exact (wh_pseudo_leaf c W j k Hps Hk). Qed.

(* es ∪ T ∪ all ancestors of T, for T below q, q in the closed set es: es ∪ IC q T *)
Lemma full_closed_IC es q T x : closedS c (fun y => In y es) -> In q es -> T <> [] -> (forall g, In g T -> Anc q g) ->
  ((In x es \/ exists g, In g T /\ on_pathP c x g) <-> (In x es \/ IC c q T x)).
Proof.
  intros Hc Hq Hne Hb. rewrite (full_vs_IC c q T x Hb). split.
  - intros [H|[H|[[->|Ha] _]]]; [tauto | tauto | tauto | left; exact (closed_anc c (fun y => In y es) q x Hc Hq Ha)].
  - tauto.
Qed.

Lemma IC_gt q T j x : (forall g, In g T -> j < g /\ g < n) -> (forall y, Anc q y -> j < y \/ ~ (exists g, In g T /\ on_pathP c y g)) ->
  IC c q T x -> j < x /\ x < n.
Proof.
  intros HT Hy [Hqx (g & Hg & Hon)]. destruct (HT g Hg) as [A B].
  split.
  - destruct (Hy x Hqx) as [H|H]; [exact H | exfalso; apply H; exists g; tauto].
  - destruct Hon as [->|Ha]; [exact B | destruct (hanc_lt c W _ _ Ha); lia].
Qed.

(* a state on the path from a child region of q to a target above index j lies above j, when j is a leaf child of q *)
Lemma inner_gt_leaf q j y g : par j = Some q -> pseudo j = true -> Anc q y -> on_pathP c y g -> j < g -> j < y.
Proof.
  intros Hpj Hps Hqy Hon Hjg. destruct Hon as [->|Hyg]; [exact Hjg|].
  destruct (Nat.lt_ge_cases j y) as [H|H]; [exact H|]. exfalso.
  destruct (hanc_lt c W _ _ Hyg) as [Hyg1 Hgn]. destruct (hanc_lt c W _ _ Hqy) as [Hqy1 Hyn].
  destruct (wh_par_lt c W _ _ Hpj) as [_ Hjn].
  destruct (Nat.eq_dec y j) as [->|Hne]; [exact (pseudo_no_anc c W j g Hps Hyg)|].
  (* y < j < g and g below y: j below y *)
  assert (Hyj : Anc y j).
  { apply (wh_interval c W y j Hyn Hjn). apply (wh_interval c W y g Hyn Hgn) in Hyg. lia. }
  destruct (anc_child par _ _ _ Hpj Hyj) as [->|Hyq]; [exact (hanc_irrefl c W _ Hqy) | exact (hanc_antisym c W _ _ Hqy Hyq)].
Qed.

Lemma HInv_step j es ts : j < n -> HInv j es ->
  HInv (S j) (fst (descend_one lg_fixed c cfg exitset hist (es, ts) j)).
Proof.
  intros Hj HI. unfold descend_one. destruct (mem j es) eqn:Hm; cbn [negb].
  2: { cbn [fst]. apply mem_false_In in Hm. apply HInv_keep; [exact HI | intros H; contradiction]. }
  apply mem_In in Hm.
  destruct (fs_type (st c j)) eqn:Hk.
  - (* atomic *) cbn [fst]. apply HInv_keep; [exact HI|]. intros _. unfold pseudoS, kd. rewrite Hk.
    repeat split; try discriminate.
  - (* compound *)
    fold (ch j). destruct (existsb _ (ch j)) eqn:Hb.
    + cbn [fst]. apply existsb_hblocked in Hb. apply HInv_keep; [exact HI|]. intros _. unfold pseudoS, kd. rewrite Hk.
      repeat split; try discriminate. intros _. exact Hb.
    + assert (Hnb : ~ hblocked es j) by (intros Hbl; apply existsb_hblocked in Hbl; congruence).
      cbn [fst]. destruct (wh_compound c W j Hk) as [Hne Hbelow]. fold (cpl j) in *.
      apply (HInv_grow j es _ j (IC c j (cpl j)) HI Hm).
      * left. auto.
      * apply (frag_IC c); [exact Hne | exact Hbelow | exact (wh_cpl_sets c W j Hk)].
      * intros x [Hjx (g & Hg & Hon)]. destruct (hanc_lt c W _ _ Hjx). lia.
      * intros x. rewrite In_fold_cond_union, In_set_union.
        rewrite <- (full_closed_IC es j (cpl j) x (hi_closed _ _ HI) Hm Hne Hbelow). split.
        -- intros [[H|H]|(g & Hg & Hp & Hx)]; [tauto | right; exists x; split; [exact H | now left]|].
           right. exists g. split; [exact Hg|]. right. now apply (wh_anc c W).
        -- intros [H|(g & Hg & [->|Ha])]; [tauto | tauto|].
           destruct (mem g (ch j)) eqn:Hgc.
           ++ (* an ancestor of a child of j: j or above, in es *)
              left. left. apply mem_In, (wh_children c W) in Hgc.
              destruct (anc_child par _ _ _ Hgc Ha) as [->|Hxj]; [exact Hm | exact (closed_anc c (fun y => In y es) j x (hi_closed _ _ HI) Hm Hxj)].
           ++ right. exists g. split; [exact Hg|]. split; [exact Hgc|]. now apply (wh_anc c W).
  - (* parallel *)
    cbn [fst]. apply (HInv_par j es _ HI Hm Hk). intros x. rewrite In_set_union. now rewrite (wh_parallel c W j x Hk).
  - (* final *) cbn [fst]. apply HInv_keep; [exact HI|]. intros _. unfold pseudoS, kd. rewrite Hk.
    repeat split; try discriminate.
  - (* shallow history *)
    assert (Hps : pseudo j = true) by (unfold pseudoS; fold (kd j); unfold kd; now rewrite Hk).
    assert (Hhs : histS c j = true) by (unfold histS; now rewrite Hk).
    destruct (wh_pseudo_parent c W j Hps) as (q & Hpq & Hkq).
    destruct (wh_hist_cpl c W j q Hhs Hpq) as [Hcpl _].
    rewrite orb_true_r. cbn [andb]. fold (cpl j). destruct (intersects (cpl j) hist) eqn:Hint; cbn [negb].
    + cbn [fst]. destruct HH as [Hprop HR]. destruct (HR j q Hhs Hpq) as [Hnone|HF].
      { exfalso. apply intersects_spec in Hint as (x & H1 & H2). apply (Hnone x). split; assumption. }
      apply (HInv_grow j es _ q (Rh hist j) HI Hm).
      * right. split; [exact Hps|]. split; [exact Hpq|]. intros x [_ Hx]. now apply Hprop.
      * exact HF.
      * intros x [Hx1 Hx2]. destruct (Hcpl x Hx1) as (A & B & _). split; [apply B; now apply Hprop | exact A].
      * intros x. rewrite In_set_union, In_set_inter. unfold Rh. tauto.
    + destruct (wh_hist_default c W j q Hhs Hpq) as (ti & r & Htr & Htne & Htg). rewrite Htr. cbn [fst].
      unfold deepS in Htg. rewrite Hk in Htg.
      assert (Hch : forall g, In g (ft_targets (tr c ti)) -> par g = Some q) by (intros g Hg; now destruct (Htg g Hg) as (_ & _ & H)).
      apply (HInv_grow j es _ q (IC c q (ft_targets (tr c ti))) HI Hm).
      * right. split; [exact Hps|]. split; [exact Hpq|]. intros x Hx. apply (IC_children c W q _ x Hch) in Hx. now destruct (Htg x Hx) as (_ & H & _).
      * apply (frag_IC c); [exact Htne | intros g Hg; apply anc_parent; now apply Hch | exact (wh_target_sets c W ti)].
      * intros x Hx. apply (IC_children c W q _ x Hch) in Hx. destruct (Htg x Hx) as (A & _ & _).
        split; [exact A | now destruct (wh_tr_targets c W ti x Hx)].
      * intros x. rewrite In_set_union. now rewrite (IC_children c W q _ x Hch).
  - (* deep history *)
    assert (Hps : pseudo j = true) by (unfold pseudoS; fold (kd j); unfold kd; now rewrite Hk).
    assert (Hhs : histS c j = true) by (unfold histS; now rewrite Hk).
    destruct (wh_pseudo_parent c W j Hps) as (q & Hpq & Hkq).
    destruct (wh_hist_cpl c W j q Hhs Hpq) as [Hcpl _].
    rewrite orb_true_r. cbn [andb]. fold (cpl j). destruct (intersects (cpl j) hist) eqn:Hint; cbn [negb].
    + cbn [fst]. destruct HH as [Hprop HR]. destruct (HR j q Hhs Hpq) as [Hnone|HF].
      { exfalso. apply intersects_spec in Hint as (x & H1 & H2). apply (Hnone x). split; assumption. }
      apply (HInv_grow j es _ q (Rh hist j) HI Hm).
      * right. split; [exact Hps|]. split; [exact Hpq|]. intros x [_ Hx]. now apply Hprop.
      * exact HF.
      * intros x [Hx1 Hx2]. destruct (Hcpl x Hx1) as (A & B & _). split; [apply B; now apply Hprop | exact A].
      * intros x. rewrite In_set_union, In_set_inter. unfold Rh. tauto.
    + destruct (wh_hist_default c W j q Hhs Hpq) as (ti & r & Htr & Htne & Htg). rewrite Htr. cbn [fst].
      unfold deepS in Htg. rewrite Hk in Htg.
      assert (Hbelow : forall g, In g (ft_targets (tr c ti)) -> Anc q g) by (intros g Hg; now destruct (Htg g Hg) as (_ & _ & H)).
      assert (Hni : intersects (ft_targets (tr c ti)) (fs_children (st c j)) = false).
      { destruct (intersects (ft_targets (tr c ti)) (fs_children (st c j))) eqn:E; [|reflexivity]. exfalso. apply intersects_spec in E as (x & _ & Hx). exact (ch_nil_pseudo j Hps x Hx). }
      rewrite Hni. cbn [negb fst].
      assert (Hqe : In q es) by exact (hi_closed _ _ HI j q Hm Hpq).
      apply (HInv_grow j es _ q (IC c q (ft_targets (tr c ti))) HI Hm).
      * right. split; [exact Hps|]. split; [exact Hpq|]. intros x [Hqx (g & Hg & [->|Hxg])].
        -- now destruct (Htg g Hg) as (_ & H & _).
        -- exact (anc_not_pseudo c W x g Hxg).
      * apply (frag_IC c); [exact Htne | exact Hbelow | exact (wh_target_sets c W ti)].
      * intros x [Hqx (g & Hg & Hon)]. destruct (Htg g Hg) as (A & _ & _). split.
        -- exact (inner_gt_leaf q j x g Hpq Hps Hqx Hon A).
        -- destruct Hon as [->|Ha]; [now destruct (wh_tr_targets c W ti g Hg) | destruct (hanc_lt c W _ _ Ha); destruct (wh_tr_targets c W ti g Hg); lia].
      * intros x. rewrite In_fold_union, In_set_union.
        rewrite <- (full_closed_IC es q _ x (hi_closed _ _ HI) Hqe Htne Hbelow). split.
        -- intros [[H|H]|(g & Hg & Hx)]; [tauto | right; exists x; split; [exact H | now left]|].
           right. exists g. split; [exact Hg|]. right. now apply (wh_anc c W).
        -- intros [H|(g & Hg & [->|Ha])]; [tauto | tauto|]. right. exists g. split; [exact Hg|]. now apply (wh_anc c W).
  - (* initial *)
    assert (Hps : pseudo j = true) by (unfold pseudoS; fold (kd j); unfold kd; now rewrite Hk).
    destruct (wh_pseudo_parent c W j Hps) as (q & Hpq & Hkq).
    destruct (wh_initial c W j q Hk Hpq) as (ti & Htr & Htne & Htg). rewrite Htr. cbn [fold_left fst snd].
    assert (Hbelow : forall g, In g (ft_targets (tr c ti)) -> Anc q g) by (intros g Hg; now destruct (Htg g Hg) as (H & _)).
    assert (Hqe : In q es) by exact (hi_closed _ _ HI j q Hm Hpq).
    apply (HInv_grow j es _ q (IC c q (ft_targets (tr c ti))) HI Hm).
    + right. split; [exact Hps|]. split; [exact Hpq|]. intros x [Hqx (g & Hg & [->|Hxg])].
      * now destruct (Htg g Hg) as (_ & _ & H).
      * exact (anc_not_pseudo c W x g Hxg).
    + apply (frag_IC c); [exact Htne | exact Hbelow | exact (wh_target_sets c W ti)].
    + intros x [Hqx (g & Hg & Hon)]. destruct (Htg g Hg) as (_ & A & _). split.
      * exact (inner_gt_leaf q j x g Hpq Hps Hqx Hon A).
      * destruct Hon as [->|Ha]; [now destruct (wh_tr_targets c W ti g Hg) | destruct (hanc_lt c W _ _ Ha); destruct (wh_tr_targets c W ti g Hg); lia].
    + intros x. rewrite In_fold_ins_union.
      rewrite <- (full_closed_IC es q _ x (hi_closed _ _ HI) Hqe Htne Hbelow). split.
      * intros [H|(g & Hg & [->|Hx])]; [tauto | right; exists g; split; [exact Hg | now left]|].
        right. exists g. split; [exact Hg|]. right. now apply (wh_anc c W).
      * intros [H|(g & Hg & [->|Ha])]; [tauto | right; exists g; tauto|]. right. exists g. split; [exact Hg|]. right. now apply (wh_anc c W).
Qed.

Definition HEfin : list nat := fst (entry_set lg_fixed c cfg exitset hist tg ts0).

Lemma HInv_fin : HInv n HEfin.
Proof.
  unfold HEfin, entry_set.
  pose proof (fold_seq_inv c (descend_one lg_fixed c cfg exitset hist)
                           (fun j acc => HInv j (fst acc)) n 0 (HE0, ts0) HInv_0) as H.
  cbn [Nat.add] in H. apply H.
  intros j [es ts] _ Hj HI. cbn [fst] in HI. now apply HInv_step.
Qed.

(* ---- consequences at the end of the loop, for any set with the invariant ---- *)

Section Fin.
Variable Ef : list nat.
Hypothesis HF : HInv n Ef.

Lemma hgE1 i p : In i Ef -> par i = Some p -> In p Ef.
Proof. intros Hi Hp. exact (hi_closed _ _ HF i p Hi Hp). Qed.

Lemma hgE2 i k : In i Ef -> kd i = FParallel -> In k (ch i) -> In k Ef.
Proof. intros Hi Hk Hin. exact (proj1 (hi_done _ _ HF i (hi_bound _ _ HF i Hi) Hi) Hk k Hin). Qed.

Lemma hgE3 i : In i Ef -> kd i = FCompound ->
  exists k, par k = Some i /\ (surv k \/ (In k Ef /\ pseudo k = false)).
Proof.
  intros Hi Hk. destruct (proj2 (hi_done _ _ HF i (hi_bound _ _ HF i Hi) Hi) Hk) as (k & Hpk & [Hs|[He [Hps|Hle]]]);
    exists k; (split; [exact Hpk|]); [now left | right; tauto|].
  pose proof (hi_bound _ _ HF k He). lia.
Qed.

Lemma hgE4 i k1 k2 : kd i = FCompound -> par k1 = Some i -> par k2 = Some i ->
  In k1 Ef -> In k2 Ef -> pseudo k1 = false -> pseudo k2 = false -> k1 = k2.
Proof.
  intros Hk H1 H2 He1 He2 P1 P2. destruct (Nat.eq_dec k1 k2) as [E|Hne]; [exact E|]. exfalso.
  destruct (hi_uniq _ _ HF i k1 k2 Hk H1 H2 He1 He2 Hne) as [(A & _)|(A & _)]; congruence.
Qed.
End Fin.

End Loop.
End HEntry.
