(* Fifo.v -- C08: the mutex-protected FIFO of BasicEventQueue.cpp as a model (definitions only; the
   proofs are in FifoLemmas.v).

   Two levels.

   1. ATOMIC level.  One operation of the queue = one step: [Enq p e] (BasicEventQueue::enqueue called
      by producer p), [Deq] (dequeue(0): returns the head or the empty event), [DeqW] (dequeue(forever):
      returns the head, waits on the condition variable while the queue is empty), [Reset].  A schedule
      is a list of operations; every list is a schedule, so "all interleavings of any number of
      producers' operation lists with the consumer's dequeues" is "all lists" -- [interleave] makes the
      merge explicit for the statement of the theorem.

   2. LOCK level.  What the C++ really does: every method is a sequence of micro steps
      [lock _mutex] ; read _queue ; write _queue ; [unlock], where the lock/unlock steps are present
      iff the method takes a lock on _mutex before its first use of _queue -- a table regenerated from
      the source (coq/gen/GenLockDiscipline.v).  Threads are interleaved at micro-step granularity.
      FifoLemmas.lock_level_refines_atomic shows that with the discipline every lock-level run is an
      atomic-level run (order of critical sections); without it the read-modify-write of two threads can
      interleave (lost update), which is what an unlocked access would mean.

   Not modelled (trusted): that std::recursive_mutex provides mutual exclusion and that
   std::condition_variable_any::wait atomically releases the mutex and is woken by notify_all (no lost
   wake-up); the C++ memory model below the mutex; std::list. *)
From Coq Require Import List Bool Arith NArith Lia.
From V Require Import GenLockDiscipline.
Import ListNotations.

Set Implicit Arguments.

(* ------------------------------------------------------------------------------------------------ *)
(* n-way interleaving: [interleave ls s] iff s is a merge of the lists ls (each list in its order) *)
Inductive interleave (A : Type) : list (list A) -> list A -> Prop :=
| il_nil : forall ls, (forall l, In l ls -> l = []) -> interleave ls []
| il_cons : forall l1 x xs l2 s,
    interleave (l1 ++ xs :: l2) s -> interleave (l1 ++ (x :: xs) :: l2) (x :: s).

Section FifoModel.
  Variable E : Type.                       (* event payload; the producer tag is kept beside it *)

  Definition tagged := (nat * E)%type.     (* (producer, event) *)

  Inductive op :=
  | Enq (p : nat) (e : E)                  (* BasicEventQueue::enqueue, called by producer p *)
  | Deq                                    (* dequeue(0) *)
  | DeqW                                   (* dequeue(forever) *)
  | Reset.                                 (* reset() *)

  (* [fgone]: every element that left the queue, in the order of leaving, with true = returned by a
     dequeue, false = dropped by reset (ghost).  [fout]: the result of every completed dequeue.
     [fwait]: the consumer sits in _cond.wait.  [fvalid]: false once the schedule asked the waiting
     consumer to start another dequeue (not a schedule of a single consumer thread). *)
  Record fstate := mkF {
    fq : list tagged;
    fwait : bool;
    fout : list (option tagged);
    fgone : list (tagged * bool);
    fvalid : bool
  }.

  Definition finit : fstate := mkF [] false [] [] true.

  Definition pop (s : fstate) : fstate :=
    match fq s with
    | [] => s
    | x :: q' => mkF q' false (fout s ++ [Some x]) (fgone s ++ [(x, true)]) (fvalid s)
    end.

  Definition fstep (s : fstate) (o : op) : fstate :=
    match o with
    | Enq p e =>
        (* push_back; notify_all: a waiting consumer wakes up and takes the head *)
        let s1 := mkF (fq s ++ [(p, e)]) (fwait s) (fout s) (fgone s) (fvalid s) in
        if fwait s then pop s1 else s1
    | Deq =>
        if fwait s then mkF (fq s) (fwait s) (fout s) (fgone s) false else
        match fq s with
        | [] => mkF [] false (fout s ++ [None]) (fgone s) (fvalid s)
        | _ :: _ => pop s
        end
    | DeqW =>
        if fwait s then mkF (fq s) (fwait s) (fout s) (fgone s) false else
        match fq s with
        | [] => mkF [] true (fout s) (fgone s) (fvalid s)
        | _ :: _ => pop s
        end
    | Reset =>
        mkF [] (fwait s) (fout s) (fgone s ++ map (fun x => (x, false)) (fq s)) (fvalid s)
    end.

  Definition frun_from (s : fstate) (sc : list op) : fstate := fold_left fstep sc s.
  Definition frun (sc : list op) : fstate := frun_from finit sc.

  (* observations *)
  Definition enqueued (sc : list op) : list tagged :=
    flat_map (fun o => match o with Enq p e => [(p, e)] | _ => [] end) sc.
  Definition dequeued (s : fstate) : list tagged := map fst (filter snd (fgone s)).
  Definition dropped (s : fstate) : list tagged := map fst (filter (fun x => negb (snd x)) (fgone s)).
  Definition from (p : nat) (x : tagged) : bool := Nat.eqb (fst x) p.
  Definition of_producer (p : nat) (l : list tagged) : list E := map snd (filter (from p) l).

  Definition is_reset (o : op) : bool := match o with Reset => true | _ => false end.
  Definition is_consumer_op (o : op) : bool := match o with Enq _ _ => false | _ => true end.
  Definition no_reset (sc : list op) : bool := forallb (fun o => negb (is_reset o)) sc.

  (* the operation lists of the threads: the consumer's, then one per producer (producer k = index k) *)
  Definition producer_ops (p : nat) (es : list E) : list op := map (Enq p) es.
  Fixpoint producers_ops_from (p : nat) (prods : list (list E)) : list (list op) :=
    match prods with
    | [] => []
    | es :: r => producer_ops p es :: producers_ops_from (S p) r
    end.
  Definition thread_ops (cons : list op) (prods : list (list E)) : list (list op) :=
    cons :: producers_ops_from 0 prods.

  Fixpoint tag_all_from (p : nat) (prods : list (list E)) : list tagged :=
    match prods with
    | [] => []
    | es :: r => map (pair p) es ++ tag_all_from (S p) r
    end.
  Definition tag_all := tag_all_from 0.

  Inductive prefix (A : Type) : list A -> list A -> Prop :=
  | prefix_intro : forall a b, prefix a (a ++ b).

  Inductive subseq (A : Type) : list A -> list A -> Prop :=
  | sub_nil : forall l, subseq [] l
  | sub_take : forall x a l, subseq a l -> subseq (x :: a) (x :: l)
  | sub_skip : forall x a l, subseq a l -> subseq a (x :: l).

  (* ---------------------------------------------------------------------------------------------- *)
  (* the property oracle: does an observed sequence of processed (producer, event) pairs respect
     "each at most once / exactly once, per-producer order"?  [complete] = everything was processed. *)
  Variable eqE : E -> E -> bool.

  Fixpoint list_eqb (a b : list E) : bool :=
    match a, b with
    | [], [] => true
    | x :: a', y :: b' => eqE x y && list_eqb a' b'
    | _, _ => false
    end.
  Fixpoint prefixb (a b : list E) : bool :=
    match a, b with
    | [], _ => true
    | x :: a', y :: b' => eqE x y && prefixb a' b'
    | _ :: _, [] => false
    end.

  Definition fifo_admissibleb (prods : list (list E)) (complete : bool) (obs : list tagged) : bool :=
    forallb (fun x => Nat.ltb (fst x) (length prods)) obs &&
    forallb (fun p => if complete then list_eqb (of_producer p obs) (nth p prods [])
                      else prefixb (of_producer p obs) (nth p prods []))
            (seq 0 (length prods)).

  Definition fifo_admissible (prods : list (list E)) (complete : bool) (obs : list tagged) : Prop :=
    (forall x, In x obs -> fst x < length prods) /\
    (forall p, p < length prods ->
       if complete then of_producer p obs = nth p prods []
       else prefix (of_producer p obs) (nth p prods [])).

  (* ---------------------------------------------------------------------------------------------- *)
  (* LOCK level *)

  Inductive qmethod := MEnqueue | MDequeue | MReset.
  Definition discipline := qmethod -> bool.       (* does the method hold _mutex around its use of _queue? *)

  (* a pending call of thread t *)
  Inductive call :=
  | CEnq (p : nat) (e : E)
  | CDeq
  | CReset.
  Definition method_of (c : call) : qmethod :=
    match c with CEnq _ _ => MEnqueue | CDeq => MDequeue | CReset => MReset end.

  (* program counter inside a call *)
  Inductive pc := PStart | PLocked | PRead (snapshot : list tagged) | PWritten.

  Record thread := mkT { t_todo : list call; t_pc : pc }.

  Record lstate := mkL {
    l_q : list tagged;
    l_owner : option nat;                 (* holder of _mutex *)
    l_threads : list thread;
    l_out : list (option tagged);         (* dequeue results, in order of the write step *)
    l_gone : list (tagged * bool)
  }.

  Fixpoint set_thread (ts : list thread) (t : nat) (th : thread) : list thread :=
    match ts, t with
    | [], _ => []
    | _ :: r, O => th :: r
    | x :: r, S k => x :: set_thread r k th
    end.

  (* the effect of the write step of call c that read snapshot r *)
  Definition write_q (c : call) (r : list tagged) : list tagged :=
    match c with
    | CEnq p e => r ++ [(p, e)]
    | CDeq => tl r
    | CReset => []
    end.
  Definition write_out (c : call) (r : list tagged) : list (option tagged) :=
    match c with
    | CDeq => [hd_error r]
    | _ => []
    end.
  Definition write_gone (c : call) (r : list tagged) : list (tagged * bool) :=
    match c with
    | CDeq => match r with [] => [] | x :: _ => [(x, true)] end
    | CReset => map (fun x => (x, false)) r
    | CEnq _ _ => []
    end.

  (* one micro step of thread t; None = t cannot move (finished, or blocked on the mutex) *)
  Definition lstep (d : discipline) (s : lstate) (t : nat) : option lstate :=
    match nth_error (l_threads s) t with
    | None => None
    | Some th =>
      match t_todo th with
      | [] => None
      | c :: rest =>
        let upd pc' todo' := set_thread (l_threads s) t (mkT todo' pc') in
        match t_pc th with
        | PStart =>
            if d (method_of c) then
              match l_owner s with
              | None => Some (mkL (l_q s) (Some t) (upd PLocked (c :: rest)) (l_out s) (l_gone s))
              | Some _ => None                      (* blocked *)
              end
            else Some (mkL (l_q s) (l_owner s) (upd PLocked (c :: rest)) (l_out s) (l_gone s))
        | PLocked =>
            Some (mkL (l_q s) (l_owner s) (upd (PRead (l_q s)) (c :: rest)) (l_out s) (l_gone s))
        | PRead r =>
            Some (mkL (write_q c r) (l_owner s) (upd PWritten (c :: rest))
                      (l_out s ++ write_out c r) (l_gone s ++ write_gone c r))
        | PWritten =>
            Some (mkL (l_q s) (if d (method_of c) then None else l_owner s) (upd PStart rest)
                      (l_out s) (l_gone s))
        end
      end
    end.

  (* a lock-level schedule is a list of thread indices; a thread that cannot move stutters *)
  Fixpoint lrun (d : discipline) (s : lstate) (sc : list nat) : lstate :=
    match sc with
    | [] => s
    | t :: r => match lstep d s t with
                | Some s' => lrun d s' r
                | None => lrun d s r
                end
    end.

  Definition linit (progs : list (list call)) : lstate :=
    mkL [] None (map (fun p => mkT p PStart) progs) [] [].

  Definition op_of_call (c : call) : op :=
    match c with CEnq p e => Enq p e | CDeq => Deq | CReset => Reset end.

  (* the atomic schedule a lock-level run corresponds to: the calls in the order of their write steps, each
     with the index of the thread that made it *)
  Definition step_lin (s : lstate) (t : nat) : list (nat * op) :=
    match nth_error (l_threads s) t with
    | Some (mkT (c :: _) (PRead _)) => [(t, op_of_call c)]
    | _ => []
    end.

  Fixpoint lin_order (d : discipline) (s : lstate) (sc : list nat) : list (nat * op) :=
    match sc with
    | [] => []
    | t :: r =>
      match lstep d s t with
      | Some s' => step_lin s t ++ lin_order d s' r
      | None => lin_order d s r
      end
    end.

  (* the calls a thread has not yet made effective *)
  Definition pending (th : thread) : list call :=
    match t_pc th with PWritten => tl (t_todo th) | _ => t_todo th end.
  Definition lin_of_thread (t : nat) (lin : list (nat * op)) : list op :=
    map snd (filter (fun x => Nat.eqb (fst x) t) lin).
  Definition labs (s : lstate) : fstate := mkF (l_q s) false (l_out s) (l_gone s) true.
End FifoModel.

Arguments Deq {E}.
Arguments DeqW {E}.
Arguments Reset {E}.
Arguments finit {E}.
Arguments CDeq {E}.
Arguments CReset {E}.

(* ------------------------------------------------------------------------------------------------ *)
(* the discipline of the real code, read off the regenerated inventory (coq/gen/GenLockDiscipline.v) *)
Local Open Scope N_scope.
Fixpoint beq_name (a b : list N) : bool :=
  match a, b with
  | [], [] => true
  | x :: a', y :: b' => N.eqb x y && beq_name a' b'
  | _, _ => false
  end.

(* "BasicEventQueue", "enqueue", "dequeue", "reset" as bytes *)
Definition name_BasicEventQueue : list N := [66;97;115;105;99;69;118;101;110;116;81;117;101;117;101].
Definition name_enqueue : list N := [101;110;113;117;101;117;101].
Definition name_dequeue : list N := [100;101;113;117;101;117;101].
Definition name_reset : list N := [114;101;115;101;116].
Local Close Scope N_scope.

Definition entry_atomic (e : lock_entry) : bool :=
  negb (le_uses e) || (le_locked_first e && le_held_to_last_use e).

Definition method_name (m : qmethod) : list N :=
  match m with MEnqueue => name_enqueue | MDequeue => name_dequeue | MReset => name_reset end.

(* true iff the inventory has an entry for BasicEventQueue::<m> that uses _queue under the lock *)
Definition inventory_discipline : discipline :=
  fun m => existsb (fun e => beq_name (le_class e) name_BasicEventQueue && beq_name (le_method e) (method_name m)
                             && le_uses e && le_locked_first e && le_held_to_last_use e) lock_inventory.

(* every method of BasicEventQueue in the inventory (also serialize/deserialize) is atomic *)
Definition queue_class_atomic : bool :=
  lock_source_ok &&
  forallb (fun e => negb (beq_name (le_class e) name_BasicEventQueue) || entry_atomic e) lock_inventory.
