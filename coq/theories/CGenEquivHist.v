(* CGenEquivHist.v -- C04 beyond the history-free core: REMEMBER_HISTORY and ESTABLISH_ENTRY_SET of the emitted
   uscxml_step() (CGen.cremember, CGen.centry_set) against FastMicroStep (Fast.fremember, Fast.fentry_set) on charts
   WITH pseudo-states -- <initial> elements, deep and multiple initial attributes, shallow and deep <history> (WFH =
   wf_histb, LegalHistWf.v) -- for the repaired template (history of an active parent, uncovered history tables) and
   under three computable conditions on the chart that name the remaining variant points:
     trans_lists  the transition list of a state is the list of the transitions whose source it is, in table order
                  (the emitted loop `for j < nr_transitions: if source == i` against the engine's per-state list);
     cpl_plain    an initial attribute that names a direct child names nothing else (the emitted "deep completion"
                  runs only when no completion state is a direct child; refuted otherwise: CGenEquivWitness.v);
     deep_alone   a deep history with another history below its parent records no state that has a history child
                  (the emitted code then puts those nested history pseudo-states into the entry set, the engine
                  restores the recorded states directly).
   The loop invariant is the one of LegalHistFast.v (HInv, preserved by Fast.fdescend_one); here only the step-wise
   equality of the two passes is added.  Proofs only. *)
From V Require Import Base NameMatch Chart Exec Large Fast LargeLemmas Legal SetLemmas LegalAbstract LegalLarge
     LegalHistBase LegalHistEntry LegalHistStep LegalHistFast CGen CGenLemmas SerializeCodecLemmas PmlEquivBase.
From Coq Require Import Sorted.
Local Open Scope nat_scope.

(* ------------------------------------------------------------------ the side conditions *)
Definition is_deepT (t : ftype) : bool := match t with FHistDeep => true | _ => false end.

Definition deep_alone (c : fchart) : bool :=
  forallb (fun i => negb (is_deepT (fs_type (st c i)) && has_history c i) ||
                    forallb (fun j => negb (has_history c j)) (fs_completion (st c i))) (seq 0 (nstates c)).

Definition cpl_plain (c : fchart) : bool :=
  forallb (fun i => match fs_type (st c i) with
                    | FCompound => negb (intersects (fs_completion (st c i)) (fs_children (st c i))) ||
                                   (length (fs_completion (st c i)) =? 1)
                    | _ => true
                    end) (seq 0 (nstates c)).

Definition trans_lists (c : fchart) : bool :=
  forallb (fun s => CGen.list_eqb (fs_trans (st c s)) (filter (fun ti => ft_source (tr c ti) =? s) (seq 0 (ntrans c))))
          (seq 0 (nstates c)).

(* ------------------------------------------------------------------ generic list facts *)
Lemma fold_if_filter {S} (p : nat -> bool) (f : S -> nat -> S) l : forall s,
  fold_left (fun s x => if p x then f s x else s) l s = fold_left f (filter p l) s.
Proof. induction l as [|x r IH]; intros s; cbn [fold_left filter]; [reflexivity|]. destruct (p x); cbn [fold_left]; apply IH. Qed.

Lemma find_hd_filter (p : nat -> bool) l : find p l = hd_error (filter p l).
Proof. induction l as [|x r IH]; cbn [find filter]; [reflexivity|]. destruct (p x); [reflexivity|exact IH]. Qed.

Lemma find_map_pair (g : nat -> list nat) i l : In i l ->
  find (fun p : nat * list nat => fst p =? i) (map (fun h => (h, g h)) l) = Some (i, g i).
Proof.
  induction l as [|h r IH]; intros Hi; [destruct Hi|]. cbn [map find fst].
  destruct (h =? i) eqn:E; [apply Nat.eqb_eq in E; now subst|].
  destruct Hi as [->|Hi]; [rewrite Nat.eqb_refl in E; discriminate|now apply IH].
Qed.

Lemma forallb_seq0 (f : nat -> bool) m : forallb f (seq 0 m) = true -> forall i, i < m -> f i = true.
Proof. intros Hf i Hi. rewrite forallb_forall in Hf. apply Hf. apply in_seq. lia. Qed.

Section HEntry.
Variable cv : cg_variant.
Variable c : fchart.
Hypothesis W : WFH c.
Hypothesis Hact : cg_hist_active_parent cv = false.
Hypothesis Hcov : cg_cover cv = CoverNone.
Hypothesis Hdeep : deep_alone c = true.
Hypothesis Hcpl : cpl_plain c = true.
Hypothesis Htl : trans_lists c = true.

Let n := nstates c.
Let par (i : nat) := fs_parent (st c i).
Let kd (i : nat) := fs_type (st c i).
Notation Anc := (Anc par).
Notation pseudo := (pseudoS c).

Lemma st_out_h i : n <= i -> st c i = dummy_state.
Proof. intros Hi. unfold st. now apply nth_overflow. Qed.

Lemma hist_lt i : is_hist (fs_type (st c i)) = true -> i < n.
Proof.
  intros E. destruct (Nat.lt_ge_cases i n) as [Hi|Hi]; [exact Hi|]. rewrite (st_out_h i Hi) in E. discriminate.
Qed.

(* the generator's history completions are the engines' *)
Lemma ccompl_plain i : ccompl cv c i = fs_completion (st c i).
Proof.
  unfold ccompl. destruct (is_hist (fs_type (st c i))) eqn:E; [|reflexivity].
  unfold hist_table. rewrite Hcov.
  rewrite (find_map_pair (fun h => fs_completion (st c h)) i); [reflexivity|].
  unfold hists. apply filter_In. split; [|exact E]. apply in_seq. pose proof (hist_lt i E). unfold cn. fold n. lia.
Qed.

Theorem hist_tables_plain_h : hist_tables_plain cv c.
Proof. intros i. apply ccompl_plain. Qed.

Theorem cremember_h cfg exitset hist : cremember cv c cfg exitset hist = fremember c cfg exitset hist.
Proof. apply cremember_equiv. exact hist_tables_plain_h. Qed.

Lemma trans_list_of j : j < n -> fs_trans (st c j) = filter (fun ti => ft_source (tr c ti) =? j) (seq 0 (ntrans c)).
Proof. intros Hj. apply list_eqb_eq. apply (forallb_seq0 _ _ Htl j Hj). Qed.

Lemma first_trans_of j : j < n -> first_trans_from c j = hd_error (fs_trans (st c j)).
Proof. intros Hj. unfold first_trans_from. now rewrite find_hd_filter, <- trans_list_of. Qed.

Lemma pseudo_children j : pseudo j = true -> fs_children (st c j) = [].
Proof.
  intros Hp. destruct (fs_children (st c j)) as [|k r] eqn:E; [reflexivity|]. exfalso.
  assert (Hk : In k (fs_children (st c j))) by (rewrite E; now left).
  apply (wh_children c W) in Hk. exact (wh_pseudo_leaf c W j k Hp Hk).
Qed.

Lemma targets_not_below_pseudo j ti : j < n -> pseudo j = true -> intersects (ft_targets (tr c ti)) (desc c j) = false.
Proof.
  intros Hj Hp. apply intersects_false. intros x Hx Hd.
  destruct (wh_tr_targets c W ti x Hx) as [_ Hxn]. apply (desc_spec c W j x Hj Hxn) in Hd.
  exact (pseudo_no_anc c W j x Hp Hd).
Qed.

Section Loop.
Variable cfg exitset hist tg : list nat.
Hypothesis tg_bound : forall g, In g tg -> 0 < g /\ g < n.
Hypothesis tg_sorted : ssorted tg.
Hypothesis HH : HistOK c hist.
Hypothesis HE0_uniq : forall i k1 k2, kd i = FCompound -> par k1 = Some i -> par k2 = Some i ->
  In k1 (HE0 c tg) -> In k2 (HE0 c tg) -> k1 = k2.
Variable Q : nat -> Prop.
Hypothesis Q0 : forall x, In x (HE0 c tg) -> Q x.
Hypothesis Qpar : forall j x, Q j -> kd j = FParallel -> par x = Some j -> Q x.
Hypothesis Qcomp : forall j x, Q j -> kd j = FCompound -> (forall k, par k = Some j -> ~ surv cfg exitset k) -> Anc j x -> Q x.
Hypothesis Qpseudo : forall j q x, Q j -> pseudo j = true -> par j = Some q -> Anc q x -> Q x.
Hypothesis cfg_bound : forall x, In x cfg -> x < n.
Hypothesis cfg_closed : closedS c (fun x => In x cfg).
Hypothesis exit_sub : forall x, In x exitset -> In x cfg.
Hypothesis exit_dom : forall x, In x exitset ->
  exists d, In d (HE0 c tg) /\ pseudo d = false /\ Anc d x /\ forall y, In y cfg -> Anc d y -> In y exitset.

Notation FInv := (HInv c cfg exitset tg Q).

(* "meets the children" and "meets the descendants" agree for a set that is closed under parents *)
Lemma meets_kids_desc (S : list nat) j : j < n -> (forall x, In x S -> x < n) -> closedS c (fun x => In x S) ->
  intersects S (fs_children (st c j)) = intersects S (desc c j).
Proof.
  intros Hj Hb Hcl. apply Bool.eq_iff_eq_true. rewrite (intersects_desc c W S j Hj Hb), intersects_spec. split.
  - intros (x & Hs & Hx). exists x. split; [exact Hs|]. apply anc_parent. now apply (wh_children c W).
  - intros (x & Hs & Hx). destruct (closed_desc_child c (fun y => In y S) j x Hcl Hs Hx) as (k & Hk & Hks & _).
    exists k. split; [exact Hks | now apply (wh_children c W)].
Qed.

Lemma compound_tests_h j es : j < n -> FInv j es ->
  negb (intersects es (fs_children (st c j))) &&
    (negb (intersects cfg (fs_children (st c j))) || intersects exitset (fs_children (st c j))) =
  negb (intersects es (desc c j)) && (negb (intersects cfg (desc c j)) || intersects exitset (desc c j)).
Proof.
  intros Hj HI.
  rewrite (meets_kids_desc es j Hj (hi_bound _ _ _ _ _ _ _ HI) (hi_closed _ _ _ _ _ _ _ HI)),
          (meets_kids_desc cfg j Hj cfg_bound cfg_closed).
  destruct (intersects es (desc c j)) eqn:A; [reflexivity|]. cbn [negb andb].
  destruct (intersects cfg (desc c j)) eqn:B; [|reflexivity]. cbn [negb orb].
  assert (Xb : forall x, In x exitset -> x < n) by (intros x Hx; apply cfg_bound; now apply exit_sub).
  apply Bool.eq_iff_eq_true. rewrite (intersects_desc c W exitset j Hj Xb), intersects_spec. split.
  - intros (x & Hx & Hc). exists x. split; [exact Hx|]. apply anc_parent. now apply (wh_children c W).
  - intros (x & Hx & Hjx). destruct (exit_dom x Hx) as (d & Hd0 & Hdp & Hdx & Hall).
    assert (Hnot : ~ Anc j d).
    { intros Hjd. assert (E : intersects es (desc c j) = true).
      { apply (intersects_desc c W es j Hj (hi_bound _ _ _ _ _ _ _ HI)). exists d. split; [|exact Hjd].
        now apply (hi_base _ _ _ _ _ _ _ HI). }
      congruence. }
    destruct (closed_desc_child c (fun y => In y cfg) j x cfg_closed (exit_sub x Hx) Hjx) as (k & Hk & Hkc & _).
    exists k. split; [|now apply (wh_children c W)].
    apply Hall; [exact Hkc|].
    destruct (hanc_chain c d j x Hdx Hjx) as [->|[Hdj|Hjd]]; [now apply anc_parent | | contradiction].
    eapply (hanc_trans c); [exact Hdj | now apply anc_parent].
Qed.

Lemma closed_anc (S : nat -> Prop) x a : closedS c S -> S x -> Anc a x -> S a.
Proof.
  intros Hcl Hx Ha. induction Ha as [i p Hp|i p a Hp Ha IH].
  - exact (Hcl i p Hx Hp).
  - apply IH. exact (Hcl i p Hx Hp).
Qed.

(* one visit of the loop "iterate for descendants" *)
Lemma cdescend_h j es ts : j < n -> FInv j es -> ssorted es ->
  cdescend_one cv c cfg exitset hist (es, ts) j = fdescend_one c cfg exitset hist (es, ts) j.
Proof.
  intros Hj HI Hs. unfold cdescend_one, fdescend_one.
  destruct (mem j es) eqn:M; cbn [negb]; [|reflexivity]. apply mem_true_In in M.
  rewrite (ccompl_plain j), Hact. cbn [negb orb]. rewrite andb_true_r.
  destruct (fs_type (st c j)) eqn:Hk; try reflexivity.
  - (* compound *)
    rewrite (compound_tests_h j es Hj HI).
    destruct (negb (intersects es (desc c j)) && _); [|reflexivity].
    destruct (intersects (fs_completion (st c j)) (fs_children (st c j))) eqn:Ik; cbn [negb].
    + (* the completion names a direct child: by cpl_plain it is that child alone *)
      pose proof (forallb_seq0 _ _ Hcpl j Hj) as P. cbv beta in P. rewrite Hk, Ik in P. cbn [negb orb] in P.
      apply Nat.eqb_eq in P. destruct (fs_completion (st c j)) as [|k [|? ?]] eqn:Ec; try discriminate. clear P.
      apply intersects_spec in Ik as (k' & [<-|[]] & Hkc). apply (wh_children c W) in Hkc.
      cbn [fold_left]. destruct (wh_par_lt c W _ _ Hkc) as [Ljk _].
      replace (j <? k) with true by (symmetry; now apply Nat.ltb_lt).
      f_equal. apply ssorted_ext; [now apply set_union_ssorted | apply set_union_ssorted; now apply set_union_ssorted|].
      intros x. rewrite (In_set_union (set_union es [k])). split; [now left|]. intros [Hx|Hx]; [exact Hx|].
      apply In_set_union. left. apply (wh_anc c W) in Hx.
      destruct (anc_child par _ _ _ Hkc Hx) as [->|Hxj]; [exact M|].
      exact (closed_anc (fun y => In y es) j x (hi_closed _ _ _ _ _ _ _ HI) M Hxj).
    + f_equal. now rewrite <- (fold_if_filter (fun k => j <? k) (fun a k => set_union a (fs_ancestors (st c k)))).
  - (* shallow history *)
    destruct (negb (intersects (fs_completion (st c j)) hist)); [|reflexivity].
    rewrite (first_trans_of j Hj). destruct (fs_trans (st c j)); reflexivity.
  - (* deep history *)
    assert (Hp : pseudo j = true) by (unfold pseudoS; now rewrite Hk).
    destruct (negb (intersects (fs_completion (st c j)) hist)).
    + rewrite (first_trans_of j Hj). destruct (fs_trans (st c j)) as [|ti r]; cbn [hd_error]; [reflexivity|].
      rewrite (pseudo_children j Hp), (targets_not_below_pseudo j ti Hj Hp).
      replace (intersects (ft_targets (tr c ti)) []) with false; [reflexivity|].
      symmetry. apply intersects_false. intros x _ [].
    + pose proof (forallb_seq0 _ _ Hdeep j Hj) as P. cbv beta in P. rewrite Hk in P. cbn [is_deepT andb] in P.
      destruct (has_history c j) eqn:Hh; [|reflexivity]. cbn [negb orb] in P. rewrite forallb_forall in P.
      f_equal. generalize (set_union es (set_inter (fs_completion (st c j)) hist)). generalize (seq (S j) (cn c - S j)).
      induction l as [|x r IH]; intros e; cbn [fold_left]; [reflexivity|].
      destruct (mem x (fs_completion (st c j))) eqn:Mx; cbn [andb]; [|apply IH].
      apply mem_true_In in Mx. specialize (P x Mx). apply negb_true_iff in P. rewrite P, andb_false_r. apply IH.
  - (* initial *)
    rewrite (trans_list_of j Hj).
    rewrite <- (fold_if_filter (fun ti => ft_source (tr c ti) =? j)
                 (fun (a : list nat * list nat) ti =>
                    (fold_left (fun e k => if j <? k then set_union e (fs_ancestors (st c k)) else e) (ft_targets (tr c ti))
                               (set_union (set_remove j (fst a)) (ft_targets (tr c ti))),
                     insert_sorted ti (snd a)))).
    reflexivity.
Qed.

(* the entry set stays a strictly ascending list *)
Lemma fdescend_sorted j es ts : ssorted es -> ssorted (fst (fdescend_one c cfg exitset hist (es, ts) j)).
Proof.
  intros Hs. unfold fdescend_one. destruct (negb (mem j es)); [exact Hs|].
  destruct (fs_type (st c j)); cbn [fst]; try exact Hs.
  - destruct (_ && _); cbn [fst]; [|exact Hs].
    apply (fold_cond_union_ssorted (fun k => j <? k)). now apply set_union_ssorted.
  - now apply set_union_ssorted.
  - destruct (negb _); [|cbn [fst]; now apply set_union_ssorted].
    destruct (fs_trans (st c j)); cbn [fst]; [exact Hs|now apply set_union_ssorted].
  - destruct (negb _); [|cbn [fst]; now apply set_union_ssorted].
    destruct (fs_trans (st c j)) as [|ti r]; cbn [fst]; [exact Hs|].
    destruct (negb _); [|now apply set_union_ssorted].
    apply fold_union_ssorted. now apply set_union_ssorted.
  - generalize (fs_trans (st c j)). intros l. revert es ts Hs.
    induction l as [|ti r IH]; intros es ts Hs; cbn [fold_left fst]; [exact Hs|].
    apply IH. cbn [fst]. apply (fold_cond_union_ssorted (fun k => j <? k)).
    apply set_union_ssorted. now apply set_remove_ssorted.
Qed.

Lemma cdescend_fold_h : forall k j es ts, j + k = n -> FInv j es -> ssorted es ->
  fold_left (cdescend_one cv c cfg exitset hist) (seq j k) (es, ts) =
  fold_left (fdescend_one c cfg exitset hist) (seq j k) (es, ts).
Proof.
  induction k as [|k IH]; intros j es ts Hjk HI Hs; cbn [seq fold_left]; [reflexivity|].
  assert (Hj : j < n) by lia.
  rewrite (cdescend_h j es ts Hj HI Hs).
  pose proof (FInv_step c W cfg exitset hist tg HH Q Qpar Qcomp Qpseudo cfg_bound cfg_closed exit_sub exit_dom j es ts Hj HI) as HI'.
  pose proof (fdescend_sorted j es ts Hs) as Hs'.
  destruct (fdescend_one c cfg exitset hist (es, ts) j) as [es' ts']. cbn [fst] in HI', Hs'.
  apply IH; [lia|exact HI'|exact Hs'].
Qed.

Theorem centry_set_h ts : centry_set cv c cfg exitset hist tg ts = fentry_set c cfg exitset hist tg ts.
Proof.
  unfold centry_set, fentry_set, cn, fn. apply cdescend_fold_h; [reflexivity| |].
  - exact (HInv_0 c W cfg exitset tg tg_bound HE0_uniq Q Q0).
  - unfold add_ancestors. now apply fold_union_ssorted.
Qed.

End Loop.
End HEntry.
