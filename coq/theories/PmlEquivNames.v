(* PmlEquivNames.v -- C06: an invariant of the emitted step process about its two queues: every queued event name
   satisfies a predicate P, when P holds of every name the chart's content raises or sends and of the done.state
   names the template can raise.  (Used with P = "non-empty and known to the event trie": the engine treats an
   event with the empty name as no event, and the guard literals decide the name matching only for known names.)
   The proof is generic in the invariant: anything kept by `out`, the set_* updates and the chart's content is kept
   by one d_step.  Proofs only. *)
From V Require Import Base NameMatch Chart Exec Large Fast Trie PmlStep TraceLemmas PmlStepLemmas PmlEquivBase.
Local Open Scope nat_scope.

Section Pres.
Variable pv : pml_variant.
Variable c : fchart.
Variable iq eq : nat.
Variable I : pstate -> Prop.

Definition pres (f : pstate -> pstate) : Prop := forall s, I s -> I (f s).

Hypothesis I_out : forall t, pres (out t).
Hypothesis I_set_cfg : forall g, pres (set_cfg g).
Hypothesis I_set_hist : forall h, pres (set_hist h).
Hypothesis I_set_flags : forall a b d e, pres (set_flags a b d e).
Hypothesis I_blocks : forall bs, (exists i, bs = fs_onentry (st c i) \/ bs = fs_onexit (st c i)) -> pres (pexec_blocks pv c iq eq bs).
Hypothesis I_body : forall j, pres (pexec_block pv c iq eq (ft_body (tr c j))).
(* done.state.<id> is raised for a <parallel> state, and for the parent of a <final> state that is not a child of <scxml> *)
Hypothesis I_done : forall j,
  (is_par (ptype c j) = true \/
   exists i, is_fin (ptype c i) = true /\ fs_parent (st c i) = Some j /\ mem 1 (fs_children (st c j)) = false) ->
  pres (p_raise_direct iq (done_name c j)).

Lemma pres_id : pres (fun s => s).
Proof. intros s Hs; exact Hs. Qed.
Lemma pres_comp f g : pres f -> pres g -> pres (fun s => g (f s)).
Proof. intros Hf Hg s Hs. apply Hg, Hf, Hs. Qed.
Lemma pres_fold {A} (f : pstate -> A -> pstate) l : (forall a, pres (fun s => f s a)) -> pres (fun s => fold_left f l s).
Proof.
  intros Hf. induction l as [|a r IH]; cbn [fold_left]; [apply pres_id|].
  apply (pres_comp (fun s => f s a) (fun s => fold_left f r s)); [apply Hf|exact IH].
Qed.

Lemma pres_exit_one ex i : pres (fun s => p_exit_one pv c iq eq ex s i).
Proof.
  intros s Hs. unfold p_exit_one. destruct (_ && _); [|exact Hs]. apply I_set_cfg.
  destruct (fs_onexit (st c i)) as [|b r] eqn:E; [now apply I_out|].
  rewrite <- E. apply I_blocks; [exists i; now right|]. now apply I_out, I_out.
Qed.

Lemma pres_take_one ts j : pres (fun s => p_take_one pv c iq eq ts s j).
Proof.
  intros s Hs. unfold p_take_one. destruct (_ && _); [|exact Hs]. apply I_body. now apply I_out, I_out.
Qed.

Lemma pres_parallel_done i j : pres (fun s => p_parallel_done c iq i s j).
Proof.
  intros s Hs. unfold p_parallel_done. destruct (is_par (ptype c j) && mem j (fs_ancestors (st c i))) eqn:G; [|exact Hs].
  apply andb_true_iff in G as [G _].
  match goal with |- I (match ?t with [] => _ | _ => _ end) => destruct t end; [|exact Hs].
  apply I_done; [now left|exact Hs].
Qed.

Lemma pres_enter_one es ts i : pres (fun s => p_enter_one pv c iq eq es ts s i).
Proof.
  intros s Hs. unfold p_enter_one. destruct (_ && _); [|exact Hs].
  set (s1 := set_cfg (insert_sorted i (p_cfg s)) (out (PEntering i) s)).
  assert (H1 : I s1) by (apply I_set_cfg; now apply I_out).
  set (s2 := match fs_onentry (st c i) with [] => s1 | b :: bs => pexec_blocks pv c iq eq (b :: bs) (out (PProcEntry i) s1) end).
  assert (H2 : I s2).
  { unfold s2. destruct (fs_onentry (st c i)) as [|b r] eqn:E; [exact H1|].
    rewrite <- E. apply I_blocks; [exists i; now left|]. now apply I_out. }
  match goal with |- context [fold_left ?f (seq 0 (pnt c)) s2] => set (s3 := fold_left f (seq 0 (pnt c)) s2) end.
  assert (H3 : I s3).
  { unfold s3. revert H2. generalize s2. apply pres_fold. intros j s' Hs'. cbv zeta. destruct (_ && _); [|exact Hs'].
    apply I_body. now apply I_out. }
  destruct (is_fin (ptype c i)) eqn:Fin; [|exact H3].
  revert s3 H3. intros s3 H3.
  apply (pres_fold (p_parallel_done c iq i)); [intros j; apply pres_parallel_done|].
  destruct (mem 1 (fs_children (st c (pparent c i)))) eqn:M1; [now apply I_set_flags|].
  destruct (fs_parent (st c i)) as [p|] eqn:Hp; [|exact H3].
  apply I_done; [|exact H3]. right. exists i. repeat split; auto. unfold pparent in M1. now rewrite Hp in M1.
Qed.

Lemma pres_remember ex : pres (p_remember pv c ex).
Proof.
  intros s Hs. unfold p_remember. destruct (nonempty (p_cfg (out PSaveHist s))); [|now apply I_out].
  apply I_out. revert Hs. generalize s. intros s0 Hs0.
  apply (pres_fold (p_history_one pv c ex)); [|now apply I_out].
  intros i s' Hs'. unfold p_history_one. destruct (_ && _); [|exact Hs'].
  apply I_set_hist. now repeat apply I_out.
Qed.

(* ESTABLISH_ENTRY_SET only prints *)
Lemma pres_descend_one cfg ex hist es ts s i : I s -> I (snd (p_descend_one pv c cfg ex hist (es, ts, s) i)).
Proof.
  intros Hs. unfold p_descend_one. destruct (negb (mem i es)); [exact Hs|].
  destruct (fs_type (st c i)); try exact Hs.
  - destruct (negb (intersects es (fs_children (st c i))) && _); [|exact Hs].
    destruct (pv_deep_unnegated pv).
    + destruct (intersects _ _); [|exact Hs]. destruct (filter _ _); exact Hs.
    + destruct (negb (pv_completion_guarded pv) || negb _); exact Hs.
  - destruct (negb (intersects (pcompl pv c i) hist) && _).
    + destruct (find _ _); cbn [snd]; now repeat apply I_out.
    + destruct (if pv_hist_or pv then _ else _); cbn [snd]; now repeat apply I_out.
  - destruct (negb (intersects (pcompl pv c i) hist) && _).
    + destruct (find _ _); cbn [snd]; now repeat apply I_out.
    + destruct (if pv_hist_or pv then _ else _); cbn [snd]; now repeat apply I_out.
  - destruct (pnt c); [exact Hs|].
    match goal with |- I (snd (fold_left ?f ?l ?a0)) =>
      assert (G : forall l' (a : list nat * list nat * pstate), I (snd a) -> I (snd (fold_left f l' a))) end.
    { induction l' as [|j r IH]; intros a Ha; cbn [fold_left]; [exact Ha|].
      apply IH. destruct a as [[e tset] s']. cbn [snd] in *. destruct (ft_source (tr c j) =? i); cbn [snd]; [now apply I_out|exact Ha]. }
    apply G. cbn [snd]. now apply I_out.
Qed.

Lemma pres_entry_set cfg ex hist tg tset s : I s -> I (snd (p_entry_set pv c cfg ex hist tg tset s)).
Proof.
  intros Hs. unfold p_entry_set.
  assert (G : forall l (a : list nat * list nat * pstate), I (snd a) -> I (snd (fold_left (p_descend_one pv c cfg ex hist) l a))).
  { induction l as [|i r IH]; intros a Ha; cbn [fold_left]; [exact Ha|].
    apply IH. destruct a as [[e t] s']. now apply pres_descend_one. }
  specialize (G (seq 0 (pn c)) (p_anc_close c tg, tset, s) Hs).
  destruct (fold_left _ _ _) as [[e t] s']. cbn [snd] in *. now apply I_out.
Qed.

Lemma pres_microstep tg ex tset : pres (p_microstep pv c iq eq tg ex tset).
Proof.
  intros s Hs. unfold p_microstep.
  pose proof (pres_entry_set (p_cfg (p_remember pv c ex s)) ex (p_hist (p_remember pv c ex s)) tg tset
                (p_remember pv c ex s) (pres_remember ex s Hs)) as E.
  destruct (p_entry_set _ _ _ _ _ _ _ _) as [[es ts] s2]. cbn [snd] in E.
  apply (pres_fold (p_enter_one pv c iq eq es ts)); [intros i; apply pres_enter_one|].
  apply (pres_fold (p_take_one pv c iq eq ts)); [intros j; apply pres_take_one|].
  apply (pres_fold (p_exit_one pv c iq eq ex)); [intros i; apply pres_exit_one|]. exact E.
Qed.

Lemma pres_select ev s : I s -> I (snd (p_select pv c ev s)).
Proof. intros Hs. unfold p_select. destruct (pnt c); cbn [snd]; now repeat apply I_out. Qed.

Lemma pres_dstep ev : pres (fun s => fst (pml_dstep pv c iq eq ev s)).
Proof.
  intros s Hs. unfold pml_dstep.
  pose proof (pres_select ev s Hs) as H2. destruct (p_select pv c ev s) as [a s2]. cbn [snd] in H2.
  set (s2' := set_flags (p_spont s2) (p_tlf s2) (k_found a) (p_fin s2) s2).
  assert (H2' : I s2') by now apply I_set_flags.
  destruct (negb (nonempty (p_cfg s2'))).
  - cbv beta iota zeta. cbn [fst].
    assert (H3 : I (out PInitialEntry (set_flags true (p_tlf s2') true (p_fin s2') s2'))) by (apply I_out; now apply I_set_flags).
    destruct (p_found _); [now apply pres_microstep|exact H3].
  - destruct (p_found s2'); cbv beta iota zeta; cbn [fst].
    + assert (H3 : I (set_flags true (p_tlf s2') true (p_fin s2') (out PFound s2'))) by (apply I_set_flags; now apply I_out).
      destruct (p_found _); [now apply pres_microstep|exact H3].
    + assert (H3 : I (out PNotFound (set_flags false (p_tlf s2') false (p_fin s2') s2'))) by (apply I_out; now apply I_set_flags).
      destruct (p_found _); [now apply pres_microstep|exact H3].
Qed.
End Pres.

(* ------------------------------------------------------------------ the invariant about event names *)
Section Names.
Variable P : bytes -> Prop.
Variable pv : pml_variant.
Variable c : fchart.
Variable iq eq : nat.

Definition qinv (s : pstate) : Prop := Forall P (p_iq s) /\ Forall P (p_eq s).

Fixpoint instr_names (i : instr) : Prop :=
  match i with
  | IRaise _ ev | ISend _ ev | ISendBadType _ ev => P ev
  | ISendBadTarget _ _ | ILog _ _ | IAssign _ _ _ => True
  | IIf _ _ body =>
    (fix go (l : list ifitem) : Prop :=
       match l with
       | [] => True
       | FInstr j :: r => instr_names j /\ go r
       | _ :: r => go r
       end) body
  end.
Definition items_names :=
  fix go (l : list ifitem) : Prop :=
    match l with
    | [] => True
    | FInstr j :: r => instr_names j /\ go r
    | _ :: r => go r
    end.
Definition block_names (b : block) : Prop := Forall instr_names b.
Definition blocks_names (bs : list block) : Prop := Forall block_names bs.
Definition chart_names : Prop :=
  Forall (fun s => blocks_names (fs_onentry s) /\ blocks_names (fs_onexit s)) (fc_states c) /\
  Forall (fun t => block_names (ft_body t)) (fc_trans c).

Lemma qinv_set_full s : qinv s -> qinv (set_full s).
Proof. unfold set_full. destruct (p_full s); auto. Qed.

Lemma qinv_raise ev s : P ev -> qinv s -> qinv (p_raise iq ev s).
Proof.
  intros Hp [H1 H2]. unfold p_raise. destruct (negb (p_fin s) || p_tlf s); [|split; assumption].
  destruct (length (p_iq s) <? iq); [|apply qinv_set_full; split; assumption].
  split; cbn [set_iq p_iq p_eq]; [|exact H2]. apply Forall_app. split; [exact H1|now constructor].
Qed.
Lemma qinv_raise_direct ev s : P ev -> qinv s -> qinv (p_raise_direct iq ev s).
Proof.
  intros Hp [H1 H2]. unfold p_raise_direct.
  destruct (length (p_iq s) <? iq); [|apply qinv_set_full; split; assumption].
  split; cbn [set_iq p_iq p_eq]; [|exact H2]. apply Forall_app. split; [exact H1|now constructor].
Qed.
Lemma qinv_send ev s : P ev -> qinv s -> qinv (p_send eq ev s).
Proof.
  intros Hp [H1 H2]. unfold p_send. destruct (negb (p_fin s) || p_tlf s); [|split; assumption].
  destruct (length (p_eq s) <? eq); [|apply qinv_set_full; split; assumption].
  split; cbn [set_eq p_iq p_eq]; [exact H1|]. apply Forall_app. split; [exact H2|now constructor].
Qed.

Lemma qinv_instr i : instr_names i -> forall s, qinv s -> qinv (pexec_instr pv c iq eq i s).
Proof.
  induction i using instr_ind2 with
    (Q := fun it => match it with FInstr j => instr_names j -> forall s, qinv s -> qinv (pexec_instr pv c iq eq j s) | _ => True end);
    try exact I; try assumption; intros Hn s Hs; cbn [instr_names] in Hn.
  - now apply qinv_raise.
  - now apply qinv_send.
  - now apply qinv_send.
  - exact Hs.
  - exact Hs.
  - exact Hs.
  - change (items_names body) in Hn.
    cbn [pexec_instr]. generalize (pml_beval (pml_in pv c (p_cfg s)) (p_store s) c0). revert s Hs Hn.
    induction H as [|it r Hit Hr IH]; intros s Hs Hn taken; [exact Hs|].
    destruct it as [c'| |j]; cbn [items_names] in Hn.
    + destruct taken; [exact Hs|]. now apply IH.
    + destruct taken; [exact Hs|]. now apply IH.
    + destruct Hn as [Hj Hn]. destruct taken; [|now apply IH]. apply IH; [|exact Hn]. now apply Hit.
Qed.

Lemma qinv_block b : block_names b -> forall s, qinv s -> qinv (pexec_block pv c iq eq b s).
Proof.
  unfold pexec_block. induction 1 as [|i r Hi Hr IH]; intros s Hs; cbn [fold_left]; [exact Hs|].
  apply IH. now apply qinv_instr.
Qed.
Lemma qinv_blocks bs : blocks_names bs -> forall s, qinv s -> qinv (pexec_blocks pv c iq eq bs s).
Proof.
  unfold pexec_blocks. induction 1 as [|b r Hb Hr IH]; intros s Hs; cbn [fold_left]; [exact Hs|].
  apply IH. now apply qinv_block.
Qed.

Hypothesis Hchart : chart_names.
Hypothesis Hdone : forall j,
  (is_par (ptype c j) = true \/
   exists i, is_fin (ptype c i) = true /\ fs_parent (st c i) = Some j /\ mem 1 (fs_children (st c j)) = false) ->
  P (done_name c j).

Lemma state_names i : blocks_names (fs_onentry (st c i)) /\ blocks_names (fs_onexit (st c i)).
Proof.
  destruct Hchart as [Hs _]. rewrite Forall_forall in Hs. unfold st.
  destruct (nth_in_or_default i (fc_states c) dummy_state) as [Hi|D]; [now apply Hs|].
  rewrite D. split; constructor.
Qed.
Lemma trans_names j : block_names (ft_body (tr c j)).
Proof.
  destruct Hchart as [_ Ht]. rewrite Forall_forall in Ht. unfold tr.
  destruct (nth_in_or_default j (fc_trans c) dummy_trans) as [Hj|D]; [now apply Ht|].
  rewrite D. constructor.
Qed.

Theorem qinv_dstep ev s : qinv s -> qinv (fst (pml_dstep pv c iq eq ev s)).
Proof.
  apply (pres_dstep pv c iq eq qinv); unfold pres.
  - intros t s0 Hs0; exact Hs0.
  - intros g s0 Hs0; exact Hs0.
  - intros h s0 Hs0; exact Hs0.
  - intros a b d e s0 Hs0; exact Hs0.
  - intros bs (i & [->| ->]) s0 Hs0; apply qinv_blocks; auto; apply state_names.
  - intros j s0 Hs0. apply qinv_block; [apply trans_names|exact Hs0].
  - intros j Hj s0 Hs0. apply qinv_raise_direct; [now apply Hdone|exact Hs0].
Qed.
End Names.
