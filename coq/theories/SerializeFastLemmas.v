(* SerializeFastLemmas.v -- C14 for the bit-array engine (Fast.fast_step: FastMicroStep::step): the same
   traversal and invariants as for LargeMicroStep, plus the bound "every recorded index is a state index" that
   the bit-array encoding needs (an index beyond the array would be dropped by the encoding). *)
From V Require Import Base NameMatch Chart Exec Large LargeLemmas Interp Fast GenBase64 Serialize
     SerializeCodecLemmas SerializeCongLemmas SerializeLemmas.
From Coq Require Import Sorted.
Local Open Scope nat_scope.

(* ------------------------------------------------------------------ the traversal for fast_step *)

Section FCong.
Variable xv : ex_variant.
Variable c : fchart.
Variable Rs : store -> store -> Prop.
Variable Pe : event -> Prop.
Hypothesis Rs_lookup : forall s s', Rs s s' -> forall k, lookup s k = lookup s' k.
Hypothesis Rs_update : forall s s' k z, Rs s s' -> (lookup s k <> None \/ In k (declared c)) -> Rs (update s k z) (update s' k z).
Hypothesis Pe_exec : Pe err_exec.
Hypothesis Pe_comm : Pe err_comm.
Hypothesis Pe_done : forall i, Pe (done_event c i).
Hypothesis Pe_raise : forall n, n <> [] -> Pe {| ev_name := n; ev_kind := EvInternal |}.
Hypothesis Hnamed : chart_named c = true.
Variables ox oy : list tok.

Notation R := (Rx Rs Pe ox oy).
Notation RR := (@Rres Rs Pe ox oy _).

Definition f_emit := Rx_emit Rs Pe ox oy.
Definition f_raise_int := Rx_raise_int Rs Pe ox oy.
Definition f_is_true := is_true_R Rs Pe Rs_lookup Pe_exec ox oy.
Definition f_block := exec_block_R xv c Rs Pe Rs_lookup Rs_update Pe_exec Pe_comm Pe_raise ox oy.
Definition f_blocks := exec_blocks_R xv c Rs Pe Rs_lookup Rs_update Pe_exec Pe_comm Pe_raise ox oy.
Definition f_datas := init_datas_R c Rs Pe Rs_lookup Rs_update Pe_exec ox oy.
Definition f_exit := exit_fold_R xv c Rs Pe Rs_lookup Rs_update Pe_exec Pe_comm Pe_raise Hnamed ox oy.
Definition f_take := take_fold_R xv c Rs Pe Rs_lookup Rs_update Pe_exec Pe_comm Pe_raise Hnamed ox oy.
Definition f_queues := Rx_queues Rs Pe ox oy.

Lemma fselect_R cfg ev : forall ts selected x y, R x y ->
  RR (fselect c cfg ev ts selected x) (fselect c cfg ev ts selected y).
Proof.
  induction ts as [|ti r IH]; intros selected x y H; cbn [fselect]; [split; cbn; auto|].
  destruct (ft_history (tr c ti) || ft_initial (tr c ti)); [now apply IH|].
  destruct (negb (mem (ft_source (tr c ti)) cfg)); [now apply IH|].
  destruct (existsb (fun si => fconflicts c (tr c si) (tr c ti)) selected); [now apply IH|].
  destruct (match ev with Some _ => ft_spontaneous (tr c ti) | None => negb (ft_spontaneous (tr c ti)) end); [now apply IH|].
  destruct (match ev with Some e => negb (name_match_impl nm_fixed (ft_event (tr c ti)) (ev_name e)) | None => false end); [now apply IH|].
  destruct (ft_cond (tr c ti)) as [cnd|]; [|now apply IH].
  destruct (f_is_true (inst_of c cfg) cnd _ _ H) as [Hb H2].
  destruct (is_true (inst_of c cfg) cnd x) as [b x1]. destruct (is_true (inst_of c cfg) cnd y) as [b' y1]. cbn [fst snd] in Hb, H2. subst b'.
  destruct b; now apply IH.
Qed.

Notation RA := (Ra Rs Pe ox oy).

Lemma fenter_one_R transset a b i : RA a b -> RA (fenter_one xv c transset a i) (fenter_one xv c transset b i).
Proof.
  intros (Hc & Hi & Ht & Hx). unfold fenter_one. rewrite <- Hc, <- Hi, <- Ht.
  destruct (mem i (ea_cfg a)); [unfold Ra; auto|].
  destruct (is_pseudo (fs_type (st c i))); [unfold Ra; auto|].
  set (cfg1 := insert_sorted i (ea_cfg a)).
  assert (H1 : R (emit (TEb (fs_sid (st c i))) (ea_x a)) (emit (TEb (fs_sid (st c i))) (ea_x b))) by now apply f_emit.
  assert (Hd : exists initd1 x2 y2,
     (if mem i (ea_initd a) then (ea_initd a, emit (TEb (fs_sid (st c i))) (ea_x a))
      else (insert_sorted i (ea_initd a), fold_left (fun x d => init_data d x) (fs_data (st c i)) (emit (TEb (fs_sid (st c i))) (ea_x a)))) = (initd1, x2) /\
     (if mem i (ea_initd a) then (ea_initd a, emit (TEb (fs_sid (st c i))) (ea_x b))
      else (insert_sorted i (ea_initd a), fold_left (fun x d => init_data d x) (fs_data (st c i)) (emit (TEb (fs_sid (st c i))) (ea_x b)))) = (initd1, y2) /\
     R x2 y2).
  { destruct (mem i (ea_initd a)).
    - eexists _, _, _. split; [reflexivity|split; [reflexivity|exact H1]].
    - eexists _, _, _. split; [reflexivity|split; [reflexivity|]].
      apply f_datas; [|exact H1]. intros d Hin. eapply data_declared. exact Hin. }
  destruct Hd as (initd1 & x2 & y2 & E1 & E2 & H2). rewrite E1, E2.
  assert (H3 : R (exec_blocks xv (inst_of c cfg1) (fs_onentry (st c i)) x2) (exec_blocks xv (inst_of c cfg1) (fs_onentry (st c i)) y2)).
  { apply f_blocks; [apply onentry_named; exact Hnamed|exact H2]. }
  assert (H4 := f_emit (TEe (fs_sid (st c i))) _ _ H3).
  set (x4 := emit (TEe (fs_sid (st c i))) (exec_blocks xv (inst_of c cfg1) (fs_onentry (st c i)) x2)) in *.
  set (y4 := emit (TEe (fs_sid (st c i))) (exec_blocks xv (inst_of c cfg1) (fs_onentry (st c i)) y2)) in *.
  assert (H5 : forall ts x y, R x y ->
     R (fold_left (fun x ti =>
                 let t := tr c ti in
                 if (ft_history t || ft_initial t) &&
                    match fs_parent (st c (ft_source t)) with Some p => p =? i | None => false end then
                   let y1 := emit (TTb (ft_vid t)) x in
                   let y2 := if ft_has_body t then exec_block xv (inst_of c cfg1) (ft_body t) y1 else y1 in
                   emit (TTe (ft_vid t)) y2
                 else x) ts x)
       (fold_left (fun x ti =>
                 let t := tr c ti in
                 if (ft_history t || ft_initial t) &&
                    match fs_parent (st c (ft_source t)) with Some p => p =? i | None => false end then
                   let y1 := emit (TTb (ft_vid t)) x in
                   let y2 := if ft_has_body t then exec_block xv (inst_of c cfg1) (ft_body t) y1 else y1 in
                   emit (TTe (ft_vid t)) y2
                 else x) ts y)).
  { induction ts as [|ti r IH]; intros x y H; cbn [fold_left]; [exact H|].
    apply IH. cbv zeta.
    destruct ((ft_history (tr c ti) || ft_initial (tr c ti)) &&
              match fs_parent (st c (ft_source (tr c ti))) with Some p => p =? i | None => false end); [|exact H].
    apply f_emit. destruct (ft_has_body (tr c ti)); [|now apply f_emit].
    apply f_block; [apply tr_named; exact Hnamed|now apply f_emit]. }
  specialize (H5 transset _ _ H4).
  match type of H5 with Rx _ _ _ _ ?a ?b => set (x5 := a) in *; set (y5 := b) in * end.
  assert (Hanc : forall anc x y, R x y ->
            R (fold_left (fun x j => match fs_type (st c j) with
                                     | FParallel => if fpar_done c cfg1 j then raise_int (done_event c j) x else x
                                     | _ => x end) anc x)
              (fold_left (fun x j => match fs_type (st c j) with
                                     | FParallel => if fpar_done c cfg1 j then raise_int (done_event c j) x else x
                                     | _ => x end) anc y)).
  { induction anc as [|j r IH]; intros x6 y6 H6; cbn [fold_left]; [exact H6|].
    apply IH. destruct (fs_type (st c j)); try exact H6.
    destruct (fpar_done c cfg1 j); [|exact H6]. now apply f_raise_int. }
  destruct (fs_type (st c i));
    unfold Ra; cbn [ea_cfg ea_initd ea_tlf ea_x]; refine (conj eq_refl (conj eq_refl (conj eq_refl _))); try exact H5.
  (* final: done events of the parent and of completed parallel ancestors *)
  apply Hanc.
  destruct (match fs_ancestors (st c i) with [0] => true | _ => false end); [exact H5|].
  destruct (fs_parent (st c i)); [now apply f_raise_int|exact H5].
Qed.

Lemma fenter_fold_R transset : forall es a b, RA a b ->
  RA (fold_left (fenter_one xv c transset) es a) (fold_left (fenter_one xv c transset) es b).
Proof. induction es as [|i r IH]; intros a b H; cbn [fold_left]; [exact H|]. apply IH. now apply fenter_one_R. Qed.

Lemma fmicrostep_R l x y targets exitset transset ini : R x y ->
  Rlx Rs Pe ox oy (fmicrostep xv c l x targets exitset transset ini) (fmicrostep xv c l y targets exitset transset ini).
Proof.
  intros H. unfold fmicrostep.
  destruct (fentry_set c (l_cfg l) exitset (if ini then l_hist l else fremember c (l_cfg l) exitset (l_hist l)) targets transset) as [es ts].
  destruct (f_exit (rev exitset) (l_cfg l) _ _ H) as [Hc H1].
  destruct (fold_left (exit_one xv c) (rev exitset) (l_cfg l, x)) as [cfg1 x1].
  destruct (fold_left (exit_one xv c) (rev exitset) (l_cfg l, y)) as [cfg1' y1]. cbn [fst snd] in Hc, H1. subst cfg1'.
  pose proof (f_take cfg1 ts _ _ H1) as H2.
  assert (H3 : RA {| ea_cfg := cfg1; ea_initd := l_initd l; ea_tlf := l_tlf l; ea_x := fold_left (take_one xv c cfg1) ts x1 |}
                  {| ea_cfg := cfg1; ea_initd := l_initd l; ea_tlf := l_tlf l; ea_x := fold_left (take_one xv c cfg1) ts y1 |}).
  { unfold Ra; cbn; auto. }
  destruct (fenter_fold_R ts es _ _ H3) as (E1 & E2 & E3 & H4).
  split; cbn [fst snd].
  - now rewrite E1, E2, E3.
  - now apply f_emit.
Qed.

Lemma fselect_and_step_R l x y ev : R x y ->
  Rstep Rs Pe ox oy (fselect_and_step xv c l x ev) (fselect_and_step xv c l y ev).
Proof.
  intros H. unfold fselect_and_step.
  destruct (fselect_R (l_cfg (upd_flags l (l_spont l) false)) ev (seq 0 (ntrans c)) [] _ _ H) as [Hs H1].
  destruct (fselect c (l_cfg (upd_flags l (l_spont l) false)) ev (seq 0 (ntrans c)) [] x) as [sel x1].
  destruct (fselect c (l_cfg (upd_flags l (l_spont l) false)) ev (seq 0 (ntrans c)) [] y) as [sel' y1].
  cbn [fst snd] in Hs, H1. subst sel'.
  destruct sel as [|s0 sr]; [unfold Rstep; rsplit; cbn; auto|].
  match goal with |- context [fmicrostep xv c ?l0 (emit TMsB x1) ?tg ?ex ?ts false] =>
    destruct (fmicrostep_R l0 _ _ tg ex ts false (f_emit TMsB _ _ H1)) as [E H2];
    destruct (fmicrostep xv c l0 (emit TMsB x1) tg ex ts false) as [l1 x2];
    destruct (fmicrostep xv c l0 (emit TMsB y1) tg ex ts false) as [l1' y2]
  end.
  cbn [fst snd] in E, H2. subst l1'. unfold Rstep; rsplit; cbn; auto.
Qed.

Theorem fast_step_R l x y : R x y -> Rstep Rs Pe ox oy (fast_step xv c l x) (fast_step xv c l y).
Proof.
  intros H. unfold fast_step.
  destruct (l_fin l); [unfold Rstep; rsplit; cbn; auto|].
  destruct (l_tlf l).
  { unfold Rstep; rsplit; cbn [fst snd]; auto. apply f_emit.
    assert (Hf : forall is x y, R x y ->
              R (fold_left (fun x i => exec_blocks xv (inst_of c (l_cfg l)) (fs_onexit (st c i)) x) is x)
                (fold_left (fun x i => exec_blocks xv (inst_of c (l_cfg l)) (fs_onexit (st c i)) x) is y)).
    { induction is as [|i r IH]; intros x0 y0 H0; cbn [fold_left]; [exact H0|]. apply IH.
      apply f_blocks; [apply onexit_named; exact Hnamed|exact H0]. }
    apply Hf. now apply f_emit. }
  destruct (is_pristine l).
  { destruct (fmicrostep_R l _ _ (fs_completion (st c 0)) [] [] true (f_emit TMsB _ _ H)) as [E H1].
    destruct (fmicrostep xv c l (emit TMsB x) (fs_completion (st c 0)) [] [] true) as [l1 x1].
    destruct (fmicrostep xv c l (emit TMsB y) (fs_completion (st c 0)) [] [] true) as [l1' y1].
    cbn [fst snd] in E, H1. subst l1'. unfold Rstep; rsplit; cbn; auto. }
  destruct (l_spont l); [now apply fselect_and_step_R|].
  rewrite <- (rx_iq _ _ _ _ _ _ H).
  pose proof (rx_pe _ _ _ _ _ _ H) as Hpe.
  destruct (x_iq x) as [|e r] eqn:Eiq.
  - destruct (negb (l_stable l)); [unfold Rstep; rsplit; cbn; auto; now apply f_emit|].
    rewrite <- (rx_eq _ _ _ _ _ _ H).
    destruct (x_eq x) as [|e r] eqn:Eeq.
    + destruct (l_cancelled l); unfold Rstep; rsplit; cbn; auto.
    + destruct (ev_name e) eqn:En.
      * destruct (l_cancelled l); unfold Rstep; rsplit; cbn [fst snd]; auto; now apply f_queues.
      * apply fselect_and_step_R. apply f_emit. now apply f_queues.
  - destruct (ev_name e) eqn:En; [unfold Rstep; rsplit; cbn; auto|].
    apply fselect_and_step_R. apply f_emit.
    rewrite <- (rx_eq _ _ _ _ _ _ H). apply f_queues; [exact H|]. now inversion Hpe.
Qed.

End FCong.

(* ------------------------------------------------------------------ invariants of fast_step *)

Section FastInv.
Variable xv : ex_variant.
Variable c : fchart.

Notation n := (nstates c).

(* ---- strictly ascending sets ---- *)

Lemma set_inter_ssorted a b : ssorted a -> ssorted (set_inter a b).
Proof. apply filter_ssorted. Qed.
Lemma set_diff_ssorted a b : ssorted a -> ssorted (set_diff a b).
Proof. apply filter_ssorted. Qed.

Lemma fremember_sorted cfg exitset hist : ssorted hist -> ssorted (fremember c cfg exitset hist).
Proof.
  unfold fremember. generalize (seq 0 (fn c)). intros is. revert hist.
  induction is as [|i r IH]; intros hist H; cbn [fold_left]; [exact H|].
  apply IH.
  destruct (is_hist (fs_type (st c i)) && match fs_parent (st c i) with Some p => mem p exitset | None => false end); [|exact H].
  apply set_union_ssorted. now apply set_diff_ssorted.
Qed.

Lemma fenter_one_sorted ts a i : ssorted (ea_cfg a) -> ssorted (ea_initd a) ->
  ssorted (ea_cfg (fenter_one xv c ts a i)) /\ ssorted (ea_initd (fenter_one xv c ts a i)).
Proof.
  intros H1 H2. unfold fenter_one.
  destruct (mem i (ea_cfg a)); [split; assumption|].
  destruct (is_pseudo (fs_type (st c i))); [split; assumption|].
  destruct (mem i (ea_initd a)); destruct (fs_type (st c i)); cbn [ea_cfg ea_initd]; split; auto using insert_sorted_ssorted.
Qed.

Lemma fenter_fold_sorted ts : forall es a, ssorted (ea_cfg a) -> ssorted (ea_initd a) ->
  ssorted (ea_cfg (fold_left (fenter_one xv c ts) es a)) /\ ssorted (ea_initd (fold_left (fenter_one xv c ts) es a)).
Proof.
  induction es as [|i r IH]; intros a H1 H2; cbn [fold_left]; [split; assumption|].
  destruct (fenter_one_sorted ts a i H1 H2). now apply IH.
Qed.

Lemma fmicrostep_sorted l x tg ex ts ini : lsorted l -> lsorted (fst (fmicrostep xv c l x tg ex ts ini)).
Proof.
  intros (H1 & H2 & H3). unfold fmicrostep.
  destruct (fentry_set c (l_cfg l) ex (if ini then l_hist l else fremember c (l_cfg l) ex (l_hist l)) tg ts) as [es ts'].
  pose proof (exit_fold_cfg xv c (rev ex) (l_cfg l) x H1) as Hc.
  destruct (fold_left (exit_one xv c) (rev ex) (l_cfg l, x)) as [cfg1 x1]. cbn [fst] in Hc.
  match goal with |- context [fold_left (fenter_one xv c ts') ?es ?a0] =>
    destruct (fenter_fold_sorted ts' es a0 Hc H3) as [E1 E2] end.
  cbn [fst]. repeat split; cbn [l_cfg l_hist l_initd]; auto.
  destruct ini; [exact H2|now apply fremember_sorted].
Qed.

Lemma fmicrostep_flags l x tg ex ts ini :
  let l' := fst (fmicrostep xv c l x tg ex ts ini) in
  l_init l' = true /\ l_cancelled l' = l_cancelled l /\ l_fin l' = l_fin l /\ l_stable l' = l_stable l /\ l_spont l' = true.
Proof.
  unfold fmicrostep.
  destruct (fentry_set c (l_cfg l) ex (if ini then l_hist l else fremember c (l_cfg l) ex (l_hist l)) tg ts) as [es ts'].
  destruct (fold_left (exit_one xv c) (rev ex) (l_cfg l, x)) as [cfg1 x1]. cbn. auto.
Qed.

Lemma fselect_and_step_rc l x ev : snd (fselect_and_step xv c l x ev) = RC_MICROSTEPPED.
Proof.
  unfold fselect_and_step.
  destruct (fselect c (l_cfg (upd_flags l (l_spont l) false)) ev (seq 0 (ntrans c)) [] x) as [sel x1].
  destruct sel; [reflexivity|].
  match goal with |- context [fmicrostep xv c ?a ?b ?d ?e ?f ?g] => destruct (fmicrostep xv c a b d e f g) end. reflexivity.
Qed.

Lemma fselect_and_step_Il l x ev : Il l -> l_init l = true -> Il (fst (fst (fselect_and_step xv c l x ev))).
Proof.
  intros [Hs Hi Hc] Hinit. unfold fselect_and_step.
  destruct (fselect c (l_cfg (upd_flags l (l_spont l) false)) ev (seq 0 (ntrans c)) [] x) as [sel x1].
  destruct sel as [|s0 sr].
  - cbn [fst]. constructor; [exact Hs| right; exact Hinit | exact Hc].
  - match goal with |- context [fmicrostep xv c ?a ?b ?d ?e ?f ?g] =>
      pose proof (fmicrostep_sorted a b d e f g) as Hm; pose proof (fmicrostep_flags a b d e f g) as Hf;
      destruct (fmicrostep xv c a b d e f g) as [l1 x2] end.
    cbn [fst] in *. destruct Hf as (F1 & F2 & _).
    constructor; [apply Hm; exact Hs|now right|now rewrite F2].
Qed.

Lemma fast_step_Il l x : Il l -> Il (fst (fst (fast_step xv c l x))).
Proof.
  intros H. pose proof H as [Hs Hi Hc]. unfold fast_step.
  destruct (l_fin l) eqn:Efin; [exact H|].
  destruct (l_tlf l) eqn:Etlf.
  { cbn [fst]. constructor; [exact Hs| |exact Hc]. destruct Hi as [Hi|Hi]; [|now right].
    unfold is_pristine in Hi. rewrite Etlf in Hi. rewrite !orb_true_r in Hi. discriminate. }
  destruct (is_pristine l) eqn:Epr.
  { pose proof (fmicrostep_sorted l (emit TMsB x) (fs_completion (st c 0)) [] [] true Hs) as Hm.
    pose proof (fmicrostep_flags l (emit TMsB x) (fs_completion (st c 0)) [] [] true) as Hf.
    destruct (fmicrostep xv c l (emit TMsB x) (fs_completion (st c 0)) [] [] true) as [l1 x1]. cbn [fst] in *.
    destruct Hf as (F1 & F2 & _). constructor; [exact Hm|now right|now rewrite F2]. }
  assert (Hinit : l_init l = true) by (destruct Hi as [Hi|Hi]; [congruence|exact Hi]).
  destruct (l_spont l); [now apply fselect_and_step_Il|].
  destruct (x_iq x) as [|e r].
  - destruct (negb (l_stable l)).
    + cbn [fst]. constructor; [exact Hs|now right|exact Hc].
    + destruct (x_eq x) as [|e r].
      * rewrite Hc. exact H.
      * destruct (ev_name e); [rewrite Hc; exact H|now apply fselect_and_step_Il].
  - destruct (ev_name e); [exact H|now apply fselect_and_step_Il].
Qed.

(* ---- boundaries ---- *)

Lemma fast_boundary l x l' x' rc :
  Il l -> Forall named (x_iq x) ->
  fast_step xv c l x = (l', x', rc) -> rc = RC_MACROSTEPPED \/ rc = RC_IDLE ->
  x_iq x' = [] /\ boundary_flags l' /\ at_queue_point l x = true /\ completing l = false /\
  l_cfg l' = l_cfg l /\ l_hist l' = l_hist l /\ l_initd l' = l_initd l.
Proof.
  intros [Hs Hi Hc] Hn Hstep Hrc. unfold fast_step in Hstep. unfold at_queue_point, completing.
  destruct (l_fin l) eqn:Efin; [inversion Hstep; subst; destruct Hrc; discriminate|].
  destruct (l_tlf l) eqn:Etlf; [inversion Hstep; subst; destruct Hrc; discriminate|].
  destruct (is_pristine l) eqn:Epr.
  { destruct (fmicrostep xv c l (emit TMsB x) (fs_completion (st c 0)) [] [] true). inversion Hstep; subst. destruct Hrc; discriminate. }
  assert (Hinit : l_init l = true) by (destruct Hi as [Hi|Hi]; [congruence|exact Hi]).
  assert (Hsel : forall x0 ev, fselect_and_step xv c l x0 ev = (l', x', rc) -> False).
  { intros x0 ev E. pose proof (fselect_and_step_rc l x0 ev) as R. rewrite E in R. cbn in R. subst rc. destruct Hrc; discriminate. }
  destruct (l_spont l) eqn:Espont; [exfalso; eapply Hsel; eauto|].
  destruct (x_iq x) as [|e r] eqn:Eiq.
  - destruct (negb (l_stable l)) eqn:Est.
    + inversion Hstep; subst. cbn. unfold boundary_flags. cbn. repeat split; auto.
    + apply negb_false_iff in Est.
      destruct (x_eq x) as [|e r] eqn:Eeq.
      * rewrite Hc in Hstep. inversion Hstep; subst. unfold boundary_flags. repeat split; auto.
      * destruct (ev_name e) eqn:En; [|exfalso; eapply Hsel; eauto].
        rewrite Hc in Hstep. inversion Hstep; subst. unfold boundary_flags. cbn. repeat split; auto.
  - destruct (ev_name e) eqn:En; [|exfalso; eapply Hsel; eauto].
    inversion Hn as [|? ? Hne _]; subst. unfold named in Hne. congruence.
Qed.

Lemma fast_finished l x l' x' : fast_step xv c l x = (l', x', RC_FINISHED) -> l_fin l' = true.
Proof.
  intros Hstep. unfold fast_step in Hstep.
  destruct (l_fin l) eqn:Efin; [inversion Hstep; subst; exact Efin|].
  destruct (l_tlf l); [inversion Hstep; reflexivity|].
  assert (Hsel : forall x0 ev, fselect_and_step xv c l x0 ev = (l', x', RC_FINISHED) -> False).
  { intros x0 ev E. pose proof (fselect_and_step_rc l x0 ev) as R. rewrite E in R. discriminate. }
  destruct (is_pristine l).
  { destruct (fmicrostep xv c l (emit TMsB x) (fs_completion (st c 0)) [] [] true). inversion Hstep. }
  destruct (l_spont l); [exfalso; eapply Hsel; eauto|].
  destruct (x_iq x) as [|e r].
  - destruct (negb (l_stable l)); [inversion Hstep|].
    destruct (x_eq x) as [|e r].
    + destruct (l_cancelled l); inversion Hstep.
    + destruct (ev_name e); [destruct (l_cancelled l); inversion Hstep|exfalso; eapply Hsel; eauto].
  - destruct (ev_name e); [inversion Hstep|exfalso; eapply Hsel; eauto].
Qed.

Lemma fast_fin_absorbing l x : l_fin l = true -> fast_step xv c l x = (l, x, RC_FINISHED).
Proof. intros H. unfold fast_step. now rewrite H. Qed.

Lemma fast_stable_notice l x :
  l_fin l = false -> l_tlf l = false -> l_spont l = false -> l_init l = true -> l_stable l = false -> x_iq x = [] ->
  fast_step xv c l x = (upd_flags l false true, emit TStable x, RC_MACROSTEPPED).
Proof.
  intros F1 F2 F3 F4 F5 Hiq. unfold fast_step, is_pristine. rewrite F1, F2, F3, F4, F5, Hiq. cbn. reflexivity.
Qed.

End FastInv.

(* ------------------------------------------------------------------ every recorded index is a state index *)

Section FastBound.
Variable xv : ex_variant.
Variable c : fchart.
Hypothesis Htb : tables_bounded c = true.

Notation n := (nstates c).
Notation bd := (bounded n).

Lemma bd_forallb l : forallb (fun i => i <? n) l = true -> bd l.
Proof.
  intros H. unfold bounded. rewrite Forall_forall. rewrite forallb_forall in H. intros i Hi. apply Nat.ltb_lt. now apply H.
Qed.

Lemma bd_nil : bd [].
Proof. constructor. Qed.

Lemma anc_bd i : bd (fs_ancestors (st c i)).
Proof.
  unfold tables_bounded in Htb. apply andb_true_iff in Htb. destruct Htb as [H _]. rewrite forallb_forall in H. unfold st.
  destruct (Nat.lt_ge_cases i (length (fc_states c))) as [Hl|Hl].
  - specialize (H _ (nth_In _ dummy_state Hl)). apply andb_true_iff in H. apply bd_forallb. tauto.
  - rewrite nth_overflow by lia. apply bd_nil.
Qed.

Lemma compl_bd i : bd (fs_completion (st c i)).
Proof.
  unfold tables_bounded in Htb. apply andb_true_iff in Htb. destruct Htb as [H _]. rewrite forallb_forall in H. unfold st.
  destruct (Nat.lt_ge_cases i (length (fc_states c))) as [Hl|Hl].
  - specialize (H _ (nth_In _ dummy_state Hl)). apply andb_true_iff in H. apply bd_forallb. tauto.
  - rewrite nth_overflow by lia. apply bd_nil.
Qed.

Lemma targets_bd ti : bd (ft_targets (tr c ti)).
Proof.
  unfold tables_bounded in Htb. apply andb_true_iff in Htb. destruct Htb as [_ H]. rewrite forallb_forall in H. unfold tr.
  destruct (Nat.lt_ge_cases ti (length (fc_trans c))) as [Hl|Hl].
  - apply bd_forallb. apply H. now apply nth_In.
  - rewrite nth_overflow by lia. apply bd_nil.
Qed.

Lemma bd_insert x l : x < n -> bd l -> bd (insert_sorted x l).
Proof.
  unfold bounded. rewrite !Forall_forall. intros Hx H i Hi. apply insert_sorted_In in Hi. destruct Hi as [->|Hi]; auto.
Qed.

Lemma bd_fold_insert b : forall a, bd a -> bd b -> bd (fold_left (fun a x => insert_sorted x a) b a).
Proof.
  induction b as [|y r IH]; intros a Ha Hb; cbn [fold_left]; [exact Ha|].
  inversion Hb; subst. apply IH; [now apply bd_insert|assumption].
Qed.

Lemma bd_union a b : bd a -> bd b -> bd (set_union a b).
Proof. apply bd_fold_insert. Qed.

Lemma bd_filter f l : bd l -> bd (filter f l).
Proof. unfold bounded. rewrite !Forall_forall. intros H i Hi. apply filter_In in Hi. apply H. tauto. Qed.

Lemma bd_In l i : bd l -> In i l -> i < n.
Proof. unfold bounded. rewrite Forall_forall. auto. Qed.

Lemma add_ancestors_bd es : bd es -> bd (add_ancestors c es).
Proof.
  unfold add_ancestors. intros H.
  assert (G : forall l acc, bd acc -> bd (fold_left (fun a s => set_union a (fs_ancestors (st c s))) l acc)).
  { induction l as [|s r IH]; intros acc Hacc; cbn [fold_left]; [exact Hacc|].
    apply IH. apply bd_union; [exact Hacc|apply anc_bd]. }
  now apply G.
Qed.

Ltac bdauto := repeat (first [ exact bd_nil | apply anc_bd | apply compl_bd | apply targets_bd | apply bd_union | apply bd_filter | assumption ]).

Lemma fold_anc_bd (g : nat -> bool) : forall ks es, bd es ->
  bd (fold_left (fun e k => if g k then set_union e (fs_ancestors (st c k)) else e) ks es).
Proof.
  induction ks as [|k r IH]; intros es H; cbn [fold_left]; [exact H|].
  apply IH. destruct (g k); bdauto.
Qed.

Lemma fdescend_one_bd cfg exitset hist acc i : bd (fst acc) -> bd (fst (fdescend_one c cfg exitset hist acc i)).
Proof.
  destruct acc as [es ts]. cbn [fst]. intros H. unfold fdescend_one.
  destruct (negb (mem i es)); [exact H|].
  destruct (fs_type (st c i)) eqn:Et; cbn [fst]; try exact H.
  - (* compound *)
    destruct (negb (intersects es (desc c i)) && (negb (intersects cfg (desc c i)) || intersects exitset (desc c i))); [|exact H].
    cbn [fst]. apply fold_anc_bd. bdauto.
  - (* parallel *) bdauto.
  - (* shallow history *)
    destruct (negb (intersects (fs_completion (st c i)) hist)).
    + destruct (fs_trans (st c i)) as [|ti r]; [exact H|]. cbn [fst]. bdauto.
    + cbn [fst]. unfold set_inter. bdauto.
  - (* deep history *)
    destruct (negb (intersects (fs_completion (st c i)) hist)).
    + destruct (fs_trans (st c i)) as [|ti r]; [exact H|]. cbn [fst].
      destruct (negb (intersects (ft_targets (tr c ti)) (desc c i))); [|bdauto].
      assert (H1 : bd (set_union es (ft_targets (tr c ti)))) by bdauto.
      revert H1. generalize (set_union es (ft_targets (tr c ti))).
      induction (filter (fun k => i <? k) (ft_targets (tr c ti))) as [|k rk IHk]; intros a Ha; cbn [fold_left]; [exact Ha|].
      apply IHk. bdauto.
    + cbn [fst]. unfold set_inter. bdauto.
  - (* initial *)
    generalize (fs_trans (st c i)). intros tl. revert es ts H.
    induction tl as [|ti r IH]; intros es ts H; cbn [fold_left fst]; [exact H|].
    apply IH. cbn [fst]. apply fold_anc_bd. unfold set_remove. bdauto.
Qed.

Lemma fentry_set_bd cfg exitset hist targets ts : bd targets -> bd (fst (fentry_set c cfg exitset hist targets ts)).
Proof.
  intros H. unfold fentry_set. generalize (seq 0 (fn c)). intros is.
  assert (H0 : bd (fst (add_ancestors c targets, ts))) by (cbn; now apply add_ancestors_bd).
  revert H0. generalize (add_ancestors c targets, ts). intros acc.
  revert acc. induction is as [|i r IH]; intros acc Hacc; cbn [fold_left]; [exact Hacc|].
  apply IH. now apply fdescend_one_bd.
Qed.

Lemma exit_fold_bd : forall l cfg x, bd cfg -> bd (fst (fold_left (exit_one xv c) l (cfg, x))).
Proof.
  induction l as [|i r IH]; intros cfg x H; cbn [fold_left]; [exact H|].
  unfold exit_one at 2. apply IH. unfold set_remove. now apply bd_filter.
Qed.

Lemma fenter_one_bd ts a i : i < n -> bd (ea_cfg a) -> bd (ea_initd a) ->
  bd (ea_cfg (fenter_one xv c ts a i)) /\ bd (ea_initd (fenter_one xv c ts a i)).
Proof.
  intros Hi H1 H2. unfold fenter_one.
  destruct (mem i (ea_cfg a)); [split; assumption|].
  destruct (is_pseudo (fs_type (st c i))); [split; assumption|].
  destruct (mem i (ea_initd a)); destruct (fs_type (st c i)); cbn [ea_cfg ea_initd]; split; auto using bd_insert.
Qed.

Lemma fenter_fold_bd ts : forall es a, bd es -> bd (ea_cfg a) -> bd (ea_initd a) ->
  bd (ea_cfg (fold_left (fenter_one xv c ts) es a)) /\ bd (ea_initd (fold_left (fenter_one xv c ts) es a)).
Proof.
  induction es as [|i r IH]; intros a He H1 H2; cbn [fold_left]; [split; assumption|].
  inversion He; subst. destruct (fenter_one_bd ts a i ltac:(assumption) H1 H2). now apply IH.
Qed.

Lemma fremember_bd cfg exitset hist : bd hist -> bd (fremember c cfg exitset hist).
Proof.
  unfold fremember. generalize (seq 0 (fn c)). intros is. revert hist.
  induction is as [|i r IH]; intros hist H; cbn [fold_left]; [exact H|].
  apply IH.
  destruct (is_hist (fs_type (st c i)) && match fs_parent (st c i) with Some p => mem p exitset | None => false end); [|exact H].
  unfold set_diff, set_inter. bdauto.
Qed.

Definition fbounded (l : lstate) : Prop := bd (l_cfg l) /\ bd (l_hist l) /\ bd (l_initd l).

Lemma fmicrostep_bd l x tg ex ts ini : bd tg -> fbounded l -> fbounded (fst (fmicrostep xv c l x tg ex ts ini)).
Proof.
  intros Htg (H1 & H2 & H3). unfold fmicrostep.
  pose proof (fentry_set_bd (l_cfg l) ex (if ini then l_hist l else fremember c (l_cfg l) ex (l_hist l)) tg ts Htg) as Hes.
  destruct (fentry_set c (l_cfg l) ex (if ini then l_hist l else fremember c (l_cfg l) ex (l_hist l)) tg ts) as [es ts'].
  cbn [fst] in Hes.
  pose proof (exit_fold_bd (rev ex) (l_cfg l) x H1) as Hc.
  destruct (fold_left (exit_one xv c) (rev ex) (l_cfg l, x)) as [cfg1 x1]. cbn [fst] in Hc.
  match goal with |- context [fold_left (fenter_one xv c ts') ?es ?a0] =>
    destruct (fenter_fold_bd ts' es a0 Hes Hc H3) as [E1 E2] end.
  cbn [fst]. repeat split; cbn [l_cfg l_hist l_initd]; auto.
  destruct ini; [exact H2|now apply fremember_bd].
Qed.

Lemma sel_targets_bd : forall sel acc, bd acc -> bd (fold_left (fun a ti => set_union a (ft_targets (tr c ti))) sel acc).
Proof.
  induction sel as [|ti r IH]; intros acc H; cbn [fold_left]; [exact H|]. apply IH. bdauto.
Qed.

Lemma fselect_and_step_bd l x ev : fbounded l -> fbounded (fst (fst (fselect_and_step xv c l x ev))).
Proof.
  intros H. unfold fselect_and_step.
  destruct (fselect c (l_cfg (upd_flags l (l_spont l) false)) ev (seq 0 (ntrans c)) [] x) as [sel x1].
  destruct sel as [|s0 sr]; [exact H|].
  match goal with |- context [fmicrostep xv c ?a ?b ?d ?e ?f ?g] =>
    pose proof (fmicrostep_bd a b d e f g) as Hm; destruct (fmicrostep xv c a b d e f g) as [l1 x2] end.
  cbn [fst] in *. apply Hm; [apply sel_targets_bd; apply bd_nil|exact H].
Qed.

Lemma fast_step_bd l x : fbounded l -> fbounded (fst (fst (fast_step xv c l x))).
Proof.
  intros H. unfold fast_step.
  destruct (l_fin l); [exact H|].
  destruct (l_tlf l); [exact H|].
  destruct (is_pristine l).
  { pose proof (fmicrostep_bd l (emit TMsB x) (fs_completion (st c 0)) [] [] true (compl_bd 0) H) as Hm.
    destruct (fmicrostep xv c l (emit TMsB x) (fs_completion (st c 0)) [] [] true) as [l1 x1]. exact Hm. }
  destruct (l_spont l); [now apply fselect_and_step_bd|].
  destruct (x_iq x) as [|e r].
  - destruct (negb (l_stable l)); [exact H|].
    destruct (x_eq x) as [|e r].
    + destruct (l_cancelled l); exact H.
    + destruct (ev_name e); [destruct (l_cancelled l); exact H|now apply fselect_and_step_bd].
  - destruct (ev_name e); [exact H|now apply fselect_and_step_bd].
Qed.

End FastBound.

(* ================================================================== the theorems for the bit-array engine *)

Section FastFinal.
Variable xv : ex_variant.
Variable c : fchart.
Hypothesis Hnamed : chart_named c = true.
Hypothesis Htb : tables_bounded c = true.
Hypothesis Hn64 : (N.of_nat (nstates c) < 256 ^ N.of_nat bitset_block_bytes)%N.

Notation fstep := (fast_step xv c).

Definition Jf (l : lstate) : Prop := Il l /\ fbounded c l.

Lemma Jf_pristine : Jf l_pristine.
Proof. split; [apply l_pristine_Il|]. repeat split; constructor. Qed.

Lemma fstep_Jf l x : Jf l -> Jf (fst (fst (fstep l x))).
Proof. intros [H1 H2]. split; [now apply fast_step_Il|now apply fast_step_bd]. Qed.

Lemma fast_step_Ix l x : Ix c x -> Ix c (snd (fst (fstep l x))).
Proof.
  intros H.
  assert (HR : Rstep (RsI c) named [] [] (fstep l x) (fstep l x)).
  { apply fast_step_R; try exact Hnamed.
    - intros s s' [-> _] k. reflexivity.
    - intros s s' k z [-> Hk] Hin. split; [reflexivity|]. now apply keys_declared_update.
    - unfold named. discriminate.
    - unfold named. discriminate.
    - intros i. unfold named, done_event. cbn. unfold s_done_state. discriminate.
    - intros m Hm. exact Hm.
    - now apply Ix_Rx. }
  destruct HR as (_ & _ & HR). eapply Rx_Ix. exact HR.
Qed.

Lemma fast_step_cong ox oy l x y : Rq ox oy x y ->
  Rstep store_equiv (fun _ => True) ox oy (fstep l x) (fstep l y).
Proof.
  intros H. apply fast_step_R; auto.
  - intros s s' Hs k z _. now apply store_equiv_update.
Qed.

Lemma F_boundary l x l' x' rc : Jf l -> Forall named (x_iq x) -> fstep l x = (l', x', rc) ->
  rc = RC_MACROSTEPPED \/ rc = RC_IDLE -> x_iq x' = [] /\ boundary_flags l'.
Proof. intros [Hl _] Hn Hs Hrc. destruct (fast_boundary xv c l x l' x' rc Hl Hn Hs Hrc) as (A & B & _). auto. Qed.

Lemma F_enc l : Jf l -> enc_ok EFast (nstates c) (l_cfg l) /\ enc_ok EFast (nstates c) (l_hist l) /\ enc_ok EFast (nstates c) (l_initd l).
Proof. intros [[(S1 & S2 & S3) _ _] (B1 & B2 & B3)]. cbn. auto. Qed.

Lemma F_enc_inv l : enc_ok EFast (nstates c) (l_cfg l) -> enc_ok EFast (nstates c) [] /\
  (forall inv, inv = l_cfg l \/ inv = [] -> enc_ok EFast (nstates c) inv).
Proof.
  cbn. intros H. assert (E : ssorted [] /\ bounded (nstates c) [] /\ (N.of_nat (nstates c) < 256 ^ N.of_nat bitset_block_bytes)%N).
  { repeat split; [constructor|constructor|exact Hn64]. }
  split; [exact E|]. intros inv [->| ->]; [exact H|exact E].
Qed.

Lemma F_irun_to_boundary fuel k ins sp :
  irun_to EFast c fstep fuel k fresh ins = Some sp -> at_boundary c Jf (st_rc sp) (st_state sp).
Proof.
  apply (irun_to_boundary EFast c fstep Jf).
  - apply Jf_pristine.
  - apply fstep_Jf.
  - apply fast_step_Ix.
  - apply F_boundary.
  - apply fast_finished.
  - apply F_enc.
  - apply F_enc_inv.
Qed.

Theorem internal_queue_empty_at_boundary_fast_lemma fuel k ins sp :
  irun_to EFast c fstep fuel k fresh ins = Some sp ->
  st_rc sp = RC_MACROSTEPPED \/ st_rc sp = RC_IDLE ->
  x_iq (i_x (st_state sp)) = [].
Proof.
  intros Hrun Hrc.
  pose proof (F_irun_to_boundary fuel k ins sp Hrun) as [_ [H|[H _]]].
  - tauto.
  - destruct Hrc as [Hrc|Hrc]; rewrite Hrc in H; discriminate.
Qed.

Variable md5 : bytes.

Theorem roundtrip_state_fast_lemma fuel k ins sp :
  irun_to EFast c fstep fuel k fresh ins = Some sp ->
  exists sn r,
    serialize EFast c sz_fixed md5 (st_rc sp) (st_state sp) = Some sn /\
    deserialize EFast sz_fixed md5 fresh sn = DsOk r /\
    restored (i_l (st_state sp)) (i_l r) /\
    store_equiv (x_store (i_x (st_state sp))) (x_store (i_x r)) /\
    x_eq (i_x r) = x_eq (i_x (st_state sp)) /\ i_inv r = i_inv (st_state sp) /\ i_dq r = i_dq (st_state sp).
Proof.
  intros Hrun.
  pose proof (F_irun_to_boundary fuel k ins sp Hrun) as [Hi Hb].
  assert (Hser : exists sn, serialize EFast c sz_fixed md5 (st_rc sp) (st_state sp) = Some sn).
  { unfold serialize. assert (E : serializable (st_rc sp) = true).
    { unfold serializable. destruct Hb as [[[E|E] _]|[E _]]; rewrite E; reflexivity. }
    rewrite E. eexists. reflexivity. }
  destruct Hser as [sn Hser]. exists sn.
  destruct (roundtrip_state_generic EFast c Jf F_enc F_enc_inv md5 _ _ _ Hi Hser) as (r & Hd & H1 & H2 & H3 & H4 & H5 & _).
  exists r. tauto.
Qed.

Theorem resume_bisimilar_fast_lemma fuel k ins res :
  serialize_resume EFast c fstep sz_fixed md5 md5 fuel k ins = Some res ->
  exists sn r r',
    sr_snap res = Some sn /\ sr_des res = Some (DsOk r) /\ sr_res res = Some r' /\
    since (st_state (sr_stop res)) (sr_orig res) = since r r' /\
    l_cfg (i_l (sr_orig res)) = l_cfg (i_l r') /\ l_hist (i_l (sr_orig res)) = l_hist (i_l r') /\
    l_initd (i_l (sr_orig res)) = l_initd (i_l r') /\
    store_equiv (x_store (i_x (sr_orig res))) (x_store (i_x r')) /\
    x_eq (i_x (sr_orig res)) = x_eq (i_x r') /\ i_dq (sr_orig res) = i_dq r'.
Proof.
  unfold serialize_resume. intros Hres.
  destruct (irun_to EFast c fstep fuel k fresh ins) as [sp|] eqn:Hrun; [|discriminate].
  pose proof (F_irun_to_boundary fuel k ins sp Hrun) as Hb.
  destruct (roundtrip_state_fast_lemma fuel k ins sp Hrun) as (sn & r & Hser & Hdes & _).
  rewrite Hser, Hdes in Hres. inversion Hres; subst res. clear Hres. cbn [sr_snap sr_des sr_res sr_stop sr_orig].
  exists sn, r, (icontinue EFast c fstep (st_rc sp) (st_fuel sp) r (st_ins sp)).
  destruct (resume_bisimilar_generic EFast c fstep Jf fast_step_cong
              (fast_fin_absorbing xv c) F_enc F_enc_inv md5
              (st_rc sp) (st_state sp) sn r Hb Hser Hdes (st_fuel sp) (st_ins sp)) as ((d & D1 & D2) & R).
  repeat split; try tauto.
  rewrite (since_app _ _ d D1), (since_app _ _ d D2). reflexivity.
Qed.

End FastFinal.

(* the hypotheses are satisfiable: the flattened witness charts have bounded tables *)
Example witness_tables_bounded :
  tables_bounded (flatten false w_history) = true /\ tables_bounded (flatten false w_delayed) = true /\
  chart_named (flatten false w_history) = true.
Proof. vm_compute. repeat split. Qed.
