(* LegalHistStep.v -- one microstep of LargeMicroStep on a chart with pseudo-states (record WFH) keeps the
   configuration legal: the sets computed by Large.v (exit set, entry set restricted to proper states)
   satisfy the hypotheses of LegalAbstract.abstract_legal over the tree of PROPER states; and the initial
   configuration is legal. *)
From V Require Import Base NameMatch Chart Exec Large LargeLemmas Legal SetLemmas LegalAbstract LegalLarge
     LegalHistBase LegalHistEntry.
Local Open Scope nat_scope.

Section HStepDefs.
Variable c : fchart.
Let par (i : nat) := fs_parent (st c i).
Let kd (i : nat) := fs_type (st c i).

(* the tree of proper states: pseudo-states are cut off *)
Definition ppar (i : nat) : option nat := if pseudoS c i then None else par i.
Definition pch (i : nat) : list nat := proper_children c i.
Definition LegalH (C : nat -> Prop) : Prop := Legal ppar pch kd C.

(* a legal configuration of proper states *)
Definition LegalCfgH (cfg : list nat) : Prop :=
  LegalH (fun x => In x cfg) /\ (forall x, In x cfg -> x < nstates c /\ pseudoS c x = false).
End HStepDefs.

Section HStep.
Variable c : fchart.
Let n := nstates c.
Let par (i : nat) := fs_parent (st c i).
Let ch (i : nat) := fs_children (st c i).
Let kd (i : nat) := fs_type (st c i).
Let cpl (i : nat) := fs_completion (st c i).
Notation Anc := (Anc par).
Notation pseudo := (pseudoS c).

Hypothesis W : WFH c.

Lemma proper_type_pseudo t : proper_type t = negb (is_pseudo t).
Proof. destruct t; reflexivity. Qed.

Lemma pch_spec p k : In k (pch c p) <-> ppar c k = Some p.
Proof.
  unfold pch, proper_children, ppar. rewrite filter_In, (wh_children c W). unfold pseudoS.
  rewrite proper_type_pseudo. destruct (is_pseudo (fs_type (st c k))); cbn; split; intros H; try tauto; try discriminate.
  destruct H; discriminate.
Qed.

Lemma ppar_par i p : ppar c i = Some p -> par i = Some p.
Proof. unfold ppar. destruct (pseudoS c i); [discriminate | tauto]. Qed.

Lemma par_ppar i p : pseudo i = false -> par i = Some p -> ppar c i = Some p.
Proof. unfold ppar. intros ->. tauto. Qed.

Lemma panc_anc d x : LegalAbstract.Anc (ppar c) d x -> Anc d x.
Proof.
  induction 1 as [i p Hp|i p a Hp Ha IH]; [apply anc_parent | eapply anc_step; eauto]; now apply ppar_par.
Qed.

Lemma anc_panc d x : pseudo x = false -> Anc d x -> LegalAbstract.Anc (ppar c) d x.
Proof.
  intros Hx Ha. induction Ha as [i p Hp|i p a Hp Ha IH].
  - apply anc_parent. now apply par_ppar.
  - eapply anc_step; [apply par_ppar; eauto|]. apply IH. exact (parent_not_pseudo c W i p Hp).
Qed.

Lemma ppar_root : ppar c 0 = None.
Proof. unfold ppar. destruct (pseudoS c 0); [reflexivity | exact (wh_root_par c W)]. Qed.

(* ------------------------------------------------------------------ domains (as in LegalLarge.v) *)

Lemma hforallb_mem_anc src tg :
  forallb (fun x => mem src (fs_ancestors (st c x))) tg = true -> forall g, In g tg -> Anc src g.
Proof.
  intros H g Hg. rewrite forallb_forall in H. specialize (H g Hg). apply mem_In in H. now apply (wh_anc c W).
Qed.

Lemma hdomain_spec ti d :
  ft_source (tr c ti) < n ->
  domain c (tr c ti) = Some d ->
  ft_targets (tr c ti) <> [] /\ (kd d = FCompound \/ d = 0) /\
  (forall g, In g (ft_targets (tr c ti)) -> Anc d g) /\
  (d = ft_source (tr c ti) \/ Anc d (ft_source (tr c ti))).
Proof.
  intros Hsrc. unfold domain.
  destruct (ft_targets (tr c ti)) as [|g0 gs] eqn:Htg; [discriminate|].
  rewrite <- Htg.
  set (t := tr c ti) in *. set (src := ft_source t) in *.
  destruct (ft_internal t && is_comp (fs_type (st c src)) &&
            forallb (fun x => mem src (fs_ancestors (st c x))) (ft_targets t)) eqn:Hint.
  - intros [= <-]. apply andb_true_iff in Hint as [Hint Hall]. apply andb_true_iff in Hint as [_ Hcomp].
    split; [rewrite Htg; discriminate|]. split; [|split].
    + left. unfold kd. destruct (fs_type (st c src)); try discriminate. reflexivity.
    + now apply hforallb_mem_anc.
    + now left.
  - destruct (find _ (rev (fs_ancestors (st c src)))) as [a|] eqn:Hfind.
    + intros [= <-]. apply find_some in Hfind as [Hin Hf].
      apply andb_true_iff in Hf as [Hcomp Hall].
      split; [rewrite Htg; discriminate|]. split; [|split].
      * left. unfold kd. destruct (fs_type (st c a)); try discriminate. reflexivity.
      * now apply hforallb_mem_anc.
      * right. apply (wh_anc c W). now apply in_rev.
    + intros [= <-]. split; [rewrite Htg; discriminate|]. split; [now right|]. split.
      * intros g Hg. destruct (wh_tr_targets c W ti g Hg). now apply (hanc_root c W).
      * destruct (Nat.eq_dec src 0) as [->|Hne]; [now left | right; apply (hanc_root c W); lia].
Qed.

(* ------------------------------------------------------------------ one microstep *)

Section Step.
Variable cfg : list nat.
Variable sel : list nat.
Hypothesis Hleg : LegalH c (fun x => In x cfg).
Hypothesis Hbound : forall x, In x cfg -> x < n.
Hypothesis Hprop : forall x, In x cfg -> pseudo x = false.
Hypothesis Hsel_src : forall ti, In ti sel -> In (ft_source (tr c ti)) cfg.
Hypothesis Hsel_ok : pairwise_ok lg_fixed c sel.
Variable hist : list nat.
Hypothesis HH : HistOK c hist.

Definition HDm (d : nat) : Prop := exists ti, In ti sel /\ domain c (tr c ti) = Some d.
Notation targets := (LegalLarge.targets c sel).
Notation exitset := (LegalLarge.exitset c cfg sel).

(* legality of cfg in terms of the full tree *)
Lemma hcfg_parent i p : In i cfg -> par i = Some p -> In p cfg.
Proof. intros Hi Hp. exact (lg_parent _ _ _ _ Hleg i p Hi (par_ppar i p (Hprop i Hi) Hp)). Qed.

Lemma hcfg_anc_closed i a : In i cfg -> Anc a i -> In a cfg.
Proof.
  intros Hi Ha. induction Ha as [i p Hp|i p a Hp Ha IH].
  - exact (hcfg_parent i p Hi Hp).
  - apply IH. exact (hcfg_parent i p Hi Hp).
Qed.

Lemma hcfg_compound_ex i : In i cfg -> kd i = FCompound -> exists k, par k = Some i /\ In k cfg.
Proof.
  intros Hi Hk. destruct (lg_compound_ex _ _ _ _ Hleg i Hi Hk) as (k & Hin & Hc).
  exists k. split; [apply ppar_par; now apply pch_spec | exact Hc].
Qed.

Lemma hcfg_compound_uniq i k1 k2 : kd i = FCompound -> par k1 = Some i -> par k2 = Some i ->
  In k1 cfg -> In k2 cfg -> k1 = k2.
Proof.
  intros Hk H1 H2 C1 C2.
  apply (lg_compound_uniq _ _ _ _ Hleg i k1 k2); auto.
  - exact (hcfg_parent k1 i C1 H1).
  - apply pch_spec. exact (par_ppar k1 i (Hprop k1 C1) H1).
  - apply pch_spec. exact (par_ppar k2 i (Hprop k2 C2) H2).
Qed.

Lemma hcfg_parallel i k : In i cfg -> kd i = FParallel -> par k = Some i -> In k cfg.
Proof.
  intros Hi Hk Hp. apply (lg_parallel _ _ _ _ Hleg i k Hi Hk). apply pch_spec. apply par_ppar; [|exact Hp].
  destruct (pseudo k) eqn:E; [|reflexivity]. exfalso.
  destruct (wh_pseudo_parent c W k E) as (q & Hq & Hkq).
  pose proof (eq_trans (eq_sym Hp) Hq) as E'. injection E' as ->. unfold kd in *. congruence.
Qed.

Lemma hIn_targets g : In g targets <-> exists ti, In ti sel /\ In g (ft_targets (tr c ti)).
Proof. unfold LegalLarge.targets. rewrite In_fold_union. cbn. split; [intros [[]|H]; exact H | intros H; now right]. Qed.

Lemma HDm_facts d : HDm d ->
  In d cfg /\ (kd d = FCompound \/ d = 0) /\ d < n /\ 2 <= fs_size (st c d).
Proof.
  intros (ti & Hti & Hd).
  pose proof (Hsel_src ti Hti) as Hsrc.
  destruct (hdomain_spec ti d (Hbound _ Hsrc) Hd) as (Hne & Hk & Htg & Hs).
  assert (Hin : In d cfg) by (destruct Hs as [->|Ha]; [exact Hsrc | eapply hcfg_anc_closed; eauto]).
  split; [exact Hin|]. split; [exact Hk|]. split; [now apply Hbound|].
  destruct (ft_targets (tr c ti)) as [|g gs] eqn:E; [congruence|].
  assert (Hg : Anc d g) by (apply Htg; now left).
  pose proof (hanc_lt c W _ _ Hg) as [Hlt Hgn].
  apply (wh_interval c W d g (Hbound _ Hin) Hgn) in Hg. lia.
Qed.

Lemma hexit_interval_fixed ti d : domain c (tr c ti) = Some d ->
  exit_interval lg_fixed c (tr c ti) = (S d, d + fs_size (st c d) - 1).
Proof. intros H. unfold exit_interval. rewrite H. reflexivity. Qed.

Lemma hexit_interval_none ti : domain c (tr c ti) = None -> exit_interval lg_fixed c (tr c ti) = (0, 0).
Proof. intros H. unfold exit_interval. now rewrite H. Qed.

Lemma hIn_exit_states ti x :
  In ti sel ->
  (In x (exit_states_of lg_fixed c cfg (tr c ti)) <-> In x cfg /\ exists d, domain c (tr c ti) = Some d /\ Anc d x).
Proof.
  intros Hti. unfold exit_states_of.
  destruct (domain c (tr c ti)) as [d|] eqn:Hd.
  - rewrite (hexit_interval_fixed ti d Hd). cbn [lg_targetless_exits_root lg_fixed negb andb].
    replace ((S d =? 0) && (d + fs_size (st c d) - 1 =? 0) && true) with false by (cbn; reflexivity).
    rewrite filter_In.
    assert (HD : HDm d) by (exists ti; tauto).
    destruct (HDm_facts d HD) as (Hdc & _ & Hdn & Hsz).
    split.
    + intros [Hx Hr]. split; [exact Hx|]. exists d. split; [reflexivity|].
      apply andb_true_iff in Hr as [H1 H2]. apply Nat.leb_le in H1, H2.
      apply (wh_interval c W d x Hdn (Hbound _ Hx)). lia.
    + intros [Hx (d' & [= <-] & Ha)]. split; [exact Hx|].
      apply (wh_interval c W d x Hdn (Hbound _ Hx)) in Ha.
      apply andb_true_iff. split; apply Nat.leb_le; lia.
  - rewrite (hexit_interval_none ti Hd). cbn. split; [tauto | intros [_ (d & Hd' & _)]; discriminate].
Qed.

Lemma hIn_exitset x : In x exitset <-> In x cfg /\ exists d, HDm d /\ Anc d x.
Proof.
  unfold LegalLarge.exitset. rewrite In_fold_union. cbn. split.
  - intros [[]|(ti & Hti & Hx)]. apply (hIn_exit_states ti x Hti) in Hx as [Hc (d & Hd & Ha)].
    split; [exact Hc|]. exists d. split; [exists ti; tauto | exact Ha].
  - intros [Hc (d & (ti & Hti & Hd) & Ha)]. right. exists ti. split; [exact Hti|].
    apply (hIn_exit_states ti x Hti). split; [exact Hc|]. exists d. tauto.
Qed.

Lemma HDm_unrelated t1 t2 d1 d2 :
  In t1 sel -> In t2 sel -> t1 <> t2 ->
  domain c (tr c t1) = Some d1 -> domain c (tr c t2) = Some d2 ->
  d1 <> d2 /\ ~ Anc d1 d2 /\ ~ Anc d2 d1.
Proof.
  intros H1 H2 Hne Hd1 Hd2.
  pose proof (Hsel_ok t1 t2 H1 H2 Hne) as Hc. unfold conflicts in Hc.
  rewrite (hexit_interval_fixed t1 d1 Hd1), (hexit_interval_fixed t2 d2 Hd2) in Hc.
  assert (HD1 : HDm d1) by (exists t1; tauto). assert (HD2 : HDm d2) by (exists t2; tauto).
  destruct (HDm_facts d1 HD1) as (Hc1 & _ & Hn1 & Hs1). destruct (HDm_facts d2 HD2) as (Hc2 & _ & Hn2 & Hs2).
  destruct (hdomain_spec t1 d1 (Hbound _ (Hsel_src t1 H1)) Hd1) as (Hne1 & _ & Htg1 & _).
  destruct (hdomain_spec t2 d2 (Hbound _ (Hsel_src t2 H2)) Hd2) as (Hne2 & _ & Htg2 & _).
  destruct (ft_targets (tr c t1)) as [|g1 gs1] eqn:E1; [congruence|].
  destruct (ft_targets (tr c t2)) as [|g2 gs2] eqn:E2; [congruence|].
  assert (Hg1 : Anc d1 g1) by (apply Htg1; now left). assert (Hg2 : Anc d2 g2) by (apply Htg2; now left).
  pose proof (hanc_lt c W _ _ Hg1) as [Hl1 Hgn1]. pose proof (hanc_lt c W _ _ Hg2) as [Hl2 Hgn2].
  pose proof (proj1 (wh_interval c W d1 g1 Hn1 Hgn1) Hg1) as I1.
  pose proof (proj1 (wh_interval c W d2 g2 Hn2 Hgn2) Hg2) as I2.
  cbn [negb Nat.eqb andb] in Hc.
  apply orb_false_iff in Hc as [Ha Hb].
  apply andb_false_iff in Ha. apply andb_false_iff in Hb.
  repeat rewrite Nat.leb_gt in *.
  assert (Ha' : ~ (d1 <= d2 /\ S d2 <= d1 + fs_size (st c d1) - 1)).
  { intros [A B]. lia. }
  assert (Hb' : ~ (d2 <= d1 /\ S d1 <= d2 + fs_size (st c d2) - 1)).
  { intros [A B]. lia. }
  split; [|split].
  - intros ->. apply Ha'. lia.
  - intros H12. apply Ha'.
    pose proof (proj1 (wh_interval c W d1 d2 Hn1 Hn2) H12) as J.
    pose proof (hanc_trans c _ _ _ H12 Hg2) as H1g2.
    pose proof (proj1 (wh_interval c W d1 g2 Hn1 Hgn2) H1g2) as K. lia.
  - intros H21. apply Hb'.
    pose proof (proj1 (wh_interval c W d2 d1 Hn2 Hn1) H21) as J.
    pose proof (hanc_trans c _ _ _ H21 Hg1) as H2g1.
    pose proof (proj1 (wh_interval c W d2 g1 Hn2 Hgn1) H2g1) as K. lia.
Qed.

Lemma htargets_bound g : In g targets -> 0 < g /\ g < n.
Proof. intros Hg. apply hIn_targets in Hg as (ti & _ & Hg). exact (wh_tr_targets c W ti g Hg). Qed.

Lemma hdomain_some ti : ft_targets (tr c ti) <> [] -> exists d, domain c (tr c ti) = Some d.
Proof.
  intros Hne. unfold domain. destruct (ft_targets (tr c ti)) as [|g gs]; [congruence|].
  destruct (_ && _ && _); [eexists; reflexivity|]. destruct (find _ _); eexists; reflexivity.
Qed.

Lemma htarget_below_domain ti g : In ti sel -> In g (ft_targets (tr c ti)) ->
  exists d, domain c (tr c ti) = Some d /\ Anc d g.
Proof.
  intros Hti Hg. destruct (hdomain_some ti) as (d & Hd); [intros E; rewrite E in Hg; contradiction|].
  exists d. split; [exact Hd|].
  destruct (hdomain_spec ti d (Hbound _ (Hsel_src ti Hti)) Hd) as (_ & _ & Htg & _). now apply Htg.
Qed.

Lemma habove_or_below d i g k : Anc d g -> par k = Some i -> on_pathP c k g ->
  (d = i \/ Anc d i) \/ (k = d \/ Anc k d).
Proof.
  intros Hd Hp Hk.
  destruct Hk as [->|Hkg].
  - left. exact (anc_child par _ _ _ Hp Hd).
  - destruct (hanc_chain c d k g Hd Hkg) as [->|[Hdk|Hkd]].
    + right. now left.
    + left. exact (anc_child par _ _ _ Hp Hdk).
    + right. now right.
Qed.

(* the targets (with ancestors) name at most one child of every compound state *)
Lemma HE0_uniq_step i k1 k2 : kd i = FCompound -> par k1 = Some i -> par k2 = Some i ->
  In k1 (HE0 c targets) -> In k2 (HE0 c targets) -> k1 = k2.
Proof.
  intros Hk Hp1 Hp2 H10 H20.
  apply (In_HE0 c W) in H10 as (g1 & Hg1 & Hx1). apply (In_HE0 c W) in H20 as (g2 & Hg2 & Hx2).
  apply hIn_targets in Hg1 as (t1 & Ht1 & Hg1). apply hIn_targets in Hg2 as (t2 & Ht2 & Hg2).
  destruct (Nat.eq_dec t1 t2) as [->|Hne].
  { exact (wh_target_sets c W t2 i k1 k2 g1 g2 Hk Hp1 Hp2 Hg1 Hg2 Hx1 Hx2). }
  destruct (htarget_below_domain t1 g1 Ht1 Hg1) as (d1 & Hd1 & Ha1).
  destruct (htarget_below_domain t2 g2 Ht2 Hg2) as (d2 & Hd2 & Ha2).
  destruct (HDm_unrelated t1 t2 d1 d2 Ht1 Ht2 Hne Hd1 Hd2) as (Hdne & Hn12 & Hn21).
  assert (HD1 : HDm d1) by (exists t1; tauto). assert (HD2 : HDm d2) by (exists t2; tauto).
  destruct (HDm_facts d1 HD1) as (Hc1 & _). destruct (HDm_facts d2 HD2) as (Hc2 & _).
  destruct (habove_or_below d1 i g1 k1 Ha1 Hp1 Hx1) as [A1|B1], (habove_or_below d2 i g2 k2 Ha2 Hp2 Hx2) as [A2|B2].
  - exfalso. destruct A1 as [->|A1], A2 as [->|A2].
    + now apply Hdne.
    + now apply Hn21.
    + now apply Hn12.
    + destruct (hanc_chain c d1 d2 i A1 A2) as [->|[H|H]]; [now apply Hdne | now apply Hn12 | now apply Hn21].
  - exfalso. apply Hn12.
    assert (Hik2 : Anc i k2) by now apply anc_parent.
    assert (Hid2 : Anc i d2) by (destruct B2 as [<-|B2]; [exact Hik2 | eapply hanc_trans; eauto]).
    destruct A1 as [->|A1]; [exact Hid2 | eapply hanc_trans; eauto].
  - exfalso. apply Hn21.
    assert (Hik1 : Anc i k1) by now apply anc_parent.
    assert (Hid1 : Anc i d1) by (destruct B1 as [<-|B1]; [exact Hik1 | eapply hanc_trans; eauto]).
    destruct A2 as [->|A2]; [exact Hid1 | eapply hanc_trans; eauto].
  - assert (Hk1c : In k1 cfg) by (destruct B1 as [->|B1]; [exact Hc1 | exact (hcfg_anc_closed d1 k1 Hc1 B1)]).
    assert (Hk2c : In k2 cfg) by (destruct B2 as [->|B2]; [exact Hc2 | exact (hcfg_anc_closed d2 k2 Hc2 B2)]).
    exact (hcfg_compound_uniq i k1 k2 Hk Hp1 Hp2 Hk1c Hk2c).
Qed.

(* every member of the entry set survives the exit or lies below a domain *)
Definition QE5 (f : nat) : Prop := (In f cfg /\ ~ In f exitset) \/ exists d, HDm d /\ Anc d f.

Lemma QE5_0 x : In x (HE0 c targets) -> QE5 x.
Proof.
  intros H0. apply (In_HE0 c W) in H0 as (g & Hg & Hx). apply hIn_targets in Hg as (ti & Hti & Hg).
  destruct (htarget_below_domain ti g Hti Hg) as (d & Hd & Hdg).
  assert (HD : HDm d) by (exists ti; tauto).
  destruct Hx as [->|Hfg]; [right; exists d; tauto|].
  destruct (hanc_chain c d x g Hdg Hfg) as [->|[Hdf|Hfd]].
  - left. destruct (HDm_facts x HD) as (Hc & _). split; [exact Hc|].
    intros Hx. apply hIn_exitset in Hx as [_ (d' & (t' & Ht' & Hd') & Ha')].
    destruct (Nat.eq_dec t' ti) as [->|Hne].
    + rewrite Hd in Hd'. injection Hd' as <-. exact (hanc_irrefl c W _ Ha').
    + destruct (HDm_unrelated t' ti d' x Ht' Hti Hne Hd' Hd) as (_ & Hn & _). now apply Hn.
  - right. exists d. tauto.
  - left. destruct (HDm_facts d HD) as (Hc & _).
    assert (Hfc : In x cfg) by exact (hcfg_anc_closed d x Hc Hfd). split; [exact Hfc|].
    intros Hx. apply hIn_exitset in Hx as [_ (d' & (t' & Ht' & Hd') & Ha')].
    assert (Hd'd : Anc d' d) by (eapply hanc_trans; eauto).
    destruct (Nat.eq_dec t' ti) as [->|Hne].
    + rewrite Hd in Hd'. injection Hd' as <-. exact (hanc_irrefl c W _ Hd'd).
    + destruct (HDm_unrelated t' ti d' d Ht' Hti Hne Hd' Hd) as (_ & Hn & _). now apply Hn.
Qed.

Lemma QE5_par j x : QE5 j -> kd j = FParallel -> par x = Some j -> QE5 x.
Proof.
  intros [[Hjc Hjx]|(d & HD & Hdj)] Hk Hp.
  - left. assert (Hfc : In x cfg) by exact (hcfg_parallel j x Hjc Hk Hp). split; [exact Hfc|].
    intros Hx. apply hIn_exitset in Hx as [_ (d & HD & Hdf)].
    destruct (anc_child par _ _ _ Hp Hdf) as [->|Hdp].
    + destruct (HDm_facts j HD) as (_ & [Hkc| ->] & _); [unfold kd in *; congruence | exact (wh_root_type c W Hk)].
    + apply Hjx. apply hIn_exitset. split; [exact Hjc|]. exists d. tauto.
  - right. exists d. split; [exact HD|]. eapply anc_step; eauto.
Qed.

Lemma QE5_comp j x : QE5 j -> kd j = FCompound ->
  (forall k, par k = Some j -> ~ surv cfg exitset k) -> Anc j x -> QE5 x.
Proof.
  intros [[Hjc Hjx]|(d & HD & Hdj)] Hk Hns Hjx'.
  - right. destruct (hcfg_compound_ex j Hjc Hk) as (k & Hpk & Hkc).
    destruct (in_dec Nat.eq_dec k exitset) as [Hkx|Hkx].
    2: { exfalso. apply (Hns k Hpk). split; assumption. }
    apply hIn_exitset in Hkx as [_ (d & HD & Hdk)].
    destruct (anc_child par _ _ _ Hpk Hdk) as [->|Hdp].
    + exists j. tauto.
    + exfalso. apply Hjx. apply hIn_exitset. split; [exact Hjc|]. exists d. tauto.
  - right. exists d. split; [exact HD|]. eapply hanc_trans; eauto.
Qed.

Lemma QE5_pseudo j q x : QE5 j -> pseudo j = true -> par j = Some q -> Anc q x -> QE5 x.
Proof.
  intros [[Hjc _]|(d & HD & Hdj)] Hps Hp Hqx.
  - rewrite (Hprop j Hjc) in Hps. discriminate.
  - right. exists d. split; [exact HD|].
    destruct (anc_child par _ _ _ Hp Hdj) as [->|Hdq]; [exact Hqx | eapply hanc_trans; eauto].
Qed.

(* any set that satisfies the loop invariant at the end (the large and the fast engine compute one each) *)
Section AnyEntry.
Variable Ef : list nat.
Hypothesis HF : HInv c cfg exitset targets QE5 n Ef.

Lemma hE7 d : HDm d -> In d Ef.
Proof.
  intros (ti & Hti & Hd).
  assert (HD : HDm d) by (exists ti; tauto). destruct (HDm_facts d HD) as (Hdc & _).
  apply (hi_base _ _ _ _ _ _ _ HF); [|now apply Hprop]. apply (In_HE0 c W).
  destruct (hdomain_spec ti d (Hbound _ (Hsel_src ti Hti)) Hd) as (Hne & _ & Htg & _).
  destruct (ft_targets (tr c ti)) as [|g gs] eqn:E; [congruence|].
  exists g. split; [apply hIn_targets; exists ti; rewrite E; cbn; tauto|]. right. apply Htg. now left.
Qed.

(* the proper states active after the microstep, as a set, form a legal configuration *)
Theorem sets_legal_of_inv :
  LegalH c (fun x => (In x cfg /\ ~ In x exitset) \/ (In x Ef /\ pseudo x = false)).
Proof.
  pose proof (abstract_legal (ppar c) (pch c) kd pch_spec ppar_root (wh_root_type c W)
                (fun x => In x cfg) HDm (fun x => In x Ef /\ pseudo x = false) Hleg) as HA.
  assert (HX : forall x, X (ppar c) (fun x => In x cfg) HDm x <-> In x exitset).
  { intros x. unfold X. rewrite hIn_exitset. split.
    - intros [Hx (d & HD & Ha)]. split; [exact Hx|]. exists d. split; [exact HD | now apply panc_anc].
    - intros [Hx (d & HD & Ha)]. split; [exact Hx|]. exists d. split; [exact HD | apply anc_panc; auto]. }
  assert (Hres : LegalH c (C' (ppar c) (fun x => In x cfg) HDm (fun x => In x Ef /\ pseudo x = false))).
  { apply HA.
    - intros x. destruct (in_dec Nat.eq_dec x Ef) as [H|H]; [|right; tauto].
      destruct (pseudo x); [right; intros [_ E]; discriminate | left; tauto].
    - intros x. destruct (in_dec Nat.eq_dec x exitset) as [H|H]; [left | right]; now rewrite HX.
    - intros d HD. destruct (HDm_facts d HD) as (_ & Hk & _). exact Hk.
    - (* E1 *) intros i p [Hi Hps] Hp. apply ppar_par in Hp. split.
      + exact (hgE1 c cfg exitset targets QE5 Ef HF i p Hi Hp).
      + exact (parent_not_pseudo c W i p Hp).
    - (* E2 *) intros i k [Hi Hps] Hk Hin. apply pch_spec in Hin.
      assert (Hpk : par k = Some i) by now apply ppar_par. split.
      + apply (hgE2 c cfg exitset targets QE5 Ef HF i k Hi Hk). now apply (wh_children c W).
      + unfold ppar in Hin. destruct (pseudoS c k); [discriminate | reflexivity].
    - (* E3 *) intros i [Hi Hps] Hk.
      destruct (hgE3 c cfg exitset targets QE5 Ef HF i Hi Hk) as (k & Hpk & [[Hs1 Hs2]|[He Hpsk]]).
      + exists k. split; [apply pch_spec; apply par_ppar; [now apply Hprop | exact Hpk]|]. right. split; [exact Hs1 | now rewrite HX].
      + exists k. split; [apply pch_spec; now apply par_ppar|]. left. tauto.
    - (* E4 *) intros i k1 k2 Hk H1 H2 [He1 P1] [He2 P2]. apply pch_spec, ppar_par in H1. apply pch_spec, ppar_par in H2.
      exact (hgE4 c cfg exitset targets QE5 Ef HF i k1 k2 Hk H1 H2 He1 He2 P1 P2).
    - (* E5 *) intros f [Hf Hps]. destruct (hi_Q _ _ _ _ _ _ _ HF f Hf) as [[H1 H2]|(d & HD & Ha)].
      + left. split; [exact H1 | now rewrite HX].
      + right. exists d. split; [exact HD | now apply anc_panc].
    - (* E7 *) intros d HD. split; [now apply hE7|].
      destruct (HDm_facts d HD) as (Hdc & _). now apply Hprop. }
  destruct Hres as [R1 R2 R3 R4 R5].
  assert (Heq : forall x, C' (ppar c) (fun x => In x cfg) HDm (fun x => In x Ef /\ pseudo x = false) x <->
                          ((In x cfg /\ ~ In x exitset) \/ (In x Ef /\ pseudo x = false))).
  { intros x. unfold C'. now rewrite HX. }
  constructor.
  - now apply Heq.
  - intros i p Hi Hp. apply Heq. eapply R2; [apply Heq; exact Hi | exact Hp].
  - intros i Hi Hk. destruct (R3 i (proj2 (Heq i) Hi) Hk) as (k & Hin & Hk'). exists k. split; [exact Hin | now apply Heq].
  - intros i k1 k2 Hi Hk H1 H2 Hk1 Hk2.
    exact (R4 i k1 k2 (proj2 (Heq i) Hi) Hk H1 H2 (proj2 (Heq k1) Hk1) (proj2 (Heq k2) Hk2)).
  - intros i k Hi Hk Hin. apply Heq. exact (R5 i k (proj2 (Heq i) Hi) Hk Hin).
Qed.

Lemma Ef_bound x : In x Ef -> x < n.
Proof. exact (hi_bound _ _ _ _ _ _ _ HF x). Qed.
End AnyEntry.

Definition HEfs : list nat := HEfin c cfg exitset hist targets sel.
Definition HInvF : HInv c cfg exitset targets QE5 n HEfs :=
  HInv_fin c W cfg exitset hist targets sel htargets_bound HH HE0_uniq_step QE5 QE5_0 QE5_par QE5_comp QE5_pseudo.

Theorem microstep_sets_legal_h :
  LegalH c (fun x => (In x cfg /\ ~ In x exitset) \/ (In x HEfs /\ pseudo x = false)).
Proof. exact (sets_legal_of_inv HEfs HInvF). Qed.

Lemma HEfs_bound x : In x HEfs -> x < n.
Proof. exact (Ef_bound HEfs HInvF x). Qed.

End Step.

(* ------------------------------------------------------------------ the initial configuration *)

Section Initial.
Variable hist : list nat.
Hypothesis HH : HistOK c hist.
Hypothesis root_compound : kd 0 = FCompound.

Lemma hinit_tg_bound g : In g (fs_completion (st c 0)) -> 0 < g /\ g < n.
Proof.
  intros Hg. destruct (wh_compound c W 0 root_compound) as [_ Hb]. exact (hanc_lt c W _ _ (Hb g Hg)).
Qed.

Lemma hinit_E0_uniq i k1 k2 : kd i = FCompound -> par k1 = Some i -> par k2 = Some i ->
  In k1 (HE0 c (fs_completion (st c 0))) -> In k2 (HE0 c (fs_completion (st c 0))) -> k1 = k2.
Proof.
  intros Hk H1 H2 H10 H20.
  apply (In_HE0 c W) in H10 as (g1 & Hg1 & Hx1). apply (In_HE0 c W) in H20 as (g2 & Hg2 & Hx2).
  exact (wh_cpl_sets c W 0 root_compound i k1 k2 g1 g2 Hk H1 H2 Hg1 Hg2 Hx1 Hx2).
Qed.

Definition QT (x : nat) : Prop := True.

Section AnyInit.
Variable Ef : list nat.
Hypothesis HI : HInv c [] [] (fs_completion (st c 0)) QT n Ef.

Theorem init_legal_of_inv : LegalH c (fun x => In x Ef /\ pseudo x = false).
Proof.
  assert (Hns : forall k, ~ surv [] [] k) by (intros k [[] _]).
  constructor.
  - split; [|apply compound_not_pseudo; exact root_compound].
    apply (hi_base _ _ _ _ _ _ _ HI); [|apply compound_not_pseudo; exact root_compound]. apply (In_HE0 c W).
    destruct (wh_compound c W 0 root_compound) as [Hne Hb].
    destruct (fs_completion (st c 0)) as [|g r] eqn:E; [congruence|]. exists g. split; [now left|]. right. apply Hb. now left.
  - intros i p [Hi Hps] Hp. apply ppar_par in Hp. split; [exact (hi_closed _ _ _ _ _ _ _ HI i p Hi Hp) | exact (parent_not_pseudo c W i p Hp)].
  - intros i [Hi Hps] Hk.
    destruct (proj2 (hi_done _ _ _ _ _ _ _ HI i (hi_bound _ _ _ _ _ _ _ HI i Hi) Hi) Hk) as (k & Hpk & [Hs|[He [Hpk'|Hle]]]).
    + exfalso. exact (Hns k Hs).
    + exists k. split; [apply pch_spec; now apply par_ppar | tauto].
    + pose proof (hi_bound _ _ _ _ _ _ _ HI k He). lia.
  - intros i k1 k2 [Hi Hps] Hk H1 H2 [He1 P1] [He2 P2]. apply pch_spec, ppar_par in H1. apply pch_spec, ppar_par in H2.
    destruct (Nat.eq_dec k1 k2) as [E|Hne]; [exact E|]. exfalso.
    destruct (hi_uniq _ _ _ _ _ _ _ HI i k1 k2 Hk H1 H2 He1 He2 Hne) as [(A & _)|(A & _)]; congruence.
  - intros i k [Hi Hps] Hk Hin. apply pch_spec in Hin. assert (Hpk : par k = Some i) by now apply ppar_par. split.
    + apply (proj1 (hi_done _ _ _ _ _ _ _ HI i (hi_bound _ _ _ _ _ _ _ HI i Hi) Hi) Hk k). now apply (wh_children c W).
    + unfold ppar in Hin. destruct (pseudoS c k); [discriminate | reflexivity].
Qed.
End AnyInit.

Definition HEinit : list nat := HEfin c [] [] hist (fs_completion (st c 0)) [].

Lemma HEinit_inv : HInv c [] [] (fs_completion (st c 0)) QT n HEinit.
Proof. apply (HInv_fin c W [] [] hist _ [] hinit_tg_bound HH hinit_E0_uniq QT); unfold QT; auto. Qed.

Theorem initial_sets_legal_h : LegalH c (fun x => In x HEinit /\ pseudo x = false).
Proof. exact (init_legal_of_inv HEinit HEinit_inv). Qed.

Lemma HEinit_bound x : In x HEinit -> x < n.
Proof. exact (hi_bound _ _ _ _ _ _ _ HEinit_inv x). Qed.

End Initial.

End HStep.
