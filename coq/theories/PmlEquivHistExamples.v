(* PmlEquivHistExamples.v -- C06 beyond the history-free core: the side condition pml_deep_alone cannot be dropped
   (witness), and the premises of PmlEquivHistMicro.pml_microstep_hist_lemma are satisfiable by a document with an
   <initial> element with content, a shallow and a deep <history>: the event "d" in state s6 targets the deep history
   of s3, which restores s3 and s5.  Proofs only. *)
From V Require Import Base NameMatch Chart Exec Large Interp Fast Trie PmlStep PmlStepLemmas WfCore SerializeCodecLemmas
                      SerializeLemmas SerializeFastLemmas LegalHistBase LegalHistRun LegalHistWf LegalHistFastRun
                      PmlEquivBase PmlEquivExit PmlEquivContent PmlEquivStep PmlEquivMicro PmlEquivExamples
                      PmlEquivHistEntry PmlEquivHistMicro.
Local Open Scope nat_scope.

(* ---- where pml_deep_alone fails the entry sets differ: w_history_below_deep_history (PmlStepLemmas), a shallow
   history below the parent of a deep history that restores a recorded value.  (That document is also outside
   wf_histb: the two histories record the same states; no witness inside wf_histb is known, and none was ruled out.) ---- *)
Lemma deep_alone_needed :
  pml_deep_alone (Chart.flatten false w_history_below_deep_history) = false /\
  exists cfg exitset hist targets s,
    fst (fst (p_entry_set pml_repaired (Chart.flatten false w_history_below_deep_history) cfg exitset hist targets [] s)) <>
    fst (fentry_set (Chart.flatten false w_history_below_deep_history) cfg exitset hist targets []).
Proof.
  split; [vm_compute; reflexivity|].
  exists [0; 9], [9], [4; 6], [3], (p_init (Chart.flatten false w_history_below_deep_history)). vm_compute. discriminate.
Qed.

(* ---- a document with an <initial> element with content, a shallow and a deep history ---- *)
Local Open Scope N_scope.
Definition w_hist_doc : tree :=
  TNode KScxml 0 None [] [] [] []
    [TNode KState 1 None [] [] [] []
       [TNode KInitial 11 None [{| tt_vid := 111; tt_event := None; tt_cond := None; tt_targets := Some [2]; tt_internal := false;
                                   tt_body := [ILog 112 (INum 1%Z)] |}] [] [] [] [];
        TNode KHistShallow 12 None [{| tt_vid := 113; tt_event := None; tt_cond := None; tt_targets := Some [2]; tt_internal := false;
                                       tt_body := [ILog 114 (INum 2%Z)] |}] [] [] [] [];
        TNode KState 2 None [{| tt_vid := 101; tt_event := Some [97]; tt_cond := None; tt_targets := Some [3]; tt_internal := false; tt_body := [] |}]
          [[IRaise 120 [97]; IRaise 121 [98]; IRaise 122 [99]; IRaise 123 [100]]] [] [] [];
        TNode KState 3 (Some [4]) [] [] [] []
          [TNode KHistDeep 13 None [{| tt_vid := 115; tt_event := None; tt_cond := None; tt_targets := Some [4]; tt_internal := false;
                                       tt_body := [ILog 116 (INum 3%Z)] |}] [] [] [] [];
           TNode KState 4 None [{| tt_vid := 102; tt_event := Some [98]; tt_cond := None; tt_targets := Some [5]; tt_internal := false; tt_body := [] |}] [] [] [] [];
           TNode KState 5 None [{| tt_vid := 103; tt_event := Some [99]; tt_cond := None; tt_targets := Some [6]; tt_internal := false; tt_body := [] |}] [] [] [] []]];
     TNode KState 6 None [{| tt_vid := 104; tt_event := Some [100]; tt_cond := None; tt_targets := Some [13]; tt_internal := false; tt_body := [] |}] [] [] [] []].
Local Close Scope N_scope.

Definition hx_chart : fchart := Chart.flatten false w_hist_doc.
(* the interpreter after 8 steps of its driver loop: in s6, the event "d" still queued *)
Definition hx_run := run_loop hx_chart lstate (fast_step ex_fixed hx_chart) l_cfg 8 l_pristine x_init [].
Definition hx_lstate : lstate := fst hx_run.
Definition hx_xstate : xstate := snd hx_run.
(* the emitted model after 8 iterations *)
Fixpoint p_iters (c : fchart) (k : nat) (s : pstate) : pstate :=
  match k with O => s | S k' => p_iters c k' (fst (pml_iter pml_repaired c 7 13 s)) end.
Definition hx_pstate : pstate := p_iters hx_chart 8 (p_init hx_chart).
Definition hx_event : event := {| ev_name := [100%N]; ev_kind := EvInternal |}.

Lemma hx_wf : wf_histb hx_chart = true.
Proof. vm_compute. reflexivity. Qed.
Lemma hx_root : fs_type (st hx_chart 0) = FCompound.
Proof. vm_compute. reflexivity. Qed.
Lemma hx_chart_ph : chart_ph hx_chart = true.
Proof. vm_compute. reflexivity. Qed.
Lemma hx_content : content_ok [] hx_chart = true.
Proof. vm_compute. reflexivity. Qed.
Lemma hx_data : forall i, i <> 0 -> fs_data (st hx_chart i) = [].
Proof.
  intros i Hi. destruct (Nat.lt_ge_cases i (nstates hx_chart)) as [L|L].
  - change (nstates hx_chart) with 10 in L.
    do 10 (destruct i as [|i]; [try congruence; vm_compute; reflexivity|]). lia.
  - rewrite (hst_out hx_chart i L). reflexivity.
Qed.
Lemma hx_corr : corr hx_chart [] hx_pstate hx_lstate hx_xstate.
Proof.
  constructor; try (vm_compute; reflexivity).
  - repeat split; vm_compute; reflexivity.
  - intros v Hv. discriminate Hv.
Qed.
Lemma hx_init : l_init hx_lstate = true.
Proof. vm_compute. reflexivity. Qed.
Lemma hx_ok : hst_ok hx_chart hx_lstate.
Proof.
  split.
  - unfold hx_lstate, hx_run.
    pose proof (fast_run_legal_history_strong hx_chart ex_fixed hx_wf hx_root 8 []) as [(P & _)|(_ & S)]; [|exact S].
    exfalso. vm_compute in P. discriminate.
  - constructor.
    + unfold lsorted. vm_compute. repeat split; repeat constructor.
    + right. exact hx_init.
    + vm_compute. reflexivity.
Qed.
Lemma hx_match : forall i e, i < ntrans hx_chart -> Some hx_event = Some e -> ft_spontaneous (tr hx_chart i) = false ->
  resolved_match (guard_literals pml_repaired hx_chart i) (ev_name e) = name_match_impl nm_fixed (ft_event (tr hx_chart i)) (ev_name e).
Proof.
  intros i e Hi [= <-] Hsp. change (ntrans hx_chart) with 7 in Hi.
  do 7 (destruct i as [|i]; [vm_compute in Hsp; try discriminate Hsp; vm_compute; reflexivity|]). lia.
Qed.

(* the deep history of s3 restores s5: both sides leave s6 and end in {scxml, s1, s3, s5} (indices 0, 1, 5, 8) *)
Lemma hist_microstep_hypotheses_satisfiable :
  let s' := fst (pml_dstep pml_repaired hx_chart 7 13 (option_map ev_name (Some hx_event)) hx_pstate) in
  let r := fselect_and_step ex_fixed hx_chart hx_lstate hx_xstate (Some hx_event) in
  p_full s' = false /\
  nonempty (k_trans (selected pml_repaired hx_chart (l_cfg hx_lstate) (Some (ev_name hx_event)) (x_store hx_xstate))) = true /\
  l_cfg hx_lstate = [0; 9] /\ l_hist hx_lstate = [5; 8] /\ p_cfg s' = [0; 1; 5; 8] /\ l_cfg (fst (fst r)) = [0; 1; 5; 8].
Proof. vm_compute. repeat split; reflexivity. Qed.
