(* LegalHistParBase.v -- C02 with <history> directly below <parallel>: the well-formedness record WFHP, which is
   WFH of LegalHistBase.v generalised: a history may sit below a PARALLEL state (its completion: shallow = the
   regions, deep = every proper state below the parallel).  New clauses: a list of targets that names such a
   history names nothing else below the parallel except its children, and no second pseudo-state of it
   (hist_par_ok); such a history precedes the regions and the parallel has a region.  Definitions (Frag, IC,
   closedS, pseudoS, ...) are shared with LegalHistBase.v; the tree facts are re-proved from WFHP. *)
From V Require Import Base NameMatch Chart Exec Large LargeLemmas Legal SetLemmas LegalAbstract LegalHistBase.
Local Open Scope nat_scope.

Section HPBase.
Variable c : fchart.
Let n := nstates c.
Let par (i : nat) := fs_parent (st c i).
Let ch (i : nat) := fs_children (st c i).
Let kd (i : nat) := fs_type (st c i).
Let cpl (i : nat) := fs_completion (st c i).
Notation Anc := (Anc par).
Notation on_pathP := (on_pathP c).
Notation pseudoS := (pseudoS c).
Notation histS := (histS c).
Notation deepS := (deepS c).
Notation one_child_per_compound := (one_child_per_compound c).
Notation closedS := (closedS c).
Notation Frag := (Frag c).
Notation IC := (IC c).

(* a list of targets that names a history h of a parallel state q names, below q, only children of q and no
   other pseudo-state *)
Definition hist_par_ok (T : list nat) : Prop :=
  forall h q g, In h T -> histS h = true -> par h = Some q -> kd q = FParallel -> In g T -> Anc q g ->
    par g = Some q /\ (pseudoS g = true -> g = h).



(* a list of states [T] names at most one child of every compound state (on the paths to its members) *)

Record WFHP : Prop := {
  whp_root_par : par 0 = None;
  whp_par_lt : forall i p, par i = Some p -> p < i /\ i < n;
  whp_par_some : forall i, 0 < i -> i < n -> exists p, par i = Some p;
  whp_children : forall p k, In k (ch p) <-> par k = Some p;
  whp_children_nodup : forall p, NoDup (ch p);
  whp_anc : forall i a, In a (fs_ancestors (st c i)) <-> Anc a i;
  whp_interval : forall a i, a < n -> i < n -> (Anc a i <-> a < i /\ i < a + fs_size (st c a));
  whp_root_type : kd 0 <> FParallel;
  (* pseudo-states are leaves directly below a compound state *)
  whp_pseudo_parent : forall i, pseudoS i = true -> exists q, par i = Some q /\
     (kd q = FCompound \/ (histS i = true /\ kd q = FParallel));
  whp_pseudo_leaf : forall i k, pseudoS i = true -> par k <> Some i;
  (* completion of a compound: the targets as written -- non-empty, strict descendants, a legal target set *)
  whp_compound : forall i, kd i = FCompound -> cpl i <> [] /\ (forall g, In g (cpl i) -> Anc i g);
  whp_cpl_sets : forall i, kd i = FCompound -> one_child_per_compound (cpl i) /\ hist_par_ok (cpl i);
  whp_parallel : forall i k, kd i = FParallel -> (In k (cpl i) <-> par k = Some i /\ pseudoS k = false);
  whp_tr_src : forall s ti, In ti (fs_trans (st c s)) -> ft_source (tr c ti) = s;
  whp_tr_targets : forall ti g, In g (ft_targets (tr c ti)) -> 0 < g /\ g < n;
  whp_target_sets : forall ti, one_child_per_compound (ft_targets (tr c ti)) /\ hist_par_ok (ft_targets (tr c ti));
  (* <initial>: one transition, proper targets below the parent *)
  whp_initial : forall i q, kd i = FInitial -> par i = Some q ->
     exists ti, fs_trans (st c i) = [ti] /\ ft_targets (tr c ti) <> [] /\
                forall g, In g (ft_targets (tr c ti)) -> Anc q g /\ i < g /\ pseudoS g = false;
  (* <history>: a default transition with proper targets: children of the parent (shallow), descendants (deep) *)
  whp_hist_default : forall i q, histS i = true -> par i = Some q ->
     exists ti r, fs_trans (st c i) = ti :: r /\ ft_targets (tr c ti) <> [] /\
                  forall g, In g (ft_targets (tr c ti)) ->
                            i < g /\ pseudoS g = false /\ (if deepS i then Anc q g else par g = Some q);
  (* a history of a parallel state precedes the regions, and there is a region *)
  whp_par_hist : forall i q, histS i = true -> par i = Some q -> kd q = FParallel ->
     cpl q <> [] /\ forall k, par k = Some q -> pseudoS k = false -> i < k;
  (* the states a history records *)
  whp_hist_cpl : forall i q, histS i = true -> par i = Some q ->
     (forall x, In x (cpl i) -> x < n /\ (pseudoS x = false -> i < x) /\
                (par x = Some q \/ (deepS i = true /\ exists p, par x = Some p /\ In p (cpl i)))) /\
     (forall k, par k = Some q -> pseudoS k = false -> In k (cpl i));
  (* no proper state is recorded by two histories with different parents (the engines keep ONE bit per state for
     all histories; histories of the same parent are written together and agree) *)
  whp_hist_disjoint : forall h1 h2 x, histS h1 = true -> histS h2 = true ->
     In x (cpl h1) -> In x (cpl h2) -> pseudoS x = false -> par h1 = par h2
}.

Hypothesis W : WFHP.

(* ------------------------------------------------------------------ tree facts *)

Lemma hanc_lt_p a i : Anc a i -> a < i /\ i < n.
Proof.
  induction 1 as [i p Hp|i p a Hp Ha IH].
  - now apply (whp_par_lt W).
  - destruct (whp_par_lt W _ _ Hp). lia.
Qed.

Lemma hanc_irrefl_p a : ~ Anc a a.
Proof. intros H. apply hanc_lt_p in H. lia. Qed.

Lemma hanc_trans_p a b x : Anc a b -> Anc b x -> Anc a x.
Proof.
  intros Hab Hbx. induction Hbx as [i p Hp|i p b Hp Hb IH]; eapply anc_step; eauto.
Qed.

Lemma hanc_chain_p a b x : Anc a x -> Anc b x -> a = b \/ Anc a b \/ Anc b a.
Proof.
  intros Ha. revert b. induction Ha as [i p Hp|i p a Hp Ha IH]; intros b Hb.
  - destruct (anc_child par _ _ _ Hp Hb) as [->|Hbp]; [now left | right; now right].
  - destruct (anc_child par _ _ _ Hp Hb) as [->|Hbp].
    + right. now left.
    + now apply IH.
Qed.

Lemma hanc_root_p i : 0 < i -> i < n -> Anc 0 i.
Proof.
  revert i. induction i as [i IH] using lt_wf_ind. intros Hi Hn.
  destruct (whp_par_some W i Hi Hn) as (p & Hp).
  destruct (whp_par_lt W _ _ Hp) as [Hlt _].
  destruct (Nat.eq_dec p 0) as [->|Hne].
  - now apply anc_parent.
  - eapply anc_step; eauto. apply IH; lia.
Qed.

Lemma hanc_antisym_p a b : Anc a b -> Anc b a -> False.
Proof. intros H1 H2. apply hanc_lt_p in H1, H2. lia. Qed.

(* below an ancestor there is a child of it on the path *)
Lemma hanc_child_on_path_p q g : Anc q g -> exists k, par k = Some q /\ on_pathP k g.
Proof.
  induction 1 as [i p Hp|i p a Hp Ha IH].
  - exists i. split; [exact Hp | now left].
  - destruct IH as (k & Hk & Hon). exists k. split; [exact Hk|]. right.
    destruct Hon as [->|Hkp]; [now apply anc_parent | eapply anc_step; eauto].
Qed.

(* a pseudo-state is no ancestor *)
Lemma pseudo_no_anc_p i x : pseudoS i = true -> ~ Anc i x.
Proof.
  intros Hp Ha. induction Ha as [x p Hx|x p a Hx Ha IH].
  - exact (whp_pseudo_leaf W p x Hp Hx).
  - now apply IH.
Qed.

Lemma parent_not_pseudo_p k p : par k = Some p -> pseudoS p = false.
Proof.
  intros Hk. destruct (pseudoS p) eqn:E; [|reflexivity]. exfalso. exact (whp_pseudo_leaf W p k E Hk).
Qed.

Lemma anc_not_pseudo_p a x : Anc a x -> pseudoS a = false.
Proof. intros Ha. destruct (pseudoS a) eqn:E; [|reflexivity]. exfalso. exact (pseudo_no_anc_p a x E Ha). Qed.

Lemma compound_not_pseudo_p i : kd i = FCompound -> pseudoS i = false.
Proof. intros H. unfold LegalHistBase.pseudoS. unfold kd in H. now rewrite H. Qed.

(* ------------------------------------------------------------------ closed sets *)


Lemma closed_anc_p (S : nat -> Prop) x a : closedS S -> S x -> Anc a x -> S a.
Proof.
  intros Hc Hx Ha. induction Ha as [x p Hp|x p a Hp Ha IH].
  - eapply Hc; eauto.
  - apply IH. eapply Hc; eauto.
Qed.

(* a member below q reveals a member that is a child of q *)
Lemma closed_desc_child_p (S : nat -> Prop) q x : closedS S -> S x -> Anc q x ->
  exists k, par k = Some q /\ S k /\ on_pathP k x.
Proof.
  intros Hc Hx Ha. destruct (hanc_child_on_path_p q x Ha) as (k & Hk & Hon).
  exists k. split; [exact Hk|]. split; [|exact Hon].
  destruct Hon as [->|Hkx]; [exact Hx | eapply closed_anc_p; eauto].
Qed.

(* ------------------------------------------------------------------ fragments *)


(* the members of T and their ancestors strictly below q *)

Lemma frag_IC_p q T : T <> [] -> (forall g, In g T -> Anc q g) -> one_child_per_compound T -> Frag q (IC q T).
Proof.
  intros Hne Hb Hone. constructor.
  - intros x [Hx _]. exact Hx.
  - intros x p [Hqx (g & Hg & Hon)] Hp.
    destruct (anc_child par _ _ _ Hp Hqx) as [->|Hqp]; [now left|]. right. split; [exact Hqp|].
    exists g. split; [exact Hg|]. right.
    destruct Hon as [->|Hxg]; [now apply anc_parent | eapply hanc_trans_p; [apply anc_parent; eauto | exact Hxg]].
  - intros i k1 k2 Hi H1 H2 [_ (g1 & Hg1 & Ho1)] [_ (g2 & Hg2 & Ho2)].
    exact (Hone i k1 k2 g1 g2 Hi H1 H2 Hg1 Hg2 Ho1 Ho2).
  - destruct T as [|g r]; [congruence|]. assert (Hg : In g (g :: r)) by now left.
    destruct (hanc_child_on_path_p q g (Hb g Hg)) as (k & Hk & Hon).
    exists k. split; [exact Hk|]. split; [now apply anc_parent|]. exists g. tauto.
Qed.

(* membership in "T and all ancestors of members" against IC: the ancestors outside q's sub-tree are q or above *)
Lemma full_vs_IC_p q T x : (forall g, In g T -> Anc q g) ->
  ((exists g, In g T /\ on_pathP x g) <-> (IC q T x \/ ((x = q \/ Anc x q) /\ T <> []))).
Proof.
  intros Hb. split.
  - intros (g & Hg & Hon). assert (Hne : T <> []) by (intros E; rewrite E in Hg; destruct Hg).
    destruct Hon as [->|Hxg].
    + left. split; [now apply Hb | exists g; split; [exact Hg | now left]].
    + destruct (hanc_chain_p q x g (Hb g Hg) Hxg) as [<-|[Hqx|Hxq]].
      * right. tauto.
      * left. split; [exact Hqx|]. exists g. split; [exact Hg | now right].
      * right. tauto.
  - intros [[_ H]|[Hx Hne]]; [exact H|].
    destruct T as [|g r]; [congruence|]. exists g. split; [now left|]. right.
    assert (Hqg : Anc q g) by (apply Hb; now left).
    destruct Hx as [->|Hxq]; [exact Hqg | eapply hanc_trans_p; eauto].
Qed.

(* a list of children of q is its own inner closure *)
Lemma IC_children_p q T x : (forall g, In g T -> par g = Some q) -> (IC q T x <-> In x T).
Proof.
  intros Hc. split.
  - intros [Hqx (g & Hg & [->|Hxg])]; [exact Hg|]. exfalso.
    destruct (anc_child par _ _ _ (Hc g Hg) Hxg) as [->|Hxq]; [exact (hanc_irrefl_p _ Hqx) | exact (hanc_antisym_p _ _ Hqx Hxq)].
  - intros Hx. split; [apply anc_parent; now apply Hc | exists x; split; [exact Hx | now left]].
Qed.

End HPBase.

(* WFH is the special case without a history below a parallel state *)
Lemma wfh_wfhp c : WFH c -> WFHP c.
Proof.
  intros W.
  assert (Hnp : forall h q, histS c h = true -> fs_parent (st c h) = Some q -> fs_type (st c q) = FParallel -> False).
  { intros h q Hh Hp Hk.
    assert (Hps : pseudoS c h = true) by (unfold histS in Hh; unfold pseudoS; destruct (fs_type (st c h)); try discriminate; reflexivity).
    destruct (wh_pseudo_parent c W h Hps) as (q' & Hq' & Hkq). rewrite Hp in Hq'. injection Hq' as <-. congruence. }
  constructor.
  - exact (wh_root_par c W).
  - exact (wh_par_lt c W).
  - exact (wh_par_some c W).
  - exact (wh_children c W).
  - exact (wh_children_nodup c W).
  - exact (wh_anc c W).
  - exact (wh_interval c W).
  - exact (wh_root_type c W).
  - intros i Hps. destruct (wh_pseudo_parent c W i Hps) as (q & Hq & Hk). exists q. tauto.
  - exact (wh_pseudo_leaf c W).
  - exact (wh_compound c W).
  - intros i Hk. split; [exact (wh_cpl_sets c W i Hk)|]. intros h q g _ Hh Hp Hq. exfalso. exact (Hnp h q Hh Hp Hq).
  - intros i k Hk. rewrite (wh_parallel c W i k Hk), (wh_children c W). split; [|tauto]. intros Hp. split; [exact Hp|].
    destruct (pseudoS c k) eqn:E; [|reflexivity]. exfalso.
    destruct (wh_pseudo_parent c W k E) as (q' & Hq' & Hkq). rewrite Hp in Hq'. injection Hq' as <-. congruence.
  - exact (wh_tr_src c W).
  - exact (wh_tr_targets c W).
  - intros ti. split; [exact (wh_target_sets c W ti)|]. intros h q g _ Hh Hp Hq. exfalso. exact (Hnp h q Hh Hp Hq).
  - exact (wh_initial c W).
  - exact (wh_hist_default c W).
  - intros i q Hh Hp Hq. exfalso. exact (Hnp i q Hh Hp Hq).
  - exact (wh_hist_cpl c W).
  - exact (wh_hist_disjoint c W).
Qed.
