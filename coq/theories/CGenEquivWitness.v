(* CGenEquivWitness.v -- C04: the hypotheses of the behaviour theorems (CGenEquivMain.v) are satisfiable by a chart with
   a <parallel> state, nested compound states, <final> states in both regions, conditions over In() and content with
   <raise>, <send>, <log> and <if>/<elseif>/<else>; and none of the side conditions can be dropped: for each one a
   document, an event list and a number n of calls of uscxml_step() such that NO number of steps of the fast engine
   ends in a corresponding state.  Finite computations (vm_compute) on concrete documents, and for "no number of
   steps" the fact that the interpreter's loop has stopped (idle with no event left, or finished). *)
From V Require Import Base NameMatch Chart Exec Large Fast Interp WfCore CGen CGenLemmas LegalHistWf
                      EngineEquivRun CGenEquivContent CGenEquivMain.
Local Open Scope nat_scope.

(* ------------------------------------------------------------------ a decision procedure for the compared parts *)
Fixpoint bytes_eqb (a b : bytes) : bool :=
  match a, b with
  | [], [] => true
  | x :: a', y :: b' => (x =? y)%N && bytes_eqb a' b'
  | _, _ => false
  end.
Fixpoint names_eqb (a b : list bytes) : bool :=
  match a, b with
  | [], [] => true
  | x :: a', y :: b' => bytes_eqb x y && names_eqb a' b'
  | _, _ => false
  end.

Lemma bytes_eqb_refl a : bytes_eqb a a = true.
Proof. induction a as [|x a IH]; cbn; [reflexivity|]. now rewrite N.eqb_refl. Qed.
Lemma names_eqb_refl a : names_eqb a a = true.
Proof. induction a as [|x a IH]; cbn; [reflexivity|]. now rewrite bytes_eqb_refl. Qed.
Lemma nats_eqb_refl a : CGen.list_eqb a a = true.
Proof. induction a as [|x a IH]; cbn; [reflexivity|]. now rewrite Nat.eqb_refl. Qed.

Definition related_b (rc : lstate * cx) (rf : lstate * xstate) : bool :=
  CGen.list_eqb (l_cfg (fst rc)) (l_cfg (fst rf)) && CGen.list_eqb (l_hist (fst rc)) (l_hist (fst rf)) &&
  Bool.eqb (l_tlf (fst rc)) (l_tlf (fst rf)) && Bool.eqb (l_fin (fst rc)) (l_fin (fst rf)) &&
  names_eqb (cx_iq (snd rc)) (map ev_name (x_iq (snd rf))) && names_eqb (cx_eq (snd rc)) (map ev_name (x_eq (snd rf))) &&
  names_eqb (filter_map cview (cx_out (snd rc))) (filter_map fview (x_out (snd rf))).

Lemma related_b_complete rc rf :
  same_machine_state (fst rc) (fst rf) /\ same_queues_and_events (snd rc) (snd rf) -> related_b rc rf = true.
Proof.
  intros [(A1 & A2 & A3 & A4) (B1 & B2 & B3)]. unfold related_b.
  rewrite A1, A2, A3, A4, B1, B2, B3, !nats_eqb_refl, !Bool.eqb_reflx, !names_eqb_refl. reflexivity.
Qed.

Definition c_run (cv : cg_variant) (t : tree) (n : nat) (evs : list bytes) : lstate * cx :=
  crun_loop cv (flatten false t) n l_pristine cx_init evs.
Definition f_run (t : tree) (m : nat) (evs : list bytes) : lstate * xstate :=
  run_loop (flatten false t) lstate (fast_step ex_fixed (flatten false t)) l_cfg m l_pristine x_init evs.
Definition l_run (t : tree) (m : nat) (evs : list bytes) : lstate * xstate :=
  run_loop (flatten false t) lstate (large_step lg_fixed ex_fixed (flatten false t)) l_cfg m l_pristine x_init evs.

(* "no number of steps of the fast engine corresponds to n calls of uscxml_step()" *)
Definition never_related (cv : cg_variant) (t : tree) (n : nat) (evs : list bytes) : Prop :=
  forall m, ~ (same_machine_state (fst (c_run cv t n evs)) (fst (f_run t m evs)) /\
               same_queues_and_events (snd (c_run cv t n evs)) (snd (f_run t m evs))).

Lemma never_related_of_b cv t n evs : (forall m, related_b (c_run cv t n evs) (f_run t m evs) = false) -> never_related cv t n evs.
Proof. intros Hb m R. apply related_b_complete in R. rewrite Hb in R. discriminate. Qed.

Local Open Scope N_scope.
Definition tr_ (vid : N) (ev : option bytes) (cnd : option bexpr) (tg : option (list N)) (int : bool) (b : block) : ttrans :=
  {| tt_vid := vid; tt_event := ev; tt_cond := cnd; tt_targets := tg; tt_internal := int; tt_body := b |}.

(* ------------------------------------------------------------------ non-vacuity *)
(* s1 --e(101)--> <parallel s2>{ s3{ s4 --f(102)--> <final s5> }, s6{ s7{ s8 } --g(103)[In(s5)]--> <final s10> } }
   --done.state.s2--> <final s9>; handlers with <raise>, <send>, <log>, <if>/<elseif>/<else> *)
Definition cx_tree : tree :=
  TNode KScxml 0 None [] [] [] []
    [TNode KState 1 None [tr_ 101 (Some [101]) None (Some [2]) false [IRaise 301 [120]]] [] [[ISend 302 [121]]] [] [];
     TNode KParallel 2 None
       [tr_ 110 (Some (s_done_state ++ state_name 2)) None (Some [9]) false [ILog 310 (INum 7)]] [[IRaise 320 [122]]] [] []
       [TNode KState 3 None [] [] [] []
          [TNode KState 4 None [tr_ 102 (Some [102]) None (Some [5]) false []] [] [] [] [];
           TNode KFinal 5 None []
             [[ILog 305 (INum 5);
               IIf 306 (BIn 8) [FInstr (IRaise 307 [123]); FElseif (BIn 10); FInstr (ISend 308 [124]); FElse; FInstr (ILog 309 (INum 1))]]]
             [] [] []];
        TNode KState 6 None [] [] [] []
          [TNode KState 7 None [tr_ 104 (Some [103]) (Some (BIn 5)) (Some [10]) false []] [] [] []
             [TNode KState 8 None [tr_ 103 (Some [102]) (Some (BIn 4)) None false [IRaise 303 [125]]] [] [] [] []];
           TNode KFinal 10 None [] [] [] [] []]];
     TNode KFinal 9 None [] [] [] [] []].
Definition cx_events : list bytes := [[101]; [102]; [103]; [104]].

Example cstep_hypotheses_satisfiable_lemma :
  let c := flatten false cx_tree in
  wf_coreb c = true /\ fs_type (st c 0%nat) = FCompound /\ chart_c c = true /\ eq_chartb c = true /\
  Forall (fun e => e <> []) cx_events /\
  eq_guard_run ex_fixed c 60 l_pristine x_init cx_events = true /\
  (* 9 calls of uscxml_step() = 31 steps of either engine: finished, same state, same events; 8 calls = 30 steps *)
  l_fin (fst (c_run cg_repaired cx_tree 9 cx_events)) = true /\
  related_b (c_run cg_repaired cx_tree 9 cx_events) (f_run cx_tree 31 cx_events) = true /\
  related_b (c_run cg_repaired cx_tree 8 cx_events) (f_run cx_tree 30 cx_events) = true /\
  related_b (c_run cg_repaired cx_tree 9 cx_events) (l_run cx_tree 31 cx_events) = true /\
  (* done.state events of both regions and of the <parallel>, in the fast engine's order *)
  filter_map (fun t => match t with CDone s => Some s | _ => None end) (run_cgen cg_repaired cx_tree cx_events 9) = [3; 6; 2].
Proof.
  cbv zeta. do 4 (split; [vm_compute; reflexivity|]). split; [repeat constructor; discriminate|].
  repeat (split; [vm_compute; reflexivity|]). vm_compute; reflexivity.
Qed.

(* ------------------------------------------------------------------ the side conditions cannot be dropped *)
Tactic Notation "settle_upto" integer(k) := intros m; do k (destruct m as [|m]; [vm_compute; reflexivity|]); vm_compute; reflexivity.

(* chart_c, conditions: a transition guarded by cond="true" -- the null datamodel of the generated machine answers
   false to everything but In(); the machine stays in s1, the interpreter goes to s2 *)
Definition w_cond : tree :=
  TNode KScxml 0 None [] [] [] []
    [TNode KState 1 None [tr_ 101 (Some [101]) (Some BTrue) (Some [2]) false []] [] [] [] []; TNode KState 2 None [] [] [] [] []].

Lemma cstep_needs_in_conditions_refuted_lemma :
  let c := flatten false w_cond in
  wf_coreb c = true /\ fs_type (st c 0%nat) = FCompound /\ chart_c c = false /\ never_related cg_repaired w_cond 3 [[101]].
Proof.
  cbv zeta. repeat (split; [vm_compute; reflexivity|]). apply never_related_of_b. settle_upto 9.
Qed.

(* chart_c, content: <log expr="Var9"/> of an undeclared variable raises error.execution in the interpreter; the
   emitted function calls exec_content_log and goes on *)
Definition w_log : tree :=
  TNode KScxml 0 None [] [] [] []
    [TNode KState 1 None [tr_ 101 (Some [101;114;114;111;114]) None (Some [2]) false []] [[ILog 300 (IVar 9)]] [] [] [];
     TNode KState 2 None [] [] [] [] []].

Lemma cstep_needs_fragment_content_refuted_lemma :
  let c := flatten false w_log in
  wf_coreb c = true /\ fs_type (st c 0%nat) = FCompound /\ chart_c c = false /\ never_related cg_repaired w_log 2 [].
Proof.
  cbv zeta. repeat (split; [vm_compute; reflexivity|]). apply never_related_of_b. settle_upto 9.
Qed.

(* chart_c, <data>: an expression that does not evaluate raises error.execution when the state is first entered *)
Definition w_data : tree :=
  TNode KScxml 0 None [] [] [] []
    [TNode KState 1 None [tr_ 101 (Some [101;114;114;111;114]) None (Some [2]) false []] [] [] [(1, IBad)] [];
     TNode KState 2 None [] [] [] [] []].

Lemma cstep_needs_constant_data_refuted_lemma :
  let c := flatten false w_data in
  wf_coreb c = true /\ fs_type (st c 0%nat) = FCompound /\ chart_c c = false /\ never_related cg_repaired w_data 2 [].
Proof.
  cbv zeta. repeat (split; [vm_compute; reflexivity|]). apply never_related_of_b. settle_upto 9.
Qed.

(* non-empty event names: the interpreter takes an event without a name for "no event" and drops it; the generated
   machine hands it to the selection *)
Definition w_noname : tree :=
  TNode KScxml 0 None [] [] [] []
    [TNode KState 1 None [tr_ 101 (Some [42]) None (Some [2]) false []] [] [] [] []; TNode KState 2 None [] [] [] [] []].

Lemma cstep_needs_event_names_refuted_lemma :
  let c := flatten false w_noname in
  wf_coreb c = true /\ fs_type (st c 0%nat) = FCompound /\ chart_c c = true /\ never_related cg_repaired w_noname 3 [[]].
Proof.
  cbv zeta. repeat (split; [vm_compute; reflexivity|]). apply never_related_of_b. settle_upto 9.
Qed.

(* cg_tlf_first_byte: the emitted test `ancestors[0] == 0x01` takes <final s9> below s8 (seven states in front) for a
   top-level final state and finishes; the interpreter raises done.state.s8 and goes on *)
Lemma cstep_needs_top_level_test_refuted_lemma :
  let c := flatten false w_tlf_byte in
  wf_coreb c = true /\ fs_type (st c 0%nat) = FCompound /\ chart_c c = true /\ cg_tlf_first_byte cg_emitted = true /\
  never_related cg_emitted w_tlf_byte 4 [[103]].
Proof.
  cbv zeta. repeat (split; [vm_compute; reflexivity|]). apply never_related_of_b. settle_upto 12.
Qed.

(* wf_coreb: outside the core the repaired template still differs -- initial="s2 s5" with s5 below s3, which is not
   the default child of s2 (the completion names a direct child, so the emitted test skips the "deep completion" and
   s2 takes its default child s7): configuration {s1,s2,s7,s5}, the engines enter {s1,s2,s3,s5}.  The document passes
   the checks of wf_histb (charts with <initial> and <history>) *)
Definition w_deep_initial : tree :=
  TNode KScxml 0 None [] [] [] []
    [TNode KState 1 (Some [2; 5]) [] [] [] []
       [TNode KState 2 None [] [] [] []
          [TNode KState 7 None [] [] [] [] [];
           TNode KState 3 None [] [] [] [] [TNode KState 4 None [] [] [] [] []; TNode KState 5 None [] [] [] [] []]]]].

Lemma cstep_outside_core_refuted_lemma :
  let c := flatten false w_deep_initial in
  wf_coreb c = false /\ wf_histb c = true /\ fs_type (st c 0%nat) = FCompound /\ chart_c c = true /\
  sids c (l_cfg (fst (c_run cg_repaired w_deep_initial 1 []))) = [0; 1; 2; 7; 5] /\
  sids c (l_cfg (fst (f_run w_deep_initial 1 []))) = [0; 1; 2; 3; 5] /\
  never_related cg_repaired w_deep_initial 1 [].
Proof.
  cbv zeta. repeat (split; [vm_compute; reflexivity|]). apply never_related_of_b. settle_upto 6.
Qed.
