(* EngineLifecycleLemmas.v -- C10 about the engine models, instantiated with Large.large_step (every engine
   variant) and Fast.fast_step; the completion step; non-vacuity examples (a chart with a parallel state,
   nested compound states, an event-less guarded transition, raised and sent events) for C08 and C10; and
   witnesses for what is NOT true of the models. *)
From V Require Import Base NameMatch Chart Exec Large Fast Interp Trace TraceLemmas SetLemmas
     TraceComplete TraceCompleteBase TraceCompleteMicro TraceCompleteStep TraceCompleteRun TraceCompleteFast
     TraceCompleteWitness EngineQueue EngineQueueSteps EngineQueueLemmas EngineQueueRun EngineLifecycle.
From Coq Require Import ZifyBool.
Local Open Scope nat_scope.

(* what the step that returns FINISHED is: nothing at all for a finished engine; otherwise the completion
   step: flags, beforeCompletion, the onexit blocks of the active states from the last in document order to
   the first, afterCompletion, and between the two callbacks reports of executable content only *)
Definition finished_step_ok (xv : ex_variant) (c : fchart) (r : erec) : Prop :=
  r_rc r = RC_FINISHED ->
  (l_fin (r_l r) = true /\ r_l' r = r_l r /\ r_x' r = r_x r) \/
  (l_fin (r_l r) = false /\ l_tlf (r_l r) = true /\ r_l' r = set_completed (r_l r) /\
   r_x' r = emit TComplE (completion_exec xv c (l_cfg (r_l r)) (rev (l_cfg (r_l r))) (emit TComplB (r_x r))) /\
   reports (r_x r) (r_x' r) [TComplB; TComplE]).

Section Large.
Variable lv : lg_variant.
Variable xv : ex_variant.
Variable c : fchart.
Let step := large_step lv xv c.
Let Hm := large_ms0_spec lv xv c.
Let Hs := large_sel_spec lv xv c.

Theorem large_step_results_regular acts :
  rc_regularb (codes (elog c step acts l_pristine x_init)) = true.
Proof. unfold step. rewrite large_step_is_outer. exact (generic_step_results_regular xv c _ _ _ Hm Hs acts). Qed.

Theorem large_finished_absorbing acts : fin_absorbing false (elog c step acts l_pristine x_init).
Proof. unfold step. rewrite large_step_is_outer. exact (generic_finished_absorbing xv c _ _ _ Hs acts). Qed.

Theorem large_finished_is_completion acts :
  Forall (finished_step_ok xv c) (steps_of (elog c step acts l_pristine x_init)).
Proof.
  eapply Forall_impl; [|apply erun_steps]. intros r Hr Hrc. unfold finished_step_ok.
  assert (H : snd (step (r_l r) (r_x r)) = RC_FINISHED) by (now rewrite Hr).
  unfold step in H, Hr. rewrite large_step_is_outer in H, Hr.
  destruct (step_finished_cases xv c _ _ _ Hs _ _ H) as [[H1 H2]|(H1 & H2 & H3)]; rewrite Hr in *.
  - left. injection H2 as -> ->. auto.
  - right. injection H3 as -> ->. repeat split; auto. apply completion_reports.
Qed.

Theorem large_cancel_ok acts : raise_names_okb c = true ->
  cancel_ok false false (elog c step acts l_pristine x_init).
Proof. intros Hok. unfold step. rewrite large_step_is_outer. exact (generic_cancel_ok xv c _ _ _ Hm Hs Hok acts). Qed.

Theorem large_cancel_leads_to_finished acts1 acts2 : raise_names_okb c = true ->
  let s1 := efinal c step acts1 l_pristine x_init in
  let log2 := elog c step (ECancel :: acts2) (fst s1) (snd s1) in
  has_finished log2 = false ->
  n_other log2 <= 3 + first_unnamed (x_eq (snd s1)) /\ first_unnamed (x_eq (snd s1)) <= length (x_eq (snd s1)).
Proof.
  intros Hok. unfold step. rewrite large_step_is_outer.
  exact (generic_cancel_leads_to_finished xv c _ _ _ Hm Hs Hok acts1 acts2).
Qed.

Theorem large_cancel_when_idle l x :
  l_fin l = false -> l_tlf l = false -> l_stable l = true -> l_spont l = false -> x_iq x = [] -> x_eq x = [] ->
  let l1 := set_cancelled l in
  let x1 := raise_ext cancel_event x in
  step l1 x1 = (set_tlf_cancelled l1, pop_eq x1, RC_CANCELLED) /\
  snd (step (set_tlf_cancelled l1) (after_step c (set_tlf_cancelled l1) (pop_eq x1) RC_CANCELLED)) = RC_FINISHED.
Proof. unfold step. rewrite large_step_is_outer. exact (cancel_when_idle xv c _ _ l x). Qed.

End Large.

Section Fast.
Variable xv : ex_variant.
Variable c : fchart.
Let step := fast_step xv c.
Let Hm := fast_ms0_spec xv c.
Let Hs := fast_sel_spec xv c.

Theorem fast_step_results_regular acts :
  rc_regularb (codes (elog c step acts l_pristine x_init)) = true.
Proof. unfold step. rewrite fast_step_is_outer. exact (generic_step_results_regular xv c _ _ _ Hm Hs acts). Qed.

Theorem fast_finished_absorbing acts : fin_absorbing false (elog c step acts l_pristine x_init).
Proof. unfold step. rewrite fast_step_is_outer. exact (generic_finished_absorbing xv c _ _ _ Hs acts). Qed.

Theorem fast_finished_is_completion acts :
  Forall (finished_step_ok xv c) (steps_of (elog c step acts l_pristine x_init)).
Proof.
  eapply Forall_impl; [|apply erun_steps]. intros r Hr Hrc. unfold finished_step_ok.
  assert (H : snd (step (r_l r) (r_x r)) = RC_FINISHED) by (now rewrite Hr).
  unfold step in H, Hr. rewrite fast_step_is_outer in H, Hr.
  destruct (step_finished_cases xv c _ _ _ Hs _ _ H) as [[H1 H2]|(H1 & H2 & H3)]; rewrite Hr in *.
  - left. injection H2 as -> ->. auto.
  - right. injection H3 as -> ->. repeat split; auto. apply completion_reports.
Qed.

Theorem fast_cancel_ok acts : raise_names_okb c = true ->
  cancel_ok false false (elog c step acts l_pristine x_init).
Proof. intros Hok. unfold step. rewrite fast_step_is_outer. exact (generic_cancel_ok xv c _ _ _ Hm Hs Hok acts). Qed.

Theorem fast_cancel_leads_to_finished acts1 acts2 : raise_names_okb c = true ->
  let s1 := efinal c step acts1 l_pristine x_init in
  let log2 := elog c step (ECancel :: acts2) (fst s1) (snd s1) in
  has_finished log2 = false ->
  n_other log2 <= 3 + first_unnamed (x_eq (snd s1)) /\ first_unnamed (x_eq (snd s1)) <= length (x_eq (snd s1)).
Proof.
  intros Hok. unfold step. rewrite fast_step_is_outer.
  exact (generic_cancel_leads_to_finished xv c _ _ _ Hm Hs Hok acts1 acts2).
Qed.

Theorem fast_cancel_when_idle l x :
  l_fin l = false -> l_tlf l = false -> l_stable l = true -> l_spont l = false -> x_iq x = [] -> x_eq x = [] ->
  let l1 := set_cancelled l in
  let x1 := raise_ext cancel_event x in
  step l1 x1 = (set_tlf_cancelled l1, pop_eq x1, RC_CANCELLED) /\
  snd (step (set_tlf_cancelled l1) (after_step c (set_tlf_cancelled l1) (pop_eq x1) RC_CANCELLED)) = RC_FINISHED.
Proof. unfold step. rewrite fast_step_is_outer. exact (cancel_when_idle xv c _ _ l x). Qed.

End Fast.

(* the configuration the completion step walks over is strictly ascending (documents: report_okb), so its
   reverse names every active state exactly once, last in document order first *)
Theorem large_completion_each_once lv xv c acts :
  report_okb c = true -> raise_names_okb c = true ->
  Forall (fun r => ssorted (l_cfg (r_l r)) /\ NoDup (rev (l_cfg (r_l r))))
         (steps_of (elog c (large_step lv xv c) acts l_pristine x_init)).
Proof.
  intros H1 H2. eapply Forall_impl; [|exact (large_erun_named lv xv c acts H1 H2)].
  intros r (Hs & _ & _). split; [exact Hs|]. apply NoDup_rev. now apply ssorted_NoDup.
Qed.
Theorem fast_completion_each_once xv c acts :
  report_okb c = true -> raise_names_okb c = true ->
  Forall (fun r => ssorted (l_cfg (r_l r)) /\ NoDup (rev (l_cfg (r_l r))))
         (steps_of (elog c (fast_step xv c) acts l_pristine x_init)).
Proof.
  intros H1 H2. eapply Forall_impl; [|exact (fast_erun_named xv c acts H1 H2)].
  intros r (Hs & _ & _). split; [exact Hs|]. apply NoDup_rev. now apply ssorted_NoDup.
Qed.

(* ------------------------------------------------------------------ a non-trivial run *)

Local Open Scope N_scope.

Definition qe_trans (vid : N) (ev : option bytes) (cnd : option bexpr) (tg : list N) (body : block) : ttrans :=
  {| tt_vid := vid; tt_event := ev; tt_cond := cnd; tt_targets := Some tg; tt_internal := false; tt_body := body |}.

(* <parallel id=s1> with regions s2 {s3,s4} and s5 {s6,s7}, every state with an <onexit><log/>; event "e" (101)
   moves s3->s4 raising "a" (97), "b" (98) and sending "x" (120) to the own session; "a" moves s4->s3, "b" moves
   s6->s7; s7 has an event-less transition guarded by In(s3) that raises "c" (99) *)
Definition qe_tree : tree :=
  TNode KScxml 0 None [] [] [] []
    [TNode KParallel 1 None [] [] [[ILog 201 (INum 1)]] []
       [TNode KState 2 None [] [] [[ILog 202 (INum 2)]] []
          [TNode KState 3 None [qe_trans 101 (Some [101]) None [4] [IRaise 301 [97]; IRaise 302 [98]; ISend 303 [120]]]
                 [] [[ILog 203 (INum 3)]] [] [];
           TNode KState 4 None [qe_trans 102 (Some [97]) None [3] []] [] [[ILog 204 (INum 4)]] [] []];
        TNode KState 5 None [] [] [[ILog 205 (INum 5)]] []
          [TNode KState 6 None [qe_trans 103 (Some [98]) None [7] []] [] [[ILog 206 (INum 6)]] [] [];
           TNode KState 7 None [qe_trans 104 None (Some (BIn 3)) [6] [IRaise 304 [99]]] [] [[ILog 207 (INum 7)]] [] []]];
     TNode KFinal 8 None [] [] [] [] []].
Definition qe_chart : fchart := flatten false qe_tree.
Definition qe_ext (n : bytes) : eact := EExt {| ev_name := n; ev_kind := EvExternal |}.

(* events arrive between arbitrary steps (not only after IDLE); cancel() while "g" (103) is still queued *)
Definition qe_acts : list eact :=
  [EStep; qe_ext [102]; EStep; EStep; qe_ext [101]; EStep; EStep; qe_ext [103]; EStep; EStep; EStep; ECancel]
  ++ repeat EStep 18.
Definition qe_log := elog qe_chart (large_step lg_fixed ex_fixed qe_chart) qe_acts l_pristine x_init.
Definition qe_flog := elog qe_chart (fast_step ex_fixed qe_chart) qe_acts l_pristine x_init.

Definition deq_code (r : erec) : N :=
  match r_deq r with DeqNone => 0 | DeqInt _ => 1 | DeqExt _ => 2 | DeqExtEmpty => 3 end.

Example qe_hypotheses_hold : report_okb qe_chart = true /\ raise_names_okb qe_chart = true.
Proof. vm_compute. split; reflexivity. Qed.

(* results of step(), both engines: ... IDLE is never returned after the cancel(), CANCELLED, FINISHED for good *)
Example qe_codes :
  codes qe_log = [2; 2; 3; 2; 2; 3; 2; 2; 2; 2; 2; 2; 2; 2; 2; 3; 2; 2; 3; 2; 2; 3; 5; 0; 0; 0] /\
  codes qe_flog = codes qe_log /\ rc_regularb (codes qe_log) = true.
Proof. vm_compute. repeat split; reflexivity. Qed.

(* which queue each step reads (0 none, 1 internal, 2 external, 3 the unnamed wake-up event): three external
   events and the wake-up are taken, each in a quiescent state; three internal events in between *)
Example qe_dequeues :
  map deq_code (steps_of qe_log) = [0; 0; 0; 2; 0; 0; 2; 0; 1; 0; 1; 0; 0; 1; 0; 0; 2; 0; 0; 2; 0; 0; 3; 0; 0; 0] /\
  forallb (fun r => match r_deq r with
                    | DeqExt _ | DeqExtEmpty =>
                        match x_iq (r_x r) with [] => true | _ => false end && l_stable (r_l r) && negb (l_spont (r_l r)) &&
                        match large_esel lg_fixed qe_chart (l_cfg (r_l r)) (r_x r) with [] => true | _ => false end
                    | _ => true
                    end) (steps_of qe_log) = true.
Proof. vm_compute. split; reflexivity. Qed.

(* internal events a, b (raised by one transition, in this order) and c; external e' (102), e (101), g (103), then
   x (120, sent by the chart to itself while g was queued) and the wake-up event: taken in arrival order *)
Example qe_fifo :
  map ev_name (all_int_taken qe_log) = [[97]; [98]; [99]] /\
  map ev_name (all_int_raised qe_log) = [[97]; [98]; [99]] /\
  map ev_name (all_ext_taken qe_log) = [[102]; [101]; [103]; [120]; []] /\
  map ev_name (all_ext_arrived qe_log) = [[102]; [101]; [103]; [120]; []] /\
  ev_of (rev (x_out (snd (efinal qe_chart (large_step lg_fixed ex_fixed qe_chart) qe_acts l_pristine x_init)))) =
    [[102]; [101]; [97]; [98]; [99]; [103]; [120]].
Proof. vm_compute. repeat split; reflexivity. Qed.

(* at the cancel() two named events were queued externally; the FINISHED step is the 5th = (3 + 2)th step after it
   that is not a micro-step: the bound of cancel_leads_to_finished is attained *)
Example qe_cancel_bound_attained :
  let s1 := efinal qe_chart (large_step lg_fixed ex_fixed qe_chart) (firstn 11 qe_acts) l_pristine x_init in
  map ev_name (x_eq (snd s1)) = [[103]; [120]] /\
  n_other (elog qe_chart (large_step lg_fixed ex_fixed qe_chart) (ECancel :: repeat EStep 15) (fst s1) (snd s1)) = 4%nat /\
  has_finished (elog qe_chart (large_step lg_fixed ex_fixed qe_chart) (ECancel :: repeat EStep 15) (fst s1) (snd s1)) = false /\
  n_other (elog qe_chart (large_step lg_fixed ex_fixed qe_chart) (ECancel :: repeat EStep 16) (fst s1) (snd s1)) = 5%nat /\
  has_finished (elog qe_chart (large_step lg_fixed ex_fixed qe_chart) (ECancel :: repeat EStep 16) (fst s1) (snd s1)) = true.
Proof. vm_compute. repeat split; reflexivity. Qed.

(* the completion step: the onexit handlers of the active states s6 s5 s3 s2 s1 (configuration 0 1 2 3 5 6), each once,
   last in document order first *)
Example qe_completion :
  filter (fun t => match t with TLog _ | TComplB | TComplE | TXb _ => true | _ => false end)
         (skipn 100 (rev (x_out (snd (efinal qe_chart (large_step lg_fixed ex_fixed qe_chart) qe_acts l_pristine x_init))))) =
  [TComplB; TLog 6; TLog 5; TLog 3; TLog 2; TLog 1; TComplE].
Proof. vm_compute. reflexivity. Qed.

(* ------------------------------------------------------------------ what is not true *)

(* <raise event=""/> (excluded by raise_names_okb): the models keep the unnamed event at the head of the internal
   queue and return IDLE for ever -- also after cancel(), which then never leads to FINISHED.  (InterpreterImpl::
   enqueueInternal of the repaired code drops such an event; Exec.exec_instr does not model that.) *)
Lemma cancel_needs_named_raise_refuted_lemma :
  exists t acts,
    let c := flatten false t in
    raise_names_okb c = false /\
    codes (elog c (large_step lg_fixed ex_fixed c) acts l_pristine x_init) = [2; 2; 4; 4; 4; 4; 4; 4]%N /\
    codes (elog c (fast_step ex_fixed c) acts l_pristine x_init) = [2; 2; 4; 4; 4; 4; 4; 4]%N /\
    ~ cancel_ok false false (elog c (large_step lg_fixed ex_fixed c) acts l_pristine x_init).
Proof.
  exists tcw_unnamed_tree, [EStep; ECancel; EStep; EStep; EStep; EStep; EStep; EStep; EStep].
  cbn zeta. split; [vm_compute; reflexivity|]. split; [vm_compute; reflexivity|]. split; [vm_compute; reflexivity|].
  intros H.
  remember (elog (flatten false tcw_unnamed_tree) (large_step lg_fixed ex_fixed (flatten false tcw_unnamed_tree))
                 [EStep; ECancel; EStep; EStep; EStep; EStep; EStep; EStep; EStep] l_pristine x_init) as log eqn:E.
  vm_compute in E. subst log. cbn [cancel_ok r_rc] in H.
  destruct H as (_ & _ & _ & _ & _ & _ & H & _). apply H; reflexivity.
Qed.

(* no bound in terms of the queues alone: a chart with an event-less self-loop micro-steps for ever, cancelled or not *)
Definition qe_loop_tree : tree :=
  TNode KScxml 0 None [] [] [] [] [TNode KState 1 None [qe_trans 101 None None [1] []] [] [] [] []].

Lemma cancel_bound_needs_micro_steps_refuted_lemma :
  exists t, let c := flatten false t in
    report_okb c = true /\ raise_names_okb c = true /\
    forall n, (n <= 40)%nat ->
      let log := elog c (large_step lg_fixed ex_fixed c) (EStep :: ECancel :: repeat EStep n) l_pristine x_init in
      has_finished log = false /\ n_micro log = S n.
Proof.
  exists qe_loop_tree. cbn zeta. split; [vm_compute; reflexivity|]. split; [vm_compute; reflexivity|].
  intros n Hn. do 41 (destruct n as [|n]; [vm_compute; split; reflexivity|]). lia.
Qed.

(* CANCELLED need not be returned after cancel(): the chart may reach a top-level final state first *)
Lemma cancelled_not_always_returned_refuted_lemma :
  exists t acts, let c := flatten false t in
    In ECancel acts /\
    codes (elog c (large_step lg_fixed ex_fixed c) acts l_pristine x_init) = [2; 0; 0]%N.
Proof. exists tcw_fin_tree, [ECancel; EStep; EStep; EStep]. cbn zeta. split; [now left | vm_compute; reflexivity]. Qed.

(* an event without a name handed in from outside is taken from the queue and NOT processed: no selection, no
   beforeProcessingEvent, the step returns IDLE (it is indistinguishable from cancel()'s wake-up event) *)
Lemma unnamed_external_event_dropped_refuted_lemma :
  exists acts,
    let log := elog qe_chart (large_step lg_fixed ex_fixed qe_chart) acts l_pristine x_init in
    map ev_name (all_ext_arrived log) = [[]] /\ map ev_name (all_ext_taken log) = [[]] /\
    x_eq (snd (efinal qe_chart (large_step lg_fixed ex_fixed qe_chart) acts l_pristine x_init)) = [] /\
    ev_of (rev (x_out (snd (efinal qe_chart (large_step lg_fixed ex_fixed qe_chart) acts l_pristine x_init)))) = [] /\
    codes log = [2; 2; 3; 4; 4]%N.
Proof.
  exists [EStep; EStep; EStep; EExt {| ev_name := []; ev_kind := EvExternal |}; EStep; EStep].
  vm_compute. repeat split; reflexivity.
Qed.

(* ------------------------------------------------------------------ both engines at once (for props/Properties_C10.v) *)

Lemma engine_step_results_regular_lemma (lv : lg_variant) (xv : ex_variant) (c : fchart) (acts : list eact) :
  rc_regularb (codes (elog c (large_step lv xv c) acts l_pristine x_init)) = true /\
  rc_regularb (codes (elog c (fast_step xv c) acts l_pristine x_init)) = true.
Proof. split; [apply large_step_results_regular | apply fast_step_results_regular]. Qed.

Lemma engine_finished_absorbing_lemma (lv : lg_variant) (xv : ex_variant) (c : fchart) (acts : list eact) :
  (fin_absorbing false (elog c (large_step lv xv c) acts l_pristine x_init) /\
   Forall (finished_step_ok xv c) (steps_of (elog c (large_step lv xv c) acts l_pristine x_init))) /\
  (fin_absorbing false (elog c (fast_step xv c) acts l_pristine x_init) /\
   Forall (finished_step_ok xv c) (steps_of (elog c (fast_step xv c) acts l_pristine x_init))).
Proof.
  split; (split; [first [apply large_finished_absorbing | apply fast_finished_absorbing]
                 | first [apply large_finished_is_completion | apply fast_finished_is_completion]]).
Qed.

(* the statement about cancel() for one engine *)
Definition cancel_spec (c : fchart) (step : lstate -> xstate -> lstate * xstate * N) : Prop :=
  (forall acts, cancel_ok false false (elog c step acts l_pristine x_init)) /\
  (forall acts1 acts2,
     let s1 := efinal c step acts1 l_pristine x_init in
     let log2 := elog c step (ECancel :: acts2) (fst s1) (snd s1) in
     has_finished log2 = false ->
     n_other log2 <= 3 + first_unnamed (x_eq (snd s1)) /\ first_unnamed (x_eq (snd s1)) <= length (x_eq (snd s1)))%nat /\
  (forall l x,
     l_fin l = false -> l_tlf l = false -> l_stable l = true -> l_spont l = false -> x_iq x = [] -> x_eq x = [] ->
     let l1 := set_cancelled l in
     let x1 := raise_ext cancel_event x in
     step l1 x1 = (set_tlf_cancelled l1, pop_eq x1, RC_CANCELLED) /\
     snd (step (set_tlf_cancelled l1) (after_step c (set_tlf_cancelled l1) (pop_eq x1) RC_CANCELLED)) = RC_FINISHED).

Lemma engine_cancel_leads_to_finished_lemma (lv : lg_variant) (xv : ex_variant) (c : fchart) :
  raise_names_okb c = true ->
  cancel_spec c (large_step lv xv c) /\ cancel_spec c (fast_step xv c).
Proof.
  intros Hok. split; (split; [|split]).
  - intros acts. now apply large_cancel_ok.
  - intros a1 a2. now apply large_cancel_leads_to_finished.
  - apply large_cancel_when_idle.
  - intros acts. now apply fast_cancel_ok.
  - intros a1 a2. now apply fast_cancel_leads_to_finished.
  - apply fast_cancel_when_idle.
Qed.

Lemma engine_completion_each_once_lemma (lv : lg_variant) (xv : ex_variant) (c : fchart) (acts : list eact) :
  report_okb c = true -> raise_names_okb c = true ->
  Forall (fun r => ssorted (l_cfg (r_l r)) /\ NoDup (rev (l_cfg (r_l r))))
         (steps_of (elog c (large_step lv xv c) acts l_pristine x_init)) /\
  Forall (fun r => ssorted (l_cfg (r_l r)) /\ NoDup (rev (l_cfg (r_l r))))
         (steps_of (elog c (fast_step xv c) acts l_pristine x_init)).
Proof. intros H1 H2. split; [now apply large_completion_each_once | now apply fast_completion_each_once]. Qed.
