(* TraceCompleteRun.v -- C13 completeness, layer 3: the checker [trace_completeb] accepts the trace of every
   run of the driver loop around a step function whose steps have a [step_shape]; instantiated with the
   modelled LargeMicroStep::step. *)
From V Require Import Base NameMatch Chart Exec Large Interp Trace TraceLemmas SetLemmas
     TraceComplete TraceCompleteBase TraceCompleteMicro TraceCompleteStep.
From Coq Require Import ZifyBool.
Local Open Scope nat_scope.

(* ------------------------------------------------------------------ the checker on pieces of a trace *)

Lemma tc_run_app ord a : forall k b,
  tc_run ord k (a ++ b) = match tc_run ord k a with Some k' => tc_run ord k' b | None => None end.
Proof.
  induction a as [|t r IH]; intros k b; cbn [app tc_run]; [reflexivity|].
  destruct (tc_step ord k t); [apply IH | reflexivity].
Qed.

Lemma tc_step_content ord k t : is_content t = true -> tc_step ord k t = Some k.
Proof. destruct t; cbn; try discriminate; reflexivity. Qed.

Lemma tc_run_skeleton ord l : forall k, tc_run ord k (skeleton l) = tc_run ord k l.
Proof.
  induction l as [|t r IH]; intros k; [reflexivity|]. unfold skeleton. cbn [filter tc_run].
  destruct (is_content t) eqn:E; cbn [negb].
  - rewrite (tc_step_content ord k t E). apply IH.
  - cbn [tc_run]. destruct (tc_step ord k t); [apply IH | reflexivity].
Qed.

Definition with_xs_es (k : cst) (xs es : list N) : cst :=
  {| k_cfg := k_cfg k; k_stable := k_stable k;
     k_step := {| p_ev := p_ev (k_step k); p_ms := 1; p_xs := xs; p_es := es; p_st := p_st (k_step k);
                  p_cp := p_cp (k_step k); p_rc := p_rc (k_step k) |} |}.

Lemma tc_run_inner ord l : forall k,
  forallb is_msinner l = true -> p_ms (k_step k) = 1 ->
  tc_run ord k l = Some (with_xs_es k (rev (xb_of l) ++ p_xs (k_step k)) (rev (eb_of l) ++ p_es (k_step k))).
Proof.
  induction l as [|t r IH]; intros k Hin Hms.
  - destruct k as [kc ks [ev ms xs es st cp rc]]. cbn in *. subst ms. reflexivity.
  - cbn [forallb] in Hin. apply andb_true_iff in Hin. destruct Hin as [Ht Hr].
    destruct k as [kc ks [ev ms xs es st cp rc]]. cbn [k_step p_ms] in Hms. subst ms.
    destruct t; try discriminate Ht; cbn [tc_run tc_step k_step p_ms Nat.eqb];
      rewrite IH by (try exact Hr; reflexivity); unfold with_xs_es, xb_of, eb_of; cbn [k_cfg k_stable k_step p_ev p_ms p_xs p_es p_st p_cp p_rc filter_map rev];
      repeat rewrite <- app_assoc; reflexivity.
Qed.

Lemma list_eqN_refl l : list_eqN l l = true.
Proof. induction l as [|x r IH]; [reflexivity|]. cbn. now rewrite N.eqb_refl. Qed.

(* ------------------------------------------------------------------ ids against indices *)

Section Ids.
Variable c : fchart.
Hypothesis Hsids : sids_distinctb c = true.
Let ord := sid_pos c.
Let sid := sid_of c.

Lemma ord_sid i : i < nstates c -> ord (sid i) = i.
Proof.
  intros Hi. unfold sids_distinctb in Hsids. rewrite forallb_forall in Hsids.
  specialize (Hsids i). apply Nat.eqb_eq. apply Hsids. apply in_seq. lia.
Qed.

Lemma map_ord_sid l : in_range c l -> map ord (map sid l) = l.
Proof.
  induction l as [|i r IH]; intros H; [reflexivity|]. cbn [map]. rewrite ord_sid by (apply H; now left).
  f_equal. apply IH. intros j Hj. apply H. now right.
Qed.

Lemma memN_sid i l : i < nstates c -> in_range c l -> (memN (sid i) (map sid l) = true <-> In i l).
Proof.
  intros Hi Hl. unfold memN. rewrite existsb_exists. split.
  - intros (s & Hs & He). apply in_map_iff in Hs. destruct Hs as (j & <- & Hj).
    apply N.eqb_eq in He. assert (i = j); [|now subst].
    rewrite <- (ord_sid i Hi), <- (ord_sid j (Hl j Hj)). now f_equal.
  - intros H. exists (sid i). split; [now apply in_map | apply N.eqb_refl].
Qed.

Lemma memN_sid_false i l : i < nstates c -> in_range c l -> (memN (sid i) (map sid l) = false <-> ~ In i l).
Proof.
  intros Hi Hl. rewrite <- (memN_sid i l Hi Hl). destruct (memN (sid i) (map sid l)); split; congruence.
Qed.

Lemma forallb_map_sid (f : N -> bool) l : (forall i, In i l -> f (sid i) = true) -> forallb f (map sid l) = true.
Proof.
  intros H. apply forallb_forall. intros s Hs. apply in_map_iff in Hs. destruct Hs as (i & <- & Hi). now apply H.
Qed.

Lemma delta_ok_index o xs en n :
  in_range c o -> in_range c xs -> in_range c en -> in_range c n ->
  ssorted (rev xs) -> ssorted en -> ssorted n ->
  (forall i, In i xs -> In i o) ->
  (forall i, In i en -> ~ (In i o /\ ~ In i xs)) ->
  (forall i, In i n <-> (In i o /\ ~ In i xs) \/ In i en) ->
  delta_okb ord (map sid o) (map sid xs) (map sid en) (map sid n) = true.
Proof.
  intros Ro Rx Re Rn Sx Se Sn Hx He Hn. unfold delta_okb.
  repeat (apply andb_true_iff; split).
  - rewrite <- map_rev, map_ord_sid; [now apply ascb_ssorted|]. intros i Hi. apply Rx. now apply in_rev.
  - rewrite map_ord_sid by exact Re. now apply ascb_ssorted.
  - rewrite map_ord_sid by exact Rn. now apply ascb_ssorted.
  - apply forallb_map_sid. intros i Hi. apply memN_sid; auto.
  - apply forallb_map_sid. intros i Hi.
    destruct (memN (sid i) (map sid o)) eqn:E1; [|reflexivity]. cbn [negb orb].
    apply memN_sid; auto. apply memN_sid in E1; auto.
    destruct (in_dec Nat.eq_dec i xs) as [H|H]; [exact H|]. exfalso. apply (He i Hi). now split.
  - apply forallb_map_sid. intros i Hi. apply Hn in Hi. destruct Hi as [[H1 H2]|H].
    + apply orb_true_iff. left. apply andb_true_iff. split; [apply memN_sid; auto|].
      apply negb_true_iff. apply memN_sid_false; auto.
    + apply orb_true_iff. right. apply memN_sid; auto.
  - apply forallb_map_sid. intros i Hi. apply memN_sid; auto. apply Hn. now right.
  - apply forallb_map_sid. intros i Hi.
    destruct (in_dec Nat.eq_dec i xs) as [H|H].
    + apply orb_true_iff. left. apply memN_sid; auto.
    + apply orb_true_iff. right. apply memN_sid; auto. apply Hn. left. now split.
Qed.

(* ------------------------------------------------------------------ one step against the checker *)

(* engine state and checker state between two steps *)
Definition Inv (l : lstate) (k : cst) : Prop :=
  k_cfg k = map sid (l_cfg l) /\ k_stable k = l_stable l /\ k_step k = pstep0 /\
  ssorted (l_cfg l) /\ in_range c (l_cfg l) /\ (l_stable l = true -> l_spont l = false).

Lemma pristine_unstable l : is_pristine l = true -> l_stable l = false.
Proof.
  unfold is_pristine. intros H. apply negb_true_iff in H.
  repeat (apply orb_false_iff in H; destruct H as [H ?]). assumption.
Qed.

Lemma shape_checks l rc l' evt sk k :
  step_shape c l rc l' evt sk -> Inv l k ->
  exists k', tc_run ord k (sk ++ [TRet rc; TCfg (map sid (l_cfg l'))]) = Some k' /\ Inv l' k'.
Proof.
  intros Hsh (Hkc & Hks & Hkp & Hs & Hr & Hss).
  destruct k as [kc ks kp]. cbn [k_cfg k_stable k_step] in *. subst kc ks kp.
  destruct Hsh as [_ -> Hc Hst Hsp Hrc | _ -> Hc Hst Hsp -> | _ -> Hc Hst0 Hst Hsp -> |
                   -> Hevt Hev0 Hc Hst -> |
                   pt xs tl en -> Hevt Hev0 Hc Sx Ix Sn Dn Rn Hst Hsp ->].
  - (* nothing reported *)
    rewrite Hc. cbn [app tc_run tc_step k_step].
    assert (Hret : ret_okb (l_stable l) pstep0 rc = true).
    { destruct Hrc as [-> | [-> | [-> ->]]]; reflexivity. }
    cbn [k_stable]. rewrite Hret. cbn [k_step p_rc p_ms pstep0 Nat.eqb k_cfg]. rewrite list_eqN_refl.
    eexists. split; [reflexivity|]. unfold Inv. cbn [k_cfg k_stable k_step].
    rewrite Hc, Hst, Hsp. auto 10.
  - (* completion *)
    rewrite Hc. cbn [app tc_run tc_step k_step pstep_fresh pstep0 p_ev p_ms p_st p_cp p_rc negb andb Nat.eqb].
    assert (Hret : forall b, ret_okb b {| p_ev := false; p_ms := 0; p_xs := []; p_es := []; p_st := false; p_cp := true; p_rc := None |} RC_FINISHED = true)
      by (intros []; reflexivity).
    cbn [k_stable k_step]. rewrite Hret. cbn [k_step p_rc p_ms Nat.eqb k_cfg]. rewrite list_eqN_refl.
    eexists. split; [reflexivity|]. unfold Inv. cbn [k_cfg k_stable k_step].
    rewrite Hc, Hst, Hsp. auto 10.
  - (* stable notice *)
    rewrite Hc, Hst0. cbn [app tc_run tc_step k_step pstep_fresh pstep0 p_ev p_ms p_st p_cp p_rc negb andb Nat.eqb k_stable].
    cbn [k_stable k_step]. change (ret_okb true _ RC_MACROSTEPPED) with true. cbn iota.
    cbn [k_step p_rc p_ms Nat.eqb k_cfg]. rewrite list_eqN_refl.
    eexists. split; [reflexivity|]. unfold Inv. cbn [k_cfg k_stable k_step].
    rewrite Hc, Hst, Hsp. auto 10.
  - (* selection found nothing *)
    rewrite Hc. destruct Hevt as [->|(nm & ->)].
    + assert (Hu : l_stable l = false).
      { specialize (Hev0 eq_refl). destruct (l_stable l); [|reflexivity]. specialize (Hss eq_refl). congruence. }
      rewrite Hu. cbn [app tc_run tc_step k_step k_stable].
      change (ret_okb false pstep0 RC_MICROSTEPPED) with true. cbn iota.
      cbn [k_step p_rc p_ms pstep0 Nat.eqb k_cfg]. rewrite list_eqN_refl.
      eexists. split; [reflexivity|]. unfold Inv. cbn [k_cfg k_stable k_step].
      rewrite Hc, Hst. repeat split; auto. discriminate.
    + cbn [app tc_run tc_step k_step pstep_fresh pstep0 p_ev p_ms p_st p_cp p_rc negb andb Nat.eqb k_stable k_cfg].
      change (ret_okb false _ RC_MICROSTEPPED) with true. cbn iota.
      cbn [k_step p_rc p_ms Nat.eqb k_cfg]. rewrite list_eqN_refl.
      eexists. split; [reflexivity|]. unfold Inv. cbn [k_cfg k_stable k_step].
      rewrite Hc, Hst. repeat split; auto. discriminate.
  - (* a micro-step *)
    assert (Hin := micro_skel_inner c pt xs tl en).
    assert (Hdelta : delta_okb ord (map sid (l_cfg l)) (map sid xs) (map sid en) (map sid (l_cfg l')) = true).
    { rewrite Hc. apply delta_ok_index; auto.
      - intros i Hi. apply Hr. now apply Ix.
      - intros i Hi. apply In_insert_all in Hi. destruct Hi as [Hi|Hi]; [|now apply Rn].
        apply In_remove_all in Hi. apply Hr. apply Hi.
      - apply ssorted_insert_all. now apply ssorted_remove_all.
      - intros i Hi [H1 H2]. apply (Dn i Hi). apply In_remove_all. now split.
      - intros i. rewrite In_insert_all, In_remove_all. tauto. }
    assert (Hinv' : forall k', k_cfg k' = map sid (l_cfg l') -> k_stable k' = false -> k_step k' = pstep0 -> Inv l' k').
    { intros k' H1 H2 H3. unfold Inv. rewrite H1, H2, H3, Hst. repeat split; auto.
      - rewrite Hc. apply ssorted_insert_all. now apply ssorted_remove_all.
      - rewrite Hc. intros i Hi. apply In_insert_all in Hi. destruct Hi as [Hi|Hi]; [|now apply Rn].
        apply In_remove_all in Hi. apply Hr. apply Hi.
      - discriminate. }
    assert (Hmid : forall k0, p_ms (k_step k0) = 1 -> p_xs (k_step k0) = [] -> p_es (k_step k0) = [] ->
              p_rc (k_step k0) = None -> p_st (k_step k0) = false -> p_cp (k_step k0) = false ->
              k_cfg k0 = map sid (l_cfg l) ->
              exists k', tc_run ord k0 (micro_skel_with c pt xs tl en ++ [TMsE; TRet RC_MICROSTEPPED; TCfg (map sid (l_cfg l'))]) = Some k' /\
                         k_cfg k' = map sid (l_cfg l') /\ k_stable k' = k_stable k0 /\ k_step k' = pstep0).
    { intros k0 H1 H2 H3 H4 H5 H6 H7. rewrite tc_run_app, (tc_run_inner ord _ k0 Hin H1).
      rewrite H2, H3, (xb_micro_skel c), (eb_micro_skel c), !app_nil_r.
      destruct k0 as [kc0 ks0 [ev0 ms0 xs0 es0 st0 cp0 rc0]]. cbn [k_step k_cfg k_stable p_ms p_xs p_es p_rc p_st p_cp p_ev] in *.
      subst. unfold with_xs_es. cbn [k_step k_cfg k_stable p_ms p_xs p_es p_rc p_st p_cp p_ev].
      cbn [tc_run tc_step k_step p_ms Nat.eqb k_cfg k_stable p_ev p_xs p_es p_st p_cp p_rc].
      assert (Hret : forall b e, ret_okb b {| p_ev := e; p_ms := 2; p_xs := rev (map sid xs); p_es := rev (map sid en);
                                              p_st := false; p_cp := false; p_rc := None |} RC_MICROSTEPPED = true)
        by (intros [] []; reflexivity).
      rewrite Hret. cbn [k_step p_rc p_ms Nat.eqb k_cfg p_xs p_es].
      change (sid_of c) with sid. rewrite !rev_involutive, Hdelta. eexists. split; [reflexivity|]. auto. }
    destruct Hevt as [->|(nm & ->)].
    + assert (Hu : l_stable l = false).
      { destruct (Hev0 eq_refl) as [H|H]; [|now apply pristine_unstable].
        destruct (l_stable l); [|reflexivity]. specialize (Hss eq_refl). congruence. }
      rewrite Hu. cbn [app tc_run tc_step k_step pstep0 p_ms p_st p_cp p_rc negb andb Nat.eqb k_cfg p_ev].
      repeat rewrite <- app_assoc. cbn [app].
      edestruct Hmid as (k' & Hk' & Hk1 & Hk2 & Hk3); [| | | | | | |exists k'; split; [exact Hk'|]]; try reflexivity.
      apply Hinv'; auto.
    + cbn [app tc_run tc_step k_step pstep_fresh pstep0 p_ev p_ms p_st p_cp p_rc negb andb Nat.eqb k_cfg].
      repeat rewrite <- app_assoc. cbn [app].
      edestruct Hmid as (k' & Hk' & Hk1 & Hk2 & Hk3); [| | | | | | |exists k'; split; [exact Hk'|]]; try reflexivity.
      apply Hinv'; auto.
Qed.

End Ids.

(* ------------------------------------------------------------------ the driver loop *)

Lemma ev_of_inner l : forallb is_msinner l = true -> ev_of l = [].
Proof.
  induction l as [|t r IH]; [reflexivity|]. cbn [forallb]. intros H. apply andb_true_iff in H. destruct H as [Ht Hr].
  unfold ev_of in *. destruct t; try discriminate Ht; cbn [filter_map]; now apply IH.
Qed.

Lemma ev_of_app a b : ev_of (a ++ b) = ev_of a ++ ev_of b.
Proof. apply filter_map_app. Qed.

Lemma ev_of_map_TEv names : ev_of (map TEv names) = names.
Proof. induction names as [|n r IH]; [reflexivity|]. cbn. now f_equal. Qed.

Lemma shape_ev_of c l rc l' evt sk : step_shape c l rc l' evt sk -> ev_of sk = ev_of evt.
Proof.
  intros [-> -> _ _ _ _ | -> -> _ _ _ _ | -> -> _ _ _ _ _ | -> _ _ _ _ _ | pt xs tl en -> _ _ _ _ _ _ _ _ _ _ _]; try reflexivity.
  rewrite ev_of_app. change (TMsB :: micro_skel_with c pt xs tl en ++ [TMsE]) with ([TMsB] ++ micro_skel_with c pt xs tl en ++ [TMsE]).
  rewrite !ev_of_app, (ev_of_inner _ (micro_skel_inner c pt xs tl en)). cbn. now rewrite app_nil_r.
Qed.

Section Loop.
Variable c : fchart.
Variable step : lstate -> xstate -> lstate * xstate * N.
Hypothesis Hsids : sids_distinctb c = true.
Let ok := raise_names_okb c.
Hypothesis step_ok : forall l x, ssorted (l_cfg l) -> in_range c (l_cfg l) -> iq_named x ->
  exists sk, reports x (snd (fst (step l x))) sk /\ qeffect c (dequeues l x) x (snd (fst (step l x))) /\
             step_shape c l (snd (step l x)) (fst (fst (step l x))) (map TEv (deq_names (dequeues l x))) sk.
Hypothesis Hok : ok = true.

Lemma run_loop_checks fuel : forall l x evs k,
  Inv c l k -> iq_named x -> tc_run (sid_pos c) tc_init (rev (x_out x)) = Some k ->
  let r := run_loop c lstate step l_cfg fuel l x evs in
  (exists k', tc_run (sid_pos c) tc_init (rev (x_out (snd r))) = Some k' /\ Inv c (fst r) k') /\
  iq_named (snd r) /\
  ev_of (rev (x_out (snd r))) = ev_of (rev (x_out x)) ++ flat_map deq_names (run_deq step c fuel l x evs).
Proof.
  induction fuel as [|f IH]; intros l x evs k HI Hn Hk; cbn [run_loop run_deq].
  - split; [exists k; split; [exact Hk | exact HI]|]. split; [exact Hn | cbn; now rewrite app_nil_r].
  - destruct (step_ok l x) as (sk & (new & Hnew & Hsk) & Hq & Hsh); [apply HI | apply HI | exact Hn|].
    pose proof (qeffect_named c _ _ _ Hq Hok Hn) as Hnm.
    destruct (step l x) as [[l1 x1] rc]. cbn [fst snd] in *.
    destruct (shape_checks c Hsids l rc l1 _ sk k Hsh HI) as (k1 & Hk1 & HI1).
    set (x2 := emit (cfg_tok c lstate l_cfg l1) (emit (TRet rc) x1)).
    assert (Hout : rev (x_out x2) = rev (x_out x) ++ new ++ [TRet rc; TCfg (map (sid_of c) (l_cfg l1))]).
    { subst x2. cbn [emit x_out rev]. unfold emitted in Hnew. rewrite Hnew, rev_app_distr, rev_involutive.
      repeat rewrite <- app_assoc. reflexivity. }
    assert (Hk2 : tc_run (sid_pos c) tc_init (rev (x_out x2)) = Some k1).
    { rewrite Hout, tc_run_app, Hk. rewrite <- Hk1. rewrite tc_run_app, <- (tc_run_skeleton _ new), Hsk.
      rewrite tc_run_app. reflexivity. }
    assert (Hev2 : ev_of (rev (x_out x2)) = ev_of (rev (x_out x)) ++ deq_names (dequeues l x)).
    { rewrite Hout, !ev_of_app. f_equal. rewrite <- ev_of_skeleton, Hsk, (shape_ev_of _ _ _ _ _ _ Hsh), ev_of_map_TEv.
      cbn. now rewrite app_nil_r. }
    assert (Hn2 : iq_named x2) by (apply (iq_named_same x1); [reflexivity | exact Hnm]).
    cbn [flat_map].
    destruct (rc =? RC_FINISHED)%N.
    { cbn [fst snd]. split; [exists k1; split; [exact Hk2 | exact HI1]|]. split; [exact Hn2|].
      cbn [flat_map]; now rewrite app_nil_r. }
    destruct (rc =? RC_IDLE)%N.
    + destruct evs as [|e r].
      { cbn [fst snd]. split; [exists k1; split; [exact Hk2 | exact HI1]|]. split; [exact Hn2|].
        cbn [flat_map]; now rewrite app_nil_r. }
      destruct (IH l1 (raise_ext {| ev_name := e; ev_kind := EvExternal |} x2) r k1 HI1) as (H1 & H1' & H2);
        [now apply (iq_named_same x2) | exact Hk2|].
      split; [exact H1|]. split; [exact H1'|]. cbn zeta in H2. rewrite H2. change (x_out (raise_ext _ x2)) with (x_out x2).
      rewrite Hev2, <- app_assoc. reflexivity.
    + destruct (IH l1 x2 evs k1 HI1 Hn2 Hk2) as (H1 & H1' & H2).
      split; [exact H1|]. split; [exact H1'|]. cbn zeta in H2. rewrite H2, Hev2, <- app_assoc. reflexivity.
Qed.

Lemma Inv_init : Inv c l_pristine tc_init.
Proof. unfold Inv. cbn. repeat split; auto. intros i []. Qed.

Theorem run_loop_complete fuel evs :
  trace_completeb (sid_pos c) (rev (x_out (snd (run_loop c lstate step l_cfg fuel l_pristine x_init evs)))) = true.
Proof.
  destruct (run_loop_checks fuel l_pristine x_init evs tc_init Inv_init eq_refl eq_refl) as [(k' & Hk' & Hp) _].
  destruct Hp as (_ & _ & Hp & _).
  unfold trace_completeb. rewrite Hk', Hp. reflexivity.
Qed.

(* every dequeued (named) event is reported exactly once, in dequeue order, and nothing else is *)
Theorem run_loop_events fuel evs :
  ev_of (rev (x_out (snd (run_loop c lstate step l_cfg fuel l_pristine x_init evs)))) =
  flat_map deq_names (run_deq step c fuel l_pristine x_init evs).
Proof.
  destruct (run_loop_checks fuel l_pristine x_init evs tc_init Inv_init eq_refl eq_refl) as (_ & _ & H). exact H.
Qed.

(* what holds of every state a run returns (and of every state a step is taken from) *)
Theorem run_loop_invariants fuel evs :
  let r := run_loop c lstate step l_cfg fuel l_pristine x_init evs in
  ssorted (l_cfg (fst r)) /\ in_range c (l_cfg (fst r)) /\ iq_named (snd r) /\
  (l_stable (fst r) = true -> l_spont (fst r) = false).
Proof.
  destruct (run_loop_checks fuel l_pristine x_init evs tc_init Inv_init eq_refl eq_refl) as ((k' & _ & Hp) & Hn & _).
  destruct Hp as (_ & _ & _ & H1 & H2 & H3). cbn zeta. auto.
Qed.

End Loop.

(* ------------------------------------------------------------------ the large engine *)

Lemma report_okb_parts c : report_okb c = true ->
  sids_distinctb c = true /\ refs_in_rangeb c = true /\ ascb (fs_completion (st c 0)) = true.
Proof. unfold report_okb. intros H. apply andb_true_iff in H. destruct H as [H H3]. apply andb_true_iff in H. tauto. Qed.

(* for every flat chart with identifying state ids and no dangling index, every engine and executor variant,
   every event list and bound *)
Theorem large_run_complete lv xv c evs fuel :
  report_okb c = true -> raise_names_okb c = true ->
  trace_completeb (sid_pos c)
    (rev (x_out (snd (run_loop c lstate (large_step lv xv c) l_cfg fuel l_pristine x_init evs)))) = true.
Proof.
  intros Hrep Hok. apply report_okb_parts in Hrep. destruct Hrep as (H1 & H2 & H3).
  apply run_loop_complete; auto.
  intros l x Hs Hr Hn. exact (large_step_shape lv xv c H2 l x Hs Hr H3 Hok Hn).
Qed.

Theorem large_run_events lv xv c evs fuel :
  report_okb c = true -> raise_names_okb c = true ->
  ev_of (rev (x_out (snd (run_loop c lstate (large_step lv xv c) l_cfg fuel l_pristine x_init evs)))) =
  flat_map deq_names (run_deq (large_step lv xv c) c fuel l_pristine x_init evs).
Proof.
  intros Hrep Hok. apply report_okb_parts in Hrep. destruct Hrep as (H1 & H2 & H3).
  apply run_loop_events; auto.
  intros l x Hs Hr Hn. exact (large_step_shape lv xv c H2 l x Hs Hr H3 Hok Hn).
Qed.

(* the queue discipline of one step: [dequeues] names the head that is taken; everything else is appended *)
Theorem large_step_queues lv xv c l x :
  refs_in_rangeb c = true -> ascb (fs_completion (st c 0)) = true -> raise_names_okb c = true ->
  ssorted (l_cfg l) -> in_range c (l_cfg l) -> iq_named x ->
  queue_effect (dequeues l x) x (snd (fst (large_step lv xv c l x))).
Proof.
  intros H2 H3 Hok Hs Hr Hn.
  destruct (large_step_shape lv xv c H2 l x Hs Hr H3 Hok Hn) as (sk & _ & Hq & _).
  now apply (qeffect_queue_effect c).
Qed.

Theorem run_large_complete lv xv late t evs fuel :
  report_okb (flatten late t) = true -> raise_names_okb (flatten late t) = true ->
  trace_completeb (sid_pos (flatten late t)) (fst (run_large lv xv late t evs fuel)) = true.
Proof.
  intros H1 H2. unfold run_large.
  pose proof (large_run_complete lv xv (flatten late t) evs fuel H1 H2) as H.
  destruct (run_loop (flatten late t) lstate (large_step lv xv (flatten late t)) l_cfg fuel l_pristine x_init evs) as [l x].
  exact H.
Qed.
