(* PmlEquivExit.v -- C06, the emitted step process against FastMicroStep, the phases next to SELECT_TRANSITIONS:
   1. the exit set and the target set the emitted loop accumulates (`exit_set |= transitions[i].exit_set`, then
      `exit_set &= config`) are the ones Fast.fselect_and_step computes from the selected transitions
      (every chart, every variant of the template; the configuration holds no pseudo-state);
   2. the static conflict table of the emitted model is FastMicroStep's conflict matrix (history-free core);
   3. REMEMBER_HISTORY is Fast.fremember (every chart; the template without the `covered` completions).
   Proofs only. *)
From V Require Import Base NameMatch Chart Exec Large Legal SetLemmas LegalAbstract LegalLarge WfCore Fast Trie PmlStep
                      SerializeCodecLemmas PmlEquivBase.
From Coq Require Import Sorted.
Local Open Scope nat_scope.

Definition psel0 : psel := {| k_found := false; k_conf := []; k_target := []; k_exit := []; k_trans := [] |}.

(* no <history> / <initial> pseudo-state is a member of the configuration (an invariant of every run) *)
Definition cfg_proper (c : fchart) (cfg : list nat) : bool :=
  forallb (fun i => negb (is_pseudo (fs_type (st c i)))) cfg.

(* ================================================================== 1. exit set and target set ========= *)
Section ExitSet.
Variable pv : pml_variant.
Variable c : fchart.
Variable cfg : list nat.
Variable ev : option bytes.
Variable sto : store.

Record sel_sets (a : psel) : Prop := {
  ss_exit_sorted : ssorted (k_exit a);
  ss_target_sorted : ssorted (k_target a);
  ss_trans_sorted : ssorted (k_trans a);
  ss_exit : forall x, In x (k_exit a) <-> exists ti, In ti (k_trans a) /\ In x (exit_static c (tr c ti));
  ss_target : forall x, In x (k_target a) <-> exists ti, In ti (k_trans a) /\ In x (ft_targets (tr c ti));
  ss_src : forall ti, In ti (k_trans a) ->
             mem (ft_source (tr c ti)) cfg = true /\ ft_history (tr c ti) = false /\ ft_initial (tr c ti) = false
}.

Lemma sel_sets_0 : sel_sets psel0.
Proof.
  constructor; cbn [psel0 k_exit k_target k_trans].
  - constructor.
  - constructor.
  - constructor.
  - intros x; split; [intros [] | intros (ti & [] & _)].
  - intros x; split; [intros [] | intros (ti & [] & _)].
  - intros ti [].
Qed.

Lemma sel_sets_step a i : sel_sets a -> sel_sets (psel_one pv c cfg ev sto a i).
Proof.
  intros [E1 E2 E3 E4 E5 E6]. unfold psel_one.
  destruct (ft_history (tr c i) || ft_initial (tr c i)) eqn:HI; [now constructor|].
  destruct (mem (ft_source (tr c i)) cfg && _ && _ && _) eqn:G; [|now constructor].
  apply orb_false_iff in HI as [Hh Hi].
  repeat (apply andb_true_iff in G as [G ?]).
  constructor; cbn [k_exit k_target k_trans].
  - now apply set_union_ssorted.
  - now apply set_union_ssorted.
  - now apply insert_sorted_ssorted.
  - intros x. rewrite In_set_union, E4. split.
    + intros [(ti & Ht & Hx)|Hx]; [exists ti | exists i]; rewrite insert_sorted_In; tauto.
    + intros (ti & Ht & Hx). apply insert_sorted_In in Ht as [->|Ht]; [now right | left; now exists ti].
  - intros x. rewrite In_set_union, E5. split.
    + intros [(ti & Ht & Hx)|Hx]; [exists ti | exists i]; rewrite insert_sorted_In; tauto.
    + intros (ti & Ht & Hx). apply insert_sorted_In in Ht as [->|Ht]; [now right | left; now exists ti].
  - intros ti Ht. apply insert_sorted_In in Ht as [->|Ht]; [tauto | now apply E6].
Qed.

Lemma sel_sets_fold l : forall a, sel_sets a -> sel_sets (fold_left (psel_one pv c cfg ev sto) l a).
Proof.
  induction l as [|i r IH]; intros a H; cbn [fold_left]; [exact H|]. apply IH. now apply sel_sets_step.
Qed.

Lemma sel_trans_from l : forall a ti,
  In ti (k_trans (fold_left (psel_one pv c cfg ev sto) l a)) -> In ti (k_trans a) \/ In ti l.
Proof.
  induction l as [|i r IH]; intros a ti H; cbn [fold_left] in H; [now left|].
  apply IH in H as [H|H]; [|right; now right].
  unfold psel_one in H. destruct (ft_history (tr c i) || ft_initial (tr c i)); [now left|].
  destruct (_ && _); [|now left]. cbn [k_trans] in H. apply insert_sorted_In in H as [->|H]; [right; now left | now left].
Qed.

(* getExitSet: first == 0 only for the empty interval (0, 0) *)
Lemma exit_interval_shape t f s : exit_interval lg_fixed c t = (f, s) -> f = 0 -> s = 0.
Proof.
  unfold exit_interval. destruct (domain c t); cbn [lg_exit_overreach lg_fixed andb]; intros [= <- <-]; [discriminate|reflexivity].
Qed.

Lemma In_exit_states_of t x : cfg_proper c cfg = true ->
  (In x (exit_states_of lg_fixed c cfg t) <-> In x cfg /\ In x (exit_static c t)).
Proof.
  intros Hp. unfold exit_states_of, exit_static.
  destruct (exit_interval lg_fixed c t) as [f s] eqn:E.
  pose proof (exit_interval_shape t f s E) as Sh.
  cbn [lg_targetless_exits_root lg_fixed negb]. rewrite andb_true_r.
  destruct (f =? 0) eqn:F.
  - apply Nat.eqb_eq in F. rewrite (Sh F). cbn. tauto.
  - cbn [andb]. rewrite !filter_In, in_seq, andb_true_iff, !Nat.leb_le.
    apply Nat.eqb_neq in F. split.
    + intros (Hc & H1 & H2). repeat split; try lia; try exact Hc.
      unfold cfg_proper in Hp. rewrite forallb_forall in Hp. now apply Hp.
    + intros (Hc & (H1 & H2) & _). repeat split; try lia; exact Hc.
Qed.

Definition selected : psel := fold_left (psel_one pv c cfg ev sto) (seq 0 (ntrans c)) psel0.

Lemma selected_sets : sel_sets selected.
Proof. apply sel_sets_fold, sel_sets_0. Qed.

Lemma selected_bound ti : In ti (k_trans selected) -> ti < ntrans c.
Proof. intros H. apply sel_trans_from in H as [[]|H]. apply in_seq in H. lia. Qed.

Theorem pml_exit_set_lemma : cfg_proper c cfg = true ->
  set_inter (k_exit selected) cfg =
    fold_left (fun acc ti => set_union acc (exit_states_of lg_fixed c cfg (tr c ti))) (k_trans selected) [] /\
  k_target selected =
    fold_left (fun acc ti => set_union acc (ft_targets (tr c ti))) (k_trans selected) [].
Proof.
  intros Hp. destruct selected_sets as [E1 E2 E3 E4 E5 _]. split.
  - apply ssorted_ext.
    + now apply set_inter_ssorted.
    + apply fold_union_ssorted. constructor.
    + intros x. rewrite In_set_inter, In_fold_union, E4. split.
      * intros ((ti & Ht & Hx) & Hc). right. exists ti. split; [exact Ht|]. apply In_exit_states_of; tauto.
      * intros [[]|(ti & Ht & Hx)]. apply In_exit_states_of in Hx; [|exact Hp]. split; [exists ti|]; tauto.
  - apply ssorted_ext.
    + exact E2.
    + apply fold_union_ssorted. constructor.
    + intros x. rewrite In_fold_union, E5. split; [intros H; now right | intros [[]|H]; exact H].
Qed.
End ExitSet.

(* the restriction on the configuration cannot be dropped: with the <history> pseudo-state 2 in the "configuration"
   the engine's interval test keeps it, the static exit set of the emitted model never contains it *)
Definition w_exit_hist : tree :=
  TNode KScxml 0%N None [] [] [] []
    [TNode KState 1%N None [] [] [] []
       [TNode KHistShallow 9%N None [{| tt_vid := 103%N; tt_event := None; tt_cond := None; tt_targets := Some [3%N]; tt_internal := false; tt_body := [] |}] [] [] [] [];
        TNode KState 2%N None [{| tt_vid := 101%N; tt_event := Some [101%N]; tt_cond := None; tt_targets := Some [9%N]; tt_internal := false; tt_body := [] |}] [] [] [] [];
        TNode KState 3%N None [] [] [] [] []]].

Lemma pml_exit_set_improper_refuted :
  exists pv c cfg ev sto,
    let a := selected pv c cfg ev sto in
    set_inter (k_exit a) cfg <>
    fold_left (fun acc ti => set_union acc (exit_states_of lg_fixed c cfg (tr c ti))) (k_trans a) [].
Proof.
  exists pml_repaired, (flatten false w_exit_hist), [0; 1; 2; 3], (Some [101%N]), []. vm_compute. discriminate.
Qed.

(* ================================================================== 2. the conflict table ========= *)
Section Conflicts.
Variable c : fchart.
Hypothesis H : wf_coreb c = true.
Let W : WF c := wf_coreb_sound c H.
Notation Anc := (LegalAbstract.Anc (fun i => fs_parent (st c i))).

(* the domain of a transition has a descendant: one of the targets *)
Lemma domain_has_target ti d : domain c (tr c ti) = Some d -> exists g, In g (ft_targets (tr c ti)) /\ Anc d g.
Proof.
  unfold domain. destruct (ft_targets (tr c ti)) as [|g0 gs] eqn:Htg; [discriminate|]. rewrite <- Htg.
  assert (Hg0 : In g0 (ft_targets (tr c ti))) by (rewrite Htg; now left).
  destruct (ft_internal (tr c ti) && is_comp (fs_type (st c (ft_source (tr c ti)))) &&
            forallb (fun x => mem (ft_source (tr c ti)) (fs_ancestors (st c x))) (ft_targets (tr c ti))) eqn:Hint.
  - intros [= <-]. apply andb_true_iff in Hint as [_ Hall]. exists g0. split; [exact Hg0|].
    now apply (forallb_mem_anc c W _ _ Hall).
  - destruct (find _ (rev (fs_ancestors (st c (ft_source (tr c ti)))))) as [a|] eqn:Hfind.
    + intros [= <-]. apply find_some in Hfind as [_ Hf]. apply andb_true_iff in Hf as [_ Hall].
      exists g0. split; [exact Hg0|]. now apply (forallb_mem_anc c W _ _ Hall).
    + intros [= <-]. exists g0. split; [exact Hg0|].
      destruct (wf_tr_targets c W ti g0 Hg0). now apply (anc_root c W).
Qed.

(* a non-empty exit interval: (S d, d + size d - 1) with d < d + size d - 1 *)
Lemma exit_interval_cases ti :
  exit_interval lg_fixed c (tr c ti) = (0, 0) \/
  exists d, exit_interval lg_fixed c (tr c ti) = (S d, d + fs_size (st c d) - 1) /\ S d <= d + fs_size (st c d) - 1.
Proof.
  unfold exit_interval. destruct (domain c (tr c ti)) as [d|] eqn:D; [|now left].
  right. exists d. cbn [lg_exit_overreach lg_fixed andb]. split; [reflexivity|].
  destruct (domain_has_target ti d D) as (g & _ & Ha).
  pose proof (anc_lt c W _ _ Ha) as [L1 L2].
  apply (wf_interval c W d g) in Ha; lia.
Qed.

Lemma core_not_pseudo i : is_pseudo (fs_type (st c i)) = false.
Proof. destruct (wf_types c W i) as [E|[E|[E|E]]]; rewrite E; reflexivity. Qed.

Lemma exit_static_core ti :
  exit_static c (tr c ti) =
  let '(f, s) := exit_interval lg_fixed c (tr c ti) in if f =? 0 then [] else seq f (S s - f).
Proof.
  unfold exit_static. destruct (exit_interval lg_fixed c (tr c ti)) as [f s]. destruct (f =? 0); [reflexivity|].
  apply filter_all. intros x _. unfold ptype. now rewrite core_not_pseudo.
Qed.

Lemma exit_static_conflicts i j :
  intersects (exit_static c (tr c i)) (exit_static c (tr c j)) = conflicts lg_fixed c (tr c i) (tr c j).
Proof.
  rewrite !exit_static_core. unfold conflicts.
  destruct (exit_interval_cases i) as [E1|(d1 & E1 & L1)]; rewrite E1;
    destruct (exit_interval_cases j) as [E2|(d2 & E2 & L2)]; rewrite E2; cbn [Nat.eqb negb andb]; try reflexivity.
  - apply intersects_false. intros x _ [].
  - apply Bool.eq_iff_eq_true. rewrite intersects_spec, orb_true_iff, !andb_true_iff, !Nat.leb_le. split.
    + intros (x & Hx1 & Hx2). apply in_seq in Hx1, Hx2. lia.
    + intros [[A B]|[A B]]; [exists (S d2) | exists (S d1)]; rewrite !in_seq; lia.
Qed.

Lemma conflict_static_core i j : conflict_static c (tr c i) (tr c j) = fconflicts c (tr c i) (tr c j).
Proof. unfold conflict_static, fconflicts. now rewrite exit_static_conflicts. Qed.
End Conflicts.

(* ================================================================== 3. REMEMBER_HISTORY ========= *)
Section History.
Variable pv : pml_variant.
Variable c : fchart.
Hypothesis Hcov : pv_hist_covered pv = false.

Lemma pcompl_plain i : pcompl pv c i = fs_completion (st c i).
Proof. unfold pcompl. rewrite Hcov. now rewrite andb_false_r. Qed.

Variable exitset : list nat.
Hypothesis Hroot : mem 0 exitset = false.

Lemma hist_guard i :
  is_hist (ptype c i) && mem (pparent c i) exitset =
  is_hist (fs_type (st c i)) && match fs_parent (st c i) with Some p => mem p exitset | None => false end.
Proof. unfold ptype, pparent. destruct (fs_parent (st c i)); [reflexivity|]. now rewrite Hroot. Qed.

Lemma p_history_fold l : forall s,
  let s' := fold_left (p_history_one pv c exitset) l s in
  p_hist s' =
    fold_left (fun h i => if is_hist (fs_type (st c i)) && match fs_parent (st c i) with Some p => mem p exitset | None => false end
                          then set_union (set_diff h (fs_completion (st c i))) (set_inter (fs_completion (st c i)) (p_cfg s))
                          else h) l (p_hist s) /\
  pcore s' = pcore s /\ pobs_list c (p_out s') = pobs_list c (p_out s).
Proof.
  induction l as [|i r IH]; intros s; cbn [fold_left]; [repeat split|].
  specialize (IH (p_history_one pv c exitset s i)). cbv zeta in IH. destruct IH as (I1 & I2 & I3).
  cbv zeta. rewrite I1, I2, I3. unfold p_history_one. rewrite hist_guard.
  destruct (is_hist (fs_type (st c i)) && _); [|repeat split].
  rewrite pcompl_plain. repeat split.
Qed.

Theorem pml_history_lemma s :
  let s' := p_remember pv c exitset s in
  p_hist s' = (if nonempty (p_cfg s) then fremember c (p_cfg s) exitset (p_hist s) else p_hist s) /\
  pcore s' = pcore s /\ pobs_list c (p_out s') = pobs_list c (p_out s).
Proof.
  unfold p_remember. cbn [out p_cfg]. destruct (nonempty (p_cfg s)); [|repeat split].
  destruct (p_history_fold (seq 0 (pn c)) (out PSaveHist s)) as (I1 & I2 & I3). cbv zeta in *.
  cbn [out p_hist]. rewrite I1. repeat split; assumption.
Qed.
End History.
