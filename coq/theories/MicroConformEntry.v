(* MicroConformEntry.v -- C01, microstep comparison, the entry set: on the history-free core the set of
   states LargeMicroStep enters (Large.entry_set minus the surviving configuration) is the set Appendix D
   enters (Spec.compute_entry_set: addDescendantStatesToEnter / addAncestorStatesToEnter), provided no
   target of a transition is a proper ancestor of another target of the same transition.  Proofs only. *)
From V Require Import Base NameMatch Chart Exec Large LargeLemmas Spec Legal SetLemmas LegalAbstract LegalLarge
  LargeCacheLemmas SelectConform SelectConformLemmas MicroConform.
Local Open Scope nat_scope.

Lemma me_In_addn x y l : In x (addn y l) <-> x = y \/ In x l.
Proof.
  unfold addn, add. destruct (existsb (Nat.eqb y) l) eqn:He.
  - apply existsb_exists in He as (z & Hz & Hyz). apply Nat.eqb_eq in Hyz. subst z. intuition (subst; auto).
  - rewrite in_app_iff. cbn. intuition.
Qed.

Section Entry.
Variable c : fchart.
Hypothesis W : WF c.
Variable cfg : list nat.
Variable sel : list nat.
Variable h : hv.
Let n := nstates c.
Notation par := (fun i => fs_parent (st c i)).
Notation ch := (fun i => fs_children (st c i)).
Notation kd := (fun i => fs_type (st c i)).
Notation Anc := (LegalAbstract.Anc (fun i => fs_parent (st c i))).

Hypothesis Hleg : Legal par ch kd (fun x => In x cfg).
Hypothesis Hbound : forall x, In x cfg -> x < n.
Hypothesis Hsel_src : forall ti, In ti sel -> In (ft_source (tr c ti)) cfg.
Hypothesis Hsel_ok : pairwise_ok lg_fixed c sel.
Hypothesis Hanti : forall ti g1 g2, In ti sel -> In g1 (ft_targets (tr c ti)) -> In g2 (ft_targets (tr c ti)) -> ~ Anc g1 g2.

(* ---- the core has no pseudo-states ---- *)

Lemma n_pos : 0 < n.
Proof. apply Hbound. exact (lg_root _ _ _ _ Hleg). Qed.

Lemma hist_false s : is_history_state c s = false.
Proof. unfold is_history_state, sty. destruct (wf_types c W s) as [H|[H|[H|H]]]; rewrite H; reflexivity. Qed.

Lemma child_states_core s : child_states c s = fs_children (st c s).
Proof.
  unfold child_states. apply filter_all. intros k _. unfold is_proper, sty.
  destruct (wf_types c W k) as [H|[H|[H|H]]]; rewrite H; reflexivity.
Qed.

Lemma initial_core s k : fs_completion (st c s) = [k] -> fst (initial_of c s) = [k].
Proof.
  intros Hc. unfold initial_of. rewrite Hc. unfold sty.
  destruct (wf_types c W k) as [H|[H|[H|H]]]; rewrite H; reflexivity.
Qed.

Lemma ancs_child k s : fs_parent (st c k) = Some s -> ancs c k (Some s) = [].
Proof.
  intros Hp. unfold ancs. destruct (Spec.n c) as [|m]; [reflexivity|]. cbn [proper_ancestors].
  rewrite Hp, Nat.eqb_refl. reflexivity.
Qed.

Lemma add_anc_child f k s e : fs_parent (st c k) = Some s -> add_ancestors c f h k (Some s) e = e.
Proof. intros Hp. destruct f as [|f]; [reflexivity|]. cbn [add_ancestors]. rewrite (ancs_child k s Hp). reflexivity. Qed.

(* ancestors strictly below [d] *)
Lemma In_ancs_upto d : forall fuel i a, i < fuel -> Anc d i ->
  (In a (proper_ancestors c fuel i (Some d)) <-> Anc a i /\ Anc d a).
Proof.
  induction fuel as [|f IH]; intros i a Hi Hd; [lia|]. cbn [proper_ancestors].
  inversion Hd as [? p Hp|? p ? Hp Hdp]; subst; rewrite Hp.
  - rewrite Nat.eqb_refl. split; [intros []|]. intros [Ha Hda].
    destruct (anc_child par _ _ _ Hp Ha) as [->|Hap]; [exact (anc_irrefl c W _ Hda) | exact (anc_irrefl c W _ (anc_trans c _ _ _ Hda Hap))].
  - destruct (wf_par_lt c W _ _ Hp) as [Hlt _].
    assert (Hne : p <> d) by (intros ->; exact (anc_irrefl c W _ Hdp)).
    replace (p =? d) with false by (symmetry; now apply Nat.eqb_neq). cbn [In].
    rewrite (IH p a ltac:(lia) Hdp). split.
    + intros [<-|[Ha Hda]]; [split; [now apply anc_parent | exact Hdp] | split; [eapply anc_step; eauto | exact Hda]].
    + intros [Ha Hda]. destruct (anc_child par _ _ _ Hp Ha) as [->|Hap]; [now left | right; tauto].
Qed.

Lemma is_desc_iff y k : y < n -> (is_descendant c y k = true <-> Anc k y).
Proof.
  intros Hy. split; [apply (is_descendant_anc c)|]. intros Ha. unfold is_descendant, ancs, Spec.n. apply mem_In.
  apply (ancs_complete c W); [exact Hy | exact Ha].
Qed.

(* ---- what justifies a state in Appendix D's statesToEnter ---- *)

Definition NT (p : nat) : Prop := forall ti g, In ti sel -> In g (ft_targets (tr c ti)) -> ~ Anc p g.

Definition Tup (x : nat) : Prop :=
  exists ti d g, In ti sel /\ domain c (tr c ti) = Some d /\ Anc d x /\ In g (ft_targets (tr c ti)) /\ (x = g \/ Anc x g).

Definition JustS (S : list nat) (x : nat) : Prop :=
  Tup x \/
  (exists p, par x = Some p /\ In p S /\ kd p = FParallel) \/
  (exists p, par x = Some p /\ In p S /\ kd p = FCompound /\ fs_completion (st c p) = [x] /\ NT p).

Definition SOUND (S : list nat) : Prop := forall x, In x S -> x < n /\ JustS S x.

Definition below (S : list nat) (k : nat) : Prop := In k S \/ exists y, In y S /\ Anc k y.

Definition PCLp (S : list nat) (p : nat) : Prop :=
  (kd p = FCompound -> exists k, In k (ch p) /\ below S k) /\
  (kd p = FParallel -> forall k, In k (ch p) -> below S k).

Definition PCLx (X : nat -> Prop) (S : list nat) : Prop := forall p, In p S -> ~ X p -> PCLp S p.

Record G (X : nat -> Prop) (e : eset) : Prop := {
  g_hc : e_histcontent e = [];
  g_sound : SOUND (e_enter e);
  g_pcl : PCLx X (e_enter e)
}.

Lemma JustS_mono S S' x : incl S S' -> JustS S x -> JustS S' x.
Proof.
  intros Hi [H|[(p & Hp & Hin & Hk)|(p & Hp & Hin & Hk)]]; [now left | right; left | right; right]; exists p; (split; [exact Hp|]); split; auto.
Qed.

Lemma below_mono S S' k : incl S S' -> below S k -> below S' k.
Proof. intros Hi [H|(y & Hy & Ha)]; [left; auto | right; exists y; auto]. Qed.

Lemma PCLp_mono S S' p : incl S S' -> PCLp S p -> PCLp S' p.
Proof.
  intros Hi [A B]. split.
  - intros Hk. destruct (A Hk) as (k & Hin & Hb). exists k. split; [exact Hin | eapply below_mono; eauto].
  - intros Hk k Hin. eapply below_mono; eauto.
Qed.

Lemma incl_addn s S : incl S (addn s S).
Proof. intros x Hx. apply me_In_addn. now right. Qed.

(* adding one justified state *)
Lemma G_add X e s dflt : G X e -> s < n -> JustS (e_enter e) s ->
  G (fun p => X p \/ p = s) {| e_enter := addn s (e_enter e); e_default := dflt; e_histcontent := e_histcontent e |}.
Proof.
  intros [Hh Hs Hp] Hsn Hj. constructor; cbn [e_enter e_histcontent].
  - exact Hh.
  - intros x Hx. apply me_In_addn in Hx as [->|Hx].
    + split; [exact Hsn | eapply JustS_mono; [apply incl_addn | exact Hj]].
    + destruct (Hs x Hx) as [A B]. split; [exact A | eapply JustS_mono; [apply incl_addn | exact B]].
  - intros p Hin Hx. apply me_In_addn in Hin as [->|Hin]; [exfalso; apply Hx; now right|].
    eapply PCLp_mono; [apply incl_addn|]. apply Hp; [exact Hin | intros HX; apply Hx; now left].
Qed.

Lemma G_close X e s : G (fun p => X p \/ p = s) e -> PCLp (e_enter e) s -> G X e.
Proof.
  intros [Hh Hs Hp] Hc. constructor; [exact Hh | exact Hs|].
  intros p Hin Hx. destruct (Nat.eq_dec p s) as [->|Hne]; [exact Hc|].
  apply Hp; [exact Hin | intros [HX|He]; [now apply Hx | now apply Hne]].
Qed.

Lemma G_default X e d : G X e -> G X {| e_enter := e_enter e; e_default := d; e_histcontent := e_histcontent e |}.
Proof. intros [A B C]. constructor; assumption. Qed.

(* ---- addDescendantStatesToEnter ---- *)

Definition AD_spec (f : nat) : Prop :=
  forall s e X, n - s < f -> s < n -> G X e -> JustS (e_enter e) s -> NT s ->
    G X (add_descendants c f h s e) /\ incl (e_enter e) (e_enter (add_descendants c f h s e)) /\
    In s (e_enter (add_descendants c f h s e)).

Lemma kids_loop f (IH : AD_spec f) p X S0 l :
  kd p = FParallel -> n - p <= f ->
  (forall k, In k l -> In k (ch p)) ->
  (forall k e1, In k l -> incl S0 (e_enter e1) -> some_descendant_of c (e_enter e1) k = false -> NT k) ->
  forall e1, G X e1 -> In p (e_enter e1) -> incl S0 (e_enter e1) ->
  let e' := fold_left (fun e k => if some_descendant_of c (e_enter e) k then e else add_descendants c f h k e) l e1 in
  G X e' /\ incl (e_enter e1) (e_enter e') /\ forall k, In k l -> below (e_enter e') k.
Proof.
  intros Hk Hf. induction l as [|k r IHl]; intros Hch Hnt e1 HG Hp H0; cbn [fold_left].
  - split; [exact HG|]. split; [apply incl_refl | intros k []].
  - assert (Hkc : In k (ch p)) by (apply Hch; now left).
    assert (Hpk : par k = Some p) by now apply (wf_children c W).
    destruct (wf_par_lt c W _ _ Hpk) as [Hlt Hkn]. fold n in Hkn.
    destruct (some_descendant_of c (e_enter e1) k) eqn:Hsd.
    + destruct (IHl (fun z Hz => Hch z (or_intror Hz)) (fun z e2 Hz => Hnt z e2 (or_intror Hz)) e1 HG Hp H0) as (A & B & C).
      split; [exact A|]. split; [exact B|]. intros z [<-|Hz]; [|now apply C].
      unfold some_descendant_of in Hsd. apply existsb_exists in Hsd as (y & Hy & Hd). apply (is_descendant_anc c) in Hd.
      right. exists y. split; [now apply B | exact Hd].
    + destruct (IH k e1 X ltac:(lia) Hkn HG) as (A1 & B1 & C1).
      { right. left. exists p. auto. }
      { exact (Hnt k e1 (or_introl eq_refl) H0 Hsd). }
      destruct (IHl (fun z Hz => Hch z (or_intror Hz)) (fun z e2 Hz => Hnt z e2 (or_intror Hz))
                    (add_descendants c f h k e1) A1 (B1 _ Hp) (fun z Hz => B1 _ (H0 z Hz))) as (A & B & C).
      split; [exact A|]. split; [intros z Hz; apply B, B1, Hz|].
      intros z [<-|Hz]; [left; now apply B | now apply C].
Qed.

Lemma AD : forall f, AD_spec f.
Proof.
  induction f as [|f IH]; intros s e X Hf Hs HG Hj Hnt; [lia|].
  cbn [add_descendants]. rewrite hist_false.
  set (e0 := {| e_enter := addn s (e_enter e); e_default := e_default e; e_histcontent := e_histcontent e |}).
  pose proof (G_add X e s (e_default e) HG Hs Hj) as HG0. fold e0 in HG0.
  assert (Hs0 : In s (e_enter e0)) by (apply me_In_addn; now left).
  assert (Hi0 : incl (e_enter e) (e_enter e0)) by apply incl_addn.
  unfold is_compound_state, is_parallel_state, sty.
  destruct (wf_types c W s) as [Ht|[Ht|[Ht|Ht]]]; rewrite Ht.
  - split; [|split; [exact Hi0 | exact Hs0]]. apply (G_close X e0 s HG0). split; intros Hk; cbn beta in Hk; congruence.
  - (* compound *)
    destruct (wf_compound c W s Ht) as (k & Hc & Hkin). rewrite (initial_core s k Hc). cbn [fold_left].
    assert (Hpk : par k = Some s) by now apply (wf_children c W).
    destruct (wf_par_lt c W _ _ Hpk) as [Hlt Hkn]. fold n in Hkn.
    rewrite add_anc_child by exact Hpk.
    set (e1 := {| e_enter := e_enter e0; e_default := addn s (e_default e0); e_histcontent := e_histcontent e0 |}).
    destruct (IH k e1 (fun p => X p \/ p = s) ltac:(lia) Hkn (G_default _ e0 _ HG0)) as (A & B & C).
    { right. right. exists s. cbn [e_enter e1]. auto 6. }
    { intros ti g Hti Hg Ha. apply (Hnt ti g Hti Hg). eapply anc_trans; [apply anc_parent; exact Hpk | exact Ha]. }
    split; [|split; [intros z Hz; apply B; cbn [e_enter e1]; now apply Hi0 | apply B; exact Hs0]].
    apply (G_close X _ s A). split; intros Hk; cbn beta in Hk; [|congruence].
    exists k. split; [exact Hkin | now left].
  - (* parallel *)
    rewrite child_states_core.
    destruct (kids_loop f IH s (fun p => X p \/ p = s) (e_enter e0) (fs_children (st c s)) Ht ltac:(lia)
                (fun k Hk => Hk)
                (fun k e1 Hk _ _ ti g Hti Hg Ha =>
                   Hnt ti g Hti Hg (anc_trans c _ _ _ (anc_parent par _ _ (proj1 (wf_children c W s k) Hk)) Ha))
                e0 HG0 Hs0 (incl_refl _)) as (A & B & C).
    split; [|split; [intros z Hz; now apply B, Hi0 | now apply B]].
    apply (G_close X _ s A). split; intros Hk; cbn beta in Hk; [congruence|]. exact C.
  - split; [|split; [exact Hi0 | exact Hs0]]. apply (G_close X e0 s HG0). split; intros Hk; cbn beta in Hk; congruence.
Qed.

(* ---- addAncestorStatesToEnter ---- *)

Lemma anc_first_child a s : Anc a s -> exists k, par k = Some a /\ (k = s \/ Anc k s).
Proof.
  induction 1 as [i p Hp|i p a Hp Ha IH].
  - exists i. split; [exact Hp | now left].
  - destruct IH as (k & Hk & Hks). exists k. split; [exact Hk|]. right.
    destruct Hks as [Hkp|Hks]; [subst k; now apply anc_parent | eapply anc_step; eauto].
Qed.

Lemma AA f s d e X : n < f -> s < n -> Anc d s -> In s (e_enter e) -> G X e ->
  (forall a, Anc a s -> Anc d a -> Tup a) ->
  (forall tj g, In tj sel -> In g (ft_targets (tr c tj)) -> Anc d g -> In g (e_enter e)) ->
  G X (add_ancestors c f h s (Some d) e) /\ incl (e_enter e) (e_enter (add_ancestors c f h s (Some d) e)) /\
  forall a, Anc a s -> Anc d a -> In a (e_enter (add_ancestors c f h s (Some d) e)).
Proof.
  intros Hf Hs Hds Hse HG Hup Hall. destruct f as [|f]; [lia|]. cbn [add_ancestors].
  assert (HL : forall a, In a (ancs c s (Some d)) <-> Anc a s /\ Anc d a).
  { intros a. unfold ancs, Spec.n. apply In_ancs_upto; assumption. }
  assert (Hloop : forall l e1, (forall a, In a l -> Anc a s /\ Anc d a) -> G X e1 -> incl (e_enter e) (e_enter e1) ->
     let e' := fold_left
          (fun e anc =>
             let e0 := {| e_enter := addn anc (e_enter e); e_default := e_default e; e_histcontent := e_histcontent e |} in
             if is_parallel_state c anc then
               fold_left (fun e k => if some_descendant_of c (e_enter e) k then e else add_descendants c f h k e)
                         (child_states c anc) e0
             else e0) l e1 in
     G X e' /\ incl (e_enter e1) (e_enter e') /\ forall a, In a l -> In a (e_enter e')).
  { induction l as [|a r IHl]; intros e1 Hl HG1 Hi1; cbn [fold_left].
    - split; [exact HG1|]. split; [apply incl_refl | intros a []].
    - destruct (Hl a (or_introl eq_refl)) as [Has Hda].
      pose proof (anc_lt c W _ _ Has) as [Halt _].
      assert (Han : a < n) by (unfold n in *; lia).
      set (e0 := {| e_enter := addn a (e_enter e1); e_default := e_default e1; e_histcontent := e_histcontent e1 |}).
      pose proof (G_add X e1 a (e_default e1) HG1 Han (or_introl (Hup a Has Hda))) as HG0. fold e0 in HG0.
      assert (Ha0 : In a (e_enter e0)) by (apply me_In_addn; now left).
      assert (Hi0 : incl (e_enter e1) (e_enter e0)) by apply incl_addn.
      assert (Hcont : forall e2, G X e2 -> incl (e_enter e0) (e_enter e2) ->
                let e' := fold_left
                  (fun e anc =>
                     let e0 := {| e_enter := addn anc (e_enter e); e_default := e_default e; e_histcontent := e_histcontent e |} in
                     if is_parallel_state c anc then
                       fold_left (fun e k => if some_descendant_of c (e_enter e) k then e else add_descendants c f h k e)
                                 (child_states c anc) e0
                     else e0) r e2 in
                G X e' /\ incl (e_enter e1) (e_enter e') /\ forall z, In z (a :: r) -> In z (e_enter e')).
      { intros e2 HG2 Hi2.
        destruct (IHl e2 (fun z Hz => Hl z (or_intror Hz)) HG2 (fun z Hz => Hi2 z (Hi0 z (Hi1 z Hz)))) as (A & B & C).
        split; [exact A|]. split; [intros z Hz; apply B, Hi2, Hi0, Hz|].
        intros z [<-|Hz]; [apply B, Hi2, Ha0 | now apply C]. }
      destruct (anc_first_child a s Has) as (k0 & Hk0 & Hk0s).
      assert (Hbel : below (e_enter e0) k0).
      { destruct Hk0s as [->|Hk0s]; [left; apply Hi0, Hi1, Hse | right; exists s; split; [apply Hi0, Hi1, Hse | exact Hk0s]]. }
      unfold is_parallel_state, sty.
      destruct (wf_types c W a) as [Ht|[Ht|[Ht|Ht]]]; rewrite Ht.
      + apply Hcont; [|apply incl_refl]. apply (G_close X e0 a HG0). split; intros Hk; cbn beta in Hk; congruence.
      + apply Hcont; [|apply incl_refl]. apply (G_close X e0 a HG0). split; intros Hk; cbn beta in Hk; [|congruence].
        exists k0. split; [now apply (wf_children c W) | exact Hbel].
      + rewrite child_states_core.
        destruct (kids_loop f (AD f) a (fun p => X p \/ p = a) (e_enter e) (fs_children (st c a)) Ht ltac:(unfold n in *; lia)
                    (fun k Hk => Hk)) with (e1 := e0) as (A & B & C).
        * intros k e2 Hk Hi2 Hsd tj g Htj Hg Hkg.
          assert (Hpk : par k = Some a) by now apply (wf_children c W).
          assert (Hdg : Anc d g) by (eapply anc_trans; [exact Hda|]; eapply anc_trans; [apply anc_parent; exact Hpk | exact Hkg]).
          pose proof (Hi2 g (Hall tj g Htj Hg Hdg)) as Hgin.
          assert (Hgn : g < n) by (destruct (wf_tr_targets c W tj g Hg); assumption).
          assert (some_descendant_of c (e_enter e2) k = true); [|congruence].
          apply existsb_exists. exists g. split; [exact Hgin | now apply is_desc_iff].
        * exact HG0.
        * exact Ha0.
        * intros z Hz. apply Hi0, Hi1, Hz.
        * apply Hcont; [|exact B]. apply (G_close X _ a A). split; intros Hk; cbn beta in Hk; [congruence | exact C].
      + apply Hcont; [|apply incl_refl]. apply (G_close X e0 a HG0). split; intros Hk; cbn beta in Hk; congruence. }
  destruct (Hloop (ancs c s (Some d)) e (fun a Ha => proj1 (HL a) Ha) HG (incl_refl _)) as (A & B & C).
  split; [exact A|]. split; [exact B|]. intros a Has Hda. apply C. apply HL. tauto.
Qed.

(* ---- computeEntrySet ---- *)

Hypothesis Hdom : forall ti, In ti sel -> transition_domain c h (tr c ti) = domain c (tr c ti).

Lemma eff_core tg x : In x (eff_targets c (Spec.n c) h tg) <-> In x tg.
Proof.
  unfold Spec.n. pose proof n_pos as Hn. unfold n in Hn. destruct (nstates c) as [|m]; [lia|]. cbn [eff_targets].
  assert (Hg : forall l acc, In x (fold_left (fun acc0 s => if is_history_state c s
                                     then match hv_get h s with
                                          | Some v => unionn acc0 v
                                          | None => match pseudo_trans c s with
                                                    | Some t => unionn acc0 (eff_targets c m h (ft_targets t))
                                                    | None => acc0
                                                    end
                                          end
                                     else addn s acc0) l acc) <-> In x acc \/ In x l).
  { induction l as [|y l IH]; intros acc; cbn [fold_left]; [cbn; tauto|].
    rewrite hist_false, IH, me_In_addn. cbn [In]. intuition. }
  rewrite Hg. cbn [In]. tauto.
Qed.

Lemma other_target_not_below ti tj d g' : In ti sel -> In tj sel -> ti <> tj ->
  domain c (tr c ti) = Some d -> In g' (ft_targets (tr c tj)) -> ~ Anc d g'.
Proof.
  intros Hti Htj Hne Hd Hg Ha.
  destruct (target_below_domain c W cfg sel Hbound Hsel_src tj g' Htj Hg) as (dj & Hdj & Haj).
  destruct (Dm_unrelated c W cfg sel Hleg Hbound Hsel_src Hsel_ok ti tj d dj Hti Htj Hne Hd Hdj) as (A & B & C).
  destruct (anc_chain c d dj g' Ha Haj) as [E|[E|E]]; auto.
Qed.

Lemma target_NT ti g : In ti sel -> In g (ft_targets (tr c ti)) -> NT g.
Proof.
  intros Hti Hg tj g' Htj Hg' Ha. destruct (Nat.eq_dec tj ti) as [->|Hne]; [exact (Hanti ti g g' Hti Hg Hg' Ha)|].
  destruct (target_below_domain c W cfg sel Hbound Hsel_src ti g Hti Hg) as (d & Hd & Hdg).
  apply (other_target_not_below ti tj d g' Hti Htj (fun E => Hne (eq_sym E)) Hd Hg'). eapply anc_trans; eauto.
Qed.

Definition TupT (ti x : nat) : Prop :=
  exists d g, domain c (tr c ti) = Some d /\ Anc d x /\ In g (ft_targets (tr c ti)) /\ (x = g \/ Anc x g).

Definition estep (e : eset) (ti : nat) : eset :=
       let t := tr c ti in
       let e1 := fold_left (fun e s => add_descendants c (spec_fuel c) h s e) (ft_targets t) e in
       let anc := transition_domain c h t in
       fold_left (fun e s => add_ancestors c (spec_fuel c) h s anc e) (eff_targets c (Spec.n c) h (ft_targets t)) e1.

Notation NoX := (fun _ : nat => False).

Lemma estep_ok ti e : In ti sel -> G NoX e ->
  G NoX (estep e ti) /\ incl (e_enter e) (e_enter (estep e ti)) /\ forall x, TupT ti x -> In x (e_enter (estep e ti)).
Proof.
  intros Hti HG. unfold estep. cbn zeta. rewrite (Hdom ti Hti).
  set (tg := ft_targets (tr c ti)).
  assert (Hfuel : n < spec_fuel c) by (unfold spec_fuel, Spec.n, n; lia).
  (* phase 1 *)
  assert (P1 : forall l e1, (forall g, In g l -> In g tg) -> G NoX e1 ->
             let e' := fold_left (fun e s => add_descendants c (spec_fuel c) h s e) l e1 in
             G NoX e' /\ incl (e_enter e1) (e_enter e') /\ forall g, In g l -> In g (e_enter e')).
  { induction l as [|g r IHl]; intros e1 Hl HG1; cbn [fold_left].
    - split; [exact HG1|]. split; [apply incl_refl | intros g []].
    - assert (Hg : In g tg) by (apply Hl; now left).
      destruct (wf_tr_targets c W ti g Hg) as [_ Hgn]. fold n in Hgn.
      destruct (target_below_domain c W cfg sel Hbound Hsel_src ti g Hti Hg) as (d & Hd & Hdg).
      destruct (AD (spec_fuel c) g e1 NoX ltac:(lia) Hgn HG1) as (A1 & B1 & C1).
      { left. exists ti, d, g. auto 6. }
      { exact (target_NT ti g Hti Hg). }
      destruct (IHl (add_descendants c (spec_fuel c) h g e1) (fun z Hz => Hl z (or_intror Hz)) A1) as (A & B & C).
      split; [exact A|]. split; [intros z Hz; apply B, B1, Hz|].
      intros z [<-|Hz]; [now apply B | now apply C]. }
  destruct (P1 tg e (fun g Hg => Hg) HG) as (A1 & B1 & C1).
  set (e1 := fold_left (fun e s => add_descendants c (spec_fuel c) h s e) tg e) in *.
  destruct tg as [|g0 tg'] eqn:Htg.
  { (* no targets: nothing is entered *)
    assert (He : eff_targets c (Spec.n c) h [] = []).
    { destruct (eff_targets c (Spec.n c) h []) as [|y l] eqn:E; [reflexivity|].
      exfalso. apply (proj1 (eff_core [] y)). rewrite E. now left. }
    rewrite He. cbn [fold_left]. split; [exact A1|]. split; [exact B1|].
    intros x (d & g & _ & _ & Hg & _). unfold tg in Htg. rewrite Htg in Hg. destruct Hg. }
  rewrite <- Htg in *.
  destruct (domain_some c ti) as (d & Hd); [fold tg; rewrite Htg; discriminate|]. rewrite Hd.
  (* phase 2 *)
  assert (P2 : forall l e2, (forall s, In s l -> In s tg) -> G NoX e2 -> incl (e_enter e1) (e_enter e2) ->
             let e' := fold_left (fun e s => add_ancestors c (spec_fuel c) h s (Some d) e) l e2 in
             G NoX e' /\ incl (e_enter e2) (e_enter e') /\
             forall s a, In s l -> Anc a s -> Anc d a -> In a (e_enter e')).
  { induction l as [|s r IHl]; intros e2 Hl HG2 Hi2; cbn [fold_left].
    - split; [exact HG2|]. split; [apply incl_refl | intros s a []].
    - assert (Hs : In s tg) by (apply Hl; now left).
      destruct (wf_tr_targets c W ti s Hs) as [_ Hsn]. fold n in Hsn.
      destruct (target_below_domain c W cfg sel Hbound Hsel_src ti s Hti Hs) as (d' & Hd' & Hds).
      fold tg in Hd'. assert (d' = d) by congruence. subst d'.
      destruct (AA (spec_fuel c) s d e2 NoX Hfuel Hsn Hds (Hi2 _ (C1 s Hs)) HG2) as (A & B & C).
      { intros a Has Hda. exists ti, d, s. auto 6. }
      { intros tj g Htj Hg Hdg. destruct (Nat.eq_dec tj ti) as [->|Hne]; [apply Hi2, C1, Hg|].
        exfalso. exact (other_target_not_below ti tj d g Hti Htj (fun E => Hne (eq_sym E)) Hd Hg Hdg). }
      destruct (IHl (add_ancestors c (spec_fuel c) h s (Some d) e2) (fun z Hz => Hl z (or_intror Hz)) A (fun z Hz => B z (Hi2 z Hz))) as (A' & B' & C').
      split; [exact A'|]. split; [intros z Hz; apply B', B, Hz|].
      intros s' a [<-|Hs'] Has Hda; [apply B'; now apply C | now apply (C' s' a)]. }
  destruct (P2 (eff_targets c (Spec.n c) h tg) e1 (fun s Hs => proj1 (eff_core tg s) Hs) A1 (incl_refl _)) as (A2 & B2 & C2).
  split; [exact A2|]. split; [intros z Hz; apply B2, B1, Hz|].
  intros x (d' & g & Hd' & Hdx & Hg & Hx). fold tg in Hg. assert (d' = d) by congruence. subst d'.
  destruct Hx as [->|Hxg]; [apply B2, C1, Hg|]. apply (C2 g x); [now apply eff_core | exact Hxg | exact Hdx].
Qed.

Lemma compute_entry_set_fold : compute_entry_set c h sel =
  fold_left estep sel {| e_enter := []; e_default := []; e_histcontent := [] |}.
Proof. reflexivity. Qed.

Lemma spec_entry_ok :
  G NoX (compute_entry_set c h sel) /\ forall x, Tup x -> In x (e_enter (compute_entry_set c h sel)).
Proof.
  rewrite compute_entry_set_fold.
  assert (Hl : forall l e1, (forall ti, In ti l -> In ti sel) -> G NoX e1 ->
             G NoX (fold_left estep l e1) /\ incl (e_enter e1) (e_enter (fold_left estep l e1)) /\
             forall ti x, In ti l -> TupT ti x -> In x (e_enter (fold_left estep l e1))).
  { induction l as [|ti r IHl]; intros e1 Hin HG1; cbn [fold_left].
    - split; [exact HG1|]. split; [apply incl_refl | intros ti x []].
    - destruct (estep_ok ti e1 (Hin ti (or_introl eq_refl)) HG1) as (A1 & B1 & C1).
      destruct (IHl (estep e1 ti) (fun z Hz => Hin z (or_intror Hz)) A1) as (A & B & C).
      split; [exact A|]. split; [intros z Hz; apply B, B1, Hz|].
      intros tj x [<-|Htj] Hx; [apply B; now apply C1 | now apply (C tj)]. }
  destruct (Hl sel {| e_enter := []; e_default := []; e_histcontent := [] |} (fun ti H => H)) as (A & _ & C).
  { constructor; [reflexivity | intros x [] | intros p []]. }
  split; [exact A|]. intros x (ti & d & g & Hti & Hd & Hdx & Hg & Hx). apply (C ti x Hti). exists d, g. auto.
Qed.

(* ---- the two entry sets are the same set ---- *)

Variable hist : list nat.
Notation S := (e_enter (compute_entry_set c h sel)).
Notation EF := (Efs c cfg sel hist).
Notation XS := (exitset c cfg sel).
Definition Surv (x : nat) : Prop := In x cfg /\ ~ In x XS.
Notation IF := (InvF c W cfg sel hist).

Lemma S_sound : SOUND S.
Proof. exact (g_sound _ _ (proj1 spec_entry_ok)). Qed.

Lemma S_below : forall x, In x S -> exists d, Dm c sel d /\ Anc d x.
Proof.
  induction x as [x IH] using lt_wf_ind. intros Hx.
  destruct (S_sound x Hx) as [_ [(ti & d & g & Hti & Hd & Hdx & _)|[(p & Hp & Hin & _)|(p & Hp & Hin & _)]]].
  - exists d. split; [exists ti; tauto | exact Hdx].
  - destruct (wf_par_lt c W _ _ Hp) as [Hlt _]. destruct (IH p Hlt Hin) as (d & HD & Ha).
    exists d. split; [exact HD | eapply anc_step; eauto].
  - destruct (wf_par_lt c W _ _ Hp) as [Hlt _]. destruct (IH p Hlt Hin) as (d & HD & Ha).
    exists d. split; [exact HD | eapply anc_step; eauto].
Qed.

Lemma S_not_surv x : In x S -> ~ Surv x.
Proof.
  intros Hx [Hc Hn]. apply Hn. apply (In_exitset c W cfg sel Hleg Hbound Hsel_src). split; [exact Hc | now apply S_below].
Qed.

(* two domains are never nested *)
Lemma Dm_not_nested d d' : Dm c sel d -> Dm c sel d' -> ~ Anc d' d.
Proof.
  intros (ti & Hti & Hd) (tj & Htj & Hd') Ha. destruct (Nat.eq_dec ti tj) as [->|Hne].
  - assert (d = d') by congruence. subst. exact (anc_irrefl c W _ Ha).
  - destruct (Dm_unrelated c W cfg sel Hleg Hbound Hsel_src Hsel_ok ti tj d d' Hti Htj Hne Hd Hd') as (_ & _ & B). now apply B.
Qed.

Lemma S_up : forall y, In y S -> forall k p, Anc k y -> par k = Some p -> In p S -> In k S.
Proof.
  induction y as [y IH] using lt_wf_ind. intros Hy k p Hky Hpk Hp.
  destruct (S_sound y Hy) as [_ [(ti & d & g & Hti & Hd & Hdy & Hg & Hyg)|[(q & Hq & Hin & _)|(q & Hq & Hin & _)]]].
  - assert (Hkg : Anc k g) by (destruct Hyg as [<-|Hyg]; [exact Hky | eapply anc_trans; eauto]).
    destruct (anc_chain c d k y Hdy Hky) as [E|[E|E]].
    + exfalso. subst k. destruct (S_below p Hp) as (d' & HD' & Ha').
      apply (Dm_not_nested d d' (ex_intro _ ti (conj Hti Hd)) HD'). eapply anc_trans; [exact Ha' | now apply anc_parent].
    + apply (proj2 spec_entry_ok). exists ti, d, g. auto 6.
    + exfalso. destruct (S_below p Hp) as (d' & HD' & Ha').
      apply (Dm_not_nested d d' (ex_intro _ ti (conj Hti Hd)) HD').
      eapply anc_trans; [exact Ha'|]. eapply anc_trans; [apply anc_parent; exact Hpk | exact E].
  - destruct (anc_child par _ _ _ Hq Hky) as [->|Hkq]; [exact Hin|].
    destruct (wf_par_lt c W _ _ Hq) as [Hlt _]. exact (IH q Hlt Hin k p Hkq Hpk Hp).
  - destruct (anc_child par _ _ _ Hq Hky) as [->|Hkq]; [exact Hin|].
    destruct (wf_par_lt c W _ _ Hq) as [Hlt _]. exact (IH q Hlt Hin k p Hkq Hpk Hp).
Qed.

Lemma S_below_in p k : In p S -> In k (ch p) -> below S k -> In k S.
Proof.
  intros Hp Hk [H|(y & Hy & Ha)]; [exact H|]. apply (S_up y Hy k p Ha); [now apply (wf_children c W) | exact Hp].
Qed.

Lemma S_closed p : In p S ->
  (kd p = FParallel -> forall k, In k (ch p) -> In k S) /\
  (kd p = FCompound -> exists k, In k (ch p) /\ In k S).
Proof.
  intros Hp. destruct (g_pcl _ _ (proj1 spec_entry_ok) p Hp (fun F => F)) as [A B]. split.
  - intros Hk k Hin. apply (S_below_in p k Hp Hin). now apply B.
  - intros Hk. destruct (A Hk) as (k & Hin & Hb). exists k. split; [exact Hin | now apply (S_below_in p k Hp Hin)].
Qed.

Lemma Tup_E0 x : Tup x -> In x (E0 c (targets c sel)).
Proof.
  intros (ti & d & g & Hti & _ & _ & Hg & Hx). apply (In_E0 c W). exists g. split; [|exact Hx].
  apply In_targets. exists ti. tauto.
Qed.

Lemma S_in_EF : forall x, In x S -> In x EF.
Proof.
  induction x as [x IH] using lt_wf_ind. intros Hx.
  destruct (S_sound x Hx) as [_ [HT|[(p & Hp & Hin & Hk)|(p & Hp & Hin & Hk & Hc & Hnt)]]].
  - apply (inv_base _ _ _ _ _ _ IF). now apply Tup_E0.
  - destruct (wf_par_lt c W _ _ Hp) as [Hlt _]. pose proof (IH p Hlt Hin) as Hpe.
    apply (proj1 (inv_done _ _ _ _ _ _ IF p (inv_bound _ _ _ _ _ _ IF p Hpe) Hpe) Hk). now apply (wf_children c W).
  - destruct (wf_par_lt c W _ _ Hp) as [Hlt _]. pose proof (IH p Hlt Hin) as Hpe.
    destruct (proj2 (inv_done _ _ _ _ _ _ IF p (inv_bound _ _ _ _ _ _ IF p Hpe) Hpe) Hk) as (k & Hkin & [Hke|[Hkc Hkx]]).
    + assert (Hpk : par k = Some p) by now apply (wf_children c W).
      destruct (inv_added _ _ _ _ _ _ IF k Hke) as [H0|(p' & Hp' & _ & _ & Ha)].
      * exfalso. apply (In_E0 c W) in H0 as (g & Hg & Hkg). apply In_targets in Hg as (ti & Hti & Hg).
        apply (Hnt ti g Hti Hg). destruct Hkg as [<-|Hkg]; [now apply anc_parent | eapply anc_trans; [apply anc_parent; exact Hpk | exact Hkg]].
      * cbn beta in Hp'. rewrite Hpk in Hp'. injection Hp' as <-.
        destruct Ha as [[Hpar _]|(_ & Hc' & _)]; [cbn beta in *; congruence|].
        rewrite Hc in Hc'. injection Hc' as <-. exact Hke.
    + exfalso. apply Hkx. apply (In_exitset c W cfg sel Hleg Hbound Hsel_src). split; [exact Hkc|].
      destruct (S_below p Hin) as (d & HD & Ha). exists d. split; [exact HD|].
      eapply anc_trans; [exact Ha | apply anc_parent; now apply (wf_children c W)].
Qed.

Lemma EF_in_S : forall x, In x EF -> ~ Surv x -> In x S.
Proof.
  induction x as [x IH] using lt_wf_ind. intros Hx Hns.
  assert (Hbel : exists d', Dm c sel d' /\ Anc d' x).
  { destruct (hE5 c W cfg sel Hleg Hbound Hsel_src Hsel_ok hist x Hx) as [H|H]; [contradiction | exact H]. }
  destruct Hbel as (d' & HD' & Hd'x).
  destruct (inv_added _ _ _ _ _ _ IF x Hx) as [H0|(p & Hp & _ & Hpe & Ha)].
  - apply (In_E0 c W) in H0 as (g & Hg & Hxg). apply In_targets in Hg as (ti & Hti & Hg).
    destruct (target_below_domain c W cfg sel Hbound Hsel_src ti g Hti Hg) as (d & Hd & Hdg).
    apply (proj2 spec_entry_ok). exists ti, d, g. split; [exact Hti|]. split; [exact Hd|]. split; [|tauto].
    destruct Hxg as [->|Hxg]; [exact Hdg|].
    destruct (anc_chain c d x g Hdg Hxg) as [E|[E|E]]; [|exact E|].
    + exfalso. subst x. exact (Dm_not_nested d d' (ex_intro _ ti (conj Hti Hd)) HD' Hd'x).
    + exfalso. apply (Dm_not_nested d d' (ex_intro _ ti (conj Hti Hd)) HD'). eapply anc_trans; eauto.
  - cbn beta in Hp. assert (Hxin : In x (ch p)) by now apply (wf_children c W).
    destruct (wf_par_lt c W _ _ Hp) as [Hlt _].
    assert (Hnsp : ~ Surv p).
    { intros [Hpc Hpx]. destruct (anc_child par _ _ _ Hp Hd'x) as [->|Hdp].
      - (* p is a domain *)
        destruct HD' as (ti & Hti & Hd).
        destruct Ha as [[Hk _]|(Hk & Hc & Hnb)].
        + destruct (Dm_facts c W cfg sel Hleg Hbound Hsel_src p (ex_intro _ ti (conj Hti Hd))) as (_ & [Hkc| ->] & _);
            [cbn beta in *; congruence | exact (wf_root_type c W Hk)].
        + apply Hnb.
          destruct (domain_spec c W ti p (Hbound _ (Hsel_src ti Hti)) Hd) as (Hne & _ & Htg & _).
          destruct (ft_targets (tr c ti)) as [|g gs] eqn:E; [congruence|].
          assert (Hpg : Anc p g) by (apply Htg; now left).
          destruct (anc_first_child p g Hpg) as (k & Hk0 & Hkg).
          exists k. split; [now apply (wf_children c W)|]. left. apply (In_E0 c W). exists g. split; [|exact Hkg].
          apply In_targets. exists ti. rewrite E. split; [exact Hti | now left].
      - apply Hpx. apply (In_exitset c W cfg sel Hleg Hbound Hsel_src). split; [exact Hpc|]. exists d'. tauto. }
    pose proof (IH p Hlt Hpe Hnsp) as Hps.
    destruct (S_closed p Hps) as [CP CC].
    destruct Ha as [[Hk _]|(Hk & Hc & Hnb)]; [now apply CP|].
    destruct (CC Hk) as (k & Hkin & Hks).
    assert (Hpk : par k = Some p) by now apply (wf_children c W).
    destruct (S_sound k Hks) as [_ [HT|[(q & Hq & _ & Hkq)|(q & Hq & _ & _ & Hcq & _)]]].
    + exfalso. apply Hnb. exists k. split; [exact Hkin|]. left. now apply Tup_E0.
    + exfalso. cbn beta in Hq. rewrite Hpk in Hq. injection Hq as <-. cbn beta in *. congruence.
    + cbn beta in Hq. rewrite Hpk in Hq. injection Hq as <-. rewrite Hc in Hcq. injection Hcq as <-. exact Hks.
Qed.

Theorem entry_set_conforms_sec :
  e_histcontent (compute_entry_set c h sel) = [] /\
  forall x, In x S <-> In x EF /\ ~ Surv x.
Proof.
  split; [exact (g_hc _ _ (proj1 spec_entry_ok))|]. intros x. split.
  - intros Hx. split; [now apply S_in_EF | now apply S_not_surv].
  - intros [A B]. now apply EF_in_S.
Qed.

End Entry.
