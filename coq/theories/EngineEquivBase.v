(* EngineEquivBase.v -- C03 (the two micro-step engines are interchangeable): list and tree facts used by
   the comparison of Fast.v (FastMicroStep::step) with Large.v (LargeMicroStep::step).  Proofs only. *)
From V Require Import Base NameMatch Chart Exec Large LargeLemmas Fast Legal SetLemmas LegalAbstract LegalLarge
  LegalRun WfCore LargeCacheLemmas SelectConform SelectConformLemmas.
Local Open Scope nat_scope.

(* ------------------------------------------------------------------ ascending lists as sets *)

Lemma ee_insert_in x l : ssorted l -> In x l -> insert_sorted x l = l.
Proof.
  induction l as [|y r IH]; intros Hs Hin; [destruct Hin|]. cbn [ssorted] in Hs. destruct Hs as [H1 H2].
  cbn [insert_sorted]. destruct Hin as [->|Hin].
  - rewrite Nat.ltb_irrefl, Nat.eqb_refl. reflexivity.
  - specialize (H1 x Hin).
    replace (x <? y) with false by (symmetry; apply Nat.ltb_ge; lia).
    replace (x =? y) with false by (symmetry; apply Nat.eqb_neq; lia).
    f_equal. now apply IH.
Qed.

Lemma ee_union_absorb b : forall a, ssorted a -> (forall x, In x b -> In x a) -> set_union a b = a.
Proof.
  unfold set_union. induction b as [|y r IH]; intros a Hs Hsub; cbn [fold_left]; [reflexivity|].
  rewrite (ee_insert_in y a Hs) by (apply Hsub; now left). apply IH; [exact Hs|]. intros x Hx. apply Hsub. now right.
Qed.

Lemma ee_ssorted_seq m : forall s, ssorted (seq s m).
Proof.
  induction m as [|m IH]; intros s; cbn [seq ssorted]; [exact I|]. split; [|apply IH].
  intros y Hy. apply in_seq in Hy. lia.
Qed.

Lemma ee_ssorted_app a b : ssorted a -> ssorted b -> (forall x y, In x a -> In y b -> x < y) -> ssorted (a ++ b).
Proof.
  induction a as [|x r IH]; intros Ha Hb Hlt; cbn [app]; [exact Hb|]. cbn [ssorted] in *. destruct Ha as [A1 A2]. split.
  - intros y Hy. apply in_app_iff in Hy as [Hy|Hy]; [now apply A1 | apply Hlt; [now left | exact Hy]].
  - apply IH; [exact A2 | exact Hb|]. intros p q Hp Hq. apply Hlt; [now right | exact Hq].
Qed.

Lemma ee_ssorted_app_inv a b : ssorted (a ++ b) -> ssorted a /\ ssorted b /\ (forall x y, In x a -> In y b -> x < y).
Proof.
  induction a as [|x r IH]; cbn [app]; intros H.
  - split; [exact I|]. split; [exact H|]. intros ? ? [].
  - cbn [ssorted] in H. destruct H as [H1 H2]. destruct (IH H2) as (A & B & C). split; [|split; [exact B|]].
    + cbn [ssorted]. split; [|exact A]. intros y Hy. apply H1. apply in_app_iff. now left.
    + intros p q [<-|Hp] Hq; [apply H1; apply in_app_iff; now right | now apply C].
Qed.

Lemma ee_mem_ext a b : (forall z, In z a <-> In z b) -> forall z, mem z a = mem z b.
Proof.
  intros H z. destruct (mem z a) eqn:Ea, (mem z b) eqn:Eb; try reflexivity.
  - apply mem_In in Ea. apply mem_false_In in Eb. exfalso. apply Eb. now apply H.
  - apply mem_In in Eb. apply mem_false_In in Ea. exfalso. apply Ea. now apply H.
Qed.

(* two folds over an index range that agree wherever an invariant holds *)
Lemma ee_fold_seq_eq {A} (f g : A -> nat -> A) (P : nat -> A -> Prop) m : forall start acc,
  P start acc ->
  (forall j acc, start <= j -> j < start + m -> P j acc -> f acc j = g acc j /\ P (S j) (g acc j)) ->
  fold_left f (seq start m) acc = fold_left g (seq start m) acc.
Proof.
  induction m as [|m IH]; intros start acc H0 Hstep; cbn [seq fold_left]; [reflexivity|].
  destruct (Hstep start acc (Nat.le_refl _) ltac:(lia) H0) as [E P1]. rewrite E. apply IH; [exact P1|].
  intros j acc' Hj1 Hj2. apply Hstep; lia.
Qed.

(* ------------------------------------------------------------------ the state tree *)

Section Tree.
Variable c : fchart.
Hypothesis W : WF c.
Let n := nstates c.
Let par (i : nat) := fs_parent (st c i).
Notation Anc := (LegalAbstract.Anc par).

Lemma ee_anc_first_child a s : Anc a s -> exists k, par k = Some a /\ (k = s \/ Anc k s).
Proof.
  induction 1 as [i p Hp|i p a Hp Ha IH].
  - exists i. split; [exact Hp | now left].
  - destruct IH as (k & Hk & Hrel). exists k. split; [exact Hk|]. right.
    destruct Hrel as [->|Hrel]; [now apply anc_parent | eapply anc_step; eauto].
Qed.

(* FastMicroStep's "children" bit set: all descendants, as an index interval *)
Lemma ee_In_desc a y : a < n -> y < n -> (In y (desc c a) <-> Anc a y).
Proof.
  intros Ha Hy. unfold desc. rewrite in_seq. pose proof (wf_interval c W a y Ha Hy) as HI. fold par in HI.
  split; intros H; [apply HI; lia | apply HI in H; lia].
Qed.

Lemma ee_anc_antisym a b : Anc a b -> Anc b a -> False.
Proof. intros H1 H2. apply (anc_lt c W) in H1. apply (anc_lt c W) in H2. lia. Qed.

End Tree.
