(* TraceComplete.v -- completeness of the monitor notifications (C13, second half): an executable checker
   [trace_completeb] of a run's canonical trace against the configurations and step() results the run
   reports, and the specification functions ("skeletons") saying which notifications a micro-step must
   produce.  Model only: definitions, no proofs.

   The trace of a run (Interp.run_loop) is, per call of step():
        notifications of the step ; TRet rc ; TCfg configuration-after-the-step
   so the sequence of configurations is part of the token list.  The checker reads it as follows:

   * at most one event (TEv) is processed per step, before anything else the step reports;
   * at most one micro-step bracket per step; exits (TXb) and entries (TEb) only inside it;
   * after a step WITH a micro-step bracket, with old = configuration reported before, new = reported after,
     X = states with an exit bracket, E = states with an entry bracket (in order of appearance):
        X in strictly descending, E in strictly ascending document order (so nothing twice),
        X subset of old,  E disjoint from old - X,  new = (old - X) + E as sets, new in document order;
   * after a step WITHOUT a micro-step bracket the configuration is unchanged;
   * a stable-configuration notice (TStable) is the only notification of its step, the step returns
     RC_MACROSTEPPED, and every RC_MACROSTEPPED step has issued one; between two stable notices at least one
     event or micro-step was reported (once per macrostep); RC_IDLE is only returned while the last stable
     notice is still outstanding, i.e. nothing was processed since (stable before idle);
   * a step that reports an event or a micro-step returns RC_MICROSTEPPED; a completion bracket is the only
     notification of its step and the step returns RC_FINISHED.
   Executable content tokens (TCb/TCe/TLog) and the closing/transition brackets are ignored here: their
   nesting and order is the business of Trace.wf_traceb. *)
From V Require Import Base NameMatch Chart Exec Large Interp Trace.
Local Open Scope nat_scope.

(* ------------------------------------------------------------------ token classes, projections *)

Definition is_content (t : tok) : bool :=
  match t with TCb _ | TCe _ | TLog _ => true | _ => false end.

(* what remains of a token list when the reports of executable content are dropped *)
Definition skeleton (l : list tok) : list tok := filter (fun t => negb (is_content t)) l.

Definition xb_of (l : list tok) : list N := filter_map (fun t => match t with TXb s => Some s | _ => None end) l.
Definition xe_of (l : list tok) : list N := filter_map (fun t => match t with TXe s => Some s | _ => None end) l.
Definition eb_of (l : list tok) : list N := filter_map (fun t => match t with TEb s => Some s | _ => None end) l.
Definition ee_of (l : list tok) : list N := filter_map (fun t => match t with TEe s => Some s | _ => None end) l.
Definition tb_of (l : list tok) : list N := filter_map (fun t => match t with TTb s => Some s | _ => None end) l.
Definition te_of (l : list tok) : list N := filter_map (fun t => match t with TTe s => Some s | _ => None end) l.
Definition ev_of (l : list tok) : list bytes := filter_map (fun t => match t with TEv n => Some n | _ => None end) l.

(* ------------------------------------------------------------------ the checker *)

Definition memN (s : N) (l : list N) : bool := existsb (N.eqb s) l.

Fixpoint list_eqN (a b : list N) : bool :=
  match a, b with
  | [], [] => true
  | x :: a', y :: b' => (x =? y)%N && list_eqN a' b'
  | _, _ => false
  end.

(* strictly ascending *)
Fixpoint ascb (l : list nat) : bool :=
  match l with
  | [] => true
  | x :: r => match r with [] => true | y :: _ => (x <? y) && ascb r end
  end.

(* [ord] : document position of a state id; [o] old configuration, [xs] exited, [es] entered (both in the
   order reported), [n] new configuration *)
Definition delta_okb (ord : N -> nat) (o xs es n : list N) : bool :=
  ascb (map ord (rev xs)) && ascb (map ord es) && ascb (map ord n) &&
  forallb (fun s => memN s o) xs &&
  forallb (fun s => negb (memN s o) || memN s xs) es &&
  forallb (fun s => (memN s o && negb (memN s xs)) || memN s es) n &&
  forallb (fun s => memN s n) es &&
  forallb (fun s => memN s xs || memN s n) o.

(* what the current step has reported so far *)
Record pstep := {
  p_ev : bool;          (* an event *)
  p_ms : nat;           (* 0 no micro-step bracket, 1 inside one, 2 one closed *)
  p_xs : list N;        (* exits, newest first *)
  p_es : list N;        (* entries, newest first *)
  p_st : bool;          (* a stable notice *)
  p_cp : bool;          (* a completion bracket *)
  p_rc : option N       (* the result of step() *)
}.

Definition pstep0 : pstep :=
  {| p_ev := false; p_ms := 0; p_xs := []; p_es := []; p_st := false; p_cp := false; p_rc := None |}.

Definition pstep_fresh (p : pstep) : bool :=
  negb (p_ev p) && (p_ms p =? 0) && negb (p_st p) && negb (p_cp p) && match p_rc p with None => true | Some _ => false end.

Record cst := {
  k_cfg : list N;       (* the configuration last reported *)
  k_stable : bool;      (* a stable notice was issued and nothing was processed since *)
  k_step : pstep
}.

Definition tc_init : cst := {| k_cfg := []; k_stable := false; k_step := pstep0 |}.

Definition ret_okb (stable : bool) (p : pstep) (rc : N) : bool :=
  match p_rc p with Some _ => false | None => true end &&
  negb (p_ms p =? 1) &&
  Bool.eqb (p_st p) (rc =? RC_MACROSTEPPED)%N &&
  (negb (rc =? RC_IDLE)%N || (stable && negb (p_ev p) && (p_ms p =? 0) && negb (p_cp p))) &&
  (negb (p_ev p || (p_ms p =? 2)) || (rc =? RC_MICROSTEPPED)%N) &&
  (negb (p_cp p) || (rc =? RC_FINISHED)%N).

Definition tc_step (ord : N -> nat) (k : cst) (t : tok) : option cst :=
  let p := k_step k in
  match t with
  | TEv _ =>
      if pstep_fresh p then
        Some {| k_cfg := k_cfg k; k_stable := false;
                k_step := {| p_ev := true; p_ms := 0; p_xs := []; p_es := []; p_st := false; p_cp := false; p_rc := None |} |}
      else None
  | TMsB =>
      if (p_ms p =? 0) && negb (p_st p) && negb (p_cp p) && match p_rc p with None => true | Some _ => false end then
        Some {| k_cfg := k_cfg k; k_stable := false;
                k_step := {| p_ev := p_ev p; p_ms := 1; p_xs := []; p_es := []; p_st := false; p_cp := false; p_rc := None |} |}
      else None
  | TMsE =>
      if p_ms p =? 1 then
        Some {| k_cfg := k_cfg k; k_stable := k_stable k;
                k_step := {| p_ev := p_ev p; p_ms := 2; p_xs := p_xs p; p_es := p_es p; p_st := p_st p; p_cp := p_cp p; p_rc := p_rc p |} |}
      else None
  | TXb s =>
      if p_ms p =? 1 then
        Some {| k_cfg := k_cfg k; k_stable := k_stable k;
                k_step := {| p_ev := p_ev p; p_ms := 1; p_xs := s :: p_xs p; p_es := p_es p; p_st := p_st p; p_cp := p_cp p; p_rc := p_rc p |} |}
      else None
  | TEb s =>
      if p_ms p =? 1 then
        Some {| k_cfg := k_cfg k; k_stable := k_stable k;
                k_step := {| p_ev := p_ev p; p_ms := 1; p_xs := p_xs p; p_es := s :: p_es p; p_st := p_st p; p_cp := p_cp p; p_rc := p_rc p |} |}
      else None
  | TStable =>
      if pstep_fresh p && negb (k_stable k) then
        Some {| k_cfg := k_cfg k; k_stable := true;
                k_step := {| p_ev := false; p_ms := 0; p_xs := []; p_es := []; p_st := true; p_cp := false; p_rc := None |} |}
      else None
  | TComplB =>
      if pstep_fresh p then
        Some {| k_cfg := k_cfg k; k_stable := k_stable k;
                k_step := {| p_ev := false; p_ms := 0; p_xs := []; p_es := []; p_st := false; p_cp := true; p_rc := None |} |}
      else None
  | TRet rc =>
      if ret_okb (k_stable k) p rc then
        Some {| k_cfg := k_cfg k; k_stable := k_stable k;
                k_step := {| p_ev := p_ev p; p_ms := p_ms p; p_xs := p_xs p; p_es := p_es p; p_st := p_st p; p_cp := p_cp p; p_rc := Some rc |} |}
      else None
  | TCfg n =>
      match p_rc p with
      | None => None
      | Some _ =>
        if (if p_ms p =? 2 then delta_okb ord (k_cfg k) (rev (p_xs p)) (rev (p_es p)) n else list_eqN n (k_cfg k)) then
          Some {| k_cfg := n; k_stable := k_stable k; k_step := pstep0 |}
        else None
      end
  | _ => Some k
  end.

Fixpoint tc_run (ord : N -> nat) (k : cst) (l : list tok) : option cst :=
  match l with
  | [] => Some k
  | t :: r => match tc_step ord k t with Some k' => tc_run ord k' r | None => None end
  end.

(* the trace of a whole run: it ends at a step boundary *)
Definition trace_completeb (ord : N -> nat) (l : list tok) : bool :=
  match tc_run ord tc_init l with
  | Some k => pstep_fresh (k_step k)
  | None => false
  end.

(* position of the first offending token, for reports *)
Fixpoint tc_first_bad (ord : N -> nat) (k : cst) (l : list tok) (n : nat) : option nat :=
  match l with
  | [] => if pstep_fresh (k_step k) then None else Some n
  | t :: r => match tc_step ord k t with Some k' => tc_first_bad ord k' r (S n) | None => Some n end
  end.

(* ------------------------------------------------------------------ the chart side *)

Fixpoint find_pos (s : N) (l : list fstate) (n : nat) : nat :=
  match l with
  | [] => n
  | x :: r => if (fs_sid x =? s)%N then n else find_pos s r (S n)
  end.

(* document position of the state with id [s] (number of states if there is none) *)
Definition sid_pos (c : fchart) (s : N) : nat := find_pos s (fc_states c) 0.

(* ids identify states *)
Definition sids_distinctb (c : fchart) : bool :=
  forallb (fun i => sid_pos c (fs_sid (st c i)) =? i) (seq 0 (nstates c)).

Definition all_lt (n : nat) (l : list nat) : bool := forallb (fun i => i <? n) l.

(* no dangling state index can reach a configuration *)
Definition refs_in_rangeb (c : fchart) : bool :=
  forallb (fun s => all_lt (nstates c) (fs_completion s) && all_lt (nstates c) (fs_ancestors s)) (fc_states c) &&
  forallb (fun t => all_lt (nstates c) (ft_targets t)) (fc_trans c).

Definition report_okb (c : fchart) : bool :=
  sids_distinctb c && refs_in_rangeb c && ascb (fs_completion (st c 0)).

(* no <raise> with an empty event name (the model of step() takes an empty-named head of the internal
   queue for "nothing dequeued" and idles) *)
Fixpoint instr_names_okb (i : instr) : bool :=
  match i with
  | IRaise _ ev => match ev with [] => false | _ => true end
  | IIf _ _ body =>
      (fix go (l : list ifitem) : bool :=
         match l with
         | [] => true
         | FInstr j :: r => instr_names_okb j && go r
         | _ :: r => go r
         end) body
  | _ => true
  end.
Definition block_names_okb (b : block) : bool := forallb instr_names_okb b.
Definition raise_names_okb (c : fchart) : bool :=
  forallb (fun s => forallb block_names_okb (fs_onentry s) && forallb block_names_okb (fs_onexit s)) (fc_states c) &&
  forallb (fun t => block_names_okb (ft_body t)) (fc_trans c).

(* ------------------------------------------------------------------ what a micro-step must report *)

Section Skel.
Variable c : fchart.

Definition sid_of (i : nat) : N := fs_sid (st c i).
Definition vid_of (ti : nat) : N := ft_vid (tr c ti).

Definition is_pseudo_trans (ti : nat) : bool := ft_history (tr c ti) || ft_initial (tr c ti).

Definition exit_skel (l : list nat) : list tok := flat_map (fun i => [TXb (sid_of i); TXe (sid_of i)]) l.
Definition trans_skel (l : list nat) : list tok := flat_map (fun ti => [TTb (vid_of ti); TTe (vid_of ti)]) l.

(* the transitions of the optimal set proper (neither <initial> nor <history> default transitions) *)
Definition plain_trans (ts : list nat) : list nat := filter (fun ti => negb (is_pseudo_trans ti)) ts.

(* the <initial>/<history> transitions of [ts] that are taken when state [i] is entered *)
Definition pseudo_trans (ts : list nat) (i : nat) : list nat :=
  flat_map (fun ch => if is_pseudo (fs_type (st c ch))
                      then filter (fun ti => is_pseudo_trans ti && mem ti ts) (fs_trans (st c ch))
                      else [])
           (fs_children (st c i)).

(* [pt i] : the <initial>/<history> transitions reported after the entry of [i] *)
Definition entry_skel_with (pt : nat -> list nat) (l : list nat) : list tok :=
  flat_map (fun i => TEb (sid_of i) :: TEe (sid_of i) :: trans_skel (pt i)) l.
Definition entry_skel (ts : list nat) (l : list nat) : list tok := entry_skel_with (pseudo_trans ts) l.

(* the same for FastMicroStep: the <initial>/<history> transitions of [ts] whose source is a child of [i] *)
Definition fpseudo_trans (ts : list nat) (i : nat) : list nat :=
  filter (fun ti => is_pseudo_trans ti &&
                    match fs_parent (st c (ft_source (tr c ti))) with Some p => p =? i | None => false end) ts.

(* the proper states among those to enter *)
Definition entered_of (es1 : list nat) : list nat := filter (fun i => negb (is_pseudo (fs_type (st c i)))) es1.

Definition remove_all (xs cfg : list nat) : list nat := fold_left (fun a i => set_remove i a) xs cfg.
Definition insert_all (es cfg : list nat) : list nat := fold_left (fun a i => insert_sorted i a) es cfg.

(* notifications between beforeMicroStep and afterMicroStep: states [xs] exited (in this order), transitions
   [ts] taken, states [en] entered (in this order) *)
Definition micro_skel_with (pt : nat -> list nat) (xs tl en : list nat) : list tok :=
  exit_skel xs ++ trans_skel tl ++ entry_skel_with pt en.
Definition micro_skel (xs ts en : list nat) : list tok :=
  micro_skel_with (pseudo_trans ts) xs (plain_trans ts) en.

End Skel.

(* ------------------------------------------------------------------ which event a step dequeues *)

Inductive deq := DeqNone | DeqInt (e : event) | DeqExt (e : event) | DeqExtEmpty.

(* the decision of LargeMicroStep::step / FastMicroStep::step in front of the queues *)
Definition dequeues (l : lstate) (x : xstate) : deq :=
  if l_fin l || l_tlf l || is_pristine l || l_spont l then DeqNone
  else match x_iq x with
       | e :: _ => match ev_name e with [] => DeqNone | _ => DeqInt e end
       | [] =>
         if negb (l_stable l) then DeqNone
         else match x_eq x with
              | e :: _ => match ev_name e with [] => DeqExtEmpty | _ => DeqExt e end
              | [] => DeqNone
              end
       end.

Definition deq_names (d : deq) : list bytes :=
  match d with DeqInt e | DeqExt e => [ev_name e] | _ => [] end.

(* what a step does to the two queues: it takes the head the decision names and otherwise only appends *)
Definition grows (x x' : xstate) : Prop :=
  exists ai ae, x_iq x' = x_iq x ++ ai /\ x_eq x' = x_eq x ++ ae.
Definition pop_iq (x : xstate) : xstate :=
  {| x_store := x_store x; x_iq := tl (x_iq x); x_eq := x_eq x; x_out := x_out x |}.
Definition pop_eq (x : xstate) : xstate :=
  {| x_store := x_store x; x_iq := x_iq x; x_eq := tl (x_eq x); x_out := x_out x |}.
Definition queue_effect (d : deq) (x x' : xstate) : Prop :=
  match d with
  | DeqNone => grows x x'
  | DeqInt e => hd_error (x_iq x) = Some e /\ grows (pop_iq x) x'
  | DeqExt e => hd_error (x_eq x) = Some e /\ x_iq x = [] /\ grows (pop_eq x) x'
  | DeqExtEmpty => x_iq x = [] /\ grows (pop_eq x) x'
  end.

(* the events the driver loop's run dequeues, in order (same recursion as Interp.run_loop) *)
Section RunDeq.
Variable step : lstate -> xstate -> lstate * xstate * N.
Variable c : fchart.

Fixpoint run_deq (fuel : nat) (s : lstate) (x : xstate) (evs : list bytes) : list deq :=
  match fuel with
  | O => []
  | S f =>
    let '(s1, x1, rc) := step s x in
    let x2 := emit (cfg_tok c lstate l_cfg s1) (emit (TRet rc) x1) in
    dequeues s x ::
    (if (rc =? RC_FINISHED)%N then []
     else if (rc =? RC_IDLE)%N then
       match evs with
       | [] => []
       | e :: r => run_deq f s1 (raise_ext {| ev_name := e; ev_kind := EvExternal |} x2) r
       end
     else run_deq f s1 x2 evs)
  end.
End RunDeq.
